//! Correspondence / monitor harness: generates scripts of API calls, runs them on
//! the real crate (path dependency on /repo) and prints a trace of every call
//! (inputs and outputs as S-expressions) together with the history events the
//! monitors need.  The OCaml driver replays every call on the extracted Coq model.
//!
//! usage: verif-harness gen  <type> <seed> <cases> <len> <stream>   -> script on stdout
//!        verif-harness run  <script-file>                           -> trace on stdout
mod sexp;
mod types;

use sexp::to_sexp;
use std::collections::BTreeSet;
use std::io::{BufRead, Write};
use std::panic::{catch_unwind, AssertUnwindSafe};

pub struct Rng(pub u64);
impl Rng {
    pub fn next(&mut self) -> u64 {
        self.0 ^= self.0 << 13;
        self.0 ^= self.0 >> 7;
        self.0 ^= self.0 << 17;
        self.0
    }
    pub fn below(&mut self, n: u64) -> u64 {
        self.next() % n
    }
}

/// the numeric arguments of one script command, consumed in order
pub struct Args<'a> {
    v: &'a [u64],
    i: usize,
}
impl<'a> Args<'a> {
    pub fn next(&mut self) -> u64 {
        // past the explicit arguments of the command: a deterministic pseudo-random
        // continuation derived from them (so long probes do not degenerate to zeros)
        let x = match self.v.get(self.i) {
            Some(x) => *x,
            None => {
                let mut h: u64 = 0x9E3779B97F4A7C15 ^ (self.i as u64).wrapping_mul(0xD1B54A32D192ED03);
                for y in self.v.iter() {
                    h = (h ^ *y).wrapping_mul(0xFF51AFD7ED558CCD);
                    h ^= h >> 33;
                }
                h >> 11
            }
        };
        self.i += 1;
        x
    }
    pub fn below(&mut self, n: u64) -> u64 {
        self.next() % n
    }
}

pub struct Out {
    pub w: std::io::BufWriter<std::io::Stdout>,
}
impl Out {
    pub fn line(&mut self, s: &str) {
        self.w.write_all(s.as_bytes()).unwrap();
        self.w.write_all(b"\n").unwrap();
    }
    /// (call fn arg... result)
    pub fn call(&mut self, f: &str, parts: &[String]) {
        let mut s = String::from("(call ");
        s.push_str(f);
        for p in parts {
            s.push(' ');
            s.push_str(p);
        }
        s.push(')');
        self.line(&s);
    }
}

pub fn guard<R>(f: impl FnOnce() -> R) -> Option<R> {
    catch_unwind(AssertUnwindSafe(f)).ok()
}

pub const K_EDIT: u64 = 0;
pub const K_DELIVER: u64 = 1;
pub const K_MERGE: u64 = 2;
pub const K_SPAWN: u64 = 3;
pub const K_EXTRA: u64 = 4; // reset_remove laws, validate_merge, serde, pure-function probes
pub const K_RAW: u64 = 5; // malformed stream: arbitrary op
pub const K_MISUSE: u64 = 6; // edit with another replica's actor
pub const K_LAWS: u64 = 7; // merge laws on three replica states

/// What every replicated type under test provides.
pub trait Sut: Sized + Clone {
    type Op: Clone;
    const NAME: &'static str;
    const HAS_MERGE: bool;
    fn new() -> Self;
    /// build one op through the public API, logging every API call made
    fn edit(&self, actor: u64, a: &mut Args, t: &mut Out) -> Option<Self::Op>;
    /// an arbitrary (possibly ill-formed) op
    fn raw(a: &mut Args) -> Self::Op;
    fn apply_logged(&mut self, op: &Self::Op, t: &mut Out);
    /// serde_json round trip of an op: "ok" | "ne" | "err" | "deerr"
    fn op_roundtrip(op: &Self::Op) -> &'static str;
    /// log validate_op of an op without applying it
    fn validate_only(&self, _op: &Self::Op, _t: &mut Out) {}
    /// apply without logging (used to rebuild the canonical state of a knowledge set)
    fn apply_quiet(&mut self, op: &Self::Op);
    /// structural equality as the crate defines it (==)
    fn same(&self, o: &Self) -> bool;
    /// canonical rendering of everything the read entry points return (values and contexts)
    fn reads_sx(&self) -> String;
    fn merge_logged(&mut self, o: &Self, t: &mut Out);
    fn merge_quiet(&mut self, o: &Self);
    /// log every read entry point
    fn reads(&self, a: &mut Args, t: &mut Out);
    /// reset_remove laws, validate_merge, serde round trip, ...
    fn extra(&self, other: &Self, a: &mut Args, t: &mut Out);
    fn sx(&self) -> String;
    fn op_sx(op: &Self::Op) -> String;
    /// the actor whose per-actor order this op belongs to and whether the op is
    /// an "update" (carries a dot) -- for admissibility
    fn op_actor(op: &Self::Op) -> Option<u64>;
}

struct OpRec<O> {
    author: usize,
    op: O,
    deps: BTreeSet<usize>,
}

fn admissible<O>(log: &[OpRec<O>], know: &BTreeSet<usize>, i: usize, disc: u64) -> bool {
    match disc {
        0 => log[i].deps.iter().all(|d| know.contains(d)), // causal
        1 => (0..i).all(|j| log[j].author != log[i].author || know.contains(&j)), // per-actor
        _ => true,
    }
}

fn run_case<S: Sut>(id: &str, disc: u64, cmds: &[Vec<u64>], t: &mut Out) {
    t.line(&format!("(case {} {} {})", id, S::NAME, disc));
    let mut reps: Vec<S> = vec![S::new(), S::new(), S::new()];
    let mut know: Vec<BTreeSet<usize>> = vec![BTreeSet::new(), BTreeSet::new(), BTreeSet::new()];
    let mut log: Vec<OpRec<S::Op>> = Vec::new();
    let mut tainted = false;
    for (ci, c) in cmds.iter().enumerate() {
        let kind = c[0];
        let r = (c[1] as usize) % reps.len();
        let mut a = Args { v: &c[2..], i: 0 };
        t.line(&format!("(cmd {} {} {})", ci, kind, r));
        match kind {
            K_EDIT | K_MISUSE => {
                let actor = if kind == K_MISUSE {
                    tainted = true;
                    t.line("(taint misuse)");
                    (a.next() as usize % reps.len()) as u64
                } else {
                    r as u64
                };
                let st = reps[r].clone();
                t.line(&format!("(pre edit {} {})", r, actor));
                if let Some(op) = st.edit(actor, &mut a, t) {
                    let idx = log.len();
                    let deps = know[r].clone();
                    t.line(&format!(
                        "(op {} {} {} (deps{}))",
                        idx,
                        r,
                        S::op_sx(&op),
                        deps.iter().map(|d| format!(" {}", d)).collect::<String>()
                    ));
                    t.call("serde.op", &[S::NAME.to_string(), S::op_sx(&op), S::op_roundtrip(&op).to_string()]);
                    reps[r].apply_logged(&op, t);
                    log.push(OpRec { author: r, op, deps });
                    know[r].insert(idx);
                    t.line(&format!("(ev edit {} {})", r, idx));
                }
            }
            K_DELIVER => {
                if !log.is_empty() {
                    let want_dup = a.below(5) == 0;
                    let cands: Vec<usize> = (0..log.len())
                        .filter(|i| admissible(&log, &know[r], *i, disc))
                        .filter(|i| know[r].contains(i) == want_dup)
                        .collect();
                    if !cands.is_empty() {
                        let i = cands[a.below(cands.len() as u64) as usize];
                        let op = log[i].op.clone();
                        t.line(&format!("(pre deliver {} {} {})", r, i, want_dup as u8));
                        let before = reps[r].clone();
                        reps[r].apply_logged(&op, t);
                        know[r].insert(i);
                        t.line(&format!("(ev deliver {} {})", r, i));
                        if want_dup {
                            t.line(&format!("(law C09 dup {} {} {} {})", before.same(&reps[r]), before.reads_sx() == reps[r].reads_sx(), before.sx(), reps[r].sx()));
                        }
                    }
                }
            }
            K_MERGE => {
                if S::HAS_MERGE {
                    let r2 = (a.next() as usize) % reps.len();
                    let o = reps[r2].clone();
                    t.line(&format!("(pre merge {} {})", r, r2));
                    let before = reps[r].clone();
                    let stale = know[r2].is_subset(&know[r]);
                    reps[r].merge_logged(&o, t);
                    let k2 = know[r2].clone();
                    know[r].extend(k2);
                    t.line(&format!("(ev merge {} {})", r, r2));
                    if stale {
                        t.line(&format!("(law C09 stale {} {} {} {})", before.same(&reps[r]), before.reads_sx() == reps[r].reads_sx(), before.sx(), reps[r].sx()));
                    }
                }
            }
            K_SPAWN => {
                if reps.len() < 5 {
                    let from = a.next() as usize % (reps.len() + 1);
                    if from < reps.len() && S::HAS_MERGE {
                        reps.push(reps[from].clone());
                        know.push(know[from].clone());
                    } else {
                        reps.push(S::new());
                        know.push(BTreeSet::new());
                    }
                    t.line(&format!("(ev spawn {} {})", reps.len() - 1, from));
                    let nr = reps.len() - 1;
                    t.line(&format!(
                        "(obs {} (know{}) {})",
                        nr,
                        know[nr].iter().map(|d| format!(" {}", d)).collect::<String>(),
                        reps[nr].sx()
                    ));
                }
            }
            K_EXTRA => {
                let r2 = (a.next() as usize) % reps.len();
                let o = reps[r2].clone();
                reps[r].extra(&o, &mut a, t);
                if !log.is_empty() {
                    // validate_op of an arbitrary op of the history (possibly out of order), not applied
                    let i = a.next() as usize % log.len();
                    t.line(&format!("(pre probe {} {} 0)", r, i));
                    reps[r].validate_only(&log[i].op, t);
                    t.line("(pre none)");
                }
            }
            K_LAWS => {
                if S::HAS_MERGE {
                    let r2 = (a.next() as usize) % reps.len();
                    let r3 = (a.next() as usize) % reps.len();
                    let (x, y, z) = (reps[r].clone(), reps[r2].clone(), reps[r3].clone());
                    // the merges behind the laws are logged calls as well, so that a deviation of the implementation from
                    // the model on exactly these inputs is seen by the correspondence check
                    t.line("(pre law)");
                    let mut xy = x.clone();
                    xy.merge_logged(&y, t);
                    let mut yx = y.clone();
                    yx.merge_logged(&x, t);
                    t.line(&format!("(law C02 comm {} {} {} {})", xy.same(&yx), xy.reads_sx() == yx.reads_sx(), xy.sx(), yx.sx()));
                    let mut xy_z = xy.clone();
                    xy_z.merge_logged(&z, t);
                    let mut yz = y.clone();
                    yz.merge_logged(&z, t);
                    let mut x_yz = x.clone();
                    x_yz.merge_logged(&yz, t);
                    t.line(&format!("(law C02 assoc {} {} {} {})", xy_z.same(&x_yz), xy_z.reads_sx() == x_yz.reads_sx(), xy_z.sx(), x_yz.sx()));
                    let mut xx = x.clone();
                    xx.merge_logged(&x, t);
                    t.line("(pre none)");
                    t.line(&format!("(law C02 idem {} {} {} {})", xx.same(&x), xx.reads_sx() == x.reads_sx(), xx.sx(), x.sx()));
                    // hybrid: merge vs delivering the union of the ops
                    let mut ku = know[r].clone();
                    ku.extend(know[r2].iter().cloned());
                    let mut rebuilt = S::new();
                    for i in ku.iter() {
                        rebuilt.apply_quiet(&log[*i].op);
                    }
                    t.line(&format!("(law C03 hybrid {} {} {} {})", xy.same(&rebuilt), xy.reads_sx() == rebuilt.reads_sx(), xy.sx(), rebuilt.sx()));
                }
            }
            K_RAW => {
                tainted = true;
                t.line("(taint raw)");
                let op = S::raw(&mut a);
                t.line(&format!("(rawop {} {})", r, S::op_sx(&op)));
                reps[r].apply_logged(&op, t);
            }
            _ => {}
        }
        t.line(&format!(
            "(obs {} (know{}) {})",
            r,
            know[r].iter().map(|d| format!(" {}", d)).collect::<String>(),
            reps[r].sx()
        ));
        let mut ra = Args { v: &c[2..], i: 3 };
        reps[r].reads(&mut ra, t);
        if !tainted {
            // the canonical state of this knowledge set: its ops delivered in causal (generation) order
            let mut canon = S::new();
            for i in know[r].iter() {
                canon.apply_quiet(&log[*i].op);
            }
            t.line(&format!(
                "(canon {} {} {} {})",
                r,
                canon.same(&reps[r]),
                canon.reads_sx() == reps[r].reads_sx(),
                canon.sx()
            ));
        }
    }
    t.line("(endcase)");
}

fn gen_script(ty: &str, seed: u64, cases: u64, len: u64, stream: &str) {
    let mut rng = Rng(seed.wrapping_mul(0x9E3779B97F4A7C15) ^ 0xD1B54A32D192ED03 | 1);
    for _ in 0..8 {
        rng.next();
    }
    let out = std::io::stdout();
    let mut w = out.lock();
    let order_free = matches!(
        ty,
        "gcounter" | "pncounter" | "gset" | "maxreg" | "minreg" | "lww" | "glist" | "merkle" | "mvreg"
    );
    for c in 0..cases {
        // delivery discipline: 0 causal, 1 per-actor, 2 any
        let disc = match ty {
            "list" => 0,
            _ if order_free => rng.below(3),
            _ => rng.below(2),
        };
        // a quarter of the structured cases start with a directed prelude: a classic
        // scenario (overtaking removes sharing one context, a member present on both sides
        // but removed by a peer that saw a subset of its witnesses, multi-valued registers
        // meeting in a merge, ...) with randomised roles, followed by a random suffix
        let prelude = if stream != "malformed" {
            if rng.below(4) == 0 { directed_prelude(ty, &mut rng) } else { None }
        } else if rng.below(4) == 0 {
            misuse_prelude(ty, &mut rng)
        } else {
            None
        };
        let disc = match &prelude { Some((d, _)) => *d, None => disc };
        writeln!(w, "case {}-{} {} {}", seed, c, ty, disc).unwrap();
        if let Some((_, cmds)) = &prelude {
            for cmd in cmds {
                let mut full = cmd.clone();
                while full.len() < 12 {
                    full.push(rng.next() >> 11);
                }
                writeln!(w, "{}", full.iter().map(|x| x.to_string()).collect::<Vec<_>>().join(" ")).unwrap();
            }
        }
        let n = 2 + rng.below(len.max(3) - 1);
        for _ in 0..n {
            let k = rng.below(100);
            let kind = match stream {
                "malformed" => match k {
                    0..=24 => K_EDIT,
                    25..=44 => K_DELIVER,
                    45..=54 => K_MERGE,
                    55..=59 => K_SPAWN,
                    60..=74 => K_EXTRA,
                    75..=94 => K_RAW,
                    _ => K_MISUSE,
                },
                _ => match k {
                    0..=39 => K_EDIT,
                    40..=64 => K_DELIVER,
                    65..=77 => K_MERGE,
                    78..=82 => K_SPAWN,
                    83..=89 => K_LAWS,
                    _ => K_EXTRA,
                },
            };
            let r = rng.below(5);
            let args: Vec<String> = (0..10).map(|_| (rng.next() >> 11).to_string()).collect();
            writeln!(w, "{} {} {}", kind, r, args.join(" ")).unwrap();
        }
        writeln!(w, "end").unwrap();
    }
}

/// Directed preludes (structured stream).  Each command is [kind, replica, args...]; the
/// args select the API call exactly as the interpreters in types.rs consume them.
fn directed_prelude(ty: &str, rng: &mut Rng) -> Option<(u64, Vec<Vec<u64>>)> {
    // a random assignment of the three initial replicas to the roles A, B, C
    let perm = match rng.below(6) {
        0 => [0, 1, 2],
        1 => [0, 2, 1],
        2 => [1, 0, 2],
        3 => [1, 2, 0],
        4 => [2, 0, 1],
        _ => [2, 1, 0],
    };
    let (ra, rb, rc) = (perm[0], perm[1], perm[2]);
    let m0 = rng.below(3);
    let m1 = (m0 + 1 + rng.below(2)) % 3;
    let nodup = 1; // first DELIVER arg: 0 = re-deliver a known op, otherwise an unknown one
    match ty {
        "orswot" => Some(match rng.below(7) {
            // a snapshot taken before a remove picks up a concurrent add and is merged back;
            // then the remove of that concurrent add arrives: nothing may keep the member alive
            6 => (1, vec![
                vec![K_EDIT, ra, m0, 0],                 // R: add m0                   (op 0)
                vec![K_SPAWN, 0, ra],                    // Q := snapshot of R           (replica 3)
                vec![K_EDIT, ra, m0, 4],                 // R: rm m0                     (op 1)
                vec![K_EDIT, rb, m0, 0],                 // P: add m0 concurrently      (op 2)
                vec![K_DELIVER, 3, nodup, 1],            // Q gets P's add
                vec![K_MERGE, ra, 3],                    // R <- Q
                vec![K_EDIT, rb, m0, 4],                 // P: rm m0 (its own add)      (op 3)
                vec![K_DELIVER, ra, nodup, 0],           // R gets that remove
                vec![K_MERGE, rc, ra],
                vec![K_MERGE, rc, rb],
            ]),
            // two removers (different actors) remove different members under the SAME context;
            // each remove reaches a different fresh replica before the add; the merge laws are
            // probed on those two states, then they merge and the add arrives
            4 => (1, vec![
                vec![K_EDIT, ra, m0, 3, m1, m1, 1],     // A: add_all [m0, m1]         (op 0)
                vec![K_DELIVER, rb, nodup, 0],
                vec![K_DELIVER, rc, nodup, 0],
                vec![K_EDIT, rb, m0, 4],                 // B: rm m0, ctx {A:1}          (op 1)
                vec![K_EDIT, rc, m1, 4],                 // C: rm m1, ctx {A:1}          (op 2)
                vec![K_SPAWN, 0, 3],                     // fresh D
                vec![K_SPAWN, 0, 4],                     // fresh E
                vec![K_DELIVER, 3, nodup, 1],            // D gets B's remove: pending
                vec![K_DELIVER, 4, nodup, 2],            // E gets C's remove: pending
                vec![K_LAWS, 3, 4, ra],
                vec![K_LAWS, 4, 3, rb],
                vec![K_MERGE, 3, 4],
                vec![K_DELIVER, 3, nodup, 0],            // the add arrives at D
                vec![K_DELIVER, 4, nodup, 0],            // and at E
                vec![K_MERGE, 4, 3],
            ]),
            // a member witnessed by two actors; two removers each saw a different single witness;
            // the holder of both witnesses meets them in either grouping
            5 => (1, vec![
                vec![K_EDIT, ra, m0, 0],                 // A: add m0                   (op 0)
                vec![K_EDIT, rb, m0, 0],                 // B: add m0 concurrently      (op 1)
                vec![K_DELIVER, rc, nodup, 0],           // C learns A's add only
                vec![K_EDIT, rc, m0, 4],                 // C: rm m0 (saw A's witness)  (op 2)
                vec![K_SPAWN, 0, 3],                     // fresh D
                vec![K_DELIVER, 3, nodup, 1],            // D learns B's add only
                vec![K_EDIT, 3, m0, 4],                  // D: rm m0 (saw B's witness)  (op 3)
                vec![K_DELIVER, ra, nodup, 0],           // A learns B's add: holds both witnesses
                vec![K_LAWS, ra, rc, 3],
                vec![K_LAWS, rc, ra, 3],
                vec![K_LAWS, 3, rc, ra],
                vec![K_MERGE, ra, rc],
                vec![K_MERGE, ra, 3],
            ]),
            // a pending remove must travel with a merged state to a replica that already has the add
            3 => (1, vec![
                vec![K_EDIT, ra, m0, 0],                 // A: add m0                   (op 0)
                vec![K_DELIVER, rb, nodup, 0],           // B learns it
                vec![K_EDIT, rb, m0, 4],                 // B: rm m0                     (op 1)
                vec![K_DELIVER, rc, nodup, 1],           // C gets the remove before the add: pending
                vec![K_MERGE, ra, rc],                   // A (has the add, not the remove) <- C
                vec![K_MERGE, rc, ra],
            ]),
            // two removes sharing one context overtake the add they cover
            0 => (1, vec![
                vec![K_EDIT, ra, m0, 3, m1, m1, 1],     // add_all [m0, m1]           (op 0)
                vec![K_DELIVER, rb, nodup, 0],           // B learns it
                vec![K_EDIT, rb, m0, 4],                 // B: rm m0 with contains ctx (op 1)
                vec![K_EDIT, rb, m1, 4],                 // B: rm m1, same context      (op 2)
                vec![K_DELIVER, rc, nodup, 1],           // C gets op 1 before the add
                vec![K_DELIVER, rc, nodup, 1],           // C gets op 2
                vec![K_DELIVER, rc, nodup, 0],           // C gets the add
            ]),
            // a member with two concurrent witnesses, removed by a peer that saw only one
            1 => (1, vec![
                vec![K_EDIT, ra, m0, 0],                 // A: add m0                   (op 0)
                vec![K_EDIT, rb, m0, 0],                 // B: add m0 concurrently      (op 1)
                vec![K_DELIVER, rc, nodup, 0],           // C learns A's add only
                vec![K_EDIT, rc, m0, 4],                 // C: rm m0                     (op 2)
                vec![K_DELIVER, ra, nodup, 0],           // A learns B's add
                vec![K_MERGE, ra, rc],                   // A <- C
                vec![K_MERGE, rc, rb],                   // C <- B
            ]),
            // the same, the removes meeting in merges of states holding pending removes
            _ => (1, vec![
                vec![K_EDIT, ra, m0, 3, m1, m1, 1],
                vec![K_DELIVER, rb, nodup, 0],
                vec![K_EDIT, rb, m0, 8],                 // B: rm m0 with the whole-clock context
                vec![K_EDIT, rb, m1, 8],                 // B: rm m1, same context
                vec![K_DELIVER, rc, nodup, 1],
                vec![K_SPAWN, 0, 3],                     // a fresh replica D
                vec![K_DELIVER, 3, nodup, 2],            // D gets op 2 only (per-actor: needs op 1 first, else no-op)
                vec![K_MERGE, rc, 3],
                vec![K_MERGE, rc, ra],
            ]),
        }),
        // two replicas write the same content-addressed node independently; one of them
        // overwrites it; a third replica receives the equal node after the overwriting one
        "merkle" if rng.below(2) == 0 => Some((2, vec![
            vec![K_EDIT, ra, 0, 0],                      // A: root n                    (op 0)
            vec![K_EDIT, rb, 0, 0],                      // B: the equal node            (op 1)
            vec![K_EDIT, ra, 1, 2],                      // A: c on top of n             (op 2)
            vec![K_DELIVER, rc, nodup, 0],               // C gets n
            vec![K_DELIVER, rc, nodup, 1],               // C gets c
            vec![K_DELIVER, rc, nodup, 0],               // C gets B's equal node
            vec![K_DELIVER, rb, nodup, 1],               // B gets c
        ])),
        "merkle" => Some((2, vec![
            // a node arrives before its child at one replica (orphan); the replica holding the
            // child merges that state
            vec![K_EDIT, ra, 0, 0],                      // A: root a                    (op 0)
            vec![K_EDIT, ra, 1, 2],                      // A: c on top of the heads     (op 1)
            vec![K_EDIT, ra, 2, 2],                      // A: d on top of c             (op 2)
            vec![K_DELIVER, rc, nodup, 1],               // C gets c first: orphan
            vec![K_DELIVER, rc, nodup, 1],               // C gets d, whose child is that orphan
            vec![K_DELIVER, rb, nodup, 0],               // B gets a
            vec![K_MERGE, rb, rc],                       // B <- C
            vec![K_MERGE, rc, rb],
        ])),
        // Map<K, Orswot>: two nested member removes (different member sets) are parked inside the set under
        // k0 because they overtook B's add; a key remove by a replica that saw only X's updates then trims
        // both pending contexts onto the same clock ({B:1}); finally B's add arrives (F1 territory)
        "mapor" if rng.below(7) == 0 => {
            let m2 = 3 - m0 - m1;
            Some((1, vec![
                vec![K_EDIT, ra, 0, 0, 1, m2, 0],        // X: update k0, add m2               (op 0)
                vec![K_EDIT, rb, 0, 0, 1, m0, 0],        // B: update k0, add m0               (op 1)
                vec![K_DELIVER, rc, nodup, 0],
                vec![K_DELIVER, rc, nodup, 0],           // A has seen both
                vec![K_EDIT, rc, 0, 0, 1, 0, 3],         // A: update k0, rm_all, ctx {X:1,B:1} (op 2)
                vec![K_EDIT, ra, 0, 0, 1, m1, 0],        // X: update k0, add m1               (op 3)
                vec![K_DELIVER, rc, nodup, 0],
                vec![K_EDIT, rc, 0, 0, 1, 0, 3],         // A: update k0, rm_all, ctx {X:2,B:1} (op 4)
                vec![K_SPAWN, 0, 3],                     // fresh C
                vec![K_DELIVER, 3, nodup, 0],            // C gets op 0
                vec![K_DELIVER, 3, nodup, 2],            // C gets op 3 (deliverable: 1 2 3)
                vec![K_EDIT, 3, 0, 5],                   // C: rm k0, context {X:2}            (op 5)
                vec![K_SPAWN, 0, 4],                     // fresh R
                vec![K_DELIVER, 4, nodup, 0],            // R gets op 0
                vec![K_DELIVER, 4, nodup, 2],            // R gets op 3 (deliverable: 1 2 3 5)
                vec![K_DELIVER, 4, nodup, 1],            // R gets op 2: parked inside the set
                vec![K_DELIVER, 4, nodup, 1],            // R gets op 4: parked inside the set
                vec![K_DELIVER, 4, nodup, 1],            // R gets the key remove: both contexts become {B:1}
                vec![K_DELIVER, 4, nodup, 0],            // B's add arrives
                vec![K_MERGE, rb, 4],
            ]))
        }
        // a key remove that overtakes an update it covers, while an older update it does NOT cover is already there:
        // the covered update carries a nested edit (remove / overwrite) whose effect reaches the uncovered content.
        // (The remover's context {A:1} comes from an entry whose other witness D:1 a third replica had removed, so that
        // no nested remove is ever parked and lost at the remover.)
        "mapor" | "mapmm" | "mapmo" | "mapmv" if rng.below(7) == 0 => Some((1, vec![
            vec![K_EDIT, ra, 0, 0, 1, m0, 0],            // D: update k0                                  (op 0)
            vec![K_DELIVER, rb, nodup, 0],               // A has seen it
            vec![K_EDIT, rb, 0, 0, 1, m0, 3],            // A: update k0 with a nested remove / overwrite  (op 1)
            vec![K_SPAWN, 0, 3],                         // fresh E
            vec![K_DELIVER, 3, nodup, 0],                // E gets D's update only
            vec![K_EDIT, 3, 0, 5],                       // E: rm k0, context {D:1}                        (op 2)
            vec![K_DELIVER, rc, nodup, 0],               // C gets D's update,
            vec![K_DELIVER, rc, nodup, 0],               //   A's update,
            vec![K_DELIVER, rc, nodup, 0],               //   E's remove: the entry is left with witness A:1
            vec![K_EDIT, rc, 0, 5],                      // C: rm k0, context {A:1}                        (op 3)
            vec![K_SPAWN, 0, 4],                         // fresh R
            vec![K_DELIVER, 4, nodup, 0],                // R gets D's update
            vec![K_DELIVER, 4, nodup, 2],                // R gets C's remove: parked (A:1 unseen)
            vec![K_DELIVER, 4, nodup, 0],                // R gets A's update: applied, then the parked remove fires
            vec![K_DELIVER, ra, nodup, 0],               // D's replica: A's update, then C's remove (causal order)
            vec![K_DELIVER, ra, nodup, 1],
        ])),
        // a key witnessed by two actors; two removers each saw a different single witness; the two holders
        // (each applied one of the removes) meet in a merge: nothing is left of the entry on either side
        "mapor" | "mapmm" | "mapmo" | "mapmv" if rng.below(7) == 0 => Some((1, vec![
            vec![K_EDIT, ra, 0, 0, 1, m0, 0],            // A: update k0                       (op 0)
            vec![K_EDIT, rb, 0, 0, 1, m1, 0],            // B: update k0 concurrently          (op 1)
            vec![K_DELIVER, rc, nodup, 0],               // C learns A's update only
            vec![K_EDIT, rc, 0, 5],                      // C: rm k0 (saw A's witness)         (op 2)
            vec![K_SPAWN, 0, 3],                         // fresh D
            vec![K_DELIVER, 3, nodup, 1],                // D learns B's update only
            vec![K_EDIT, 3, 0, 5],                       // D: rm k0 (saw B's witness)         (op 3)
            vec![K_DELIVER, ra, nodup, 0],               // A learns B's update: holds both witnesses
            vec![K_DELIVER, rb, nodup, 0],               // B learns A's update: holds both witnesses
            vec![K_DELIVER, ra, nodup, 0],               // A applies C's remove: B's witness is left
            vec![K_DELIVER, rb, nodup, 1],               // B applies D's remove: A's witness is left
            vec![K_LAWS, ra, rb, rc],
            vec![K_MERGE, ra, rb],                       // both witnesses are gone
            vec![K_MERGE, rb, ra],
        ])),
        "mapor" | "mapmm" | "mapmo" | "mapmv" => Some(match rng.below(7) {
            // one actor updates a key twice, the remover saw only the first update; a snapshot taken before the remove
            // (both updates, no remove) is merged with the replica that applied it: equal entry clocks, different values
            6 => (1, vec![
                vec![K_EDIT, ra, 0, 0, 1, m0, 0],        // A: update k0                       (op 0)
                vec![K_DELIVER, rc, nodup, 0],
                vec![K_EDIT, ra, 0, 0, 1, m1, 0],        // A: update k0 again                 (op 1)
                vec![K_SPAWN, 0, ra],                    // D := snapshot of A (both updates, no remove)
                vec![K_EDIT, rc, 0, 5],                  // C: rm k0 (saw only op 0)           (op 2)
                vec![K_DELIVER, ra, nodup, 0],           // A gets the remove
                vec![K_DELIVER, rc, nodup, 0],           // C gets the second update
                vec![K_LAWS, 3, ra, rc],
                vec![K_MERGE, 3, ra],                    // D <- A
                vec![K_MERGE, rb, rc],
            ]),
            // a parked remove travels inside a state to a replica that already holds the update it
            // covers but never received the remove op; then again through an empty relay
            5 => (1, vec![
                vec![K_EDIT, ra, 0, 0, 1, m0, 0],        // A: update k0                       (op 0)
                vec![K_DELIVER, rb, nodup, 0],
                vec![K_EDIT, rb, 0, 5],                  // B: rm k0 with the get() context    (op 1)
                vec![K_DELIVER, rc, nodup, 0],           // C holds the update only
                vec![K_SPAWN, 0, 3],                     // fresh D
                vec![K_DELIVER, 3, nodup, 1],            // D parks the remove
                vec![K_MERGE, ra, 3],                    // A (update, no remove) <- D
                vec![K_SPAWN, 0, 4],                     // fresh E
                vec![K_MERGE, 4, 3],                     // E <- D: relay of the parked remove
                vec![K_MERGE, rc, 4],                    // C (update, no remove) <- E
            ]),
            // two removes issued from one read context (equal clocks, different keys) are parked
            // on two different fresh replicas, which merge before the updates arrive
            2 => (1, vec![
                vec![K_EDIT, ra, 0, 0, 1, m0, 0],        // A: update k0                       (op 0)
                vec![K_EDIT, ra, 1, 0, 1, m1, 0],        // A: update k1                       (op 1)
                vec![K_DELIVER, rb, nodup, 0],
                vec![K_DELIVER, rb, nodup, 0],
                vec![K_DELIVER, rc, nodup, 0],
                vec![K_DELIVER, rc, nodup, 0],
                vec![K_EDIT, rb, 0, 7],                  // B: rm k0 with the read_ctx context (op 2)
                vec![K_EDIT, rc, 1, 7],                  // C: rm k1, same context             (op 3)
                vec![K_SPAWN, 0, 3],                     // fresh D
                vec![K_SPAWN, 0, 4],                     // fresh E
                vec![K_DELIVER, 3, nodup, 1],            // D parks B's remove
                vec![K_DELIVER, 4, nodup, 2],            // E parks C's remove
                vec![K_LAWS, 3, 4, ra],
                vec![K_MERGE, 3, 4],
                vec![K_DELIVER, 3, nodup, 0],            // the updates arrive at D
                vec![K_DELIVER, 3, nodup, 0],
                vec![K_MERGE, 4, 3],
            ]),
            // a remove whose context spans two actors is parked; the covered updates arrive one
            // actor at a time, by op and then inside a merged state
            3 => (1, vec![
                vec![K_EDIT, ra, 0, 0, 1, m0, 0],        // A: update k0                       (op 0)
                vec![K_EDIT, rb, 0, 0, 1, m1, 0],        // B: update k0 concurrently          (op 1)
                vec![K_DELIVER, rc, nodup, 0],
                vec![K_DELIVER, rc, nodup, 0],           // C has seen both
                vec![K_EDIT, rc, 0, 5],                  // C: rm k0, context {A:1,B:1}        (op 2)
                vec![K_SPAWN, 0, 3],                     // fresh D
                vec![K_DELIVER, 3, nodup, 2],            // D parks the remove
                vec![K_DELIVER, 3, nodup, 0],            // A's update arrives alone
                vec![K_SPAWN, 0, 4],                     // fresh E
                vec![K_DELIVER, 4, nodup, 2],            // E parks the remove too
                vec![K_MERGE, 4, rb],                    // B's update arrives inside a state
                vec![K_DELIVER, 3, nodup, 0],            // B's update arrives at D
                vec![K_MERGE, 3, 4],
            ]),
            // a parked remove; the update it covers arrives inside a merged state, in both directions
            4 => (1, vec![
                vec![K_EDIT, ra, 0, 0, 1, m0, 0],        // A: update k0                       (op 0)
                vec![K_EDIT, ra, 0, 0, 1, m1, 0],        // A: update k0 again                 (op 1)
                vec![K_DELIVER, rb, nodup, 0],
                vec![K_DELIVER, rb, nodup, 0],
                vec![K_EDIT, rb, 0, 5],                  // B: rm k0, context {A:2}            (op 2)
                vec![K_SPAWN, 0, 3],                     // fresh D
                vec![K_DELIVER, 3, nodup, 1],            // D parks the remove
                vec![K_MERGE, 3, ra],                    // D <- A: the updates arrive by state
                vec![K_MERGE, rc, 3],                    // C <- D
                vec![K_MERGE, ra, 3],                    // A <- D: the parked remove travels
            ]),
            // a key remove that only partly empties an entry, then a merge with a stale replica
            0 => (1, vec![
                vec![K_EDIT, ra, 0, 0, 1, m0, 0],        // A: update k0 (nested add/write)   (op 0)
                vec![K_EDIT, rb, 0, 0, 1, m1, 0],        // B: update k0 concurrently          (op 1)
                vec![K_DELIVER, rc, nodup, 0],           // C learns A's update only
                vec![K_EDIT, rc, 0, 5],                  // C: rm k0 with the get() context    (op 2)
                vec![K_DELIVER, ra, nodup, 0],           // A learns B's update: stale {both}
                vec![K_DELIVER, rb, nodup, 0],           // B learns A's update
                vec![K_DELIVER, rb, nodup, 0],           // B learns the remove
                vec![K_MERGE, rb, ra],                   // up-to-date <- stale
                vec![K_MERGE, ra, rb],
            ]),
            // one actor updates a key twice, the remover saw only the first update
            _ => (1, vec![
                vec![K_EDIT, ra, 0, 0, 1, m0, 0],        // A: update k0                       (op 0)
                vec![K_DELIVER, rc, nodup, 0],
                vec![K_EDIT, ra, 0, 0, 1, m1, 0],        // A: update k0 again                 (op 1)
                vec![K_EDIT, rc, 0, 5],                  // C: rm k0 (saw only op 0)           (op 2)
                vec![K_DELIVER, ra, nodup, 0],           // A gets the remove
                vec![K_DELIVER, rc, nodup, 0],           // C gets the second update
            ]),
        }),
        "list" => Some((0, vec![
            // two sites delete the same element concurrently; each delete reaches a replica
            // where the element is already gone; then further ops of both sites follow
            vec![K_EDIT, ra, m0, 0, 0],                  // A: insert at 0              (op 0)
            vec![K_DELIVER, rb, nodup, 0],
            vec![K_EDIT, ra, 0, 4, 0],                   // A: delete index 0           (op 1)
            vec![K_EDIT, rb, 0, 4, 0],                   // B: delete index 0           (op 2)
            vec![K_DELIVER, ra, nodup, 0],               // A gets B's delete: no-op
            vec![K_DELIVER, rb, nodup, 0],               // B gets A's delete: no-op
            vec![K_EDIT, rb, m1, 3],                     // B: append                   (op 3)
            vec![K_EDIT, ra, m1, 3],                     // A: append                   (op 4)
            vec![K_DELIVER, ra, nodup, 0],
            vec![K_DELIVER, rb, nodup, 0],
        ])),
        "mvreg" => Some(match rng.below(2) {
            // two concurrent values meet a third replica, then merges in both directions
            0 => (2, vec![
                vec![K_EDIT, ra, m0, 0],
                vec![K_EDIT, rb, m1, 1],
                vec![K_DELIVER, rc, nodup, 0],
                vec![K_DELIVER, rc, nodup, 0],
                vec![K_MERGE, ra, rc],
                vec![K_MERGE, rb, rc],
                vec![K_EDIT, ra, m1, 0],
            ]),
            // concurrent values whose clocks share an actor, then a write from that read
            _ => (2, vec![
                vec![K_EDIT, ra, m0, 0],                 // a1                          (op 0)
                vec![K_DELIVER, rb, nodup, 0],
                vec![K_EDIT, rb, m1, 0],                 // b  {A1,B1}                  (op 1)
                vec![K_EDIT, ra, m1, 1],                 // a2 {A2}                     (op 2)
                vec![K_DELIVER, rc, nodup, 0],
                vec![K_DELIVER, rc, nodup, 0],
                vec![K_DELIVER, rc, nodup, 0],
                vec![K_EDIT, rc, m0, 0],                 // c resolves
            ]),
        }),
        _ => None,
    }
}

/// Malformed stream: one actor identity used at two replicas independently (the misuse that
/// validate_merge exists to flag), on members / keys placed before and after a shared one.
fn misuse_prelude(ty: &str, rng: &mut Rng) -> Option<(u64, Vec<Vec<u64>>)> {
    let (ra, rb) = if rng.below(2) == 0 { (0, 1) } else { (1, 0) };
    let shared = rng.below(2);
    let other = 1 - shared;
    match ty {
        // Map: the reused dot vouches for two different nested members under the SAME key, the
        // entry clocks are concurrent but the map clocks are ordered (a delivered update was
        // removed before the misuse): the nested values must still be compared
        "mapmv" | "mapor" | "mapmm" | "mapmo" if rng.below(3) == 0 => {
            let k = shared;
            let m0 = rng.below(3);
            let (m1, m2) = ((m0 + 1) % 3, (m0 + 2) % 3);
            Some((1, vec![
                vec![K_EDIT, 2, k, 0, 1, m0, 0],             // Y (actor 2) adds under k            (op 0)
                vec![K_DELIVER, rb, 1, 0],                   // X learns it
                vec![K_EDIT, rb, k, 5],                      // X: rm k with the get() context       (op 1)
                vec![K_MISUSE, rb, ra, k, 0, 1, m1, 0],      // X, as actor A, adds m1 under k       (op 2)
                vec![K_EDIT, rb, k, 0, 1, m0, 0],            // X, as itself, adds under k           (op 3)
                vec![K_MISUSE, 2, ra, k, 0, 1, m2, 0],       // Y, as actor A, adds m2 under k       (op 4)
                vec![K_EXTRA, rb, 2],
                vec![K_EXTRA, 2, rb],
            ]))
        }
        "orswot" | "mapmv" | "mapor" | "mapmm" | "mapmo" => Some((1, vec![
            // A edits the shared member/key as itself; B too (distinct actors: fine)
            vec![K_EDIT, ra, shared, 0, 1, shared, 0],
            vec![K_EDIT, rb, shared, 0, 1, shared, 0],
            // B now edits ANOTHER member/key using A's actor identity: a reused dot
            vec![K_MISUSE, rb, ra, other, 0, 1, other, 0],
            vec![K_EXTRA, ra, rb],
            vec![K_EXTRA, rb, ra],
            // a member witnessed by two actors at A, then the comparison again
            vec![K_DELIVER, ra, 1, 0],
            vec![K_EXTRA, ra, rb],
            vec![K_EXTRA, rb, ra],
        ])),
        _ => None,
    }
}

fn run_script(path: &str) {
    let f = std::fs::File::open(path).expect("script file");
    let rd = std::io::BufReader::new(f);
    let mut t = Out {
        w: std::io::BufWriter::new(std::io::stdout()),
    };
    let mut cur: Option<(String, String, u64)> = None;
    let mut cmds: Vec<Vec<u64>> = Vec::new();
    for line in rd.lines() {
        let line = line.unwrap();
        let toks: Vec<&str> = line.split_whitespace().collect();
        if toks.is_empty() {
            continue;
        }
        if toks[0] == "case" {
            cur = Some((toks[1].to_string(), toks[2].to_string(), toks[3].parse().unwrap()));
            cmds.clear();
        } else if toks[0] == "end" {
            if let Some((id, ty, disc)) = cur.take() {
                // a panic that no per-call guard expects ends the case; the driver reports it
                if guard(|| types::dispatch(&ty, &id, disc, &cmds, &mut t)).is_none() {
                    t.line("(panic)");
                    t.line("(endcase)");
                }
            }
        } else {
            cmds.push(toks.iter().map(|x| x.parse::<u64>().unwrap()).collect());
        }
    }
    t.w.flush().unwrap();
}

pub fn run_generic<S: Sut>(id: &str, disc: u64, cmds: &[Vec<u64>], t: &mut Out) {
    run_case::<S>(id, disc, cmds, t)
}

pub fn sx<T: serde::Serialize + ?Sized>(v: &T) -> String {
    to_sexp(v)
}

/// serde_json round trip of a value, compared through its canonical rendering
pub fn json_roundtrip<T: serde::Serialize + serde::de::DeserializeOwned>(v: &T) -> &'static str {
    match serde_json::to_string(v) {
        Err(_) => "err",
        Ok(text) => match serde_json::from_str::<T>(&text) {
            Err(_) => "deerr",
            Ok(back) => {
                if to_sexp(&back) == to_sexp(v) {
                    "ok"
                } else {
                    "ne"
                }
            }
        },
    }
}

fn main() {
    std::panic::set_hook(Box::new(|_| {}));
    let args: Vec<String> = std::env::args().collect();
    match args.get(1).map(|s| s.as_str()) {
        Some("gen") => gen_script(
            &args[2],
            args[3].parse().unwrap(),
            args[4].parse().unwrap(),
            args[5].parse().unwrap(),
            args.get(6).map(|s| s.as_str()).unwrap_or("structured"),
        ),
        Some("run") => run_script(&args[2]),
        _ => {
            eprintln!("usage: verif-harness gen <type> <seed> <cases> <len> [structured|malformed] | run <script>");
            std::process::exit(2);
        }
    }
}
