//! Sut implementations for every type of the crate.
use crate::{guard, run_generic, sx, Args, Out, Sut};
use crdts::ctx::{AddCtx, ReadCtx, RmCtx};
use crdts::merkle_reg::MerkleReg;
use crdts::*;
use serde::de::DeserializeOwned;
use serde::Serialize;
use std::cmp::Ordering;
use std::collections::BTreeSet;

type A = u64;

/// reset_remove laws on a state: empty clock, composition = join, idempotence
macro_rules! reset_laws {
    ($s:expr, $c1:expr, $c2:expr, $t:expr) => {{
        let s = $s;
        let mut e = s.clone();
        e.reset_remove(&VClock::new());
        $t.line(&format!("(law C18 empty {} {} {} {})", e.same(s), e.reads_sx() == s.reads_sx(), e.sx(), s.sx()));
        let mut r1 = s.clone();
        r1.reset_remove($c1);
        let mut r2 = r1.clone();
        r2.reset_remove($c2);
        let mut j = $c1.clone();
        j.merge($c2.clone());
        let mut r12 = s.clone();
        r12.reset_remove(&j);
        $t.line(&format!("(law C18 join {} {} {} {})", r2.same(&r12), r2.reads_sx() == r12.reads_sx(), r2.sx(), r12.sx()));
        let mut r11 = r1.clone();
        r11.reset_remove($c1);
        $t.line(&format!("(law C18 idem {} {} {} {})", r11.same(&r1), r11.reads_sx() == r1.reads_sx(), r11.sx(), r1.sx()));
    }};
}


pub fn dispatch(ty: &str, id: &str, disc: u64, cmds: &[Vec<u64>], t: &mut Out) {
    match ty {
        "vclock" => run_generic::<VClock<A>>(id, disc, cmds, t),
        "gcounter" => run_generic::<GCounter<A>>(id, disc, cmds, t),
        "pncounter" => run_generic::<PNCounter<A>>(id, disc, cmds, t),
        "gset" => run_generic::<GSet<u64>>(id, disc, cmds, t),
        "maxreg" => run_generic::<MaxReg<u64>>(id, disc, cmds, t),
        "minreg" => run_generic::<MinReg<u64>>(id, disc, cmds, t),
        "lww" => run_generic::<LWWReg<u64, u64>>(id, disc, cmds, t),
        "orswot" => run_generic::<Orswot<u64, A>>(id, disc, cmds, t),
        "mvreg" => run_generic::<MVReg<u64, A>>(id, disc, cmds, t),
        "mapmv" => run_generic::<MapMV>(id, disc, cmds, t),
        "mapor" => run_generic::<MapOr>(id, disc, cmds, t),
        "mapmm" => run_generic::<MapMM>(id, disc, cmds, t),
        "mapmo" => run_generic::<MapMO>(id, disc, cmds, t),
        "glist" => run_generic::<GList<u64>>(id, disc, cmds, t),
        "list" => run_generic::<List<u64, A>>(id, disc, cmds, t),
        "merkle" => run_generic::<MerkleReg<Vec<u8>>>(id, disc, cmds, t),
        _ => panic!("unknown type {}", ty),
    }
}

fn ord_sx(o: Option<Ordering>) -> String {
    match o {
        None => "none".into(),
        Some(Ordering::Less) => "lt".into(),
        Some(Ordering::Equal) => "eq".into(),
        Some(Ordering::Greater) => "gt".into(),
    }
}
fn range_sx(r: Result<(), DotRange<A>>) -> String {
    match r {
        Ok(()) => "ok".into(),
        Err(d) => format!("(err {} {} {})", d.actor, d.counter_range.start, d.counter_range.end),
    }
}

/// a random clock over few actors and small counters (so that clocks collide);
/// `zeros` allows stored zero counters (only constructible through the pub field)
pub fn rand_clock_z(a: &mut Args) -> VClock<A> {
    let z = a.below(4) == 0;
    rand_clock(a, z)
}
pub fn rand_clock(a: &mut Args, zeros: bool) -> VClock<A> {
    let mut c = VClock::new();
    let n = a.below(4);
    let mut bits = a.next();
    for _ in 0..n {
        let actor = bits % 4;
        bits /= 4;
        let counter = bits % 4;
        bits /= 4;
        if counter == 0 {
            if zeros {
                c.dots.insert(actor, 0);
            }
        } else {
            c.apply(Dot::new(actor, counter));
        }
    }
    c
}

fn derive_add<V: Serialize>(r: ReadCtx<V, A>, actor: A, t: &mut Out) -> AddCtx<A> {
    let rs = sx(&r);
    let ctx = r.derive_add_ctx(actor);
    t.call("ctx.derive_add", &[rs, actor.to_string(), sx(&ctx)]);
    ctx
}
fn derive_rm<V: Serialize + Clone>(r: ReadCtx<V, A>, t: &mut Out) -> RmCtx<A> {
    let rs = sx(&r);
    // ReadCtx::split keeps the value and both clocks
    let copy = ReadCtx { add_clock: r.add_clock.clone(), rm_clock: r.rm_clock.clone(), val: r.val.clone() };
    let (v, bare) = copy.split();
    t.call("ctx.split", &[rs.clone(), sx(&v), sx(&bare)]);
    let ctx = r.derive_rm_ctx();
    t.call("ctx.derive_rm", &[rs, sx(&ctx)]);
    ctx
}

/// serde_json round trip of a state (or op): text, restored value, ==
fn serde_rt<T: Serialize + DeserializeOwned + PartialEq>(name: &str, v: &T, t: &mut Out) {
    match serde_json::to_string(v) {
        Err(_) => t.call("serde", &[name.into(), sx(v), "err".into()]),
        Ok(text) => {
            let val: serde_json::Value = serde_json::from_str(&text).unwrap();
            match serde_json::from_str::<T>(&text) {
                Ok(back) => {
                    let same = guard(|| &back == v);
                    t.call(
                        "serde",
                        &[
                            name.into(),
                            sx(v),
                            "ok".into(),
                            sx(&val),
                            sx(&back),
                            match same {
                                Some(true) => "eq".into(),
                                Some(false) => "ne".into(),
                                None => "panic".into(),
                            },
                        ],
                    )
                }
                Err(_) => t.call("serde", &[name.into(), sx(v), "deerr".into(), sx(&val)]),
            }
        }
    }
}

// ---------------------------------------------------------------- VClock
impl Sut for VClock<A> {
    type Op = Dot<A>;
    const NAME: &'static str = "vclock";
    const HAS_MERGE: bool = true;
    fn new() -> Self {
        VClock::new()
    }
    fn edit(&self, actor: u64, _a: &mut Args, t: &mut Out) -> Option<Dot<A>> {
        let d = self.inc(actor);
        t.call("vclock.inc", &[sx(self), actor.to_string(), sx(&d)]);
        Some(d)
    }
    fn raw(a: &mut Args) -> Dot<A> {
        Dot::new(a.below(4), a.below(5))
    }
    fn apply_logged(&mut self, op: &Dot<A>, t: &mut Out) {
        let before = sx(self);
        t.call("vclock.validate_op", &[before.clone(), sx(op), range_sx(self.validate_op(op))]);
        self.apply(op.clone());
        t.call("vclock.apply", &[before, sx(op), sx(self)]);
    }
    fn apply_quiet(&mut self, op: &Self::Op) {
        self.apply(op.clone());
    }
    fn same(&self, o: &Self) -> bool {
        guard(|| self == o).unwrap_or(false)
    }
    fn reads_sx(&self) -> String {
        sx(self)
    }
    fn merge_quiet(&mut self, o: &Self) {
        self.merge(o.clone());
    }
    fn merge_logged(&mut self, o: &Self, t: &mut Out) {
        let before = sx(self);
        self.merge(o.clone());
        t.call("vclock.merge", &[before, sx(o), sx(self)]);
    }
    fn reads(&self, a: &mut Args, t: &mut Out) {
        let x = a.below(5);
        t.call("vclock.get", &[sx(self), x.to_string(), self.get(&x).to_string()]);
        t.call("vclock.is_empty", &[sx(self), self.is_empty().to_string()]);
    }
    fn extra(&self, other: &Self, a: &mut Args, t: &mut Out) {
        // validate_merge accepts every pair of states (C17)
        t.call("vclock.validate_merge", &[sx(self), sx(other), vm_sx(self.validate_merge(other))]);
        // pure-function probes on (self, other) and on random clocks, incl. ill-formed ones
        let zeros = a.below(4) == 0;
        let c1 = if a.below(2) == 0 { self.clone() } else { rand_clock(a, zeros) };
        let c2 = if a.below(3) == 0 { other.clone() } else { rand_clock(a, zeros) };
        let c3 = rand_clock(a, zeros);
        vclock_probes(&c1, &c2, &c3, a, t);
        serde_rt("vclock", self, t);
    }
    fn sx(&self) -> String {
        sx(self)
    }
    fn op_sx(op: &Dot<A>) -> String {
        sx(op)
    }
    fn op_roundtrip(op: &Self::Op) -> &'static str {
        crate::json_roundtrip(op)
    }
    fn op_actor(op: &Dot<A>) -> Option<u64> {
        Some(op.actor)
    }
}

pub fn vclock_probes(c1: &VClock<A>, c2: &VClock<A>, c3: &VClock<A>, a: &mut Args, t: &mut Out) {
    for (x, y) in [(c1, c2), (c2, c1), (c1, c1), (c2, c3), (c1, c3)] {
        t.call("vclock.cmp", &[sx(x), sx(y), ord_sx(x.partial_cmp(y))]);
        t.call("vclock.concurrent", &[sx(x), sx(y), x.concurrent(y).to_string()]);
        // the comparison OPERATORS (PartialOrd::lt / le / gt / ge can be overridden separately from partial_cmp) and ==
        t.call("vclock.ops", &[sx(x), sx(y), (x < y).to_string(), (x <= y).to_string(), (x > y).to_string(), (x >= y).to_string(), (x == y).to_string()]);
        // a pair with the same smallest and largest actor, the same number of actors, and different actors in between
        {
            let mut p = VClock::<A>::new();
            let mut q = VClock::<A>::new();
            let base = x.get(&0) + y.get(&1);
            p.apply(Dot::new(0, 1 + base % 3));
            q.apply(Dot::new(0, 1 + (base / 3) % 3));
            p.apply(Dot::new(1, 1 + x.get(&2) % 3));
            q.apply(Dot::new(2, 1 + y.get(&2) % 3));
            p.apply(Dot::new(3, 1 + x.get(&3) % 3));
            q.apply(Dot::new(3, 1 + y.get(&3) % 3));
            t.call("vclock.cmp", &[sx(&p), sx(&q), ord_sx(p.partial_cmp(&q))]);
            t.call("vclock.ops", &[sx(&p), sx(&q), (p < q).to_string(), (p <= q).to_string(), (p > q).to_string(), (p >= q).to_string(), (p == q).to_string()]);
        }
        let mut m = x.clone();
        m.merge(y.clone());
        t.call("vclock.merge", &[sx(x), sx(y), sx(&m)]);
        let mut g = x.clone();
        g.glb(y);
        t.call("vclock.glb", &[sx(x), sx(y), sx(&g)]);
        let mut r = x.clone();
        r.reset_remove(y);
        t.call("vclock.reset", &[sx(x), sx(y), sx(&r)]);
        t.call("vclock.clone_without", &[sx(x), sx(y), sx(&x.clone_without(y))]);
        t.call("vclock.intersection", &[sx(x), sx(y), sx(&VClock::intersection(x, y))]);
    }
    let d = Dot::new(a.below(4), a.below(6));
    t.call("vclock.validate_op", &[sx(c1), sx(&d), range_sx(c1.validate_op(&d))]);
    let mut ap = c1.clone();
    ap.apply(d);
    t.call("vclock.apply", &[sx(c1), sx(&d), sx(&ap)]);
    let act = a.below(4);
    t.call("vclock.inc", &[sx(c1), act.to_string(), sx(&c1.inc(act))]);
    t.call("vclock.get", &[sx(c1), act.to_string(), c1.get(&act).to_string()]);
    let d2 = Dot::new(a.below(3), a.below(4));
    t.call("dot.cmp", &[sx(&d), sx(&d2), ord_sx(d.partial_cmp(&d2))]);
    {
        use std::hash::{Hash, Hasher};
        let h = |x: &Dot<A>| {
            let mut hs = std::collections::hash_map::DefaultHasher::new();
            x.hash(&mut hs);
            hs.finish()
        };
        let twin = Dot::new(d.actor, d.counter);
        // Eq and Hash of dots: equal iff actor and counter agree; equal dots hash alike
        t.call("dot.eq", &[sx(&d), sx(&d2), (d == d2).to_string(), (h(&d) == h(&twin) && d == twin).to_string()]);
    }
    // dots with counter 0 are legal inputs (VClock::dot of an unseen actor yields one)
    let ds: Vec<Dot<A>> = (0..a.below(4)).map(|_| Dot::new(a.below(3), a.below(4))).collect();
    let fi: VClock<A> = ds.iter().cloned().collect();
    t.call("vclock.from_iter", &[sx(&ds), sx(&fi)]);
    let fd: VClock<A> = VClock::from(d.clone());
    t.call("vclock.from_dot", &[sx(&d), sx(&fd)]);
    let cd = c1.dot(act);
    t.call("vclock.dot", &[sx(c1), act.to_string(), sx(&cd)]);
    let fcd: VClock<A> = VClock::from(cd.clone());
    t.call("vclock.from_dot", &[sx(&cd), sx(&fcd)]);
    // a snapshot of the clock over a roster that includes unseen actors
    let roster: Vec<Dot<A>> = (0..4).map(|x| c1.dot(x)).collect();
    let snap: VClock<A> = roster.iter().cloned().collect();
    t.call("vclock.from_iter", &[sx(&roster), sx(&snap)]);
    // iteration entry points and conversions
    let it: Vec<Dot<A>> = c1.iter().map(|d| Dot::new(*d.actor, d.counter)).collect();
    t.call("vclock.iter", &[sx(c1), sx(&it)]);
    let into: Vec<Dot<A>> = c1.clone().into_iter().collect();
    t.call("vclock.iter", &[sx(c1), sx(&into)]);
    let od: OrdDot<A> = OrdDot::from(d.clone());
    let back: Dot<A> = Dot::from(od.clone());
    let tup: Dot<A> = Dot::from((d.actor, d.counter));
    t.call("dot.conv", &[sx(&d), sx(&od), sx(&back), sx(&tup)]);
    t.call("dot.inc", &[sx(&d), sx(&d.inc())]);
    let mut di = d.clone();
    di.apply_inc();
    t.call("dot.inc", &[sx(&d), sx(&di)]);
}

// ---------------------------------------------------------------- GCounter / PNCounter
impl Sut for GCounter<A> {
    type Op = Dot<A>;
    const NAME: &'static str = "gcounter";
    const HAS_MERGE: bool = true;
    fn validate_only(&self, op: &Self::Op, t: &mut Out) {
        // order-free type: validate_op accepts everything (C16)
        t.call("gcounter.validate_op", &[sx(self), Self::op_sx(op), vm_sx(self.validate_op(op))]);
    }
    fn new() -> Self {
        GCounter::new()
    }
    fn edit(&self, actor: u64, a: &mut Args, t: &mut Out) -> Option<Dot<A>> {
        if a.below(2) == 0 {
            let d = self.inc(actor);
            t.call("gcounter.inc", &[sx(self), actor.to_string(), sx(&d)]);
            Some(d)
        } else {
            let steps = a.below(4);
            let d = self.inc_many(actor, steps);
            t.call("gcounter.inc_many", &[sx(self), actor.to_string(), steps.to_string(), sx(&d)]);
            Some(d)
        }
    }
    fn raw(a: &mut Args) -> Dot<A> {
        Dot::new(a.below(4), a.below(6))
    }
    fn apply_logged(&mut self, op: &Dot<A>, t: &mut Out) {
        let before = sx(self);
        self.apply(op.clone());
        t.call("gcounter.apply", &[before, sx(op), sx(self)]);
    }
    fn apply_quiet(&mut self, op: &Self::Op) {
        self.apply(op.clone());
    }
    fn same(&self, o: &Self) -> bool {
        guard(|| self == o).unwrap_or(false)
    }
    fn reads_sx(&self) -> String {
        format!("{} {}", self.read(), sx(self))
    }
    fn merge_quiet(&mut self, o: &Self) {
        self.merge(o.clone());
    }
    fn merge_logged(&mut self, o: &Self, t: &mut Out) {
        let before = sx(self);
        self.merge(o.clone());
        t.call("gcounter.merge", &[before, sx(o), sx(self)]);
    }
    fn reads(&self, _a: &mut Args, t: &mut Out) {
        t.call("gcounter.read", &[sx(self), self.read().to_string()]);
    }
    fn extra(&self, _o: &Self, a: &mut Args, t: &mut Out) {
        // validate_merge accepts every pair of states (C17)
        t.call("gcounter.validate_merge", &[sx(self), sx(_o), vm_sx(self.validate_merge(_o))]);
        // totals near 2^64 on three or four actors: the sum exceeds 64 bits more than once
        {
            let mut big = GCounter::<A>::new();
            let n = 3 + (self.read().to_string().len() as u64 % 2);
            for actor in 0..n {
                big.apply(Dot::new(actor, u64::MAX - actor));
            }
            t.call("gcounter.bigread", &[sx(&big), big.read().to_string()]);
            // counters beyond 2^53 survive the JSON round trip exactly
            serde_rt("gcounter", &big, t);
            let mut pn = PNCounter::<A>::new();
            for actor in 0..n {
                pn.apply(pn.inc_many(actor, u64::MAX - 2 * actor));
            }
            pn.apply(pn.dec_many(1, u64::MAX - 7));
            t.call("pncounter.bigread", &[sx(&pn), pn.read().to_string()]);
        }
        let c = rand_clock(a, false);
        let mut r = self.clone();
        r.reset_remove(&c);
        t.call("gcounter.reset", &[sx(self), sx(&c), sx(&r)]);
        let c2 = rand_clock(a, false);
        reset_laws!(self, &c, &c2, t);
        serde_rt("gcounter", self, t);
    }
    fn sx(&self) -> String {
        sx(self)
    }
    fn op_sx(op: &Dot<A>) -> String {
        sx(op)
    }
    fn op_roundtrip(op: &Self::Op) -> &'static str {
        crate::json_roundtrip(op)
    }
    fn op_actor(op: &Dot<A>) -> Option<u64> {
        Some(op.actor)
    }
}

impl Sut for PNCounter<A> {
    type Op = pncounter::Op<A>;
    const NAME: &'static str = "pncounter";
    const HAS_MERGE: bool = true;
    fn validate_only(&self, op: &Self::Op, t: &mut Out) {
        // order-free type: validate_op accepts everything (C16)
        t.call("pncounter.validate_op", &[sx(self), Self::op_sx(op), vm_sx(self.validate_op(op))]);
    }
    fn new() -> Self {
        PNCounter::new()
    }
    fn edit(&self, actor: u64, a: &mut Args, t: &mut Out) -> Option<Self::Op> {
        let steps = a.below(4);
        let (name, op) = match a.below(4) {
            0 => ("pncounter.inc", self.inc(actor)),
            1 => ("pncounter.dec", self.dec(actor)),
            2 => ("pncounter.inc_many", self.inc_many(actor, steps)),
            _ => ("pncounter.dec_many", self.dec_many(actor, steps)),
        };
        t.call(name, &[sx(self), actor.to_string(), steps.to_string(), sx(&op)]);
        Some(op)
    }
    fn raw(a: &mut Args) -> Self::Op {
        pncounter::Op {
            dot: Dot::new(a.below(4), a.below(6)),
            dir: if a.below(2) == 0 { pncounter::Dir::Pos } else { pncounter::Dir::Neg },
        }
    }
    fn apply_logged(&mut self, op: &Self::Op, t: &mut Out) {
        let before = sx(self);
        self.apply(op.clone());
        t.call("pncounter.apply", &[before, sx(op), sx(self)]);
    }
    fn apply_quiet(&mut self, op: &Self::Op) {
        self.apply(op.clone());
    }
    fn same(&self, o: &Self) -> bool {
        guard(|| self == o).unwrap_or(false)
    }
    fn reads_sx(&self) -> String {
        self.read().to_string()
    }
    fn merge_quiet(&mut self, o: &Self) {
        self.merge(o.clone());
    }
    fn merge_logged(&mut self, o: &Self, t: &mut Out) {
        let before = sx(self);
        self.merge(o.clone());
        t.call("pncounter.merge", &[before, sx(o), sx(self)]);
    }
    fn reads(&self, _a: &mut Args, t: &mut Out) {
        t.call("pncounter.read", &[sx(self), self.read().to_string()]);
    }
    fn extra(&self, _o: &Self, a: &mut Args, t: &mut Out) {
        // validate_merge accepts every pair of states (C17)
        t.call("pncounter.validate_merge", &[sx(self), sx(_o), vm_sx(self.validate_merge(_o))]);
        let c = rand_clock(a, false);
        let mut r = self.clone();
        r.reset_remove(&c);
        t.call("pncounter.reset", &[sx(self), sx(&c), sx(&r)]);
        let c2 = rand_clock(a, false);
        reset_laws!(self, &c, &c2, t);
        serde_rt("pncounter", self, t);
    }
    fn sx(&self) -> String {
        sx(self)
    }
    fn op_sx(op: &Self::Op) -> String {
        sx(op)
    }
    fn op_roundtrip(op: &Self::Op) -> &'static str {
        crate::json_roundtrip(op)
    }
    fn op_actor(op: &Self::Op) -> Option<u64> {
        Some(op.dot.actor)
    }
}

// ---------------------------------------------------------------- GSet / MaxReg / MinReg / LWWReg
impl Sut for GSet<u64> {
    type Op = u64;
    const NAME: &'static str = "gset";
    const HAS_MERGE: bool = true;
    fn validate_only(&self, op: &Self::Op, t: &mut Out) {
        // order-free type: validate_op accepts everything (C16)
        t.call("gset.validate_op", &[sx(self), Self::op_sx(op), vm_sx(self.validate_op(op))]);
    }
    fn new() -> Self {
        GSet::new()
    }
    fn edit(&self, _actor: u64, a: &mut Args, _t: &mut Out) -> Option<u64> {
        Some(a.below(6))
    }
    fn raw(a: &mut Args) -> u64 {
        a.below(8)
    }
    fn apply_logged(&mut self, op: &u64, t: &mut Out) {
        let before = sx(self);
        self.apply(*op);
        t.call("gset.apply", &[before, op.to_string(), sx(self)]);
    }
    fn apply_quiet(&mut self, op: &Self::Op) {
        self.apply(op.clone());
    }
    fn same(&self, o: &Self) -> bool {
        guard(|| self == o).unwrap_or(false)
    }
    fn reads_sx(&self) -> String {
        sx(&self.read())
    }
    fn merge_quiet(&mut self, o: &Self) {
        self.merge(o.clone());
    }
    fn merge_logged(&mut self, o: &Self, t: &mut Out) {
        let before = sx(self);
        self.merge(o.clone());
        t.call("gset.merge", &[before, sx(o), sx(self)]);
    }
    fn reads(&self, a: &mut Args, t: &mut Out) {
        let x = a.below(6);
        t.call("gset.read", &[sx(self), sx(&self.read())]);
        t.call("gset.contains", &[sx(self), x.to_string(), self.contains(&x).to_string()]);
        // the direct mutator and the conversion into a BTreeSet
        let mut ins = self.clone();
        ins.insert(x);
        t.call("gset.apply", &[sx(self), x.to_string(), sx(&ins)]);
        let bt: BTreeSet<u64> = BTreeSet::from(self.clone());
        t.call("gset.read", &[sx(self), sx(&bt)]);
    }
    fn extra(&self, _o: &Self, _a: &mut Args, t: &mut Out) {
        // validate_merge accepts every pair of states (C17)
        t.call("gset.validate_merge", &[sx(self), sx(_o), vm_sx(self.validate_merge(_o))]);
        t.call("gset.default", &[sx(&<GSet<u64> as Default>::default())]);
        serde_rt("gset", self, t);
    }
    fn sx(&self) -> String {
        sx(self)
    }
    fn op_sx(op: &u64) -> String {
        op.to_string()
    }
    fn op_roundtrip(op: &Self::Op) -> &'static str {
        crate::json_roundtrip(op)
    }
    fn op_actor(_op: &u64) -> Option<u64> {
        None
    }
}

macro_rules! reg_sut {
    ($ty:ident, $name:expr, $init:expr) => {
        impl Sut for $ty<u64> {
            type Op = u64;
            const NAME: &'static str = $name;
            const HAS_MERGE: bool = true;
            fn validate_only(&self, op: &Self::Op, t: &mut Out) {
                t.call(concat!($name, ".validate_op"), &[sx(self), op.to_string(), vm_sx(self.validate_op(op))]);
            }
            fn new() -> Self {
                $ty { val: $init }
            }
            fn edit(&self, _actor: u64, a: &mut Args, _t: &mut Out) -> Option<u64> {
                let v = a.below(20);
                Some(self.write(v))
            }
            fn raw(a: &mut Args) -> u64 {
                a.below(30)
            }
            fn apply_logged(&mut self, op: &u64, t: &mut Out) {
                let before = sx(self);
                self.apply(*op);
                t.call(concat!($name, ".apply"), &[before, op.to_string(), sx(self)]);
            }
            fn apply_quiet(&mut self, op: &Self::Op) {
        self.apply(op.clone());
    }
    fn same(&self, o: &Self) -> bool {
        guard(|| self == o).unwrap_or(false)
    }
    fn reads_sx(&self) -> String {
        self.read().to_string()
    }
    fn merge_quiet(&mut self, o: &Self) {
        self.merge(o.clone());
    }
    fn merge_logged(&mut self, o: &Self, t: &mut Out) {
                let before = sx(self);
                self.merge(o.clone());
                t.call(concat!($name, ".merge"), &[before, sx(o), sx(self)]);
            }
            fn reads(&self, _a: &mut Args, t: &mut Out) {
                t.call(concat!($name, ".read"), &[sx(self), self.read().to_string()]);
            }
            fn extra(&self, _o: &Self, _a: &mut Args, t: &mut Out) {
                t.call(concat!($name, ".validate_merge"), &[sx(self), sx(_o), vm_sx(self.validate_merge(_o))]);
                t.call(concat!($name, ".default"), &[sx(&<$ty<u64> as Default>::default())]);
                let mut scratch = self.clone();
                let fresh = scratch.new(self.val);
                t.call(concat!($name, ".new"), &[self.val.to_string(), sx(&fresh)]);
                serde_rt($name, self, t);
            }
            fn sx(&self) -> String {
                sx(self)
            }
            fn op_sx(op: &u64) -> String {
                op.to_string()
            }
            fn op_roundtrip(op: &Self::Op) -> &'static str {
        crate::json_roundtrip(op)
    }
    fn op_actor(_op: &u64) -> Option<u64> {
                None
            }
        }
    };
}
reg_sut!(MaxReg, "maxreg", 10);
reg_sut!(MinReg, "minreg", 10);

impl Sut for LWWReg<u64, u64> {
    type Op = LWWReg<u64, u64>;
    const NAME: &'static str = "lww";
    const HAS_MERGE: bool = true;
    fn new() -> Self {
        LWWReg { val: 0, marker: 0 }
    }
    fn edit(&self, actor: u64, a: &mut Args, _t: &mut Out) -> Option<Self::Op> {
        // unique markers: (logical time, actor) packed; time drawn from a small range so
        // that stale and fresh writes interleave
        let time = 1 + a.below(6);
        let marker = time * 16 + actor;
        // the value is a function of the marker (correct use never reuses a marker with a
        // different value) drawn from a small range, so that the same value is written
        // under several markers
        Some(LWWReg { val: (marker * 7 + marker / 16) % 3, marker })
    }
    fn raw(a: &mut Args) -> Self::Op {
        LWWReg { val: a.below(3), marker: a.below(4) }
    }
    fn apply_logged(&mut self, op: &Self::Op, t: &mut Out) {
        let before = sx(self);
        let v = match self.validate_op(op) {
            Ok(()) => "ok",
            Err(_) => "err",
        };
        t.call("lww.validate_op", &[before.clone(), sx(op), v.into()]);
        self.apply(op.clone());
        t.call("lww.apply", &[before, sx(op), sx(self)]);
    }
    fn apply_quiet(&mut self, op: &Self::Op) {
        self.apply(op.clone());
    }
    fn same(&self, o: &Self) -> bool {
        guard(|| self == o).unwrap_or(false)
    }
    fn reads_sx(&self) -> String {
        sx(self)
    }
    fn merge_quiet(&mut self, o: &Self) {
        self.merge(o.clone());
    }
    fn merge_logged(&mut self, o: &Self, t: &mut Out) {
        let before = sx(self);
        let v = match self.validate_merge(o) {
            Ok(()) => "ok",
            Err(_) => "err",
        };
        t.call("lww.validate_merge", &[before.clone(), sx(o), v.into()]);
        self.merge(o.clone());
        t.call("lww.merge", &[before, sx(o), sx(self)]);
    }
    fn reads(&self, _a: &mut Args, _t: &mut Out) {}
    fn extra(&self, _o: &Self, _a: &mut Args, t: &mut Out) {
        t.call("lww.default", &[sx(&<LWWReg<u64, u64> as Default>::default())]);
        t.call("lww.new", &[self.val.to_string(), self.marker.to_string(), sx(&LWWReg::new(self.val, self.marker))]);
        serde_rt("lww", self, t);
    }
    fn sx(&self) -> String {
        sx(self)
    }
    fn op_sx(op: &Self::Op) -> String {
        sx(op)
    }
    fn op_roundtrip(op: &Self::Op) -> &'static str {
        crate::json_roundtrip(op)
    }
    fn op_actor(_op: &Self::Op) -> Option<u64> {
        None
    }
}

// ---------------------------------------------------------------- Orswot

/// Op constructors that take `&self` only for their type (`Orswot::add`, `rm`, `MVReg::write`, `Map::rm`,
/// `MerkleReg::write`) must build the op from the context alone: a client may read at one replica and hand
/// the edit to another handle.  A third of these calls (chosen from the arguments, no generator state is
/// consumed) go through a fresh, empty handle instead of the replica that was read.
fn foreign(x: u64) -> bool {
    x % 3 == 1
}
fn csum(c: &VClock<A>) -> u64 {
    c.iter().map(|d| d.counter).sum::<u64>()
}

fn vm_sx<E>(r: Result<(), E>) -> String {
    match r {
        Ok(()) => "ok".into(),
        Err(_) => "err".into(),
    }
}

fn orswot_edit(s: &Orswot<u64, A>, actor: A, a: &mut Args, t: &mut Out, pre: &str) -> orswot::Op<u64, A> {
    let m = a.below(3);
    match a.below(9) {
        0..=2 => {
            let r = s.read_ctx();
            t.call(&format!("{}orswot.read_ctx", pre), &[sx(s), sx(&r)]);
            let ctx = derive_add(r, actor, t);
            let cs = sx(&ctx);
            let op = if foreign(m + ctx.dot.counter) { Orswot::<u64, A>::new().add(m, ctx) } else { s.add(m, ctx) };
            t.call("orswot.add", &[m.to_string(), cs, sx(&op)]);
            op
        }
        3 => {
            let ms = vec![m, a.below(3), a.below(3)];
            let ms = ms[..(1 + a.below(3) as usize)].to_vec();
            let r = s.read();
            t.call(&format!("{}orswot.read", pre), &[sx(s), sx(&r)]);
            let ctx = derive_add(r, actor, t);
            let cs = sx(&ctx);
            let op = if foreign(ms.len() as u64 + ctx.dot.counter) { Orswot::<u64, A>::new().add_all(ms.clone(), ctx) } else { s.add_all(ms.clone(), ctx) };
            t.call("orswot.add_all", &[sx(&ms), cs, sx(&op)]);
            op
        }
        4..=6 => {
            let r = s.contains(&m);
            t.call(&format!("{}orswot.contains", pre), &[sx(s), m.to_string(), sx(&r)]);
            let ctx = derive_rm(r, t);
            let cs = sx(&ctx);
            let op = if foreign(m + csum(&ctx.clock)) { Orswot::<u64, A>::new().rm(m, ctx) } else { s.rm(m, ctx) };
            t.call("orswot.rm", &[m.to_string(), cs, sx(&op)]);
            op
        }
        7 => {
            let r = s.read();
            t.call(&format!("{}orswot.read", pre), &[sx(s), sx(&r)]);
            let mut ms: Vec<u64> = r.val.iter().cloned().collect();
            ms.sort();
            let ctx = derive_rm(r, t);
            let cs = sx(&ctx);
            let op = if foreign(csum(&ctx.clock)) { Orswot::<u64, A>::new().rm_all(ms.clone(), ctx) } else { s.rm_all(ms.clone(), ctx) };
            t.call("orswot.rm_all", &[sx(&ms), cs, sx(&op)]);
            op
        }
        _ => {
            let r = s.read_ctx();
            t.call(&format!("{}orswot.read_ctx", pre), &[sx(s), sx(&r)]);
            let ctx = derive_rm(r, t);
            let cs = sx(&ctx);
            let op = if foreign(m + csum(&ctx.clock)) { Orswot::<u64, A>::new().rm(m, ctx) } else { s.rm(m, ctx) };
            t.call("orswot.rm", &[m.to_string(), cs, sx(&op)]);
            op
        }
    }
}

fn orswot_raw(a: &mut Args) -> orswot::Op<u64, A> {
    let ms: Vec<u64> = (0..a.below(3)).map(|_| a.below(3)).collect();
    if a.below(2) == 0 {
        orswot::Op::Add { dot: Dot::new(a.below(4), a.below(5)), members: ms }
    } else {
        orswot::Op::Rm { clock: rand_clock_z(a), members: ms }
    }
}

impl Sut for Orswot<u64, A> {
    type Op = orswot::Op<u64, A>;
    const NAME: &'static str = "orswot";
    const HAS_MERGE: bool = true;
    fn new() -> Self {
        Orswot::new()
    }
    fn edit(&self, actor: u64, a: &mut Args, t: &mut Out) -> Option<Self::Op> {
        Some(orswot_edit(self, actor, a, t, ""))
    }
    fn raw(a: &mut Args) -> Self::Op {
        orswot_raw(a)
    }
    fn validate_only(&self, op: &Self::Op, t: &mut Out) {
        t.call("orswot.validate_op", &[sx(self), sx(op), range_sx(self.validate_op(op))]);
    }
    fn apply_logged(&mut self, op: &Self::Op, t: &mut Out) {
        let before = sx(self);
        t.call("orswot.validate_op", &[before.clone(), sx(op), range_sx(self.validate_op(op))]);
        self.apply(op.clone());
        t.call("orswot.apply", &[before, sx(op), sx(self)]);
    }
    fn apply_quiet(&mut self, op: &Self::Op) {
        self.apply(op.clone());
    }
    fn same(&self, o: &Self) -> bool {
        guard(|| self == o).unwrap_or(false)
    }
    fn reads_sx(&self) -> String {
        orswot_reads(self)
    }
    fn merge_quiet(&mut self, o: &Self) {
        self.merge(o.clone());
    }
    fn merge_logged(&mut self, o: &Self, t: &mut Out) {
        let before = sx(self);
        t.call("orswot.validate_merge", &[before.clone(), sx(o), vm_sx(self.validate_merge(o))]);
        t.call("orswot.validate_merge", &[sx(o), before.clone(), vm_sx(o.validate_merge(self))]);
        self.merge(o.clone());
        t.call("orswot.merge", &[before, sx(o), sx(self)]);
    }
    fn reads(&self, a: &mut Args, t: &mut Out) {
        let m = a.below(3);
        t.call("orswot.read", &[sx(self), sx(&self.read())]);
        t.call("orswot.read_ctx", &[sx(self), sx(&self.read_ctx())]);
        t.call("orswot.contains", &[sx(self), m.to_string(), sx(&self.contains(&m))]);
        let it: Vec<ReadCtx<&u64, A>> = self.iter().collect();
        t.call("orswot.iter", &[sx(self), sx(&it)]);
        t.call("orswot.clock", &[sx(self), sx(&self.clock())]);
    }
    fn extra(&self, o: &Self, a: &mut Args, t: &mut Out) {
        let c1 = match a.below(4) {
            0 => self.clock(),
            1 => o.clock(),
            _ => rand_clock(a, false),
        };
        let c2 = rand_clock(a, false);
        let mut r1 = self.clone();
        r1.reset_remove(&c1);
        t.call("orswot.reset", &[sx(self), sx(&c1), sx(&r1)]);
        let mut r2 = r1.clone();
        r2.reset_remove(&c2);
        t.call("orswot.reset", &[sx(&r1), sx(&c2), sx(&r2)]);
        reset_laws!(self, &c1, &c2, t);
        t.call("orswot.validate_merge", &[sx(self), sx(o), vm_sx(self.validate_merge(o))]);
        t.call("orswot.validate_merge", &[sx(o), sx(self), vm_sx(o.validate_merge(self))]);
        serde_rt("orswot", self, t);
        serde_rt("orswot", &r1, t);
    }
    fn sx(&self) -> String {
        sx(self)
    }
    fn op_sx(op: &Self::Op) -> String {
        sx(op)
    }
    fn op_roundtrip(op: &Self::Op) -> &'static str {
        crate::json_roundtrip(op)
    }
    fn op_actor(op: &Self::Op) -> Option<u64> {
        match op {
            orswot::Op::Add { dot, .. } => Some(dot.actor),
            _ => None,
        }
    }
}

// ---------------------------------------------------------------- MVReg
fn mvreg_edit(s: &MVReg<u64, A>, actor: A, a: &mut Args, t: &mut Out, pre: &str) -> mvreg::Op<u64, A> {
    let v = a.below(4);
    let ctx = if a.below(2) == 0 {
        let r = s.read();
        t.call(&format!("{}mvreg.read", pre), &[sx(s), sx(&r)]);
        derive_add(r, actor, t)
    } else {
        let r = s.read_ctx();
        t.call(&format!("{}mvreg.read_ctx", pre), &[sx(s), sx(&r)]);
        derive_add(r, actor, t)
    };
    let cs = sx(&ctx);
    let op = if foreign(v + ctx.dot.counter) { MVReg::<u64, A>::new().write(v, ctx) } else { s.write(v, ctx) };
    t.call("mvreg.write", &[v.to_string(), cs, sx(&op)]);
    op
}

impl Sut for MVReg<u64, A> {
    type Op = mvreg::Op<u64, A>;
    const NAME: &'static str = "mvreg";
    const HAS_MERGE: bool = true;
    fn validate_only(&self, op: &Self::Op, t: &mut Out) {
        // order-free type: validate_op accepts everything (C16)
        t.call("mvreg.validate_op", &[sx(self), Self::op_sx(op), vm_sx(self.validate_op(op))]);
    }
    fn new() -> Self {
        MVReg::new()
    }
    fn edit(&self, actor: u64, a: &mut Args, t: &mut Out) -> Option<Self::Op> {
        Some(mvreg_edit(self, actor, a, t, ""))
    }
    fn raw(a: &mut Args) -> Self::Op {
        mvreg::Op::Put { clock: rand_clock_z(a), val: a.below(3) }
    }
    fn apply_logged(&mut self, op: &Self::Op, t: &mut Out) {
        let before = sx(self);
        self.apply(op.clone());
        t.call("mvreg.apply", &[before, sx(op), sx(self)]);
    }
    fn apply_quiet(&mut self, op: &Self::Op) {
        self.apply(op.clone());
    }
    fn same(&self, o: &Self) -> bool {
        guard(|| self == o).unwrap_or(false)
    }
    fn reads_sx(&self) -> String {
        mvreg_reads(self)
    }
    fn merge_quiet(&mut self, o: &Self) {
        self.merge(o.clone());
    }
    fn merge_logged(&mut self, o: &Self, t: &mut Out) {
        let before = sx(self);
        self.merge(o.clone());
        t.call("mvreg.merge", &[before, sx(o), sx(self)]);
    }
    fn reads(&self, _a: &mut Args, t: &mut Out) {
        t.call("mvreg.read", &[sx(self), sx(&self.read())]);
        t.call("mvreg.read_ctx", &[sx(self), sx(&self.read_ctx())]);
    }
    fn extra(&self, o: &Self, a: &mut Args, t: &mut Out) {
        // validate_merge accepts every pair of states (C17)
        t.call("mvreg.validate_merge", &[sx(self), sx(o), vm_sx(self.validate_merge(o))]);
        let c1 = match a.below(3) {
            0 => self.read_ctx().add_clock,
            _ => rand_clock(a, false),
        };
        let mut r1 = self.clone();
        r1.reset_remove(&c1);
        t.call("mvreg.reset", &[sx(self), sx(&c1), sx(&r1)]);
        let c2 = rand_clock(a, false);
        reset_laws!(self, &c1, &c2, t);
        let e = guard(|| self == o);
        t.call(
            "mvreg.eq",
            &[sx(self), sx(o), match e {
                Some(true) => "true".into(),
                Some(false) => "false".into(),
                None => "panic".into(),
            }],
        );
        serde_rt("mvreg", self, t);
        // a register as it looks inside a Map after a partial key remove (value clocks trimmed, possibly ordered)
        serde_rt("mvreg", &r1, t);
    }
    fn sx(&self) -> String {
        sx(self)
    }
    fn op_sx(op: &Self::Op) -> String {
        sx(op)
    }
    fn op_roundtrip(op: &Self::Op) -> &'static str {
        crate::json_roundtrip(op)
    }
    fn op_actor(op: &Self::Op) -> Option<u64> {
        let _ = op;
        None
    }
}

// ---------------------------------------------------------------- Map (three instantiations)
type MapMV = Map<u64, MVReg<u64, A>, A>;
type MapOr = Map<u64, Orswot<u64, A>, A>;
type MapMM = Map<u64, Map<u64, MVReg<u64, A>, A>, A>;
type MapMO = Map<u64, Map<u64, Orswot<u64, A>, A>, A>;

macro_rules! map_sut {
    ($ty:ident, $name:expr, $leaf_edit:expr, $raw_leaf:expr, $leaf_reads:expr) => {
        impl Sut for $ty {
            type Op = map::Op<u64, <$ty as MapInfo>::V, A>;
            const NAME: &'static str = $name;
            const HAS_MERGE: bool = true;
            fn new() -> Self {
                Map::new()
            }
            fn edit(&self, actor: u64, a: &mut Args, t: &mut Out) -> Option<Self::Op> {
                let k = a.below(2);
                match a.below(8) {
                    0..=4 => {
                        let r = if a.below(2) == 0 {
                            let r = self.get(&k);
                            t.call(concat!($name, ".get"), &[sx(self), k.to_string(), sx(&r)]);
                            r.split().1
                        } else {
                            let r = self.read_ctx();
                            t.call(concat!($name, ".read_ctx"), &[sx(self), sx(&r)]);
                            r
                        };
                        let ctx = derive_add(r, actor, t);
                        let cs = sx(&ctx);
                        let op = self.update(k, ctx, |v, c| {
                            t.call(concat!($name, ".update.closure"), &[sx(v), sx(&c)]);
                            $leaf_edit(v, c, actor, a, t)
                        });
                        t.call(concat!($name, ".update"), &[sx(self), k.to_string(), cs, sx(&op)]);
                        Some(op)
                    }
                    5..=6 => {
                        let r = self.get(&k);
                        t.call(concat!($name, ".get"), &[sx(self), k.to_string(), sx(&r)]);
                        let ctx = derive_rm(r, t);
                        let cs = sx(&ctx);
                        let op = if foreign(k + csum(&ctx.clock)) { Self::new().rm(k, ctx) } else { self.rm(k, ctx) };
                        t.call(concat!($name, ".rm"), &[k.to_string(), cs, sx(&op)]);
                        Some(op)
                    }
                    _ => {
                        let r = self.read_ctx();
                        t.call(concat!($name, ".read_ctx"), &[sx(self), sx(&r)]);
                        let ctx = derive_rm(r, t);
                        let cs = sx(&ctx);
                        let op = if foreign(k + csum(&ctx.clock)) { Self::new().rm(k, ctx) } else { self.rm(k, ctx) };
                        t.call(concat!($name, ".rm"), &[k.to_string(), cs, sx(&op)]);
                        Some(op)
                    }
                }
            }
            fn raw(a: &mut Args) -> Self::Op {
                if a.below(2) == 0 {
                    map::Op::Rm {
                        clock: rand_clock_z(a),
                        keyset: (0..a.below(3)).map(|_| a.below(2)).collect(),
                    }
                } else {
                    map::Op::Up { dot: Dot::new(a.below(4), a.below(5)), key: a.below(2), op: $raw_leaf(a) }
                }
            }
            fn validate_only(&self, op: &Self::Op, t: &mut Out) {
                let v = match self.validate_op(op) {
                    Ok(()) => "ok".to_string(),
                    Err(map::CmRDTValidation::SourceOrder(d)) => {
                        format!("(source {} {} {})", d.actor, d.counter_range.start, d.counter_range.end)
                    }
                    Err(map::CmRDTValidation::Value(_)) => "value".to_string(),
                };
                t.call(concat!($name, ".validate_op"), &[sx(self), sx(op), v]);
            }
            fn apply_logged(&mut self, op: &Self::Op, t: &mut Out) {
                let before = sx(self);
                let v = match self.validate_op(op) {
                    Ok(()) => "ok".to_string(),
                    Err(map::CmRDTValidation::SourceOrder(d)) => {
                        format!("(source {} {} {})", d.actor, d.counter_range.start, d.counter_range.end)
                    }
                    Err(map::CmRDTValidation::Value(_)) => "value".to_string(),
                };
                t.call(concat!($name, ".validate_op"), &[before.clone(), sx(op), v]);
                self.apply(op.clone());
                t.call(concat!($name, ".apply"), &[before, sx(op), sx(self)]);
            }
            fn apply_quiet(&mut self, op: &Self::Op) {
        self.apply(op.clone());
    }
    fn same(&self, o: &Self) -> bool {
        guard(|| self == o).unwrap_or(false)
    }
    fn reads_sx(&self) -> String {
        map_reads(self, &$leaf_reads)
    }
    fn merge_quiet(&mut self, o: &Self) {
        self.merge(o.clone());
    }
    fn merge_logged(&mut self, o: &Self, t: &mut Out) {
                let before = sx(self);
                t.call(concat!($name, ".validate_merge"), &[before.clone(), sx(o), vm_sx(self.validate_merge(o))]);
                t.call(concat!($name, ".validate_merge"), &[sx(o), before.clone(), vm_sx(o.validate_merge(self))]);
                self.merge(o.clone());
                t.call(concat!($name, ".merge"), &[before, sx(o), sx(self)]);
            }
            fn reads(&self, a: &mut Args, t: &mut Out) {
                let k = a.below(2);
                t.call(concat!($name, ".get"), &[sx(self), k.to_string(), sx(&self.get(&k))]);
                t.call(concat!($name, ".len"), &[sx(self), sx(&self.len())]);
                t.call(concat!($name, ".is_empty"), &[sx(self), sx(&self.is_empty())]);
                t.call(concat!($name, ".read_ctx"), &[sx(self), sx(&self.read_ctx())]);
                let it: Vec<_> = self.iter().collect();
                t.call(concat!($name, ".iter"), &[sx(self), sx(&it)]);
                let ks: Vec<_> = self.keys().collect();
                t.call(concat!($name, ".keys"), &[sx(self), sx(&ks)]);
                let vs: Vec<_> = self.values().collect();
                t.call(concat!($name, ".values"), &[sx(self), sx(&vs)]);
            }
            fn extra(&self, o: &Self, a: &mut Args, t: &mut Out) {
                let c1 = match a.below(4) {
                    0 => self.read_ctx().add_clock,
                    1 => o.read_ctx().add_clock,
                    _ => rand_clock(a, false),
                };
                let c2 = rand_clock(a, false);
                let mut r1 = self.clone();
                r1.reset_remove(&c1);
                t.call(concat!($name, ".reset"), &[sx(self), sx(&c1), sx(&r1)]);
                let mut r2 = r1.clone();
                r2.reset_remove(&c2);
                t.call(concat!($name, ".reset"), &[sx(&r1), sx(&c2), sx(&r2)]);
                reset_laws!(self, &c1, &c2, t);
                t.call(concat!($name, ".validate_merge"), &[sx(self), sx(o), vm_sx(self.validate_merge(o))]);
                t.call(concat!($name, ".validate_merge"), &[sx(o), sx(self), vm_sx(o.validate_merge(self))]);
                serde_rt($name, self, t);
                serde_rt($name, &r1, t);
            }
            fn sx(&self) -> String {
                sx(self)
            }
            fn op_sx(op: &Self::Op) -> String {
                sx(op)
            }
            fn op_roundtrip(op: &Self::Op) -> &'static str {
        crate::json_roundtrip(op)
    }
    fn op_actor(op: &Self::Op) -> Option<u64> {
                match op {
                    map::Op::Up { dot, .. } => Some(dot.actor),
                    _ => None,
                }
            }
        }
    };
}

pub trait MapInfo {
    type V: map::Val<A>;
}
impl MapInfo for MapMV {
    type V = MVReg<u64, A>;
}
impl MapInfo for MapOr {
    type V = Orswot<u64, A>;
}
impl MapInfo for MapMM {
    type V = Map<u64, MVReg<u64, A>, A>;
}
impl MapInfo for MapMO {
    type V = Map<u64, Orswot<u64, A>, A>;
}

fn leaf_mv(v: &MVReg<u64, A>, c: AddCtx<A>, _actor: A, a: &mut Args, t: &mut Out) -> mvreg::Op<u64, A> {
    let val = a.below(4);
    let cs = sx(&c);
    let op = if foreign(val + c.dot.counter) { MVReg::<u64, A>::new().write(val, c) } else { v.write(val, c) };
    t.call("mvreg.write", &[val.to_string(), cs, sx(&op)]);
    op
}
fn leaf_or(v: &Orswot<u64, A>, c: AddCtx<A>, _actor: A, a: &mut Args, t: &mut Out) -> orswot::Op<u64, A> {
    let m = a.below(3);
    match a.below(4) {
        0..=1 => {
            let cs = sx(&c);
            let op = if foreign(m + c.dot.counter) { Orswot::<u64, A>::new().add(m, c) } else { v.add(m, c) };
            t.call("orswot.add", &[m.to_string(), cs, sx(&op)]);
            op
        }
        2 => {
            let r = v.contains(&m);
            t.call("orswot.contains", &[sx(v), m.to_string(), sx(&r)]);
            let ctx = derive_rm(r, t);
            let cs = sx(&ctx);
            let op = v.rm(m, ctx);
            t.call("orswot.rm", &[m.to_string(), cs, sx(&op)]);
            op
        }
        _ => {
            let r = v.read();
            t.call("orswot.read", &[sx(v), sx(&r)]);
            let mut ms: Vec<u64> = r.val.iter().cloned().collect();
            ms.sort();
            let ctx = derive_rm(r, t);
            let cs = sx(&ctx);
            let op = v.rm_all(ms.clone(), ctx);
            t.call("orswot.rm_all", &[sx(&ms), cs, sx(&op)]);
            op
        }
    }
}
fn leaf_mm(
    v: &Map<u64, MVReg<u64, A>, A>,
    c: AddCtx<A>,
    actor: A,
    a: &mut Args,
    t: &mut Out,
) -> map::Op<u64, MVReg<u64, A>, A> {
    let k2 = a.below(2);
    match a.below(4) {
        0..=2 => {
            let cs = sx(&c);
            let op = v.update(k2, c, |r, c2| {
                t.call("mapmv.update.closure", &[sx(r), sx(&c2)]);
                leaf_mv(r, c2, actor, a, t)
            });
            t.call("mapmv.update", &[sx(v), k2.to_string(), cs, sx(&op)]);
            op
        }
        _ => {
            let r = v.get(&k2);
            t.call("mapmv.get", &[sx(v), k2.to_string(), sx(&r)]);
            let ctx = derive_rm(r, t);
            let cs = sx(&ctx);
            let op = v.rm(k2, ctx);
            t.call("mapmv.rm", &[k2.to_string(), cs, sx(&op)]);
            op
        }
    }
}
fn leaf_mo(
    v: &Map<u64, Orswot<u64, A>, A>,
    c: AddCtx<A>,
    actor: A,
    a: &mut Args,
    t: &mut Out,
) -> map::Op<u64, Orswot<u64, A>, A> {
    let k2 = a.below(2);
    match a.below(4) {
        0..=2 => {
            let cs = sx(&c);
            let op = v.update(k2, c, |r, c2| {
                t.call("mapor.update.closure", &[sx(r), sx(&c2)]);
                leaf_or(r, c2, actor, a, t)
            });
            t.call("mapor.update", &[sx(v), k2.to_string(), cs, sx(&op)]);
            op
        }
        _ => {
            let r = v.get(&k2);
            t.call("mapor.get", &[sx(v), k2.to_string(), sx(&r)]);
            let ctx = derive_rm(r, t);
            let cs = sx(&ctx);
            let op = v.rm(k2, ctx);
            t.call("mapor.rm", &[k2.to_string(), cs, sx(&op)]);
            op
        }
    }
}
fn raw_mo(a: &mut Args) -> map::Op<u64, Orswot<u64, A>, A> {
    if a.below(2) == 0 {
        map::Op::Rm { clock: rand_clock(a, false), keyset: (0..a.below(3)).map(|_| a.below(2)).collect() }
    } else {
        map::Op::Up { dot: Dot::new(a.below(4), a.below(5)), key: a.below(2), op: raw_or(a) }
    }
}
fn raw_mv(a: &mut Args) -> mvreg::Op<u64, A> {
    mvreg::Op::Put { clock: rand_clock(a, false), val: a.below(3) }
}
fn raw_or(a: &mut Args) -> orswot::Op<u64, A> {
    orswot_raw(a)
}
fn raw_mm(a: &mut Args) -> map::Op<u64, MVReg<u64, A>, A> {
    if a.below(2) == 0 {
        map::Op::Rm { clock: rand_clock(a, false), keyset: (0..a.below(3)).map(|_| a.below(2)).collect() }
    } else {
        map::Op::Up { dot: Dot::new(a.below(4), a.below(5)), key: a.below(2), op: raw_mv(a) }
    }
}
map_sut!(MapMV, "mapmv", leaf_mv, raw_mv, nested_mvreg_reads);
map_sut!(MapOr, "mapor", leaf_or, raw_or, nested_orswot_reads);
map_sut!(MapMM, "mapmm", leaf_mm, raw_mm, nested_mapmv_reads);
map_sut!(MapMO, "mapmo", leaf_mo, raw_mo, nested_mapor_reads);

// ---------------------------------------------------------------- GList / List
impl Sut for GList<u64> {
    type Op = glist::Op<u64>;
    const NAME: &'static str = "glist";
    const HAS_MERGE: bool = true;
    fn validate_only(&self, op: &Self::Op, t: &mut Out) {
        // order-free type: validate_op accepts everything (C16)
        t.call("glist.validate_op", &[sx(self), Self::op_sx(op), vm_sx(self.validate_op(op))]);
    }
    fn new() -> Self {
        GList::new()
    }
    fn edit(&self, _actor: u64, a: &mut Args, t: &mut Out) -> Option<Self::Op> {
        let x = a.below(6);
        let len = self.len();
        match a.below(4) {
            0..=1 => {
                let ix = a.below(len as u64 + 2) as usize;
                let r = guard(|| self.insert(ix, x));
                match r {
                    Some(op) => {
                        t.call("glist.insert", &[sx(self), ix.to_string(), x.to_string(), sx(&op)]);
                        let mut s2 = self.clone();
                        s2.apply(op.clone());
                        t.line(&format!("(idx insert {} {} {} {})", gread(self), ix, x, gread(&s2)));
                        Some(op)
                    }
                    None => {
                        t.call("glist.insert", &[sx(self), ix.to_string(), x.to_string(), "panic".into()]);
                        None
                    }
                }
            }
            2 => {
                let k = if len == 0 { 0 } else { a.below(len as u64) as usize };
                let id = if len == 0 { None } else { self.get(k) };
                let op = self.insert_after(id, x);
                t.call("glist.insert_after", &[sx(self), sx(&id), x.to_string(), sx(&op)]);
                if id.is_some() {
                    let mut s2 = self.clone();
                    s2.apply(op.clone());
                    t.line(&format!("(idx insert {} {} {} {})", gread(self), k + 1, x, gread(&s2)));
                }
                Some(op)
            }
            _ => {
                let k = if len == 0 { 0 } else { a.below(len as u64) as usize };
                let id = if len == 0 { None } else { self.get(k) };
                let op = self.insert_before(id, x);
                t.call("glist.insert_before", &[sx(self), sx(&id), x.to_string(), sx(&op)]);
                if id.is_some() {
                    let mut s2 = self.clone();
                    s2.apply(op.clone());
                    t.line(&format!("(idx insert {} {} {} {})", gread(self), k, x, gread(&s2)));
                }
                Some(op)
            }
        }
    }
    fn raw(a: &mut Args) -> Self::Op {
        glist::Op::Insert { id: rand_ident_u64(a) }
    }
    fn apply_logged(&mut self, op: &Self::Op, t: &mut Out) {
        let before = sx(self);
        self.apply(op.clone());
        t.call("glist.apply", &[before, sx(op), sx(self)]);
    }
    fn apply_quiet(&mut self, op: &Self::Op) {
        self.apply(op.clone());
    }
    fn same(&self, o: &Self) -> bool {
        guard(|| self == o).unwrap_or(false)
    }
    fn reads_sx(&self) -> String {
        sx(self)
    }
    fn merge_quiet(&mut self, o: &Self) {
        self.merge(o.clone());
    }
    fn merge_logged(&mut self, o: &Self, t: &mut Out) {
        let before = sx(self);
        self.merge(o.clone());
        t.call("glist.merge", &[before, sx(o), sx(self)]);
    }
    fn reads(&self, a: &mut Args, t: &mut Out) {
        let r = guard(|| self.read::<Vec<&u64>>().into_iter().cloned().collect::<Vec<u64>>());
        t.call("glist.read", &[sx(self), match r {
            Some(v) => sx(&v),
            None => "panic".into(),
        }]);
        let ix = a.below(self.len() as u64 + 1) as usize;
        t.call("glist.get", &[sx(self), ix.to_string(), sx(&self.get(ix))]);
        t.call("glist.len", &[sx(self), self.len().to_string()]);
        t.call("glist.is_empty", &[sx(self), self.is_empty().to_string()]);
        t.call("glist.first", &[sx(self), sx(&self.first())]);
        t.call("glist.last", &[sx(self), sx(&self.last())]);
        let it: Vec<Identifier<u64>> = self.iter().cloned().collect();
        t.call("glist.iter", &[sx(self), sx(&it)]);
        if let Some(id) = self.get(ix) {
            // value() panics on an empty identifier: logged as (none)
            let v = guard(|| *id.value());
            let iv = guard(|| id.clone().into_value());
            t.call("ident.value", &[sx(id), sx(&v)]);
            let k = (ix % 5) as i64 - 2;
            let made: Identifier<u64> = Identifier::from((num::BigRational::from_integer(k.into()), ix as u64));
            t.call("ident.from", &[k.to_string(), ix.to_string(), sx(&made)]);
            t.call("ident.value", &[sx(id), sx(&iv)]);
        }
        let into = guard(|| self.clone().read_into::<Vec<u64>>());
        t.call("glist.read_into", &[sx(self), match into {
            Some(v) => sx(&v),
            None => "panic".into(),
        }]);
    }
    fn extra(&self, _o: &Self, a: &mut Args, t: &mut Out) {
        // validate_merge accepts every pair of states (C17)
        t.call("glist.validate_merge", &[sx(self), sx(_o), vm_sx(self.validate_merge(_o))]);
        ident_probes(a, t);
        serde_rt("glist", self, t);
    }
    fn sx(&self) -> String {
        sx(self)
    }
    fn op_sx(op: &Self::Op) -> String {
        sx(op)
    }
    fn op_roundtrip(op: &Self::Op) -> &'static str {
        crate::json_roundtrip(op)
    }
    fn op_actor(_op: &Self::Op) -> Option<u64> {
        None
    }
}

fn small_rat(a: &mut Args) -> num::BigRational {
    let n = a.below(5) as i64 - 2;
    let d = 1 + a.below(3) as i64;
    num::BigRational::new(n.into(), d.into())
}
fn rand_path_u64(a: &mut Args) -> Vec<(num::BigRational, u64)> {
    let n = a.below(4);
    (0..n).map(|_| (small_rat(a), a.below(3))).collect()
}
fn ident_of_path(path: &[(num::BigRational, u64)]) -> Identifier<u64> {
    // Identifier's field is private: build through serde
    serde_json::from_value(serde_json::to_value(path).unwrap()).unwrap()
}
fn rand_ident_u64(a: &mut Args) -> Identifier<u64> {
    ident_of_path(&rand_path_u64(a))
}
/// an identifier related to `path`: equal, an equal-rational sibling (only the last marker
/// differs), a descendant (prefix-related), a cousin below an equal-rational sibling, or unrelated
fn related_ident_u64(path: &[(num::BigRational, u64)], a: &mut Args) -> Identifier<u64> {
    let mut p = path.to_vec();
    match a.below(8) {
        0 => {}
        1 | 2 if !p.is_empty() => {
            let k = p.len() - 1;
            p[k].1 = (p[k].1 + 1 + a.below(2)) % 3;
        }
        3 => p.push((small_rat(a), a.below(3))),
        4 if !p.is_empty() => {
            let k = p.len() - 1;
            p[k].1 = (p[k].1 + 1 + a.below(2)) % 3;
            p.push((small_rat(a), a.below(3)));
        }
        _ => p = rand_path_u64(a),
    }
    ident_of_path(&p)
}
fn rand_ident_od(a: &mut Args) -> Identifier<OrdDot<A>> {
    let n = a.below(4);
    let path: Vec<(num::BigRational, OrdDot<A>)> = (0..n)
        .map(|_| (small_rat(a), OrdDot { actor: a.below(3), counter: a.below(3) }))
        .collect();
    serde_json::from_value(serde_json::to_value(&path).unwrap()).unwrap()
}

/// pure probes of Identifier::cmp / between on adversarial identifiers
pub fn ident_probes(a: &mut Args, t: &mut Out) {
    let px = rand_path_u64(a);
    let x = ident_of_path(&px);
    let y = related_ident_u64(&px, a);
    let z = related_ident_u64(&px, a);
    let m = a.below(3);
    t.call("ident.cmp", &[sx(&x), sx(&y), ord_sx(Some(x.cmp(&y)))]);
    t.call("ident.cmp", &[sx(&y), sx(&z), ord_sx(Some(y.cmp(&z)))]);
    t.call("ident.cmp", &[sx(&x), sx(&z), ord_sx(Some(x.cmp(&z)))]);
    t.call("ident.eq", &[sx(&x), sx(&y), (x == y).to_string()]);
    let b = Identifier::between(Some(&x), Some(&y), m);
    t.call("ident.between", &[sx(&Some(&x)), sx(&Some(&y)), m.to_string(), sx(&b)]);
    let b = Identifier::between(Some(&x), None, m);
    t.call("ident.between", &[sx(&Some(&x)), sx(&None::<&Identifier<u64>>), m.to_string(), sx(&b)]);
    let b = Identifier::between(None, Some(&y), m);
    t.call("ident.between", &[sx(&None::<&Identifier<u64>>), sx(&Some(&y)), m.to_string(), sx(&b)]);
    let b = Identifier::<u64>::between(None, None, m);
    t.call(
        "ident.between",
        &[sx(&None::<&Identifier<u64>>), sx(&None::<&Identifier<u64>>), m.to_string(), sx(&b)],
    );
}

impl Sut for List<u64, A> {
    type Op = list::Op<u64, A>;
    const NAME: &'static str = "list";
    const HAS_MERGE: bool = false;
    fn new() -> Self {
        List::new()
    }
    fn edit(&self, actor: u64, a: &mut Args, t: &mut Out) -> Option<Self::Op> {
        let x = a.below(50);
        let len = self.len();
        match a.below(6) {
            0..=2 => {
                let ix = a.below(len as u64 + 2) as usize;
                let op = self.insert_index(ix, x, actor);
                t.call("list.insert_index", &[sx(self), ix.to_string(), x.to_string(), actor.to_string(), sx(&op)]);
                let mut s2 = self.clone();
                s2.apply(op.clone());
                t.line(&format!("(idx insert {} {} {} {})", lread(self), ix, x, lread(&s2)));
                Some(op)
            }
            3 => {
                let op = self.append(x, actor);
                t.call("list.append", &[sx(self), x.to_string(), actor.to_string(), sx(&op)]);
                let mut s2 = self.clone();
                s2.apply(op.clone());
                t.line(&format!("(idx insert {} {} {} {})", lread(self), self.len(), x, lread(&s2)));
                Some(op)
            }
            _ => {
                let ix = a.below(len as u64 + 1) as usize;
                let op = self.delete_index(ix, actor);
                t.call("list.delete_index", &[sx(self), ix.to_string(), actor.to_string(), sx(&op)]);
                if let Some(o) = &op {
                    let mut s2 = self.clone();
                    s2.apply(o.clone());
                    t.line(&format!("(idx delete {} {} 0 {})", lread(self), ix, lread(&s2)));
                } else {
                    t.line(&format!("(idx delete_none {} {} 0 {})", lread(self), ix, lread(self)));
                }
                op
            }
        }
    }
    fn raw(a: &mut Args) -> Self::Op {
        if a.below(2) == 0 {
            list::Op::Insert { id: rand_ident_od(a), val: a.below(5) }
        } else {
            list::Op::Delete { id: rand_ident_od(a), dot: Dot::new(a.below(3), a.below(4)) }
        }
    }
    fn validate_only(&self, op: &Self::Op, t: &mut Out) {
        let v = guard(|| self.validate_op(op));
        t.call("list.validate_op", &[sx(self), sx(op), match v {
            Some(r) => range_sx(r),
            None => "panic".into(),
        }]);
    }
    fn apply_logged(&mut self, op: &Self::Op, t: &mut Out) {
        let before = sx(self);
        let v = guard(|| self.validate_op(op));
        t.call("list.validate_op", &[before.clone(), sx(op), match v {
            Some(r) => range_sx(r),
            None => "panic".into(),
        }]);
        let mut s2 = self.clone();
        let ok = guard(move || {
            s2.apply(op.clone());
            s2
        });
        match ok {
            Some(s2) => {
                *self = s2;
                t.call("list.apply", &[before, sx(op), sx(self)]);
            }
            None => t.call("list.apply", &[before, sx(op), "panic".into()]),
        }
    }
    fn apply_quiet(&mut self, op: &Self::Op) {
        let mut s2 = self.clone();
        if let Some(s2) = guard(move || {
            s2.apply(op.clone());
            s2
        }) {
            *self = s2;
        }
    }
    fn same(&self, o: &Self) -> bool {
        guard(|| self == o).unwrap_or(false)
    }
    fn reads_sx(&self) -> String {
        list_reads(self)
    }
    fn merge_quiet(&mut self, o: &Self) {
        let _ = o;
    }
    fn merge_logged(&mut self, _o: &Self, _t: &mut Out) {}
    fn reads(&self, a: &mut Args, t: &mut Out) {
        let v: Vec<u64> = self.read::<Vec<&u64>>().into_iter().cloned().collect();
        t.call("list.read", &[sx(self), sx(&v)]);
        t.call("list.len", &[sx(self), self.len().to_string()]);
        let ix = a.below(self.len() as u64 + 1) as usize;
        t.call("list.position", &[sx(self), ix.to_string(), sx(&self.position(ix))]);
        // the remaining read entry points
        t.call("list.is_empty", &[sx(self), self.is_empty().to_string()]);
        let it: Vec<u64> = self.iter().cloned().collect();
        t.call("list.iter", &[sx(self), sx(&it)]);
        let ents: Vec<(Identifier<OrdDot<A>>, u64)> = self.iter_entries().map(|(i, v)| (i.clone(), *v)).collect();
        t.call("list.iter_entries", &[sx(self), sx(&ents)]);
        t.call("list.first", &[sx(self), sx(&self.first())]);
        t.call("list.last", &[sx(self), sx(&self.last())]);
        t.call("list.first_entry", &[sx(self), sx(&self.first_entry())]);
        t.call("list.last_entry", &[sx(self), sx(&self.last_entry())]);
        // an identifier that is present (when there is one) or an arbitrary one
        let id = match ents.get(ix) {
            Some((i, _)) if a.below(4) != 0 => i.clone(),
            _ => rand_ident_od(a),
        };
        t.call("list.position_entry", &[sx(self), sx(&id), sx(&self.position_entry(&id))]);
        t.call("list.get", &[sx(self), sx(&id), sx(&self.get(&id))]);
        let into: Vec<u64> = self.clone().read_into();
        t.call("list.read_into", &[sx(self), sx(&into)]);
        let owned: Vec<u64> = self.clone().into_iter().collect();
        t.call("list.read_into", &[sx(self), sx(&owned)]);
    }
    fn extra(&self, _o: &Self, _a: &mut Args, t: &mut Out) {
        // Op::id / Op::dot of an op built here (not applied)
        let probe = self.append(7, 9);
        t.call("list.op_id", &[sx(&probe), sx(probe.id()), sx(&probe.dot())]);
        serde_rt("list", self, t);
    }
    fn sx(&self) -> String {
        sx(self)
    }
    fn op_sx(op: &Self::Op) -> String {
        sx(op)
    }
    fn op_roundtrip(op: &Self::Op) -> &'static str {
        crate::json_roundtrip(op)
    }
    fn op_actor(op: &Self::Op) -> Option<u64> {
        guard(|| op.dot().actor)
    }
}

// ---------------------------------------------------------------- MerkleReg
type MR = MerkleReg<Vec<u8>>;
impl Sut for MR {
    type Op = merkle_reg::Node<Vec<u8>>;
    const NAME: &'static str = "merkle";
    const HAS_MERGE: bool = true;
    fn new() -> Self {
        MerkleReg::new()
    }
    fn edit(&self, actor: u64, a: &mut Args, t: &mut Out) -> Option<Self::Op> {
        // value: 8 bytes, unique per edit with high probability is NOT wanted: equal
        // nodes (same children, same value) must be exercised too
        // (half of the values do not depend on the writer, so that two replicas can produce
        // the same content-addressed node independently)
        let x = a.next();
        let val = (x % 3 + 10 * actor * ((x / 3) % 2)).to_le_bytes().to_vec();
        let heads = self.read().hashes();
        let children: BTreeSet<merkle_reg::Hash> = match a.below(4) {
            0 => BTreeSet::new(),
            1 => heads.iter().take(1).cloned().collect(),
            _ => heads,
        };
        let op = if foreign(x) { MerkleReg::new().write(val.clone(), children.clone()) } else { self.write(val.clone(), children.clone()) };
        t.call("merkle.write", &[sx(&val), sx(&children), sx(&op), sx(&op.hash())]);
        Some(op)
    }
    fn raw(a: &mut Args) -> Self::Op {
        // a node with a child that nobody has (stays an orphan for ever) or no child
        let mut ch = BTreeSet::new();
        if a.below(2) == 0 {
            ch.insert([a.below(3) as u8; 32]);
        }
        merkle_reg::Node { children: ch, value: a.below(3).to_le_bytes().to_vec() }
    }
    fn apply_logged(&mut self, op: &Self::Op, t: &mut Out) {
        let before = sx(self);
        let v = match self.validate_op(op) {
            Ok(()) => "ok".to_string(),
            Err(merkle_reg::ValidationError::MissingChild(h)) => format!("(missing {})", sx(&h)),
        };
        t.call("merkle.validate_op", &[before.clone(), sx(op), sx(&op.hash()), v]);
        self.apply(op.clone());
        t.call("merkle.apply", &[before, sx(op), sx(&op.hash()), sx(self)]);
    }
    fn apply_quiet(&mut self, op: &Self::Op) {
        self.apply(op.clone());
    }
    fn same(&self, o: &Self) -> bool {
        guard(|| self == o).unwrap_or(false)
    }
    fn reads_sx(&self) -> String {
        merkle_reads(self)
    }
    fn merge_quiet(&mut self, o: &Self) {
        self.merge(o.clone());
    }
    fn merge_logged(&mut self, o: &Self, t: &mut Out) {
        let before = sx(self);
        self.merge(o.clone());
        t.call("merkle.merge", &[before, sx(o), sx(self)]);
    }
    fn reads(&self, a: &mut Args, t: &mut Out) {
        let r = self.read();
        let hs = r.hashes();
        let vals: Vec<&Vec<u8>> = r.values().collect();
        t.call("merkle.read", &[sx(self), sx(&hs), sx(&vals)]);
        // the Content view of the heads: hashes_and_nodes / nodes / values / is_empty
        {
            let c = self.read();
            let hn: Vec<(merkle_reg::Hash, merkle_reg::Node<Vec<u8>>)> = c.hashes_and_nodes().map(|(h, n)| (h, n.clone())).collect();
            let ns: Vec<merkle_reg::Node<Vec<u8>>> = c.nodes().cloned().collect();
            let vs: Vec<Vec<u8>> = c.values().cloned().collect();
            t.call("merkle.content", &[sx(self), sx(&hn), sx(&ns), sx(&vs), c.is_empty().to_string()]);
        }
        t.call("merkle.num_nodes", &[sx(self), self.num_nodes().to_string()]);
        t.call("merkle.num_orphans", &[sx(self), self.num_orphans().to_string()]);
        let all: Vec<merkle_reg::Hash> = self.all_nodes().map(|n| n.hash()).collect();
        if !all.is_empty() {
            let h = all[a.below(all.len() as u64) as usize];
            t.call("merkle.node", &[sx(self), sx(&h), sx(&self.node(h))]);
            t.call("merkle.children", &[sx(self), sx(&h), sx(&self.children(h).hashes())]);
            t.call("merkle.parents", &[sx(self), sx(&h), sx(&self.parents(h).hashes())]);
        }
    }
    fn extra(&self, _o: &Self, _a: &mut Args, t: &mut Out) {
        // validate_merge accepts every pair of states (C17)
        t.call("merkle.validate_merge", &[sx(self), sx(_o), vm_sx(self.validate_merge(_o))]);
        serde_rt("merkle", self, t);
    }
    fn sx(&self) -> String {
        sx(self)
    }
    fn op_sx(op: &Self::Op) -> String {
        format!("(N {} {})", sx(op), sx(&op.hash()))
    }
    fn op_roundtrip(op: &Self::Op) -> &'static str {
        crate::json_roundtrip(op)
    }
    fn op_actor(_op: &Self::Op) -> Option<u64> {
        None
    }
}

// ---------------------------------------------------------------- canonical reads
pub fn orswot_reads(s: &Orswot<u64, A>) -> String {
    let r = s.read();
    let mut ms: Vec<(u64, String)> = s.iter().map(|c| (*c.val, sx(&c.rm_clock))).collect();
    ms.sort();
    format!("orswot add={} rm={} members={:?}", sx(&r.add_clock), sx(&r.rm_clock), ms)
}
pub fn mvreg_reads(s: &MVReg<u64, A>) -> String {
    let r = s.read();
    let mut v = r.val.clone();
    v.sort();
    format!("mvreg add={} rm={} vals={:?}", sx(&r.add_clock), sx(&r.rm_clock), v)
}
pub fn map_reads<V: map::Val<A>>(s: &Map<u64, V, A>, leaf: &dyn Fn(&V) -> String) -> String {
    let mut es: Vec<(u64, String, String)> = s.iter().map(|c| (*c.val.0, sx(&c.rm_clock), leaf(c.val.1))).collect();
    es.sort();
    let r = s.read_ctx();
    format!("map add={} rm={} len={} entries={:?}", sx(&r.add_clock), sx(&r.rm_clock), s.len().val, es)
}
pub fn mapmv_reads(s: &Map<u64, MVReg<u64, A>, A>) -> String {
    map_reads(s, &nested_mvreg_reads)
}
// Reads of a value NESTED in a Map: what an application observes and may build ops from -
// members / values / inner keys and the remove contexts of the elements.  The nested value's
// own add context (its private clock) is not part of it: edits of a nested value take their add
// context from the enclosing top-level Map (Map::update), and property C07 scopes the context
// guarantees to top-level replicas.  (Structural equality of the whole state is C20's business.)
pub fn nested_orswot_reads(s: &Orswot<u64, A>) -> String {
    let mut ms: Vec<(u64, String)> = s.iter().map(|c| (*c.val, sx(&c.rm_clock))).collect();
    ms.sort();
    format!("orswot members={:?}", ms)
}
pub fn nested_mvreg_reads(s: &MVReg<u64, A>) -> String {
    let mut v = s.read().val.clone();
    v.sort();
    format!("mvreg vals={:?}", v)
}
pub fn nested_mapmv_reads(s: &Map<u64, MVReg<u64, A>, A>) -> String {
    let mut es: Vec<(u64, String, String)> = s.iter().map(|c| (*c.val.0, sx(&c.rm_clock), nested_mvreg_reads(c.val.1))).collect();
    es.sort();
    format!("map len={} entries={:?}", s.len().val, es)
}
pub fn nested_mapor_reads(s: &Map<u64, Orswot<u64, A>, A>) -> String {
    let mut es: Vec<(u64, String, String)> = s.iter().map(|c| (*c.val.0, sx(&c.rm_clock), nested_orswot_reads(c.val.1))).collect();
    es.sort();
    format!("map len={} entries={:?}", s.len().val, es)
}
pub fn list_reads(s: &List<u64, A>) -> String {
    let v: Vec<u64> = s.read::<Vec<&u64>>().into_iter().cloned().collect();
    let ids: Vec<String> = s.iter_entries().map(|(i, _)| sx(i)).collect();
    format!("list {:?} {:?}", v, ids)
}
pub fn merkle_reads(s: &MR) -> String {
    let r = s.read();
    let mut all: Vec<merkle_reg::Hash> = s.all_nodes().map(|n| n.hash()).collect();
    all.sort();
    format!("merkle heads={} nodes={} orphans={} dag={}", sx(&r.hashes()), s.num_nodes(), s.num_orphans(), sx(&all))
}

fn lread(s: &List<u64, A>) -> String {
    let v: Vec<u64> = s.read::<Vec<&u64>>().into_iter().cloned().collect();
    sx(&v)
}
fn gread(s: &GList<u64>) -> String {
    match guard(|| s.read::<Vec<&u64>>().into_iter().cloned().collect::<Vec<u64>>()) {
        Some(v) => sx(&v),
        None => "panic".into(),
    }
}

