//! A serde Serializer that renders any Serialize value as an S-expression.
//! maps -> (M (k v) ...), seqs/tuples -> (L x ...), structs -> (R (field v) ...),
//! enum variants -> (V name ...), options -> (none)/(some x), unit -> ().
use serde::ser::{self, Serialize};
use std::fmt::Display;

#[derive(Debug)]
pub struct Error(String);
impl Display for Error {
    fn fmt(&self, f: &mut std::fmt::Formatter) -> std::fmt::Result {
        write!(f, "{}", self.0)
    }
}
impl std::error::Error for Error {}
impl ser::Error for Error {
    fn custom<T: Display>(msg: T) -> Self {
        Error(msg.to_string())
    }
}

pub struct Ser {
    out: String,
}

pub fn to_sexp<T: Serialize + ?Sized>(v: &T) -> String {
    let mut s = Ser { out: String::new() };
    v.serialize(&mut s).expect("sexp serialization cannot fail");
    s.out
}

macro_rules! num {
    ($f:ident, $t:ty) => {
        fn $f(self, v: $t) -> Result<(), Error> {
            self.out.push_str(&v.to_string());
            Ok(())
        }
    };
}

impl<'a> ser::Serializer for &'a mut Ser {
    type Ok = ();
    type Error = Error;
    type SerializeSeq = Self;
    type SerializeTuple = Self;
    type SerializeTupleStruct = Self;
    type SerializeTupleVariant = Self;
    type SerializeMap = Self;
    type SerializeStruct = Self;
    type SerializeStructVariant = Self;
    num!(serialize_bool, bool);
    num!(serialize_i8, i8);
    num!(serialize_i16, i16);
    num!(serialize_i32, i32);
    num!(serialize_i64, i64);
    num!(serialize_i128, i128);
    num!(serialize_u8, u8);
    num!(serialize_u16, u16);
    num!(serialize_u32, u32);
    num!(serialize_u64, u64);
    num!(serialize_u128, u128);
    num!(serialize_f32, f32);
    num!(serialize_f64, f64);
    fn serialize_char(self, v: char) -> Result<(), Error> {
        self.out.push_str(&format!("c{}", v as u32));
        Ok(())
    }
    fn serialize_str(self, v: &str) -> Result<(), Error> {
        self.out.push_str("(str");
        for b in v.bytes() {
            self.out.push_str(&format!(" {}", b));
        }
        self.out.push(')');
        Ok(())
    }
    fn serialize_bytes(self, v: &[u8]) -> Result<(), Error> {
        self.out.push_str("(L");
        for b in v {
            self.out.push_str(&format!(" {}", b));
        }
        self.out.push(')');
        Ok(())
    }
    fn serialize_none(self) -> Result<(), Error> {
        self.out.push_str("(none)");
        Ok(())
    }
    fn serialize_some<T: ?Sized + Serialize>(self, v: &T) -> Result<(), Error> {
        self.out.push_str("(some ");
        v.serialize(&mut *self)?;
        self.out.push(')');
        Ok(())
    }
    fn serialize_unit(self) -> Result<(), Error> {
        self.out.push_str("()");
        Ok(())
    }
    fn serialize_unit_struct(self, _n: &'static str) -> Result<(), Error> {
        self.out.push_str("()");
        Ok(())
    }
    fn serialize_unit_variant(self, _n: &'static str, _i: u32, v: &'static str) -> Result<(), Error> {
        self.out.push_str(&format!("(V {})", v));
        Ok(())
    }
    fn serialize_newtype_struct<T: ?Sized + Serialize>(self, _n: &'static str, v: &T) -> Result<(), Error> {
        v.serialize(self)
    }
    fn serialize_newtype_variant<T: ?Sized + Serialize>(
        self,
        _n: &'static str,
        _i: u32,
        var: &'static str,
        v: &T,
    ) -> Result<(), Error> {
        self.out.push_str(&format!("(V {} ", var));
        v.serialize(&mut *self)?;
        self.out.push(')');
        Ok(())
    }
    fn serialize_seq(self, _l: Option<usize>) -> Result<Self, Error> {
        self.out.push_str("(L");
        Ok(self)
    }
    fn serialize_tuple(self, _l: usize) -> Result<Self, Error> {
        self.out.push_str("(L");
        Ok(self)
    }
    fn serialize_tuple_struct(self, _n: &'static str, _l: usize) -> Result<Self, Error> {
        self.out.push_str("(L");
        Ok(self)
    }
    fn serialize_tuple_variant(self, _n: &'static str, _i: u32, v: &'static str, _l: usize) -> Result<Self, Error> {
        self.out.push_str(&format!("(V {}", v));
        Ok(self)
    }
    fn serialize_map(self, _l: Option<usize>) -> Result<Self, Error> {
        self.out.push_str("(M");
        Ok(self)
    }
    fn serialize_struct(self, _n: &'static str, _l: usize) -> Result<Self, Error> {
        self.out.push_str("(R");
        Ok(self)
    }
    fn serialize_struct_variant(self, _n: &'static str, _i: u32, v: &'static str, _l: usize) -> Result<Self, Error> {
        self.out.push_str(&format!("(V {}", v));
        Ok(self)
    }
}

macro_rules! seq_like {
    ($tr:ident, $m:ident) => {
        impl<'a> ser::$tr for &'a mut Ser {
            type Ok = ();
            type Error = Error;
            fn $m<T: ?Sized + Serialize>(&mut self, v: &T) -> Result<(), Error> {
                self.out.push(' ');
                v.serialize(&mut **self)
            }
            fn end(self) -> Result<(), Error> {
                self.out.push(')');
                Ok(())
            }
        }
    };
}
seq_like!(SerializeSeq, serialize_element);
seq_like!(SerializeTuple, serialize_element);
seq_like!(SerializeTupleStruct, serialize_field);
seq_like!(SerializeTupleVariant, serialize_field);

impl<'a> ser::SerializeMap for &'a mut Ser {
    type Ok = ();
    type Error = Error;
    fn serialize_key<T: ?Sized + Serialize>(&mut self, k: &T) -> Result<(), Error> {
        self.out.push_str(" (");
        k.serialize(&mut **self)
    }
    fn serialize_value<T: ?Sized + Serialize>(&mut self, v: &T) -> Result<(), Error> {
        self.out.push(' ');
        v.serialize(&mut **self)?;
        self.out.push(')');
        Ok(())
    }
    fn end(self) -> Result<(), Error> {
        self.out.push(')');
        Ok(())
    }
}
macro_rules! struct_like {
    ($tr:ident) => {
        impl<'a> ser::$tr for &'a mut Ser {
            type Ok = ();
            type Error = Error;
            fn serialize_field<T: ?Sized + Serialize>(&mut self, k: &'static str, v: &T) -> Result<(), Error> {
                self.out.push_str(&format!(" ({} ", k));
                v.serialize(&mut **self)?;
                self.out.push(')');
                Ok(())
            }
            fn end(self) -> Result<(), Error> {
                self.out.push(')');
                Ok(())
            }
        }
    };
}
struct_like!(SerializeStruct);
struct_like!(SerializeStructVariant);
