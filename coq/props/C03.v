(** C03 — state merge and op delivery are interchangeable (hybrid replication).
    Only property theorems; every proof is [exact lemma].
    [reach] mixes op deliveries and merges freely in one history; merging two
    reachable states gives exactly the specification of the union of their
    knowledge, i.e. the state of any replica that learned that union in any
    other way (ops only, other merges). *)
From stdpp Require Import gmap.
From Crdt Require Import model.VClock model.Simple model.Orswot model.MVReg model.List model.Merkle
  spec.System spec.OrswotSpec spec.Specs spec.OrswotSystem spec.MVRegSystem
  proofs.Simple proofs.OrswotSystem proofs.MVReg proofs.GListSystem proofs.MerkleSystem.
From Crdt Require Import model.Map proofs.MapFacts proofs.MapRefuted.
Local Open Scope N_scope.

Theorem C03_orswot H (Hok : ohist_ok H) s1 K1 s2 K2 s K :
  oreach H s1 K1 → oreach H s2 K2 →
  omerge s1 s2 = ospec H (K1 ∪ K2) ∧ oreach H (omerge s1 s2) (K1 ∪ K2) ∧
  (oreach H s K → K = K1 ∪ K2 → omerge s1 s2 = s).
Proof.
  exact (λ H1 H2, conj (proj1 (orswot_merge_is_union H Hok s1 K1 s2 K2 H1 H2))
                 (conj (proj2 (orswot_merge_is_union H Hok s1 K1 s2 K2 H1 H2))
                       (λ H3 HK, orswot_converge H Hok (omerge s1 s2) s K
                                   (eq_ind_r (λ k, oreach H (omerge s1 s2) k) (proj2 (orswot_merge_is_union H Hok s1 K1 s2 K2 H1 H2)) HK) H3))).
Qed.
Print Assumptions C03_orswot.

Theorem C03_mvreg H s1 K1 s2 K2 s K : mvhist_ok H →
  mvreach H s1 K1 → mvreach H s2 K2 → mvreach H s K → K = K1 ∪ K2 → mvmerge s1 s2 ≡ₚ s.
Proof. exact (λ Hok, mv_merge_is_union H s1 K1 s2 K2 s K (mv_hist_ok_wf H Hok)). Qed.
Print Assumptions C03_mvreg.

Theorem C03_glist (H : list (oprec (list (Qc * N)))) s1 K1 s2 K2 s K :
  glreach H s1 K1 → glreach H s2 K2 → glreach H s K → K = K1 ∪ K2 → gl_merge s1 s2 = s.
Proof. exact (gl_merge_is_union H s1 K1 s2 K2 s K). Qed.
Print Assumptions C03_glist.

Theorem C03_merklereg hash (hi : ∀ n1 n2 : mnode, hash n1 = hash n2 → n1 = n2) H s1 K1 s2 K2 s K :
  mkreach hash H s1 K1 → mkreach hash H s2 K2 → mkreach hash H s K → K = K1 ∪ K2 →
  mk_merge' hash s1 s2 = s.
Proof. exact (mk_merge_is_union hash hi H s1 K1 s2 K2 s K). Qed.
Print Assumptions C03_merklereg.

Theorem C03_gcounter (H : list (oprec dot)) s K s' K' i r :
  reach (∅ : vclock) vapply vmerge adm_any True H s K → reach ∅ vapply vmerge adm_any True H s' K' →
  vmerge s s' = gcspec H (K ∪ K') ∧
  (H !! i = Some r → i ∈ K → vapply s (op_val r) = s) ∧ (K' ⊆ K → vmerge s s' = s).
Proof. exact (gc_hybrid_absorb H s K s' K' i r). Qed.
Print Assumptions C03_gcounter.

Theorem C03_pncounter (H : list (oprec pnop)) s K s' K' i r :
  reach pn_new pn_apply pn_merge adm_any True H s K → reach pn_new pn_apply pn_merge adm_any True H s' K' →
  pn_merge s s' = pnspec H (K ∪ K') ∧
  (H !! i = Some r → i ∈ K → pn_apply s (op_val r) = s) ∧ (K' ⊆ K → pn_merge s s' = s).
Proof. exact (pn_hybrid_absorb H s K s' K' i r). Qed.
Print Assumptions C03_pncounter.

(** GSet, MaxReg, MinReg, LWWReg: the state after any mix of applies and merges
    is the specification of the knowledge (merge included in [reach]) *)
Theorem C03_gset_registers init linit (H : list (oprec N)) (HL : list (oprec lww)) s K m l :
  (reach (∅ : gset N) gs_apply gs_merge adm_any True H s K → s = gsspec H K) ∧
  (reach init max_update max_update adm_any True H m K → m = maxspec init H K) ∧
  (reach init min_update min_update adm_any True H m K → m = minspec init H K) ∧
  (reach linit lww_merge lww_merge adm_any True HL l K →
   lww_marker l = foldr N.max (lww_marker linit) (lww_marker <$> known_ops HL K) ∧ (l = linit ∨ l ∈ known_ops HL K)).
Proof.
  exact (conj (gs_reach_spec H s K) (conj (max_reach_spec init H m K) (conj (min_reach_spec init H m K) (lww_reach_spec linit HL l K)))).
Qed.
Print Assumptions C03_gset_registers.

(** Map is REFUTED (known finding T2): a key removed by a peer resurrects its old member when merged with the state of the actor that concurrently issued a second update (op delivery gives a different result) *)
Theorem C03_map_refuted_witness :
  let s0 := mnew in
         let op1 := upd_or_add s0 2 0 8 in
         let a1 := or_apply s0 op1 in
         let op2 := upd_or_add a1 2 0 9 in
         let a2 := or_apply a1 op2 in
         let p1 := or_apply s0 op1 in
         let op3 := rm_key oop p1 0 in
         let p2 := or_apply p1 op3 in
         op1 = MUp {| dactor := 2; dcounter := 1 |} 0 (OAdd {| dactor := 2; dcounter := 1 |} [8])
         ∧ op2 = MUp {| dactor := 2; dcounter := 2 |} 0 (OAdd {| dactor := 2; dcounter := 2 |} [9])
           ∧ op3 = MRm {[2 := 1]} {[0]}
             ∧ read_or p1 0 = Some [8]
               ∧ read_or p2 0 = None
                 ∧ contains_or (or_merge p2 a2) 0 8 = true
                   ∧ contains_or (or_merge a2 p2) 0 8 = true
                     ∧ read_or (or_apply p2 op2) 0 = Some [9]
                       ∧ read_or (or_apply a2 op3) 0 = Some [9] ∧ or_merge p2 a2 ≠ or_apply p2 op2.
Proof. exact map_T2_resurrection_refuted. Qed.
Print Assumptions C03_map_refuted_witness.

(** Map is REFUTED (known finding T1): the same four API-generated ops delivered in two different CAUSAL orders (and via a merge) give different reads under key 0 *)
Theorem C03_map_order_refuted_witness :
  let s0 := mnew in
         let opA := upd_mv s0 3 1 7 in
         let r2 := mv_apply s0 opA in
         let opB := upd_mv r2 2 0 1 in
         let r2' := mv_apply r2 opB in
         let opC := upd_mv s0 1 0 5 in
         let opD := rm_key mvop r2' 0 in
         let deliver := foldl mv_apply s0 in
         let x := deliver [opA; opB; opC; opD] in
         let y := deliver [opA; opB; opD; opC] in
         let z := mv_merge (deliver [opA; opB; opD]) (deliver [opC]) in
         opA = MUp {| dactor := 3; dcounter := 1 |} 1 (MVPut {[3 := 1]} 7)
         ∧ opB = MUp {| dactor := 2; dcounter := 1 |} 0 (MVPut {[3 := 1; 2 := 1]} 1)
           ∧ opC = MUp {| dactor := 1; dcounter := 1 |} 0 (MVPut {[1 := 1]} 5)
             ∧ opD = MRm {[2 := 1]} {[0]}
               ∧ read_mv x 0 = Some [1; 5]
                 ∧ read_mv y 0 = Some [5] ∧ read_mv z 0 = Some [5] ∧ x ≠ y ∧ x ≠ z.
Proof. exact map_T1_order_refuted. Qed.
Print Assumptions C03_map_order_refuted_witness.

From Crdt Require Import model.Map spec.System spec.OrswotSpec spec.OrswotSystem spec.MapSpec spec.MapSystem proofs.OrswotSystem proofs.MapKeys.

(** Map, key level (any nested value type): merge is commutative, associative, idempotent,
    equals learning the union of the two knowledge sets, and is the Orswot merge of the key layers *)
Theorem C03_map_keys_merge_laws {V O E} (vo : valops V O E) (H : list (oprec (mop O))) :
  owfH (habs H) ->
  forall (s1 : cmap V) (K1 : gset nat) (s2 : cmap V) (K2 : gset nat) (s3 : cmap V) (K3 : gset nat),
    mapreach vo H s1 K1 -> mapreach vo H s2 K2 -> mapreach vo H s3 K3 ->
    kabs (mmerge vo s1 s2) = kabs (mmerge vo s2 s1)
    /\ kabs (mmerge vo (mmerge vo s1 s2) s3) = kabs (mmerge vo s1 (mmerge vo s2 s3))
    /\ kabs (mmerge vo s1 s1) = kabs s1
    /\ kabs (mmerge vo s1 s2) = ospec (habs H) (K1 ∪ K2)
    /\ kabs (mmerge vo s1 s2) = omerge (kabs s1) (kabs s2).
Proof. exact (map_keys_merge_laws vo H). Qed.
Print Assumptions C03_map_keys_merge_laws.

(** Map<K, Orswot> whose keys are never removed: merging two replicas yields exactly the state of a replica that learned the
    union of the ops behind them; ops and merges mix freely (proofs/MapOrswotNK.v) *)
From Crdt Require Import model.Orswot model.Map spec.System spec.OrswotSpec spec.OrswotSystem spec.MapSpec spec.MapSystem spec.MapOrswotSpec proofs.MapOrswotNK proofs.MapOrswotNKCor.
Theorem C03_mapor_nk_merge_spec (H : list (oprec (mop oop))) :
  mohist_ok_nk H -> forall (s1 : cmap orswot) (K1 : gset nat) (s2 : cmap orswot) (K2 : gset nat),
  moreach_nk H s1 K1 -> moreach_nk H s2 K2 ->
  mmerge orswot_valops s1 s2 = mapor_spec_nk H (K1 ∪ K2).
Proof. exact (mapor_merge_spec_nk H). Qed.
Print Assumptions C03_mapor_nk_merge_spec.

Theorem C03_mapor_nk_merge_is_union (H : list (oprec (mop oop))) :
  mohist_ok_nk H -> forall (s1 : cmap orswot) (K1 : gset nat) (s2 : cmap orswot) (K2 : gset nat) (s : cmap orswot) (K : gset nat),
  moreach_nk H s1 K1 -> moreach_nk H s2 K2 -> moreach_nk H s K -> K = K1 ∪ K2 ->
  mmerge orswot_valops s1 s2 = s.
Proof. exact (mapor_merge_is_union_nk H). Qed.
Print Assumptions C03_mapor_nk_merge_is_union.

(** Map<K1, Map<K2, Orswot>> when no key is ever removed: merging = having learned the union of the ops (proofs/MapMapOrswotNK.v) *)
From Crdt Require Import model.Orswot model.Map spec.System spec.OrswotSpec spec.OrswotSystem spec.MapSpec spec.MapSystem spec.MapOrswotSpec spec.MapMapOrswotSpec spec.MapMapOrswotNKSpec proofs.MapMapOrswotNK.
Theorem C03_map2_nk_merge_spec (H : list (oprec (mop (mop oop)))) :
  m2hist_ok_nk H -> forall (s1 : cmap (cmap orswot)) (K1 : gset nat) (s2 : cmap (cmap orswot)) (K2 : gset nat),
  m2reach_nk H s1 K1 -> m2reach_nk H s2 K2 -> mmerge vo2 s1 s2 = map2_spec_nk H (K1 ∪ K2).
Proof. exact (map2_merge_spec_nk H). Qed.
Print Assumptions C03_map2_nk_merge_spec.

Theorem C03_map2_nk_merge_is_union (H : list (oprec (mop (mop oop)))) :
  m2hist_ok_nk H -> forall (s1 : cmap (cmap orswot)) (K1 : gset nat) (s2 : cmap (cmap orswot)) (K2 : gset nat) (s : cmap (cmap orswot)) (K : gset nat),
  m2reach_nk H s1 K1 -> m2reach_nk H s2 K2 -> m2reach_nk H s K -> K = K1 ∪ K2 -> mmerge vo2 s1 s2 = s.
Proof. exact (map2_merge_is_union_nk H). Qed.
Print Assumptions C03_map2_nk_merge_is_union.

(** Map<K, Orswot> WITH key removes and merges, in the fragment the known findings leave: members are added under keys and keys are removed (no nested remove: T3), and every key that some key remove names is updated at most once by each actor ([km_once]: T2 needs two updates of one actor): merging two replicas yields exactly the state of a replica that learned the union of the ops; ops and merges mix freely
    (proofs/MapOrswotKM.v) *)
From Crdt Require Import model.Orswot model.Map spec.System spec.OrswotSpec spec.OrswotSystem spec.MapSpec spec.MapSystem spec.MapOrswotSpec spec.MapOrswotKM proofs.MapOrswotKM proofs.MapOrswotKMCor.
Theorem C03_mapor_km_merge_spec (H : list (oprec (mop oop))) :
  mohist_ok_km H -> km_once H -> forall (s1 : cmap orswot) (K1 : gset nat) (s2 : cmap orswot) (K2 : gset nat),
  moreach_km H s1 K1 -> moreach_km H s2 K2 -> mmerge orswot_valops s1 s2 = mapor_spec_km H (K1 ∪ K2).
Proof. exact (mapor_merge_spec_km H). Qed.
Print Assumptions C03_mapor_km_merge_spec.

Theorem C03_mapor_km_merge_is_union (H : list (oprec (mop oop))) :
  mohist_ok_km H -> km_once H -> forall (s1 : cmap orswot) (K1 : gset nat) (s2 : cmap orswot) (K2 : gset nat) (s : cmap orswot) (K : gset nat),
  moreach_km H s1 K1 -> moreach_km H s2 K2 -> moreach_km H s K -> K = K1 ∪ K2 -> mmerge orswot_valops s1 s2 = s.
Proof. exact (mapor_merge_is_union_km H). Qed.
Print Assumptions C03_mapor_km_merge_is_union.

(** Map<K, Orswot>, EVERY history outside the classes of the known findings T2 and T3 (all commands; a key that some key remove names receives only nested adds [kmn_addonly] and at most one update per actor [km_once]; any other key receives anything): merging two replicas yields exactly the state of a replica that learned the union of the ops (proofs/MapOrswotKMN.v) *)
From Crdt Require Import model.Orswot model.Map spec.System spec.OrswotSpec spec.OrswotSystem spec.MapSpec spec.MapSystem spec.MapOrswotSpec spec.MapOrswotKM spec.MapOrswotKMN proofs.MapOrswotKMN proofs.MapOrswotKMNCor.
Theorem C03_mapor_kmn_merge_spec (H : list (oprec (mop oop))) :
  mohist_ok_kmn H -> km_once H -> kmn_addonly H -> forall (s1 : cmap orswot) (K1 : gset nat) (s2 : cmap orswot) (K2 : gset nat),
  moreach_kmn H s1 K1 -> moreach_kmn H s2 K2 -> mmerge orswot_valops s1 s2 = mapor_spec_kmn H (K1 ∪ K2).
Proof. exact (mapor_merge_spec_kmn H). Qed.
Print Assumptions C03_mapor_kmn_merge_spec.

Theorem C03_mapor_kmn_merge_is_union (H : list (oprec (mop oop))) :
  mohist_ok_kmn H -> km_once H -> kmn_addonly H ->
  forall (s1 : cmap orswot) (K1 : gset nat) (s2 : cmap orswot) (K2 : gset nat) (s : cmap orswot) (K : gset nat),
  moreach_kmn H s1 K1 -> moreach_kmn H s2 K2 -> moreach_kmn H s K -> K = K1 ∪ K2 -> mmerge orswot_valops s1 s2 = s.
Proof. exact (mapor_merge_is_union_kmn H). Qed.
Print Assumptions C03_mapor_kmn_merge_is_union.

(** depth 3 without key removes: merge = state of the union of knowledge (proofs/MapNKFunctorInst.v) *)
From Crdt Require Import model.Orswot model.Map spec.System spec.OrswotSpec spec.OrswotSystem spec.MapSpec spec.MapSystem spec.MapOrswotSpec spec.MapMapOrswotSpec spec.MapMapOrswotNKSpec proofs.MapMapOrswotNK proofs.MapNKFunctor proofs.MapNKFunctorInst.
Theorem C03_map3_nk_merge_spec (H : list (oprec (mop (mop (mop oop))))) :
  m3hist_ok_nk H -> forall (s1 : cmap (cmap (cmap orswot))) (K1 : gset nat) (s2 : cmap (cmap (cmap orswot))) (K2 : gset nat),
  m3reach_nk H s1 K1 -> m3reach_nk H s2 K2 -> mmerge (map_valops (map_valops orswot_valops)) s1 s2 = map3_spec_nk H (K1 ∪ K2).
Proof. exact (map3_merge_spec_nk H). Qed.
Print Assumptions C03_map3_nk_merge_spec.
