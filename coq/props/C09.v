(** C09 — duplicates and stale states are absorbed; removed data never
    resurrects.  Only property theorems; every proof is [exact lemma].
    For every reachable state [s] with knowledge [K]: re-applying an op of [K],
    or merging any reachable state whose knowledge is contained in [K] (an old
    snapshot, its own past, a lagging peer), leaves the state unchanged — so in
    particular what was removed stays removed until a new op extends [K]. *)
From stdpp Require Import gmap.
From Crdt Require Import model.VClock model.Simple model.Orswot model.MVReg model.List model.Merkle
  spec.System spec.OrswotSpec spec.Specs spec.OrswotSystem spec.MVRegSystem spec.ListSystem
  proofs.Simple proofs.OrswotSystem proofs.MVReg proofs.ListSystem proofs.GListSystem proofs.MerkleSystem.
From Crdt Require Import model.Map proofs.MapFacts proofs.MapRefuted.
Local Open Scope N_scope.

Theorem C09_orswot H (Hok : ohist_ok H) s K i r s' K' : oreach H s K → oreach H s' K' →
  (H !! i = Some r → i ∈ K → oapply s (op_val r) = s) ∧ (K' ⊆ K → omerge s s' = s).
Proof. exact (orswot_absorb H Hok s K i r s' K'). Qed.
Print Assumptions C09_orswot.

(** membership is a function of the knowledge alone: nothing that does not
    extend the knowledge can bring a removed member back *)
Theorem C09_orswot_no_resurrection H (Hok : ohist_ok H) s K m : oreach H s K →
  (m ∈ rval (oread s) ↔
     ∃ d ms, OAdd d ms ∈ known_ops H K ∧ m ∈ ms ∧
             ¬ ∃ c ms', ORm c ms' ∈ known_ops H K ∧ m ∈ ms' ∧ dcounter d <= vget c (dactor d)).
Proof. exact (λ Hr, proj1 (orswot_c04 H Hok s K m Hr)). Qed.
Print Assumptions C09_orswot_no_resurrection.

Theorem C09_mvreg H s K i o s' K' : mvhist_ok H → mvreach H s K → mvreach H s' K' →
  (H !! i = Some o → i ∈ K → mvapply s (op_val o) ≡ₚ s) ∧ (K' ⊆ K → mvmerge s s' ≡ₚ s).
Proof.
  exact (λ Hok H1 H2, conj (mv_dup_apply H s K i o (mv_hist_ok_wf H Hok) H1)
                           (mv_stale_merge H s K s' K' (mv_hist_ok_wf H Hok) H1 H2)).
Qed.
Print Assumptions C09_mvreg.

Theorem C09_list H s K i r : lhist_ok H → lreach H s K → H !! i = Some r →
  adm_causal H K i → i ∈ K → l_apply' s (op_val r) = s.
Proof. exact (λ Hok, list_dup_apply H s K i r (lhist_ok_lwfH H Hok)). Qed.
Print Assumptions C09_list.

Theorem C09_glist (H : list (oprec (list (Qc * N)))) s K i o s' K' : glreach H s K → glreach H s' K' →
  (H !! i = Some o → i ∈ K → gl_apply s (op_val o) = s) ∧ (K' ⊆ K → gl_merge s s' = s).
Proof. exact (λ H1 H2, conj (gl_dup_apply H s K i o H1) (gl_stale_merge H s K s' K' H1 H2)). Qed.
Print Assumptions C09_glist.

Theorem C09_merklereg hash (hi : ∀ n1 n2 : mnode, hash n1 = hash n2 → n1 = n2) H s K i o s' K' :
  mkreach hash H s K → mkreach hash H s' K' →
  (H !! i = Some o → i ∈ K → mk_apply' hash s (op_val o) = s) ∧ (K' ⊆ K → mk_merge' hash s s' = s).
Proof. exact (λ H1 H2, conj (mk_dup_apply hash hi H s K i o H1) (mk_stale_merge hash hi H s K s' K' H1 H2)). Qed.
Print Assumptions C09_merklereg.

Theorem C09_gcounter (H : list (oprec dot)) s K s' K' i r :
  reach (∅ : vclock) vapply vmerge adm_any True H s K → reach ∅ vapply vmerge adm_any True H s' K' →
  vmerge s s' = gcspec H (K ∪ K') ∧
  (H !! i = Some r → i ∈ K → vapply s (op_val r) = s) ∧ (K' ⊆ K → vmerge s s' = s).
Proof. exact (gc_hybrid_absorb H s K s' K' i r). Qed.
Print Assumptions C09_gcounter.

Theorem C09_pncounter (H : list (oprec pnop)) s K s' K' i r :
  reach pn_new pn_apply pn_merge adm_any True H s K → reach pn_new pn_apply pn_merge adm_any True H s' K' →
  pn_merge s s' = pnspec H (K ∪ K') ∧
  (H !! i = Some r → i ∈ K → pn_apply s (op_val r) = s) ∧ (K' ⊆ K → pn_merge s s' = s).
Proof. exact (pn_hybrid_absorb H s K s' K' i r). Qed.
Print Assumptions C09_pncounter.

(** Map is REFUTED (known finding T2): a key removed by a peer resurrects its old member when merged with the state of the actor that concurrently issued a second update (op delivery gives a different result) *)
Theorem C09_map_resurrection_refuted_witness :
  let s0 := mnew in
         let op1 := upd_or_add s0 2 0 8 in
         let a1 := or_apply s0 op1 in
         let op2 := upd_or_add a1 2 0 9 in
         let a2 := or_apply a1 op2 in
         let p1 := or_apply s0 op1 in
         let op3 := rm_key oop p1 0 in
         let p2 := or_apply p1 op3 in
         op1 = MUp {| dactor := 2; dcounter := 1 |} 0 (OAdd {| dactor := 2; dcounter := 1 |} [8])
         ∧ op2 = MUp {| dactor := 2; dcounter := 2 |} 0 (OAdd {| dactor := 2; dcounter := 2 |} [9])
           ∧ op3 = MRm {[2 := 1]} {[0]}
             ∧ read_or p1 0 = Some [8]
               ∧ read_or p2 0 = None
                 ∧ contains_or (or_merge p2 a2) 0 8 = true
                   ∧ contains_or (or_merge a2 p2) 0 8 = true
                     ∧ read_or (or_apply p2 op2) 0 = Some [9]
                       ∧ read_or (or_apply a2 op3) 0 = Some [9] ∧ or_merge p2 a2 ≠ or_apply p2 op2.
Proof. exact map_T2_resurrection_refuted. Qed.
Print Assumptions C09_map_resurrection_refuted_witness.

From Crdt Require Import model.Map spec.System spec.OrswotSpec spec.OrswotSystem spec.MapSpec spec.MapSystem proofs.OrswotSystem proofs.MapKeys.

(** Map, key level: a duplicate op or a stale state changes neither the key set nor any
    context; a key whose every applied update is covered by an applied remove is absent *)
Theorem C09_map_keys_absorb {V O E} (vo : valops V O E) (H : list (oprec (mop O))) :
  owfH (habs H) ->
  forall (s : cmap V) (K : gset nat) (i : nat) (r : oprec (mop O)) (s' : cmap V) (K' : gset nat),
    mapreach vo H s K -> mapreach vo H s' K' ->
    (H !! i = Some r -> i ∈ K -> kabs (mapply vo s (op_val r)) = kabs s)
    /\ (K' ⊆ K -> kabs (mmerge vo s s') = kabs s).
Proof. exact (map_keys_absorb vo H). Qed.
Print Assumptions C09_map_keys_absorb.

Theorem C09_map_removed_key_stays_absent {V O E} (vo : valops V O E) (H : list (oprec (mop O))) :
  owfH (habs H) ->
  forall (s : cmap V) (K : gset nat) (k : N), mapreach vo H s K ->
    (forall (d : dot) (o : O), MUp d k o ∈ known_ops H K ->
       exists (c : gmap N N) (ks : gset N), MRm c ks ∈ known_ops H K /\ k ∈ ks /\ dcounter d <= vget c (dactor d)) ->
    mentries s !! k = None /\ rval (mget s k) = None /\ rm_clock (mget s k) = ∅.
Proof. exact (map_removed_key_stays_absent' vo H). Qed.
Print Assumptions C09_map_removed_key_stays_absent.

(** * Map<K, Orswot<M>>: re-applying a known op changes no member table (causal op-based delivery) *)
From Crdt Require Import spec.MapOrswotSpec proofs.MapOrswot.
Theorem C09_mapor_dup_absorb (H : list (oprec (mop oop))) (s : cmap orswot) (K : gset nat) (i : nat) (o : oprec (mop oop)) :
  mohist_ok H -> moreach H s K -> H !! i = Some o -> i ∈ K -> adm_causal H K i ->
  forall k, mo_state_entries (mapply orswot_valops s (op_val o)) k = mo_state_entries s k.
Proof. exact (mapor_dup_absorb H s K i o). Qed.
Print Assumptions C09_mapor_dup_absorb.

(** the same under per-actor (overtaking) delivery for histories without nested removes; with
    [C20_mapor_state_eq] the whole state is unchanged *)
From Crdt Require Import proofs.MapOrswotPA proofs.MapOrswotEq.
Theorem C09_mapor_dup_absorb_per_actor (H : list (oprec (mop oop))) (s : cmap orswot) (K : gset nat) (i : nat) (o : oprec (mop oop)) :
  mohist_ok_pa H -> moreach_pa H s K -> H !! i = Some o -> i ∈ K ->
  forall k, mo_state_entries (mapply orswot_valops s (op_val o)) k = mo_state_entries s k.
Proof. exact (mapor_dup_absorb_pa H s K i o). Qed.
Print Assumptions C09_mapor_dup_absorb_per_actor.

(** Map<K1, Map<K2, Orswot>> (nesting depth 2), causal op-based delivery: a re-delivered op changes neither the inner
    key tables nor the member tables *)
From Crdt Require Import spec.MapMapOrswotSpec proofs.MapMapOrswot.
Theorem C09_map2_dup_absorb (H : list (oprec (mop (mop oop)))) (s : cmap (cmap orswot)) (K : gset nat) (i : nat) (o : oprec (mop (mop oop))) :
  m2hist_ok H -> m2reach H s K -> H !! i = Some o -> i ∈ K -> adm_causal H K i ->
  forall k1, m2_state_inner_clocks (mapply vo2 s (op_val o)) k1 = m2_state_inner_clocks s k1 /\
             forall k2, m2_state_entries (mapply vo2 s (op_val o)) k1 k2 = m2_state_entries s k1 k2.
Proof. exact (map2_dup_absorb H s K i o). Qed.
Print Assumptions C09_map2_dup_absorb.

(** Map<K, Orswot> whose keys are never removed: a duplicate op (no admissibility needed) and a stale state change nothing at all
    (Leibniz equality of the complete state) (proofs/MapOrswotNK.v) *)
From Crdt Require Import model.Orswot model.Map spec.System spec.OrswotSpec spec.OrswotSystem spec.MapSpec spec.MapSystem spec.MapOrswotSpec proofs.MapOrswotNK proofs.MapOrswotNKCor.
Theorem C09_mapor_nk_dup_apply (H : list (oprec (mop oop))) :
  mohist_ok_nk H -> forall (s : cmap orswot) (K : gset nat) (i : nat) (r : oprec (mop oop)),
  moreach_nk H s K -> H !! i = Some r -> i ∈ K -> mapply orswot_valops s (op_val r) = s.
Proof. exact (mapor_dup_apply_nk H). Qed.
Print Assumptions C09_mapor_nk_dup_apply.

Theorem C09_mapor_nk_stale_merge (H : list (oprec (mop oop))) :
  mohist_ok_nk H -> forall (s1 : cmap orswot) (K1 : gset nat) (s2 : cmap orswot) (K2 : gset nat),
  moreach_nk H s1 K1 -> moreach_nk H s2 K2 -> K2 ⊆ K1 ->
  mmerge orswot_valops s1 s2 = s1 /\ mmerge orswot_valops s2 s1 = s1.
Proof. exact (mapor_stale_merge_nk H). Qed.
Print Assumptions C09_mapor_nk_stale_merge.

(** Map<K1, Map<K2, Orswot>> when no key is ever removed: a duplicate op and a stale state leave the complete state unchanged
    (proofs/MapMapOrswotNK.v) *)
From Crdt Require Import model.Orswot model.Map spec.System spec.OrswotSpec spec.OrswotSystem spec.MapSpec spec.MapSystem spec.MapOrswotSpec spec.MapMapOrswotSpec spec.MapMapOrswotNKSpec proofs.MapMapOrswotNK.
Theorem C09_map2_nk_dup_apply (H : list (oprec (mop (mop oop)))) :
  m2hist_ok_nk H -> forall (s : cmap (cmap orswot)) (K : gset nat) (i : nat) (r : oprec (mop (mop oop))),
  m2reach_nk H s K -> H !! i = Some r -> i ∈ K -> mapply vo2 s (op_val r) = s.
Proof. exact (map2_dup_apply_nk H). Qed.
Print Assumptions C09_map2_nk_dup_apply.

Theorem C09_map2_nk_stale_merge (H : list (oprec (mop (mop oop)))) :
  m2hist_ok_nk H -> forall (s1 : cmap (cmap orswot)) (K1 : gset nat) (s2 : cmap (cmap orswot)) (K2 : gset nat),
  m2reach_nk H s1 K1 -> m2reach_nk H s2 K2 -> K2 ⊆ K1 -> mmerge vo2 s1 s2 = s1 /\ mmerge vo2 s2 s1 = s1.
Proof. exact (map2_stale_merge_nk H). Qed.
Print Assumptions C09_map2_nk_stale_merge.

(** Map<K, Orswot> WITH key removes and merges, in the fragment the known findings leave: members are added under keys and keys are removed (no nested remove: T3), and every key that some key remove names is updated at most once by each actor ([km_once]: T2 needs two updates of one actor): a duplicate op and a stale state leave the complete state unchanged - in particular a removed member stays removed whatever
    old snapshot is merged (proofs/MapOrswotKM.v) *)
From Crdt Require Import model.Orswot model.Map spec.System spec.OrswotSpec spec.OrswotSystem spec.MapSpec spec.MapSystem spec.MapOrswotSpec spec.MapOrswotKM proofs.MapOrswotKM proofs.MapOrswotKMCor.
Theorem C09_mapor_km_dup_apply (H : list (oprec (mop oop))) :
  mohist_ok_km H -> km_once H -> forall (s : cmap orswot) (K : gset nat) (i : nat) (r : oprec (mop oop)),
  moreach_km H s K -> H !! i = Some r -> i ∈ K -> mapply orswot_valops s (op_val r) = s.
Proof. exact (mapor_dup_apply_km H). Qed.
Print Assumptions C09_mapor_km_dup_apply.

Theorem C09_mapor_km_stale_merge (H : list (oprec (mop oop))) :
  mohist_ok_km H -> km_once H -> forall (s1 : cmap orswot) (K1 : gset nat) (s2 : cmap orswot) (K2 : gset nat),
  moreach_km H s1 K1 -> moreach_km H s2 K2 -> K2 ⊆ K1 ->
  mmerge orswot_valops s1 s2 = s1 /\ mmerge orswot_valops s2 s1 = s1.
Proof. exact (mapor_stale_merge_km H). Qed.
Print Assumptions C09_mapor_km_stale_merge.

(** Map<K, Orswot>, EVERY history outside the classes of the known findings T2 and T3 (all commands; a key that some key remove names receives only nested adds [kmn_addonly] and at most one update per actor [km_once]; any other key receives anything): a duplicate op and a stale state leave the complete state unchanged (proofs/MapOrswotKMN.v) *)
From Crdt Require Import model.Orswot model.Map spec.System spec.OrswotSpec spec.OrswotSystem spec.MapSpec spec.MapSystem spec.MapOrswotSpec spec.MapOrswotKM spec.MapOrswotKMN proofs.MapOrswotKMN proofs.MapOrswotKMNCor.
Theorem C09_mapor_kmn_dup_apply (H : list (oprec (mop oop))) :
  mohist_ok_kmn H -> km_once H -> kmn_addonly H -> forall (s : cmap orswot) (K : gset nat) (i : nat) (r : oprec (mop oop)),
  moreach_kmn H s K -> H !! i = Some r -> i ∈ K -> mapply orswot_valops s (op_val r) = s.
Proof. exact (mapor_dup_apply_kmn H). Qed.
Print Assumptions C09_mapor_kmn_dup_apply.

Theorem C09_mapor_kmn_stale_merge (H : list (oprec (mop oop))) :
  mohist_ok_kmn H -> km_once H -> kmn_addonly H -> forall (s1 : cmap orswot) (K1 : gset nat) (s2 : cmap orswot) (K2 : gset nat),
  moreach_kmn H s1 K1 -> moreach_kmn H s2 K2 -> K2 ⊆ K1 ->
  mmerge orswot_valops s1 s2 = s1 /\ mmerge orswot_valops s2 s1 = s1.
Proof. exact (mapor_stale_merge_kmn H). Qed.
Print Assumptions C09_mapor_kmn_stale_merge.

(** Map<K, MVReg> (MVReg leaves) WITHOUT key removes, op-based replication (no state merges), per-actor delivery with duplicates: a re-delivered op changes nothing at all (proofs/MapMVRegNK.v) *)
From Crdt Require Import model.MVReg model.Map spec.System spec.OrswotSpec spec.OrswotSystem spec.Specs spec.MapSpec spec.MapSystem spec.MapMVRegSpec proofs.MapMVRegNK.
Theorem C09_mapmv_dup_apply_nk (H : list (oprec (mop mvop))) :
  mvhist_ok_nk H -> forall (s : cmap (list (gmap N N * N))) (K : gset nat) (i : nat) (r : oprec (mop mvop)),
  mvreach_nk H s K -> H !! i = Some r -> i ∈ K -> mapply mvreg_valops s (op_val r) = s.
Proof. exact (mapmv_dup_apply_nk H). Qed.
Print Assumptions C09_mapmv_dup_apply_nk.

(** depth 3 without key removes: duplicate op and stale state absorbed (proofs/MapNKFunctorInst.v) *)
From Crdt Require Import model.Orswot model.Map spec.System spec.OrswotSpec spec.OrswotSystem spec.MapSpec spec.MapSystem spec.MapOrswotSpec spec.MapMapOrswotSpec spec.MapMapOrswotNKSpec proofs.MapMapOrswotNK proofs.MapNKFunctor proofs.MapNKFunctorInst.
Theorem C09_map3_nk_dup_apply (H : list (oprec (mop (mop (mop oop))))) :
  m3hist_ok_nk H -> forall (s : cmap (cmap (cmap orswot))) (K : gset nat) (i : nat) (r : oprec (mop (mop (mop oop)))),
  m3reach_nk H s K -> H !! i = Some r -> i ∈ K -> mapply (map_valops (map_valops orswot_valops)) s (op_val r) = s.
Proof. exact (map3_dup_apply_nk H). Qed.
Print Assumptions C09_map3_nk_dup_apply.

Theorem C09_map3_nk_stale_merge (H : list (oprec (mop (mop (mop oop))))) :
  m3hist_ok_nk H -> forall (s1 : cmap (cmap (cmap orswot))) (K1 : gset nat) (s2 : cmap (cmap (cmap orswot))) (K2 : gset nat),
  m3reach_nk H s1 K1 -> m3reach_nk H s2 K2 -> K2 ⊆ K1 -> mmerge (map_valops (map_valops orswot_valops)) s1 s2 = s1 /\ mmerge (map_valops (map_valops orswot_valops)) s2 s1 = s1.
Proof. exact (map3_stale_merge_nk H). Qed.
Print Assumptions C09_map3_nk_stale_merge.
