(** C17 — validate_merge flags reused dots and nothing else.  Only property
    theorems; every proof is [exact lemma].
    REFUTED for Orswot histories using add_all with two or more members (known
    finding K2, provably unrepairable: see C17_add_all_indistinguishable). *)
From stdpp Require Import gmap.
From Crdt Require Import model.VClock model.Simple model.Orswot model.Map
  spec.System spec.OrswotSystem proofs.OrswotSystem proofs.Validate.
Local Open Scope N_scope.

(** DoubleSpentDot is returned exactly when some dot is the current witness of
    one member in one state and of a different member in the other (the misuse
    direction: "whenever"; and "nothing else") *)
Theorem C17_orswot_exact s o :
  ovalidate_merge s o = false ↔
  ∃ m c m' c' a n, oentries s !! m = Some c ∧ oentries o !! m' = Some c' ∧ c !! a = Some n ∧
                   m' ≠ m ∧ vget c' a = n.
Proof. exact (C17_orswot_char s o). Qed.
Print Assumptions C17_orswot_exact.

(** the same verdict in both directions *)
Theorem C17_orswot_symmetric s o : entries_wf s → entries_wf o → ovalidate_merge s o = ovalidate_merge o s.
Proof. exact (C17_orswot_sym s o). Qed.
Print Assumptions C17_orswot_symmetric.

(** correct use (each actor confined to one replica) is always accepted,
    provided no add names two different members *)
Theorem C17_orswot_correct_use_accepted H s1 K1 s2 K2 : ohist_ok H →
  (∀ i r d ms, H !! i = Some r → op_val r = OAdd d ms → ∀ m m', m ∈ ms → m' ∈ ms → m = m') →
  oreach H s1 K1 → oreach H s2 K2 → ovalidate_merge s1 s2 = true.
Proof. exact (C17_orswot_correct_use H s1 K1 s2 K2). Qed.
Print Assumptions C17_orswot_correct_use_accepted.

(** REFUTED with add_all: one API call, then validate_merge against its own clone *)
Theorem C17_add_all_refuted_witness :
  let s := oapply onew c17_op in
  ohist_ok c17_hist ∧ ogen onew 1 (CAdd [1; 2]) = Some c17_op ∧ oreach c17_hist s {[0%nat]} ∧
  ovalidate_merge s s = false.
Proof. exact C17_add_all_refuted. Qed.
Print Assumptions C17_add_all_refuted_witness.

(** ... and no validate_merge whatsoever could be both sound and complete: a
    correct use of add_all and a genuine double spend lead to the identical pair
    of states *)
Theorem C17_add_all_cannot_be_repaired :
  ohist_ok c17_histA ∧ oreach c17_histA c17_sA1 {[0%nat; 1%nat]} ∧ oreach c17_histA c17_sA2 {[0%nat; 2%nat]} ∧
  ogen onew 1 (CAdd [1]) = Some c17_opB1 ∧ ogen onew 1 (CAdd [2]) = Some c17_opB2 ∧
  ¬ owfH c17_histB ∧ ¬ ohist_ok c17_histB ∧
  c17_sA1 = oapply onew c17_opB1 ∧ c17_sA2 = oapply onew c17_opB2 ∧
  ovalidate_merge c17_sA1 c17_sA2 = false ∧
  (∀ v : orswot → orswot → bool,
     ¬ (v c17_sA1 c17_sA2 = true ∧ v (oapply onew c17_opB1) (oapply onew c17_opB2) = false)).
Proof. exact C17_add_all_indistinguishable. Qed.
Print Assumptions C17_add_all_cannot_be_repaired.

(** Map, generic in the nested type; LWWReg *)
Theorem C17_map_exact {V O E} (vo : valops V O E) (s o : cmap V) :
  mvalidate_merge vo s o = false ↔
  (∃ k e k' e' a n, mentries s !! k = Some e ∧ mentries o !! k' = Some e' ∧ eclock e !! a = Some n ∧
                    k' ≠ k ∧ vget (eclock e') a = n) ∨
  (∃ k e e', mentries s !! k = Some e ∧ mentries o !! k = Some e' ∧
             vconcurrent (eclock e) (eclock e') = true ∧ v_validate_merge vo (eval e) (eval e') = false).
Proof. exact (C17_map_char vo s o). Qed.
Print Assumptions C17_map_exact.

Theorem C17_map_symmetric {V O E} (vo : valops V O E) (s o : cmap V) :
  (∀ v v', v_validate_merge vo v v' = v_validate_merge vo v' v) →
  mentries_wf s → mentries_wf o → mvalidate_merge vo s o = mvalidate_merge vo o s.
Proof. exact (C17_map_sym vo s o). Qed.
Print Assumptions C17_map_symmetric.

Theorem C17_lwwreg s o v m :
  (lww_conflict s v m = true ↔ lww_marker s = m ∧ lww_val s ≠ v) ∧
  lww_conflict s (lww_val o) (lww_marker o) = lww_conflict o (lww_val s) (lww_marker s).
Proof. exact (conj (C16_lww s v m) (C17_lww_sym s o)). Qed.
Print Assumptions C17_lwwreg.

From Crdt Require Import spec.System spec.OrswotSpec spec.OrswotSystem spec.MapSpec spec.MapSystem proofs.OrswotSystem proofs.MapKeys proofs.MapValidate.

(** Map on correct use (API-generated ops, each actor confined to one replica; per-actor delivery,
    duplicates, merges): never a double-spent dot - an update names ONE key, so the add_all
    obstruction K2 does not exist at key level - and the verdict is the nested values' verdict alone *)
Theorem C17_map_correct_use {V O E} (vo : valops V O E) (H : list (oprec (mop O))) s1 K1 s2 K2 :
  maphist_ok vo H → mapreach vo H s1 K1 → mapreach vo H s2 K2 →
  (¬ ∃ k e k' e' a n, mentries s1 !! k = Some e ∧ mentries s2 !! k' = Some e' ∧ eclock e !! a = Some n ∧
                      k' ≠ k ∧ vget (eclock e') a = n) ∧
  (mvalidate_merge vo s1 s2 = false ↔
   ∃ k e e', mentries s1 !! k = Some e ∧ mentries s2 !! k = Some e' ∧
             vconcurrent (eclock e) (eclock e') = true ∧ v_validate_merge vo (eval e) (eval e') = false).
Proof. exact (λ Hok H1 H2, conj (map_no_double_spend vo H s1 K1 s2 K2 Hok H1 H2) (map_validate_merge_correct_use vo H s1 K1 s2 K2 Hok H1 H2)). Qed.
Print Assumptions C17_map_correct_use.

(** Map<_, MVReg>: correct use is always accepted *)
Theorem C17_map_mvreg_correct_use_accepted (H : list (oprec (mop mvop))) s1 K1 s2 K2 :
  maphist_ok mvreg_valops H → mapreach mvreg_valops H s1 K1 → mapreach mvreg_valops H s2 K2 →
  mvalidate_merge mvreg_valops s1 s2 = true.
Proof. exact (mapmv_validate_merge_accepts H s1 K1 s2 K2). Qed.
Print Assumptions C17_map_mvreg_correct_use_accepted.
