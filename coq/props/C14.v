(** C14 — Identifiers form a strict total order that is dense and unique per
    insert.  Only property theorems; every proof is [exact lemma]. *)
From Crdt Require Import model.Identifier proofs.Identifier.

(** comparison is a total order consistent with equality, for paths of any
    depth (incl. equal-rational siblings and prefix-related paths), for every
    marker type whose [Ord] is a total order *)
Theorem C14_order {T} (tcmp : T → T → comparison) : total_cmp tcmp →
  ∀ a b c : list (Qc * T),
    idcmp tcmp a a = Eq ∧
    (idcmp tcmp a b = Eq ↔ a = b) ∧
    idcmp tcmp b a = CompOpp (idcmp tcmp a b) ∧
    (idcmp tcmp a b = Lt → idcmp tcmp b c = Lt → idcmp tcmp a c = Lt) ∧
    (idcmp tcmp a b = Lt ∨ a = b ∨ idcmp tcmp b a = Lt).
Proof. exact (c14_order tcmp). Qed.
Print Assumptions C14_order.

(** between(low, high, marker) is strictly between any low < high (for every
    marker), symmetric in its arguments, strictly beyond a single non-empty
    bound, and always ends with the marker *)
Theorem C14_dense {T} (tcmp : T → T → comparison) : total_cmp tcmp →
  ∀ (low high : list (Qc * T)) (m : T),
    (idcmp tcmp low high = Lt →
       idcmp tcmp low (between tcmp (Some low) (Some high) m) = Lt ∧
       idcmp tcmp (between tcmp (Some low) (Some high) m) high = Lt ∧
       between tcmp (Some high) (Some low) m = between tcmp (Some low) (Some high) m ∧
       idvalue (between tcmp (Some low) (Some high) m) = Some m) ∧
    (low ≠ [] → idcmp tcmp low (between tcmp (Some low) None m) = Lt) ∧
    (high ≠ [] → idcmp tcmp (between tcmp None (Some high) m) high = Lt) ∧
    idvalue (between tcmp (Some low) None m) = Some m ∧
    idvalue (between tcmp None (Some high) m) = Some m ∧
    idvalue (between tcmp None None m) = Some m.
Proof. exact (c14_dense tcmp). Qed.
Print Assumptions C14_dense.

(** identifiers tagged with distinct markers (dots) never collide *)
Theorem C14_unique {T} (tcmp : T → T → comparison) (lo hi lo' hi' : option (list (Qc * T))) (m m' : T) :
  proper_gap tcmp lo hi → proper_gap tcmp lo' hi' → m ≠ m' →
  between tcmp lo hi m ≠ between tcmp lo' hi' m'.
Proof. exact (c14_unique tcmp lo hi lo' hi' m m'). Qed.
Print Assumptions C14_unique.

(** the marker orders the crate instantiates are total orders: u64 elements
    (GList) and OrdDot (List) *)
Theorem C14_markers : total_cmp ncompare ∧ total_cmp odcmp.
Proof. exact (conj total_cmp_n total_cmp_od). Qed.
Print Assumptions C14_markers.

(** why "non-empty" is a hypothesis of the one-sided case: the empty path is
    the greatest identifier, nothing can be allocated beyond it *)
Theorem C14_empty_refuted (m : N) :
  between ncompare (Some []) None m = [(Q2Qc 0, m)] ∧
  idcmp ncompare (between ncompare (Some []) None m) [] = Lt.
Proof. exact (c14_empty_low_witness m). Qed.
Print Assumptions C14_empty_refuted.

(** non-vacuity: prefix-related and equal-rational siblings *)
Theorem C14_nonvacuous :
  let a : list (Qc * N) := [(Q2Qc 0, 1)] in
  let b : list (Qc * N) := [(Q2Qc 0, 1); (Q2Qc 0, 0)] in
  let c : list (Qc * N) := [(Q2Qc 0, 3)] in
  idcmp ncompare b a = Lt ∧ idcmp ncompare a c = Lt ∧
  idcmp ncompare b (between ncompare (Some b) (Some a) 2) = Lt ∧
  between ncompare (Some a) (Some c) 2 = [(Q2Qc 0, 2)] ∧
  between ncompare (Some a) (Some c) 5 = [(Q2Qc 0, 3); (Q2Qc 0, 5)].
Proof. exact c14_examples. Qed.
Print Assumptions C14_nonvacuous.
