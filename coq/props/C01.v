(** C01 — replicas that applied the same ops converge (op-based SEC, causal
    delivery).  Only property theorems; every proof is [exact lemma].

    [creach init apply merge H s K]: some replica is in state [s] after learning
    exactly the ops [K] of history [H] through any CAUSAL delivery schedule
    (duplicates allowed; states obtained by merging are allowed as well).  Equal
    [K] at any two replicas, at any two points in time of the run, gives equal
    state, hence identical reads and contexts.  [*hist_ok]: the ops were generated
    through the API by replicas each editing through its own actor. *)
From stdpp Require Import gmap.
From Crdt Require Import model.VClock model.Simple model.Orswot model.MVReg model.List model.Merkle
  spec.System spec.Specs spec.OrswotSystem spec.MVRegSystem spec.ListSystem
  proofs.Simple proofs.OrswotSystem proofs.MVReg proofs.ListSystem proofs.GListSystem proofs.MerkleSystem proofs.CrossType.
From Crdt Require Import model.Map proofs.MapFacts proofs.MapRefuted.
Local Open Scope N_scope.

Theorem C01_orswot H s1 s2 K : ohist_ok H →
  creach onew oapply omerge H s1 K → creach onew oapply omerge H s2 K → s1 = s2.
Proof. exact (c01_orswot H s1 s2 K). Qed.
Print Assumptions C01_orswot.

Theorem C01_orswot_over_time H H' s1 s2 K : ohist_ok (H ++ H') →
  oreach H s1 K → oreach (H ++ H') s2 K → s1 = s2.
Proof. exact (c01_orswot_over_time H H' s1 s2 K). Qed.
Print Assumptions C01_orswot_over_time.

(** MVReg: same values (as a multiset; the order of the returned vector is not
    part of the contract) and same contexts *)
Theorem C01_mvreg H s1 s2 K : mvhist_ok H →
  creach [] mvapply mvmerge H s1 K → creach [] mvapply mvmerge H s2 K →
  s1 ≡ₚ s2 ∧ rval (mvread s1) ≡ₚ rval (mvread s2) ∧ add_clock (mvread s1) = add_clock (mvread s2).
Proof. exact (c01_mvreg H s1 s2 K). Qed.
Print Assumptions C01_mvreg.

Theorem C01_list H s1 s2 K : lhist_ok H → lreach H s1 K → lreach H s2 K → s1 = s2.
Proof. exact (c01_list H s1 s2 K). Qed.
Print Assumptions C01_list.

Theorem C01_glist (H : list (oprec (list (Qc * N)))) s1 s2 K :
  creach [] gl_apply gl_merge H s1 K → creach [] gl_apply gl_merge H s2 K → s1 = s2.
Proof. exact (c01_glist H s1 s2 K). Qed.
Print Assumptions C01_glist.

Theorem C01_merklereg hash (hi : ∀ n1 n2 : mnode, hash n1 = hash n2 → n1 = n2) H s1 s2 K :
  creach mk_new (mk_apply' hash) (mk_merge' hash) H s1 K →
  creach mk_new (mk_apply' hash) (mk_merge' hash) H s2 K → s1 = s2.
Proof. exact (c01_merkle hash hi H s1 s2 K). Qed.
Print Assumptions C01_merklereg.

Theorem C01_vclock_gcounter (H : list (oprec dot)) s1 s2 K :
  creach (∅ : vclock) vapply vmerge H s1 K → creach (∅ : vclock) vapply vmerge H s2 K → s1 = s2.
Proof. exact (c01_gcounter H s1 s2 K). Qed.
Print Assumptions C01_vclock_gcounter.

Theorem C01_pncounter (H : list (oprec pnop)) s1 s2 K :
  creach pn_new pn_apply pn_merge H s1 K → creach pn_new pn_apply pn_merge H s2 K → s1 = s2.
Proof. exact (c01_pncounter H s1 s2 K). Qed.
Print Assumptions C01_pncounter.

Theorem C01_gset (H : list (oprec N)) s1 s2 K :
  creach (∅ : gset N) gs_apply gs_merge H s1 K → creach (∅ : gset N) gs_apply gs_merge H s2 K → s1 = s2.
Proof. exact (c01_gset H s1 s2 K). Qed.
Print Assumptions C01_gset.

Theorem C01_maxreg_minreg init (H : list (oprec N)) s1 s2 K :
  (creach init max_update max_update H s1 K → creach init max_update max_update H s2 K → s1 = s2) ∧
  (creach init min_update min_update H s1 K → creach init min_update min_update H s2 K → s1 = s2).
Proof. exact (conj (c01_maxreg init H s1 s2 K) (c01_minreg init H s1 s2 K)). Qed.
Print Assumptions C01_maxreg_minreg.

Theorem C01_lwwreg init (H : list (oprec lww)) s1 s2 K : lww_unique init H →
  creach init lww_merge lww_merge H s1 K → creach init lww_merge lww_merge H s2 K → s1 = s2.
Proof. exact (c01_lww init H s1 s2 K). Qed.
Print Assumptions C01_lwwreg.

(** Map is REFUTED (known finding T1): the same four API-generated ops delivered in two different CAUSAL orders (and via a merge) give different reads under key 0 *)
Theorem C01_map_refuted_witness :
  let s0 := mnew in
         let opA := upd_mv s0 3 1 7 in
         let r2 := mv_apply s0 opA in
         let opB := upd_mv r2 2 0 1 in
         let r2' := mv_apply r2 opB in
         let opC := upd_mv s0 1 0 5 in
         let opD := rm_key mvop r2' 0 in
         let deliver := foldl mv_apply s0 in
         let x := deliver [opA; opB; opC; opD] in
         let y := deliver [opA; opB; opD; opC] in
         let z := mv_merge (deliver [opA; opB; opD]) (deliver [opC]) in
         opA = MUp {| dactor := 3; dcounter := 1 |} 1 (MVPut {[3 := 1]} 7)
         ∧ opB = MUp {| dactor := 2; dcounter := 1 |} 0 (MVPut {[3 := 1; 2 := 1]} 1)
           ∧ opC = MUp {| dactor := 1; dcounter := 1 |} 0 (MVPut {[1 := 1]} 5)
             ∧ opD = MRm {[2 := 1]} {[0]}
               ∧ read_mv x 0 = Some [1; 5]
                 ∧ read_mv y 0 = Some [5] ∧ read_mv z 0 = Some [5] ∧ x ≠ y ∧ x ≠ z.
Proof. exact map_T1_order_refuted. Qed.
Print Assumptions C01_map_refuted_witness.

From Crdt Require Import model.Map spec.System spec.OrswotSpec spec.OrswotSystem spec.MapSpec spec.MapSystem proofs.OrswotSystem proofs.MapKeys.

(** Map, key level: replicas with the same knowledge show the same keys and contexts *)
Theorem C01_map_keys_converge {V O E} (vo : valops V O E) (H : list (oprec (mop O))) :
  maphist_ok vo H ->
  forall (s1 s2 : cmap V) (K : gset nat), mapreach vo H s1 K -> mapreach vo H s2 K -> kabs s1 = kabs s2.
Proof. exact (map_keys_converge_api vo H). Qed.
Print Assumptions C01_map_keys_converge.

(** * Map<K, Orswot<M>>: full convergence under causal op-based delivery (proofs/MapOrswot.v):
    equal knowledge gives the same keys, map clock, entry clocks (the remove contexts of [get]),
    pending table, and under every key the same members with the same witness clocks (the
    remove contexts of the nested [contains]/[iter]) *)
From Crdt Require Import spec.MapOrswotSpec proofs.MapOrswot.
Theorem C01_mapor_converge (H : list (oprec (mop oop))) (s1 s2 : cmap orswot) (K : gset nat) :
  mohist_ok H -> moreach H s1 K -> moreach H s2 K ->
  (forall k, mo_state_entries s1 k = mo_state_entries s2 k) /\
  dom (mentries s1) = dom (mentries s2) /\
  mclock s1 = mclock s2 /\
  (forall k, mentry_clock s1 k = mentry_clock s2 k) /\
  mdeferred s1 = mdeferred s2 /\
  (forall k e1 e2, mentries s1 !! k = Some e1 -> mentries s2 !! k = Some e2 ->
     eclock e1 = eclock e2 /\ oentries (eval e1) = oentries (eval e2)).
Proof. exact (mapor_converge H s1 s2 K). Qed.
Print Assumptions C01_mapor_converge.

(** Map<K1, Map<K2, Orswot>> (nesting depth 2): equal knowledge reached through any causal delivery orders gives the same
    outer keys, clocks and entry clocks, the same inner key tables and the same member tables *)
From Crdt Require Import spec.MapMapOrswotSpec proofs.MapMapOrswot.
Theorem C01_map2_converge (H : list (oprec (mop (mop oop)))) (s1 s2 : cmap (cmap orswot)) (K : gset nat) :
  m2hist_ok H -> m2reach H s1 K -> m2reach H s2 K ->
  (forall k1, m2_state_inner_clocks s1 k1 = m2_state_inner_clocks s2 k1) /\
  (forall k1 k2, m2_state_entries s1 k1 k2 = m2_state_entries s2 k1 k2) /\
  dom (mentries s1) = dom (mentries s2) /\
  mclock s1 = mclock s2 /\
  (forall k, mentry_clock s1 k = mentry_clock s2 k) /\
  mdeferred s1 = mdeferred s2.
Proof. exact (map2_converge H s1 s2 K). Qed.
Print Assumptions C01_map2_converge.

(** Map<K, Orswot> whose keys are never removed (members are added and removed under keys): the COMPLETE state - map clock,
    keys, entry clocks, and under every key the whole nested set with its witness clocks and parked removes - is a function of
    the knowledge, whatever the (per-actor, hence also causal) delivery order, duplicates and state merges (proofs/MapOrswotNK.v) *)
From Crdt Require Import model.Orswot model.Map spec.System spec.OrswotSpec spec.OrswotSystem spec.MapSpec spec.MapSystem spec.MapOrswotSpec proofs.MapOrswotNK proofs.MapOrswotNKCor.
Theorem C01_mapor_nk_refine (H : list (oprec (mop oop))) :
  mohist_ok_nk H -> forall (s : cmap orswot) (K : gset nat), moreach_nk H s K -> s = mapor_spec_nk H K.
Proof. exact (mapor_refine_nk H). Qed.
Print Assumptions C01_mapor_nk_refine.

Theorem C01_mapor_nk_converge (H : list (oprec (mop oop))) :
  mohist_ok_nk H -> forall (s1 s2 : cmap orswot) (K : gset nat), moreach_nk H s1 K -> moreach_nk H s2 K -> s1 = s2.
Proof. exact (mapor_converge_nk H). Qed.
Print Assumptions C01_mapor_nk_converge.

(** in particular under causal delivery without merges (the setting of this property) *)
Theorem C01_mapor_nk_causal (mg : Prop) (H : list (oprec (mop oop))) (s : cmap orswot) (K : gset nat) :
  mohist_ok_nk H -> (forall K i, adm_causal H K i -> adm_per_actor H K i) ->
  reach mnew (mapply orswot_valops) (mmerge orswot_valops) adm_causal mg H s K -> s = mapor_spec_nk H K.
Proof. exact (mapor_refine_nk_any adm_causal mg H s K). Qed.
Print Assumptions C01_mapor_nk_causal.

(** Map<K1, Map<K2, Orswot>> (nesting depth 2) when no key is ever removed at either level: the COMPLETE state is a function of the
    knowledge under per-actor (hence causal) delivery, duplicates and merges (proofs/MapMapOrswotNK.v) *)
From Crdt Require Import model.Orswot model.Map spec.System spec.OrswotSpec spec.OrswotSystem spec.MapSpec spec.MapSystem spec.MapOrswotSpec spec.MapMapOrswotSpec spec.MapMapOrswotNKSpec proofs.MapMapOrswotNK.
Theorem C01_map2_nk_refine (H : list (oprec (mop (mop oop)))) :
  m2hist_ok_nk H -> forall (s : cmap (cmap orswot)) (K : gset nat), m2reach_nk H s K -> s = map2_spec_nk H K.
Proof. exact (map2_refine_nk H). Qed.
Print Assumptions C01_map2_nk_refine.

Theorem C01_map2_nk_converge (H : list (oprec (mop (mop oop)))) :
  m2hist_ok_nk H -> forall (s1 s2 : cmap (cmap orswot)) (K : gset nat), m2reach_nk H s1 K -> m2reach_nk H s2 K -> s1 = s2.
Proof. exact (map2_converge_nk H). Qed.
Print Assumptions C01_map2_nk_converge.

(** Map<K, Orswot> WITH key removes and merges, in the fragment the known findings leave: members are added under keys and keys are removed (no nested remove: T3), and every key that some key remove names is updated at most once by each actor ([km_once]: T2 needs two updates of one actor): the COMPLETE state is a function of the knowledge under per-actor delivery, duplicates and merges (proofs/MapOrswotKM.v) *)
From Crdt Require Import model.Orswot model.Map spec.System spec.OrswotSpec spec.OrswotSystem spec.MapSpec spec.MapSystem spec.MapOrswotSpec spec.MapOrswotKM proofs.MapOrswotKM proofs.MapOrswotKMCor.
Theorem C01_mapor_km_refine (H : list (oprec (mop oop))) :
  mohist_ok_km H -> km_once H -> forall (s : cmap orswot) (K : gset nat), moreach_km H s K -> s = mapor_spec_km H K.
Proof. exact (mapor_refine_km H). Qed.
Print Assumptions C01_mapor_km_refine.

Theorem C01_mapor_km_converge (H : list (oprec (mop oop))) :
  mohist_ok_km H -> km_once H -> forall (s1 s2 : cmap orswot) (K : gset nat), moreach_km H s1 K -> moreach_km H s2 K -> s1 = s2.
Proof. exact (mapor_converge_km H). Qed.
Print Assumptions C01_mapor_km_converge.

(** Map<K, Orswot>, EVERY history outside the classes of the known findings T2 and T3 (all commands; a key that some key remove names receives only nested adds [kmn_addonly] and at most one update per actor [km_once]; any other key receives anything): the COMPLETE state is a function of the knowledge under per-actor delivery, duplicates and merges (proofs/MapOrswotKMN.v);
    the two earlier fragments are special cases (mapor_kmn_nk, mapor_kmn_km) *)
From Crdt Require Import model.Orswot model.Map spec.System spec.OrswotSpec spec.OrswotSystem spec.MapSpec spec.MapSystem spec.MapOrswotSpec spec.MapOrswotKM spec.MapOrswotKMN proofs.MapOrswotKMN proofs.MapOrswotKMNCor.
Theorem C01_mapor_kmn_refine (H : list (oprec (mop oop))) :
  mohist_ok_kmn H -> km_once H -> kmn_addonly H -> forall (s : cmap orswot) (K : gset nat), moreach_kmn H s K -> s = mapor_spec_kmn H K.
Proof. exact (mapor_refine_kmn H). Qed.
Print Assumptions C01_mapor_kmn_refine.

Theorem C01_mapor_kmn_converge (H : list (oprec (mop oop))) :
  mohist_ok_kmn H -> km_once H -> kmn_addonly H ->
  forall (s1 s2 : cmap orswot) (K : gset nat), moreach_kmn H s1 K -> moreach_kmn H s2 K -> s1 = s2.
Proof. exact (mapor_converge_kmn H). Qed.
Print Assumptions C01_mapor_kmn_converge.

(** Map<K, MVReg> (MVReg leaves) WITHOUT key removes, op-based replication (no state merges), per-actor delivery with duplicates (in particular causal delivery): equal knowledge gives the same key layer and, under every key, the same values (proofs/MapMVRegNK.v) *)
From Crdt Require Import model.MVReg model.Map spec.System spec.OrswotSpec spec.OrswotSystem spec.Specs spec.MapSpec spec.MapSystem spec.MapMVRegSpec proofs.MapMVRegNK.
Theorem C01_mapmv_converge_nk (H : list (oprec (mop mvop))) :
  mvhist_ok_nk H -> forall (s1 s2 : cmap (list (gmap N N * N))) (K : gset nat), mvreach_nk H s1 K -> mvreach_nk H s2 K ->
    kabs s1 = kabs s2 /\
    (forall k, mv_state_vals s1 k ≡ₚ mv_state_vals s2 k) /\
    (forall k, rval (mvread (mv_state_vals s1 k)) ≡ₚ rval (mvread (mv_state_vals s2 k))).
Proof. exact (mapmv_converge_nk H). Qed.
Print Assumptions C01_mapmv_converge_nk.

Theorem C01_mapmv_values_refine_causal (H : list (oprec (mop mvop))) :
  mvhist_ok_nk_causal H -> forall (s : cmap (list (gmap N N * N))) (K : gset nat), mvreach_nk_causal H s K ->
    forall k, mv_state_vals s k ≡ₚ mv_maximal (mv_writes (mv_proj (known_ops H K) k)).
Proof. exact (mapmv_values_refine_nk_causal H). Qed.
Print Assumptions C01_mapmv_values_refine_causal.
