(** C20 — equal knowledge gives structurally equal state; no tombstones remain.
    Only property theorems; every proof is [exact lemma].
    The equalities are Leibniz equalities of the complete model state (clock,
    entries, pending removes), which is what the derived [PartialEq] compares;
    for MVReg the hand-written [PartialEq] is modelled ([mveq]) and shown to
    answer [true]. *)
From stdpp Require Import gmap.
From Crdt Require Import model.VClock model.Simple model.Orswot model.MVReg model.List model.Merkle
  spec.System spec.OrswotSpec spec.Specs spec.OrswotSystem spec.MVRegSystem spec.ListSystem
  proofs.OrswotLayer proofs.Simple proofs.OrswotSystem proofs.MVReg proofs.ListSystem proofs.GListSystem proofs.MerkleSystem proofs.CrossType.
From Crdt Require Import model.Map proofs.MapFacts proofs.MapRefuted.
Local Open Scope N_scope.

Theorem C20_orswot H (Hok : ohist_ok H) s1 s2 K : oreach H s1 K → oreach H s2 K → s1 = s2.
Proof. exact (orswot_converge H Hok s1 s2 K). Qed.
Print Assumptions C20_orswot.

(** no residue: the state IS the specification of the knowledge — the clock, the
    surviving members with their surviving witnesses, and only those pending
    removes whose context has not been covered yet: once a remove and
    everything it observed have arrived no pending entry is left for it, and
    no member entry is ever empty *)
Theorem C20_orswot_no_residue H (Hok : ohist_ok H) s K c : oreach H s K →
  s = ospec H K ∧
  (vle c (oclock s) = true → odeferred s !! c = None) ∧
  (∀ m e, oentries s !! m = Some e → e ≠ ∅ ∧ e = ospec_entry (known_ops H K) m) ∧
  (∀ ms, odeferred s !! c = Some ms → vle c (oclock s) = false ∧ ms = rm_members (known_ops H K) c).
Proof. exact (orswot_no_residue H Hok s K c). Qed.
Print Assumptions C20_orswot_no_residue.

Theorem C20_mvreg H s1 s2 K : mvhist_ok H → mvreach H s1 K → mvreach H s2 K →
  mveq s1 s2 = Some true ∧ s1 ≡ₚ s2.
Proof. exact (λ Hok H1 H2, conj (c20_mvreg H s1 s2 K Hok H1 H2) (mv_converge H s1 s2 K (mv_hist_ok_wf H Hok) H1 H2)). Qed.
Print Assumptions C20_mvreg.

Theorem C20_list H s1 s2 K : lhist_ok H → lreach H s1 K → lreach H s2 K → s1 = s2.
Proof. exact (list_converge_ok H s1 s2 K). Qed.
Print Assumptions C20_list.

Theorem C20_glist_merklereg hash (hi : ∀ n1 n2 : mnode, hash n1 = hash n2 → n1 = n2)
    (H : list (oprec (list (Qc * N)))) (HM : list (oprec mnode)) g1 g2 m1 m2 K :
  (glreach H g1 K → glreach H g2 K → g1 = g2) ∧
  (mkreach hash HM m1 K → mkreach hash HM m2 K → m1 = m2).
Proof. exact (conj (gl_converge H g1 g2 K) (mk_converge hash hi HM m1 m2 K)). Qed.
Print Assumptions C20_glist_merklereg.

Theorem C20_counters (H : list (oprec dot)) (HP : list (oprec pnop)) c1 c2 p1 p2 K :
  (reach (∅ : vclock) vapply vmerge adm_any True H c1 K → reach ∅ vapply vmerge adm_any True H c2 K → c1 = c2) ∧
  (reach pn_new pn_apply pn_merge adm_any True HP p1 K → reach pn_new pn_apply pn_merge adm_any True HP p2 K → p1 = p2).
Proof.
  exact (conj (λ H1 H2, eq_trans (gc_reach_spec H c1 K H1) (eq_sym (gc_reach_spec H c2 K H2)))
              (λ H1 H2, eq_trans (pn_reach_pnspec HP p1 K H1) (eq_sym (pn_reach_pnspec HP p2 K H2)))).
Qed.
Print Assumptions C20_counters.

(** Map is REFUTED (known finding T3): two causal orders of the same four ops give states that are not == (a pending nested remove survives in one of them) although all reads agree *)
Theorem C20_map_residue_refuted_witness :
  let s0 := mnew in
         let op0 := upd_or_add s0 0 0 2 in
         let r0 := or_apply s0 op0 in
         let op1 := upd_or_add r0 0 1 0 in
         let r0' := or_apply r0 op1 in
         let r1 := or_apply s0 op0 in
         let op2 := upd_or_rm r1 1 0 2 in
         let op3 := rm_key_all oop r0' 0 in
         let op3' := rm_key oop r0' 0 in
         let deliver := foldl or_apply s0 in
         let x := deliver [op0; op1; op3; op2] in
         let y := deliver [op0; op1; op2; op3] in
         let x' := deliver [op0; op1; op3'; op2] in
         let y' := deliver [op0; op1; op2; op3'] in
         op0 = MUp {| dactor := 0; dcounter := 1 |} 0 (OAdd {| dactor := 0; dcounter := 1 |} [2])
         ∧ op1 = MUp {| dactor := 0; dcounter := 2 |} 1 (OAdd {| dactor := 0; dcounter := 2 |} [0])
           ∧ op2 = MUp {| dactor := 1; dcounter := 1 |} 0 (ORm {[0 := 1]} [2])
             ∧ op3 = MRm {[0 := 2]} {[0]}
               ∧ op3' = MRm {[0 := 1]} {[0]}
                 ∧ Forall (λ k : N, read_or x k = read_or y k) [0; 1; 2]
                   ∧ read_or x 0 = Some []
                     ∧ eval <$> mentries x !! 0 =
                       Some {| oclock := ∅; oentries := ∅; odeferred := {[{[0 := 1]} := {[2]}]} |}
                       ∧ eval <$> mentries y !! 0 =
                         Some {| oclock := ∅; oentries := ∅; odeferred := ∅ |}
                         ∧ x ≠ y ∧ x' ≠ y' ∧ x = x' ∧ y = y'.
Proof. exact map_T3_residue_refuted. Qed.
Print Assumptions C20_map_residue_refuted_witness.

(** Map is REFUTED (known finding T1): Map<_,MVReg>, no remove at all; three replicas holding prefixes of a 3-op API-generated history; the two groupings of the merges read differently under key 0 *)
Theorem C20_map_assoc_refuted_witness :
  let s0 := mnew in
         let op1 := upd_mv s0 3 1 7 in
         let s1 := mv_apply s0 op1 in
         let op2 := upd_mv s1 2 0 1 in
         let s2 := mv_apply s1 op2 in
         let op3 := upd_mv s2 2 0 0 in
         let s3 := mv_apply s2 op3 in
         let a := s2 in
         let b := s1 in
         let c := s3 in
         op1 = MUp {| dactor := 3; dcounter := 1 |} 1 (MVPut {[3 := 1]} 7)
         ∧ op2 = MUp {| dactor := 2; dcounter := 1 |} 0 (MVPut {[3 := 1; 2 := 1]} 1)
           ∧ op3 = MUp {| dactor := 2; dcounter := 2 |} 0 (MVPut {[3 := 1; 2 := 2]} 0)
             ∧ read_mv c 0 = Some [0]
               ∧ read_mv (mv_merge (mv_merge a b) c) 0 = Some [0]
                 ∧ read_mv (mv_merge a (mv_merge b c)) 0 = Some [1; 0]
                   ∧ mv_merge (mv_merge a b) c ≠ mv_merge a (mv_merge b c).
Proof. exact map_T1_assoc_refuted. Qed.
Print Assumptions C20_map_assoc_refuted_witness.

(** * Map<K, Orswot<M>>: equal knowledge gives Leibniz-equal states and no residue, in the fragment
    finding T3 leaves (op-based replication, per-actor delivery with duplicates, no update carrying a
    nested remove): proofs/MapOrswotEq.v *)
From Crdt Require Import proofs.VClock spec.System spec.OrswotSpec spec.MapSpec spec.MapSystem spec.MapOrswotSpec
  proofs.MapOrswot proofs.MapOrswotPA proofs.MapOrswotEq.

Theorem C20_mapor_state_eq (H : list (oprec (mop oop))) (s1 s2 : cmap orswot) (K : gset nat) :
  mohist_ok_pa H -> moreach_pa H s1 K -> moreach_pa H s2 K -> s1 = s2.
Proof. exact (mapor_state_eq_pa H s1 s2 K). Qed.
Print Assumptions C20_mapor_state_eq.

(** once every remove in the knowledge is covered by the map clock, nothing of the removed data is
    left: no pending remove, no empty entry or member clock, the hidden nested clock equals the entry
    clock, a key whose updates are all covered is absent *)
Theorem C20_mapor_no_residue (H : list (oprec (mop oop))) (s : cmap orswot) (K : gset nat) :
  mohist_ok_pa H -> moreach_pa H s K ->
  (forall c ks, MRm c ks ∈ known_ops H K -> vle c (mclock s) = true) ->
  mdeferred s = ∅ /\
  (forall k e, mentries s !! k = Some e ->
     eclock e <> ∅ /\ odeferred (eval e) = ∅ /\
     (forall m mc, oentries (eval e) !! m = Some mc -> mc <> ∅) /\
     oclock (eval e) = eclock e) /\
  (forall k, mlive_dots (known_ops H K) k = [] -> mentries s !! k = None).
Proof. exact (mapor_no_residue_pa H s K). Qed.
Print Assumptions C20_mapor_no_residue.

(** the premise is exactly "nothing is pending" *)
Theorem C20_mapor_pending_empty_iff (H : list (oprec (mop oop))) (s : cmap orswot) (K : gset nat) :
  mohist_ok_pa H -> moreach_pa H s K ->
  (mdeferred s = ∅ <-> forall c ks, MRm c ks ∈ known_ops H K -> vle c (mclock s) = true).
Proof. exact (mapor_pending_empty_iff_pa H s K). Qed.
Print Assumptions C20_mapor_pending_empty_iff.

Theorem C20_mapor_nonvacuous :
  let o0 : mop oop := MUp (Dot 1 1) 7 (OAdd (Dot 1 1) [10; 11]) in
  let o1 : mop oop := MRm {[1 := 1]} {[7]} in
  let o2 : mop oop := MUp (Dot 3 1) 7 (OAdd (Dot 3 1) [10; 12]) in
  let H : list (oprec (mop oop)) := [OpRec 1 o0 ∅; OpRec 2 o1 (∅ ∪ {[0%nat]}); OpRec 3 o2 ∅] in
  let K : gset nat := ∅ ∪ {[2%nat]} ∪ {[1%nat]} ∪ {[0%nat]} in
  let x1 := mapply orswot_valops (mapply orswot_valops mnew o2) o1 in
  let x := mapply orswot_valops x1 o0 in
  let y := mapply orswot_valops (mapply orswot_valops (mapply orswot_valops mnew o0) o1) o2 in
  mohist_ok_pa H /\ moreach_pa H x K /\ moreach_pa H y K /\
  x = y /\
  x = CMap {[1 := 1; 3 := 1]}
           {[7 := MEntry {[3 := 1]}
                    (Orswot {[3 := 1]} {[10 := {[3 := 1]}; 12 := {[3 := 1]}]} ∅)]} ∅ /\
  (forall c ks, MRm c ks ∈ known_ops H K -> vle c (mclock x) = true) /\
  mlive_dots (known_ops H K) 7 = [Dot 3 1] /\
  mlive_dots (known_ops H K) 8 = [] /\ mentries x !! 8 = None /\
  moreach_pa H x1 (∅ ∪ {[2%nat]} ∪ {[1%nat]}) /\
  MRm {[1 := 1]} {[7]} ∈ known_ops H (∅ ∪ {[2%nat]} ∪ {[1%nat]}) /\
  vle {[1 := 1]} (mclock x1) = false /\ mdeferred x1 <> ∅.
Proof. exact mapor_eq_example. Qed.
Print Assumptions C20_mapor_nonvacuous.

(** Map<K, Orswot> whose keys are never removed: equal knowledge gives Leibniz-equal complete states under per-actor delivery,
    duplicates and merges; the map keeps no pending key remove, and the nested set under every key is exactly the Orswot
    specification of the ops learned under that key (so the Orswot no-residue theorem applies to it) (proofs/MapOrswotNK.v) *)
From Crdt Require Import model.Orswot model.Map spec.System spec.OrswotSpec spec.OrswotSystem spec.MapSpec spec.MapSystem spec.MapOrswotSpec proofs.MapOrswotNK proofs.MapOrswotNKCor.
Theorem C20_mapor_nk_state_eq (H : list (oprec (mop oop))) :
  mohist_ok_nk H -> forall (s1 s2 : cmap orswot) (K : gset nat), moreach_nk H s1 K -> moreach_nk H s2 K -> s1 = s2.
Proof. exact (mapor_converge_nk H). Qed.
Print Assumptions C20_mapor_nk_state_eq.

Theorem C20_mapor_nk_components (H : list (oprec (mop oop))) :
  mohist_ok_nk H -> forall (s : cmap orswot) (K : gset nat) (k : N), moreach_nk H s K ->
  let os := known_ops H K in
  mclock s = mspec_clock os /\ mdeferred s = ∅ /\
  (k ∈ dom (mentries s) <-> exists d o, MUp d k o ∈ os) /\
  (forall e, mentries s !! k = Some e ->
        eclock e = dots_clock (kdots os k) /\ eval e = ospec_of (mo_proj os k)) /\
  mo_state_entries s k = ospec_entries (mo_proj os k).
Proof. exact (mapor_components_nk H). Qed.
Print Assumptions C20_mapor_nk_components.

(** Map<K1, Map<K2, Orswot>> when no key is ever removed: equal knowledge gives Leibniz-equal complete states under per-actor delivery,
    duplicates and merges (proofs/MapMapOrswotNK.v) *)
From Crdt Require Import model.Orswot model.Map spec.System spec.OrswotSpec spec.OrswotSystem spec.MapSpec spec.MapSystem spec.MapOrswotSpec spec.MapMapOrswotSpec spec.MapMapOrswotNKSpec proofs.MapMapOrswotNK.
Theorem C20_map2_nk_state_eq (H : list (oprec (mop (mop oop)))) :
  m2hist_ok_nk H -> forall (s1 s2 : cmap (cmap orswot)) (K : gset nat), m2reach_nk H s1 K -> m2reach_nk H s2 K -> s1 = s2.
Proof. exact (map2_converge_nk H). Qed.
Print Assumptions C20_map2_nk_state_eq.

(** Map<K, Orswot> WITH key removes and merges, in the fragment the known findings leave: members are added under keys and keys are removed (no nested remove: T3), and every key that some key remove names is updated at most once by each actor ([km_once]: T2 needs two updates of one actor): equal knowledge gives Leibniz-equal complete states; the state is exactly map clock + live keys with their surviving witnesses +
    surviving members + the key removes the map clock does not cover yet (proofs/MapOrswotKM.v) *)
From Crdt Require Import model.Orswot model.Map spec.System spec.OrswotSpec spec.OrswotSystem spec.MapSpec spec.MapSystem spec.MapOrswotSpec spec.MapOrswotKM proofs.MapOrswotKM proofs.MapOrswotKMCor.
Theorem C20_mapor_km_state_eq (H : list (oprec (mop oop))) :
  mohist_ok_km H -> km_once H -> forall (s1 s2 : cmap orswot) (K : gset nat), moreach_km H s1 K -> moreach_km H s2 K -> s1 = s2.
Proof. exact (mapor_converge_km H). Qed.
Print Assumptions C20_mapor_km_state_eq.

Theorem C20_mapor_km_state_is_spec (H : list (oprec (mop oop))) :
  mohist_ok_km H -> km_once H -> forall (s : cmap orswot) (K : gset nat), moreach_km H s K ->
  s = CMap (mspec_clock (known_ops H K))
           (fn_map (mspec_keys (known_ops H K))
                   (fun k => Some (MEntry (mspec_entry_clock (known_ops H K) k)
                                          (Orswot (mspec_entry_clock (known_ops H K) k) (mo_entries (known_ops H K) k) ∅))))
           (ospec_deferred (oabs <$> known_ops H K)).
Proof. exact (mapor_refine_km H). Qed.
Print Assumptions C20_mapor_km_state_is_spec.

(** Map<K, Orswot>, EVERY history outside the classes of the known findings T2 and T3 (all commands; a key that some key remove names receives only nested adds [kmn_addonly] and at most one update per actor [km_once]; any other key receives anything): equal knowledge gives Leibniz-equal complete states; under a named key the nested set is clock + surviving members, nothing
    parked; under any other key it is the Orswot specification of the ops learned under it (proofs/MapOrswotKMN.v) *)
From Crdt Require Import model.Orswot model.Map spec.System spec.OrswotSpec spec.OrswotSystem spec.MapSpec spec.MapSystem spec.MapOrswotSpec spec.MapOrswotKM spec.MapOrswotKMN proofs.MapOrswotKMN proofs.MapOrswotKMNCor.
Theorem C20_mapor_kmn_state_eq (H : list (oprec (mop oop))) :
  mohist_ok_kmn H -> km_once H -> kmn_addonly H ->
  forall (s1 s2 : cmap orswot) (K : gset nat), moreach_kmn H s1 K -> moreach_kmn H s2 K -> s1 = s2.
Proof. exact (mapor_converge_kmn H). Qed.
Print Assumptions C20_mapor_kmn_state_eq.

Theorem C20_mapor_kmn_state_is_spec (H : list (oprec (mop oop))) :
  mohist_ok_kmn H -> km_once H -> kmn_addonly H -> forall (s : cmap orswot) (K : gset nat), moreach_kmn H s K ->
  s = CMap (mspec_clock (known_ops H K))
           (fn_map (mspec_keys (known_ops H K))
                   (fun k => Some (MEntry (mspec_entry_clock (known_ops H K) k)
                       (if kmn_named (op_val <$> H) k
                        then Orswot (mspec_entry_clock (known_ops H K) k) (mo_entries (known_ops H K) k) ∅
                        else ospec_of (mo_proj (known_ops H K) k)))))
           (ospec_deferred (oabs <$> known_ops H K)).
Proof. exact (mapor_refine_kmn H). Qed.
Print Assumptions C20_mapor_kmn_state_is_spec.

(** depth 3 without key removes: equal knowledge gives Leibniz-equal complete states (proofs/MapNKFunctorInst.v) *)
From Crdt Require Import model.Orswot model.Map spec.System spec.OrswotSpec spec.OrswotSystem spec.MapSpec spec.MapSystem spec.MapOrswotSpec spec.MapMapOrswotSpec spec.MapMapOrswotNKSpec proofs.MapMapOrswotNK proofs.MapNKFunctor proofs.MapNKFunctorInst.
Theorem C20_map3_nk_state_eq (H : list (oprec (mop (mop (mop oop))))) :
  m3hist_ok_nk H -> forall (s1 s2 : cmap (cmap (cmap orswot))) (K : gset nat), m3reach_nk H s1 K -> m3reach_nk H s2 K -> s1 = s2.
Proof. exact (map3_converge_nk H). Qed.
Print Assumptions C20_map3_nk_state_eq.
