(** C18 — reset_remove forgets exactly what the given clock covers.  Only
    property theorems; every proof is [exact lemma].

    The laws hold for ALL well-formed states ([vwf], [pnwf], [mvwf],
    [orswot_wf], [mwf] — no stored zero, no stored empty witness clock, witness
    clocks below the top clock) and ALL clocks [c], [c1], [c2] (below, above,
    concurrent, even ill-formed); reachable Orswot states are well-formed.
    For Orswot / Map the pending-remove table is rebuilt merging the member sets
    of entries whose clocks become equal (finding F1, repaired in the crate). *)
From stdpp Require Import gmap.
From Crdt Require Import model.Simple model.Map spec.System spec.OrswotSystem proofs.VClock proofs.Reset proofs.OrswotSystem.
Local Open Scope N_scope.

Theorem C18_vclock (a c c1 c2 : gmap N N) : vwf a →
  (∀ x, vget (vreset a c) x = if vget a x <=? vget c x then 0 else vget a x) ∧
  (vreset a c = ∅ ↔ vleq a c) ∧
  vreset a ∅ = a ∧
  vreset (vreset a c1) c2 = vreset a (vmerge c1 c2) ∧
  vreset (vreset a c1) c2 = vreset (vreset a c2) c1 ∧
  vreset (vreset a c) c = vreset a c ∧
  vreset a a = ∅ ∧ vwf (vreset a c).
Proof. exact (reset_vclock_laws a c c1 c2). Qed.
Print Assumptions C18_vclock.

Theorem C18_pncounter (s : pncounter) (c c1 c2 : gmap N N) : pnwf s →
  (∀ x, vget (pn_p (pn_reset s c)) x = if vget (pn_p s) x <=? vget c x then 0 else vget (pn_p s) x) ∧
  (∀ x, vget (pn_n (pn_reset s c)) x = if vget (pn_n s) x <=? vget c x then 0 else vget (pn_n s) x) ∧
  pn_reset s ∅ = s ∧
  pn_reset (pn_reset s c1) c2 = pn_reset s (vmerge c1 c2) ∧
  pn_reset (pn_reset s c) c = pn_reset s c ∧
  pn_reset s (vmerge (pn_p s) (pn_n s)) = pn_new ∧ pnwf (pn_reset s c).
Proof. exact (reset_pncounter_laws s c c1 c2). Qed.
Print Assumptions C18_pncounter.

Theorem C18_mvreg (s : list (gmap N N * N)) (c c1 c2 : gmap N N) : mvwf s →
  (∀ k v, (k, v) ∈ mvreset s c ↔ ∃ k0, (k0, v) ∈ s ∧ ¬ vleq k0 c ∧ k = vreset k0 c) ∧
  mvclock (mvreset s c) = vreset (mvclock s) c ∧
  mvreset s ∅ = s ∧
  mvreset (mvreset s c1) c2 = mvreset s (vmerge c1 c2) ∧
  mvreset (mvreset s c) c = mvreset s c ∧
  mvreset s (mvclock s) = mvnew ∧ mvwf (mvreset s c).
Proof. exact (reset_mvreg_laws s c c1 c2). Qed.
Print Assumptions C18_mvreg.

Theorem C18_orswot (s : orswot) (c c1 c2 : gmap N N) : orswot_wf s →
  oclock (oreset s c) = vreset (oclock s) c ∧
  (∀ m k, oentries (oreset s c) !! m = Some k ↔
          ∃ k0, oentries s !! m = Some k0 ∧ ¬ vleq k0 c ∧ k = vreset k0 c) ∧
  (∀ k, is_Some (odeferred (oreset s c) !! k) ↔
        k ≠ ∅ ∧ ∃ k0, is_Some (odeferred s !! k0) ∧ vreset k0 c = k) ∧
  (∀ k m, m ∈ default ∅ (odeferred (oreset s c) !! k) ↔
          k ≠ ∅ ∧ ∃ k0 ms, odeferred s !! k0 = Some ms ∧ m ∈ ms ∧ vreset k0 c = k) ∧
  oreset s ∅ = s ∧
  oreset (oreset s c1) c2 = oreset s (vmerge c1 c2) ∧
  oreset (oreset s c) c = oreset s c ∧
  oreset s (oclock s) = Orswot ∅ ∅ (oreset_deferred (odeferred s) (oclock s)) ∧
  (oreset s (oclock s) = onew ↔ ∀ k ms, odeferred s !! k = Some ms → vleq k (oclock s)) ∧
  (odeferred s = ∅ → oreset s (oclock s) = onew) ∧
  orswot_wf (oreset s c).
Proof. exact (reset_orswot_laws s c c1 c2). Qed.
Print Assumptions C18_orswot.

(** every reachable Orswot state is well-formed, so the laws apply to it *)
Theorem C18_orswot_reachable_wf H s K : ohist_ok H → oreach H s K → orswot_wf s.
Proof. exact (orswot_reach_wf H s K). Qed.
Print Assumptions C18_orswot_reachable_wf.

(** Map, generic in the nested value type: whenever the nested reset_remove
    satisfies the laws on a predicate [P], so does the map's, on [mwf P] — hence
    at every nesting depth *)
Theorem C18_map {V O E} (vo : valops V O E) (P : V → Prop) (s : cmap V) (c c1 c2 : gmap N N) :
  reset_ok vo P → mwf P s → map_reset_laws vo P s c c1 c2.
Proof. exact (reset_map_laws vo P s c c1 c2). Qed.
Print Assumptions C18_map.

Theorem C18_map_nesting {V O E} (vo : valops V O E) (P : V → Prop) :
  reset_ok vo P → reset_ok (map_valops vo) (mwf P).
Proof. exact (map_valops_reset_ok vo P). Qed.
Print Assumptions C18_map_nesting.

Theorem C18_map_instances :
  reset_ok mvreg_valops mvwf ∧ reset_ok orswot_valops orswot_wf ∧
  (∀ s c c1 c2, mwf (mwf mvwf) s → map_reset_laws (map_valops mvreg_valops) (mwf mvwf) s c c1 c2).
Proof. exact (conj mvreg_reset_ok (conj orswot_reset_ok reset_mapmm_laws)). Qed.
Print Assumptions C18_map_instances.

(** the input of finding F1: two pending removes collapse onto one clock and
    both member sets are kept *)
Theorem C18_collision_witness :
  oreset ex_orswot {[1 := 2]} = Orswot {[3 := 2]} {[9 := {[3 := 2]}]} {[ {[2 := 2]} := {[7; 9]} ]} ∧
  oreset ex_orswot {[3 := 1]} = ex_orswot ∧
  oreset ex_orswot {[1 := 5; 2 := 5; 3 := 5]} = onew ∧
  oreset ex_orswot (oclock ex_orswot) =
    Orswot ∅ ∅ {[ {[2 := 2]} := {[7]}; {[1 := 2; 2 := 2]} := {[9]} ]} ∧
  oreset (oreset ex_orswot {[1 := 1]}) {[2 := 2; 3 := 1]} = oreset ex_orswot {[1 := 1; 2 := 2; 3 := 1]}.
Proof. exact ex_orswot_collide. Qed.
Print Assumptions C18_collision_witness.
