(** C16 — validate_op accepts every in-order op and rejects every gap.  Only
    property theorems; every proof is [exact lemma].
    VClock's clause is C10_validate_op; types with [Validation = Infallible]
    (GCounter, PNCounter, GSet, MaxReg, MinReg, MVReg, GList) have no function to
    model: they return Ok unconditionally.  Map is REFUTED (known finding K1):
    witnesses below, together with the exact characterisation of what it does. *)
From stdpp Require Import gmap.
From Crdt Require Import model.VClock model.Simple model.Orswot model.Map model.List model.Merkle
  spec.System spec.OrswotSystem spec.ListSystem proofs.MerkleInv proofs.OrswotSystem proofs.ListSystem proofs.Validate.
Local Open Scope N_scope.

(** Orswot: removes always Ok; an add is Ok iff all earlier adds of its actor
    have been applied (so: at its origin, for re-deliveries, in per-actor order);
    when rejected the error is exactly the range of the missing adds *)
Theorem C16_orswot_validate_op H s K i r : ohist_ok H → oreach H s K → H !! i = Some r →
  (∀ c ms, op_val r = ORm c ms → ovalidate_op s (op_val r) = None) ∧
  (∀ a, vget (oclock s) a = N.of_nat (known_adds H K a)) ∧
  (∀ d ms, op_val r = OAdd d ms →
     (ovalidate_op s (op_val r) = None ↔
        ∀ j r' d' ms', (j < i)%nat → H !! j = Some r' → op_val r' = OAdd d' ms' →
                       op_author r' = op_author r → j ∈ K) ∧
     (∀ e, ovalidate_op s (op_val r) = Some e →
        let a := op_author r in
        let lo := N.of_nat (known_adds H K a) + 1 in
        a = dactor d ∧ e = (a, lo, dcounter d) ∧ lo = vget (oclock s) a + 1 ∧ lo < dcounter d ∧
        ∀ c, lo <= c < dcounter d ↔
             ∃ j r' ms', (j < i)%nat ∧ H !! j = Some r' ∧ op_val r' = OAdd (Dot a c) ms' ∧ j ∉ K)).
Proof. exact (λ Hok, C16_orswot H s K i r (ohist_ok_wf H Hok)). Qed.
Print Assumptions C16_orswot_validate_op.

Theorem C16_orswot_accepted_cases H s K i r : ohist_ok H → oreach H s K → H !! i = Some r →
  (adm_per_actor H K i → ovalidate_op s (op_val r) = None) ∧
  (i ∈ K → ovalidate_op s (op_val r) = None) ∧
  (own_known (take i H) (op_author r) K → ovalidate_op s (op_val r) = None).
Proof. exact (λ Hok, C16_orswot_accepts H s K i r (ohist_ok_wf H Hok)). Qed.
Print Assumptions C16_orswot_accepted_cases.

Theorem C16_orswot_origin s a cmd o : ogen s a cmd = Some o → ovalidate_op s o = None.
Proof. exact (C16_orswot_origin_any s a cmd o). Qed.
Print Assumptions C16_orswot_origin.

(** List: every op carries a dot; same statements (never panics on ops of a
    well-formed history) *)
Theorem C16_list_validate_op H s K i r : lhist_ok H → lreach H s K → H !! i = Some r →
  l_validate_op s (op_val r) ≠ None ∧
  (∀ a, vget (lclock s) a = N.of_nat (known_ops_of H K a)) ∧
  (l_validate_op s (op_val r) = Some None ↔
     ∀ j r', (j < i)%nat → H !! j = Some r' → op_author r' = op_author r → j ∈ K) ∧
  (adm_causal H K i → l_validate_op s (op_val r) = Some None) ∧
  (i ∈ K → l_validate_op s (op_val r) = Some None) ∧
  (∀ e, l_validate_op s (op_val r) = Some (Some e) →
     let a := op_author r in
     let lo := N.of_nat (known_ops_of H K a) + 1 in
     let hi := N.of_nat (pc (by_actor a) H i) + 1 in
     lop_dot (op_val r) = Some (Dot a hi) ∧ e = (a, lo, hi) ∧ lo = vget (lclock s) a + 1 ∧ lo < hi ∧
     ∀ c, lo <= c < hi ↔ ∃ j r', (j < i)%nat ∧ H !! j = Some r' ∧ lop_dot (op_val r') = Some (Dot a c) ∧ j ∉ K).
Proof. exact (λ Hok, C16_list H s K i r (lhist_ok_lwfH H Hok)). Qed.
Print Assumptions C16_list_validate_op.

Theorem C16_list_at_origin H s K a cmd o : lhist_ok H → lreach H s K →
  lgen s a cmd = Some o → l_validate_op s o = Some None.
Proof. exact (λ Hok, C16_list_origin H s K a cmd o (lhist_ok_lwfH H Hok)). Qed.
Print Assumptions C16_list_at_origin.

(** MerkleReg: MissingChild exactly for the children that are not visible;
    LWWReg: ConflictingMarker exactly for an equal marker with a different value *)
Theorem C16_merklereg hash (hi : ∀ n1 n2 : mnode, hash n1 = hash n2 → n1 = n2) s R n : Inv hash s R →
  (mk_missing s n = ∅ ↔ ∀ c, c ∈ nchildren n → visible R c) ∧
  (∀ c, c ∈ mk_missing s n ↔ c ∈ nchildren n ∧ ¬ visible R c).
Proof. exact (C16_merkle hash hi s R n). Qed.
Print Assumptions C16_merklereg.

Theorem C16_lwwreg s v m : lww_conflict s v m = true ↔ lww_marker s = m ∧ lww_val s ≠ v.
Proof. exact (C16_lww s v m). Qed.
Print Assumptions C16_lwwreg.

(** Map: the exact behaviour, for all states and all nested value types ... *)
Theorem C16_map_characterisation {V O E} (vo : valops V O E) (s : cmap V) c ks d k o :
  mvalidate_op vo s (MRm c ks) = None ∧
  (mvalidate_op vo s (MUp d k o) = None ↔
     dcounter d <= vget (mclock s) (dactor d) + 1 ∧
     dcounter d <= vget (eclock (mentry_at vo s k)) (dactor d) + 1 ∧
     v_validate_op vo (eval (mentry_at vo s k)) o = None).
Proof. exact (conj (C16_map_rm vo s c ks) (C16_map_up_ok vo s d k o)). Qed.
Print Assumptions C16_map_characterisation.

(** ... which REFUTES the property for Map: an actor updating a second key is
    rejected at its own origin (entry-clock continuity test), likewise an update
    after the key was removed *)
Theorem C16_map_refuted_witness :
  let s0 := mnew in
  let op1 := c16_up s0 1 10 in
  let s1 := mapply mvreg_valops s0 op1 in
  let op2 := c16_up s1 2 20 in
  (∃ o1 o2, op1 = MUp (Dot 7 1) 1 o1 ∧ op2 = MUp (Dot 7 2) 2 o2) ∧
  mvalidate_op mvreg_valops s0 op1 = None ∧
  mvalidate_op mvreg_valops s1 op2 = Some (SourceOrder (7, 1, 2)).
Proof. exact C16_map_refuted. Qed.
Print Assumptions C16_map_refuted_witness.

Theorem C16_map_refuted_after_remove_witness :
  let s0 := mnew in
  let op1 := c16_up s0 1 10 in
  let s1 := mapply mvreg_valops s0 op1 in
  let op2 := mrm 1 (derive_rm_ctx (mget s1 1)) in
  let s2 := mapply mvreg_valops s1 op2 in
  let op3 := c16_up s2 1 30 in
  (∃ o3, op3 = MUp (Dot 7 2) 1 o3) ∧
  mvalidate_op mvreg_valops s1 op2 = None ∧
  mvalidate_op mvreg_valops s2 op3 = Some (SourceOrder (7, 1, 2)).
Proof. exact C16_map_refuted_rm. Qed.
Print Assumptions C16_map_refuted_after_remove_witness.
