(** C08 — overtaking removes are deferred, never lost: per-actor delivery
    order suffices.  Only property theorems; every proof is [exact lemma]. *)
From stdpp Require Import gmap.
From Crdt Require Import model.VClock model.Orswot model.MVReg model.List
  spec.System spec.OrswotSpec spec.Specs spec.OrswotSystem spec.MVRegSystem spec.ListSystem
  proofs.OrswotLayer proofs.OrswotSystem proofs.MVReg proofs.ListSystem proofs.CrossType.
From Crdt Require Import model.Map proofs.MapFacts proofs.MapRefuted.
Local Open Scope N_scope.

(** Orswot: delivery only has to respect each actor's own issue order
    ([oreach] = per-actor order, duplicates, merges): the result is the
    specification of the knowledge, exactly what a causal schedule produces *)
Theorem C08_orswot_per_actor_suffices H s1 s2 K : ohist_ok H →
  oreach H s1 K → creach onew oapply omerge H s2 K → s1 = s2 ∧ s1 = ospec H K.
Proof.
  exact (λ Hok H1 H2,
    conj (orswot_converge H Hok s1 s2 K H1
            (reach_adm_mono onew oapply omerge adm_causal adm_per_actor True H s2 K (λ K' i, causal_is_per_actor H K' i Hok) H2))
         (proj1 (orswot_reach_spec H s1 K (ohist_ok_wf H Hok) H1))).
Qed.
Print Assumptions C08_orswot_per_actor_suffices.

(** a remove that reaches a replica before an update it had observed is
    remembered: the pending table holds exactly the applied removes whose
    context the clock does not cover yet, with all their members; it is part of
    the state (and of the specification of a union: it travels in merges) *)
Theorem C08_orswot_pending H (Hok : ohist_ok H) s K c : oreach H s K →
  (∀ ms, odeferred s !! c = Some ms →
         vwf c ∧ c ≠ ∅ ∧ vle c (oclock s) = false ∧ ms = rm_members (known_ops H K) c) ∧
  ((∃ ms, ORm c ms ∈ known_ops H K) → vle c (oclock s) = false → is_Some (odeferred s !! c)) ∧
  (vle c (oclock s) = true → odeferred s !! c = None) ∧
  (∀ m e, oentries s !! m = Some e → e ≠ ∅).
Proof. exact (orswot_pending H Hok s K c). Qed.
Print Assumptions C08_orswot_pending.

Theorem C08_orswot_pending_travels_in_merges H (Hok : ohist_ok H) s1 K1 s2 K2 :
  oreach H s1 K1 → oreach H s2 K2 → omerge s1 s2 = ospec H (K1 ∪ K2).
Proof. exact (λ H1 H2, proj1 (orswot_merge_is_union H Hok s1 K1 s2 K2 H1 H2)). Qed.
Print Assumptions C08_orswot_pending_travels_in_merges.

(** MVReg needs no order at all: a dominated Put is ignored, a dominating Put
    evicts ([mvreach] = arbitrary delivery order) *)
Theorem C08_mvreg_any_order H s K : mvhist_ok H → mvreach H s K → s ≡ₚ mvspec H K.
Proof. exact (λ Hok Hr, proj1 (mv_reach_spec H s K (mv_hist_ok_wf H Hok) Hr)). Qed.
Print Assumptions C08_mvreg_any_order.

(** only List requires causal delivery: a per-actor-ordered but non-causal
    schedule (delete before its insert, two actors) leaves the element in place *)
Theorem C08_list_needs_causal :
  lhist_ok_any c12_hist ∧ lhist_ok c12_hist ∧ lwfH c12_hist ∧
  lreach_any c12_hist c12_bad {[1%nat; 0%nat]} ∧ lreach c12_hist c12_good {[0%nat; 1%nat]} ∧
  l_read c12_bad = [7%N] ∧ l_read c12_good = [] ∧ l_read (lspec c12_hist {[0%nat; 1%nat]}) = [] ∧
  c12_bad ≠ lspec c12_hist {[1%nat; 0%nat]} ∧ c12_bad ≠ c12_good.
Proof. exact C12_noncausal_refuted. Qed.
Print Assumptions C08_list_needs_causal.

(** Map is REFUTED (known finding T2): a key removed by a peer resurrects its old member when merged with the state of the actor that concurrently issued a second update (op delivery gives a different result) *)
Theorem C08_map_refuted_witness :
  let s0 := mnew in
         let op1 := upd_or_add s0 2 0 8 in
         let a1 := or_apply s0 op1 in
         let op2 := upd_or_add a1 2 0 9 in
         let a2 := or_apply a1 op2 in
         let p1 := or_apply s0 op1 in
         let op3 := rm_key oop p1 0 in
         let p2 := or_apply p1 op3 in
         op1 = MUp {| dactor := 2; dcounter := 1 |} 0 (OAdd {| dactor := 2; dcounter := 1 |} [8])
         ∧ op2 = MUp {| dactor := 2; dcounter := 2 |} 0 (OAdd {| dactor := 2; dcounter := 2 |} [9])
           ∧ op3 = MRm {[2 := 1]} {[0]}
             ∧ read_or p1 0 = Some [8]
               ∧ read_or p2 0 = None
                 ∧ contains_or (or_merge p2 a2) 0 8 = true
                   ∧ contains_or (or_merge a2 p2) 0 8 = true
                     ∧ read_or (or_apply p2 op2) 0 = Some [9]
                       ∧ read_or (or_apply a2 op3) 0 = Some [9] ∧ or_merge p2 a2 ≠ or_apply p2 op2.
Proof. exact map_T2_resurrection_refuted. Qed.
Print Assumptions C08_map_refuted_witness.

From Crdt Require Import model.Map spec.System spec.OrswotSpec spec.OrswotSystem spec.MapSpec spec.MapSystem proofs.OrswotSystem proofs.MapKeys.

(** Map, key level: per-actor delivery (pending removes, also inside merged states) yields
    exactly the key set, contexts and pending-remove table that the knowledge set determines *)
Theorem C08_map_keys_per_actor {V O E} (vo : valops V O E) (H : list (oprec (mop O))) :
  owfH (habs H) ->
  forall (s1 s2 : cmap V) (K : gset nat), mapreach vo H s1 K -> mapreach vo H s2 K ->
    mclock s1 = mclock s2
    /\ dom (mentries s1) = dom (mentries s2)
    /\ (forall k : N, rm_clock (mget s1 k) = rm_clock (mget s2 k))
    /\ (forall k : N, add_clock (mget s1 k) = add_clock (mget s2 k))
    /\ mread_ctx s1 = mread_ctx s2
    /\ rval (mlen s1) = rval (mlen s2)
    /\ rval (mis_empty s1) = rval (mis_empty s2) /\ mdeferred s1 = mdeferred s2.
Proof. exact (map_keys_converge_reads vo H). Qed.
Print Assumptions C08_map_keys_per_actor.

(** T3 changes reads once a delivery overtakes: per-actor delivery order does NOT suffice for the
    values of Map<_, Orswot> (known finding T3; replayed on the implementation by the check) *)
Theorem C08_map_nested_remove_per_actor_refuted_witness :
  let s0 : cmap orswot := mnew in
  let opA := upd_or_add s0 0 0 1 in
  let b := or_apply s0 opA in
  let opB := upd_or_rm b 1 0 1 in
  let c := or_apply s0 opB in
  let opC : mop oop := rm_key oop c 0 in
  let deliver := foldl or_apply s0 in
  let causal := deliver [opA; opB; opC] in
  let overtaking := deliver [opB; opC; opA] in
  opA = MUp (Dot 0 1) 0 (OAdd (Dot 0 1) [1]) /\
  opB = MUp (Dot 1 1) 0 (ORm {[ 0 := 1 ]} [1]) /\
  opC = MRm {[ 1 := 1 ]} {[ 0 ]} /\
  read_or causal 0 = Some [] /\
  read_or overtaking 0 = Some [1] /\
  mclock causal = mclock overtaking.
Proof. exact map_T3_per_actor_refuted. Qed.
Print Assumptions C08_map_nested_remove_per_actor_refuted_witness.

