(** C08 — overtaking removes are deferred, never lost: per-actor delivery
    order suffices.  Only property theorems; every proof is [exact lemma]. *)
From stdpp Require Import gmap.
From Crdt Require Import model.VClock model.Orswot model.MVReg model.List
  spec.System spec.OrswotSpec spec.Specs spec.OrswotSystem spec.MVRegSystem spec.ListSystem
  proofs.OrswotLayer proofs.OrswotSystem proofs.MVReg proofs.ListSystem proofs.CrossType.
From Crdt Require Import model.Map proofs.MapFacts proofs.MapRefuted.
Local Open Scope N_scope.

(** Orswot: delivery only has to respect each actor's own issue order
    ([oreach] = per-actor order, duplicates, merges): the result is the
    specification of the knowledge, exactly what a causal schedule produces *)
Theorem C08_orswot_per_actor_suffices H s1 s2 K : ohist_ok H →
  oreach H s1 K → creach onew oapply omerge H s2 K → s1 = s2 ∧ s1 = ospec H K.
Proof.
  exact (λ Hok H1 H2,
    conj (orswot_converge H Hok s1 s2 K H1
            (reach_adm_mono onew oapply omerge adm_causal adm_per_actor True H s2 K (λ K' i, causal_is_per_actor H K' i Hok) H2))
         (proj1 (orswot_reach_spec H s1 K (ohist_ok_wf H Hok) H1))).
Qed.
Print Assumptions C08_orswot_per_actor_suffices.

(** a remove that reaches a replica before an update it had observed is
    remembered: the pending table holds exactly the applied removes whose
    context the clock does not cover yet, with all their members; it is part of
    the state (and of the specification of a union: it travels in merges) *)
Theorem C08_orswot_pending H (Hok : ohist_ok H) s K c : oreach H s K →
  (∀ ms, odeferred s !! c = Some ms →
         vwf c ∧ c ≠ ∅ ∧ vle c (oclock s) = false ∧ ms = rm_members (known_ops H K) c) ∧
  ((∃ ms, ORm c ms ∈ known_ops H K) → vle c (oclock s) = false → is_Some (odeferred s !! c)) ∧
  (vle c (oclock s) = true → odeferred s !! c = None) ∧
  (∀ m e, oentries s !! m = Some e → e ≠ ∅).
Proof. exact (orswot_pending H Hok s K c). Qed.
Print Assumptions C08_orswot_pending.

Theorem C08_orswot_pending_travels_in_merges H (Hok : ohist_ok H) s1 K1 s2 K2 :
  oreach H s1 K1 → oreach H s2 K2 → omerge s1 s2 = ospec H (K1 ∪ K2).
Proof. exact (λ H1 H2, proj1 (orswot_merge_is_union H Hok s1 K1 s2 K2 H1 H2)). Qed.
Print Assumptions C08_orswot_pending_travels_in_merges.

(** MVReg needs no order at all: a dominated Put is ignored, a dominating Put
    evicts ([mvreach] = arbitrary delivery order) *)
Theorem C08_mvreg_any_order H s K : mvhist_ok H → mvreach H s K → s ≡ₚ mvspec H K.
Proof. exact (λ Hok Hr, proj1 (mv_reach_spec H s K (mv_hist_ok_wf H Hok) Hr)). Qed.
Print Assumptions C08_mvreg_any_order.

(** only List requires causal delivery: a per-actor-ordered but non-causal
    schedule (delete before its insert, two actors) leaves the element in place *)
Theorem C08_list_needs_causal :
  lhist_ok_any c12_hist ∧ lhist_ok c12_hist ∧ lwfH c12_hist ∧
  lreach_any c12_hist c12_bad {[1%nat; 0%nat]} ∧ lreach c12_hist c12_good {[0%nat; 1%nat]} ∧
  l_read c12_bad = [7%N] ∧ l_read c12_good = [] ∧ l_read (lspec c12_hist {[0%nat; 1%nat]}) = [] ∧
  c12_bad ≠ lspec c12_hist {[1%nat; 0%nat]} ∧ c12_bad ≠ c12_good.
Proof. exact C12_noncausal_refuted. Qed.
Print Assumptions C08_list_needs_causal.

(** Map is REFUTED (known finding T2): a key removed by a peer resurrects its old member when merged with the state of the actor that concurrently issued a second update (op delivery gives a different result) *)
Theorem C08_map_refuted_witness :
  let s0 := mnew in
         let op1 := upd_or_add s0 2 0 8 in
         let a1 := or_apply s0 op1 in
         let op2 := upd_or_add a1 2 0 9 in
         let a2 := or_apply a1 op2 in
         let p1 := or_apply s0 op1 in
         let op3 := rm_key oop p1 0 in
         let p2 := or_apply p1 op3 in
         op1 = MUp {| dactor := 2; dcounter := 1 |} 0 (OAdd {| dactor := 2; dcounter := 1 |} [8])
         ∧ op2 = MUp {| dactor := 2; dcounter := 2 |} 0 (OAdd {| dactor := 2; dcounter := 2 |} [9])
           ∧ op3 = MRm {[2 := 1]} {[0]}
             ∧ read_or p1 0 = Some [8]
               ∧ read_or p2 0 = None
                 ∧ contains_or (or_merge p2 a2) 0 8 = true
                   ∧ contains_or (or_merge a2 p2) 0 8 = true
                     ∧ read_or (or_apply p2 op2) 0 = Some [9]
                       ∧ read_or (or_apply a2 op3) 0 = Some [9] ∧ or_merge p2 a2 ≠ or_apply p2 op2.
Proof. exact map_T2_resurrection_refuted. Qed.
Print Assumptions C08_map_refuted_witness.

From Crdt Require Import model.Map spec.System spec.OrswotSpec spec.OrswotSystem spec.MapSpec spec.MapSystem proofs.OrswotSystem proofs.MapKeys.

(** Map, key level: per-actor delivery (pending removes, also inside merged states) yields
    exactly the key set, contexts and pending-remove table that the knowledge set determines *)
Theorem C08_map_keys_per_actor {V O E} (vo : valops V O E) (H : list (oprec (mop O))) :
  owfH (habs H) ->
  forall (s1 s2 : cmap V) (K : gset nat), mapreach vo H s1 K -> mapreach vo H s2 K ->
    mclock s1 = mclock s2
    /\ dom (mentries s1) = dom (mentries s2)
    /\ (forall k : N, rm_clock (mget s1 k) = rm_clock (mget s2 k))
    /\ (forall k : N, add_clock (mget s1 k) = add_clock (mget s2 k))
    /\ mread_ctx s1 = mread_ctx s2
    /\ rval (mlen s1) = rval (mlen s2)
    /\ rval (mis_empty s1) = rval (mis_empty s2) /\ mdeferred s1 = mdeferred s2.
Proof. exact (map_keys_converge_reads vo H). Qed.
Print Assumptions C08_map_keys_per_actor.

(** T3 changes reads once a delivery overtakes: per-actor delivery order does NOT suffice for the
    values of Map<_, Orswot> (known finding T3; replayed on the implementation by the check) *)
Theorem C08_map_nested_remove_per_actor_refuted_witness :
  let s0 : cmap orswot := mnew in
  let opA := upd_or_add s0 0 0 1 in
  let b := or_apply s0 opA in
  let opB := upd_or_rm b 1 0 1 in
  let c := or_apply s0 opB in
  let opC : mop oop := rm_key oop c 0 in
  let deliver := foldl or_apply s0 in
  let causal := deliver [opA; opB; opC] in
  let overtaking := deliver [opB; opC; opA] in
  opA = MUp (Dot 0 1) 0 (OAdd (Dot 0 1) [1]) /\
  opB = MUp (Dot 1 1) 0 (ORm {[ 0 := 1 ]} [1]) /\
  opC = MRm {[ 1 := 1 ]} {[ 0 ]} /\
  read_or causal 0 = Some [] /\
  read_or overtaking 0 = Some [1] /\
  mclock causal = mclock overtaking.
Proof. exact map_T3_per_actor_refuted. Qed.
Print Assumptions C08_map_nested_remove_per_actor_refuted_witness.


(** * Map<K, Orswot<M>> values: per-actor delivery order suffices when no update carries a nested
    remove (the fragment finding T3 leaves), op-based replication with duplicates
    (proofs/MapOrswotPA.v).  A key remove that overtakes the updates it observed is parked at key
    level and re-applied after every update; the member tables are the specification of the
    knowledge at every step, hence equal to what causal delivery of the same ops produces. *)
From Crdt Require Import proofs.VClock spec.MapOrswotSpec proofs.MapOrswot proofs.MapOrswotPA.

Theorem C08_mapor_values_per_actor (H : list (oprec (mop oop))) : mohist_ok_pa H ->
  forall (s : cmap orswot) (K : gset nat), moreach_pa H s K ->
    forall k, mo_state_entries s k = mo_entries (known_ops H K) k.
Proof. exact (mapor_values_refine_pa H). Qed.
Print Assumptions C08_mapor_values_per_actor.

(** "the result is exactly what causal delivery would have produced" *)
Theorem C08_mapor_per_actor_equals_causal (H : list (oprec (mop oop))) (s1 s2 : cmap orswot) (K : gset nat) :
  mohist_ok_pa H -> moreach_pa H s1 K ->
  reach mnew (mapply orswot_valops) (mmerge orswot_valops) adm_causal False H s2 K ->
  (forall k, mo_state_entries s1 k = mo_state_entries s2 k) /\
  dom (mentries s1) = dom (mentries s2) /\ mclock s1 = mclock s2 /\
  (forall k, mentry_clock s1 k = mentry_clock s2 k) /\ mdeferred s1 = mdeferred s2.
Proof. exact (mapor_pa_eq_causal H s1 s2 K). Qed.
Print Assumptions C08_mapor_per_actor_equals_causal.

(** such histories contain no nested remove, and nothing is ever parked inside a nested set *)
Theorem C08_mapor_per_actor_no_nested_pending (H : list (oprec (mop oop))) (s : cmap orswot) (K : gset nat) (k : N) (e : mentry orswot) :
  mohist_ok_pa H -> moreach_pa H s K -> mentries s !! k = Some e ->
  vleq (oclock (eval e)) (mclock s) /\ odeferred (eval e) = ∅.
Proof. exact (mapor_nested_pa H s K k e). Qed.
Print Assumptions C08_mapor_per_actor_no_nested_pending.

(** non-vacuity: actor 2's key remove (context {1:1}) overtakes actor 1's update at replica X, is parked, and
    takes effect when the update arrives; actor 3's concurrent add under the same key survives; the causal
    replica Y ends in the same tables *)
Theorem C08_mapor_per_actor_nonvacuous :
  let o0 : mop oop := MUp (Dot 1 1) 7 (OAdd (Dot 1 1) [10; 11]) in
  let o1 : mop oop := MRm {[1 := 1]} {[7]} in
  let o2 : mop oop := MUp (Dot 3 1) 7 (OAdd (Dot 3 1) [10; 12]) in
  let H : list (oprec (mop oop)) := [OpRec 1 o0 ∅; OpRec 2 o1 (∅ ∪ {[0%nat]}); OpRec 3 o2 ∅] in
  let K : gset nat := ∅ ∪ {[2%nat]} ∪ {[1%nat]} ∪ {[0%nat]} in
  let K' : gset nat := ∅ ∪ {[0%nat]} ∪ {[1%nat]} ∪ {[2%nat]} in
  let x1 := mapply orswot_valops (mapply orswot_valops mnew o2) o1 in
  let x := mapply orswot_valops x1 o0 in
  let y := mapply orswot_valops (mapply orswot_valops (mapply orswot_valops mnew o0) o1) o2 in
  mohist_ok_pa H /\ moreach_pa H x K /\ moreach H y K' /\ moreach_pa H y K' /\ K' = K /\
  ~ adm_causal H (∅ ∪ {[2%nat]}) 1%nat /\
  known_ops H K = [o0; o1; o2] /\
  mdeferred x1 = {[ {[1 := 1]} := {[7]} ]} /\
  mo_state_entries x1 7 = {[10 := {[3 := 1]}; 12 := {[3 := 1]}]} /\
  mdeferred x = ∅ /\
  mo_state_entries x 7 = {[10 := {[3 := 1]}; 12 := {[3 := 1]}]} /\
  mo_state_entries y 7 = {[10 := {[3 := 1]}; 12 := {[3 := 1]}]} /\
  mo_entries (known_ops H K) 7 = {[10 := {[3 := 1]}; 12 := {[3 := 1]}]} /\
  mo_live_dots (known_ops H K) 7 10 = [Dot 3 1] /\
  mo_live_dots (known_ops H K) 7 11 = [] /\
  movalspec_ok H K x = true.
Proof. exact mapor_pa_example. Qed.
Print Assumptions C08_mapor_per_actor_nonvacuous.

(** Map<K, Orswot> whose keys are never removed: per-actor delivery suffices for the COMPLETE state, also across merges - a nested
    remove that overtakes the adds it observed is parked inside the nested set, travels inside merged states, and the result is
    the state causal delivery produces (both are [mapor_spec_nk] of the knowledge); closed example below (proofs/MapOrswotNK.v) *)
From Crdt Require Import model.Orswot model.Map spec.System spec.OrswotSpec spec.OrswotSystem spec.MapSpec spec.MapSystem spec.MapOrswotSpec proofs.MapOrswotNK proofs.MapOrswotNKCor.
Theorem C08_mapor_nk_per_actor (H : list (oprec (mop oop))) :
  mohist_ok_nk H -> forall (s : cmap orswot) (K : gset nat), moreach_nk H s K -> s = mapor_spec_nk H K.
Proof. exact (mapor_refine_nk H). Qed.
Print Assumptions C08_mapor_nk_per_actor.

Theorem C08_mapor_nk_any_discipline (adm : adm_t (mop oop)) (mg : Prop) (H : list (oprec (mop oop))) (s : cmap orswot) (K : gset nat) :
  mohist_ok_nk H -> (forall K i, adm H K i -> adm_per_actor H K i) ->
  reach mnew (mapply orswot_valops) (mmerge orswot_valops) adm mg H s K -> s = mapor_spec_nk H K.
Proof. exact (mapor_refine_nk_any adm mg H s K). Qed.
Print Assumptions C08_mapor_nk_any_discipline.

Theorem C08_mapor_nk_parked_remove_example :
  exists (H : list (oprec (mop oop))) (sA sB sC : cmap orswot) (KA KB : gset nat),
    mohist_ok_nk H /\ length H = 4%nat /\
    ~ adm_causal H ∅ 1%nat /\
    moreach_nk H sA KA /\
    odeferred <$> (eval <$> mentries sA !! 7) = Some {[ ({[1 := 1]} : gmap N N) := ({[10]} : gset N) ]} /\
    moreach_nk H sB KB /\
    mo_state_entries sB 7 = {[10 := {[1 := 1]}]} /\
    moreach_nk H sC (KA ∪ KB) /\
    mmerge orswot_valops sA sB = sC /\ mmerge orswot_valops sB sA = sC /\
    mmerge orswot_valops sA sB = mapor_spec_nk H (KA ∪ KB) /\
    mapor_nk_ok H (KA ∪ KB) (mmerge orswot_valops sA sB) = true /\
    mapor_nk_ok H KA sA = true /\
    mo_state_entries sC 7 = ∅ /\
    odeferred <$> (eval <$> mentries sC !! 7) = Some ∅ /\
    mo_state_entries sC 8 = {[20 := {[2 := 2]}; 21 := {[1 := 2]}]}.
Proof. exact mapor_nk_example_closed. Qed.
Print Assumptions C08_mapor_nk_parked_remove_example.

(** Map<K1, Map<K2, Orswot>> when no key is ever removed: per-actor delivery suffices for the complete state, merges included; a
    nested remove that overtakes its add is parked inside the innermost set and travels in merged states (proofs/MapMapOrswotNK.v) *)
From Crdt Require Import model.Orswot model.Map spec.System spec.OrswotSpec spec.OrswotSystem spec.MapSpec spec.MapSystem spec.MapOrswotSpec spec.MapMapOrswotSpec spec.MapMapOrswotNKSpec proofs.MapMapOrswotNK.
Theorem C08_map2_nk_any_discipline (adm : adm_t (mop (mop oop))) (mg : Prop) (H : list (oprec (mop (mop oop)))) (s : cmap (cmap orswot)) (K : gset nat) :
  m2hist_ok_nk H -> (forall K i, adm H K i -> adm_per_actor H K i) ->
  reach mnew (mapply vo2) (mmerge vo2) adm mg H s K -> s = map2_spec_nk H K.
Proof. exact (map2_refine_nk_any adm mg H s K). Qed.
Print Assumptions C08_map2_nk_any_discipline.

Theorem C08_map2_nk_parked_remove_example :
  exists (H : list (oprec (mop (mop oop)))) (sA sB sC : cmap (cmap orswot)) (KA KB : gset nat),
    m2hist_ok_nk H /\ length H = 4%nat /\
    ~ adm_causal H ∅ 1%nat /\
    m2reach_nk H sA KA /\
    m2_state_parked sA 7 3 = Some {[ ({[1 := 1]} : gmap N N) := ({[10]} : gset N) ]} /\
    m2reach_nk H sB KB /\
    m2_state_entries sB 7 3 = {[10 := {[1 := 1]}]} /\
    m2reach_nk H sC (KA ∪ KB) /\
    mmerge vo2 sA sB = sC /\ mmerge vo2 sB sA = sC /\
    mmerge vo2 sA sB = map2_spec_nk H (KA ∪ KB) /\
    map2_nk_ok H (KA ∪ KB) (mmerge vo2 sA sB) = true /\
    map2_nk_ok H KA sA = true /\
    m2_state_entries sC 7 3 = ∅ /\
    m2_state_parked sC 7 3 = Some ∅ /\
    m2_state_entries sC 7 4 = {[21 := {[1 := 2]}]} /\
    m2_state_entries sC 8 4 = {[20 := {[2 := 2]}]}.
Proof. exact map2_nk_example_closed. Qed.
Print Assumptions C08_map2_nk_parked_remove_example.

(** Map<K, Orswot> WITH key removes and merges, in the fragment the known findings leave: members are added under keys and keys are removed (no nested remove: T3), and every key that some key remove names is updated at most once by each actor ([km_once]: T2 needs two updates of one actor): per-actor delivery suffices for the complete state, also across merges - a key remove that overtakes the updates it observed is
    parked, travels inside merged states, and takes effect at a holder of the updates (closed example) (proofs/MapOrswotKM.v) *)
From Crdt Require Import model.Orswot model.Map spec.System spec.OrswotSpec spec.OrswotSystem spec.MapSpec spec.MapSystem spec.MapOrswotSpec spec.MapOrswotKM proofs.MapOrswotKM proofs.MapOrswotKMCor.
Theorem C08_mapor_km_any_discipline (adm : adm_t (mop oop)) (mg : Prop) (H : list (oprec (mop oop))) (s : cmap orswot) (K : gset nat) :
  mohist_ok_km H -> km_once H -> (forall K i, adm H K i -> adm_per_actor H K i) ->
  reach mnew (mapply orswot_valops) (mmerge orswot_valops) adm mg H s K -> s = mapor_spec_km H K.
Proof. exact (mapor_refine_km_any adm mg H s K). Qed.
Print Assumptions C08_mapor_km_any_discipline.

Theorem C08_mapor_km_parked_key_remove_example :
  exists (H : list (oprec (mop oop))) (sP sM sR sC : cmap orswot) (KP KM KR KC : gset nat),
    mohist_ok_km H /\ km_once H /\ length H = 5%nat /\
    moreach_km H sP KP /\ mdeferred sP = {[ ({[1 := 1]} : gmap N N) := ({[7]} : gset N) ]} /\
    moreach_km H sM KM /\ mdeferred sM = {[ ({[1 := 1]} : gmap N N) := ({[7]} : gset N) ]} /\
    mo_state_entries sM 7 = {[20 := {[2 := 1]}]} /\
    moreach_km H sR KR /\ mo_state_entries sR 7 = {[10 := {[1 := 1]}; 20 := {[2 := 1]}]} /\
    moreach_km H sC KC /\ KC = KR ∪ KM /\
    mmerge orswot_valops sR sM = sC /\ mmerge orswot_valops sM sR = sC /\
    mmerge orswot_valops sR sM = mapor_spec_km H KC /\
    mapor_km_ok H KC (mmerge orswot_valops sM sR) = true /\ mapor_km_ok H KM sM = true /\
    mo_state_entries sC 7 = {[20 := {[2 := 1]}]} /\
    mo_state_entries sC 8 = {[30 := {[1 := 2]}; 31 := {[1 := 3]}]} /\
    mdeferred sC = ∅.
Proof. exact mapor_km_example_closed. Qed.
Print Assumptions C08_mapor_km_parked_key_remove_example.

(** Map<K, Orswot>, EVERY history outside the classes of the known findings T2 and T3 (all commands; a key that some key remove names receives only nested adds [kmn_addonly] and at most one update per actor [km_once]; any other key receives anything): per-actor delivery suffices for the complete state, also across merges; closed example with a parked KEY remove (key 7) and a
    parked NESTED remove (key 8) both travelling inside a merged state (proofs/MapOrswotKMN.v, MapOrswotKMNCor.v) *)
From Crdt Require Import model.Orswot model.Map spec.System spec.OrswotSpec spec.OrswotSystem spec.MapSpec spec.MapSystem spec.MapOrswotSpec spec.MapOrswotKM spec.MapOrswotKMN proofs.MapOrswotKMN proofs.MapOrswotKMNCor.
Theorem C08_mapor_kmn_any_discipline (adm : adm_t (mop oop)) (mg : Prop) (H : list (oprec (mop oop))) (s : cmap orswot) (K : gset nat) :
  mohist_ok_kmn H -> km_once H -> kmn_addonly H -> (forall K i, adm H K i -> adm_per_actor H K i) ->
  reach mnew (mapply orswot_valops) (mmerge orswot_valops) adm mg H s K -> s = mapor_spec_kmn H K.
Proof. exact (mapor_refine_kmn_any adm mg H s K). Qed.
Print Assumptions C08_mapor_kmn_any_discipline.

Theorem C08_mapor_kmn_parked_removes_example :
  exists (H : list (oprec (mop oop))) (sP sQ sM sR sC : cmap orswot) (KP KQ KM KR KC : gset nat),
    mohist_ok_kmn H /\ km_once H /\ kmn_addonly H /\ length H = 5%nat /\
    kmn_named (op_val <$> H) 7 = true /\ kmn_named (op_val <$> H) 8 = false /\
    moreach_kmn H sP KP /\ mdeferred sP = {[ ({[1 := 1]} : gmap N N) := ({[7]} : gset N) ]} /\
    moreach_kmn H sQ KQ /\
    odeferred <$> (eval <$> mentries sQ !! 8) = Some {[ ({[1 := 2]} : gmap N N) := ({[30]} : gset N) ]} /\
    moreach_kmn H sM KM /\ mdeferred sM = {[ ({[1 := 1]} : gmap N N) := ({[7]} : gset N) ]} /\
    odeferred <$> (eval <$> mentries sM !! 8) = Some {[ ({[1 := 2]} : gmap N N) := ({[30]} : gset N) ]} /\
    mo_state_entries sM 7 = {[20 := {[2 := 1]}]} /\
    moreach_kmn H sR KR /\ mo_state_entries sR 7 = {[10 := {[1 := 1]}; 20 := {[2 := 1]}]} /\
    mo_state_entries sR 8 = {[30 := {[1 := 2]}]} /\
    moreach_kmn H sC KC /\ KC = KR ∪ KM /\
    mmerge orswot_valops sR sM = sC /\ mmerge orswot_valops sM sR = sC /\
    mmerge orswot_valops sR sM = mapor_spec_kmn H KC /\
    mapor_kmn_ok H KC (mmerge orswot_valops sM sR) = true /\ mapor_kmn_ok H KM sM = true /\
    mapor_kmn_ok H KQ sQ = true /\
    mo_state_entries sC 7 = {[20 := {[2 := 1]}]} /\
    mo_state_entries sC 8 = ∅ /\
    mdeferred sC = ∅.
Proof. exact mapor_kmn_example_closed. Qed.
Print Assumptions C08_mapor_kmn_parked_removes_example.

(** Map<K, MVReg> (MVReg leaves) WITHOUT key removes, op-based replication (no state merges), per-actor delivery with duplicates: a replica with per-actor (overtaking) delivery holds what a replica with causal delivery of the same ops holds; closed example
    in which a write overtakes the write it observed (proofs/MapMVRegNK.v) *)
From Crdt Require Import model.MVReg model.Map spec.System spec.OrswotSpec spec.OrswotSystem spec.Specs spec.MapSpec spec.MapSystem spec.MapMVRegSpec proofs.MapMVRegNK.
Theorem C08_mapmv_per_actor_equals_causal (H : list (oprec (mop mvop))) :
  mvhist_ok_nk H -> forall (s1 s2 : cmap (list (gmap N N * N))) (K : gset nat), mvreach_nk_causal H s1 K -> mvreach_nk H s2 K ->
    kabs s1 = kabs s2 /\ forall k, mv_state_vals s1 k ≡ₚ mv_state_vals s2 k.
Proof. exact (mapmv_causal_agree_nk H). Qed.
Print Assumptions C08_mapmv_per_actor_equals_causal.

Theorem C08_mapmv_overtaking_write_example :
  exists (H : list (oprec (mop mvop))) (sX2 sX3 sX sY : cmap (list (gmap N N * N))) (K : gset nat),
    H = [OpRec 1 (MUp (Dot 1 1) 7 (MVPut {[1 := 1]} 10)) ∅;
         OpRec 2 (MUp (Dot 2 1) 8 (MVPut {[1 := 1; 2 := 1]} 20)) (∅ ∪ {[0%nat]});
         OpRec 2 (MUp (Dot 2 2) 7 (MVPut {[1 := 1; 2 := 2]} 30)) (∅ ∪ {[0%nat]} ∪ {[1%nat]});
         OpRec 1 (MUp (Dot 1 2) 7 (MVPut {[1 := 2]} 40)) (∅ ∪ {[0%nat]})] /\
    mvhist_ok_nk_causal H /\ mvhist_ok_nk H /\
    ~ adm_causal H ∅ 1%nat /\
    mvreach_nk H sX2 (∅ ∪ {[1%nat]} ∪ {[2%nat]}) /\
    mvreach_nk H sX3 (∅ ∪ {[1%nat]} ∪ {[2%nat]} ∪ {[0%nat]}) /\
    mvreach_nk H sX (∅ ∪ {[1%nat]} ∪ {[2%nat]} ∪ {[0%nat]} ∪ {[3%nat]}) /\
    K = ∅ ∪ {[1%nat]} ∪ {[2%nat]} ∪ {[0%nat]} ∪ {[3%nat]} /\
    mvreach_nk_causal H sY K /\
    mv_state_vals sX2 7 = [({[1 := 1; 2 := 2]}, 30)] /\
    mv_state_vals sX3 7 = [({[1 := 1; 2 := 2]}, 30)] /\
    mv_state_vals sX 7 = [({[1 := 1; 2 := 2]}, 30); ({[1 := 2]}, 40)] /\
    mv_state_vals sY 7 = [({[1 := 1; 2 := 2]}, 30); ({[1 := 2]}, 40)] /\
    mv_state_vals sX 8 = [({[1 := 1; 2 := 1]}, 20)] /\
    rval (mvread (mv_state_vals sX 7)) = [30; 40] /\
    mv_maximal (mv_writes (mv_proj (known_ops H K) 7)) = [({[1 := 1; 2 := 2]}, 30); ({[1 := 2]}, 40)] /\
    mv_maximal (mv_writes (mv_proj (known_ops H (∅ ∪ {[1%nat]} ∪ {[2%nat]})) 7)) = [({[1 := 1; 2 := 2]}, 30)] /\
    mapmv_vals_ok H K sX = true /\ mapmv_vals_ok H K sY = true /\ mkeyspec_ok H K sX = true /\
    kabs sX = kabs sY /\ sX = sY.
Proof. exact mapmv_nk_example. Qed.
Print Assumptions C08_mapmv_overtaking_write_example.
