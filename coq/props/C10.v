(** C10 — VClock is a correct partial order with join, meet and forget.
    This file holds only the property theorems; every proof is [exact lemma]. *)
From Crdt Require Import model.VClock proofs.VClock.
Local Open Scope N_scope.

(** comparison is exactly the pointwise order (missing actors count as 0);
    'concurrent' iff neither side dominates *)
Theorem C10_cmp_pointwise (a b : vclock) : vwf a → vwf b →
  (vcmp a b = Some Eq ↔ ∀ x, vget a x = vget b x) ∧
  (vcmp a b = Some Lt ↔ (∀ x, vget a x <= vget b x) ∧ a ≠ b) ∧
  (vcmp a b = Some Gt ↔ (∀ x, vget b x <= vget a x) ∧ a ≠ b) ∧
  (vcmp a b = None ↔ ¬ (∀ x, vget a x <= vget b x) ∧ ¬ (∀ x, vget b x <= vget a x)).
Proof. exact (c10_cmp_pointwise a b). Qed.
Print Assumptions C10_cmp_pointwise.

(** reflexive, antisymmetric, transitive; concurrent = incomparable *)
Theorem C10_order (a b c : vclock) : vwf a → vwf b → vwf c →
  vle a a = true ∧
  (vle a b = true → vle b a = true → a = b) ∧
  (vle a b = true → vle b c = true → vle a c = true) ∧
  (vconcurrent a b = true ↔ vle a b = false ∧ vle b a = false).
Proof. exact (c10_order a b c). Qed.
Print Assumptions C10_order.

(** merge is the least upper bound *)
Theorem C10_merge_lub (a b c : vclock) : vwf a → vwf b → vwf c →
  vwf (vmerge a b) ∧ vle a (vmerge a b) = true ∧ vle b (vmerge a b) = true ∧
  (vle a c = true → vle b c = true → vle (vmerge a b) c = true) ∧
  (∀ x, vget (vmerge a b) x = N.max (vget a x) (vget b x)).
Proof. exact (c10_lub a b c). Qed.
Print Assumptions C10_merge_lub.

(** glb is the greatest lower bound *)
Theorem C10_glb (a b c : vclock) : vwf a → vwf b → vwf c →
  vwf (vglb a b) ∧ vle (vglb a b) a = true ∧ vle (vglb a b) b = true ∧
  (vle c a = true → vle c b = true → vle c (vglb a b) = true) ∧
  (∀ x, vget (vglb a b) x = N.min (vget a x) (vget b x)).
Proof. exact (c10_glb a b c). Qed.
Print Assumptions C10_glb.

(** apply / inc are monotone; inc is the actor's next counter *)
Theorem C10_apply_inc (c : vclock) (d : dot) (a : N) : vwf c →
  vwf (vapply c d) ∧ vle c (vapply c d) = true ∧
  (∀ x, vget (vapply c d) x = if decide (x = dactor d) then N.max (vget c x) (dcounter d) else vget c x) ∧
  vinc c a = Dot a (vget c a + 1) ∧
  (∀ x, vget (vapply c (vinc c a)) x = if decide (x = a) then vget c a + 1 else vget c x).
Proof. exact (c10_apply_inc c d a). Qed.
Print Assumptions C10_apply_inc.

(** reset_remove(c) keeps exactly the entries strictly newer than c *)
Theorem C10_reset_remove (a c : vclock) : vwf a →
  vwf (vreset a c) ∧
  (∀ x, vget (vreset a c) x = if vget a x <=? vget c x then 0 else vget a x).
Proof. exact (c10_reset a c). Qed.
Print Assumptions C10_reset_remove.

(** intersection keeps exactly the equal entries *)
Theorem C10_intersection (l r : vclock) : vwf l →
  vwf (vintersection l r) ∧
  (∀ x, vget (vintersection l r) x = if vget l x =? vget r x then vget l x else 0).
Proof. exact (c10_intersection l r). Qed.
Print Assumptions C10_intersection.

(** validate_op accepts a dot iff it does not skip a counter; the reported
    range is the skipped one *)
Theorem C10_validate_op (c : vclock) (d : dot) :
  (vvalidate_op c d = None ↔ dcounter d <= vget c (dactor d) + 1) ∧
  (∀ r, vvalidate_op c d = Some r → r = (dactor d, vget c (dactor d) + 1, dcounter d)).
Proof. exact (c10_validate_op c d). Qed.
Print Assumptions C10_validate_op.

(** Dot comparison: same actor only *)
Theorem C10_dot_cmp (a b : dot) :
  dcmp a b = if decide (dactor a = dactor b) then Some (dcounter a ?= dcounter b) else None.
Proof. exact (dcmp_spec a b). Qed.
Print Assumptions C10_dot_cmp.

(** no API call stores a zero counter *)
Theorem C10_no_zero (a b : vclock) (d : dot) (ds : list dot) :
  vwf (∅ : vclock) ∧ vwf (vfrom_dot d) ∧ vwf (vfrom_iter ds) ∧
  (vwf a → vwf (vapply a d)) ∧ (vwf a → vwf b → vwf (vmerge a b)) ∧
  vwf (vglb a b) ∧ (vwf a → vwf (vreset a b)) ∧ (vwf a → vwf (vclone_without a b)) ∧
  (vwf a → vwf (vintersection a b)).
Proof. exact (c10_no_zero a b d ds). Qed.
Print Assumptions C10_no_zero.

(** why [vwf] is a hypothesis: a clock holding a stored zero (only
    constructible through the public field) compares wrongly *)
Theorem C10_zero_refuted :
  let a : vclock := {[ 1 := 0 ]} in let b : vclock := ∅ in
  (∀ x, vget a x = vget b x) ∧ vcmp a b = Some Gt.
Proof. exact c10_zero_witness. Qed.
Print Assumptions C10_zero_refuted.

(** the hypotheses are satisfiable *)
Theorem C10_nonvacuous :
  let a : vclock := {[ 1 := 2; 2 := 1 ]} in let b : vclock := {[ 1 := 1; 3 := 4 ]} in
  vwf a ∧ vwf b ∧ vcmp a b = None ∧ vcmp a (vmerge a b) = Some Lt ∧
  vcmp (vmerge a b) b = Some Gt ∧ vcmp (vglb a b) {[ 1 := 1 ]} = Some Eq.
Proof. exact c10_examples. Qed.
Print Assumptions C10_nonvacuous.
