(** C07 — read contexts are exact causal witnesses and derived dots are fresh.
    Only property theorems; every proof is [exact lemma].  (Top-level replicas:
    Orswot, MVReg, Map; List and the other types hand out no ReadCtx.) *)
From stdpp Require Import gmap.
From Crdt Require Import model.VClock model.Orswot model.MVReg model.Map
  spec.System spec.OrswotSpec spec.OrswotSystem spec.MVRegSystem
  proofs.VClock proofs.OrswotLayer proofs.OrswotL1 proofs.OrswotSystem proofs.MVRegHb proofs.MVReg proofs.MapFacts.
Local Open Scope N_scope.

(** Orswot: every read entry point carries add_clock = the replica clock = per
    actor the greatest add dot applied; the remove context of a member never
    exceeds it; the dot derived for the replica's own actor is its next unused
    one (no op of the history carries it) *)
Theorem C07_orswot_contexts H (Hok : ohist_ok H) s K a m : oreach H s K →
  vwf (add_clock (oread s)) ∧
  add_clock (oread s) = add_clock (ocontains s m) ∧ add_clock (oread s) = add_clock (oread_ctx s) ∧
  rm_clock (oread s) = add_clock (oread s) ∧
  (∀ b, vget (add_clock (oread s)) b = max_ctr (fst <$> adds_of (known_ops H K)) b) ∧
  (∀ b, vget (rm_clock (ocontains s m)) b <= vget (add_clock (oread s)) b) ∧
  (own_known H a K →
     let d := ac_dot (derive_add_ctx (oread_ctx s) a) in
     dactor d = a ∧ dcounter d = N.of_nat (add_cnt H a (length H)) + 1 ∧
     ∀ j r ms, H !! j = Some r → op_val r ≠ OAdd d ms).
Proof. exact (orswot_contexts H Hok s K a m). Qed.
Print Assumptions C07_orswot_contexts.

(** ... and the remove context of a member covers exactly its surviving
    witnesses (empty iff absent), so an op built from it cannot affect anything
    the reader had not seen *)
Theorem C07_orswot_rm_context_exact H (Hok : ohist_ok H) s K m : oreach H s K →
  rm_clock (ocontains s m) = ospec_entry (known_ops H K) m ∧
  (∀ b, vget (rm_clock (ocontains s m)) b = max_ctr (live_dots (known_ops H K) m) b) ∧
  (rval (ocontains s m) = true ↔ m ∈ rval (oread s)) ∧
  (rm_clock (ocontains s m) = ∅ ↔ m ∉ rval (oread s)).
Proof. exact (λ Hr, proj2 (orswot_c04 H Hok s K m Hr)). Qed.
Print Assumptions C07_orswot_rm_context_exact.

(** MVReg: the context of every read is the join of all applied write clocks;
    a write built from it gets a clock that strictly dominates every applied
    write (so it is never mistaken for an earlier one: distinct writes have
    distinct clocks) and extends the history well-formedly *)
Theorem C07_mvreg_contexts H s K a v o : mvhist_ok H → mvreach H s K →
  (add_clock (mvread s) = deps_clock H K ∧ rm_clock (mvread s) = deps_clock H K ∧
   add_clock (mvread_ctx s) = deps_clock H K) ∧
  (mvgen s a (CWrite v) = Some o → ∀ j, j ∈ K → vlt (hclock H j) (mvop_clock o) = true) ∧
  (∀ i j, is_Some (H !! i) → is_Some (H !! j) → hclock H i = hclock H j → i = j).
Proof.
  exact (λ Hok Hr, conj (mv_read_ctx_clock H s K (mv_hist_ok_wf H Hok) Hr)
                  (conj (λ Hg, proj2 (proj2 (mv_write_after_read_reach H s K a v o (mv_hist_ok_wf H Hok) Hr Hg)))
                        (hclock_inj H (mv_hist_ok_wf H Hok)))).
Qed.
Print Assumptions C07_mvreg_contexts.

(** Map (generic in the nested type, every nesting depth), on every state
    reachable by well-formed ops and merges: all read entry points carry the map
    clock as add context; get/keys/values/iter carry the entry clock as remove
    context, empty iff the key is absent, never exceeding the add context; the
    derived dot is the actor's next counter and the update built from it is
    applied (not mistaken for an earlier one) *)
Theorem C07_map_contexts {V O E} (vo : valops V O E) (s : cmap V) k : mreach vo s →
  (add_clock (mget s k) = mclock s ∧ add_clock (mread_ctx s) = mclock s ∧ add_clock (mlen s) = mclock s ∧
   add_clock (mis_empty s) = mclock s ∧ rm_clock (mread_ctx s) = mclock s ∧ rm_clock (mlen s) = mclock s ∧
   rm_clock (mis_empty s) = mclock s) ∧
  ((rm_clock (mget s k) = ∅ ↔ rval (mget s k) = None) ∧ vwf (rm_clock (mget s k)) ∧
   vleq (rm_clock (mget s k)) (add_clock (mget s k))) ∧
  (∀ r, r ∈ miter s →
     add_clock r = add_clock (mget s (rval r).1) ∧ rm_clock r = rm_clock (mget s (rval r).1) ∧
     rval (mget s (rval r).1) = Some (rval r).2 ∧ add_clock r = mclock s ∧ rm_clock r ≠ ∅ ∧
     vleq (rm_clock r) (add_clock r)).
Proof.
  exact (λ Hr, conj (mread_add_clocks s k)
              (conj (mget_ctx s k (minv_weaken s (mreach_minv vo s Hr)))
                    (λ r, miter_ctx s r (minv_weaken s (mreach_minv vo s Hr))))).
Qed.
Print Assumptions C07_map_contexts.

Theorem C07_map_fresh_dot {V O E} (vo : valops V O E) (s : cmap V) a k (f : V → addctx → O) :
  let ctx := derive_add_ctx (mread_ctx s) a in
  let d := ac_dot ctx in
  let s' := mapply vo s (mupdate vo s k ctx f) in
  dactor d = a ∧ dcounter d = vget (mclock s) a + 1 ∧
  (dcounter d <=? vget (mclock s) (dactor d)) = false ∧
  mclock s' = ac_clock ctx ∧ vget (mclock s') a = dcounter d ∧
  (∀ x, x ≠ a → vget (mclock s') x = vget (mclock s) x).
Proof.
  exact (conj (proj1 (derive_add_ctx_fresh s a))
        (conj (proj1 (proj2 (derive_add_ctx_fresh s a)))
        (conj (proj1 (mupdate_fresh_applies vo s a k f))
              (proj2 (proj2 (mupdate_fresh_applies vo s a k f)))))).
Qed.
Print Assumptions C07_map_fresh_dot.

From Crdt Require Import model.Map spec.System spec.OrswotSpec spec.OrswotSystem spec.MapSpec spec.MapSystem proofs.OrswotSystem proofs.MapKeys.

(** Map (top level, any nested value type): the remove context [get] hands out for a key is
    exactly the clock of the key's surviving witnesses (empty iff absent), for every state
    reachable by per-actor delivery, duplicates and merges of API-generated ops *)
Theorem C07_map_get_context_exact {V O E} (vo : valops V O E) (H : list (oprec (mop O))) :
  owfH (habs H) ->
  forall (s : cmap V) (K : gset nat) (k : N), mapreach vo H s K ->
    (k ∈ dom (mentries s) <-> exists d : dot, d ∈ mlive_dots (known_ops H K) k)
    /\ (k ∈ dom (mentries s) <->
        exists (d : dot) (o : O), MUp d k o ∈ known_ops H K
          /\ ~ exists (c : gmap N N) (ks : gset N), MRm c ks ∈ known_ops H K /\ k ∈ ks /\ dcounter d <= vget c (dactor d))
    /\ rm_clock (mget s k) = mspec_entry_clock (known_ops H K) k
    /\ (is_Some (rval (mget s k)) <-> k ∈ dom (mentries s)).
Proof. exact (map_key_present_iff vo H). Qed.
Print Assumptions C07_map_get_context_exact.

(** Map: the dot derived for the replica's own actor is its next unused one *)
Theorem C07_map_derived_dot_fresh {V O E} (vo : valops V O E) (H : list (oprec (mop O))) :
  maphist_ok vo H ->
  forall (s : cmap V) (K : gset nat) (a : N), mapreach vo H s K -> own_known H a K ->
    let d := ac_dot (derive_add_ctx (mread_ctx s) a) in
    dactor d = a /\ dcounter d = vget (mclock s) a + 1
    /\ (forall (j : nat) (r : oprec (mop O)) (k : N) (o : O), H !! j = Some r -> op_val r <> MUp d k o).
Proof. exact (map_update_dot_fresh vo H). Qed.
Print Assumptions C07_map_derived_dot_fresh.
