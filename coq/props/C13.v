(** C13 — List and GList edits land at the requested index (sequential-list
    model).  Only property theorems; every proof is [exact lemma].

    [linv s] / [ginv g]: the representation invariant (strictly sorted by
    identifier, no empty identifier); it holds for the empty structure and is
    preserved by applying ANY op (from any replica, in any order), so the
    theorems speak about every reachable state, including after remote ops.
    [insert_at i x l] / [remove_at i l] are the Vec operations. *)
From stdpp Require Import gmap.
From Crdt Require Import model.List proofs.Identifier proofs.ListIndex.

Theorem C13_invariant_reachable :
  linv l_new ∧ (∀ s o s', linv s → l_apply s o = Some s' → linv s') ∧
  ginv [] ∧ (∀ g id, ginv g → id ≠ [] → ginv (gl_apply g id)) ∧
  (∀ g o, ginv g → ginv o → ginv (gl_merge g o)) ∧
  (∀ g ix x id, gl_insert g ix x = Some id → id ≠ []).
Proof.
  exact (conj linv_new (conj linv_apply (conj ginv_new (conj ginv_apply (conj ginv_merge gl_insert_nonempty))))).
Qed.
Print Assumptions C13_invariant_reachable.

(** insert_index(i, x): x becomes the i-th element (appended when i exceeds the
    length); all other elements keep their relative order *)
Theorem C13_list_insert s ix v a : linv s →
  ∃ s', l_apply s (l_insert_index s ix v a) = Some s' ∧ linv s' ∧
        l_read s' = insert_at (ix `min` length (l_read s)) v (l_read s) ∧
        lclock s' = vapply (lclock s) (vinc (lclock s) a).
Proof. exact (l_insert_index_spec s ix v a). Qed.
Print Assumptions C13_list_insert.

Theorem C13_list_append s v a : linv s →
  ∃ s', l_apply s (l_append s v a) = Some s' ∧ linv s' ∧ l_read s' = l_read s ++ [v] ∧
        lclock s' = vapply (lclock s) (vinc (lclock s) a).
Proof. exact (l_append_spec s v a). Qed.
Print Assumptions C13_list_append.

(** delete_index(i) removes exactly the element that was i-th; None iff out of range *)
Theorem C13_list_delete s ix a :
  (l_delete_index s ix a = None ↔ (length (l_read s) <= ix)%nat) ∧
  (∀ op, linv s → l_delete_index s ix a = Some op →
     ∃ s', l_apply s op = Some s' ∧ linv s' ∧ l_read s' = remove_at ix (l_read s) ∧
           lclock s' = vapply (lclock s) (vinc (lclock s) a)).
Proof. exact (conj (l_delete_index_None s ix a) (l_delete_index_spec s ix a)). Qed.
Print Assumptions C13_list_delete.

Theorem C13_list_position s ix : l_position s ix = l_read s !! ix.
Proof. exact (l_position_spec s ix). Qed.
Print Assumptions C13_list_position.

(** GList insert(i, x) places x at index i (the assert!(i <= len) is None) *)
Theorem C13_glist_insert g l ix x :
  (gl_insert g ix x = None ↔ (length g < ix)%nat) ∧
  (ginv g → gl_read g = Some l → (ix <= length g)%nat →
   ∃ id, gl_insert g ix x = Some id ∧ id ≠ [] ∧ id ∉ g ∧
         gl_apply g id = insert_at ix id g ∧ gl_read (gl_apply g id) = Some (insert_at ix x l)).
Proof. exact (conj (gl_insert_None g ix x) (gl_insert_spec g l ix x)). Qed.
Print Assumptions C13_glist_insert.

(** insert_after(Some(id), x) / insert_before(Some(id), x): immediately after /
    before the identified element *)
Theorem C13_glist_insert_after g l k id x : ginv g → gl_read g = Some l → g !! k = Some id →
  let new := gl_insert_after g (Some id) x in
  new ∉ g ∧ gl_apply g new = insert_at (S k) new g ∧ gl_read (gl_apply g new) = Some (insert_at (S k) x l).
Proof. exact (gl_insert_after_spec g l k id x). Qed.
Print Assumptions C13_glist_insert_after.

Theorem C13_glist_insert_before g l k id x : ginv g → gl_read g = Some l → g !! k = Some id →
  let new := gl_insert_before g (Some id) x in
  new ∉ g ∧ gl_apply g new = insert_at k new g ∧ gl_read (gl_apply g new) = Some (insert_at k x l).
Proof. exact (gl_insert_before_spec g l k id x). Qed.
Print Assumptions C13_glist_insert_before.

From Crdt Require Import proofs.ListReads.

(** the other read entry points see the same sequence: [iter_entries], [is_empty], [first],
    [last]; [position_entry] / [get] find an element by its identifier where [position] reads it *)
Theorem C13_list_reads_agree (s : clist) :
  snd <$> l_iter_entries s = l_read s ∧ (l_is_empty s = true ↔ l_read s = []) ∧
  l_first s = head (l_read s) ∧ l_last s = last (l_read s).
Proof. exact (conj (l_iter_entries_read s) (conj (l_is_empty_spec s) (conj (l_first_spec s) (l_last_spec s)))). Qed.
Print Assumptions C13_list_reads_agree.

Theorem C13_list_position_entry (s : clist) id i : l_position_entry s id = Some i →
  ∃ v, lseq s !! i = Some (id, v) ∧ l_get s id = Some v ∧ l_position s i = Some v.
Proof. exact (l_position_entry_Some s id i). Qed.
Print Assumptions C13_list_position_entry.

Theorem C13_list_get_at_index (s : clist) i id v : NoDup (lseq s).*1 → lseq s !! i = Some (id, v) →
  l_get s id = Some v ∧ l_position_entry s id = Some i.
Proof. exact (l_get_lookup s i id v). Qed.
Print Assumptions C13_list_get_at_index.

Theorem C13_list_absent_identifier (s : clist) id :
  (l_get s id = None ↔ id ∉ (lseq s).*1) ∧ (l_position_entry s id = None ↔ id ∉ (lseq s).*1).
Proof. exact (conj (l_get_None s id) (l_position_entry_None s id)). Qed.
Print Assumptions C13_list_absent_identifier.

Theorem C13_glist_ends g : gl_first g = gl_get g 0 ∧ gl_last g = gl_get g (pred (length g)) ∧ (gl_is_empty g = true ↔ g = []).
Proof. exact (conj (gl_first_spec g) (conj (gl_last_spec g) (gl_is_empty_spec g))). Qed.
Print Assumptions C13_glist_ends.
