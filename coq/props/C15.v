(** C15 — MerkleReg state is a function of the node set; reads are the DAG
    heads.  Only property theorems; every proof is [exact lemma].
    [hash] is any injective content-address function (SHA3-256 in the crate:
    collision-freedom is the assumption, stated as a premise, no axiom). *)
From Crdt Require Import model.Merkle proofs.MerkleInv proofs.Merkle.

Notation apply_all hash ns :=
  (foldl (λ (acc : option merkle) (n : mnode), acc ≫= (λ s, mk_apply hash s n)) (Some mk_new) ns).

(** whatever the order and duplication in which nodes arrive, the register is
    [spec_state] of the set of nodes received (visible dag = received nodes all
    of whose ancestors were received; orphans = the rest; roots = heads); the
    recursion never runs out of fuel *)
Theorem C15_function_of_node_set (hash : mnode → N) :
  (∀ n1 n2, hash n1 = hash n2 → n1 = n2) →
  ∀ ns : list mnode, apply_all hash ns = Some (spec_state (R_of hash ns)).
Proof. exact (mk_apply_all_spec hash). Qed.
Print Assumptions C15_function_of_node_set.

Theorem C15_order_and_duplicates_irrelevant (hash : mnode → N) :
  (∀ n1 n2, hash n1 = hash n2 → n1 = n2) →
  ∀ ns ns' : list mnode, (∀ n, n ∈ ns ↔ n ∈ ns') → apply_all hash ns = apply_all hash ns'.
Proof. exact (mk_apply_all_order hash). Qed.
Print Assumptions C15_order_and_duplicates_irrelevant.

(** [Inv s R]: [s] is a register that has received exactly the node set [R];
    it holds initially and is preserved by apply and merge; it determines [s] *)
Theorem C15_invariant (hash : mnode → N) :
  (∀ n1 n2, hash n1 = hash n2 → n1 = n2) →
  Inv hash mk_new ∅ ∧
  (∀ s R n, Inv hash s R → ∃ s', mk_apply hash s n = Some s' ∧ Inv hash s' (<[hash n := n]> R)) ∧
  (∀ s1 s2 R1 R2, Inv hash s1 R1 → Inv hash s2 R2 →
     ∃ s', mk_merge hash s1 s2 = Some s' ∧ Inv hash s' (R1 ∪ R2)) ∧
  (∀ s R, Inv hash s R ↔ keyed hash R ∧ s = spec_state R).
Proof.
  exact (λ hi, conj (Inv_new hash) (conj (Inv_apply hash hi) (conj (Inv_merge hash hi) (Inv_iff hash hi)))).
Qed.
Print Assumptions C15_invariant.

(** merge = having received the union; commutative, associative, idempotent *)
Theorem C15_merge (hash : mnode → N) :
  (∀ n1 n2, hash n1 = hash n2 → n1 = n2) →
  ∀ s1 s2 s3 R1 R2 R3, Inv hash s1 R1 → Inv hash s2 R2 → Inv hash s3 R3 →
    mk_merge hash s1 s2 = Some (spec_state (R1 ∪ R2)) ∧
    mk_merge hash s1 s2 = mk_merge hash s2 s1 ∧
    (mk_merge hash s1 s2 ≫= λ s12, mk_merge hash s12 s3) = (mk_merge hash s2 s3 ≫= λ s23, mk_merge hash s1 s23) ∧
    mk_merge hash s1 s1 = Some s1.
Proof.
  exact (λ hi s1 s2 s3 R1 R2 R3 i1 i2 i3,
           conj (mk_merge_spec hash hi s1 s2 R1 R2 i1 i2)
          (conj (mk_merge_comm hash hi s1 s2 R1 R2 i1 i2)
          (conj (mk_merge_assoc hash hi s1 s2 s3 R1 R2 R3 i1 i2 i3)
                (mk_merge_idemp hash hi s1 R1 i1)))).
Qed.
Print Assumptions C15_merge.

Theorem C15_merge_is_union_of_arrivals (hash : mnode → N) :
  (∀ n1 n2, hash n1 = hash n2 → n1 = n2) →
  ∀ ns1 ns2 s1 s2, apply_all hash ns1 = Some s1 → apply_all hash ns2 = Some s2 →
    mk_merge hash s1 s2 = apply_all hash (ns1 ++ ns2).
Proof. exact (mk_merge_apply_all hash). Qed.
Print Assumptions C15_merge_is_union_of_arrivals.

(** the visible DAG is exactly the received nodes all of whose ancestors have
    been received; the others stay invisible as orphans; read() returns exactly
    the visible nodes that no visible node lists as a child *)
Theorem C15_reads (hash : mnode → N) (s : merkle) (R : gmap N mnode) :
  Inv hash s R →
  (∀ h n, mk_dag s !! h = Some n ↔ R !! h = Some n ∧ visible R h) ∧
  (∀ h n, mk_orphans s !! h = Some n ↔ R !! h = Some n ∧ ¬ visible R h) ∧
  (∀ h n, mk_read s !! h = Some n ↔
          R !! h = Some n ∧ visible R h ∧
          ∀ h' n', R !! h' = Some n' → visible R h' → h ∉ nchildren n') ∧
  (∀ h, mk_node s h = R !! h) ∧
  mk_num_nodes s = size (vis_set R) ∧
  mk_num_orphans s = (size R - size (vis_set R))%nat.
Proof.
  exact (λ i, conj (λ h n, Inv_dag_lookup hash s R h n i)
             (conj (λ h n, Inv_orphans_lookup hash s R h n i)
             (conj (λ h n, mk_read_lookup hash s R h n i)
             (conj (λ h, mk_node_spec hash s R h i)
             (conj (mk_num_nodes_spec hash s R i) (mk_num_orphans_spec hash s R i)))))).
Qed.
Print Assumptions C15_reads.

(** [visible] is computable: the monitor evaluates [vis_set] on the
    implementation's states *)
Theorem C15_vis_set (R : gmap N mnode) (h : N) : h ∈ vis_set R ↔ visible R h.
Proof. exact (elem_of_vis_set R h). Qed.
Print Assumptions C15_vis_set.

(** orphans surface exactly when the gap closes *)
Theorem C15_gap_closing (hash : mnode → N) :
  (∀ n1 n2, hash n1 = hash n2 → n1 = n2) →
  ∀ s R n s' h, Inv hash s R → mk_apply hash s n = Some s' →
    (is_Some (mk_dag s' !! h) ↔
     ∃ m, <[hash n := n]> R !! h = Some m ∧ ∀ c, c ∈ nchildren m → visible (<[hash n := n]> R) c).
Proof. exact (gap_closing hash). Qed.
Print Assumptions C15_gap_closing.

(** validate_op is Ok iff every child is visible *)
Theorem C15_validate_op (hash : mnode → N) :
  (∀ n1 n2, hash n1 = hash n2 → n1 = n2) →
  ∀ s R n, Inv hash s R → (mk_missing s n = ∅ ↔ ∀ c, c ∈ nchildren n → visible R c).
Proof. exact (mk_missing_empty hash). Qed.
Print Assumptions C15_validate_op.

(** writing on top of the heads read replaces them (the new node must not be
    referenced by a node received earlier: true of a one-way hash, needed for an
    arbitrary injective one — see examples.write_on_heads_needs_unreferenced) *)
Theorem C15_write_on_heads (hash : mnode → N) :
  (∀ n1 n2, hash n1 = hash n2 → n1 = n2) →
  ∀ s R v, let n := MNode (dom (mk_read s)) v in
    Inv hash s R → R !! hash n = None →
    (∀ h' m, R !! h' = Some m → hash n ∉ nchildren m) →
    ∃ s', mk_apply hash s n = Some s' ∧ mk_read s' = {[hash n := n]}.
Proof. exact (write_on_heads hash). Qed.
Print Assumptions C15_write_on_heads.

(** an injective content address exists (so the premises are satisfiable), and
    a concrete run: c arrives as an orphan, surfaces when b arrives *)
Theorem C15_nonvacuous :
  (∀ n1 n2, enc_hash n1 = enc_hash n2 → n1 = n2) ∧
  examples.run [examples.c; examples.a] =
    Some (Merkle {[enc_hash examples.a]} {[enc_hash examples.a := examples.a]} {[enc_hash examples.c := examples.c]}).
Proof. exact (conj enc_hash_inj (proj1 examples.orphan_then_resolved)). Qed.
Print Assumptions C15_nonvacuous.
