(** C04 — Orswot is an observed-remove, add-wins set.  Only property theorems;
    every proof is [exact lemma].

    [ohist_ok H]: every op of history [H] was generated through the API
    (add / add_all / rm / rm_all with contexts derived from reads) at a replica
    that had applied all earlier ops of the same actor.
    [oreach H s K]: some replica is in state [s] after learning exactly the ops
    [K] of [H], through any interleaving of op deliveries that keep each
    actor's ops in issue order (duplicates allowed) and merges with other
    reachable states (any number of replicas, snapshots, stale peers). *)
From stdpp Require Import gmap.
From Crdt Require Import model.Orswot spec.System spec.OrswotSpec spec.OrswotSystem
  proofs.OrswotLayer proofs.OrswotL1 proofs.OrswotL2 proofs.OrswotSystem.
Local Open Scope N_scope.

(** the state of every replica is the specification of what it has learned:
    clock, members with their witnesses, and pending removes *)
Theorem C04_state_is_spec H s K : ohist_ok H → oreach H s K → s = ospec H K.
Proof. exact (λ Hok Hr, proj1 (orswot_reach_spec H s K (ohist_ok_wf H Hok) Hr)). Qed.
Print Assumptions C04_state_is_spec.

(** a member is in the set exactly when the replica has applied an add of it
    that is not covered by the context of any remove of that member it has
    applied; the context returned for a member is exactly its surviving add
    witnesses (per actor the greatest), empty iff the member is absent *)
Theorem C04_observed_remove H (Hok : ohist_ok H) s K m : oreach H s K →
  (m ∈ rval (oread s) ↔
     ∃ d ms, OAdd d ms ∈ known_ops H K ∧ m ∈ ms ∧
             ¬ ∃ c ms', ORm c ms' ∈ known_ops H K ∧ m ∈ ms' ∧ dcounter d <= vget c (dactor d)) ∧
  rm_clock (ocontains s m) = ospec_entry (known_ops H K) m ∧
  (∀ b, vget (rm_clock (ocontains s m)) b = max_ctr (live_dots (known_ops H K) m) b) ∧
  (rval (ocontains s m) = true ↔ m ∈ rval (oread s)) ∧
  (rm_clock (ocontains s m) = ∅ ↔ m ∉ rval (oread s)).
Proof. exact (orswot_c04 H Hok s K m). Qed.
Print Assumptions C04_observed_remove.

(** the two refinement steps, for every knowledge set closed under each
    actor's issue order: applying an op, merging two states *)
Theorem C04_apply_refines H K i r :
  owfH H → ovalid H K → adm_per_actor H K i → H !! i = Some r →
  oapply (ospec H K) (op_val r) = ospec H (K ∪ {[i]}).
Proof. exact (orswot_L1 H K i r). Qed.
Print Assumptions C04_apply_refines.

Theorem C04_merge_refines H K1 K2 :
  owfH H → ovalid H K1 → ovalid H K2 →
  omerge (ospec H K1) (ospec H K2) = ospec H (K1 ∪ K2).
Proof. exact (orswot_L2 H K1 K2). Qed.
Print Assumptions C04_merge_refines.

(** API-generated histories are structurally well-formed (the k-th add of an
    actor carries the dot (actor,k); remove contexts store no zero) *)
Theorem C04_api_histories_wf H : ohist_ok H → owfH H.
Proof. exact (ohist_ok_wf H). Qed.
Print Assumptions C04_api_histories_wf.

(** the monitor's decider is the sentence above *)
Theorem C04_decider H K m : owfH H → (c04_member H K m = true ↔ m ∈ rval (oread (ospec H K))).
Proof. exact (c04_member_read H K m). Qed.
Print Assumptions C04_decider.

(** non-vacuity: a two-replica history with a concurrent add and remove (add wins) *)
Theorem C04_nonvacuous :
  let H := [OpRec 1 (OAdd (Dot 1 1) [7]) ∅;
            OpRec 2 (ORm {[1 := 1]} [7]) {[0%nat]};
            OpRec 1 (OAdd (Dot 1 2) [7]) {[0%nat]}] in
  owfH H ∧ rval (oread (ospec H {[0%nat; 1%nat; 2%nat]})) = {[7]} ∧
  rval (oread (ospec H {[0%nat; 1%nat]})) = ∅.
Proof. exact c04_example. Qed.
Print Assumptions C04_nonvacuous.
