(** C05 - Map keys are observed-remove; removing a key resets only what was
    seen.  Only property theorems; every proof is [exact lemma].

    The property is REFUTED on the unchanged crate by three independent
    mechanisms (known findings T1, T2, T3 of KNOWN_FINDINGS.json): the witnesses
    below are API-generated histories evaluated on the faithful model (and
    replayed on the implementation by the check).  What IS universally true of
    Map - the structural invariant of every reachable state, the dedup gate, the
    clock laws, the read contexts - is proved in full, generically in the nested
    value type (hence at every nesting depth).  The declarative "key present iff
    an applied update is not covered by an applied remove, value = the surviving
    nested updates" is NOT proved for any fragment: it stays a monitored claim
    (the monitor compares reads with the canonical causal replay and classifies
    every disagreement against T1-T3). *)
From stdpp Require Import gmap.
From Crdt Require Import model.Orswot model.MVReg model.Map proofs.VClock proofs.MapFacts proofs.MapRefuted.
Local Open Scope N_scope.

(** T1: a value written after seeing another key's update survives the removal of its key under one causal order and not under another / under merge *)
Theorem C05_map_mvreg_context_refuted_witness :
  let s0 := mnew in
         let opA := upd_mv s0 3 1 7 in
         let r2 := mv_apply s0 opA in
         let opB := upd_mv r2 2 0 1 in
         let r2' := mv_apply r2 opB in
         let opC := upd_mv s0 1 0 5 in
         let opD := rm_key mvop r2' 0 in
         let deliver := foldl mv_apply s0 in
         let x := deliver [opA; opB; opC; opD] in
         let y := deliver [opA; opB; opD; opC] in
         let z := mv_merge (deliver [opA; opB; opD]) (deliver [opC]) in
         opA = MUp {| dactor := 3; dcounter := 1 |} 1 (MVPut {[3 := 1]} 7)
         ∧ opB = MUp {| dactor := 2; dcounter := 1 |} 0 (MVPut {[3 := 1; 2 := 1]} 1)
           ∧ opC = MUp {| dactor := 1; dcounter := 1 |} 0 (MVPut {[1 := 1]} 5)
             ∧ opD = MRm {[2 := 1]} {[0]}
               ∧ read_mv x 0 = Some [1; 5]
                 ∧ read_mv y 0 = Some [5] ∧ read_mv z 0 = Some [5] ∧ x ≠ y ∧ x ≠ z.
Proof. exact map_T1_order_refuted. Qed.
Print Assumptions C05_map_mvreg_context_refuted_witness.

(** T2: everything the remover had seen under the key is NOT gone at every replica: it comes back through a merge *)
Theorem C05_map_resurrection_refuted_witness :
  let s0 := mnew in
         let op1 := upd_or_add s0 2 0 8 in
         let a1 := or_apply s0 op1 in
         let op2 := upd_or_add a1 2 0 9 in
         let a2 := or_apply a1 op2 in
         let p1 := or_apply s0 op1 in
         let op3 := rm_key oop p1 0 in
         let p2 := or_apply p1 op3 in
         op1 = MUp {| dactor := 2; dcounter := 1 |} 0 (OAdd {| dactor := 2; dcounter := 1 |} [8])
         ∧ op2 = MUp {| dactor := 2; dcounter := 2 |} 0 (OAdd {| dactor := 2; dcounter := 2 |} [9])
           ∧ op3 = MRm {[2 := 1]} {[0]}
             ∧ read_or p1 0 = Some [8]
               ∧ read_or p2 0 = None
                 ∧ contains_or (or_merge p2 a2) 0 8 = true
                   ∧ contains_or (or_merge a2 p2) 0 8 = true
                     ∧ read_or (or_apply p2 op2) 0 = Some [9]
                       ∧ read_or (or_apply a2 op3) 0 = Some [9] ∧ or_merge p2 a2 ≠ or_apply p2 op2.
Proof. exact map_T2_resurrection_refuted. Qed.
Print Assumptions C05_map_resurrection_refuted_witness.

(** T3: an update carrying a nested remove racing with a key remove leaves a pending nested remove at one replica only *)
Theorem C05_map_nested_remove_refuted_witness :
  let s0 := mnew in
         let op0 := upd_or_add s0 0 0 2 in
         let r0 := or_apply s0 op0 in
         let op1 := upd_or_add r0 0 1 0 in
         let r0' := or_apply r0 op1 in
         let r1 := or_apply s0 op0 in
         let op2 := upd_or_rm r1 1 0 2 in
         let op3 := rm_key_all oop r0' 0 in
         let op3' := rm_key oop r0' 0 in
         let deliver := foldl or_apply s0 in
         let x := deliver [op0; op1; op3; op2] in
         let y := deliver [op0; op1; op2; op3] in
         let x' := deliver [op0; op1; op3'; op2] in
         let y' := deliver [op0; op1; op2; op3'] in
         op0 = MUp {| dactor := 0; dcounter := 1 |} 0 (OAdd {| dactor := 0; dcounter := 1 |} [2])
         ∧ op1 = MUp {| dactor := 0; dcounter := 2 |} 1 (OAdd {| dactor := 0; dcounter := 2 |} [0])
           ∧ op2 = MUp {| dactor := 1; dcounter := 1 |} 0 (ORm {[0 := 1]} [2])
             ∧ op3 = MRm {[0 := 2]} {[0]}
               ∧ op3' = MRm {[0 := 1]} {[0]}
                 ∧ Forall (λ k : N, read_or x k = read_or y k) [0; 1; 2]
                   ∧ read_or x 0 = Some []
                     ∧ eval <$> mentries x !! 0 =
                       Some {| oclock := ∅; oentries := ∅; odeferred := {[{[0 := 1]} := {[2]}]} |}
                       ∧ eval <$> mentries y !! 0 =
                         Some {| oclock := ∅; oentries := ∅; odeferred := ∅ |}
                         ∧ x ≠ y ∧ x' ≠ y' ∧ x = x' ∧ y = y'.
Proof. exact map_T3_residue_refuted. Qed.
Print Assumptions C05_map_nested_remove_refuted_witness.

(** every state reachable by applying well-formed ops and merging satisfies the
    structural invariant: clock without stored zero; every entry clock without
    stored zero, non-empty and below the map clock; every pending remove ahead
    of the clock *)
Theorem C05_map_reachable_invariant {V O E} (vo : valops V O E) (s : cmap V) : mreach vo s -> minv s.
Proof. exact (mreach_minv vo s). Qed.
Print Assumptions C05_map_reachable_invariant.

(** an update whose dot the map clock already covers is ignored (dedup gate) *)
Theorem C05_map_dedup_gate {V O E} (vo : valops V O E) (s : cmap V) d k op :
  dcounter d <= vget (mclock s) (dactor d) -> mapply vo s (MUp d k op) = s.
Proof. exact (mapply_dedup vo s d k op). Qed.
Print Assumptions C05_map_dedup_gate.

Theorem C05_map_clock_laws {V O E} (vo : valops V O E) (s o : cmap V) (op : mop O) :
  vleq (mclock s) (mclock (mapply vo s op)) /\ mclock (mmerge vo s o) = vmerge (mclock s) (mclock o).
Proof. exact (conj (mapply_clock_mono vo s op) (mmerge_clock vo s o)). Qed.
Print Assumptions C05_map_clock_laws.
