(** C05 - Map keys are observed-remove; removing a key resets only what was
    seen.  Only property theorems; every proof is [exact lemma].

    The property is REFUTED on the unchanged crate by three independent
    mechanisms (known findings T1, T2, T3 of KNOWN_FINDINGS.json): the witnesses
    below are API-generated histories evaluated on the faithful model (and
    replayed on the implementation by the check).  What IS universally true of
    Map - the structural invariant of every reachable state, the dedup gate, the
    clock laws, the read contexts - is proved in full, generically in the nested
    value type (hence at every nesting depth).

    The KEY half of the property ("key present iff an applied update is not covered
    by an applied remove"; the entry clock = the surviving witnesses; removing a key
    covers only what was seen) IS proved, for every nested value type, every history of
    API-generated ops, every per-actor-ordered delivery schedule with duplicates and
    merges: the key layer of a Map state (map clock, key set with entry clocks,
    pending-remove table) is an Orswot over the keys (simulation [kabs]/[oabs],
    proofs/MapKeys.v) and inherits the Orswot refinement theorem.  The executable
    [mkeyspec_ok] of spec/MapSpec.v, which the monitor evaluates on the implementation,
    is proved to hold of every reachable model state.  The VALUE half ("value = the
    surviving nested updates") is what T1-T3 refute; outside those classes it stays a
    monitored claim (canonical causal replay + known-finding classes). *)
From stdpp Require Import gmap.
From Crdt Require Import model.Orswot model.MVReg model.Map spec.System spec.OrswotSpec spec.OrswotSystem
  spec.MapSpec spec.MapSystem proofs.VClock proofs.MapFacts proofs.MapRefuted proofs.OrswotSystem proofs.MapKeys.
Local Open Scope N_scope.

(** T1: a value written after seeing another key's update survives the removal of its key under one causal order and not under another / under merge *)
Theorem C05_map_mvreg_context_refuted_witness :
  let s0 := mnew in
         let opA := upd_mv s0 3 1 7 in
         let r2 := mv_apply s0 opA in
         let opB := upd_mv r2 2 0 1 in
         let r2' := mv_apply r2 opB in
         let opC := upd_mv s0 1 0 5 in
         let opD := rm_key mvop r2' 0 in
         let deliver := foldl mv_apply s0 in
         let x := deliver [opA; opB; opC; opD] in
         let y := deliver [opA; opB; opD; opC] in
         let z := mv_merge (deliver [opA; opB; opD]) (deliver [opC]) in
         opA = MUp {| dactor := 3; dcounter := 1 |} 1 (MVPut {[3 := 1]} 7)
         ∧ opB = MUp {| dactor := 2; dcounter := 1 |} 0 (MVPut {[3 := 1; 2 := 1]} 1)
           ∧ opC = MUp {| dactor := 1; dcounter := 1 |} 0 (MVPut {[1 := 1]} 5)
             ∧ opD = MRm {[2 := 1]} {[0]}
               ∧ read_mv x 0 = Some [1; 5]
                 ∧ read_mv y 0 = Some [5] ∧ read_mv z 0 = Some [5] ∧ x ≠ y ∧ x ≠ z.
Proof. exact map_T1_order_refuted. Qed.
Print Assumptions C05_map_mvreg_context_refuted_witness.

(** T2: everything the remover had seen under the key is NOT gone at every replica: it comes back through a merge *)
Theorem C05_map_resurrection_refuted_witness :
  let s0 := mnew in
         let op1 := upd_or_add s0 2 0 8 in
         let a1 := or_apply s0 op1 in
         let op2 := upd_or_add a1 2 0 9 in
         let a2 := or_apply a1 op2 in
         let p1 := or_apply s0 op1 in
         let op3 := rm_key oop p1 0 in
         let p2 := or_apply p1 op3 in
         op1 = MUp {| dactor := 2; dcounter := 1 |} 0 (OAdd {| dactor := 2; dcounter := 1 |} [8])
         ∧ op2 = MUp {| dactor := 2; dcounter := 2 |} 0 (OAdd {| dactor := 2; dcounter := 2 |} [9])
           ∧ op3 = MRm {[2 := 1]} {[0]}
             ∧ read_or p1 0 = Some [8]
               ∧ read_or p2 0 = None
                 ∧ contains_or (or_merge p2 a2) 0 8 = true
                   ∧ contains_or (or_merge a2 p2) 0 8 = true
                     ∧ read_or (or_apply p2 op2) 0 = Some [9]
                       ∧ read_or (or_apply a2 op3) 0 = Some [9] ∧ or_merge p2 a2 ≠ or_apply p2 op2.
Proof. exact map_T2_resurrection_refuted. Qed.
Print Assumptions C05_map_resurrection_refuted_witness.

(** T3: an update carrying a nested remove racing with a key remove leaves a pending nested remove at one replica only *)
Theorem C05_map_nested_remove_refuted_witness :
  let s0 := mnew in
         let op0 := upd_or_add s0 0 0 2 in
         let r0 := or_apply s0 op0 in
         let op1 := upd_or_add r0 0 1 0 in
         let r0' := or_apply r0 op1 in
         let r1 := or_apply s0 op0 in
         let op2 := upd_or_rm r1 1 0 2 in
         let op3 := rm_key_all oop r0' 0 in
         let op3' := rm_key oop r0' 0 in
         let deliver := foldl or_apply s0 in
         let x := deliver [op0; op1; op3; op2] in
         let y := deliver [op0; op1; op2; op3] in
         let x' := deliver [op0; op1; op3'; op2] in
         let y' := deliver [op0; op1; op2; op3'] in
         op0 = MUp {| dactor := 0; dcounter := 1 |} 0 (OAdd {| dactor := 0; dcounter := 1 |} [2])
         ∧ op1 = MUp {| dactor := 0; dcounter := 2 |} 1 (OAdd {| dactor := 0; dcounter := 2 |} [0])
           ∧ op2 = MUp {| dactor := 1; dcounter := 1 |} 0 (ORm {[0 := 1]} [2])
             ∧ op3 = MRm {[0 := 2]} {[0]}
               ∧ op3' = MRm {[0 := 1]} {[0]}
                 ∧ Forall (λ k : N, read_or x k = read_or y k) [0; 1; 2]
                   ∧ read_or x 0 = Some []
                     ∧ eval <$> mentries x !! 0 =
                       Some {| oclock := ∅; oentries := ∅; odeferred := {[{[0 := 1]} := {[2]}]} |}
                       ∧ eval <$> mentries y !! 0 =
                         Some {| oclock := ∅; oentries := ∅; odeferred := ∅ |}
                         ∧ x ≠ y ∧ x' ≠ y' ∧ x = x' ∧ y = y'.
Proof. exact map_T3_residue_refuted. Qed.
Print Assumptions C05_map_nested_remove_refuted_witness.

(** every state reachable by applying well-formed ops and merging satisfies the
    structural invariant: clock without stored zero; every entry clock without
    stored zero, non-empty and below the map clock; every pending remove ahead
    of the clock *)
Theorem C05_map_reachable_invariant {V O E} (vo : valops V O E) (s : cmap V) : mreach vo s -> minv s.
Proof. exact (mreach_minv vo s). Qed.
Print Assumptions C05_map_reachable_invariant.

(** an update whose dot the map clock already covers is ignored (dedup gate) *)
Theorem C05_map_dedup_gate {V O E} (vo : valops V O E) (s : cmap V) d k op :
  dcounter d <= vget (mclock s) (dactor d) -> mapply vo s (MUp d k op) = s.
Proof. exact (mapply_dedup vo s d k op). Qed.
Print Assumptions C05_map_dedup_gate.

Theorem C05_map_clock_laws {V O E} (vo : valops V O E) (s o : cmap V) (op : mop O) :
  vleq (mclock s) (mclock (mapply vo s op)) /\ mclock (mmerge vo s o) = vmerge (mclock s) (mclock o).
Proof. exact (conj (mapply_clock_mono vo s op) (mmerge_clock vo s o)). Qed.
Print Assumptions C05_map_clock_laws.

(** * The key layer of Map: positive refinement theorems (generic in the nested value type) *)

(** API-generated histories are structurally well-formed at key level *)
Theorem C05_map_history_wf {V O E} (vo : valops V O E) (H : list (oprec (mop O))) :
  maphist_ok vo H -> owfH (habs H).
Proof. exact (maphist_ok_wf vo H). Qed.
Print Assumptions C05_map_history_wf.

(** every reachable state (per-actor delivery, duplicates, merges): its key layer is the
    specification of its knowledge; the monitor's decider accepts it; a key is present iff
    one of its applied updates is covered by no applied remove naming it; the remove context
    handed out by [get] is exactly the clock of the surviving witnesses; a key whose every
    applied update is covered is absent *)
Theorem C05_map_keys_refine {V O E} (vo : valops V O E) (H : list (oprec (mop O))) :
  maphist_ok vo H ->
  forall (s : cmap V) (K : gset nat) (k : N), mapreach vo H s K ->
    kabs s = ospec (habs H) K
    /\ mkeyspec_ok H K s = true
    /\ (k ∈ dom (mentries s) <->
        exists (d : dot) (o : O), MUp d k o ∈ known_ops H K
          /\ ~ exists (c : gmap N N) (ks : gset N), MRm c ks ∈ known_ops H K /\ k ∈ ks /\ dcounter d <= vget c (dactor d))
    /\ rm_clock (mget s k) = mspec_entry_clock (known_ops H K) k
    /\ (mlive_dots (known_ops H K) k = [] -> mentries s !! k = None).
Proof. exact (map_keys_api vo H). Qed.
Print Assumptions C05_map_keys_refine.

(** equal knowledge, equal key-level reads *)
Theorem C05_map_keys_converge {V O E} (vo : valops V O E) (H : list (oprec (mop O))) :
  owfH (habs H) ->
  forall (s1 s2 : cmap V) (K : gset nat), mapreach vo H s1 K -> mapreach vo H s2 K ->
    mclock s1 = mclock s2
    /\ dom (mentries s1) = dom (mentries s2)
    /\ (forall k : N, rm_clock (mget s1 k) = rm_clock (mget s2 k))
    /\ (forall k : N, add_clock (mget s1 k) = add_clock (mget s2 k))
    /\ mread_ctx s1 = mread_ctx s2
    /\ rval (mlen s1) = rval (mlen s2)
    /\ rval (mis_empty s1) = rval (mis_empty s2) /\ mdeferred s1 = mdeferred s2.
Proof. exact (map_keys_converge_reads vo H). Qed.
Print Assumptions C05_map_keys_converge.

(** merge at key level: commutative, associative, idempotent, = learning the union, = the Orswot merge *)
Theorem C05_map_keys_merge_laws {V O E} (vo : valops V O E) (H : list (oprec (mop O))) :
  owfH (habs H) ->
  forall (s1 : cmap V) (K1 : gset nat) (s2 : cmap V) (K2 : gset nat) (s3 : cmap V) (K3 : gset nat),
    mapreach vo H s1 K1 -> mapreach vo H s2 K2 -> mapreach vo H s3 K3 ->
    kabs (mmerge vo s1 s2) = kabs (mmerge vo s2 s1)
    /\ kabs (mmerge vo (mmerge vo s1 s2) s3) = kabs (mmerge vo s1 (mmerge vo s2 s3))
    /\ kabs (mmerge vo s1 s1) = kabs s1
    /\ kabs (mmerge vo s1 s2) = ospec (habs H) (K1 ∪ K2)
    /\ kabs (mmerge vo s1 s2) = omerge (kabs s1) (kabs s2).
Proof. exact (map_keys_merge_laws vo H). Qed.
Print Assumptions C05_map_keys_merge_laws.

(** duplicates and stale states change nothing at key level *)
Theorem C05_map_keys_absorb {V O E} (vo : valops V O E) (H : list (oprec (mop O))) :
  owfH (habs H) ->
  forall (s : cmap V) (K : gset nat) (i : nat) (r : oprec (mop O)) (s' : cmap V) (K' : gset nat),
    mapreach vo H s K -> mapreach vo H s' K' ->
    (H !! i = Some r -> i ∈ K -> kabs (mapply vo s (op_val r)) = kabs s)
    /\ (K' ⊆ K -> kabs (mmerge vo s s') = kabs s).
Proof. exact (map_keys_absorb vo H). Qed.
Print Assumptions C05_map_keys_absorb.

(** the pending-remove table holds exactly the applied removes the map clock does not cover yet *)
Theorem C05_map_pending_removes {V O E} (vo : valops V O E) (H : list (oprec (mop O))) :
  maphist_ok vo H ->
  forall (s : cmap V) (K : gset nat) (c : gmap N N), mapreach vo H s K ->
    (forall ks : gset N, mdeferred s !! c = Some ks ->
       vwf c /\ c <> ∅ /\ vle c (mclock s) = false
       /\ (forall k : N, k ∈ ks <-> exists ks' : gset N, MRm c ks' ∈ known_ops H K /\ k ∈ ks'))
    /\ ((exists ks : gset N, MRm c ks ∈ known_ops H K) -> vle c (mclock s) = false -> is_Some (mdeferred s !! c))
    /\ (vle c (mclock s) = true -> mdeferred s !! c = None)
    /\ (forall (k : N) (e : mentry V), mentries s !! k = Some e -> eclock e <> ∅).
Proof. exact (map_keys_pending vo H). Qed.
Print Assumptions C05_map_pending_removes.

(** the dot an update gets from a read at its author's replica is fresh *)
Theorem C05_map_update_dot_fresh {V O E} (vo : valops V O E) (H : list (oprec (mop O))) :
  maphist_ok vo H ->
  forall (s : cmap V) (K : gset nat) (a : N), mapreach vo H s K -> own_known H a K ->
    let d := ac_dot (derive_add_ctx (mread_ctx s) a) in
    dactor d = a /\ dcounter d = vget (mclock s) a + 1
    /\ (forall (j : nat) (r : oprec (mop O)) (k : N) (o : O), H !! j = Some r -> op_val r <> MUp d k o).
Proof. exact (map_update_dot_fresh vo H). Qed.
Print Assumptions C05_map_update_dot_fresh.

(** non-vacuity: a three-op API-generated history (two concurrent updates of key 7, a remove
    that saw only the first) with a reachable state on which the key survives with exactly the
    unseen witness, and a reachable state on which it is gone *)
Theorem C05_map_keys_example :
  let u1 := MUp (Dot 1 1) 7 (MVPut {[1 := 1]} 5) in
  let u2 := MUp (Dot 2 1) 7 (MVPut {[2 := 1]} 6) in
  let rm := MRm {[1 := 1]} {[7]} : mop mvop in
  let H := [OpRec 1 u1 ∅; OpRec 2 u2 ∅; OpRec 1 rm (∅ ∪ {[0%nat]})] in
  let s := mapply mvreg_valops (mapply mvreg_valops (mapply mvreg_valops mnew u1) u2) rm in
  let K := (∅ ∪ {[0%nat]} ∪ {[1%nat]} ∪ {[2%nat]} : gset nat) in
  let s' := mapply mvreg_valops (mapply mvreg_valops mnew u1) rm in
  maphist_ok mvreg_valops H
  /\ mapreach mvreg_valops H s K
  /\ known_ops H K = [u1; u2; rm]
  /\ 7 ∈ dom (mentries s)
  /\ rm_clock (mget s 7) = {[2 := 1]}
  /\ mlive_dots (known_ops H K) 7 = [Dot 2 1]
  /\ mkeyspec_ok H K s = true
  /\ mapreach mvreg_valops H s' (∅ ∪ {[0%nat]} ∪ {[2%nat]})
  /\ mentries s' = ∅.
Proof. exact map_keys_example. Qed.
Print Assumptions C05_map_keys_example.

(** * The VALUE half for [Map<K, Orswot<M>>] under op-based replication with causal delivery
    (duplicates allowed, no state merges — the merge-dependent defect T2 is out of reach, the
    residue T3 does not touch member tables): proofs/MapOrswot.v. *)
From Crdt Require Import spec.MapOrswotSpec proofs.MapOrswot.

(** in every state a replica can reach, the member table stored under every key is exactly the
    per-actor greatest add witnesses that no applied key remove naming the key and no applied
    nested remove naming the member covers *)
Theorem C05_mapor_values_refine (H : list (oprec (mop oop))) : mohist_ok H ->
  forall (s : cmap orswot) (K : gset nat), moreach H s K ->
    forall k, mo_state_entries s k = mo_entries (known_ops H K) k.
Proof. exact (mapor_values_refine H). Qed.
Print Assumptions C05_mapor_values_refine.

(** the literal sentence of the property for nested members *)
Theorem C05_mapor_member_sentence (H : list (oprec (mop oop))) (s : cmap orswot) (K : gset nat) (k m : N) :
  mohist_ok H -> moreach H s K ->
  (m ∈ dom (mo_state_entries s k) <->
    exists d0 d ms, MUp d0 k (OAdd d ms) ∈ known_ops H K /\ m ∈ ms /\
      ~ (exists c ks, MRm c ks ∈ known_ops H K /\ k ∈ ks /\ dcounter d <= vget c (dactor d)) /\
      ~ (exists d1 c ms', MUp d1 k (ORm c ms') ∈ known_ops H K /\ m ∈ ms' /\ dcounter d <= vget c (dactor d))).
Proof. exact (mapor_member_iff H s K k m). Qed.
Print Assumptions C05_mapor_member_sentence.

(** the remove context a nested [contains] hands out is exactly the surviving witnesses *)
Theorem C05_mapor_contains_ctx (H : list (oprec (mop oop))) (s : cmap orswot) (K : gset nat) (k : N) (e : mentry orswot) (m : N) :
  mohist_ok H -> moreach H s K -> mentries s !! k = Some e ->
  rm_clock (ocontains (eval e) m) = mo_entry (known_ops H K) k m /\
  (rval (ocontains (eval e) m) = true <-> m ∈ dom (mo_state_entries s k)).
Proof. exact (mapor_contains_ctx H s K k e m). Qed.
Print Assumptions C05_mapor_contains_ctx.

(** the decider the monitor evaluates on the implementation's states holds of every reachable model state *)
Theorem C05_mapor_valspec_ok (H : list (oprec (mop oop))) (s : cmap orswot) (K : gset nat) :
  mohist_ok H -> moreach H s K -> movalspec_ok H K s = true.
Proof. exact (mapor_valspec_ok H s K). Qed.
Print Assumptions C05_mapor_valspec_ok.

(** non-vacuity: actors 1 and 2 concurrently add {10,11} and {10,12} under key 7; actor 1 removes member 10
    with its own [contains(10)] context while actor 2 removes key 7 with its own [get(7)] context; both
    causal delivery orders of the four ops leave exactly member 11 with witness (1,1) *)
Theorem C05_mapor_nonvacuous :
  let o0 : mop oop := MUp (Dot 1 1) 7 (OAdd (Dot 1 1) [10; 11]) in
  let o1 : mop oop := MUp (Dot 2 1) 7 (OAdd (Dot 2 1) [10; 12]) in
  let o2 : mop oop := MUp (Dot 1 2) 7 (ORm {[1 := 1]} [10]) in
  let o3 : mop oop := MRm {[2 := 1]} {[7]} in
  let H : list (oprec (mop oop)) :=
    [OpRec 1 o0 ∅; OpRec 2 o1 ∅; OpRec 1 o2 (∅ ∪ {[0%nat]}); OpRec 2 o3 (∅ ∪ {[1%nat]})] in
  let K : gset nat := ∅ ∪ {[0%nat]} ∪ {[1%nat]} ∪ {[2%nat]} ∪ {[3%nat]} in
  let K' : gset nat := ∅ ∪ {[1%nat]} ∪ {[3%nat]} ∪ {[0%nat]} ∪ {[2%nat]} in
  let s := mapply orswot_valops (mapply orswot_valops (mapply orswot_valops (mapply orswot_valops mnew o0) o1) o2) o3 in
  let s' := mapply orswot_valops (mapply orswot_valops (mapply orswot_valops (mapply orswot_valops mnew o1) o3) o0) o2 in
  mohist_ok H /\ moreach H s K /\ moreach H s' K' /\ K' = K /\
  known_ops H K = [o0; o1; o2; o3] /\
  mo_state_entries s 7 = {[11 := {[1 := 1]}]} /\
  mo_state_entries s' 7 = {[11 := {[1 := 1]}]} /\
  mo_entries (known_ops H K) 7 = {[11 := {[1 := 1]}]} /\
  mo_live_dots (known_ops H K) 7 10 = [] /\
  mo_live_dots (known_ops H K) 7 11 = [Dot 1 1] /\
  mo_live_dots (known_ops H K) 7 12 = [] /\
  movalspec_ok H K s = true.
Proof. exact mapor_example. Qed.
Print Assumptions C05_mapor_nonvacuous.

(** T3 changes reads once a delivery overtakes: per-actor delivery order does NOT suffice for the
    values of Map<_, Orswot> (known finding T3; replayed on the implementation by the check) *)
Theorem C05_map_nested_remove_per_actor_refuted_witness :
  let s0 : cmap orswot := mnew in
  let opA := upd_or_add s0 0 0 1 in
  let b := or_apply s0 opA in
  let opB := upd_or_rm b 1 0 1 in
  let c := or_apply s0 opB in
  let opC : mop oop := rm_key oop c 0 in
  let deliver := foldl or_apply s0 in
  let causal := deliver [opA; opB; opC] in
  let overtaking := deliver [opB; opC; opA] in
  opA = MUp (Dot 0 1) 0 (OAdd (Dot 0 1) [1]) /\
  opB = MUp (Dot 1 1) 0 (ORm {[ 0 := 1 ]} [1]) /\
  opC = MRm {[ 1 := 1 ]} {[ 0 ]} /\
  read_or causal 0 = Some [] /\
  read_or overtaking 0 = Some [1] /\
  mclock causal = mclock overtaking.
Proof. exact map_T3_per_actor_refuted. Qed.
Print Assumptions C05_map_nested_remove_per_actor_refuted_witness.


(** the value half under PER-ACTOR delivery for histories without nested removes (proofs/MapOrswotPA.v) *)
From Crdt Require Import proofs.MapOrswotPA.
Theorem C05_mapor_values_refine_per_actor (H : list (oprec (mop oop))) : mohist_ok_pa H ->
  forall (s : cmap orswot) (K : gset nat), moreach_pa H s K ->
    forall k, mo_state_entries s k = mo_entries (known_ops H K) k.
Proof. exact (mapor_values_refine_pa H). Qed.
Print Assumptions C05_mapor_values_refine_per_actor.

Theorem C05_mapor_member_sentence_per_actor (H : list (oprec (mop oop))) (s : cmap orswot) (K : gset nat) (k m : N) :
  mohist_ok_pa H -> moreach_pa H s K ->
  (m ∈ dom (mo_state_entries s k) <->
    exists d0 d ms, MUp d0 k (OAdd d ms) ∈ known_ops H K /\ m ∈ ms /\
      ~ exists c ks, MRm c ks ∈ known_ops H K /\ k ∈ ks /\ dcounter d <= vget c (dactor d)).
Proof. exact (mapor_member_iff_pa H s K k m). Qed.
Print Assumptions C05_mapor_member_sentence_per_actor.

(** ** Nesting depth 2: Map<K1, Map<K2, Orswot>> under causal op-based delivery (proofs/MapMapOrswot.v).
    "This holds ... at every nesting depth": one level deeper the table of inner keys under every outer key
    and the member table under every (outer, inner) key are functions of the knowledge: an inner key /
    a member is present iff one of its learned witnesses is covered by no learned outer key remove, inner
    key remove or nested member remove that names it. *)
From Crdt Require Import spec.MapMapOrswotSpec proofs.MapMapOrswot proofs.MapMapOrswotCor.

Theorem C05_map2_values_refine (H : list (oprec (mop (mop oop)))) :
  m2hist_ok H ->
  forall (s : cmap (cmap orswot)) (K : gset nat), m2reach H s K ->
    forall k1, m2_state_inner_clocks s k1 = m2_inner_clocks (known_ops H K) k1 /\
               forall k2, m2_state_entries s k1 k2 = m2_entries (known_ops H K) k1 k2.
Proof. exact (map2_values_refine H). Qed.
Print Assumptions C05_map2_values_refine.

Theorem C05_map2_inner_key_sentence (H : list (oprec (mop (mop oop)))) (s : cmap (cmap orswot)) (K : gset nat) (k1 k2 : N) :
  m2hist_ok H -> m2reach H s K ->
  (k2 ∈ dom (m2_state_inner_clocks s k1) <->
    exists d0 d o, MUp d0 k1 (MUp d k2 o) ∈ known_ops H K /\
      ~ (exists c ks, MRm c ks ∈ known_ops H K /\ k1 ∈ ks /\ dcounter d <= vget c (dactor d)) /\
      ~ (exists d1 c ks, MUp d1 k1 (MRm c ks) ∈ known_ops H K /\ k2 ∈ ks /\ dcounter d <= vget c (dactor d))).
Proof. exact (map2_inner_key_iff H s K k1 k2). Qed.
Print Assumptions C05_map2_inner_key_sentence.

Theorem C05_map2_member_sentence (H : list (oprec (mop (mop oop)))) (s : cmap (cmap orswot)) (K : gset nat) (k1 k2 m : N) :
  m2hist_ok H -> m2reach H s K ->
  (m ∈ dom (m2_state_entries s k1 k2) <->
    exists d0 d1 d ms, MUp d0 k1 (MUp d1 k2 (OAdd d ms)) ∈ known_ops H K /\ m ∈ ms /\
      ~ (exists c ks, MRm c ks ∈ known_ops H K /\ k1 ∈ ks /\ dcounter d <= vget c (dactor d)) /\
      ~ (exists d2 c ks, MUp d2 k1 (MRm c ks) ∈ known_ops H K /\ k2 ∈ ks /\ dcounter d <= vget c (dactor d)) /\
      ~ (exists d2 d3 c ms', MUp d2 k1 (MUp d3 k2 (ORm c ms')) ∈ known_ops H K /\ m ∈ ms' /\
                             dcounter d <= vget c (dactor d))).
Proof. exact (map2_member_iff H s K k1 k2 m). Qed.
Print Assumptions C05_map2_member_sentence.

(** the decider the monitor evaluates on the implementation's Map<_,Map<_,Orswot>> states holds of every reachable model state *)
Theorem C05_map2_valspec_ok (H : list (oprec (mop (mop oop)))) (s : cmap (cmap orswot)) (K : gset nat) :
  m2hist_ok H -> m2reach H s K -> m2valspec_ok H K s = true.
Proof. exact (map2_valspec_ok H s K). Qed.
Print Assumptions C05_map2_valspec_ok.

(** non-vacuity: seven API-generated ops over two actors (nested member remove, inner key remove, concurrent outer
    key remove); two causal orders of the same knowledge give structurally different states (T3) with the same,
    non-trivial, specified tables *)
Theorem C05_map2_nonvacuous :
  exists (H : list (oprec (mop (mop oop)))) (s s' : cmap (cmap orswot)) (K : gset nat),
    m2hist_ok H /\ m2reach H s K /\ m2reach H s' K /\ length H = 7%nat /\ s <> s' /\
    m2_state_inner_clocks s 7 = {[3 := {[1 := 3]}; 4 := {[2 := 3]}]} /\
    m2_state_inner_clocks s' 7 = {[3 := {[1 := 3]}; 4 := {[2 := 3]}]} /\
    m2_state_entries s 7 3 = {[14 := {[1 := 3]}]} /\
    m2_state_entries s' 7 3 = {[14 := {[1 := 3]}]} /\
    m2_state_entries s 7 4 = {[13 := {[2 := 3]}]} /\
    m2_state_entries s' 7 4 = {[13 := {[2 := 3]}]} /\
    m2_live_dots (known_ops H K) 7 3 10 = [] /\
    m2valspec_ok H K s = true /\ m2valspec_ok H K s' = true.
Proof. exact map2_example_closed. Qed.
Print Assumptions C05_map2_nonvacuous.

(** Map<K, Orswot> whose keys are never removed, per-actor delivery with duplicates AND merges: the member sentence and the
    value-level specification (proofs/MapOrswotNK.v) *)
From Crdt Require Import model.Orswot model.Map spec.System spec.OrswotSpec spec.OrswotSystem spec.MapSpec spec.MapSystem spec.MapOrswotSpec proofs.MapOrswotNK proofs.MapOrswotNKCor.
Theorem C05_mapor_nk_member_sentence (H : list (oprec (mop oop))) :
  mohist_ok_nk H -> forall (s : cmap orswot) (K : gset nat) (k m : N), moreach_nk H s K ->
  (m ∈ dom (mo_state_entries s k) <->
   exists d ms, MUp d k (OAdd d ms) ∈ known_ops H K /\ m ∈ ms /\
     ~ exists d' c ms', MUp d' k (ORm c ms') ∈ known_ops H K /\ m ∈ ms' /\ dcounter d <= vget c (dactor d)).
Proof. exact (mapor_member_iff_nk H). Qed.
Print Assumptions C05_mapor_nk_member_sentence.

Theorem C05_mapor_nk_ok (H : list (oprec (mop oop))) :
  mohist_ok_nk H -> forall (s : cmap orswot) (K : gset nat), moreach_nk H s K -> mapor_nk_ok H K s = true.
Proof. exact (mapor_nk_ok_reach H). Qed.
Print Assumptions C05_mapor_nk_ok.

(** Map<K1, Map<K2, Orswot>> when no key is ever removed, per-actor delivery with duplicates AND merges: the member sentence at depth 2
    and the complete-state decider (proofs/MapMapOrswotNK.v) *)
From Crdt Require Import model.Orswot model.Map spec.System spec.OrswotSpec spec.OrswotSystem spec.MapSpec spec.MapSystem spec.MapOrswotSpec spec.MapMapOrswotSpec spec.MapMapOrswotNKSpec proofs.MapMapOrswotNK.
Theorem C05_map2_nk_member_sentence (H : list (oprec (mop (mop oop)))) :
  m2hist_ok_nk H -> forall (s : cmap (cmap orswot)) (K : gset nat) (k1 k2 m : N), m2reach_nk H s K ->
  (m ∈ dom (m2_state_entries s k1 k2) <->
   exists d ms, MUp d k1 (MUp d k2 (OAdd d ms)) ∈ known_ops H K /\ m ∈ ms /\
     ~ exists d' c ms', MUp d' k1 (MUp d' k2 (ORm c ms')) ∈ known_ops H K /\ m ∈ ms' /\ dcounter d <= vget c (dactor d)).
Proof. exact (map2_member_iff_nk H). Qed.
Print Assumptions C05_map2_nk_member_sentence.

Theorem C05_map2_nk_ok (H : list (oprec (mop (mop oop)))) :
  m2hist_ok_nk H -> forall (s : cmap (cmap orswot)) (K : gset nat), m2reach_nk H s K -> map2_nk_ok H K s = true.
Proof. exact (map2_nk_ok_reach H). Qed.
Print Assumptions C05_map2_nk_ok.

(** Map<K, Orswot> WITH key removes and merges, in the fragment the known findings leave: members are added under keys and keys are removed (no nested remove: T3), and every key that some key remove names is updated at most once by each actor ([km_once]: T2 needs two updates of one actor): the value half of the property WITH merges - the member table under every key is the value-level specification, the member
    sentence, both monitor deciders (proofs/MapOrswotKM.v) *)
From Crdt Require Import model.Orswot model.Map spec.System spec.OrswotSpec spec.OrswotSystem spec.MapSpec spec.MapSystem spec.MapOrswotSpec spec.MapOrswotKM proofs.MapOrswotKM proofs.MapOrswotKMCor.
Theorem C05_mapor_km_values_refine (H : list (oprec (mop oop))) :
  mohist_ok_km H -> km_once H ->
  forall (s : cmap orswot) (K : gset nat), moreach_km H s K -> forall k, mo_state_entries s k = mo_entries (known_ops H K) k.
Proof. exact (mapor_values_refine_km H). Qed.
Print Assumptions C05_mapor_km_values_refine.

Theorem C05_mapor_km_member_sentence (H : list (oprec (mop oop))) :
  mohist_ok_km H -> km_once H -> forall (s : cmap orswot) (K : gset nat) (k m : N), moreach_km H s K ->
  (m ∈ dom (mo_state_entries s k) <->
    exists d ms, MUp d k (OAdd d ms) ∈ known_ops H K /\ m ∈ ms /\
      ~ exists c ks, MRm c ks ∈ known_ops H K /\ k ∈ ks /\ dcounter d <= vget c (dactor d)).
Proof. exact (mapor_member_iff_km H). Qed.
Print Assumptions C05_mapor_km_member_sentence.

Theorem C05_mapor_km_ok (H : list (oprec (mop oop))) :
  mohist_ok_km H -> km_once H -> forall (s : cmap orswot) (K : gset nat), moreach_km H s K -> mapor_km_ok H K s = true.
Proof. exact (mapor_km_ok_reach H). Qed.
Print Assumptions C05_mapor_km_ok.

(** Map<K, Orswot>, EVERY history outside the classes of the known findings T2 and T3 (all commands; a key that some key remove names receives only nested adds [kmn_addonly] and at most one update per actor [km_once]; any other key receives anything): the value half of the property with merges - the member table under every key is the value-level specification; the member
    sentence with both kinds of cover (key remove naming the key, nested remove naming the member); the complete-state decider.
    Both hypotheses are needed: C02_mapor_km_once_needed (T2) and the witness below (T3) (proofs/MapOrswotKMN.v, MapOrswotKMNCor.v) *)
From Crdt Require Import model.Orswot model.Map spec.System spec.OrswotSpec spec.OrswotSystem spec.MapSpec spec.MapSystem spec.MapOrswotSpec spec.MapOrswotKM spec.MapOrswotKMN proofs.MapOrswotKMN proofs.MapOrswotKMNCor.
Theorem C05_mapor_kmn_values_refine (H : list (oprec (mop oop))) :
  mohist_ok_kmn H -> km_once H -> kmn_addonly H ->
  forall (s : cmap orswot) (K : gset nat) (k : N), moreach_kmn H s K -> mo_state_entries s k = mo_entries (known_ops H K) k.
Proof. exact (mapor_values_refine_kmn H). Qed.
Print Assumptions C05_mapor_kmn_values_refine.

Theorem C05_mapor_kmn_member_sentence (H : list (oprec (mop oop))) (s : cmap orswot) (K : gset nat) (k m : N) :
  mohist_ok_kmn H -> km_once H -> kmn_addonly H -> moreach_kmn H s K ->
  (m ∈ dom (mo_state_entries s k) <->
    exists d ms, MUp d k (OAdd d ms) ∈ known_ops H K /\ m ∈ ms /\
      ~ (exists c ks, MRm c ks ∈ known_ops H K /\ k ∈ ks /\ dcounter d <= vget c (dactor d)) /\
      ~ (exists d1 c ms', MUp d1 k (ORm c ms') ∈ known_ops H K /\ m ∈ ms' /\ dcounter d <= vget c (dactor d))).
Proof. exact (mapor_member_iff_kmn H s K k m). Qed.
Print Assumptions C05_mapor_kmn_member_sentence.

Theorem C05_mapor_kmn_ok (H : list (oprec (mop oop))) :
  mohist_ok_kmn H -> km_once H -> kmn_addonly H -> forall (s : cmap orswot) (K : gset nat), moreach_kmn H s K -> mapor_kmn_ok H K s = true.
Proof. exact (mapor_kmn_ok_reach H). Qed.
Print Assumptions C05_mapor_kmn_ok.

Theorem C05_mapor_kmn_addonly_needed :
  exists (H : list (oprec (mop oop))) (sX sY : cmap orswot) (K : gset nat),
    mohist_ok_kmn H /\ km_once H /\ ~ kmn_addonly H /\
    moreach_kmn H sX K /\ moreach_kmn H sY K /\ sX <> sY /\
    mo_state_entries sX 0 = ∅ /\ mo_state_entries sY 0 = {[1 := {[0 := 1]}]}.
Proof. exact kmn_addonly_needed_closed. Qed.
Print Assumptions C05_mapor_kmn_addonly_needed.

(** Map<K, MVReg> (MVReg leaves) WITHOUT key removes, op-based replication (no state merges), per-actor delivery with duplicates: the register under every key holds exactly (up to the order of the vector) the causally maximal writes addressed to that key.
    Map::update hands the nested write the whole-map context; without key removes and merges that over-approximation is harmless
    (proofs/MapMVRegNK.v).  With merges - or key removes - it is not: finding T1; closed witness below *)
From Crdt Require Import model.MVReg model.Map spec.System spec.OrswotSpec spec.OrswotSystem spec.Specs spec.MapSpec spec.MapSystem spec.MapMVRegSpec proofs.MapMVRegNK.
Theorem C05_mapmv_values_refine_nk (H : list (oprec (mop mvop))) :
  mvhist_ok_nk H -> forall (s : cmap (list (gmap N N * N))) (K : gset nat), mvreach_nk H s K ->
    forall k, mv_state_vals s k ≡ₚ mv_maximal (mv_writes (mv_proj (known_ops H K) k)).
Proof. exact (mapmv_values_refine_nk H). Qed.
Print Assumptions C05_mapmv_values_refine_nk.

Theorem C05_mapmv_vals_ok (H : list (oprec (mop mvop))) :
  mvhist_ok_nk H -> forall (s : cmap (list (gmap N N * N))) (K : gset nat), mvreach_nk H s K -> mapmv_vals_ok H K s = true.
Proof. exact (mapmv_vals_ok_reach H). Qed.
Print Assumptions C05_mapmv_vals_ok.

Theorem C05_mapmv_merge_refuted :
  exists (H : list (oprec (mop mvop))) (s : cmap (list (gmap N N * N))) (K : gset nat),
    H = [OpRec 3 (MUp (Dot 3 1) 1 (MVPut {[3 := 1]} 7)) ∅;
         OpRec 2 (MUp (Dot 2 1) 0 (MVPut {[3 := 1; 2 := 1]} 1)) (∅ ∪ {[0%nat]});
         OpRec 2 (MUp (Dot 2 2) 0 (MVPut {[3 := 1; 2 := 2]} 0)) (∅ ∪ {[0%nat]} ∪ {[1%nat]})] /\
    mvhist_ok_nk_causal H /\
    hist_ok mnew (mapply mvreg_valops) (mmerge mvreg_valops) mvgen adm_causal True H /\
    reach mnew (mapply mvreg_valops) (mmerge mvreg_valops) adm_causal True H s K /\
    (forall i, i ∈ K <-> (i < 3)%nat) /\
    mv_state_vals s 0 = [({[3 := 1; 2 := 1]}, 1); ({[2 := 2]}, 0)] /\
    mv_maximal (mv_writes (mv_proj (known_ops H K) 0)) = [({[3 := 1; 2 := 2]}, 0)] /\
    ~ (mv_state_vals s 0 ≡ₚ mv_maximal (mv_writes (mv_proj (known_ops H K) 0))) /\
    mapmv_vals_ok H K s = false.
Proof. exact mapmv_merge_refuted. Qed.
Print Assumptions C05_mapmv_merge_refuted.

(** "... and at every nesting depth": the no-key-remove refinement of Map as a FUNCTOR over the nested value type (proofs/MapNKFunctor.v).
    [sparse_ref vo] packages a list-level refinement structure of a value type (specification [vspec : list O -> V], apply of a fresh op,
    merge = specification of the concatenation, reset inert on uncovered dots, ...); Orswot has it ([orswot_sr]); whenever [vo] has it,
    [map_valops vo] has it ([map_sr]); and for every such [vo] the complete state of every reachable Map<K,V> state is the specification of
    its knowledge under per-actor delivery, duplicates and merges ([map_sr_refine], for any command interpreter that generates through
    [mgen] new well-formed ops).  Depths 1, 2 and 3 are three applications ([sr1], [sr2], [sr3] in proofs/MapNKFunctorInst.v). *)
From Crdt Require Import model.Orswot model.Map spec.System spec.OrswotSpec spec.OrswotSystem spec.MapSpec spec.MapSystem spec.MapOrswotSpec spec.MapMapOrswotSpec spec.MapMapOrswotNKSpec proofs.MapMapOrswotNK proofs.MapNKFunctor proofs.MapNKFunctorInst.
Theorem C05_map_nk_functor (V O E : Type) (vo : valops V O E) : sparse_ref vo -> sparse_ref (map_valops vo).
Proof. exact (@map_sr V O E vo). Qed.
Print Assumptions C05_map_nk_functor.

Theorem C05_map_nk_functor_base : sparse_ref orswot_valops.
Proof. exact orswot_sr. Qed.
Print Assumptions C05_map_nk_functor_base.

Theorem C05_map_nk_functor_refine (V O E : Type) (vo : valops V O E) (X : sparse_ref vo)
    (Cmd : Type) (gen : cmap V -> N -> Cmd -> option (mop O)) (tocmd : Cmd -> MapSystem.mcmd V O) :
  (forall (s : cmap V) (a : N) (c : Cmd) (o : mop O), gen s a c = Some o -> MapSystem.mgen vo s a (tocmd c) = Some o) ->
  (forall (U os : list (mop O)) (a : N) (c : Cmd) (o : mop O),
      muniv X (fun _ : dot => True) U -> MapMapOrswotNK.gside U os ->
      gen (mspec_nk_of X os) a c = Some o -> exists d : dot, mnewop X (fun _ : dot => True) U d o) ->
  forall H : list (oprec (mop O)),
    hist_ok mnew (mapply vo) (mmerge vo) gen adm_per_actor True H ->
    forall (s : cmap V) (K : gset nat),
      reach mnew (mapply vo) (mmerge vo) adm_per_actor True H s K -> s = sr_spec X H K.
Proof. exact (@map_sr_refine V O E vo X Cmd gen tocmd). Qed.
Print Assumptions C05_map_nk_functor_refine.

(** depth 3, Map<K1,Map<K2,Map<K3,Orswot>>> without key removes: one more application of the functor *)
Theorem C05_map3_refine_nk (H : list (oprec (mop (mop (mop oop))))) :
  m3hist_ok_nk H -> forall (s : cmap (cmap (cmap orswot))) (K : gset nat), m3reach_nk H s K -> s = map3_spec_nk H K.
Proof. exact (map3_refine_nk H). Qed.
Print Assumptions C05_map3_refine_nk.

Theorem C05_map3_member_sentence (H : list (oprec (mop (mop (mop oop))))) :
  m3hist_ok_nk H -> forall (s : cmap (cmap (cmap orswot))) (K : gset nat) (k1 k2 k3 m : N), m3reach_nk H s K ->
  (m ∈ dom (m3_state_entries s k1 k2 k3) <->
   exists d ms, MUp d k1 (MUp d k2 (MUp d k3 (OAdd d ms))) ∈ known_ops H K /\ m ∈ ms /\
     ~ exists d' c ms', MUp d' k1 (MUp d' k2 (MUp d' k3 (ORm c ms'))) ∈ known_ops H K /\ m ∈ ms' /\
                        dcounter d <= vget c (dactor d)).
Proof. exact (map3_member_iff_nk H). Qed.
Print Assumptions C05_map3_member_sentence.

Theorem C05_map3_nonvacuous :
  exists (H : list (oprec (mop (mop (mop oop))))) (sA sB sC : cmap (cmap (cmap orswot))) (KA KB : gset nat),
    m3hist_ok_nk H /\ length H = 4%nat /\
    ~ adm_causal H ∅ 1%nat /\
    m3reach_nk H sA KA /\
    m3_state_parked sA 7 3 1 = Some {[ ({[1 := 1]} : gmap N N) := ({[10]} : gset N) ]} /\
    m3reach_nk H sB KB /\
    m3_state_entries sB 7 3 1 = {[10 := {[1 := 1]}]} /\
    m3reach_nk H sC (KA ∪ KB) /\
    mmerge (map_valops (map_valops orswot_valops)) sA sB = sC /\ mmerge (map_valops (map_valops orswot_valops)) sB sA = sC /\
    mmerge (map_valops (map_valops orswot_valops)) sA sB = map3_spec_nk H (KA ∪ KB) /\
    map3_nk_ok H (KA ∪ KB) (mmerge (map_valops (map_valops orswot_valops)) sA sB) = true /\
    map3_nk_ok H KA sA = true /\
    m3_state_entries sC 7 3 1 = ∅ /\
    m3_state_parked sC 7 3 1 = Some ∅ /\
    m3_state_entries sC 7 4 1 = {[21 := {[1 := 2]}]} /\
    m3_state_entries sC 8 4 2 = {[20 := {[2 := 2]}]}.
Proof. exact map3_nk_example_closed. Qed.
Print Assumptions C05_map3_nonvacuous.
