(** C11 — counters, LWW/Max/Min registers and GSet compute their exact
    aggregate, under every delivery order, duplication and merge pattern.
    Only property theorems; every proof is [exact lemma].
    [reach init apply merge adm_any True H s K]: some replica is in state [s]
    after learning exactly the ops [K] of history [H] through any interleaving
    of deliveries (no order assumed, duplicates allowed) and merges. *)
From stdpp Require Import gmap.
From Crdt Require Import model.VClock model.Simple spec.System spec.OrswotSpec spec.Specs
  proofs.OrswotLayer proofs.Simple.
Local Open Scope N_scope.

(** GCounter (and VClock as a CRDT): per actor the largest running total learned *)
Theorem C11_gcounter (H : list (oprec dot)) s K :
  reach (∅ : vclock) vapply vmerge adm_any True H s K →
  s = gcspec H K ∧ ∀ a, vget s a = max_ctr (known_ops H K) a.
Proof. exact (λ Hr, conj (gc_reach_spec H s K Hr) (λ a, eq_trans (f_equal (λ c, vget c a) (gc_reach_spec H s K Hr)) (gcspec_get H K a))). Qed.
Print Assumptions C11_gcounter.

(** read = sum of the per-actor totals; it never decreases *)
Theorem C11_gcounter_read_monotone (c c' : vclock) :
  (∀ x, vget c x <= vget c' x) → gc_read c <= gc_read c'.
Proof. exact (gc_read_mono c c'). Qed.
Print Assumptions C11_gcounter_read_monotone.

(** an increment continues the actor's running total: nothing lost, nothing
    counted twice *)
Theorem C11_gcounter_increment (c : vclock) (a n : N) (d : dot) :
  gc_inc c a = Dot a (vget c a + 1) ∧ gc_inc_many c a n = Dot a (n + vget c a) ∧
  (vwf c → vget c (dactor d) <= dcounter d →
   gc_read (vapply c d) = gc_read c + (dcounter d - vget c (dactor d))).
Proof. exact (conj (gc_inc_total c a) (conj (gc_inc_many_total c a n) (gc_apply_read c d))). Qed.
Print Assumptions C11_gcounter_increment.

(** PNCounter: that aggregate for increments minus that for decrements *)
Theorem C11_pncounter (H : list (oprec pnop)) s K :
  reach pn_new pn_apply pn_merge adm_any True H s K →
  s = pnspec H K ∧ pn_read s = (Z.of_N (gc_read (pn_p s)) - Z.of_N (gc_read (pn_n s)))%Z.
Proof. exact (λ Hr, conj (pn_reach_pnspec H s K Hr) (pn_read_spec s)). Qed.
Print Assumptions C11_pncounter.

(** GSet: the union of the inserted elements *)
Theorem C11_gset (H : list (oprec N)) s K :
  reach (∅ : gset N) gs_apply gs_merge adm_any True H s K →
  ∀ x, x ∈ s ↔ x ∈ known_ops H K.
Proof. exact (λ Hr x, eq_ind_r (λ t, x ∈ t ↔ x ∈ known_ops H K) (gsspec_elem H K x) (gs_reach_spec H s K Hr)). Qed.
Print Assumptions C11_gset.

(** MaxReg / MinReg: the largest / smallest value ever applied *)
Theorem C11_maxreg init (H : list (oprec N)) s K :
  reach init max_update max_update adm_any True H s K →
  s = maxspec init H K ∧
  init <= maxspec init H K ∧ (∀ v, v ∈ known_ops H K → v <= maxspec init H K) ∧
  (maxspec init H K = init ∨ maxspec init H K ∈ known_ops H K).
Proof. exact (λ Hr, conj (max_reach_spec init H s K Hr) (maxspec_char init H K)). Qed.
Print Assumptions C11_maxreg.

Theorem C11_minreg init (H : list (oprec N)) s K :
  reach init min_update min_update adm_any True H s K →
  s = minspec init H K ∧
  minspec init H K <= init ∧ (∀ v, v ∈ known_ops H K → minspec init H K <= v) ∧
  (minspec init H K = init ∨ minspec init H K ∈ known_ops H K).
Proof. exact (λ Hr, conj (min_reach_spec init H s K Hr) (minspec_char init H K)). Qed.
Print Assumptions C11_minreg.

(** LWWReg: the value written with the greatest marker *)
Theorem C11_lwwreg init (H : list (oprec lww)) s K :
  reach init lww_merge lww_merge adm_any True H s K →
  lww_marker s = foldr N.max (lww_marker init) (lww_marker <$> known_ops H K) ∧
  (s = init ∨ s ∈ known_ops H K).
Proof. exact (lww_reach_spec init H s K). Qed.
Print Assumptions C11_lwwreg.

(** with unique markers the register itself is determined by the knowledge *)
Theorem C11_lwwreg_converges init (H : list (oprec lww)) s1 s2 K :
  lww_unique init H →
  reach init lww_merge lww_merge adm_any True H s1 K →
  reach init lww_merge lww_merge adm_any True H s2 K → s1 = s2.
Proof. exact (lww_converge init H s1 s2 K). Qed.
Print Assumptions C11_lwwreg_converges.

(** an equal marker with a different value is flagged as a conflict, and only that *)
Theorem C11_lww_conflict s v m : lww_conflict s v m = true ↔ lww_marker s = m ∧ lww_val s ≠ v.
Proof. exact (lww_conflict_spec s v m). Qed.
Print Assumptions C11_lww_conflict.
