(** C02 — merge is a join: commutative, associative, idempotent on reachable
    states.  Only property theorems; every proof is [exact lemma].
    Reachable = by any history of local edits, op deliveries (the type's own
    delivery contract; duplicates) and earlier merges, including states holding
    pending (deferred) removes.  Equalities are Leibniz equalities of complete
    states (for MVReg: up to the order of the internal vector), hence of all
    reads. *)
From stdpp Require Import gmap.
From Crdt Require Import model.VClock model.Simple model.Orswot model.MVReg model.List model.Merkle
  spec.System spec.Specs spec.OrswotSystem spec.MVRegSystem
  proofs.VClock proofs.Semilattice proofs.Simple proofs.OrswotSystem proofs.MVReg proofs.GListSystem proofs.MerkleSystem proofs.CrossType.
From Crdt Require Import model.Map proofs.MapFacts proofs.MapRefuted.
Local Open Scope N_scope.

Theorem C02_orswot H (Hok : ohist_ok H) s1 K1 s2 K2 s3 K3 :
  oreach H s1 K1 → oreach H s2 K2 → oreach H s3 K3 →
  omerge s1 s2 = omerge s2 s1 ∧ omerge (omerge s1 s2) s3 = omerge s1 (omerge s2 s3) ∧ omerge s1 s1 = s1.
Proof. exact (orswot_merge_laws H Hok s1 K1 s2 K2 s3 K3). Qed.
Print Assumptions C02_orswot.

Theorem C02_mvreg H s1 K1 s2 K2 s3 K3 : mvhist_ok H →
  mvreach H s1 K1 → mvreach H s2 K2 → mvreach H s3 K3 →
  mvmerge s1 s2 ≡ₚ mvmerge s2 s1 ∧ mvmerge (mvmerge s1 s2) s3 ≡ₚ mvmerge s1 (mvmerge s2 s3) ∧ mvmerge s1 s1 ≡ₚ s1.
Proof.
  exact (λ Hok H1 H2 H3, conj (mv_merge_comm H s1 K1 s2 K2 (mv_hist_ok_wf H Hok) H1 H2)
                        (conj (mv_merge_assoc H s1 K1 s2 K2 s3 K3 (mv_hist_ok_wf H Hok) H1 H2 H3)
                              (mv_merge_idem H s1 K1 (mv_hist_ok_wf H Hok) H1))).
Qed.
Print Assumptions C02_mvreg.

Theorem C02_glist (H : list (oprec (list (Qc * N)))) s1 K1 s2 K2 s3 K3 :
  glreach H s1 K1 → glreach H s2 K2 → glreach H s3 K3 →
  gl_merge s1 s2 = gl_merge s2 s1 ∧ gl_merge (gl_merge s1 s2) s3 = gl_merge s1 (gl_merge s2 s3) ∧ gl_merge s1 s1 = s1.
Proof.
  exact (λ H1 H2 H3, conj (gl_merge_comm H s1 K1 s2 K2 H1 H2)
                    (conj (gl_merge_assoc H s1 K1 s2 K2 s3 K3 H1 H2 H3) (gl_merge_idem H s1 K1 H1))).
Qed.
Print Assumptions C02_glist.

Theorem C02_merklereg hash (hi : ∀ n1 n2 : mnode, hash n1 = hash n2 → n1 = n2) H s1 K1 s2 K2 s3 K3 :
  mkreach hash H s1 K1 → mkreach hash H s2 K2 → mkreach hash H s3 K3 →
  mk_merge' hash s1 s2 = mk_merge' hash s2 s1 ∧
  mk_merge' hash (mk_merge' hash s1 s2) s3 = mk_merge' hash s1 (mk_merge' hash s2 s3) ∧
  mk_merge' hash s1 s1 = s1 ∧
  mk_merge hash s1 s2 = Some (mk_merge' hash s1 s2).
Proof.
  exact (λ H1 H2 H3, conj (mk_reach_merge_comm hash hi H s1 K1 s2 K2 H1 H2)
                    (conj (mk_reach_merge_assoc hash hi H s1 K1 s2 K2 s3 K3 H1 H2 H3)
                    (conj (mk_reach_merge_idem hash hi H s1 K1 H1)
                          (mk_merge_total hash hi H H s1 K1 s2 K2 H1 H2)))).
Qed.
Print Assumptions C02_merklereg.

(** VClock, GCounter, PNCounter, GSet, MaxReg, MinReg: join-semilattices; any
    delivery order *)
Theorem C02_vclock_gcounter (H : list (oprec dot)) s1 K1 s2 K2 s3 K3 :
  reach (∅ : vclock) vapply vmerge adm_any True H s1 K1 → reach ∅ vapply vmerge adm_any True H s2 K2 →
  reach ∅ vapply vmerge adm_any True H s3 K3 →
  vmerge s1 s2 = vmerge s2 s1 ∧ vmerge (vmerge s1 s2) s3 = vmerge s1 (vmerge s2 s3) ∧ vmerge s1 s1 = s1.
Proof. exact (gc_merge_laws H s1 K1 s2 K2 s3 K3). Qed.
Print Assumptions C02_vclock_gcounter.

Theorem C02_pncounter (H : list (oprec pnop)) s1 K1 s2 K2 s3 K3 :
  reach pn_new pn_apply pn_merge adm_any True H s1 K1 → reach pn_new pn_apply pn_merge adm_any True H s2 K2 →
  reach pn_new pn_apply pn_merge adm_any True H s3 K3 →
  pn_merge s1 s2 = pn_merge s2 s1 ∧ pn_merge (pn_merge s1 s2) s3 = pn_merge s1 (pn_merge s2 s3) ∧ pn_merge s1 s1 = s1.
Proof. exact (pn_merge_laws H s1 K1 s2 K2 s3 K3). Qed.
Print Assumptions C02_pncounter.

Theorem C02_gset_maxreg_minreg (s1 s2 s3 : gset N) (x y z : N) :
  (gs_merge s1 s2 = gs_merge s2 s1 ∧ gs_merge (gs_merge s1 s2) s3 = gs_merge s1 (gs_merge s2 s3) ∧ gs_merge s1 s1 = s1) ∧
  (max_update x y = max_update y x ∧ max_update (max_update x y) z = max_update x (max_update y z) ∧ max_update x x = x) ∧
  (min_update x y = min_update y x ∧ min_update (min_update x y) z = min_update x (min_update y z) ∧ min_update x x = x).
Proof. exact (simple_merge_laws s1 s2 s3 x y z). Qed.
Print Assumptions C02_gset_maxreg_minreg.

(** LWWReg with unique markers *)
Theorem C02_lwwreg (S : lww → Prop) :
  (∀ x y, S x → S y → lww_marker x = lww_marker y → x = y) →
  ∀ x y z, S x → S y → S z →
    lww_merge x y = lww_merge y x ∧ lww_merge (lww_merge x y) z = lww_merge x (lww_merge y z) ∧ lww_merge x x = x.
Proof. exact (lww_merge_laws S). Qed.
Print Assumptions C02_lwwreg.

(** Map is REFUTED (known finding T1): Map<_,MVReg>, no remove at all; three replicas holding prefixes of a 3-op API-generated history; the two groupings of the merges read differently under key 0 *)
Theorem C02_map_associativity_refuted_witness :
  let s0 := mnew in
         let op1 := upd_mv s0 3 1 7 in
         let s1 := mv_apply s0 op1 in
         let op2 := upd_mv s1 2 0 1 in
         let s2 := mv_apply s1 op2 in
         let op3 := upd_mv s2 2 0 0 in
         let s3 := mv_apply s2 op3 in
         let a := s2 in
         let b := s1 in
         let c := s3 in
         op1 = MUp {| dactor := 3; dcounter := 1 |} 1 (MVPut {[3 := 1]} 7)
         ∧ op2 = MUp {| dactor := 2; dcounter := 1 |} 0 (MVPut {[3 := 1; 2 := 1]} 1)
           ∧ op3 = MUp {| dactor := 2; dcounter := 2 |} 0 (MVPut {[3 := 1; 2 := 2]} 0)
             ∧ read_mv c 0 = Some [0]
               ∧ read_mv (mv_merge (mv_merge a b) c) 0 = Some [0]
                 ∧ read_mv (mv_merge a (mv_merge b c)) 0 = Some [1; 0]
                   ∧ mv_merge (mv_merge a b) c ≠ mv_merge a (mv_merge b c).
Proof. exact map_T1_assoc_refuted. Qed.
Print Assumptions C02_map_associativity_refuted_witness.

(** Map is REFUTED (known finding T3): two causal orders of the same four ops give states that are not == (a pending nested remove survives in one of them) although all reads agree *)
Theorem C02_map_residue_refuted_witness :
  let s0 := mnew in
         let op0 := upd_or_add s0 0 0 2 in
         let r0 := or_apply s0 op0 in
         let op1 := upd_or_add r0 0 1 0 in
         let r0' := or_apply r0 op1 in
         let r1 := or_apply s0 op0 in
         let op2 := upd_or_rm r1 1 0 2 in
         let op3 := rm_key_all oop r0' 0 in
         let op3' := rm_key oop r0' 0 in
         let deliver := foldl or_apply s0 in
         let x := deliver [op0; op1; op3; op2] in
         let y := deliver [op0; op1; op2; op3] in
         let x' := deliver [op0; op1; op3'; op2] in
         let y' := deliver [op0; op1; op2; op3'] in
         op0 = MUp {| dactor := 0; dcounter := 1 |} 0 (OAdd {| dactor := 0; dcounter := 1 |} [2])
         ∧ op1 = MUp {| dactor := 0; dcounter := 2 |} 1 (OAdd {| dactor := 0; dcounter := 2 |} [0])
           ∧ op2 = MUp {| dactor := 1; dcounter := 1 |} 0 (ORm {[0 := 1]} [2])
             ∧ op3 = MRm {[0 := 2]} {[0]}
               ∧ op3' = MRm {[0 := 1]} {[0]}
                 ∧ Forall (λ k : N, read_or x k = read_or y k) [0; 1; 2]
                   ∧ read_or x 0 = Some []
                     ∧ eval <$> mentries x !! 0 =
                       Some {| oclock := ∅; oentries := ∅; odeferred := {[{[0 := 1]} := {[2]}]} |}
                       ∧ eval <$> mentries y !! 0 =
                         Some {| oclock := ∅; oentries := ∅; odeferred := ∅ |}
                         ∧ x ≠ y ∧ x' ≠ y' ∧ x = x' ∧ y = y'.
Proof. exact map_T3_residue_refuted. Qed.
Print Assumptions C02_map_residue_refuted_witness.

From Crdt Require Import model.Map spec.System spec.OrswotSpec spec.OrswotSystem spec.MapSpec spec.MapSystem proofs.OrswotSystem proofs.MapKeys.

(** Map, key level (any nested value type): merge is commutative, associative, idempotent,
    equals learning the union of the two knowledge sets, and is the Orswot merge of the key layers *)
Theorem C02_map_keys_merge_laws {V O E} (vo : valops V O E) (H : list (oprec (mop O))) :
  owfH (habs H) ->
  forall (s1 : cmap V) (K1 : gset nat) (s2 : cmap V) (K2 : gset nat) (s3 : cmap V) (K3 : gset nat),
    mapreach vo H s1 K1 -> mapreach vo H s2 K2 -> mapreach vo H s3 K3 ->
    kabs (mmerge vo s1 s2) = kabs (mmerge vo s2 s1)
    /\ kabs (mmerge vo (mmerge vo s1 s2) s3) = kabs (mmerge vo s1 (mmerge vo s2 s3))
    /\ kabs (mmerge vo s1 s1) = kabs s1
    /\ kabs (mmerge vo s1 s2) = ospec (habs H) (K1 ∪ K2)
    /\ kabs (mmerge vo s1 s2) = omerge (kabs s1) (kabs s2).
Proof. exact (map_keys_merge_laws vo H). Qed.
Print Assumptions C02_map_keys_merge_laws.

(** Map<K, Orswot> whose keys are never removed: merge is commutative, associative and idempotent (Leibniz equality of complete
    states) on all states reachable through per-actor delivery, duplicates and merges (proofs/MapOrswotNK.v) *)
From Crdt Require Import model.Orswot model.Map spec.System spec.OrswotSpec spec.OrswotSystem spec.MapSpec spec.MapSystem spec.MapOrswotSpec proofs.MapOrswotNK proofs.MapOrswotNKCor.
Theorem C02_mapor_nk_merge_comm (H : list (oprec (mop oop))) :
  mohist_ok_nk H -> forall (s1 : cmap orswot) (K1 : gset nat) (s2 : cmap orswot) (K2 : gset nat),
  moreach_nk H s1 K1 -> moreach_nk H s2 K2 ->
  mmerge orswot_valops s1 s2 = mmerge orswot_valops s2 s1.
Proof. exact (mapor_merge_comm_nk H). Qed.
Print Assumptions C02_mapor_nk_merge_comm.

Theorem C02_mapor_nk_merge_assoc (H : list (oprec (mop oop))) :
  mohist_ok_nk H -> forall (s1 : cmap orswot) (K1 : gset nat) (s2 : cmap orswot) (K2 : gset nat) (s3 : cmap orswot) (K3 : gset nat),
  moreach_nk H s1 K1 -> moreach_nk H s2 K2 -> moreach_nk H s3 K3 ->
  mmerge orswot_valops (mmerge orswot_valops s1 s2) s3 = mmerge orswot_valops s1 (mmerge orswot_valops s2 s3).
Proof. exact (mapor_merge_assoc_nk H). Qed.
Print Assumptions C02_mapor_nk_merge_assoc.

Theorem C02_mapor_nk_merge_idem (H : list (oprec (mop oop))) :
  mohist_ok_nk H -> forall (s : cmap orswot) (K : gset nat), moreach_nk H s K -> mmerge orswot_valops s s = s.
Proof. exact (mapor_merge_idem_nk H). Qed.
Print Assumptions C02_mapor_nk_merge_idem.

(** Map<K1, Map<K2, Orswot>> when no key is ever removed: merge is commutative, associative and idempotent (Leibniz, complete states)
    on all states reachable through per-actor delivery, duplicates and merges (proofs/MapMapOrswotNK.v) *)
From Crdt Require Import model.Orswot model.Map spec.System spec.OrswotSpec spec.OrswotSystem spec.MapSpec spec.MapSystem spec.MapOrswotSpec spec.MapMapOrswotSpec spec.MapMapOrswotNKSpec proofs.MapMapOrswotNK.
Theorem C02_map2_nk_merge_comm (H : list (oprec (mop (mop oop)))) :
  m2hist_ok_nk H -> forall (s1 : cmap (cmap orswot)) (K1 : gset nat) (s2 : cmap (cmap orswot)) (K2 : gset nat),
  m2reach_nk H s1 K1 -> m2reach_nk H s2 K2 -> mmerge vo2 s1 s2 = mmerge vo2 s2 s1.
Proof. exact (map2_merge_comm_nk H). Qed.
Print Assumptions C02_map2_nk_merge_comm.

Theorem C02_map2_nk_merge_assoc (H : list (oprec (mop (mop oop)))) :
  m2hist_ok_nk H -> forall (s1 : cmap (cmap orswot)) (K1 : gset nat) (s2 : cmap (cmap orswot)) (K2 : gset nat) (s3 : cmap (cmap orswot)) (K3 : gset nat),
  m2reach_nk H s1 K1 -> m2reach_nk H s2 K2 -> m2reach_nk H s3 K3 ->
  mmerge vo2 (mmerge vo2 s1 s2) s3 = mmerge vo2 s1 (mmerge vo2 s2 s3).
Proof. exact (map2_merge_assoc_nk H). Qed.
Print Assumptions C02_map2_nk_merge_assoc.

Theorem C02_map2_nk_merge_idem (H : list (oprec (mop (mop oop)))) :
  m2hist_ok_nk H -> forall (s : cmap (cmap orswot)) (K : gset nat), m2reach_nk H s K -> mmerge vo2 s s = s.
Proof. exact (map2_merge_idem_nk H). Qed.
Print Assumptions C02_map2_nk_merge_idem.

(** Map<K, Orswot> WITH key removes and merges, in the fragment the known findings leave: members are added under keys and keys are removed (no nested remove: T3), and every key that some key remove names is updated at most once by each actor ([km_once]: T2 needs two updates of one actor): merge is commutative, associative and idempotent (Leibniz, complete states) on all reachable states (proofs/MapOrswotKM.v) *)
From Crdt Require Import model.Orswot model.Map spec.System spec.OrswotSpec spec.OrswotSystem spec.MapSpec spec.MapSystem spec.MapOrswotSpec spec.MapOrswotKM proofs.MapOrswotKM proofs.MapOrswotKMCor.
Theorem C02_mapor_km_merge_comm (H : list (oprec (mop oop))) :
  mohist_ok_km H -> km_once H -> forall (s1 : cmap orswot) (K1 : gset nat) (s2 : cmap orswot) (K2 : gset nat),
  moreach_km H s1 K1 -> moreach_km H s2 K2 -> mmerge orswot_valops s1 s2 = mmerge orswot_valops s2 s1.
Proof. exact (mapor_merge_comm_km H). Qed.
Print Assumptions C02_mapor_km_merge_comm.

Theorem C02_mapor_km_merge_assoc (H : list (oprec (mop oop))) :
  mohist_ok_km H -> km_once H -> forall (s1 : cmap orswot) (K1 : gset nat) (s2 : cmap orswot) (K2 : gset nat) (s3 : cmap orswot) (K3 : gset nat),
  moreach_km H s1 K1 -> moreach_km H s2 K2 -> moreach_km H s3 K3 ->
  mmerge orswot_valops (mmerge orswot_valops s1 s2) s3 = mmerge orswot_valops s1 (mmerge orswot_valops s2 s3).
Proof. exact (mapor_merge_assoc_km H). Qed.
Print Assumptions C02_mapor_km_merge_assoc.

Theorem C02_mapor_km_merge_idem (H : list (oprec (mop oop))) :
  mohist_ok_km H -> km_once H -> forall (s : cmap orswot) (K : gset nat), moreach_km H s K -> mmerge orswot_valops s s = s.
Proof. exact (mapor_merge_idem_km H). Qed.
Print Assumptions C02_mapor_km_merge_idem.

(** the hypothesis [km_once] is needed (known finding T2): actor 2 adds 8 then 9 under key 0, actor 3 removes key 0 having seen only
    the first add; merging the two replicas in either order resurrects member 8 *)
Theorem C02_mapor_km_once_needed :
  exists (H : list (oprec (mop oop))) (sA sB sD : cmap orswot) (KA KB : gset nat),
    mohist_ok_km H /\ ~ km_once H /\
    moreach_km H sA KA /\ moreach_km H sB KB /\ moreach_km H (mmerge orswot_valops sB sA) (KB ∪ KA) /\
    moreach_km H sD (KB ∪ KA) /\
    mmerge orswot_valops sB sA <> sD /\ mmerge orswot_valops sA sB <> sD /\
    mo_entries (known_ops H (KB ∪ KA)) 0 = {[9 := {[2 := 2]}]} /\
    mo_state_entries sD 0 = {[9 := {[2 := 2]}]} /\
    mo_state_entries (mmerge orswot_valops sB sA) 0 = {[8 := {[2 := 1]}; 9 := {[2 := 2]}]} /\
    mapor_km_ok H (KB ∪ KA) sD = true /\ mapor_km_ok H (KB ∪ KA) (mmerge orswot_valops sB sA) = false.
Proof. exact km_once_needed_closed. Qed.
Print Assumptions C02_mapor_km_once_needed.

(** Map<K, Orswot>, EVERY history outside the classes of the known findings T2 and T3 (all commands; a key that some key remove names receives only nested adds [kmn_addonly] and at most one update per actor [km_once]; any other key receives anything): merge is commutative, associative and idempotent (Leibniz, complete states) on all reachable states (proofs/MapOrswotKMN.v) *)
From Crdt Require Import model.Orswot model.Map spec.System spec.OrswotSpec spec.OrswotSystem spec.MapSpec spec.MapSystem spec.MapOrswotSpec spec.MapOrswotKM spec.MapOrswotKMN proofs.MapOrswotKMN proofs.MapOrswotKMNCor.
Theorem C02_mapor_kmn_merge_comm (H : list (oprec (mop oop))) :
  mohist_ok_kmn H -> km_once H -> kmn_addonly H -> forall (s1 : cmap orswot) (K1 : gset nat) (s2 : cmap orswot) (K2 : gset nat),
  moreach_kmn H s1 K1 -> moreach_kmn H s2 K2 -> mmerge orswot_valops s1 s2 = mmerge orswot_valops s2 s1.
Proof. exact (mapor_merge_comm_kmn H). Qed.
Print Assumptions C02_mapor_kmn_merge_comm.

Theorem C02_mapor_kmn_merge_assoc (H : list (oprec (mop oop))) :
  mohist_ok_kmn H -> km_once H -> kmn_addonly H ->
  forall (s1 : cmap orswot) (K1 : gset nat) (s2 : cmap orswot) (K2 : gset nat) (s3 : cmap orswot) (K3 : gset nat),
  moreach_kmn H s1 K1 -> moreach_kmn H s2 K2 -> moreach_kmn H s3 K3 ->
  mmerge orswot_valops (mmerge orswot_valops s1 s2) s3 = mmerge orswot_valops s1 (mmerge orswot_valops s2 s3).
Proof. exact (mapor_merge_assoc_kmn H). Qed.
Print Assumptions C02_mapor_kmn_merge_assoc.

Theorem C02_mapor_kmn_merge_idem (H : list (oprec (mop oop))) :
  mohist_ok_kmn H -> km_once H -> kmn_addonly H -> forall (s : cmap orswot) (K : gset nat), moreach_kmn H s K -> mmerge orswot_valops s s = s.
Proof. exact (mapor_merge_idem_kmn H). Qed.
Print Assumptions C02_mapor_kmn_merge_idem.

(** depth 3 without key removes (one more application of the functor of proofs/MapNKFunctor.v): merge laws on complete states *)
From Crdt Require Import model.Orswot model.Map spec.System spec.OrswotSpec spec.OrswotSystem spec.MapSpec spec.MapSystem spec.MapOrswotSpec spec.MapMapOrswotSpec spec.MapMapOrswotNKSpec proofs.MapMapOrswotNK proofs.MapNKFunctor proofs.MapNKFunctorInst.
Theorem C02_map3_nk_merge_comm (H : list (oprec (mop (mop (mop oop))))) :
  m3hist_ok_nk H -> forall (s1 : cmap (cmap (cmap orswot))) (K1 : gset nat) (s2 : cmap (cmap (cmap orswot))) (K2 : gset nat),
  m3reach_nk H s1 K1 -> m3reach_nk H s2 K2 -> mmerge (map_valops (map_valops orswot_valops)) s1 s2 = mmerge (map_valops (map_valops orswot_valops)) s2 s1.
Proof. exact (map3_merge_comm_nk H). Qed.
Print Assumptions C02_map3_nk_merge_comm.

Theorem C02_map3_nk_merge_assoc (H : list (oprec (mop (mop (mop oop))))) :
  m3hist_ok_nk H -> forall (s1 : cmap (cmap (cmap orswot))) (K1 : gset nat) (s2 : cmap (cmap (cmap orswot))) (K2 : gset nat) (s3 : cmap (cmap (cmap orswot))) (K3 : gset nat),
  m3reach_nk H s1 K1 -> m3reach_nk H s2 K2 -> m3reach_nk H s3 K3 ->
  mmerge (map_valops (map_valops orswot_valops)) (mmerge (map_valops (map_valops orswot_valops)) s1 s2) s3 = mmerge (map_valops (map_valops orswot_valops)) s1 (mmerge (map_valops (map_valops orswot_valops)) s2 s3).
Proof. exact (map3_merge_assoc_nk H). Qed.
Print Assumptions C02_map3_nk_merge_assoc.

Theorem C02_map3_nk_merge_idem (H : list (oprec (mop (mop (mop oop))))) :
  m3hist_ok_nk H -> forall (s : cmap (cmap (cmap orswot))) (K : gset nat), m3reach_nk H s K -> mmerge (map_valops (map_valops orswot_valops)) s s = s.
Proof. exact (map3_merge_idem_nk H). Qed.
Print Assumptions C02_map3_nk_merge_idem.
