(** C06 — MVReg read returns exactly the causally-maximal writes.  Only
    property theorems; every proof is [exact lemma].

    [mvhist_ok H]: every write of history [H] was generated through the API with
    the context of a read ([read]/[read_ctx] then [derive_add_ctx] then [write])
    at a replica that had applied its actor's earlier writes.
    [mvreach H s K]: some replica is in state [s] after learning exactly the
    writes [K] of [H] through any interleaving of deliveries — NO ordering
    assumption at all, duplicates allowed — and merges.
    [mvhb H j i]: write [i] had (transitively) observed write [j]. *)
From stdpp Require Import gmap.
From Crdt Require Import model.MVReg spec.System spec.Specs spec.MVRegSystem proofs.VClock proofs.MVRegHb proofs.MVReg.
Local Open Scope N_scope.

(** reading returns one value for every applied write that no other applied
    write had observed, and nothing else (concurrent writes all kept, even
    with equal values; as a multiset) *)
Theorem C06_read_is_maximal_writes H s K : mvhist_ok H → mvreach H s K →
  ∃ l : list nat, NoDup l ∧
    (∀ j, j ∈ l ↔ j ∈ K ∧ ∀ i, i ∈ K → ¬ mvhb H j i) ∧
    s ≡ₚ hpair H <$> l ∧ rval (mvread s) ≡ₚ hvalue H <$> l.
Proof. exact (λ Hok, mv_read_spec H s K (mv_hist_ok_wf H Hok)). Qed.
Print Assumptions C06_read_is_maximal_writes.

(** the state is the specification of the knowledge (up to the order of the
    internal vector) *)
Theorem C06_state_is_spec H s K : mvhist_ok H → mvreach H s K → s ≡ₚ mvspec H K.
Proof. exact (λ Hok Hr, proj1 (mv_reach_spec H s K (mv_hist_ok_wf H Hok) Hr)). Qed.
Print Assumptions C06_state_is_spec.

(** vector-clock order on write clocks IS the observed-by relation *)
Theorem C06_clock_order_is_observation H : mvhist_ok H →
  ∀ i j, is_Some (H !! i) → is_Some (H !! j) →
    (vleq (hclock H j) (hclock H i) ↔ j = i ∨ mvhb H j i).
Proof. exact (λ Hok, clock_hb H (mv_hist_ok_wf H Hok)). Qed.
Print Assumptions C06_clock_order_is_observation.

(** a write made with the context of a read replaces everything that read
    returned: applied where it was made the register reads exactly [v], and its
    clock strictly dominates every write the reader knew *)
Theorem C06_write_replaces_read H s K a v o : mvhist_ok H → mvreach H s K →
  mvgen s a (CWrite v) = Some o →
  mvapply s o = [(mvop_clock o, v)] ∧ rval (mvread (mvapply s o)) = [v] ∧
  (∀ j, j ∈ K → vlt (hclock H j) (mvop_clock o) = true).
Proof. exact (λ Hok, mv_write_after_read_reach H s K a v o (mv_hist_ok_wf H Hok)). Qed.
Print Assumptions C06_write_replaces_read.

(** ... and at every replica that learns it, everything the reader knew is gone *)
Theorem C06_write_supersedes_everywhere H s K a v o : mvhist_ok H → mvreach H s K →
  own_known H a K → mvgen s a (CWrite v) = Some o →
  let H' := H ++ [OpRec a o K] in
  mvwfH H' ∧
  ∀ s' K', mvreach H' s' K' → length H ∈ K' →
    (∀ j, j ∈ K → hpair H' j ∉ s') ∧
    ((mvop_clock o, v) ∈ s' ↔ ∀ i, i ∈ K' → ¬ mvhb H' (length H) i).
Proof. exact (λ Hok, mv_gen_supersedes H s K a v o (mv_hist_ok_wf H Hok)). Qed.
Print Assumptions C06_write_supersedes_everywhere.

(** a write is never shown again once some applied write has superseded it;
    an unobserved write is always shown *)
Theorem C06_superseded_never_reappears H s K j i : mvhist_ok H → mvreach H s K →
  (i ∈ K → mvhb H j i → hpair H j ∉ s) ∧
  (j ∈ K → (∀ i', i' ∈ K → ¬ mvhb H j i') → hpair H j ∈ s).
Proof.
  exact (λ Hok Hr, conj (mv_superseded_gone H s K j i (mv_hist_ok_wf H Hok) Hr)
                        (mv_unobserved_kept H s K j (mv_hist_ok_wf H Hok) Hr)).
Qed.
Print Assumptions C06_superseded_never_reappears.

(** the read context is the join of all applied write clocks *)
Theorem C06_read_context H s K : mvhist_ok H → mvreach H s K →
  add_clock (mvread s) = deps_clock H K ∧ rm_clock (mvread s) = deps_clock H K ∧
  add_clock (mvread_ctx s) = deps_clock H K.
Proof. exact (λ Hok, mv_read_ctx_clock H s K (mv_hist_ok_wf H Hok)). Qed.
Print Assumptions C06_read_context.

(** non-vacuity: two concurrent writes, then a write that read both *)
Theorem C06_nonvacuous :
  let o1 := MVPut {[1 := 1]} 7 in
  let o2 := MVPut {[2 := 1]} 8 in
  let s := mvapply (mvapply [] o2) o1 in
  let o3 := MVPut (vapply (mvclock s) (vinc (mvclock s) 1)) 9 in
  let H := [OpRec 1 o1 ∅; OpRec 2 o2 ∅; OpRec 1 o3 {[1%nat; 0%nat]}] in
  mvhist_ok H ∧ mvwfH H ∧ mvop_clock o3 = {[1 := 2; 2 := 1]} ∧
  mvreach H s {[1%nat; 0%nat]} ∧ rval (mvread s) = [8; 7] ∧
  rval (mvread (mvapply s o3)) = [9] ∧ rval (mvread (mvapply (mvapply [] o3) o1)) = [9].
Proof. exact mv_example. Qed.
Print Assumptions C06_nonvacuous.

(** Map<K, MVReg> (MVReg leaves) WITHOUT key removes, op-based replication (no state merges), per-actor delivery with duplicates: the sentence of this property for a register stored under a key of a Map - a value is stored under [k] iff a write of it
    under [k] is known and no known write of [k] has a strictly greater clock; under causal delivery "greater clock" is "its author had
    applied it"; under per-actor delivery that reading is too weak (closed counterexample in proofs/MapMVRegNK.v: mapmv_observed_not_enough)
    and the exact one is given (proofs/MapMVRegNK.v) *)
From Crdt Require Import model.MVReg model.Map spec.System spec.OrswotSpec spec.OrswotSystem spec.Specs spec.MapSpec spec.MapSystem spec.MapMVRegSpec proofs.MapMVRegNK.
Theorem C06_mapmv_stored_iff (H : list (oprec (mop mvop))) :
  mvhist_ok_nk H -> forall (s : cmap (list (gmap N N * N))) (K : gset nat) (k : N) (c : gmap N N) (v : N), mvreach_nk H s K ->
  ((c, v) ∈ mv_state_vals s k <->
    (exists d, MUp d k (MVPut c v) ∈ known_ops H K) /\
    forall d' c' v', MUp d' k (MVPut c' v') ∈ known_ops H K -> vlt c c' = false).
Proof. exact (mapmv_stored_iff_nk H). Qed.
Print Assumptions C06_mapmv_stored_iff.

Theorem C06_mapmv_clock_is_observation_causal (H : list (oprec (mop mvop))) (i : nat) (ri : oprec (mop mvop)) (di : dot) (ki : N) (ci : gmap N N) (vi : N)
    (j : nat) (rj : oprec (mop mvop)) (dj : dot) (kj : N) (cj : gmap N N) (vj : N) :
  mvhist_ok_nk_causal H ->
  H !! i = Some ri -> op_val ri = MUp di ki (MVPut ci vi) ->
  H !! j = Some rj -> op_val rj = MUp dj kj (MVPut cj vj) ->
  (vlt cj ci = true <-> j ∈ op_deps ri).
Proof. exact (mapmv_clock_observed_causal H i ri di ki ci vi j rj dj kj cj vj). Qed.
Print Assumptions C06_mapmv_clock_is_observation_causal.
