(** C19 — serialised replicas and ops round-trip and resume identically.  Only
    property theorems; every proof is [exact lemma].

    The theorems are about a MODEL of the JSON that serde's derive output and
    serde_json produce for the crate's types (coq/model/Serde.v: [enc] returns
    [None] where serde_json returns an error; [dec] accepts any member order);
    the model is tied to the real crates by the correspondence check, which
    compares the real serde_json::to_value output with [enc] and the real
    from_str result with [dec] on every sampled state.  The restored value is
    Leibniz-equal to the original, hence behaves identically under every later
    apply, merge and read.

    REFUTED for states holding a pending remove (known finding K3): serde_json
    cannot serialise the HashMap<VClock,_> table ("key must be a string"). *)
From stdpp Require Import gmap.
From Crdt Require Import model.VClock model.Simple model.Orswot model.MVReg model.Map model.List model.Merkle
  model.Serde proofs.Identifier proofs.Serde.
Local Open Scope N_scope.

(** states: every Orswot / Map state without pending removes, every other
    state unconditionally *)
Theorem C19_orswot_roundtrip (s : orswot) : odeferred s = ∅ →
  ∃ j, enc_orswot s = Some j ∧ dec_orswot j = Some s.
Proof. exact (C19_orswot s). Qed.
Print Assumptions C19_orswot_roundtrip.

Theorem C19_map_roundtrip {V} (c : codec V) (P : V → Prop) (m : cmap V) :
  (∀ v, P v → ∃ j, enc c v = Some j ∧ dec c j = Some v) →
  mdeferred m = ∅ → (∀ k e, mentries m !! k = Some e → P (eval e)) →
  ∃ j, enc (cmap_codec c) m = Some j ∧ dec (cmap_codec c) j = Some m.
Proof. exact (C19_map c P m). Qed.
Print Assumptions C19_map_roundtrip.

Theorem C19_nested_map_roundtrip :
  codec_ok (map_no_pending (map_no_pending (λ s : orswot, odeferred s = ∅))) (cmap_codec (cmap_codec orswot_codec)).
Proof. exact map_map_orswot_rt. Qed.
Print Assumptions C19_nested_map_roundtrip.

Theorem C19_simple_states_roundtrip :
  codec_total vclock_codec ∧ codec_total pncounter_codec ∧ codec_total lww_codec ∧
  codec_total merkle_codec ∧ (∀ r, ∃ j, enc_mvreg r = Some j ∧ dec_mvreg j = Some r).
Proof. exact (conj vclock_rt (conj pncounter_rt (conj lww_rt (conj merkle_rt C19_mvreg)))). Qed.
Print Assumptions C19_simple_states_roundtrip.

Theorem C19_list_glist_roundtrip :
  (∀ s : clist, sorted_keys odcmp (lseq s) →
     ∃ j, enc (clist_codec z_codec) s = Some j ∧ dec (clist_codec z_codec) j = Some s) ∧
  (∀ g : list (list (Qc * N)), sorted_ids ncompare g →
     ∃ j, enc (glist_codec z_codec) g = Some j ∧ dec (glist_codec z_codec) j = Some g).
Proof. exact (conj clist_rt_sorted_z glist_rt_sorted_z). Qed.
Print Assumptions C19_list_glist_roundtrip.

(** ops of every type always round-trip *)
Theorem C19_ops_roundtrip :
  (∀ o : oop, ∃ j, enc_oop o = Some j ∧ dec_oop j = Some o) ∧
  codec_total (mop_codec (mop_codec oop_codec)) ∧ codec_total (lop_codec z_codec).
Proof. exact (conj C19_oop (conj mop_mop_oop_rt lop_rt_z)). Qed.
Print Assumptions C19_ops_roundtrip.

(** decoding does not depend on the order of object members *)
Theorem C19_decoding_order_insensitive l l' : l ≡ₚ l' →
  dec_orswot (JObj l) = dec_orswot (JObj l') ∧
  (NoDup l.*1 → dec_vclock (JObj l) = dec_vclock (JObj l')).
Proof. exact (λ Hp, conj (dec_orswot_perm l l' Hp) (dec_vclock_perm l l' Hp)). Qed.
Print Assumptions C19_decoding_order_insensitive.

(** REFUTED: serialisation fails exactly for states holding a pending remove,
    at any nesting depth *)
Theorem C19_pending_remove_refuted (s : orswot) {V} (c : codec V) (m : cmap V) :
  (enc_orswot s = None ↔ odeferred s ≠ ∅) ∧
  (enc (cmap_codec c) m = None ↔
     mdeferred m ≠ ∅ ∨ ∃ k e, mentries m !! k = Some e ∧ enc c (eval e) = None).
Proof. exact (conj (orswot_enc_None s) (cmap_enc_None c m)). Qed.
Print Assumptions C19_pending_remove_refuted.

Theorem C19_deferred_refuted_witness :
  odeferred C19_deferred_witness = {[ {[1 := 1]} := {[5]} ]} ∧ enc_orswot C19_deferred_witness = None.
Proof. exact (conj C19_deferred_witness_pending C19_deferred_witness_fails). Qed.
Print Assumptions C19_deferred_refuted_witness.
