(** Value-level refinement of [Map<K1, Map<K2, Orswot<M>>>] (property C05 "at every nesting
    depth", depth 2) under op-based replication with causal delivery (duplicates allowed, no
    state merges): in every reachable state, for every outer key, the table of inner keys
    (with their clocks) and the member table of every innermost Orswot are exactly the
    specification (spec/MapMapOrswotSpec.v) of the ops the replica has learned.

    The outer key layer is proofs/MapKeys.v.  The invariant carried through [reach]
    ([m2_inv]): the outer map has no pending key remove; for every present outer key the
    inner key table and all member tables are the specification, and the inner map satisfies
    [iminv] (proofs/MapMapOrswotA.v: clocks below the outer clock, pending inner key removes
    and pending member removes inert).  Facts about the history ([hist_facts2]: remove
    contexts are below the outer clock their author had; inner updates and nested adds carry
    the dot of the outer update) are established by induction on the history. *)
From stdpp Require Import gmap.
From Crdt Require Import model.Orswot model.Map spec.System spec.OrswotSpec spec.OrswotSystem
  spec.MapSpec spec.MapSystem spec.MapOrswotSpec spec.MapMapOrswotSpec proofs.VClock proofs.Reset
  proofs.OrswotLayer proofs.OrswotL1 proofs.OrswotL2 proofs.OrswotSystem proofs.MapFacts proofs.MapKeys
  proofs.MapOrswot proofs.MapMapOrswotA.
From Coq Require Import ZifyBool ZifyN ZifyNat.
Local Open Scope N_scope.

Local Notation vo := orswot_valops.
Local Notation op2 := (mop (mop oop)).

(** * Part 1: transport to the key layer *)
Lemma m2reach_mapreach H s K : m2hist_ok H → m2reach H s K → mapreach vo2 H s K.
Proof. apply creach_per_actor. Qed.

Lemma m2hist_maphist H : m2hist_ok H → maphist_ok vo2 H.
Proof.
  induction 1 as [|H s K a cmd o Hok IH Hr Hown Hgen]; [constructor|].
  apply (hist_snoc _ _ _ _ _ _ H s K a (m2_cmd cmd) o); [done| |done|done].
  by apply m2reach_mapreach.
Qed.

(** * Part 2: tables that are specifications are well-formed *)
Lemma trep_imwf (t : cmap orswot) T1 T2 :
  trep (ic t) T1 → (∀ k, trep (mo_state_entries t k) (T2 k)) →
  (∀ k, vwf (T1 k)) → (∀ k m, vwf (T2 k m)) → imwf t.
Proof.
  intros H1 H2 W1 W2 k e He.
  assert (ic t !! k = Some (eclock e)) as Hic by (unfold ic; by rewrite lookup_fmap, He).
  destruct (trep_Some _ _ _ _ H1 Hic) as [-> Hne]. split; [by split|].
  intros m mc Hm. specialize (H2 k). unfold mo_state_entries in H2. rewrite He in H2.
  destruct (trep_Some _ _ _ _ H2 Hm) as [-> Hne']. by split.
Qed.
Lemma trep_imle (t : cmap orswot) T1 T2 :
  trep (ic t) T1 → (∀ k, trep (mo_state_entries t k) (T2 k)) →
  (∀ k m, vleq (T2 k m) (T1 k)) → imle t.
Proof.
  intros H1 H2 Hle k e m mc He Hm.
  assert (ic t !! k = Some (eclock e)) as Hic by (unfold ic; by rewrite lookup_fmap, He).
  destruct (trep_Some _ _ _ _ H1 Hic) as [-> _].
  specialize (H2 k). unfold mo_state_entries in H2. rewrite He in H2.
  by destruct (trep_Some _ _ _ _ H2 Hm) as [-> _].
Qed.

Lemma trep_orm_list M T T' (ms : list N) c : trep M T →
  (∀ k, T' k = if decide (k ∈ ms) then vreset (T k) c else T k) →
  trep (orm_entries M (list_to_set ms) c) T'.
Proof.
  intros HM HT. eapply trep_orm; [done|]. intros k. rewrite HT.
  destruct (decide (k ∈ ms)); [rewrite decide_True|rewrite decide_False]; try done; by rewrite elem_of_list_to_set.
Qed.

(** * Part 3: the refinement *)

(** ** what the refinement needs to know about the history *)
Definition op_ctx_le (clk : gmap N N) (o : op2) : Prop :=
  match o with
  | MRm c _ | MUp _ _ (MRm c _) | MUp _ _ (MUp _ _ (ORm c _)) => vleq c clk
  | MUp _ _ (MUp _ _ (OAdd _ _)) => True
  end.
Definition op_shape (o : op2) : Prop :=
  match o with
  | MUp d _ (MUp d' _ o') => d' = d ∧ match o' with OAdd d'' _ => d'' = d | ORm _ _ => True end
  | _ => True
  end.
Definition op_wf2 (H : list (oprec op2)) (D : gset nat) (o : op2) : Prop :=
  op_ctx_le (mspec_clock (known_ops H D)) o ∧ op_shape o.
Definition hist_facts2 (H : list (oprec op2)) : Prop :=
  ∀ j r, H !! j = Some r → op_wf2 H (op_deps r) (op_val r).

Lemma op_ctx_le_mono clk clk' o : vleq clk clk' → op_ctx_le clk o → op_ctx_le clk' o.
Proof.
  intros Hle. destruct o as [c ks|d k [c ks|d' k' [d'' ms|c ms]]]; cbn; try done;
    intros Hc; by eapply vleq_trans.
Qed.
Lemma op_ctx_le_cov clk o k1 k2 m x :
  op_ctx_le clk o → mb_cov k1 k2 m o x → dcounter x <= vget clk (dactor x).
Proof.
  destruct o as [c ks|d k [c ks|d' k' [d'' ms|c ms]]]; cbn; try done;
    intros Hc [_ Hle]; specialize (Hc (dactor x)); lia.
Qed.

(** ** the invariant *)
Definition m2_inv (H : list (oprec op2)) (s : cmap (cmap orswot)) (K : gset nat) : Prop :=
  mdeferred s = ∅ ∧
  ∀ k1 e, mentries s !! k1 = Some e →
    trep (ic (eval e)) (ik_clock (known_ops H K) k1) ∧
    (∀ k2, trep (mo_state_entries (eval e) k2) (mb_clock (known_ops H K) k1 k2)) ∧
    iminv (mclock s) (eval e).

Section main.
  Context (H : list (oprec op2)) (Hm2 : m2hist_ok H) (Hf : hist_facts2 H).
  Let Hmap : maphist_ok vo2 H := m2hist_maphist H Hm2.
  Let HH : owfH (habs H) := maphist_ok_wf vo2 H Hmap.
  Implicit Types (s : cmap (cmap orswot)) (K : gset nat) (k m : N).

  Lemma m2_shape_known K : m2_shape (known_ops H K).
  Proof using Hf.
    intros d0 k d k' o (i & r & Hi & _ & Hv)%elem_of_known_ops. destruct (Hf i r Hi) as [_ Hs].
    rewrite Hv in Hs. cbn in Hs. destruct Hs as [-> Hs]. split; [done|]. by destruct o.
  Qed.

  Lemma key_clock2 s K : m2reach H s K → mclock s = mspec_clock (known_ops H K) ∧ ovalid (habs H) K.
  Proof using Hm2.
    intros Hr%(m2reach_mapreach H s K Hm2). split.
    - by destruct (map_keys_reach_mspec vo2 H HH s K Hr).
    - by destruct (map_keys_reach_spec vo2 H HH s K Hr).
  Qed.

  (** contexts of the ops whose dependencies are known are below the outer clock *)
  Lemma ctx_le2 s K j r : m2reach H s K → H !! j = Some r → op_deps r ⊆ K →
    op_ctx_le (mclock s) (op_val r).
  Proof using Hm2 Hf.
    intros Hr Hj Hd. destruct (key_clock2 s K Hr) as [-> _]. destruct (Hf j r Hj) as [Hc _].
    eapply op_ctx_le_mono; [|exact Hc]. apply mspec_clock_mono. intros o. by apply known_ops_mono_K.
  Qed.
  Lemma ctx_known2 s K o : m2reach H s K → o ∈ known_ops H K → op_ctx_le (mclock s) o.
  Proof using Hm2 Hf.
    intros Hr (i & r & Hi & HiK & <-)%elem_of_known_ops.
    apply (ctx_le2 s K i r Hr Hi). by apply (creach_closed _ _ _ H s K Hr i r HiK Hi).
  Qed.

  (** the dedup gate of the outer map recognises exactly the known updates *)
  Lemma up_gate2 s K i r d k o : m2reach H s K → H !! i = Some r → op_val r = MUp d k o →
    (i ∈ K → dcounter d <= vget (mclock s) (dactor d)) ∧
    (i ∉ K → vget (mclock s) (dactor d) < dcounter d) ∧
    dcounter d ≠ 0.
  Proof using Hm2.
    intros Hr Hi Hv. destruct (key_clock2 s K Hr) as [Ec Hval].
    pose proof (hmap_lookup_Some oabs H i r Hi) as Hi'.
    assert (op_val (OpRec (op_author r) (oabs (op_val r)) (op_deps r)) = OAdd d [k]) as Hv'.
    { cbn. by rewrite Hv. }
    split_and!.
    - intros HiK. rewrite Ec. unfold mspec_clock. rewrite dots_clock_get. apply max_ctr_ge; [|done].
      apply elem_of_mall_dots. exists k, o. apply elem_of_known_ops. by exists i, r.
    - intros HiK. destruct (decide (dcounter d <= vget (mclock s) (dactor d))) as [Hle|]; [|lia].
      destruct HiK. apply (seen (habs H) K i _ d [k] HH Hval Hi' Hv').
      by rewrite known_ops_habs, <- mspec_clock_abs, <- Ec.
    - destruct (owfH_add _ _ _ _ _ HH Hi' Hv') as (_ & Hc & _). lia.
  Qed.

  Lemma fresh_not_covered2 s K d : m2reach H s K → vget (mclock s) (dactor d) < dcounter d →
    ∀ k1 k2 m, ¬ ∃ o, o ∈ known_ops H K ∧ mb_cov k1 k2 m o d.
  Proof using Hm2 Hf.
    intros Hr Hd k1 k2 m (o & Ho & Hc).
    pose proof (op_ctx_le_cov _ _ _ _ _ _ (ctx_known2 s K o Hr Ho) Hc). lia.
  Qed.

  (** an absent outer key has neither inner keys nor members in the specification *)
  Lemma absent_spec2 s K k1 : m2reach H s K → mentries s !! k1 = None →
    (∀ k2, ik_clock (known_ops H K) k1 k2 = ∅) ∧ (∀ k2 m, mb_clock (known_ops H K) k1 k2 m = ∅).
  Proof using Hm2 Hf.
    intros Hr Hn.
    assert (∀ d o, MUp d k1 o ∈ known_ops H K → mcovered (known_ops H K) k1 d = true) as Hcov.
    { intros d o Hin. destruct (mcovered (known_ops H K) k1 d) eqn:Ec; [done|]. exfalso.
      apply (m2reach_mapreach H s K Hm2) in Hr.
      destruct (map_key_present_iff vo2 H HH s K k1 Hr) as (_ & Hp & _).
      assert (k1 ∈ dom (mentries s)) as Hd.
      { apply Hp. exists d, o. split; [done|]. rewrite <- mcovered_spec. by rewrite Ec. }
      apply elem_of_dom in Hd as [? ?]. congruence. }
    split; [intros k2; apply ik_clock_key_covered|intros k2 m; apply mb_clock_key_covered];
      try done; apply m2_shape_known.
  Qed.

  Lemma inv_default2 s K k1 : m2reach H s K → m2_inv H s K →
    let t0 := eval (default (MEntry ∅ mnew) (mentries s !! k1)) in
    trep (ic t0) (ik_clock (known_ops H K) k1) ∧
    (∀ k2, trep (mo_state_entries t0 k2) (mb_clock (known_ops H K) k1 k2)) ∧
    iminv (mclock s) t0.
  Proof using Hm2 Hf.
    intros Hr [_ Hi]. destruct (mentries s !! k1) as [e|] eqn:E; cbn.
    - by apply Hi.
    - destruct (absent_spec2 s K k1 Hr E) as [A1 A2]. split_and!.
      + by apply trep_empty.
      + intros k2. by apply trep_empty.
      + apply iminv_new.
  Qed.

  Lemma inv_wf K k1 (t : cmap orswot) :
    trep (ic t) (ik_clock (known_ops H K) k1) →
    (∀ k2, trep (mo_state_entries t k2) (mb_clock (known_ops H K) k1 k2)) →
    imwf t ∧ imle t.
  Proof using Hf.
    intros T1 T2. split.
    - eapply trep_imwf; [exact T1|exact T2|intros; apply ik_clock_wf|intros; apply mb_clock_wf].
    - eapply trep_imle; [exact T1|exact T2|]. intros k2 m. apply mb_clock_le_ik, m2_shape_known.
  Qed.

  (** ** the step *)
  Lemma m2_step s K i r : m2reach H s K → m2_inv H s K → H !! i = Some r → adm_causal H K i →
    m2_inv H (mapply vo2 s (op_val r)) (K ∪ {[i]}).
  Proof using Hm2 Hf.
    intros Hr Hinv Hi (r' & Hi' & Hdeps). assert (r' = r) as -> by congruence. clear Hi'.
    pose proof (λ o, known_ops_add_elem H K i r o Hi) as Hos'.
    pose proof (ctx_le2 s K i r Hr Hi Hdeps) as Hctx.
    destruct (Hf i r Hi) as [_ Hshape].
    pose proof (owfH_habs_mopwf H i r HH Hi) as Hwf.
    destruct (key_clock2 s K Hr) as [Ec _].
    unfold m2_inv in *. set (os := known_ops H K) in *. set (os' := known_ops H (K ∪ {[i]})) in *.
    destruct (op_val r) as [c ks|d k op] eqn:Ho.
    - (* outer key remove *)
      cbn in Hwf, Hctx. destruct Hinv as [Hdef Hent].
      assert (mapply vo2 s (MRm c ks) = CMap (mclock s) (mrm_entries vo2 (mentries s) ks c) (mdeferred s)) as ->.
      { cbn [mapply]. unfold mapply_rm.
        destruct (vcmp_ge (mclock s) c) as [-> | ->]; [rewrite Ec; apply dots_clock_wf|done|done|done|done]. }
      split; [done|]. cbn [mentries mclock]. intros k1 e'. rewrite mrm_entries_lookup.
      destruct (mentries s !! k1) as [e|] eqn:E; [|done]. cbn [mbind option_bind].
      destruct (Hent k1 e E) as (T1 & T2 & V). case_bool_decide as Hk.
      + destruct (vis_empty _); [done|]. intros [= <-]. cbn [eval v_reset map_valops].
        destruct (inv_wf K k1 _ T1 T2) as [W L].
        destruct (inner_reset (eval e) (mclock s) c W L V) as (R1 & R2 & R3).
        split_and!; [| |done].
        * rewrite R1. eapply trep_kreset; [exact T1|]. intros k2.
          by rewrite (ik_step_krm os os' _ Hos' c ks k1 k2 eq_refl), decide_True.
        * intros k2. rewrite R2. eapply trep_kreset; [apply T2|]. intros m.
          by rewrite (mb_step_krm os os' _ Hos' c ks k1 k2 m eq_refl), decide_True.
      + intros [= <-]. split_and!; [| |done].
        * eapply trep_ext; [|exact T1]. intros k2.
          by rewrite (ik_step_krm os os' _ Hos' c ks k1 k2 eq_refl), decide_False.
        * intros k2. eapply trep_ext; [|apply T2]. intros m.
          by rewrite (mb_step_krm os os' _ Hos' c ks k1 k2 m eq_refl), decide_False.
    - destruct (up_gate2 s K i r d k op Hr Hi Ho) as (G1 & G2 & G3).
      destruct (decide (i ∈ K)) as [HiK|HiK].
      + rewrite mapply_dedup by auto. subst os os'. replace (K ∪ {[i]}) with K by set_solver. done.
      + specialize (G2 HiK). rewrite mapply_up_fresh by done.
        pose proof (fresh_not_covered2 s K d Hr G2) as Hnc.
        assert (∀ k1 k2, ¬ ∃ o, o ∈ os ∧ ik_cov k1 k2 o d) as Hnc'.
        { intros k1 k2 (o & Ho' & Hc). apply (Hnc k1 k2 0). exists o. split; [done|by apply ik_cov_mb_cov]. }
        destruct (inv_default2 s K k Hr Hinv) as (T1 & T2 & V0). destruct Hinv as [Hdef Hent].
        rewrite mapply_deferred_empty by done.
        split; [done|]. cbn [mentries mclock]. intros k1 e'.
        destruct (decide (k1 = k)) as [->|Hne].
        * rewrite lookup_insert. intros [= <-]. cbn [eval v_apply v_default map_valops] in *.
          set (t0 := eval (default (MEntry ∅ mnew) (mentries s !! k))) in *.
          destruct (inv_wf K k _ T1 T2) as [W L].
          destruct op as [c ks|d' k2 op].
          -- (* inner key remove *)
             cbn in Hctx. destruct (inner_rm t0 (mclock s) c ks W L V0 Hctx) as (R1 & R2 & R3).
             split_and!.
             ++ rewrite R1. eapply trep_orm; [exact T1|]. intros k2.
                rewrite (ik_step_irm os os' _ Hos' d k c ks k k2 eq_refl).
                destruct (decide (k2 ∈ ks)); [by rewrite decide_True|rewrite decide_False; tauto].
             ++ intros k2. rewrite R2. destruct (decide (k2 ∈ ks)).
                ** eapply trep_kreset; [apply T2|]. intros m.
                   by rewrite (mb_step_irm os os' _ Hos' d k c ks k k2 m eq_refl), decide_True.
                ** eapply trep_ext; [|apply T2]. intros m.
                   rewrite (mb_step_irm os os' _ Hos' d k c ks k k2 m eq_refl), decide_False; tauto.
             ++ eapply iminv_mono; [|done]. intros a. apply vapply_mono.
          -- (* inner update *)
             cbn in Hshape, Hctx. destruct Hshape as [-> Hshape].
             assert (match op with OAdd d' _ => d' = d | ORm c _ => vleq c (mclock s) end) as Hop.
             { by destruct op. }
             destruct (inner_up t0 (mclock s) d k2 op W V0 G2 Hop) as (R1 & R2 & R3).
             split_and!; [| |done].
             ++ rewrite R1. eapply trep_insert; [done|exact T1|]. intros k2'.
                rewrite (ik_step_up os os' _ Hos' d k d k2 op k k2' eq_refl (Hnc' _ _)).
                destruct (decide (k2' = k2)) as [->|]; [by rewrite decide_True|rewrite decide_False; [done|]].
                intros [_ ?]. congruence.
             ++ intros k2'. rewrite R2. destruct (decide (k2' = k2)) as [->|Hne2].
                ** destruct op as [d'' ms|c ms].
                   --- subst d''. eapply trep_oadd; [done|apply T2|]. intros m.
                       rewrite (mb_step_add os os' _ Hos' d k d k2 d ms k k2 m eq_refl (Hnc _ _)).
                       destruct (decide (m ∈ ms)); [by rewrite decide_True|rewrite decide_False; tauto].
                   --- eapply trep_orm_list; [apply T2|]. intros m.
                       rewrite (mb_step_orm os os' _ Hos' d k d k2 c ms k k2 m eq_refl).
                       destruct (decide (m ∈ ms)); [by rewrite decide_True|rewrite decide_False; tauto].
                ** eapply trep_ext; [|apply T2]. intros m. destruct op as [d'' ms|c ms].
                   --- subst d''. rewrite (mb_step_add os os' _ Hos' d k d k2 d ms k k2' m eq_refl (Hnc _ _)).
                       rewrite decide_False; [done|]. intros (_ & ? & _). congruence.
                   --- rewrite (mb_step_orm os os' _ Hos' d k d k2 c ms k k2' m eq_refl).
                       rewrite decide_False; [done|]. intros (_ & ? & _). congruence.
        * rewrite lookup_insert_ne by done. intros He'. destruct (Hent k1 e' He') as (T1' & T2' & V').
          split_and!.
          -- eapply trep_ext; [|exact T1']. intros k2. destruct op as [c ks|d' k' op].
             ++ rewrite (ik_step_irm os os' _ Hos' d k c ks k1 k2 eq_refl), decide_False; [done|].
                intros [? _]. congruence.
             ++ cbn in Hshape. destruct Hshape as [-> _].
                rewrite (ik_step_up os os' _ Hos' d k d k' op k1 k2 eq_refl (Hnc' _ _)), decide_False; [done|].
                intros [? _]. congruence.
          -- intros k2. eapply trep_ext; [|apply T2']. intros m. destruct op as [c ks|d' k' [d'' ms|c ms]].
             ++ rewrite (mb_step_irm os os' _ Hos' d k c ks k1 k2 m eq_refl), decide_False; [done|].
                intros [? _]. congruence.
             ++ cbn in Hshape. destruct Hshape as [-> ->].
                rewrite (mb_step_add os os' _ Hos' d k d k' d ms k1 k2 m eq_refl (Hnc _ _)), decide_False; [done|].
                intros [? _]. congruence.
             ++ rewrite (mb_step_orm os os' _ Hos' d k d' k' c ms k1 k2 m eq_refl), decide_False; [done|].
                intros [? _]. congruence.
          -- eapply iminv_mono; [|done]. intros a. apply vapply_mono.
  Qed.

  Theorem m2_inv_reach s K : m2reach H s K → m2_inv H s K.
  Proof using Hm2 Hf.
    induction 1 as [|s K i o Hr IH Ho Ha|s1 K1 s2 K2 Hm Hr1 IH1 Hr2 IH2]; [| |done].
    - split; [done|]. intros k e. cbn. by rewrite lookup_empty.
    - by apply m2_step.
  Qed.

  Theorem m2_refine s K k1 : m2reach H s K →
    m2_state_inner_clocks s k1 = m2_inner_clocks (known_ops H K) k1 ∧
    ∀ k2, m2_state_entries s k1 k2 = m2_entries (known_ops H K) k1 k2.
  Proof using Hm2 Hf.
    intros Hr. destruct (m2_inv_reach s K Hr) as [_ Hent].
    unfold m2_state_inner_clocks, m2_state_entries.
    destruct (mentries s !! k1) as [e|] eqn:E.
    - destruct (Hent k1 e E) as (T1 & T2 & _). split.
      + eapply trep_eq; [exact T1|apply m2_inner_clocks_trep].
      + intros k2. eapply trep_eq; [apply T2|apply m2_entries_trep].
    - destruct (absent_spec2 s K k1 Hr E) as [A1 A2]. split.
      + eapply trep_eq; [|apply m2_inner_clocks_trep]. apply trep_empty, A1.
      + intros k2. eapply trep_eq; [|apply m2_entries_trep]. apply trep_empty, A2.
  Qed.

  (** every clock stored in a reachable state is below the outer clock *)
  Lemma m2_bounds s K k1 e : m2reach H s K → mentries s !! k1 = Some e →
    vleq (mclock (eval e)) (mclock s) ∧
    ∀ k2 e2, mentries (eval e) !! k2 = Some e2 →
      vleq (eclock e2) (mclock s) ∧ vleq (oclock (eval e2)) (mclock s) ∧
      ∀ m mc, oentries (eval e2) !! m = Some mc → vleq mc (mclock s).
  Proof using Hm2 Hf.
    intros Hr He. destruct (m2_inv_reach s K Hr) as [_ Hent]. destruct (Hent k1 e He) as (T1 & T2 & V1 & V2 & _).
    destruct (key_clock2 s K Hr) as [Ec _]. pose proof (m2_shape_known K) as Hsh.
    split; [done|]. intros k2 e2 He2. split_and!.
    - assert (ic (eval e) !! k2 = Some (eclock e2)) as Hic by (unfold ic; by rewrite lookup_fmap, He2).
      destruct (trep_Some _ _ _ _ T1 Hic) as [-> _]. rewrite Ec. by apply ik_clock_le_clock.
    - by destruct (V2 k2 e2 He2).
    - intros m mc Hm. specialize (T2 k2). unfold mo_state_entries in T2. rewrite He2 in T2.
      destruct (trep_Some _ _ _ _ T2 Hm) as [-> _]. rewrite Ec. by apply mb_clock_le_clock.
  Qed.
End main.

(** ** the facts hold of every API-generated history *)
Lemma op_wf2_mono H H' D o : op_wf2 H D o → op_wf2 (H ++ H') D o.
Proof.
  intros [Hc Hs]. split; [|done]. eapply op_ctx_le_mono; [|exact Hc].
  apply mspec_clock_mono. intros o'. apply known_ops_mono_H.
Qed.

(** what the API generates at a reachable state satisfies them *)
Lemma m2gen_op_wf H s K a cmd o :
  m2hist_ok H → hist_facts2 H → m2reach H s K → m2gen s a cmd = Some o → op_wf2 H K o.
Proof.
  intros Hok Hf Hr Hgen.
  pose proof (maphist_ok_wf vo2 H (m2hist_maphist H Hok)) as HH.
  pose proof (m2_bounds H Hok Hf s K) as Hb.
  pose proof (m2reach_mapreach H s K Hok Hr) as Hr'.
  destruct (map_keys_reach_mspec vo2 H HH s K Hr') as (Ec & _ & Ee & _).
  unfold op_wf2. rewrite <- Ec.
  assert (∀ k1, let t := default mnew (eval <$> mentries s !! k1) in
            vleq (mclock t) (mclock s) ∧
            (∀ k', vleq (default ∅ (eclock <$> mentries t !! k')) (mclock s)) ∧
            ∀ k2, let v := default onew (eval <$> mentries t !! k2) in
              vleq (oclock v) (mclock s) ∧ ∀ m', vleq (default ∅ (oentries v !! m')) (mclock s)) as Hin.
  { intros k1. destruct (mentries s !! k1) as [e|] eqn:E; cbn.
    - destruct (Hb k1 e Hr E) as [B1 B2]. split_and!; [done| |].
      + intros k'. destruct (mentries (eval e) !! k') as [e2|] eqn:E2; cbn; [|apply vleq_empty_min].
        by destruct (B2 k' e2 E2).
      + intros k2. destruct (mentries (eval e) !! k2) as [e2|] eqn:E2; cbn.
        * destruct (B2 k2 e2 E2) as (_ & B3 & B4). split; [done|]. intros m'.
          destruct (oentries (eval e2) !! m') as [mc|] eqn:Em; cbn; [by eapply B4|apply vleq_empty_min].
        * split; [apply vleq_empty_min|]. intros m'. rewrite lookup_empty. apply vleq_empty_min.
    - split_and!; [apply vleq_empty_min| |].
      + intros k'. rewrite lookup_empty. apply vleq_empty_min.
      + intros k2. rewrite lookup_empty. cbn. split; [apply vleq_empty_min|]. intros m'.
        rewrite lookup_empty. apply vleq_empty_min. }
  destruct cmd as [k1 k2 ms|k1 k2 ms [m'|]|k1 ks [k'|]|ks [k'|]]; cbn in Hgen; injection Hgen as <-;
    unfold mupdate, oadd_all, orm_all; cbn [op_ctx_le op_shape v_default map_valops orswot_valops ac_dot].
  - done.
  - split; [|done]. destruct (Hin k1) as (_ & _ & Hv). by destruct (Hv k2) as [_ ?].
  - split; [|done]. destruct (Hin k1) as (_ & _ & Hv). by destruct (Hv k2) as [? _].
  - split; [|done]. by destruct (Hin k1) as (_ & ? & _).
  - split; [|done]. by destruct (Hin k1) as (? & _ & _).
  - split; [|done]. replace (default ∅ (eclock <$> mentries s !! k')) with (mentry_clock s k').
    + rewrite Ee, Ec. apply mspec_entry_le_clock.
    + unfold mentry_clock. by destruct (mentries s !! k').
  - split; [|done]. apply vleq_refl.
Qed.

Lemma m2hist_facts H : m2hist_ok H → hist_facts2 H.
Proof.
  induction 1 as [|H s K a cmd o Hok IH Hr Hown Hgen]; [intros j r Hj; by rewrite lookup_nil in Hj|].
  intros j r Hj. apply op_wf2_mono. destruct (decide (j < length H)%nat) as [Hl|Hge].
  - rewrite lookup_app_l in Hj by done. by apply (IH j r).
  - assert (j = length H) as ->.
    { apply lookup_lt_Some in Hj. rewrite app_length in Hj. cbn in Hj. lia. }
    rewrite lookup_app_r, Nat.sub_diag in Hj by lia. cbn in Hj. injection Hj as <-. cbn [op_deps op_val].
    by eapply m2gen_op_wf.
Qed.

(** * The refinement theorem *)
Theorem map2_values_refine (H : list (oprec (mop (mop oop)))) : m2hist_ok H →
  ∀ (s : cmap (cmap orswot)) (K : gset nat), m2reach H s K →
    ∀ k1, m2_state_inner_clocks s k1 = m2_inner_clocks (known_ops H K) k1 ∧
          ∀ k2, m2_state_entries s k1 k2 = m2_entries (known_ops H K) k1 k2.
Proof. intros Hok s K Hr k1. apply m2_refine; [done|by apply m2hist_facts|done]. Qed.

(** * Part 4: corollaries *)

(** 1. the monitor's executable check holds of every reachable state *)
Theorem map2_valspec_ok H s K : m2hist_ok H → m2reach H s K → m2valspec_ok H K s = true.
Proof.
  intros Hok Hr. unfold m2valspec_ok. apply forallb_forall. intros k1 _.
  destruct (map2_values_refine H Hok s K Hr k1) as [E1 E2].
  apply andb_true_intro. split; [by apply bool_decide_eq_true|].
  apply forallb_forall. intros k2 _. by apply bool_decide_eq_true.
Qed.

(** 2. convergence: equal knowledge gives the same outer keys and clocks (key layer), the same
    inner key tables and the same member tables, whatever the causal delivery order *)
Theorem map2_converge H s1 s2 K : m2hist_ok H → m2reach H s1 K → m2reach H s2 K →
  (∀ k1, m2_state_inner_clocks s1 k1 = m2_state_inner_clocks s2 k1) ∧
  (∀ k1 k2, m2_state_entries s1 k1 k2 = m2_state_entries s2 k1 k2) ∧
  dom (mentries s1) = dom (mentries s2) ∧
  mclock s1 = mclock s2 ∧
  (∀ k, mentry_clock s1 k = mentry_clock s2 k) ∧
  mdeferred s1 = mdeferred s2.
Proof.
  intros Hok H1 H2.
  pose proof (maphist_ok_wf vo2 H (m2hist_maphist H Hok)) as HH.
  pose proof (m2reach_mapreach H s1 K Hok H1) as R1. pose proof (m2reach_mapreach H s2 K Hok H2) as R2.
  destruct (map_keys_reach_mspec vo2 H HH s1 K R1) as (C1 & D1 & E1 & F1).
  destruct (map_keys_reach_mspec vo2 H HH s2 K R2) as (C2 & D2 & E2 & F2).
  split_and!.
  - intros k1. destruct (map2_values_refine H Hok s1 K H1 k1) as [-> _].
    by destruct (map2_values_refine H Hok s2 K H2 k1) as [-> _].
  - intros k1 k2. destruct (map2_values_refine H Hok s1 K H1 k1) as [_ ->].
    by destruct (map2_values_refine H Hok s2 K H2 k1) as [_ ->].
  - unfold mkeys in *. congruence.
  - congruence.
  - intros k. by rewrite E1, E2.
  - congruence.
Qed.

(** 3. duplicates are absorbed *)
Theorem map2_dup_absorb H s K i o : m2hist_ok H → m2reach H s K → H !! i = Some o → i ∈ K →
  adm_causal H K i →
  ∀ k1, m2_state_inner_clocks (mapply vo2 s (op_val o)) k1 = m2_state_inner_clocks s k1 ∧
        ∀ k2, m2_state_entries (mapply vo2 s (op_val o)) k1 k2 = m2_state_entries s k1 k2.
Proof.
  intros Hok Hr Hi HiK Ha k1.
  assert (m2reach H (mapply vo2 s (op_val o)) (K ∪ {[i]})) as Hr' by (by eapply reach_apply).
  replace (K ∪ {[i]}) with K in Hr' by set_solver.
  destruct (map2_values_refine H Hok _ K Hr' k1) as [-> E1].
  destruct (map2_values_refine H Hok s K Hr k1) as [-> E2]. split; [done|].
  intros k2. by rewrite E1, E2.
Qed.

(** 4. the literal sentences *)
Lemma ik_wit_literal (os : list op2) k1 k2 x :
  (∃ o, o ∈ os ∧ ik_wit k1 k2 o x) ↔ ∃ d0 o', MUp d0 k1 (MUp x k2 o') ∈ os.
Proof.
  split.
  - intros (o & Ho & Hw). destruct o as [c ks|d0 k [c ks|d' k' o']]; try done.
    destruct Hw as [[-> ->] ->]. by exists d0, o'.
  - intros (d0 & o' & Ho). by exists (MUp d0 k1 (MUp x k2 o')).
Qed.
Lemma mb_wit_literal (os : list op2) k1 k2 m x :
  (∃ o, o ∈ os ∧ mb_wit k1 k2 m o x) ↔ ∃ d0 d1 ms, MUp d0 k1 (MUp d1 k2 (OAdd x ms)) ∈ os ∧ m ∈ ms.
Proof.
  split.
  - intros (o & Ho & Hw). destruct o as [c ks|d0 k [c ks|d' k' [d'' ms|c ms]]]; try done.
    destruct Hw as [(-> & -> & Hm) ->]. by exists d0, d', ms.
  - intros (d0 & d1 & ms & Ho & Hm). by exists (MUp d0 k1 (MUp d1 k2 (OAdd x ms))).
Qed.
Lemma ik_cov_literal (os : list op2) k1 k2 d :
  (∃ o, o ∈ os ∧ ik_cov k1 k2 o d) ↔
    (∃ c ks, MRm c ks ∈ os ∧ k1 ∈ ks ∧ dcounter d <= vget c (dactor d)) ∨
    (∃ d1 c ks, MUp d1 k1 (MRm c ks) ∈ os ∧ k2 ∈ ks ∧ dcounter d <= vget c (dactor d)).
Proof.
  split.
  - intros (o & Ho & Hc). destruct o as [c ks|d0 k [c ks|d' k' o']]; cbn in Hc; try done.
    + left. exists c, ks. tauto.
    + right. destruct Hc as [[-> ?] ?]. by exists d0, c, ks.
  - intros [(c & ks & Ho & ? & ?)|(d1 & c & ks & Ho & ? & ?)].
    + by exists (MRm c ks).
    + by exists (MUp d1 k1 (MRm c ks)).
Qed.
Lemma mb_cov_literal (os : list op2) k1 k2 m d :
  (∃ o, o ∈ os ∧ mb_cov k1 k2 m o d) ↔
    (∃ c ks, MRm c ks ∈ os ∧ k1 ∈ ks ∧ dcounter d <= vget c (dactor d)) ∨
    (∃ d1 c ks, MUp d1 k1 (MRm c ks) ∈ os ∧ k2 ∈ ks ∧ dcounter d <= vget c (dactor d)) ∨
    (∃ d1 d2 c ms, MUp d1 k1 (MUp d2 k2 (ORm c ms)) ∈ os ∧ m ∈ ms ∧ dcounter d <= vget c (dactor d)).
Proof.
  split.
  - intros (o & Ho & Hc). destruct o as [c ks|d0 k [c ks|d' k' [d'' ms|c ms]]]; cbn in Hc; try done.
    + left. exists c, ks. tauto.
    + right. left. destruct Hc as [[-> ?] ?]. by exists d0, c, ks.
    + right. right. destruct Hc as [(-> & -> & ?) ?]. by exists d0, d', c, ms.
  - intros [(c & ks & Ho & ? & ?)|[(d1 & c & ks & Ho & ? & ?)|(d1 & d2 & c & ms & Ho & ? & ?)]].
    + by exists (MRm c ks).
    + by exists (MUp d1 k1 (MRm c ks)).
    + by exists (MUp d1 k1 (MUp d2 k2 (ORm c ms))).
Qed.

(** a table entry is present iff a witness with a non-zero counter survives *)
Lemma trep_dom_live M T ds k : trep M T → T k = dots_clock ds →
  (k ∈ dom M ↔ ∃ x, x ∈ ds ∧ dcounter x ≠ 0).
Proof.
  intros HM HT. rewrite elem_of_dom, HM. unfold tbl. rewrite HT. split.
  - intros Hs. destruct (vis_empty (dots_clock ds)) eqn:E; [by destruct Hs|].
    apply vis_empty_false in E.
    apply map_choose in E as (a & n & Ha). rewrite dots_clock_lookup in Ha. cbn zeta in Ha.
    destruct (max_ctr ds a =? 0) eqn:Ez; [done|].
    destruct (max_ctr_witness ds a) as [?|(x & Hx & _ & Hc)]; [lia|]. exists x. split; [done|lia].
  - intros (x & Hx & Hc).
    assert (dots_clock ds ≠ ∅) as Hne.
    { apply (vne_get _ (dactor x)). rewrite dots_clock_get. pose proof (max_ctr_ge _ _ _ Hx eq_refl). lia. }
    apply vis_empty_false in Hne. rewrite Hne. by eexists.
Qed.

(** every dot carried by a learned update has a non-zero counter *)
Lemma m2_dot_pos H s K d0 k d k' o : m2hist_ok H → m2reach H s K →
  MUp d0 k (MUp d k' o) ∈ known_ops H K → dcounter d ≠ 0 ∧ match o with OAdd d' _ => dcounter d' ≠ 0 | _ => True end.
Proof.
  intros Hok Hr Hin. pose proof Hin as (i & r & Hi & HiK & Hv)%elem_of_known_ops.
  destruct (m2hist_facts H Hok i r Hi) as [_ Hsh]. rewrite Hv in Hsh. cbn in Hsh. destruct Hsh as [-> Hsh].
  destruct (up_gate2 H Hok s K i r d0 k _ Hr Hi Hv) as (_ & _ & ?). split; [done|].
  destruct o; [by subst|done].
Qed.

(** an inner key is present iff some learned inner update of it is covered neither by a
    learned outer key remove naming the outer key nor by a learned inner key remove naming it *)
Theorem map2_inner_key_iff H s K k1 k2 : m2hist_ok H → m2reach H s K →
  k2 ∈ dom (m2_state_inner_clocks s k1) ↔
    ∃ d0 d o, MUp d0 k1 (MUp d k2 o) ∈ known_ops H K ∧
      ¬ (∃ c ks, MRm c ks ∈ known_ops H K ∧ k1 ∈ ks ∧ dcounter d <= vget c (dactor d)) ∧
      ¬ (∃ d1 c ks, MUp d1 k1 (MRm c ks) ∈ known_ops H K ∧ k2 ∈ ks ∧ dcounter d <= vget c (dactor d)).
Proof.
  intros Hok Hr. destruct (map2_values_refine H Hok s K Hr k1) as [-> _].
  rewrite (trep_dom_live _ _ _ k2 (m2_inner_clocks_trep _ k1) eq_refl).
  setoid_rewrite elem_of_m2_inner_live. unfold glive.
  setoid_rewrite ik_wit_literal. setoid_rewrite ik_cov_literal. split.
  - intros (d & [(d0 & o & Hin) Hc] & _). exists d0, d, o. tauto.
  - intros (d0 & d & o & Hin & Hn1 & Hn2). exists d. split; [split; [by exists d0, o|tauto]|].
    by destruct (m2_dot_pos H s K _ _ _ _ _ Hok Hr Hin).
Qed.

(** a member is present iff some learned add of it is covered by no learned outer key remove,
    inner key remove or nested member remove naming its outer key, inner key, itself *)
Theorem map2_member_iff H s K k1 k2 m : m2hist_ok H → m2reach H s K →
  m ∈ dom (m2_state_entries s k1 k2) ↔
    ∃ d0 d1 d ms, MUp d0 k1 (MUp d1 k2 (OAdd d ms)) ∈ known_ops H K ∧ m ∈ ms ∧
      ¬ (∃ c ks, MRm c ks ∈ known_ops H K ∧ k1 ∈ ks ∧ dcounter d <= vget c (dactor d)) ∧
      ¬ (∃ d2 c ks, MUp d2 k1 (MRm c ks) ∈ known_ops H K ∧ k2 ∈ ks ∧ dcounter d <= vget c (dactor d)) ∧
      ¬ (∃ d2 d3 c ms', MUp d2 k1 (MUp d3 k2 (ORm c ms')) ∈ known_ops H K ∧ m ∈ ms' ∧
                        dcounter d <= vget c (dactor d)).
Proof.
  intros Hok Hr. destruct (map2_values_refine H Hok s K Hr k1) as [_ E]. rewrite E.
  rewrite (trep_dom_live _ _ _ m (m2_entries_trep _ k1 k2) eq_refl).
  setoid_rewrite elem_of_m2_live_dots. unfold glive.
  setoid_rewrite mb_wit_literal. setoid_rewrite mb_cov_literal. split.
  - intros (d & [(d0 & d1 & ms & Hin & Hm) Hc] & _). exists d0, d1, d, ms. tauto.
  - intros (d0 & d1 & d & ms & Hin & Hm & Hn1 & Hn2 & Hn3). exists d.
    split; [split; [by exists d0, d1, ms|tauto]|].
    by destruct (m2_dot_pos H s K _ _ _ _ _ Hok Hr Hin) as [_ ?].
Qed.

(** ** non-vacuity.  Actor 1 adds members 10, 11 under (7, 3); actor 2, having applied that,
    adds 10, 12 under (7, 3).  Both having applied both adds, actor 1 removes member 10 with
    the context of the innermost set's [read_ctx] and then adds member 14 under (7, 3);
    concurrently actor 2 removes inner key 3 under 7 with the context of the inner [get(3)],
    then removes outer key 7 with the context of the outer [get(7)], then adds member 13
    under (7, 4).  The history is API-generated.  The replica that has applied all seven ops
    is reachable in (at least) two causal orders: actor 1's remove before actor 2's removes
    ([s]), or after them ([s']: the nested remove then meets a fresh innermost set and stays
    pending there for ever).  The two states differ, yet both hold exactly the specified
    tables: inner keys 3 (witnessed by actor 1's later updates) and 4 under key 7, member 14
    under (7, 3), member 13 under (7, 4). *)
Local Instance m2_oop_eq_dec : EqDecision oop.
Proof. solve_decision. Defined.
Local Instance m2_mop_eq_dec {X : Type} `{EqDecision X} : EqDecision (mop X).
Proof. solve_decision. Defined.

Section example.
  Let o0 : op2 := MUp (Dot 1 1) 7 (MUp (Dot 1 1) 3 (OAdd (Dot 1 1) [10; 11])).
  Let o1 : op2 := MUp (Dot 2 1) 7 (MUp (Dot 2 1) 3 (OAdd (Dot 2 1) [10; 12])).
  Let o2 : op2 := MUp (Dot 1 2) 7 (MUp (Dot 1 2) 3 (ORm {[1 := 1; 2 := 1]} [10])).
  Let o3 : op2 := MUp (Dot 2 2) 7 (MRm {[1 := 1; 2 := 1]} {[3]}).
  Let o4 : op2 := MRm {[1 := 1; 2 := 2]} {[7]}.
  Let o5 : op2 := MUp (Dot 2 3) 7 (MUp (Dot 2 3) 4 (OAdd (Dot 2 3) [13])).
  Let o6 : op2 := MUp (Dot 1 3) 7 (MUp (Dot 1 3) 3 (OAdd (Dot 1 3) [14])).
  Let D1 : gset nat := ∅ ∪ {[0%nat]}.
  Let D2 : gset nat := ∅ ∪ {[0%nat]} ∪ {[1%nat]}.
  Let D4 : gset nat := ∅ ∪ {[0%nat]} ∪ {[1%nat]} ∪ {[3%nat]}.
  Let D5 : gset nat := ∅ ∪ {[0%nat]} ∪ {[1%nat]} ∪ {[3%nat]} ∪ {[4%nat]}.
  Let D6 : gset nat := ∅ ∪ {[0%nat]} ∪ {[1%nat]} ∪ {[2%nat]}.
  Let r0 := OpRec 1 o0 ∅.
  Let r1 := OpRec 2 o1 D1.
  Let r2 := OpRec 1 o2 D2.
  Let r3 := OpRec 2 o3 D2.
  Let r4 := OpRec 2 o4 D4.
  Let r5 := OpRec 2 o5 D5.
  Let r6 := OpRec 1 o6 D6.
  Let H : list (oprec op2) := [r0; r1; r2; r3; r4; r5; r6].
  Let K : gset nat := ∅ ∪ {[0%nat]} ∪ {[1%nat]} ∪ {[2%nat]} ∪ {[3%nat]} ∪ {[4%nat]} ∪ {[5%nat]} ∪ {[6%nat]}.
  Let K' : gset nat := ∅ ∪ {[0%nat]} ∪ {[1%nat]} ∪ {[3%nat]} ∪ {[4%nat]} ∪ {[5%nat]} ∪ {[2%nat]} ∪ {[6%nat]}.
  Let ap := mapply vo2.
  Let s := ap (ap (ap (ap (ap (ap (ap mnew o0) o1) o2) o3) o4) o5) o6.
  Let s' := ap (ap (ap (ap (ap (ap (ap mnew o0) o1) o3) o4) o5) o2) o6.

  Example map2_example :
    m2hist_ok H ∧ m2reach H s K ∧ m2reach H s' K' ∧ K' = K ∧
    known_ops H K = [o0; o1; o2; o3; o4; o5; o6] ∧
    s ≠ s' ∧
    m2_state_inner_clocks s 7 = {[3 := {[1 := 3]}; 4 := {[2 := 3]}]} ∧
    m2_state_inner_clocks s' 7 = {[3 := {[1 := 3]}; 4 := {[2 := 3]}]} ∧
    m2_inner_clocks (known_ops H K) 7 = {[3 := {[1 := 3]}; 4 := {[2 := 3]}]} ∧
    m2_state_entries s 7 3 = {[14 := {[1 := 3]}]} ∧
    m2_state_entries s' 7 3 = {[14 := {[1 := 3]}]} ∧
    m2_entries (known_ops H K) 7 3 = {[14 := {[1 := 3]}]} ∧
    m2_state_entries s 7 4 = {[13 := {[2 := 3]}]} ∧
    m2_state_entries s' 7 4 = {[13 := {[2 := 3]}]} ∧
    m2_entries (known_ops H K) 7 4 = {[13 := {[2 := 3]}]} ∧
    m2_inner_live (known_ops H K) 7 3 = [Dot 1 2; Dot 1 3] ∧
    m2_live_dots (known_ops H K) 7 3 10 = [] ∧
    m2valspec_ok H K s = true ∧ m2valspec_ok H K s' = true.
  Proof.
    assert (∀ (H' : list (oprec op2)) K0 i r, H' !! i = Some r → op_deps r ⊆ K0 → adm_causal H' K0 i) as Hadm.
    { intros H' K0 i r Hi Hd. by exists r. }
    assert (∀ (H' : list (oprec op2)) t K0 i r, m2reach H' t K0 → H' !! i = Some r →
              bool_decide (op_deps r ⊆ K0) = true → m2reach H' (ap t (op_val r)) (K0 ∪ {[i]})) as Hstep.
    { intros H' t K0 i r Ht Hi Hd. apply (reach_apply _ _ _ _ _ _ t K0 i r); [done|done|].
      eapply Hadm; [done|]. by apply bool_decide_eq_true in Hd. }
    assert (m2hist_ok H) as Hok.
    { change H with ((((((([] ++ [r0]) ++ [r1]) ++ [r2]) ++ [r3]) ++ [r4]) ++ [r5]) ++ [r6]).
      apply (hist_snoc _ _ _ _ _ _ _ (ap (ap (ap mnew o0) o1) o2) D6 1 (M2Add 7 3 [14])).
      - apply (hist_snoc _ _ _ _ _ _ _ (ap (ap (ap (ap mnew o0) o1) o3) o4) D5 2 (M2Add 7 4 [13])).
        + apply (hist_snoc _ _ _ _ _ _ _ (ap (ap (ap mnew o0) o1) o3) D4 2 (M2KeyRm {[7]} (Some 7))).
          * apply (hist_snoc _ _ _ _ _ _ _ (ap (ap mnew o0) o1) D2 2 (M2InnerKeyRm 7 {[3]} (Some 3))).
            -- apply (hist_snoc _ _ _ _ _ _ _ (ap (ap mnew o0) o1) D2 1 (M2Rm 7 3 [10] None)).
               ++ apply (hist_snoc _ _ _ _ _ _ _ (ap mnew o0) D1 2 (M2Add 7 3 [10; 12])).
                  ** apply (hist_snoc _ _ _ _ _ _ _ mnew ∅ 1 (M2Add 7 3 [10; 11])); [constructor|constructor| |apply (bool_decide_unpack _); by vm_compute].
                     intros j r Hj. by rewrite lookup_nil in Hj.
                  ** apply (Hstep _ mnew ∅ 0%nat r0); [constructor|done|by vm_compute].
                  ** intros [|j] r Hj Ha; cbn in Hj; simplify_eq.
                  ** apply (bool_decide_unpack _); by vm_compute.
               ++ apply (Hstep _ _ _ 1%nat r1); [|done|by vm_compute].
                  apply (Hstep _ mnew ∅ 0%nat r0); [constructor|done|by vm_compute].
               ++ intros [|[|j]] r Hj Ha; cbn in Hj; simplify_eq. set_solver.
               ++ apply (bool_decide_unpack _); by vm_compute.
            -- apply (Hstep _ _ _ 1%nat r1); [|done|by vm_compute].
               apply (Hstep _ mnew ∅ 0%nat r0); [constructor|done|by vm_compute].
            -- intros [|[|[|j]]] r Hj Ha; cbn in Hj; simplify_eq. set_solver.
            -- apply (bool_decide_unpack _); by vm_compute.
          * apply (Hstep _ _ _ 3%nat r3); [|done|by vm_compute].
            apply (Hstep _ _ _ 1%nat r1); [|done|by vm_compute].
            apply (Hstep _ mnew ∅ 0%nat r0); [constructor|done|by vm_compute].
          * intros [|[|[|[|j]]]] r Hj Ha; cbn in Hj; simplify_eq; set_solver.
          * apply (bool_decide_unpack _); by vm_compute.
        + apply (Hstep _ _ _ 4%nat r4); [|done|by vm_compute].
          apply (Hstep _ _ _ 3%nat r3); [|done|by vm_compute].
          apply (Hstep _ _ _ 1%nat r1); [|done|by vm_compute].
          apply (Hstep _ mnew ∅ 0%nat r0); [constructor|done|by vm_compute].
        + intros [|[|[|[|[|j]]]]] r Hj Ha; cbn in Hj; simplify_eq; set_solver.
        + apply (bool_decide_unpack _); by vm_compute.
      - apply (Hstep _ _ _ 2%nat r2); [|done|by vm_compute].
        apply (Hstep _ _ _ 1%nat r1); [|done|by vm_compute].
        apply (Hstep _ mnew ∅ 0%nat r0); [constructor|done|by vm_compute].
      - intros [|[|[|[|[|[|j]]]]]] r Hj Ha; cbn in Hj; simplify_eq; set_solver.
      - apply (bool_decide_unpack _); by vm_compute. }
    split_and!.
    - done.
    - apply (Hstep _ _ _ 6%nat r6); [|done|by vm_compute].
      apply (Hstep _ _ _ 5%nat r5); [|done|by vm_compute].
      apply (Hstep _ _ _ 4%nat r4); [|done|by vm_compute].
      apply (Hstep _ _ _ 3%nat r3); [|done|by vm_compute].
      apply (Hstep _ _ _ 2%nat r2); [|done|by vm_compute].
      apply (Hstep _ _ _ 1%nat r1); [|done|by vm_compute].
      apply (Hstep _ mnew ∅ 0%nat r0); [constructor|done|by vm_compute].
    - apply (Hstep _ _ _ 6%nat r6); [|done|by vm_compute].
      apply (Hstep _ _ _ 2%nat r2); [|done|by vm_compute].
      apply (Hstep _ _ _ 5%nat r5); [|done|by vm_compute].
      apply (Hstep _ _ _ 4%nat r4); [|done|by vm_compute].
      apply (Hstep _ _ _ 3%nat r3); [|done|by vm_compute].
      apply (Hstep _ _ _ 1%nat r1); [|done|by vm_compute].
      apply (Hstep _ mnew ∅ 0%nat r0); [constructor|done|by vm_compute].
    - apply (bool_decide_unpack _). by vm_compute.
    - apply (bool_decide_unpack _). by vm_compute.
    - apply (bool_decide_unpack _). by vm_compute.
    - apply (bool_decide_unpack _). by vm_compute.
    - apply (bool_decide_unpack _). by vm_compute.
    - apply (bool_decide_unpack _). by vm_compute.
    - apply (bool_decide_unpack _). by vm_compute.
    - apply (bool_decide_unpack _). by vm_compute.
    - apply (bool_decide_unpack _). by vm_compute.
    - apply (bool_decide_unpack _). by vm_compute.
    - apply (bool_decide_unpack _). by vm_compute.
    - apply (bool_decide_unpack _). by vm_compute.
    - by vm_compute.
    - by vm_compute.
    - by vm_compute.
    - by vm_compute.
  Qed.
End example.

Print Assumptions m2_step.
Print Assumptions m2_inv_reach.
Print Assumptions m2hist_facts.
Print Assumptions map2_values_refine.
Print Assumptions map2_valspec_ok.
Print Assumptions map2_converge.
Print Assumptions map2_dup_absorb.
Print Assumptions map2_inner_key_iff.
Print Assumptions map2_member_iff.
Print Assumptions map2_example.
