(** [Map<K, Orswot<M>>] outside the classes of the findings T2 and T3 (spec/MapOrswotKMN.v), second
    part: structural well-formedness of histories relative to a naming list [all] ([kmn_wf]), the
    invariant carried through [reach] ([kmn_inv]: per key the invariant of proofs/MapOrswotKM.v when
    [all] names the key in a key remove, the characterisation of proofs/MapOrswotNK.v when it does
    not), what the key layer (proofs/MapKeys.v) gives for a reachable state, and the APPLY step
    ([kmn_step]). *)
From stdpp Require Import gmap.
From Crdt Require Import model.Orswot model.Map spec.System spec.OrswotSpec spec.OrswotSystem
  spec.MapSpec spec.MapSystem spec.MapOrswotSpec spec.MapOrswotKM spec.MapOrswotKMN proofs.VClock proofs.Reset
  proofs.OrswotLayer proofs.OrswotL1 proofs.OrswotL2a proofs.OrswotL2 proofs.OrswotSystem proofs.MapFacts proofs.MapKeys
  proofs.MapOrswot proofs.MapOrswotPA proofs.MapOrswotEq proofs.OrswotSparseL2 proofs.MapOrswotNK proofs.MapOrswotKMa
  proofs.MapOrswotKMNa.
From Coq Require Import ZifyBool ZifyN ZifyNat.
Local Open Scope N_scope.

Local Notation vo := orswot_valops.

(** what the commands of [mocmd] generate *)
Definition kmn_op (o : mop oop) : Prop :=
  match o with
  | MUp d _ (OAdd d' _) => d' = d
  | MUp _ _ (ORm c _) => vwf c
  | MRm _ _ => True
  end.

(** structural well-formedness of a history relative to the list [all] that decides which keys are
    "named": shape of the ops; a key remove names only named keys; an update carrying a nested
    remove addresses a key that is not named, and every positive component of its context is the
    dot of an update of that key; each actor updates a named key at most once *)
Definition kmn_wf (all : list (mop oop)) (H : list (oprec (mop oop))) : Prop :=
  (∀ o, o ∈ hops H → kmn_op o) ∧
  (∀ c ks k, MRm c ks ∈ hops H → k ∈ ks → kmn_named all k = true) ∧
  (∀ d k c ms, MUp d k (ORm c ms) ∈ hops H → kmn_named all k = false ∧ kclk (hops H) k c) ∧
  (∀ d1 o1 d2 o2 k, MUp d1 k o1 ∈ hops H → MUp d2 k o2 ∈ hops H → kmn_named all k = true →
                    dactor d1 = dactor d2 → d1 = d2 ∧ o1 = o2).

(** the invariant *)
Definition kmn_inv (all : list (mop oop)) (H : list (oprec (mop oop))) (s : cmap orswot) (K : gset nat) : Prop :=
  ∀ k e, mentries s !! k = Some e →
    if kmn_named all k
    then oentries (eval e) = mo_entries (known_ops H K) k ∧ oclock (eval e) = eclock e ∧ odeferred (eval e) = ∅
    else eval e = ospec_of (mo_proj (known_ops H K) k).

Section main.
  Context (all : list (mop oop)) (H : list (oprec (mop oop))).
  Context (Hmap : maphist_ok vo H) (Hwf : kmn_wf all H).
  Let HH : owfH (habs H) := maphist_ok_wf vo H Hmap.
  Implicit Types (s : cmap orswot) (K : gset nat) (k m a : N) (d : dot).
  Local Notation named k := (kmn_named all k = true).
  Local Notation unnamed k := (kmn_named all k = false).

  Lemma known_hops K o : o ∈ known_ops H K → o ∈ hops H.
  Proof. intros (i & r & Hi & _ & Ho)%elem_of_known_ops. apply elem_of_hops. by exists i, r. Qed.
  Lemma lookup_hops i r : H !! i = Some r → op_val r ∈ hops H.
  Proof. intros Hi. apply elem_of_hops. by exists i, r. Qed.

  Lemma hops_shape : mo_shape (hops H).
  Proof using Hwf. intros d0 k d ms Hin. destruct Hwf as (Hs & _). by apply Hs in Hin. Qed.
  Lemma mo_shape_known K : mo_shape (known_ops H K).
  Proof using Hwf. intros d0 k d ms Hin. apply (hops_shape d0 k d ms). by eapply known_hops. Qed.
  Lemma mo_shape_sub os : (∀ o, o ∈ os → o ∈ hops H) → mo_shape os.
  Proof using Hwf. intros Hs d0 k d ms Hin. apply (hops_shape d0 k d ms). by apply Hs. Qed.

  Lemma named_no_rm k d c ms : named k → MUp d k (ORm c ms) ∉ hops H.
  Proof using Hwf. intros Hn Hin. destruct Hwf as (_ & _ & Hr & _). destruct (Hr d k c ms Hin). congruence. Qed.
  Lemma unnamed_not_removed k c ks : unnamed k → MRm c ks ∈ hops H → k ∉ ks.
  Proof using Hwf. intros Hn Hin Hk. destruct Hwf as (_ & Hr & _). rewrite (Hr c ks k Hin Hk) in Hn. done. Qed.
  Lemma hops_pos d k o : MUp d k o ∈ hops H → 0 < dcounter d.
  Proof using Hmap. by apply nk_hops_pos. Qed.
  Lemma once_named k d1 o1 d2 o2 : named k → MUp d1 k o1 ∈ hops H → MUp d2 k o2 ∈ hops H →
    dactor d1 = dactor d2 → d1 = d2 ∧ o1 = o2.
  Proof using Hwf. intros Hn H1 H2 Ha. destruct Hwf as (_ & _ & _ & Ho). by eapply Ho. Qed.

  Lemma ukey_unnamed k : unnamed k → ukey (hops H) k.
  Proof using Hmap Hwf.
    intros Hn. split_and!.
    - intros c ks Hin. by eapply unnamed_not_removed.
    - intros d d' ms Hin. by apply (hops_shape d k d' ms).
    - intros d c ms Hin. destruct Hwf as (Hs & _ & Hr & _). split; [by apply Hs in Hin|]. by destruct (Hr d k c ms Hin).
    - intros d o. apply hops_pos.
  Qed.

  (** under a named key only key removes cover *)
  Lemma mo_covered_named K k m d : named k →
    mo_covered (known_ops H K) k m d = true ↔
      ∃ c ks, MRm c ks ∈ known_ops H K ∧ k ∈ ks ∧ dcounter d <= vget c (dactor d).
  Proof using Hwf.
    intros Hn. rewrite mo_covered_spec. split; [|by left].
    intros [?|(d1 & c & ms' & Hin & _)]; [done|]. by apply known_hops, named_no_rm in Hin.
  Qed.
  Lemma mo_covered_mcov K k m d : named k → mo_covered (known_ops H K) k m d = mcovered (known_ops H K) k d.
  Proof using Hwf. intros Hn. apply eq_true_iff_eq. by rewrite (mo_covered_named K k m d Hn), mcovered_spec. Qed.
  Lemma mcov_unnamed K k d : unnamed k → mcovered (known_ops H K) k d = false.
  Proof using Hwf.
    intros Hn. apply not_true_iff_false. rewrite mcovered_spec. intros (c & ks & Hin & Hk & _).
    by apply (unnamed_not_removed k c ks Hn (known_hops _ _ Hin)).
  Qed.

  (** ** the key layer of a reachable state *)
  Lemma key_clock s K : moreach_kmn H s K → mclock s = mspec_clock (known_ops H K) ∧ ovalid (habs H) K.
  Proof using Hmap.
    intros Hr. split.
    - by destruct (map_keys_reach_mspec vo H HH s K Hr).
    - by destruct (map_keys_reach_spec vo H HH s K Hr).
  Qed.
  Lemma mclock_wf s K : moreach_kmn H s K → vwf (mclock s).
  Proof using Hmap. intros Hr. destruct (key_clock s K Hr) as [-> _]. apply dots_clock_wf. Qed.
  Lemma side_nk s K : moreach_kmn H s K → nk_side (hops H) (known_ops H K).
  Proof using Hmap. intros Hr. apply nk_side_known; [done|]. by destruct (key_clock s K Hr). Qed.

  (** the dedup gate of the map recognises exactly the known updates *)
  Lemma up_gate s K i r d k o : moreach_kmn H s K → H !! i = Some r → op_val r = MUp d k o →
    (i ∈ K → dcounter d <= vget (mclock s) (dactor d)) ∧
    (i ∉ K → vget (mclock s) (dactor d) < dcounter d) ∧
    dcounter d ≠ 0.
  Proof using Hmap.
    intros Hr Hi Hv. destruct (key_clock s K Hr) as [Ec Hval].
    pose proof (hmap_lookup_Some oabs H i r Hi) as Hi'.
    assert (op_val (OpRec (op_author r) (oabs (op_val r)) (op_deps r)) = OAdd d [k]) as Hv'.
    { cbn. by rewrite Hv. }
    split_and!.
    - intros HiK. rewrite Ec. unfold mspec_clock. rewrite dots_clock_get. apply max_ctr_ge; [|done].
      apply elem_of_mall_dots. exists k, o. apply elem_of_known_ops. by exists i, r.
    - intros HiK. destruct (decide (dcounter d <= vget (mclock s) (dactor d))) as [Hle|]; [|lia].
      destruct HiK. apply (seen (habs H) K i _ d [k] HH Hval Hi' Hv').
      by rewrite known_ops_habs, <- mspec_clock_abs, <- Ec.
    - destruct (owfH_add _ _ _ _ _ HH Hi' Hv') as (_ & Hc & _). lia.
  Qed.

  Lemma side_known s K d k o : moreach_kmn H s K → MUp d k o ∈ hops H →
    (MUp d k o ∈ known_ops H K ↔ dcounter d <= vget (mclock s) (dactor d)).
  Proof using Hmap.
    intros Hr (i & r & Hi & Ho)%elem_of_hops. destruct (up_gate s K i r d k o Hr Hi Ho) as (G1 & G2 & _). split.
    - intros (j & r' & Hj & HjK & Ho')%elem_of_known_ops.
      destruct (up_gate s K j r' d k o Hr Hj Ho') as (G1' & _). auto.
    - intros Hle. apply elem_of_known_ops. exists i, r. split_and!; [done| |done].
      destruct (decide (i ∈ K)) as [|Hn]; [done|]. specialize (G2 Hn). lia.
  Qed.

  Lemma eclock_spec s K k e : moreach_kmn H s K → mentries s !! k = Some e →
    eclock e = mspec_entry_clock (known_ops H K) k.
  Proof using Hmap.
    intros Hr He. destruct (map_keys_reach_mspec vo H HH s K Hr) as (_ & _ & E & _).
    specialize (E k). unfold mentry_clock in E. by rewrite He in E.
  Qed.
  Lemma eclock_le_mclock s K k e : moreach_kmn H s K → mentries s !! k = Some e → vleq (eclock e) (mclock s).
  Proof using Hmap.
    intros Hr He. rewrite (eclock_spec s K k e Hr He). destruct (key_clock s K Hr) as [-> _]. apply mspec_entry_le_clock.
  Qed.

  (** an absent key: no member in the specification (named), no update known (not named) *)
  Lemma absent_named s K k : moreach_kmn H s K → mentries s !! k = None → mo_entries (known_ops H K) k = ∅.
  Proof using Hmap Hwf.
    intros Hr Hn. apply mo_entries_key_covered; [apply mo_shape_known|]. intros d o Hin.
    destruct (mcovered (known_ops H K) k d) eqn:Ec; [done|]. exfalso.
    destruct (map_key_present_iff vo H HH s K k Hr) as (_ & Hp & _).
    assert (k ∈ dom (mentries s)) as Hd.
    { apply Hp. exists d, o. split; [done|]. rewrite <- mcovered_spec. by rewrite Ec. }
    apply elem_of_dom in Hd as [? ?]. congruence.
  Qed.
  Lemma present_unnamed s K k : moreach_kmn H s K → unnamed k →
    (is_Some (mentries s !! k) ↔ k ∈ mkeys_mentioned (known_ops H K)).
  Proof using Hmap Hwf.
    intros Hr Hn. destruct (map_key_present_iff vo H HH s K k Hr) as (_ & Hp & _).
    rewrite <- elem_of_dom, Hp, elem_of_mkeys_mentioned. split.
    - intros (d & o & Hin & _). by exists d, o.
    - intros (d & o & Hin). exists d, o. split; [done|]. rewrite <- mcovered_spec. by rewrite mcov_unnamed.
  Qed.

  Lemma live_le_mclock s K k m a : moreach_kmn H s K →
    max_ctr (mo_live_dots (known_ops H K) k m) a <= vget (mclock s) a.
  Proof using Hmap Hwf.
    intros Hr. destruct (key_clock s K Hr) as [-> _]. rewrite <- mo_entry_get.
    apply mo_entry_le_clock, mo_shape_known.
  Qed.

  (** the pending table: removes that are known, and all known removes the clock does not cover *)
  Lemma pending_known s K c ks k : moreach_kmn H s K → mdeferred s !! c = Some ks → k ∈ ks →
    ∃ ks', MRm c ks' ∈ known_ops H K ∧ k ∈ ks'.
  Proof using Hmap.
    intros Hr Hl Hk.
    destruct (map_keys_pending vo H Hmap s K c Hr) as (P1 & _). destruct (P1 ks Hl) as (_ & _ & _ & Hiff).
    by apply Hiff.
  Qed.
  Lemma pending_covering s K c ks' k a : moreach_kmn H s K → MRm c ks' ∈ known_ops H K → k ∈ ks' →
    vget (mclock s) a < vget c a → ∃ ks, mdeferred s !! c = Some ks ∧ k ∈ ks.
  Proof using Hmap.
    intros Hr Hin Hk Hlt. pose proof (mclock_wf s K Hr) as Hw.
    assert (vwf c) as Hwc.
    { pose proof Hin as (i & r & Hi & _ & Hv)%elem_of_known_ops.
      pose proof (owfH_habs_mopwf H i r HH Hi) as Hwf'. by rewrite Hv in Hwf'. }
    destruct (map_keys_pending vo H Hmap s K c Hr) as (P1 & P2 & _).
    destruct P2 as [ks Hl]; [by exists ks'| |].
    { destruct (vle c (mclock s)) eqn:E; [|done]. apply vle_spec in E; [|done..]. specialize (E a). lia. }
    exists ks. split; [done|]. destruct (P1 ks Hl) as (_ & _ & _ & Hiff). apply Hiff. by exists ks'.
  Qed.
  Lemma pending_is_named s K c ks k : moreach_kmn H s K → mdeferred s !! c = Some ks → k ∈ ks → named k.
  Proof using Hmap Hwf.
    intros Hr Hl Hk. destruct (pending_known s K c ks k Hr Hl Hk) as (ks' & Hin & Hk').
    destruct Hwf as (_ & Hn & _). by apply (Hn c ks' k (known_hops _ _ Hin)).
  Qed.
  Lemma pending_not_unnamed s K c ks k : moreach_kmn H s K → unnamed k → mdeferred s !! c = Some ks → k ∉ ks.
  Proof using Hmap Hwf. intros Hr Hn Hl Hk. rewrite (pending_is_named s K c ks k Hr Hl Hk) in Hn. done. Qed.

  (** a surviving witness is covered by no pending remove naming its key *)
  Lemma live_not_pending s K k m a : moreach_kmn H s K →
    let y := max_ctr (mo_live_dots (known_ops H K) k m) a in
    y = 0 ∨ ∀ c ks, mdeferred s !! c = Some ks → k ∈ ks → vget c a < y.
  Proof using Hmap.
    intros Hr y. destruct (max_ctr_witness (mo_live_dots (known_ops H K) k m) a) as [?|(x & Hx & Ha & Hc)]; [by left|].
    right. intros c ks Hl Hk. destruct (pending_known s K c ks k Hr Hl Hk) as (ks' & Hin & Hk').
    apply elem_of_mo_live_dots in Hx as [_ Hnc]. apply mo_covered_false in Hnc.
    destruct (decide (vget c a < y)) as [|Hge]; [done|]. destruct Hnc. left. exists c, ks'.
    split_and!; [done|done|]. subst a. fold y in Hc. lia.
  Qed.

  (** the entry an update starts from *)
  Lemma inv_default_named s K k : moreach_kmn H s K → kmn_inv all H s K → named k →
    let e0 := default (MEntry ∅ (v_default vo)) (mentries s !! k) in
    oentries (eval e0) = mo_entries (known_ops H K) k ∧ oclock (eval e0) = eclock e0 ∧
    odeferred (eval e0) = ∅ ∧ vleq (eclock e0) (mclock s).
  Proof using Hmap Hwf.
    intros Hr Hi Hn. destruct (mentries s !! k) as [e|] eqn:E; cbn.
    - specialize (Hi k e E). rewrite Hn in Hi. destruct Hi as (? & ? & ?). split_and!; [done..|].
      by eapply eclock_le_mclock.
    - split_and!; [symmetry; by eapply absent_named|done|done|apply vleq_empty_min].
  Qed.
  Lemma inv_default_unnamed s K k : moreach_kmn H s K → kmn_inv all H s K → unnamed k →
    eval (default (MEntry ∅ (v_default vo)) (mentries s !! k)) = ospec_of (mo_proj (known_ops H K) k).
  Proof using Hmap Hwf.
    intros Hr Hi Hn. destruct (mentries s !! k) as [e|] eqn:E; cbn.
    - specialize (Hi k e E). by rewrite Hn in Hi.
    - assert (k ∉ mkeys_mentioned (known_ops H K)) as Hnin.
      { intros Hin. apply (present_unnamed s K k Hr Hn) in Hin as [? ?]. congruence. }
      destruct (nk_absent_nil (known_ops H K) k Hnin) as [_ ->]. by rewrite ospec_of_nil.
  Qed.

  (** the projected ops of a key the new op does not address *)
  Lemma proj_other os os' new k : (∀ o, o ∈ os' ↔ o ∈ os ∨ o = new) →
    (∀ d o, new ≠ MUp d k o) → ospec_of (mo_proj os' k) = ospec_of (mo_proj os k).
  Proof.
    intros Hos' Hne. apply ospec_of_ext. intros o. rewrite !elem_of_mo_proj. setoid_rewrite Hos'. split.
    - intros (d & [?| Heq]); [by exists d|]. by destruct (Hne d o).
    - intros (d & ?). exists d. by left.
  Qed.

  (** ** the apply step *)
  Lemma kmn_step s K i r : moreach_kmn H s K → kmn_inv all H s K → H !! i = Some r → adm_per_actor H K i →
    kmn_inv all H (mapply vo s (op_val r)) (K ∪ {[i]}).
  Proof using Hmap Hwf.
    intros Hr Hinv Hi Ha.
    pose proof (λ o, known_ops_add_elem H K i r o Hi) as Hos'.
    pose proof (lookup_hops i r Hi) as HinH.
    destruct (op_val r) as [c ks|d k op] eqn:Ho.
    - (* key remove, parked or not *)
      intros k e'. cbn [mapply]. rewrite mapply_rm_entries, mrm_entries_lookup.
      destruct (mentries s !! k) as [e|] eqn:E; [|done]. cbn [mbind option_bind].
      pose proof (Hinv k e E) as Hk0. destruct (kmn_named all k) eqn:En.
      + destruct Hk0 as (E1 & V2 & V3). case_bool_decide as Hk.
        * destruct (vis_empty _); [done|]. intros [= <-]. cbn [eval eclock v_reset orswot_valops]. split_and!.
          -- cbn [oreset oentries]. rewrite E1.
             rewrite (step_krm_entries _ _ _ Hos' c ks k eq_refl), decide_True by done. done.
          -- cbn [oreset oclock]. by rewrite V2.
          -- cbn [oreset odeferred]. rewrite V3. apply oreset_deferred_empty.
        * intros [= <-]. split_and!; [|done|done].
          rewrite E1, (step_krm_entries _ _ _ Hos' c ks k eq_refl), decide_False by done. done.
      + rewrite bool_decide_eq_false_2 by (by eapply unnamed_not_removed). intros [= <-].
        rewrite Hk0. symmetry. by apply (proj_other _ _ (MRm c ks)).
    - destruct (up_gate s K i r d k op Hr Hi Ho) as (G1 & G2 & G3).
      destruct (decide (i ∈ K)) as [HiK|HiK].
      + rewrite mapply_dedup by auto. replace (K ∪ {[i]}) with K by set_solver. done.
      + specialize (G2 HiK). rewrite mapply_up_fresh by done. rewrite mapply_deferred_mfold.
        cbn [mclock mentries mdeferred]. unfold kmn_inv.
        set (e0 := default (MEntry ∅ (v_default vo)) (mentries s !! k)) in *.
        set (os' := known_ops H (K ∪ {[i]})) in *. set (os := known_ops H K) in *.
        assert (mo_shape os') as Hsh' by apply mo_shape_known.
        intros k' e' He'. destruct (kmn_named all k') eqn:En.
        * (* a named key *)
          assert (k' = k → ∃ ms, op = OAdd d ms) as Hadd.
          { intros ->. destruct op as [d' ms|c ms]; [|by apply named_no_rm in HinH].
            exists ms. f_equal. by apply (hops_shape d k d' ms). }
          assert (∀ e1, (<[k := MEntry (vapply (eclock e0) d) (v_apply vo (eval e0) op)]> (mentries s)) !! k' = Some e1 →
                    odeferred (eval e1) = ∅ ∧ eswf (oentries (eval e1)) ∧ oclock (eval e1) = eclock e1 ∧
                    (k' ≠ k → mentries s !! k' = Some e1) ∧
                    (k' = k → ∃ ms, op = OAdd d ms ∧
                       e1 = MEntry (vapply (eclock e0) d)
                                   (Orswot (vapply (eclock e0) d) (oadd_entries (mo_entries os k) ms d) ∅))) as Hstart.
          { intros e1. destruct (decide (k' = k)) as [->|Hne].
            - rewrite lookup_insert. intros [= <-]. destruct (Hadd eq_refl) as [ms ->].
              destruct (inv_default_named s K k Hr Hinv En) as (E0 & V0 & D0 & L0). fold e0 in E0, V0, D0, L0.
              cbn [v_apply orswot_valops eval eclock].
              rewrite (nested_add_pa (eval e0) d ms D0) by (rewrite V0; specialize (L0 (dactor d)); lia).
              cbn [odeferred oentries oclock]. split_and!; [done| |by rewrite V0|done|].
              + apply eswf_oadd; [|done]. rewrite E0. apply mo_entries_eswf.
              + intros _. exists ms. split; [done|]. by rewrite V0, E0.
            - rewrite lookup_insert_ne by done. intros He1. pose proof (Hinv k' e1 He1) as Hk1. rewrite En in Hk1.
              destruct Hk1 as (E1 & V1 & D1). split_and!; [done| |done|done|done].
              rewrite E1. apply mo_entries_eswf. }
          apply mfold_key_vrel in He' as (e1 & He1 & (R1 & R2 & R3 & R4) & Hv4).
          2:{ cbn [mentries]. intros e1 He1. by destruct (Hstart e1 He1) as (? & ? & _). }
          cbn [mentries] in He1. destruct (Hstart e1 He1) as (D1 & S1 & V1 & Hold & Hnew).
          split_and!; [|by apply Hv4|done].
          apply eswf_ext; [done|apply mo_entries_eswf|]. intros m a.
          rewrite gdef_mo_entries. destruct (R4 m a) as (A1 & A2 & A3).
          pose proof (live_not_pending s K k' m a Hr) as Hnp.
          pose proof (live_le_mclock s K k' m a Hr) as Hle.
          fold os in Hnp, Hle. set (y := max_ctr (mo_live_dots os k' m) a) in *.
          destruct op as [d' ms|c ms].
          -- (* the update carries a nested add *)
             assert (d' = d) as -> by (by apply (hops_shape d k d' ms)).
             rewrite (step_add_max _ _ d k d ms k' m a Hos'). fold os y.
             assert (gdef (oentries (eval e1)) m a =
                       if decide ((k' = k ∧ m ∈ ms) ∧ a = dactor d) then N.max y (dcounter d) else y) as Hx1.
             { destruct (decide (k' = k)) as [->|Hne].
               - destruct (Hnew eq_refl) as (ms0 & [= <-] & ->). cbn [eval oentries].
                 rewrite gdef_oadd, gdef_mo_entries. fold y.
                 destruct (decide (m ∈ ms ∧ a = dactor d)); [rewrite decide_True by tauto|rewrite decide_False by tauto]; done.
               - pose proof (Hinv k' e1 (Hold Hne)) as Hk1. rewrite En in Hk1. destruct Hk1 as (E1 & _).
                 rewrite E1, gdef_mo_entries. fold os y. rewrite decide_False by tauto. done. }
             rewrite Hx1 in A1, A2, A3. clear Hx1.
             destruct (decide ((k' = k ∧ m ∈ ms) ∧ a = dactor d)) as [[[-> Hm] ->]|Hn].
             ++ (* the new witness *)
                assert (N.max y (dcounter d) = dcounter d) as Hmax by lia. rewrite Hmax in A1, A2, A3.
                destruct (mo_covered os k m d) eqn:Ec.
                ** rewrite decide_False by (intros [_ ?]; done).
                   apply (mo_covered_named K k m d En) in Ec as (c & ks' & Hin & Hk & Hc).
                   destruct (pending_covering s K c ks' k (dactor d) Hr Hin Hk) as (ks & Hl & Hk2); [lia|].
                   rewrite (A2 c ks Hl Hk2 Hc). symmetry.
                   destruct Hnp as [?|Hnp]; [done|]. specialize (Hnp c ks Hl Hk2). lia.
                ** rewrite decide_True by done. rewrite decide_True by done. rewrite Hmax. apply A3.
                   intros c ks Hl Hk. destruct (pending_known s K c ks k Hr Hl Hk) as (ks' & Hin & Hk').
                   destruct (decide (vget c (dactor d) < dcounter d)); [done|].
                   assert (mo_covered os k m d = true); [|congruence].
                   apply (mo_covered_named K k m d En). exists c, ks'. split_and!; [done|done|lia].
             ++ (* the old witnesses *)
                assert ((if decide ((k' = k ∧ m ∈ ms) ∧ mo_covered os k' m d = false)
                         then if decide (dactor d = a) then N.max y (dcounter d) else y else y) = y) as ->.
                { destruct (decide _) as [[? _]|]; [|done]. destruct (decide _) as [<-|]; [|done]. tauto. }
                destruct Hnp as [Hy|Hnp]; [lia|]. by apply A3.
          -- (* the update carries a nested remove: it addresses another key *)
             assert (k' ≠ k) as Hne.
             { intros ->. by apply named_no_rm in HinH. }
             assert (max_ctr (mo_live_dots os' k' m) a = y) as ->.
             { unfold y. rewrite <- !gdef_mo_entries.
               rewrite (step_orm_entries _ _ _ Hos' d k c ms k' eq_refl), decide_False by done. done. }
             pose proof (Hinv k' e1 (Hold Hne)) as Hk1. rewrite En in Hk1. destruct Hk1 as (E1 & _).
             rewrite E1, gdef_mo_entries in A1, A2, A3. fold os y in A1, A2, A3.
             destruct Hnp as [Hy|Hnp]; [lia|]. by apply A3.
        * (* a key no remove names *)
          rewrite mfold_key_untouched in He' by (intros c ks Hl; by eapply pending_not_unnamed).
          cbn [mentries] in He'. destruct (decide (k' = k)) as [->|Hne].
          -- rewrite lookup_insert in He'. injection He' as <-. cbn [eval v_apply orswot_valops].
             pose proof (inv_default_unnamed s K k Hr Hinv En) as E0. fold e0 os in E0. rewrite E0.
             apply (uk_apply os os' d k op Hos' Hsh'); [|unfold os; by destruct (key_clock s K Hr) as [<- _]].
             intros d1 c ms Hin. destruct Hwf as (Hs & _). by apply known_hops, Hs in Hin.
          -- rewrite lookup_insert_ne in He' by done. pose proof (Hinv k' e' He') as Hk1. rewrite En in Hk1.
             rewrite Hk1. symmetry. apply (proj_other _ _ (MUp d k op)); [done|]. intros d1 o1 [= _ ? _]. congruence.
  Qed.
End main.

Print Assumptions kmn_step.
