(** The Orswot instance of the replicated-system framework: every reachable
    replica state is the specification of its knowledge; API-generated
    histories are well-formed; corollaries for C01-C04, C07-C09, C20. *)
From stdpp Require Import gmap.
From Crdt Require Import model.Orswot spec.System spec.OrswotSpec spec.OrswotSystem
  proofs.VClock proofs.OrswotLayer proofs.OrswotL1 proofs.OrswotL2.
From Coq Require Import ZifyBool ZifyN ZifyNat.
Local Open Scope N_scope.

Notation oreach := (reach onew oapply omerge adm_per_actor True).
Notation ohist_ok := (hist_ok onew oapply omerge ogen adm_per_actor True).

(** * state = spec(history, knowledge) *)
Theorem orswot_reach_spec H s K : owfH H → oreach H s K → s = ospec H K ∧ ovalid H K.
Proof.
  intros HH Hr.
  refine (reach_spec eq onew oapply omerge adm_per_actor True ospec owfH ovalid
            _ _ _ _ _ _ _ _ H s K HH Hr).
  - by intros ??? ->.
  - by intros ???? -> ->.
  - intros H'. by rewrite ospec_init.
  - intros H'. apply ovalid_empty.
  - intros H' K' i. apply ovalid_step.
  - intros H' K1 K2. apply ovalid_union.
  - intros H' K' i o. apply orswot_L1.
  - intros H' K1 K2 _. apply orswot_L2.
Qed.

(** * the clock of an actor's own replica counts its adds *)
Lemma add_cnt_S H a k r : H !! k = Some r →
  add_cnt H a (S k) = (add_cnt H a k + (if is_add_by a r then 1 else 0))%nat.
Proof.
  intros Hk. unfold add_cnt. rewrite (take_S_r _ _ _ Hk), List.filter_app, app_length. cbn [List.filter].
  by destruct (is_add_by a r).
Qed.
Lemma add_cnt_0 H a : add_cnt H a 0 = 0%nat.
Proof. done. Qed.
Lemma add_cnt_last H a k : (k <= length H)%nat → (0 < add_cnt H a k)%nat →
  ∃ j r, (j < k)%nat ∧ H !! j = Some r ∧ is_add_by a r = true ∧ (add_cnt H a j + 1 = add_cnt H a k)%nat.
Proof.
  induction k as [|k IH]; intros Hk Hpos; [by rewrite add_cnt_0 in Hpos; lia|].
  destruct (lookup_lt_is_Some_2 H k) as [r Hr]; [lia|].
  rewrite (add_cnt_S _ _ _ _ Hr) in *.
  destruct (is_add_by a r) eqn:E.
  - exists k, r. split_and!; [lia|done|done|lia].
  - destruct IH as (j & r' & Hj & Hl & Ha & Hc); [lia|lia|]. exists j, r'. split_and!; [lia|done|done|lia].
Qed.
Lemma is_add_by_author a r : is_add_by a r = true → op_author r = a ∧ ∃ d ms, op_val r = OAdd d ms.
Proof.
  unfold is_add_by. destruct (op_val r) as [d ms|]; [|done].
  intros Hb%bool_decide_eq_true. split; [done|by exists d, ms].
Qed.

Lemma own_clock H K a : owfH H → ovalid H K → own_known H a K →
  vget (ospec_clock (known_ops H K)) a = N.of_nat (add_cnt H a (length H)).
Proof.
  intros HH [Hdom _] Hown. rewrite ospec_clock_get. apply N.le_antisymm.
  - apply max_ctr_le_iff. intros d Hin Ha.
    apply elem_of_list_fmap in Hin as ([d' ms] & -> & Hin). apply elem_of_adds_of in Hin.
    apply elem_of_known_ops in Hin as (j & r & Hj & HjK & Hv).
    destruct (owfH_add _ _ _ _ _ HH Hj Hv) as (Hauth & Hc & Hab). cbn [fst] in *.
    rewrite <- Hauth, Ha in *. rewrite Hc.
    pose proof (add_cnt_lt H a j (length H) r (lookup_lt_Some _ _ _ Hj) Hj Hab). lia.
  - destruct (decide (add_cnt H a (length H) = 0%nat)) as [->|Hne]; [lia|].
    destruct (add_cnt_last H a (length H)) as (j & r & Hj & Hl & Hab & Hc); [lia|lia|].
    destruct (is_add_by_author _ _ Hab) as (Hauth & d & ms & Hv).
    destruct (owfH_add _ _ _ _ _ HH Hl Hv) as (Hd & Hdc & _). rewrite Hauth in *.
    assert (d ∈ fst <$> adds_of (known_ops H K)) as Hin.
    { apply elem_of_list_fmap. exists (d, ms). split; [done|]. apply elem_of_adds_of, elem_of_known_ops.
      exists j, r. split_and!; [done| |done]. by apply (Hown j r). }
    pose proof (max_ctr_ge _ _ _ Hin Hd). lia.
Qed.

(** * API-generated histories are well-formed *)
Lemma owfH_snoc H s K a cmd o :
  owfH H → oreach H s K → own_known H a K → ogen s a cmd = Some o → owfH (H ++ [OpRec a o K]).
Proof.
  intros HH Hr Hown Hgen i r Hi.
  destruct (orswot_reach_spec _ _ _ HH Hr) as [-> Hval].
  destruct (decide (i < length H)%nat) as [Hlt|Hge].
  - rewrite lookup_app_l in Hi by done. specialize (HH i r Hi).
    rewrite take_app_le by lia. done.
  - assert (i = length H) as ->.
    { apply lookup_lt_Some in Hi. rewrite app_length in Hi. cbn in Hi. lia. }
    rewrite lookup_app_r, Nat.sub_diag in Hi by lia. cbn in Hi. injection Hi as <-. cbn [op_val op_author].
    rewrite take_app_le by lia. rewrite firstn_all.
    destruct cmd as [ms|ms [m'|]]; cbn in Hgen; injection Hgen as <-.
    + unfold derive_add_ctx, oread_ctx, vinc, dinc, vdot. cbn [ac_dot add_clock dcounter dactor].
      split; [done|]. change (oclock (ospec H K)) with (ospec_clock (known_ops H K)).
      rewrite (own_clock H K a HH Hval Hown). unfold add_cnt. by rewrite firstn_all.
    + unfold derive_rm_ctx, ocontains. cbn [rm_clock].
      change (oentries (ospec H K)) with (ospec_entries (known_ops H K)).
      destruct (ospec_entries (known_ops H K) !! m') as [e|] eqn:E; cbn [default]; [|apply vwf_empty].
      by destruct (ospec_entry_inv H K m' e E).
    + unfold derive_rm_ctx, oread_ctx. cbn [rm_clock]. apply ospec_clock_vwf.
Qed.

Theorem ohist_ok_wf H : ohist_ok H → owfH H.
Proof.
  induction 1 as [|H s K a cmd o Hok IH Hr Hown Hgen]; [intros i r Hi; by rewrite lookup_nil in Hi|].
  by eapply owfH_snoc.
Qed.

Lemma omerge_reach H s1 K1 s2 K2 : oreach H s1 K1 → oreach H s2 K2 → oreach H (omerge s1 s2) (K1 ∪ K2).
Proof. intros. by apply reach_merge. Qed.

(** * corollaries, for API-generated histories *)
Section corollaries.
  Context (H : list (oprec oop)) (Hok : ohist_ok H).
  Let HH : owfH H := ohist_ok_wf H Hok.

  (** C04: membership is exactly "an applied add of [m] not covered by the
      context of any applied remove of [m]"; the context handed out for a
      member is exactly its surviving add witnesses (empty iff absent) *)
  Theorem orswot_c04 s K m : oreach H s K →
    (m ∈ rval (oread s) ↔
       ∃ d ms, OAdd d ms ∈ known_ops H K ∧ m ∈ ms ∧
               ¬ ∃ c ms', ORm c ms' ∈ known_ops H K ∧ m ∈ ms' ∧ dcounter d <= vget c (dactor d)) ∧
    rm_clock (ocontains s m) = ospec_entry (known_ops H K) m ∧
    (∀ b, vget (rm_clock (ocontains s m)) b = max_ctr (live_dots (known_ops H K) m) b) ∧
    (rval (ocontains s m) = true ↔ m ∈ rval (oread s)) ∧
    (rm_clock (ocontains s m) = ∅ ↔ m ∉ rval (oread s)).
  Proof.
    intros Hr. destruct (orswot_reach_spec _ _ _ HH Hr) as [-> Hval]. split_and!.
    - by apply ospec_read_c04.
    - apply ospec_contains_ctx.
    - intros b. rewrite ospec_contains_ctx. apply ospec_entry_get.
    - unfold ocontains, oread. cbn [rval]. rewrite bool_decide_eq_true, elem_of_dom. done.
    - unfold ocontains, oread. cbn [rval rm_clock]. rewrite elem_of_dom.
      destruct (oentries (ospec H K) !! m) as [e|] eqn:E; cbn [default].
      + destruct (ospec_entry_inv _ _ _ _ E) as (_ & Hne & _). split; [done|]. intros Hx. destruct Hx. by eexists.
      + split; [intros _ [? ?]; done|done].
  Qed.

  (** C01 / C08 / C20: equal knowledge gives the same state (==), whatever the
      interleaving, as long as each actor's adds are delivered in issue order *)
  Theorem orswot_converge s1 s2 K : oreach H s1 K → oreach H s2 K → s1 = s2.
  Proof.
    intros H1 H2. destruct (orswot_reach_spec _ _ _ HH H1) as [-> _], (orswot_reach_spec _ _ _ HH H2) as [-> _]. done.
  Qed.

  (** C03: merge = having learned the union *)
  Theorem orswot_merge_is_union s1 K1 s2 K2 : oreach H s1 K1 → oreach H s2 K2 →
    omerge s1 s2 = ospec H (K1 ∪ K2) ∧ oreach H (omerge s1 s2) (K1 ∪ K2).
  Proof.
    intros H1 H2. split; [|by apply omerge_reach].
    by destruct (orswot_reach_spec _ _ _ HH (omerge_reach _ _ _ _ _ H1 H2)) as [-> _].
  Qed.

  (** C02: merge is a join on reachable states *)
  Theorem orswot_merge_laws s1 K1 s2 K2 s3 K3 :
    oreach H s1 K1 → oreach H s2 K2 → oreach H s3 K3 →
    omerge s1 s2 = omerge s2 s1 ∧
    omerge (omerge s1 s2) s3 = omerge s1 (omerge s2 s3) ∧
    omerge s1 s1 = s1.
  Proof.
    intros H1 H2 H3.
    assert (∀ s K, oreach H s K → s = ospec H K) as Hs.
    { intros s K Hr. by destruct (orswot_reach_spec _ _ _ HH Hr). }
    split_and!.
    - rewrite (Hs _ _ (omerge_reach _ _ _ _ _ H1 H2)), (Hs _ _ (omerge_reach _ _ _ _ _ H2 H1)).
      by rewrite (comm_L (∪) K1 K2).
    - rewrite (Hs _ _ (omerge_reach _ _ _ _ _ (omerge_reach _ _ _ _ _ H1 H2) H3)),
              (Hs _ _ (omerge_reach _ _ _ _ _ H1 (omerge_reach _ _ _ _ _ H2 H3))).
      by rewrite (assoc_L (∪) K1 K2 K3).
    - rewrite (Hs _ _ (omerge_reach _ _ _ _ _ H1 H1)), (idemp_L (∪) K1). symmetry. by apply Hs.
  Qed.

  (** C09: duplicates and stale states are absorbed *)
  Theorem orswot_absorb s K i r s' K' :
    oreach H s K → oreach H s' K' →
    (H !! i = Some r → i ∈ K → oapply s (op_val r) = s) ∧
    (K' ⊆ K → omerge s s' = s).
  Proof.
    intros H1 H2. destruct (orswot_reach_spec _ _ _ HH H1) as [-> Hval]. split.
    - intros Hi HiK.
      assert (adm_per_actor H K i) as Hadm.
      { exists r. split; [done|]. intros j r' Hj Hl Ha. by eapply (proj2 Hval i j r r'). }
      rewrite (orswot_L1 H K i r HH Hval Hadm Hi). f_equal. set_solver.
    - intros Hsub. destruct (orswot_reach_spec _ _ _ HH H2) as [-> Hval'].
      rewrite (orswot_L2 H K K' HH Hval Hval'). f_equal. set_solver.
  Qed.

  (** C07: read contexts are exact and derived dots are fresh *)
  Theorem orswot_contexts s K a m : oreach H s K →
    vwf (add_clock (oread s)) ∧
    add_clock (oread s) = add_clock (ocontains s m) ∧ add_clock (oread s) = add_clock (oread_ctx s) ∧
    rm_clock (oread s) = add_clock (oread s) ∧
    (∀ b, vget (add_clock (oread s)) b = max_ctr (fst <$> adds_of (known_ops H K)) b) ∧
    (∀ b, vget (rm_clock (ocontains s m)) b <= vget (add_clock (oread s)) b) ∧
    (own_known H a K →
       let d := ac_dot (derive_add_ctx (oread_ctx s) a) in
       dactor d = a ∧ dcounter d = N.of_nat (add_cnt H a (length H)) + 1 ∧
       ∀ j r ms, H !! j = Some r → op_val r ≠ OAdd d ms).
  Proof.
    intros Hr. destruct (orswot_reach_spec _ _ _ HH Hr) as [-> Hval]. split_and!; try done.
    - apply ospec_clock_vwf.
    - intros b. apply ospec_clock_get.
    - intros b. rewrite ospec_contains_ctx, ospec_entry_get. apply live_le_clock.
    - intros Hown d. unfold d. unfold derive_add_ctx, oread_ctx, vinc, dinc, vdot. cbn [ac_dot add_clock dcounter dactor].
      change (oclock (ospec H K)) with (ospec_clock (known_ops H K)).
      rewrite (own_clock H K a HH Hval Hown). split_and!; [done..|].
      intros j r ms Hj Hv. destruct (owfH_add _ _ _ _ _ HH Hj Hv) as (Hauth & Hc & Hab).
      cbn [dactor dcounter] in Hauth, Hc. rewrite <- Hauth in Hc, Hab.
      pose proof (add_cnt_lt H a j (length H) r (lookup_lt_Some _ _ _ Hj) Hj Hab). lia.
  Qed.

  (** C08 / C20: the pending-remove table holds exactly the applied removes
      whose context the clock does not cover yet; once a remove and everything
      it observed have arrived nothing of it is left: no pending entry, no empty
      member entry *)
  Theorem orswot_pending s K c : oreach H s K →
    (∀ ms, odeferred s !! c = Some ms →
           vwf c ∧ c ≠ ∅ ∧ vle c (oclock s) = false ∧ ms = rm_members (known_ops H K) c) ∧
    ((∃ ms, ORm c ms ∈ known_ops H K) → vle c (oclock s) = false → is_Some (odeferred s !! c)) ∧
    (vle c (oclock s) = true → odeferred s !! c = None) ∧
    (∀ m e, oentries s !! m = Some e → e ≠ ∅).
  Proof.
    intros Hr. destruct (orswot_reach_spec _ _ _ HH Hr) as [-> Hval]. split_and!.
    - intros ms Hl. destruct (ospec_deferred_inv _ _ _ _ HH Hl) as (? & ? & _ & ? & ?). done.
    - intros Hex Hle. change (oclock (ospec H K)) with (ospec_clock (known_ops H K)) in Hle.
      change (odeferred (ospec H K)) with (ospec_deferred (known_ops H K)). rewrite ospec_deferred_lookup.
      rewrite decide_True by (by apply elem_of_rm_clocks). rewrite Hle. by eexists.
    - intros Hle. change (oclock (ospec H K)) with (ospec_clock (known_ops H K)) in Hle.
      change (odeferred (ospec H K)) with (ospec_deferred (known_ops H K)). rewrite ospec_deferred_lookup, Hle.
      by destruct (decide _).
    - intros m e He. by destruct (ospec_entry_inv _ _ _ _ He) as (_ & ? & _).
  Qed.
End corollaries.

(** states of different points in time of one run are comparable *)
Lemma oreach_mono H H' s K : oreach H s K → oreach (H ++ H') s K.
Proof. apply reach_mono. apply @adm_per_actor_mono. Qed.

(** a causal schedule is in particular a per-actor schedule *)
Lemma ohist_deps_own H : ohist_ok H →
  ∀ i r j r', H !! i = Some r → (j < i)%nat → H !! j = Some r' → op_author r' = op_author r → j ∈ op_deps r.
Proof.
  induction 1 as [|H s K a cmd o Hok IH Hr Hown Hgen]; [intros i r j r' Hi; by rewrite lookup_nil in Hi|].
  intros i r j r' Hi Hlt Hj Ha.
  destruct (decide (i < length H)%nat) as [Hl|Hge].
  - rewrite lookup_app_l in Hi by done. rewrite lookup_app_l in Hj by lia. by eapply IH.
  - assert (i = length H) as ->.
    { apply lookup_lt_Some in Hi. rewrite app_length in Hi. cbn in Hi. lia. }
    rewrite lookup_app_r, Nat.sub_diag in Hi by lia. cbn in Hi. injection Hi as <-. cbn in *.
    rewrite lookup_app_l in Hj by lia. by apply (Hown j r').
Qed.
Lemma causal_is_per_actor H K i : ohist_ok H → adm_causal H K i → adm_per_actor H K i.
Proof.
  intros Hok (r & Hi & Hdeps). exists r. split; [done|]. intros j r' Hlt Hj Ha.
  apply Hdeps. by eapply ohist_deps_own.
Qed.

Lemma c04_example :
  let H := [OpRec 1 (OAdd (Dot 1 1) [7]) ∅;
            OpRec 2 (ORm {[1 := 1]} [7]) {[0%nat]};
            OpRec 1 (OAdd (Dot 1 2) [7]) {[0%nat]}] in
  owfH H ∧ rval (oread (ospec H {[0%nat; 1%nat; 2%nat]})) = {[7]} ∧
  rval (oread (ospec H {[0%nat; 1%nat]})) = ∅.
Proof.
  split_and!.
  - intros i r Hi. destruct i as [|[|[|i]]]; cbn in Hi; simplify_eq; cbn.
    + split; [done|]. by vm_compute.
    + intros a n. rewrite lookup_singleton_Some. by intros [_ <-].
    + split; [done|]. by vm_compute.
  - apply (bool_decide_unpack _). by vm_compute.
  - apply (bool_decide_unpack _). by vm_compute.
Qed.

(** reachable states satisfy the well-formedness predicate of the
    reset_remove laws (proofs/Reset.v) *)
From Crdt Require Import proofs.Reset.
Lemma orswot_reach_wf H s K : ohist_ok H → oreach H s K → orswot_wf s.
Proof.
  intros Hok Hr. pose proof (ohist_ok_wf H Hok) as HH.
  destruct (orswot_reach_spec _ _ _ HH Hr) as [-> _]. split_and!.
  - apply ospec_clock_vwf.
  - intros m e He. by destruct (ospec_entry_inv _ _ _ _ He) as (? & ? & ?).
  - intros k ms Hk. by destruct (ospec_deferred_inv _ _ _ _ HH Hk) as (? & ? & _).
Qed.

Lemma orswot_no_residue H (Hok : ohist_ok H) s K c : oreach H s K →
  s = ospec H K ∧
  (vle c (oclock s) = true → odeferred s !! c = None) ∧
  (∀ m e, oentries s !! m = Some e → e ≠ ∅ ∧ e = ospec_entry (known_ops H K) m) ∧
  (∀ ms, odeferred s !! c = Some ms → vle c (oclock s) = false ∧ ms = rm_members (known_ops H K) c).
Proof.
  intros Hr. pose proof (ohist_ok_wf H Hok) as HH.
  destruct (orswot_pending H Hok s K c Hr) as (P1 & _ & P3 & _).
  destruct (orswot_reach_spec _ _ _ HH Hr) as [Hs _]. split_and!; [done|done| |].
  - intros m e He. subst s. destruct (ospec_entries_Some _ _ _ He) as [-> Hne]. done.
  - intros ms Hms. destruct (P1 ms Hms) as (_ & _ & ? & ?). done.
Qed.
