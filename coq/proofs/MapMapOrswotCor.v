(** Closed restatement of the non-vacuity example of proofs/MapMapOrswot.v (the example there is stated
    with section-local abbreviations). *)
From stdpp Require Import gmap.
From Crdt Require Import model.Orswot model.Map spec.System spec.OrswotSpec spec.OrswotSystem
  spec.MapSpec spec.MapSystem spec.MapOrswotSpec spec.MapMapOrswotSpec proofs.MapMapOrswot.
Local Open Scope N_scope.

(** an API-generated history of seven ops over two actors (nested member remove, inner key remove,
    concurrent outer key remove), two causal delivery orders of the same knowledge: the two states
    differ structurally (finding T3) yet hold the same, non-trivial, specified tables *)
Lemma map2_example_closed :
  ∃ (H : list (oprec (mop (mop oop)))) (s s' : cmap (cmap orswot)) (K : gset nat),
    m2hist_ok H ∧ m2reach H s K ∧ m2reach H s' K ∧ length H = 7%nat ∧ s ≠ s' ∧
    m2_state_inner_clocks s 7 = {[3 := {[1 := 3]}; 4 := {[2 := 3]}]} ∧
    m2_state_inner_clocks s' 7 = {[3 := {[1 := 3]}; 4 := {[2 := 3]}]} ∧
    m2_state_entries s 7 3 = {[14 := {[1 := 3]}]} ∧
    m2_state_entries s' 7 3 = {[14 := {[1 := 3]}]} ∧
    m2_state_entries s 7 4 = {[13 := {[2 := 3]}]} ∧
    m2_state_entries s' 7 4 = {[13 := {[2 := 3]}]} ∧
    m2_live_dots (known_ops H K) 7 3 10 = [] ∧
    m2valspec_ok H K s = true ∧ m2valspec_ok H K s' = true.
Proof.
  pose proof map2_example as P. cbv zeta in P.
  destruct P as (P1 & P2 & P3 & P4 & P5 & P6 & P7 & P8 & P9 & P10 & P11 & P12 & P13 & P14 & P15 & P16 & P17 & P18 & P19).
  rewrite P4 in P3.
  lazymatch type of P2 with m2reach ?H ?s ?K =>
    lazymatch type of P3 with m2reach _ ?s' _ => exists H, s, s', K end end.
  split_and!; try assumption. reflexivity.
Qed.
Print Assumptions map2_example_closed.
