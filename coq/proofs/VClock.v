(** Lemma library for model/VClock.v: lookup-level and pointwise
    characterisations of every clock function, the partial order, lub/glb. *)
From Crdt Require Import model.VClock.
From Coq Require Import ZifyBool ZifyN.

Local Open Scope N_scope.

(** * [vget] *)
Lemma vget_empty a : vget ∅ a = 0.
Proof. unfold vget. by rewrite lookup_empty. Qed.
Lemma vget_insert c a n : vget (<[a := n]> c) a = n.
Proof. unfold vget. by rewrite lookup_insert. Qed.
Lemma vget_insert_ne c a b n : a ≠ b → vget (<[a := n]> c) b = vget c b.
Proof. intros. unfold vget. by rewrite lookup_insert_ne. Qed.
Lemma vget_delete c a : vget (delete a c) a = 0.
Proof. unfold vget. by rewrite lookup_delete. Qed.
Lemma vget_delete_ne c a b : a ≠ b → vget (delete a c) b = vget c b.
Proof. intros. unfold vget. by rewrite lookup_delete_ne. Qed.
Lemma vget_Some c a n : c !! a = Some n → vget c a = n.
Proof. unfold vget. by intros ->. Qed.
Lemma vget_None c a : c !! a = None → vget c a = 0.
Proof. unfold vget. by intros ->. Qed.
Lemma vget_pos_Some c a : 0 < vget c a → c !! a = Some (vget c a).
Proof. unfold vget. destruct (c !! a); simpl; [done|lia]. Qed.

(** * well-formedness: no stored zero *)
Lemma vwf_lookup c a n : vwf c → c !! a = Some n → n ≠ 0.
Proof. intros H ?. by eapply (map_Forall_lookup_1 _ _ _ _ H). Qed.
Lemma vwf_empty : vwf ∅.
Proof. apply map_Forall_empty. Qed.
Lemma vwfb_spec c : vwfb c = true ↔ vwf c.
Proof. unfold vwfb. by rewrite bool_decide_eq_true. Qed.

(** Under [vwf], a clock is determined by its [vget] function. *)
Lemma vwf_ext a b : vwf a → vwf b → (∀ x, vget a x = vget b x) → a = b.
Proof.
  intros Ha Hb H. apply map_eq. intros x. specialize (H x). unfold vget in H.
  destruct (a !! x) as [n|] eqn:E1, (b !! x) as [m|] eqn:E2; simpl in H; subst; try done.
  - by apply (vwf_lookup _ _ _ Ha) in E1.
  - by apply (vwf_lookup _ _ _ Hb) in E2.
Qed.

(** * [vapply] *)
Lemma vapply_lookup c d x :
  vapply c d !! x =
    if decide (x = dactor d) then
      if vget c x <? dcounter d then Some (dcounter d) else c !! x
    else c !! x.
Proof.
  unfold vapply. destruct (decide (x = dactor d)) as [->|Hne].
  - destruct (vget c (dactor d) <? dcounter d); [by rewrite lookup_insert|done].
  - destruct (vget c (dactor d) <? dcounter d); [by rewrite lookup_insert_ne|done].
Qed.
Lemma vapply_get c d x :
  vget (vapply c d) x = if decide (x = dactor d) then N.max (vget c x) (dcounter d) else vget c x.
Proof.
  unfold vget at 1. rewrite vapply_lookup.
  destruct (decide (x = dactor d)) as [->|]; [|done].
  destruct (vget c (dactor d) <? dcounter d) eqn:E; simpl; [lia|].
  fold (vget c (dactor d)). lia.
Qed.
Lemma vapply_wf c d : vwf c → vwf (vapply c d).
Proof.
  intros H x n. rewrite vapply_lookup.
  destruct (decide (x = dactor d)) as [->|]; [|apply H].
  destruct (vget c (dactor d) <? dcounter d) eqn:E; [|apply H].
  intros [= <-]. lia.
Qed.
Lemma vapply_mono c d x : vget c x <= vget (vapply c d) x.
Proof. rewrite vapply_get. destruct (decide _); lia. Qed.

(** * [vmerge] *)
Lemma vmerge_lookup a b x :
  vmerge a b !! x =
    match b !! x with
    | Some n => if vget a x <? n then Some n else a !! x
    | None => a !! x
    end.
Proof.
  unfold vmerge.
  apply (map_fold_ind (λ r m, r !! x = match m !! x with
                                        | Some n => if vget a x <? n then Some n else a !! x
                                        | None => a !! x end)).
  - by rewrite lookup_empty.
  - intros i n m r Hi IH. rewrite vapply_lookup. simpl.
    destruct (decide (x = i)) as [->|Hne].
    + rewrite lookup_insert. rewrite Hi in IH.
      unfold vget at 1. rewrite IH. fold (vget a i). done.
    + rewrite lookup_insert_ne by done. done.
Qed.
Lemma vmerge_get a b x : vget (vmerge a b) x = N.max (vget a x) (vget b x).
Proof.
  unfold vget at 1. rewrite vmerge_lookup. unfold vget at 3.
  destruct (b !! x) as [n|]; simpl.
  - destruct (vget a x <? n) eqn:E; simpl; [lia|]. fold (vget a x). lia.
  - fold (vget a x). lia.
Qed.
Lemma vmerge_wf a b : vwf a → vwf b → vwf (vmerge a b).
Proof.
  intros Ha Hb x n. rewrite vmerge_lookup.
  destruct (b !! x) as [m|] eqn:E; [|apply Ha].
  destruct (vget a x <? m); [|apply Ha]. intros [= <-]. by eapply vwf_lookup.
Qed.

(** * [vreset] *)
Lemma vreset_lookup a c x :
  vreset a c !! x =
    match a !! x, c !! x with
    | Some n, Some m => if n <=? m then None else Some n
    | r, _ => r
    end.
Proof.
  unfold vreset.
  apply (map_fold_ind (λ r m, r !! x = match a !! x, m !! x with
                                        | Some n, Some k => if n <=? k then None else Some n
                                        | r, _ => r end)).
  - rewrite lookup_empty. by destruct (a !! x).
  - intros i k m r Hi IH.
    destruct (decide (x = i)) as [->|Hne].
    + rewrite lookup_insert. rewrite Hi in IH.
      assert (r !! i = a !! i) as Hr by (rewrite IH; by destruct (a !! i)).
      unfold vget. rewrite Hr.
      destruct (a !! i) as [n|] eqn:Ea; simpl.
      * destruct (n <=? k) eqn:E; [by rewrite lookup_delete|by rewrite Hr].
      * destruct (0 <=? k); [rewrite lookup_delete_None; by left + (right; done) | done].
    + rewrite lookup_insert_ne by done.
      destruct (vget r i <=? k); [rewrite lookup_delete_ne by done|]; exact IH.
Qed.
Lemma vreset_get a c x :
  vget (vreset a c) x = if vget a x <=? vget c x then 0 else vget a x.
Proof.
  unfold vget. rewrite vreset_lookup.
  destruct (a !! x) as [n|], (c !! x) as [m|]; simpl; repeat case_match; simpl; lia.
Qed.
Lemma vreset_wf a c : vwf a → vwf (vreset a c).
Proof.
  intros Ha x n. rewrite vreset_lookup.
  destruct (a !! x) as [k|] eqn:E; [|done].
  destruct (c !! x) as [m|]; [destruct (k <=? m); [done|]|]; intros [= <-]; by eapply vwf_lookup.
Qed.
Lemma vreset_empty_r a : vreset a ∅ = a.
Proof. apply map_eq. intros x. rewrite vreset_lookup, lookup_empty. by destruct (a !! x). Qed.

(** * [vglb] *)
Lemma vglb_lookup a b x :
  vglb a b !! x = match a !! x with
                  | Some n => let m := N.min n (vget b x) in if m =? 0 then None else Some m
                  | None => None end.
Proof. unfold vglb. rewrite map_lookup_imap. by destruct (a !! x). Qed.
Lemma vglb_get a b x : vget (vglb a b) x = N.min (vget a x) (vget b x).
Proof.
  unfold vget at 1 2. rewrite vglb_lookup. destruct (a !! x) as [n|]; simpl; [|lia].
  destruct (N.min n (vget b x) =? 0) eqn:E; simpl; lia.
Qed.
Lemma vglb_wf a b : vwf (vglb a b).
Proof.
  intros x n. rewrite vglb_lookup. destruct (a !! x) as [k|]; [|done]. simpl.
  destruct (N.min k (vget b x) =? 0) eqn:E; [done|]. intros [= <-]. lia.
Qed.

(** * [vintersection] *)
Lemma vintersection_lookup l r x :
  vintersection l r !! x = match l !! x with
                           | Some n => if vget r x =? n then Some n else None
                           | None => None end.
Proof. unfold vintersection. rewrite map_lookup_imap. by destruct (l !! x). Qed.
Lemma vintersection_get l r x :
  vget (vintersection l r) x = if vget l x =? vget r x then vget l x else 0.
Proof.
  unfold vget at 1 2 4. rewrite vintersection_lookup. destruct (l !! x) as [n|]; simpl.
  - rewrite N.eqb_sym. by destruct (n =? vget r x).
  - by destruct (0 =? vget r x).
Qed.
Lemma vintersection_wf l r : vwf l → vwf (vintersection l r).
Proof.
  intros Hl x n. rewrite vintersection_lookup. destruct (l !! x) as [k|] eqn:E; [|done].
  destruct (vget r x =? k); [|done]. intros [= <-]. by eapply vwf_lookup.
Qed.

(** * [vis_empty] *)
Lemma vis_empty_spec c : vis_empty c = true ↔ c = ∅.
Proof. unfold vis_empty. by rewrite bool_decide_eq_true. Qed.
Lemma vis_empty_get c : vwf c → (vis_empty c = true ↔ ∀ x, vget c x = 0).
Proof.
  intros Hc. rewrite vis_empty_spec. split.
  - intros -> x. apply vget_empty.
  - intros H. apply vwf_ext; [done|apply vwf_empty|]. intros x. by rewrite H, vget_empty.
Qed.

(** * dominance and [vcmp] *)
Lemma vdominates_spec x y : vdominates x y = true ↔ ∀ a, vget y a <= vget x a.
Proof.
  unfold vdominates. rewrite bool_decide_eq_true, map_Forall_lookup. split.
  - intros H a. unfold vget at 1. destruct (y !! a) as [n|] eqn:E; simpl; [by apply H|lia].
  - intros H a n E. specialize (H a). by rewrite (vget_Some _ _ _ E) in H.
Qed.

Definition vleq (a b : vclock) : Prop := ∀ x, vget a x <= vget b x.
Lemma vdom_true x y : vdominates x y = true → vleq y x.
Proof. intros H. unfold vleq. by apply vdominates_spec. Qed.
Lemma vdom_false x y : vdominates x y = false → ¬ vleq y x.
Proof. intros E H. unfold vleq in H. rewrite <- vdominates_spec in H. congruence. Qed.

Lemma vcmp_Eq a b : vcmp a b = Some Eq ↔ a = b.
Proof.
  unfold vcmp. case_bool_decide; [done|].
  split; [|done]. by repeat case_match.
Qed.
Lemma vcmp_Gt a b : vwf a → vwf b → (vcmp a b = Some Gt ↔ a ≠ b ∧ vleq b a).
Proof.
  intros Ha Hb. unfold vcmp. case_bool_decide as Heq.
  - split; [done|]. by intros [? _].
  - destruct (vdominates a b) eqn:E.
    + apply vdom_true in E. done.
    + apply vdom_false in E. split; [by repeat case_match|]. by intros [_ H].
Qed.
Lemma vcmp_Lt a b : vwf a → vwf b → (vcmp a b = Some Lt ↔ a ≠ b ∧ vleq a b).
Proof.
  intros Ha Hb. unfold vcmp. case_bool_decide as Heq.
  - split; [done|]. by intros [? _].
  - destruct (vdominates a b) eqn:E.
    + apply vdom_true in E. split; [done|]. intros [_ H].
      destruct Heq. apply vwf_ext; [done..|]. intros x. specialize (E x). specialize (H x). lia.
    + destruct (vdominates b a) eqn:E2.
      * apply vdom_true in E2. done.
      * apply vdom_false in E2. split; [done|]. by intros [_ H].
Qed.
Lemma vcmp_None a b : vwf a → vwf b → (vcmp a b = None ↔ ¬ vleq a b ∧ ¬ vleq b a).
Proof.
  intros Ha Hb. unfold vcmp. case_bool_decide as Heq.
  - subst. split; [done|]. intros [H _]. destruct H. intros x. lia.
  - destruct (vdominates a b) eqn:E.
    + apply vdom_true in E. split; [done|]. by intros [_ H].
    + apply vdom_false in E. destruct (vdominates b a) eqn:E2.
      * apply vdom_true in E2. split; [done|]. by intros [H _].
      * apply vdom_false in E2. done.
Qed.

(** The derived comparison operators are the pointwise order. *)
Lemma vle_spec a b : vwf a → vwf b → (vle a b = true ↔ vleq a b).
Proof.
  intros Ha Hb. unfold vle. destruct (vcmp a b) as [[]|] eqn:E.
  - apply vcmp_Eq in E as ->. split; [|done]. intros _ x. lia.
  - apply vcmp_Lt in E as [_ H]; done.
  - apply vcmp_Gt in E as [Hne H]; [|done..]. split; [done|]. intros H'.
    destruct Hne. apply vwf_ext; [done..|]. intros x. specialize (H x). specialize (H' x). lia.
  - apply vcmp_None in E as [H _]; done.
Qed.
Lemma vge_spec a b : vwf a → vwf b → (vge a b = true ↔ vleq b a).
Proof.
  intros Ha Hb. unfold vge. destruct (vcmp a b) as [[]|] eqn:E.
  - apply vcmp_Eq in E as ->. split; [|done]. intros _ x. lia.
  - apply vcmp_Lt in E as [Hne H]; [|done..]. split; [done|]. intros H'.
    destruct Hne. apply vwf_ext; [done..|]. intros x. specialize (H x). specialize (H' x). lia.
  - apply vcmp_Gt in E as [_ H]; done.
  - apply vcmp_None in E as [_ H]; done.
Qed.
Lemma vlt_spec a b : vwf a → vwf b → (vlt a b = true ↔ vleq a b ∧ a ≠ b).
Proof.
  intros Ha Hb. unfold vlt. destruct (vcmp a b) as [[]|] eqn:E.
  - apply vcmp_Eq in E as ->. split; [done|]. by intros [_ ?].
  - apply vcmp_Lt in E as [? ?]; done.
  - apply vcmp_Gt in E as [Hne H]; [|done..]. split; [done|]. intros [H' _].
    destruct Hne. apply vwf_ext; [done..|]. intros x. specialize (H x). specialize (H' x). lia.
  - apply vcmp_None in E as [H _]; [|done..]. split; [done|]. by intros [? _].
Qed.
Lemma vgt_spec a b : vwf a → vwf b → (vgt a b = true ↔ vleq b a ∧ a ≠ b).
Proof.
  intros Ha Hb. unfold vgt. destruct (vcmp a b) as [[]|] eqn:E.
  - apply vcmp_Eq in E as ->. split; [done|]. by intros [_ ?].
  - apply vcmp_Lt in E as [Hne H]; [|done..]. split; [done|]. intros [H' _].
    destruct Hne. apply vwf_ext; [done..|]. intros x. specialize (H x). specialize (H' x). lia.
  - apply vcmp_Gt in E as [? ?]; done.
  - apply vcmp_None in E as [_ H]; [|done..]. split; [done|]. by intros [? _].
Qed.
Lemma vconcurrent_spec a b : vwf a → vwf b → (vconcurrent a b = true ↔ ¬ vleq a b ∧ ¬ vleq b a).
Proof.
  intros Ha Hb. unfold vconcurrent. rewrite <- vcmp_None by done.
  destruct (vcmp a b); split; done.
Qed.

(** * the order laws *)
Lemma vleq_refl a : vleq a a.
Proof. intros x. lia. Qed.
Lemma vleq_trans a b c : vleq a b → vleq b c → vleq a c.
Proof. intros H1 H2 x. specialize (H1 x). specialize (H2 x). lia. Qed.
Lemma vleq_antisym a b : vwf a → vwf b → vleq a b → vleq b a → a = b.
Proof.
  intros Ha Hb H1 H2. apply vwf_ext; [done..|]. intros x. specialize (H1 x). specialize (H2 x). lia.
Qed.

(** lub / glb *)
Lemma vmerge_ub_l a b : vleq a (vmerge a b).
Proof. intros x. rewrite vmerge_get. lia. Qed.
Lemma vmerge_ub_r a b : vleq b (vmerge a b).
Proof. intros x. rewrite vmerge_get. lia. Qed.
Lemma vmerge_least a b c : vleq a c → vleq b c → vleq (vmerge a b) c.
Proof. intros H1 H2 x. rewrite vmerge_get. specialize (H1 x). specialize (H2 x). lia. Qed.
Lemma vglb_lb_l a b : vleq (vglb a b) a.
Proof. intros x. rewrite vglb_get. lia. Qed.
Lemma vglb_lb_r a b : vleq (vglb a b) b.
Proof. intros x. rewrite vglb_get. lia. Qed.
Lemma vglb_greatest a b c : vleq c a → vleq c b → vleq c (vglb a b).
Proof. intros H1 H2 x. rewrite vglb_get. specialize (H1 x). specialize (H2 x). lia. Qed.

(** merge is a join on well-formed clocks (Leibniz equalities) *)
Lemma vmerge_comm a b : vwf a → vwf b → vmerge a b = vmerge b a.
Proof.
  intros Ha Hb. apply vwf_ext; [by apply vmerge_wf..|]. intros x. rewrite !vmerge_get. lia.
Qed.
Lemma vmerge_assoc a b c : vwf a → vwf b → vwf c → vmerge (vmerge a b) c = vmerge a (vmerge b c).
Proof.
  intros Ha Hb Hc. apply vwf_ext; [by repeat apply vmerge_wf..|]. intros x. rewrite !vmerge_get. lia.
Qed.
Lemma vmerge_idem a : vmerge a a = a.
Proof.
  apply map_eq. intros x. rewrite vmerge_lookup. destruct (a !! x) as [n|] eqn:E; [|done].
  rewrite (vget_Some _ _ _ E). destruct (n <? n) eqn:E2; [lia|done].
Qed.
Lemma vmerge_empty_r a : vmerge a ∅ = a.
Proof. apply map_eq. intros x. by rewrite vmerge_lookup, lookup_empty. Qed.
Lemma vmerge_empty_l a : vwf a → vmerge ∅ a = a.
Proof.
  intros Ha. apply map_eq. intros x. rewrite vmerge_lookup, lookup_empty, vget_empty.
  destruct (a !! x) as [n|] eqn:E; [|done]. apply (vwf_lookup _ _ _ Ha) in E.
  destruct (0 <? n) eqn:E2; [done|lia].
Qed.
Lemma vmerge_absorb a b : vwf a → vleq b a → vmerge a b = a.
Proof.
  intros Ha H. apply map_eq. intros x. rewrite vmerge_lookup.
  destruct (b !! x) as [n|] eqn:E; [|done].
  specialize (H x). rewrite (vget_Some _ _ _ E) in H.
  destruct (vget a x <? n) eqn:E2; [lia|done].
Qed.

(** * [vinc], [vvalidate_op], [dcmp] *)
Lemma vinc_spec c a : vinc c a = Dot a (vget c a + 1).
Proof. done. Qed.
Lemma vapply_vinc_get c a x :
  vget (vapply c (vinc c a)) x = if decide (x = a) then vget c a + 1 else vget c x.
Proof. rewrite vapply_get. simpl. destruct (decide (x = a)) as [->|]; [lia|done]. Qed.
Lemma vvalidate_op_spec c d :
  vvalidate_op c d = if vget c (dactor d) + 1 <? dcounter d
                     then Some (dactor d, vget c (dactor d) + 1, dcounter d) else None.
Proof. done. Qed.
Lemma vvalidate_op_ok c d : vvalidate_op c d = None ↔ dcounter d <= vget c (dactor d) + 1.
Proof. rewrite vvalidate_op_spec. destruct (_ <? _) eqn:E; split; (done || lia). Qed.
Lemma dcmp_spec a b :
  dcmp a b = if decide (dactor a = dactor b) then Some (dcounter a ?= dcounter b) else None.
Proof.
  unfold dcmp, ncmp. destruct (decide _) as [->|Hne].
  - rewrite N.eqb_refl. f_equal.
    destruct (dcounter a <? dcounter b) eqn:E1.
    { symmetry. apply N.compare_lt_iff. lia. }
    destruct (dcounter a =? dcounter b) eqn:E2.
    { symmetry. apply N.compare_eq_iff. lia. }
    symmetry. apply N.compare_gt_iff. lia.
  - destruct (dactor a =? dactor b) eqn:E; [lia|done].
Qed.

(** [vfrom_iter] *)
Lemma vfrom_iter_wf ds : (∀ d, d ∈ ds → dcounter d ≠ 0) → vwf (vfrom_iter ds).
Proof.
  unfold vfrom_iter. intros _. generalize vwf_empty. generalize (∅ : vclock).
  induction ds as [|d ds IH]; intros c Hc; simpl; [done|]. apply IH. by apply vapply_wf.
Qed.

(** * Statements used by props/C10.v *)
Lemma c10_cmp_pointwise a b : vwf a → vwf b →
  (vcmp a b = Some Eq ↔ ∀ x, vget a x = vget b x) ∧
  (vcmp a b = Some Lt ↔ (∀ x, vget a x <= vget b x) ∧ a ≠ b) ∧
  (vcmp a b = Some Gt ↔ (∀ x, vget b x <= vget a x) ∧ a ≠ b) ∧
  (vcmp a b = None ↔ ¬ (∀ x, vget a x <= vget b x) ∧ ¬ (∀ x, vget b x <= vget a x)).
Proof.
  intros Ha Hb. split_and!.
  - rewrite vcmp_Eq. split; [by intros ->|]. by apply vwf_ext.
  - rewrite vcmp_Lt by done. unfold vleq. tauto.
  - rewrite vcmp_Gt by done. unfold vleq. tauto.
  - by rewrite vcmp_None.
Qed.

Lemma c10_order a b c : vwf a → vwf b → vwf c →
  vle a a = true ∧
  (vle a b = true → vle b a = true → a = b) ∧
  (vle a b = true → vle b c = true → vle a c = true) ∧
  (vconcurrent a b = true ↔ vle a b = false ∧ vle b a = false).
Proof.
  intros Ha Hb Hc. split_and!.
  - apply vle_spec; [done..|]. apply vleq_refl.
  - rewrite !vle_spec by done. by apply vleq_antisym.
  - rewrite !vle_spec by done. apply vleq_trans.
  - rewrite vconcurrent_spec by done. rewrite <- !not_true_iff_false, !vle_spec by done. done.
Qed.

Lemma c10_lub a b c : vwf a → vwf b → vwf c →
  vwf (vmerge a b) ∧ vle a (vmerge a b) = true ∧ vle b (vmerge a b) = true ∧
  (vle a c = true → vle b c = true → vle (vmerge a b) c = true) ∧
  (∀ x, vget (vmerge a b) x = N.max (vget a x) (vget b x)).
Proof.
  intros Ha Hb Hc. pose proof (vmerge_wf a b Ha Hb). split_and!; [done|..].
  - apply vle_spec; [done..|]. apply vmerge_ub_l.
  - apply vle_spec; [done..|]. apply vmerge_ub_r.
  - rewrite !vle_spec by done. apply vmerge_least.
  - apply vmerge_get.
Qed.

Lemma c10_glb a b c : vwf a → vwf b → vwf c →
  vwf (vglb a b) ∧ vle (vglb a b) a = true ∧ vle (vglb a b) b = true ∧
  (vle c a = true → vle c b = true → vle c (vglb a b) = true) ∧
  (∀ x, vget (vglb a b) x = N.min (vget a x) (vget b x)).
Proof.
  intros Ha Hb Hc. pose proof (vglb_wf a b). split_and!; [done|..].
  - apply vle_spec; [done..|]. apply vglb_lb_l.
  - apply vle_spec; [done..|]. apply vglb_lb_r.
  - rewrite !vle_spec by done. apply vglb_greatest.
  - apply vglb_get.
Qed.

Lemma c10_apply_inc c d a : vwf c →
  vwf (vapply c d) ∧ vle c (vapply c d) = true ∧
  (∀ x, vget (vapply c d) x = if decide (x = dactor d) then N.max (vget c x) (dcounter d) else vget c x) ∧
  vinc c a = Dot a (vget c a + 1) ∧
  (∀ x, vget (vapply c (vinc c a)) x = if decide (x = a) then vget c a + 1 else vget c x).
Proof.
  intros Hc. pose proof (vapply_wf c d Hc). split_and!; [done|..].
  - apply vle_spec; [done..|]. intros x. apply vapply_mono.
  - apply vapply_get.
  - done.
  - apply vapply_vinc_get.
Qed.

Lemma c10_reset a c : vwf a →
  vwf (vreset a c) ∧
  (∀ x, vget (vreset a c) x = if vget a x <=? vget c x then 0 else vget a x).
Proof. intros Ha. split; [by apply vreset_wf|apply vreset_get]. Qed.

Lemma c10_intersection l r : vwf l →
  vwf (vintersection l r) ∧
  (∀ x, vget (vintersection l r) x = if vget l x =? vget r x then vget l x else 0).
Proof. intros Hl. split; [by apply vintersection_wf|apply vintersection_get]. Qed.

Lemma c10_validate_op c d :
  (vvalidate_op c d = None ↔ dcounter d <= vget c (dactor d) + 1) ∧
  (∀ r, vvalidate_op c d = Some r → r = (dactor d, vget c (dactor d) + 1, dcounter d)).
Proof.
  split; [apply vvalidate_op_ok|]. intros r. rewrite vvalidate_op_spec.
  destruct (_ <? _); [by intros [= <-]|done].
Qed.

(** Every constructor / mutator preserves "no stored zero". *)
Lemma c10_no_zero a b d ds :
  vwf (∅ : vclock) ∧ vwf (vfrom_dot d) ∧ vwf (vfrom_iter ds) ∧
  (vwf a → vwf (vapply a d)) ∧ (vwf a → vwf b → vwf (vmerge a b)) ∧
  vwf (vglb a b) ∧ (vwf a → vwf (vreset a b)) ∧ (vwf a → vwf (vclone_without a b)) ∧
  (vwf a → vwf (vintersection a b)).
Proof.
  split_and!.
  - apply vwf_empty.
  - apply vapply_wf, vwf_empty.
  - unfold vfrom_iter. generalize vwf_empty. generalize (∅ : vclock).
    induction ds as [|d' ds' IH]; intros c Hc; simpl; [done|]. apply IH. by apply vapply_wf.
  - apply vapply_wf.
  - apply vmerge_wf.
  - apply vglb_wf.
  - apply vreset_wf.
  - apply vreset_wf.
  - apply vintersection_wf.
Qed.

(** Without [vwf] (a clock built through the public field with a stored zero)
    the comparison is not the pointwise order: the reason [vwf] is a hypothesis. *)
Lemma c10_zero_witness :
  let a : vclock := {[ 1 := 0 ]} in let b : vclock := ∅ in
  (∀ x, vget a x = vget b x) ∧ vcmp a b = Some Gt.
Proof.
  split; [|by vm_compute]. intros x. unfold vget.
  destruct (decide (x = 1)) as [->|].
  - by rewrite lookup_singleton, lookup_empty.
  - by rewrite lookup_singleton_ne, lookup_empty.
Qed.

(** Non-vacuity: concrete well-formed clocks in each of the four cases. *)
Lemma c10_examples :
  let a : vclock := {[ 1 := 2; 2 := 1 ]} in let b : vclock := {[ 1 := 1; 3 := 4 ]} in
  vwf a ∧ vwf b ∧ vcmp a b = None ∧ vcmp a (vmerge a b) = Some Lt ∧
  vcmp (vmerge a b) b = Some Gt ∧ vcmp (vglb a b) {[ 1 := 1 ]} = Some Eq.
Proof. split_and!; try by vm_compute. all: apply vwfb_spec; by vm_compute. Qed.
