(** MerkleReg as an instance of the replicated-system framework (spec/System.v).

    Ops are nodes.  Under ANY delivery order, duplication and merge pattern a
    reachable register is [spec_state] of the set of nodes it has learned
    ([mk_reach_spec]), the fuel of the model's recursion never runs out on
    reachable states ([mk_apply_total], [mk_merge_total]), and convergence, the
    merge laws and idempotence are the framework corollaries.  [hash] is any
    injective content address; closed instances for [enc_hash] at the end. *)
From stdpp Require Import gmap.
From Crdt Require Import model.Merkle spec.System spec.OrswotSpec
  proofs.MerkleInv proofs.Merkle proofs.OrswotLayer.

(** total versions of apply and merge ([None] = out of fuel, never happens on
    reachable states) *)
Definition mk_apply' (hash : mnode → N) (s : merkle) (n : mnode) : merkle :=
  default s (mk_apply hash s n).
Definition mk_merge' (hash : mnode → N) (s o : merkle) : merkle :=
  default s (mk_merge hash s o).

(** the register of the learned node set *)
Definition mkspec (hash : mnode → N) (H : list (oprec mnode)) (K : gset nat) : merkle :=
  spec_state (R_of hash (known_ops H K)).

Notation mkreach hash := (reach mk_new (mk_apply' hash) (mk_merge' hash) adm_any True).

Section merkle_system.
  Context (hash : mnode → N).
  Context (hash_inj : ∀ n1 n2, hash n1 = hash n2 → n1 = n2).
  Local Notation Inv := (Inv hash).
  Local Notation R_of := (R_of hash).

  (** * the received set of the extended knowledge *)
  Lemma R_of_known_empty (H : list (oprec mnode)) : R_of (known_ops H ∅) = ∅.
  Proof. by rewrite known_ops_empty. Qed.
  Lemma R_of_known_add (H : list (oprec mnode)) K i o :
    H !! i = Some o →
    R_of (known_ops H (K ∪ {[i]})) = <[hash (op_val o) := op_val o]> (R_of (known_ops H K)).
  Proof.
    intros Hl. rewrite <- R_of_cons. apply R_of_ext; [done|].
    intros n. rewrite (known_ops_add_elem H K i o) by done. rewrite elem_of_cons. tauto.
  Qed.
  Lemma R_of_known_union (H : list (oprec mnode)) K1 K2 :
    R_of (known_ops H (K1 ∪ K2)) = R_of (known_ops H K1) ∪ R_of (known_ops H K2).
  Proof.
    apply map_eq_Some. intros k m.
    rewrite (lookup_union_keyed hash hash_inj) by (apply keyed_R_of; done).
    rewrite !lookup_R_of by done. rewrite known_ops_union_elem. tauto.
  Qed.

  (** * total apply / merge under the invariant *)
  Lemma mk_apply'_Inv s R n :
    Inv s R →
    mk_apply hash s n = Some (mk_apply' hash s n) ∧ Inv (mk_apply' hash s n) (<[hash n := n]> R).
  Proof.
    intros HI. destruct (Inv_apply hash hash_inj s R n HI) as (s' & Hs' & HI').
    unfold mk_apply'. rewrite Hs'. done.
  Qed.
  Lemma mk_merge'_Inv s1 s2 R1 R2 :
    Inv s1 R1 → Inv s2 R2 →
    mk_merge hash s1 s2 = Some (mk_merge' hash s1 s2) ∧ Inv (mk_merge' hash s1 s2) (R1 ∪ R2).
  Proof.
    intros H1 H2. destruct (Inv_merge hash hash_inj s1 s2 R1 R2 H1 H2) as (s' & Hs' & HI').
    unfold mk_merge'. rewrite Hs'. done.
  Qed.

  Lemma mkspec_Inv (H : list (oprec mnode)) K : Inv (mkspec hash H K) (R_of (known_ops H K)).
  Proof. apply Inv_spec_state; [done|]. by apply keyed_R_of. Qed.
  Lemma mkspec_init (H : list (oprec mnode)) : mk_new = mkspec hash H ∅.
  Proof.
    unfold mkspec. rewrite R_of_known_empty. apply (Inv_unique hash mk_new ∅), Inv_new.
  Qed.
  (** L1: applying a node to the specification state *)
  Lemma mk_L1 (H : list (oprec mnode)) K i o :
    H !! i = Some o → mk_apply' hash (mkspec hash H K) (op_val o) = mkspec hash H (K ∪ {[i]}).
  Proof.
    intros Hl. destruct (mk_apply'_Inv _ _ (op_val o) (mkspec_Inv H K)) as [_ HI].
    rewrite <- (R_of_known_add H K i o Hl) in HI. by apply (Inv_unique hash).
  Qed.
  (** L2: merging two specification states *)
  Lemma mk_L2 (H : list (oprec mnode)) K1 K2 :
    mk_merge' hash (mkspec hash H K1) (mkspec hash H K2) = mkspec hash H (K1 ∪ K2).
  Proof.
    destruct (mk_merge'_Inv _ _ _ _ (mkspec_Inv H K1) (mkspec_Inv H K2)) as [_ HI].
    rewrite <- R_of_known_union in HI. by apply (Inv_unique hash).
  Qed.

  (** * the framework instance *)
  Let wfH (_ : list (oprec mnode)) : Prop := True.
  Let valid (_ : list (oprec mnode)) (_ : gset nat) : Prop := True.
  Let gen (_ : merkle) (_ : N) (_ : unit) : option mnode := None.

  Local Lemma mk_apply_proper (s s' : merkle) o : s = s' → mk_apply' hash s o = mk_apply' hash s' o.
  Proof. by intros ->. Qed.
  Local Lemma mk_merge_proper (s1 s1' s2 s2' : merkle) :
    s1 = s1' → s2 = s2' → mk_merge' hash s1 s2 = mk_merge' hash s1' s2'.
  Proof. by intros -> ->. Qed.
  Local Lemma mk_valid_empty H : valid H ∅.
  Proof. done. Qed.
  Local Lemma mk_valid_step H K i : wfH H → valid H K → adm_any H K i → valid H (K ∪ {[i]}).
  Proof. done. Qed.
  Local Lemma mk_valid_union H K1 K2 : valid H K1 → valid H K2 → valid H (K1 ∪ K2).
  Proof. done. Qed.
  Local Lemma mk_L1' H K i o : wfH H → valid H K → adm_any H K i → H !! i = Some o →
    mk_apply' hash (mkspec hash H K) (op_val o) = mkspec hash H (K ∪ {[i]}).
  Proof. intros _ _ _. apply mk_L1. Qed.
  Local Lemma mk_L2' H K1 K2 : True → wfH H → valid H K1 → valid H K2 →
    mk_merge' hash (mkspec hash H K1) (mkspec hash H K2) = mkspec hash H (K1 ∪ K2).
  Proof. intros _ _ _ _. apply mk_L2. Qed.

  (** every reachable register, under any delivery order, is the register of
      the node set it has learned *)
  Theorem mk_reach_spec (H : list (oprec mnode)) s K :
    mkreach hash H s K → s = mkspec hash H K ∧ Inv s (R_of (known_ops H K)).
  Proof.
    intros Hr.
    assert (s = mkspec hash H K) as ->.
    { exact (proj1 (reach_spec eq mk_new (mk_apply' hash) (mk_merge' hash) adm_any True (mkspec hash) wfH valid
               mk_apply_proper mk_merge_proper mkspec_init mk_valid_empty mk_valid_step mk_valid_union
               mk_L1' mk_L2' H s K I Hr)). }
    split; [done|apply mkspec_Inv].
  Qed.
  Corollary mk_reach_Inv (H : list (oprec mnode)) s K :
    mkreach hash H s K → Inv s (R_of (known_ops H K)).
  Proof. intros Hr. apply (mk_reach_spec H s K Hr). Qed.

  (** the fuel never runs out on reachable states *)
  Theorem mk_apply_total (H : list (oprec mnode)) s K n :
    mkreach hash H s K → mk_apply hash s n = Some (mk_apply' hash s n).
  Proof. intros Hr%mk_reach_Inv. apply (mk_apply'_Inv _ _ n Hr). Qed.
  Theorem mk_merge_total (H1 H2 : list (oprec mnode)) s1 K1 s2 K2 :
    mkreach hash H1 s1 K1 → mkreach hash H2 s2 K2 →
    mk_merge hash s1 s2 = Some (mk_merge' hash s1 s2).
  Proof. intros Hr1%mk_reach_Inv Hr2%mk_reach_Inv. apply (mk_merge'_Inv _ _ _ _ Hr1 Hr2). Qed.

  (** equal knowledge, equal state *)
  Corollary mk_converge (H : list (oprec mnode)) s1 s2 K :
    mkreach hash H s1 K → mkreach hash H s2 K → s1 = s2.
  Proof.
    apply (converge eq mk_new (mk_apply' hash) (mk_merge' hash) adm_any True (mkspec hash) wfH valid
             mk_apply_proper mk_merge_proper mkspec_init mk_valid_empty mk_valid_step mk_valid_union
             mk_L1' mk_L2' H s1 s2 K I).
  Qed.
  (** merging two replicas = having learned the union of their nodes *)
  Corollary mk_merge_is_union (H : list (oprec mnode)) s1 K1 s2 K2 s K :
    mkreach hash H s1 K1 → mkreach hash H s2 K2 → mkreach hash H s K → K = K1 ∪ K2 →
    mk_merge' hash s1 s2 = s.
  Proof.
    apply (merge_is_union eq mk_new (mk_apply' hash) (mk_merge' hash) adm_any True (mkspec hash) wfH valid
             mk_apply_proper mk_merge_proper mkspec_init mk_valid_empty mk_valid_step mk_valid_union
             mk_L1' mk_L2' H s1 K1 s2 K2 s K I I).
  Qed.
  Corollary mk_reach_merge_comm (H : list (oprec mnode)) s1 K1 s2 K2 :
    mkreach hash H s1 K1 → mkreach hash H s2 K2 → mk_merge' hash s1 s2 = mk_merge' hash s2 s1.
  Proof.
    apply (merge_comm eq mk_new (mk_apply' hash) (mk_merge' hash) adm_any True (mkspec hash) wfH valid
             mk_apply_proper mk_merge_proper mkspec_init mk_valid_empty mk_valid_step mk_valid_union
             mk_L1' mk_L2' H s1 K1 s2 K2 I I).
  Qed.
  Corollary mk_reach_merge_assoc (H : list (oprec mnode)) s1 K1 s2 K2 s3 K3 :
    mkreach hash H s1 K1 → mkreach hash H s2 K2 → mkreach hash H s3 K3 →
    mk_merge' hash (mk_merge' hash s1 s2) s3 = mk_merge' hash s1 (mk_merge' hash s2 s3).
  Proof.
    apply (merge_assoc eq mk_new (mk_apply' hash) (mk_merge' hash) adm_any True (mkspec hash) wfH valid
             mk_apply_proper mk_merge_proper mkspec_init mk_valid_empty mk_valid_step mk_valid_union
             mk_L1' mk_L2' H s1 K1 s2 K2 s3 K3 I I).
  Qed.
  Corollary mk_reach_merge_idem (H : list (oprec mnode)) s K :
    mkreach hash H s K → mk_merge' hash s s = s.
  Proof.
    apply (merge_idem eq mk_new (mk_apply' hash) (mk_merge' hash) adm_any True (mkspec hash) wfH valid
             mk_apply_proper mk_merge_proper mkspec_init mk_valid_empty mk_valid_step mk_valid_union
             mk_L1' mk_L2' H s K I I).
  Qed.
  (** re-delivering a known node changes nothing *)
  Corollary mk_dup_apply (H : list (oprec mnode)) s K i o :
    mkreach hash H s K → H !! i = Some o → i ∈ K → mk_apply' hash s (op_val o) = s.
  Proof.
    intros Hr Hl Hi.
    apply (dup_apply eq mk_new (mk_apply' hash) (mk_merge' hash) gen adm_any True (mkspec hash) wfH valid
             mk_apply_proper mk_merge_proper mkspec_init mk_valid_empty mk_valid_step mk_valid_union
             mk_L1' mk_L2' H s K i o I Hr Hl); [by exists o|done].
  Qed.
  (** merging a replica that knows nothing new changes nothing *)
  Corollary mk_stale_merge (H : list (oprec mnode)) s1 K1 s2 K2 :
    mkreach hash H s1 K1 → mkreach hash H s2 K2 → K2 ⊆ K1 → mk_merge' hash s1 s2 = s1.
  Proof.
    apply (stale_merge eq mk_new (mk_apply' hash) (mk_merge' hash) gen adm_any True (mkspec hash) wfH valid
             mk_apply_proper mk_merge_proper mkspec_init mk_valid_empty mk_valid_step mk_valid_union
             mk_L1' mk_L2' H s1 K1 s2 K2 I I).
  Qed.

  (** the same laws for the model's partial functions *)
  Corollary mk_merge_comm_opt (H : list (oprec mnode)) s1 K1 s2 K2 :
    mkreach hash H s1 K1 → mkreach hash H s2 K2 → mk_merge hash s1 s2 = mk_merge hash s2 s1.
  Proof.
    intros H1 H2. rewrite (mk_merge_total H H s1 K1 s2 K2), (mk_merge_total H H s2 K2 s1 K1) by done.
    f_equal. by eapply mk_reach_merge_comm.
  Qed.
  Corollary mk_dup_apply_opt (H : list (oprec mnode)) s K i o :
    mkreach hash H s K → H !! i = Some o → i ∈ K → mk_apply hash s (op_val o) = Some s.
  Proof.
    intros Hr Hl Hi. rewrite (mk_apply_total H s K) by done. f_equal. by eapply mk_dup_apply.
  Qed.
  Corollary mk_stale_merge_opt (H : list (oprec mnode)) s1 K1 s2 K2 :
    mkreach hash H s1 K1 → mkreach hash H s2 K2 → K2 ⊆ K1 → mk_merge hash s1 s2 = Some s1.
  Proof.
    intros H1 H2 Hs. rewrite (mk_merge_total H H s1 K1 s2 K2) by done. f_equal. by eapply mk_stale_merge.
  Qed.
End merkle_system.

(** * Closed instances for the executable content address [enc_hash] *)
Theorem enc_reach_spec (H : list (oprec mnode)) s K :
  mkreach enc_hash H s K →
  s = mkspec enc_hash H K ∧ Inv enc_hash s (R_of enc_hash (known_ops H K)).
Proof. apply mk_reach_spec, enc_hash_inj. Qed.
Theorem enc_apply_total (H : list (oprec mnode)) s K n :
  mkreach enc_hash H s K → mk_apply enc_hash s n = Some (mk_apply' enc_hash s n).
Proof. apply mk_apply_total, enc_hash_inj. Qed.
Theorem enc_merge_total (H1 H2 : list (oprec mnode)) s1 K1 s2 K2 :
  mkreach enc_hash H1 s1 K1 → mkreach enc_hash H2 s2 K2 →
  mk_merge enc_hash s1 s2 = Some (mk_merge' enc_hash s1 s2).
Proof. apply mk_merge_total, enc_hash_inj. Qed.
Theorem enc_converge (H : list (oprec mnode)) s1 s2 K :
  mkreach enc_hash H s1 K → mkreach enc_hash H s2 K → s1 = s2.
Proof. apply mk_converge, enc_hash_inj. Qed.
Theorem enc_merge_is_union (H : list (oprec mnode)) s1 K1 s2 K2 s K :
  mkreach enc_hash H s1 K1 → mkreach enc_hash H s2 K2 → mkreach enc_hash H s K → K = K1 ∪ K2 →
  mk_merge' enc_hash s1 s2 = s.
Proof. apply mk_merge_is_union, enc_hash_inj. Qed.
Theorem enc_reach_merge_comm (H : list (oprec mnode)) s1 K1 s2 K2 :
  mkreach enc_hash H s1 K1 → mkreach enc_hash H s2 K2 →
  mk_merge' enc_hash s1 s2 = mk_merge' enc_hash s2 s1.
Proof. apply mk_reach_merge_comm, enc_hash_inj. Qed.
Theorem enc_reach_merge_assoc (H : list (oprec mnode)) s1 K1 s2 K2 s3 K3 :
  mkreach enc_hash H s1 K1 → mkreach enc_hash H s2 K2 → mkreach enc_hash H s3 K3 →
  mk_merge' enc_hash (mk_merge' enc_hash s1 s2) s3 = mk_merge' enc_hash s1 (mk_merge' enc_hash s2 s3).
Proof. apply mk_reach_merge_assoc, enc_hash_inj. Qed.
Theorem enc_reach_merge_idem (H : list (oprec mnode)) s K :
  mkreach enc_hash H s K → mk_merge' enc_hash s s = s.
Proof. apply mk_reach_merge_idem, enc_hash_inj. Qed.
Theorem enc_dup_apply (H : list (oprec mnode)) s K i o :
  mkreach enc_hash H s K → H !! i = Some o → i ∈ K → mk_apply' enc_hash s (op_val o) = s.
Proof. apply mk_dup_apply, enc_hash_inj. Qed.
Theorem enc_stale_merge (H : list (oprec mnode)) s1 K1 s2 K2 :
  mkreach enc_hash H s1 K1 → mkreach enc_hash H s2 K2 → K2 ⊆ K1 → mk_merge' enc_hash s1 s2 = s1.
Proof. apply mk_stale_merge, enc_hash_inj. Qed.

Print Assumptions mk_reach_spec.
Print Assumptions mk_apply_total.
Print Assumptions mk_merge_total.
Print Assumptions mk_converge.
Print Assumptions mk_merge_is_union.
Print Assumptions mk_reach_merge_comm.
Print Assumptions mk_reach_merge_assoc.
Print Assumptions mk_reach_merge_idem.
Print Assumptions mk_dup_apply.
Print Assumptions mk_stale_merge.
Print Assumptions mk_merge_comm_opt.
Print Assumptions mk_dup_apply_opt.
Print Assumptions mk_stale_merge_opt.
Print Assumptions enc_reach_spec.
Print Assumptions enc_apply_total.
Print Assumptions enc_merge_total.
Print Assumptions enc_converge.
Print Assumptions enc_merge_is_union.
Print Assumptions enc_reach_merge_comm.
Print Assumptions enc_reach_merge_assoc.
Print Assumptions enc_reach_merge_idem.
Print Assumptions enc_dup_apply.
Print Assumptions enc_stale_merge.
