(** [Map<K, Orswot<M>>] WITH key removes AND state merges in the fragment [km_once]
    (spec/MapOrswotKM.v): commands [MOAdd] and [MOKeyRm] only, every key that some key remove of
    the history names is updated at most once by each actor.  Under per-actor (overtaking)
    delivery, duplicates AND state merges - ops may be generated at merged states - the COMPLETE
    state of every reachable replica is the specification [mapor_spec_km] of its knowledge
    ([mapor_refine_km]); in particular the member table under every key is [mo_entries]
    ([mapor_values_refine_km]).  Findings T2 and T3 are outside the fragment; [km_once_needed]
    shows that the hypothesis [km_once] cannot be dropped.

    Route: an invariant carried through [reach] (member tables = [mo_entries], nested clock = entry
    clock, no pending nested remove); the key layer (map clock, key set, entry clocks, pending
    table) is inherited from proofs/MapKeys.v, which covers merges.  The apply step is that of
    proofs/MapOrswotPA.v (first half, proofs/MapOrswotKMa.v).  The merge step is new:
      - Part 4: per key, member and actor the per-key step of [mmerge] computes [kmF] of the map
        clocks, entry clocks and witness counters of both sides; then both pending tables are
        replayed ([mmerge_entries_vrel]).  For a key that a remove names, [km_once] leaves one
        update dot per actor and the entry clocks are exact ([side_named_e], [side_named_w],
        [kmF_named]): a dot survives the per-key step iff it is live at every side that knows it,
        and a remove known only to a side that does not know the dot is still pending there and is
        replayed.  For a key no remove names nothing is ever covered and the step computes the join
        ([kmF_unnamed]).  [km_point] joins the two cases, [km_merge_inv] is the merge step,
        [km_inv_reach] the induction over [reach].
      - Part 5: the refinement theorems.
      - Part 6: corollaries (C01 C02 C03 C05 C08 C09 C20): convergence, merge = union of knowledge,
        merge laws, absorption, components, the member sentence, the monitor deciders.
      - Part 7: a closed non-vacuity example and the witness that [km_once] is needed. *)
From stdpp Require Import gmap.
From Crdt Require Import model.Orswot model.Map spec.System spec.OrswotSpec spec.OrswotSystem
  spec.MapSpec spec.MapSystem spec.MapOrswotSpec spec.MapOrswotKM proofs.VClock proofs.Reset proofs.OrswotLayer
  proofs.OrswotL1 proofs.OrswotL2 proofs.OrswotSystem proofs.MapFacts proofs.MapKeys proofs.MapOrswot
  proofs.MapOrswotPA proofs.MapOrswotEq proofs.MapOrswotKMa.
From Coq Require Import ZifyBool ZifyN ZifyNat.
Local Open Scope N_scope.

Local Notation vo := orswot_valops.

(** * Part 4: the merge step *)
Definition names_k (k : N) (r : oprec (mop oop)) : Prop :=
  match op_val r with MRm _ ks => k ∈ ks | MUp _ _ _ => False end.
Global Instance names_k_dec k r : Decision (names_k k r).
Proof. unfold names_k. destruct (op_val r); apply _. Defined.

Section km.
  Context (H : list (oprec (mop oop))) (Hmo : mohist_ok_km H) (Hkm : km_once H).
  Let Hmap : maphist_ok vo H := mohist_km_maphist H Hmo.
  Let HH : owfH (habs H) := maphist_ok_wf vo H Hmap.
  Implicit Types (s : cmap orswot) (K : gset nat) (k m a : N) (d : dot).

  Definition inH (o : mop oop) : Prop := ∃ i r, H !! i = Some r ∧ op_val r = o.
  Definition named k : Prop := ∃ l rl c ks, H !! l = Some rl ∧ op_val rl = MRm c ks ∧ k ∈ ks.

  Lemma named_dec k : named k ∨ ¬ named k.
  Proof.
    destruct (decide (Exists (names_k k) H)) as [He|He]; [left|right].
    - apply Exists_exists in He as (r & Hin & Hn). apply elem_of_list_lookup in Hin as [l Hl].
      unfold names_k in Hn. destruct (op_val r) as [c ks|] eqn:E; [|done]. by exists l, r, c, ks.
    - intros (l & rl & c & ks & Hl & Hv & Hk). apply He, Exists_exists. exists rl.
      split; [by eapply elem_of_list_lookup_2|]. unfold names_k. by rewrite Hv.
  Qed.

  Lemma known_inH K o : o ∈ known_ops H K → inH o.
  Proof. intros (i & r & Hi & _ & Ho)%elem_of_known_ops. by exists i, r. Qed.

  (** in the fragment each actor updates a named key at most once *)
  Lemma once_named k d1 o1 d2 o2 : named k → inH (MUp d1 k o1) → inH (MUp d2 k o2) →
    dactor d1 = dactor d2 → d1 = d2 ∧ o1 = o2.
  Proof using Hkm.
    intros Hn (i & ri & Hi & Hvi) (j & rj & Hj & Hvj) Ha.
    assert (i = j) as -> by (by eapply (Hkm i j ri rj d1 d2 k o1 o2)).
    rewrite Hi in Hj. injection Hj as <-. rewrite Hvi in Hvj. by injection Hvj as -> ->.
  Qed.

  Lemma inH_shape o : inH o → op_ao o.
  Proof using Hmo. intros (i & r & Hi & <-). by apply (mohist_km_shape H Hmo i r). Qed.
  Lemma inH_pos d k o : inH (MUp d k o) → 0 < dcounter d.
  Proof using Hmo.
    intros (i & r & Hi & Ho).
    destruct (owfH_add _ _ _ _ _ HH (hmap_lookup_Some oabs H i r Hi) (f_equal oabs Ho)) as (_ & Hc & _). lia.
  Qed.

  (** ** the specification in the fragment: only key removes cover *)
  Lemma mo_covered_mcov K k m d : mo_covered (known_ops H K) k m d = mcovered (known_ops H K) k d.
  Proof using Hmo.
    apply eq_true_iff_eq. by rewrite (mo_covered_km H Hmo), mcovered_spec.
  Qed.
  Lemma mcov_false K k d : mcovered (known_ops H K) k d = false ↔
    ∀ c ks, MRm c ks ∈ known_ops H K → k ∈ ks → vget c (dactor d) < dcounter d.
  Proof.
    rewrite <- not_true_iff_false, mcovered_spec. split.
    - intros Hn c ks Hin Hk. destruct (decide (vget c (dactor d) < dcounter d)) as [|Hge]; [done|].
      destruct Hn. exists c, ks. split_and!; [done|done|lia].
    - intros Hall (c & ks & Hin & Hk & Hle). specialize (Hall c ks Hin Hk). lia.
  Qed.
  Lemma mcov_union K1 K2 k d :
    mcovered (known_ops H (K1 ∪ K2)) k d = mcovered (known_ops H K1) k d || mcovered (known_ops H K2) k d.
  Proof.
    apply eq_true_iff_eq. rewrite orb_true_iff, !mcovered_spec. setoid_rewrite known_ops_union_elem. naive_solver.
  Qed.
  Lemma mcov_unnamed K k d : ¬ named k → mcovered (known_ops H K) k d = false.
  Proof.
    intros Hn. apply not_true_iff_false. rewrite mcovered_spec. intros (c & ks & Hin & Hk & _).
    apply known_inH in Hin as (l & rl & Hl & Hv). apply Hn. by exists l, rl, c, ks.
  Qed.

  Lemma km_live_member K k m d : d ∈ mo_live_dots (known_ops H K) k m ↔
    (∃ ms, MUp d k (OAdd d ms) ∈ known_ops H K ∧ m ∈ ms) ∧ mcovered (known_ops H K) k d = false.
  Proof using Hmo.
    rewrite elem_of_mo_live_dots, mo_covered_mcov. split.
    - intros [(d0 & ms & Hin & Hm) Hc]. split; [|done]. exists ms. split; [|done].
      pose proof (inH_shape _ (known_inH _ _ Hin)) as Hs. cbn in Hs. by subst d0.
    - intros [(ms & Hin & Hm) Hc]. split; [|done]. by exists d, ms.
  Qed.
  Lemma km_live_key K k d : d ∈ mlive_dots (known_ops H K) k ↔
    (∃ o, MUp d k o ∈ known_ops H K) ∧ mcovered (known_ops H K) k d = false.
  Proof. by rewrite elem_of_mlive_dots, <- mcovered_spec, not_true_iff_false. Qed.
  Lemma km_live_member_key K k m d : d ∈ mo_live_dots (known_ops H K) k m → d ∈ mlive_dots (known_ops H K) k.
  Proof using Hmo. rewrite km_live_member, km_live_key. intros [(ms & Hin & _) Hc]. split; [by eexists|done]. Qed.

  Lemma max_single ds a n : 0 < n → (∀ d, d ∈ ds → dactor d = a → d = Dot a n) →
    max_ctr ds a = if bool_decide (Dot a n ∈ ds) then n else 0.
  Proof.
    intros Hn Hu. destruct (max_ctr_witness ds a) as [Hz|(d & Hd & Ha & Hc)].
    - rewrite Hz. case_bool_decide as Hin; [|done]. pose proof (max_ctr_ge ds a _ Hin eq_refl). cbn in *. lia.
    - pose proof (Hu d Hd Ha) as ->. rewrite bool_decide_eq_true_2 by done. by rewrite <- Hc.
  Qed.

  (** ** what is known of a reachable state that satisfies the invariant *)
  Section side.
    Context s K (Hr : moreach_km H s K) (Hinv : mo_inv_pa H s K) (Hv4 : mo_v4 (mentries s)).
    Let os := known_ops H K.

    Lemma side_known d k o : inH (MUp d k o) → (MUp d k o ∈ os ↔ dcounter d <= vget (mclock s) (dactor d)).
    Proof using Hmo Hr.
      intros (i & r & Hi & Ho). destruct (up_gate_km H Hmo s K i r d k o Hr Hi Ho) as (G1 & G2 & _). split.
      - intros (j & r' & Hj & HjK & Ho')%elem_of_known_ops.
        destruct (up_gate_km H Hmo s K j r' d k o Hr Hj Ho') as (G1' & _). auto.
      - intros Hle. apply elem_of_known_ops. exists i, r. split_and!; [done| |done].
        destruct (decide (i ∈ K)) as [|Hn]; [done|]. specialize (G2 Hn). lia.
    Qed.

    Lemma side_eclock k : eclock (edef (mentries s !! k)) = mspec_entry_clock os k.
    Proof using Hmo Hr.
      destruct (map_keys_reach_mspec vo H HH s K Hr) as (_ & _ & E & _). rewrite <- E.
      unfold mentry_clock, edef. by destruct (mentries s !! k).
    Qed.
    Lemma side_entries k : oentries (eval (edef (mentries s !! k))) = mo_entries os k.
    Proof using Hmo Hr Hinv.
      unfold edef. destruct (mentries s !! k) as [e|] eqn:E; cbn.
      - by destruct (Hinv k e E).
      - symmetry. by eapply absent_spec_km.
    Qed.
    Lemma side_e k a : vget (eclock (edef (mentries s !! k))) a = max_ctr (mlive_dots os k) a.
    Proof using Hmo Hr. rewrite side_eclock. apply dots_clock_get. Qed.
    Lemma side_w k m a : gdef (oentries (eval (edef (mentries s !! k)))) m a = max_ctr (mo_live_dots os k m) a.
    Proof using Hmo Hr Hinv. rewrite side_entries. apply gdef_mo_entries. Qed.

    Lemma side_w_le_e k m a : max_ctr (mo_live_dots os k m) a <= max_ctr (mlive_dots os k) a.
    Proof using Hmo. apply max_ctr_sub. intros d Hd _. by apply (km_live_member_key K k m). Qed.
    Lemma side_e_le_c k a : max_ctr (mlive_dots os k) a <= vget (mclock s) a.
    Proof using Hmo Hr.
      destruct (key_clock_km H Hmo s K Hr) as [-> _]. rewrite <- dots_clock_get. apply mspec_entry_le_clock.
    Qed.

    Lemma side_entry_ok k e : mentries s !! k = Some e → entry_ok (mclock s) e.
    Proof using Hmo Hr Hinv Hv4.
      intros He. pose proof (side_eclock k) as Ec. pose proof (side_entries k) as Et.
      unfold edef in Ec, Et. rewrite He in Ec, Et. cbn in Ec, Et.
      destruct (Hinv k e He) as (_ & _ & D). split_and!.
      - rewrite Ec. apply dots_clock_wf.
      - intros a. rewrite Ec. unfold mspec_entry_clock. rewrite dots_clock_get. apply side_e_le_c.
      - by apply (Hv4 k).
      - done.
      - rewrite Et. apply mo_entries_eswf.
      - intros m a. rewrite Et, gdef_mo_entries, Ec. unfold mspec_entry_clock. rewrite dots_clock_get.
        apply side_w_le_e.
    Qed.

    (** pending key removes are known key removes; a known key remove beyond the clock is pending *)
    Lemma side_pending_cov c ks k a n : mdeferred s !! c = Some ks → k ∈ ks → n <= vget c a →
      mcovered os k (Dot a n) = true.
    Proof using Hmo Hr.
      intros Hl Hk Hle. destruct (pending_named_km H Hmo s K c ks k Hr Hl Hk) as (ks' & Hin & Hk').
      apply mcovered_spec. by exists c, ks'.
    Qed.
    Lemma side_cov_pending k a n : mcovered os k (Dot a n) = true → vget (mclock s) a < n →
      ∃ c ks, mdeferred s !! c = Some ks ∧ k ∈ ks ∧ n <= vget c a.
    Proof using Hmo Hr.
      intros (c & ks' & Hin & Hk & Hle)%mcovered_spec Hlt. cbn in Hle.
      destruct (pending_covering_km H Hmo s K c ks' k a Hr Hin Hk) as (ks & Hl & Hk2); [lia|].
      by exists c, ks.
    Qed.
    Lemma side_pending_named c ks k : mdeferred s !! c = Some ks → k ∈ ks → named k.
    Proof using Hmo Hr.
      intros Hl Hk. destruct (pending_named_km H Hmo s K c ks k Hr Hl Hk) as (ks' & Hin & Hk').
      apply known_inH in Hin as (l & rl & Hl' & Hv). by exists l, rl, c, ks'.
    Qed.

    (** a named key: the one update of actor [a] *)
    Lemma side_named_e k a n ms : named k → inH (MUp (Dot a n) k (OAdd (Dot a n) ms)) →
      max_ctr (mlive_dots os k) a =
        if (n <=? vget (mclock s) a) && negb (mcovered os k (Dot a n)) then n else 0.
    Proof using Hmo Hkm Hr.
      intros Hn Hu. unfold os. pose proof (inH_pos _ _ _ Hu) as Hpos. cbn in Hpos.
      rewrite (max_single _ a n Hpos).
      2:{ intros d [[o Ho] _]%km_live_key Ha. by destruct (once_named k d o (Dot a n) _ Hn (known_inH _ _ Ho) Hu Ha). }
      pose proof (side_known _ _ _ Hu) as Hk. unfold os in Hk. cbn in Hk.
      case_bool_decide as Hin.
      - apply km_live_key in Hin as [[o Ho] ->].
        destruct (once_named k _ o (Dot a n) _ Hn (known_inH _ _ Ho) Hu eq_refl) as [_ ->].
        apply Hk in Ho. by rewrite (proj2 (N.leb_le _ _) Ho).
      - destruct (n <=? vget (mclock s) a) eqn:E; [|done]. destruct (mcovered (known_ops H K) k (Dot a n)) eqn:Ec; [done|].
        destruct Hin. apply km_live_key. split; [|done]. eexists. apply Hk. lia.
    Qed.
    Lemma side_named_w k m a n ms : named k → inH (MUp (Dot a n) k (OAdd (Dot a n) ms)) → m ∈ ms →
      max_ctr (mo_live_dots os k m) a =
        if (n <=? vget (mclock s) a) && negb (mcovered os k (Dot a n)) then n else 0.
    Proof using Hmo Hkm Hr.
      intros Hn Hu Hm. unfold os. pose proof (inH_pos _ _ _ Hu) as Hpos. cbn in Hpos.
      rewrite (max_single _ a n Hpos).
      2:{ intros d [(ms' & Ho & _) _]%km_live_member Ha. by destruct (once_named k d _ (Dot a n) _ Hn (known_inH _ _ Ho) Hu Ha). }
      pose proof (side_known _ _ _ Hu) as Hk. unfold os in Hk. cbn in Hk.
      case_bool_decide as Hin.
      - apply km_live_member in Hin as [(ms' & Ho & _) ->].
        destruct (once_named k _ _ (Dot a n) _ Hn (known_inH _ _ Ho) Hu eq_refl) as [_ Heq].
        rewrite Heq in Ho. apply Hk in Ho. by rewrite (proj2 (N.leb_le _ _) Ho).
      - destruct (n <=? vget (mclock s) a) eqn:E; [|done]. destruct (mcovered (known_ops H K) k (Dot a n)) eqn:Ec; [done|].
        destruct Hin. apply km_live_member. split; [|done]. exists ms. split; [|done]. apply Hk. lia.
    Qed.

    (** a key no remove names: what the clock covers of another replica's dots is held *)
    Lemma side_unnamed_e K' k a : ¬ named k →
      max_ctr (mlive_dots (known_ops H K') k) a <= vget (mclock s) a →
      max_ctr (mlive_dots (known_ops H K') k) a <= max_ctr (mlive_dots os k) a.
    Proof using Hmo Hr.
      intros Hn. destruct (max_ctr_witness (mlive_dots (known_ops H K') k) a) as [->|(d & Hd & Ha & Hc)]; [lia|].
      rewrite <- Hc. intros Hle. apply max_ctr_ge; [|done]. apply km_live_key in Hd as [[o Ho] _].
      apply km_live_key. split; [|by apply mcov_unnamed]. exists o. apply side_known; [by eapply known_inH|].
      by rewrite Ha.
    Qed.
    Lemma side_unnamed_w K' k m a : ¬ named k →
      max_ctr (mo_live_dots (known_ops H K') k m) a <= vget (mclock s) a →
      max_ctr (mo_live_dots (known_ops H K') k m) a <= max_ctr (mo_live_dots os k m) a.
    Proof using Hmo Hr.
      intros Hn. destruct (max_ctr_witness (mo_live_dots (known_ops H K') k m) a) as [->|(d & Hd & Ha & Hc)]; [lia|].
      rewrite <- Hc. intros Hle. apply max_ctr_ge; [|done]. apply km_live_member in Hd as [(ms & Ho & Hm) _].
      apply km_live_member. split; [|by apply mcov_unnamed]. exists ms. split; [|done].
      apply side_known; [by eapply known_inH|]. by rewrite Ha.
    Qed.
  End side.

  Lemma unnamed_union_w K1 K2 k m a : ¬ named k →
    max_ctr (mo_live_dots (known_ops H (K1 ∪ K2)) k m) a =
      N.max (max_ctr (mo_live_dots (known_ops H K1) k m) a) (max_ctr (mo_live_dots (known_ops H K2) k m) a).
  Proof using Hmo.
    intros Hn. apply N.le_antisymm.
    - apply max_ctr_le_iff. intros d [(ms & Ho & Hm) _]%km_live_member Ha.
      apply known_ops_union_elem in Ho as [Ho|Ho].
      + assert (d ∈ mo_live_dots (known_ops H K1) k m) as Hd.
        { apply km_live_member. split; [by exists ms|by apply mcov_unnamed]. }
        pose proof (max_ctr_ge _ _ _ Hd Ha). lia.
      + assert (d ∈ mo_live_dots (known_ops H K2) k m) as Hd.
        { apply km_live_member. split; [by exists ms|by apply mcov_unnamed]. }
        pose proof (max_ctr_ge _ _ _ Hd Ha). lia.
    - apply N.max_lub; apply max_ctr_sub; intros d [(ms & Ho & Hm) _]%km_live_member _; apply km_live_member;
        (split; [|by apply mcov_unnamed]); exists ms; (split; [|done]); apply known_ops_union_elem; auto.
  Qed.

  Lemma kmF_w0 c1 e1 c2 e2 : kmF c1 e1 0 c2 e2 0 = 0.
  Proof. unfold kmF. repeat case_match; lia. Qed.

  (** ** one member, one actor *)
  Section merge.
    Context s1 K1 s2 K2
      (Hr1 : moreach_km H s1 K1) (Hi1 : mo_inv_pa H s1 K1) (Hv1 : mo_v4 (mentries s1))
      (Hr2 : moreach_km H s2 K2) (Hi2 : mo_inv_pa H s2 K2) (Hv2 : mo_v4 (mentries s2)).

    Lemma km_point k m a x x0 :
      x0 = kmF (vget (mclock s1) a) (max_ctr (mlive_dots (known_ops H K1) k) a)
               (max_ctr (mo_live_dots (known_ops H K1) k m) a)
               (vget (mclock s2) a) (max_ctr (mlive_dots (known_ops H K2) k) a)
               (max_ctr (mo_live_dots (known_ops H K2) k m) a) →
      (x = 0 ∨ x = x0) →
      (∀ c ks, (mdeferred s1 !! c = Some ks ∨ mdeferred s2 !! c = Some ks) → k ∈ ks → x0 <= vget c a → x = 0) →
      ((∀ c ks, (mdeferred s1 !! c = Some ks ∨ mdeferred s2 !! c = Some ks) → k ∈ ks → vget c a < x0) → x = x0) →
      x = max_ctr (mo_live_dots (known_ops H (K1 ∪ K2)) k m) a.
    Proof using Hmo Hkm Hr1 Hr2.
      intros Hx0 V1 V2 V3. destruct (named_dec k) as [Hn|Hn].
      - (* a named key *)
        assert (∀ n ms, inH (MUp (Dot a n) k (OAdd (Dot a n) ms)) → m ∈ ms →
                  x = max_ctr (mo_live_dots (known_ops H (K1 ∪ K2)) k m) a) as Han.
        { intros n ms Hu Hm. pose proof (inH_pos _ _ _ Hu) as Hpos. cbn in Hpos.
          rewrite (side_named_e s1 K1 Hr1 k a n ms Hn Hu), (side_named_w s1 K1 Hr1 k m a n ms Hn Hu Hm),
            (side_named_e s2 K2 Hr2 k a n ms Hn Hu), (side_named_w s2 K2 Hr2 k m a n ms Hn Hu Hm) in Hx0.
          pose proof (side_known s1 K1 Hr1 _ _ _ Hu) as Hk1. pose proof (side_known s2 K2 Hr2 _ _ _ Hu) as Hk2.
          cbn in Hk1, Hk2.
          set (k1 := n <=? vget (mclock s1) a) in *. set (k2 := n <=? vget (mclock s2) a) in *.
          set (v1 := mcovered (known_ops H K1) k (Dot a n)) in *.
          set (v2 := mcovered (known_ops H K2) k (Dot a n)) in *.
          rewrite (kmF_named n _ _ k1 v1 k2 v2 Hpos eq_refl eq_refl) in Hx0.
          assert (max_ctr (mo_live_dots (known_ops H (K1 ∪ K2)) k m) a =
                    if (k1 || k2) && negb (v1 || v2) then n else 0) as ->.
          { rewrite (max_single _ a n Hpos).
            2:{ intros d [(ms' & Ho & _) _]%km_live_member Ha.
                by destruct (once_named k d _ (Dot a n) _ Hn (known_inH _ _ Ho) Hu Ha). }
            case_bool_decide as Hin.
            - apply km_live_member in Hin as [(ms' & Ho & _) Hc]. rewrite mcov_union in Hc. fold v1 v2 in Hc.
              rewrite Hc. destruct (once_named k _ _ (Dot a n) _ Hn (known_inH _ _ Ho) Hu eq_refl) as [_ Heq].
              rewrite Heq in Ho. apply known_ops_union_elem in Ho as [Ho|Ho].
              + apply Hk1 in Ho. assert (k1 = true) as -> by (unfold k1; lia). done.
              + apply Hk2 in Ho. assert (k2 = true) as -> by (unfold k2; lia). by rewrite orb_true_r.
            - destruct ((k1 || k2) && negb (v1 || v2)) eqn:E; [|done]. destruct Hin.
              apply andb_prop in E as [Ek Ev]. apply negb_true_iff in Ev.
              apply km_live_member. split; [|by rewrite mcov_union]. exists ms. split; [|done].
              apply known_ops_union_elem. apply orb_prop in Ek as [Ek|Ek]; [left; apply Hk1|right; apply Hk2];
                unfold k1, k2 in Ek; lia. }
          assert (v1 = false → v2 = false →
                  ∀ c ks, (mdeferred s1 !! c = Some ks ∨ mdeferred s2 !! c = Some ks) → k ∈ ks → vget c a < n) as Hno.
          { intros E1 E2 c ks Hl Hk. destruct (decide (vget c a < n)) as [|Hge]; [done|]. exfalso.
            destruct Hl as [Hl|Hl].
            - pose proof (side_pending_cov s1 K1 Hr1 c ks k a n Hl Hk) as Hc. fold v1 in Hc. rewrite E1 in Hc. assert (false = true) by (apply Hc; lia). done.
            - pose proof (side_pending_cov s2 K2 Hr2 c ks k a n Hl Hk) as Hc. fold v2 in Hc. rewrite E2 in Hc. assert (false = true) by (apply Hc; lia). done. }
          assert (v1 = true → k1 = false → x0 = n → x = 0) as Hp1.
          { intros E1 Ek Ex. destruct (side_cov_pending s1 K1 Hr1 k a n) as (c & ks & Hl & Hk & Hle); [done|unfold k1 in Ek; lia|].
            apply (V2 c ks); [by left|done|lia]. }
          assert (v2 = true → k2 = false → x0 = n → x = 0) as Hp2.
          { intros E2 Ek Ex. destruct (side_cov_pending s2 K2 Hr2 k a n) as (c & ks & Hl & Hk & Hle); [done|unfold k2 in Ek; lia|].
            apply (V2 c ks); [by right|done|lia]. }
          clearbody k1 k2 v1 v2.
          destruct v1, v2, k1, k2; cbn [andb orb negb] in *;
            first [ by destruct V1; lia
                  | by (rewrite Hx0 in V3; rewrite V3; [done|]; apply Hno)
                  | by (rewrite Hp1 by done)
                  | by (rewrite Hp2 by done) ]. }
        destruct (max_ctr_witness (mo_live_dots (known_ops H (K1 ∪ K2)) k m) a) as [Hy|(d & Hd & Ha & Hc)].
        2:{ apply km_live_member in Hd as [(ms & Ho & Hm) _]. destruct d as [a' n]. cbn in Ha. subst a'.
            apply (Han n ms); [by eapply known_inH|done]. }
        destruct (max_ctr_witness (mo_live_dots (known_ops H K1) k m) a) as [Hw1|(d & Hd & Ha & Hc)].
        2:{ apply km_live_member in Hd as [(ms & Ho & Hm) _]. destruct d as [a' n]. cbn in Ha. subst a'.
            apply (Han n ms); [by eapply known_inH|done]. }
        destruct (max_ctr_witness (mo_live_dots (known_ops H K2) k m) a) as [Hw2|(d & Hd & Ha & Hc)].
        2:{ apply km_live_member in Hd as [(ms & Ho & Hm) _]. destruct d as [a' n]. cbn in Ha. subst a'.
            apply (Han n ms); [by eapply known_inH|done]. }
        rewrite Hw1, Hw2, kmF_w0 in Hx0. rewrite Hy. lia.
      - (* a key no remove names *)
        rewrite (unnamed_union_w K1 K2 k m a Hn).
        rewrite kmF_unnamed in Hx0.
        + rewrite <- Hx0. apply V3. intros c ks [Hl|Hl] Hk; exfalso; apply Hn.
          * by eapply (side_pending_named s1 K1).
          * by eapply (side_pending_named s2 K2).
        + apply side_w_le_e.
        + by apply (side_e_le_c s1 K1).
        + apply side_w_le_e.
        + by apply (side_e_le_c s2 K2).
        + by apply (side_unnamed_e s1 K1).
        + by apply (side_unnamed_e s2 K2).
        + by apply (side_unnamed_w s1 K1).
        + by apply (side_unnamed_w s2 K2).
    Qed.

    (** ** the merge step *)
    Lemma km_merge_inv : mo_inv_pa H (mmerge vo s1 s2) (K1 ∪ K2) ∧ mo_v4 (mentries (mmerge vo s1 s2)).
    Proof using Hmo Hkm Hr1 Hr2 Hi1 Hi2 Hv1 Hv2.
      assert (moreach_km H (mmerge vo s1 s2) (K1 ∪ K2)) as Hr by (by apply reach_merge).
      pose proof (mclock_wf_km H Hmo s1 K1 Hr1) as W1. pose proof (mclock_wf_km H Hmo s2 K2 Hr2) as W2.
      assert (∀ k e0, merge (mmerge_entry vo (mclock s1) (mclock s2)) (mentries s1) (mentries s2) !! k = Some e0 →
                odeferred (eval e0) = ∅ ∧ oclock (eval e0) = eclock e0 ∧ eswf (oentries (eval e0))) as Hm.
      { intros k e0. rewrite mmerge_entries_lookup. intros He0.
        destruct (mmerge_entry_km _ _ _ _ e0 W1 W2 (side_entry_ok s1 K1 Hr1 Hi1 Hv1 k)
                    (side_entry_ok s2 K2 Hr2 Hi2 Hv2 k) He0) as (A & B & C & _). done. }
      assert (∀ k e, mentries (mmerge vo s1 s2) !! k = Some e →
                oentries (eval e) = mo_entries (known_ops H (K1 ∪ K2)) k ∧ oclock (eval e) = eclock e ∧
                odeferred (eval e) = ∅) as Hall.
      { intros k e He. destruct (mmerge_entries_vrel s1 s2 k e Hm He) as (e0 & He0 & V4 & D & Sw & Hx).
        split_and!; [|done|done].
        destruct (mmerge_entry_km _ _ _ _ e0 W1 W2 (side_entry_ok s1 K1 Hr1 Hi1 Hv1 k)
                    (side_entry_ok s2 K2 Hr2 Hi2 Hv2 k) He0) as (_ & _ & _ & Hg).
        apply eswf_ext; [done|apply mo_entries_eswf|]. intros m a. rewrite gdef_mo_entries.
        destruct (Hx m a) as (X1 & X2 & X3).
        apply (km_point k m a _ (gdef (oentries (eval e0)) m a)); [|done..].
        by rewrite Hg, (side_e s1 K1 Hr1), (side_e s2 K2 Hr2), (side_w s1 K1 Hr1 Hi1), (side_w s2 K2 Hr2 Hi2). }
      split.
      - intros k e He. destruct (Hall k e He) as (A & B & C). split_and!; [done| |done].
        rewrite B. destruct (map_keys_reach_mspec vo H HH _ _ Hr) as (Ec & _ & Ee & _).
        specialize (Ee k). unfold mentry_clock in Ee. rewrite He in Ee. rewrite Ee, Ec. apply mspec_entry_le_clock.
      - intros k e He. by destruct (Hall k e He) as (_ & ? & _).
    Qed.
  End merge.

  (** ** the invariant holds of every reachable state *)
  Theorem km_inv_reach s K : moreach_km H s K → mo_inv_pa H s K ∧ mo_v4 (mentries s).
  Proof using Hmo Hkm.
    induction 1 as [|s K i o Hr [IH1 IH2] Ho Ha|s1 K1 s2 K2 _ Hr1 [I1 V1] Hr2 [I2 V2]].
    - split; intros k e; cbn; by rewrite lookup_empty.
    - split; [by apply (mo_step_km H Hmo)|by eapply (mo_v4_step_km H Hmo)].
    - by apply km_merge_inv.
  Qed.
End km.

(** * Part 5: the refinement theorems *)
Theorem mapor_values_refine_km (H : list (oprec (mop oop))) : mohist_ok_km H → km_once H →
  ∀ (s : cmap orswot) (K : gset nat), moreach_km H s K → ∀ k, mo_state_entries s k = mo_entries (known_ops H K) k.
Proof.
  intros Hok Hkm s K Hr k. unfold mo_state_entries. destruct (mentries s !! k) as [e|] eqn:E.
  - destruct (km_inv_reach H Hok Hkm s K Hr) as [Hinv _]. by destruct (Hinv k e E).
  - symmetry. by eapply absent_spec_km.
Qed.
Print Assumptions mapor_values_refine_km.

(** ** the COMPLETE state is the specification of the knowledge *)
Theorem mapor_refine_km (H : list (oprec (mop oop))) : mohist_ok_km H → km_once H →
  ∀ (s : cmap orswot) (K : gset nat), moreach_km H s K → s = mapor_spec_km H K.
Proof.
  intros Hok Hkm s K Hr. destruct (km_inv_reach H Hok Hkm s K Hr) as [Hinv Hv4].
  pose proof (maphist_ok_wf vo H (mohist_km_maphist H Hok)) as HH.
  destruct (map_keys_reach_mspec vo H HH s K Hr) as (Ec & Ek & Ee & Ed).
  apply cmap_eq3; [done| |done].
  apply map_eq. intros k. unfold mapor_spec_km, mapor_spec_km_of. cbn [mentries]. rewrite fn_map_lookup.
  rewrite <- Ek. unfold mkeys. specialize (Ee k). unfold mentry_clock in Ee.
  destruct (mentries s !! k) as [e|] eqn:E.
  - rewrite decide_True by (by apply elem_of_dom_2 in E). f_equal.
    destruct (Hinv k e E) as (A & _ & D). pose proof (Hv4 k e E) as B.
    destruct e as [ec [oc t d]]. cbn in *. by subst.
  - rewrite decide_False; [done|]. by apply not_elem_of_dom.
Qed.

(** * Part 6: corollaries *)
Section corollaries.
  Context (H : list (oprec (mop oop))) (Hok : mohist_ok_km H) (Hkm : km_once H).
  Let Hmap : maphist_ok vo H := mohist_km_maphist H Hok.
  Let HH : owfH (habs H) := maphist_ok_wf vo H Hmap.
  Implicit Types (s : cmap orswot) (K : gset nat).

  (** the monitor's decider *)
  Theorem mapor_km_ok_reach s K : moreach_km H s K → mapor_km_ok H K s = true.
  Proof using Hok Hkm. intros Hr. apply bool_decide_eq_true. by apply mapor_refine_km. Qed.

  (** C01 / C20: equal knowledge, equal (complete) state *)
  Theorem mapor_converge_km s1 s2 K : moreach_km H s1 K → moreach_km H s2 K → s1 = s2.
  Proof using Hok Hkm.
    intros H1 H2. by rewrite (mapor_refine_km H Hok Hkm s1 K H1), (mapor_refine_km H Hok Hkm s2 K H2).
  Qed.

  Lemma mmerge_reach_km s1 K1 s2 K2 : moreach_km H s1 K1 → moreach_km H s2 K2 →
    moreach_km H (mmerge vo s1 s2) (K1 ∪ K2).
  Proof. intros. by apply reach_merge. Qed.

  (** C03: merging two replicas = having learned the union of their ops (hybrid replication) *)
  Theorem mapor_merge_spec_km s1 K1 s2 K2 : moreach_km H s1 K1 → moreach_km H s2 K2 →
    mmerge vo s1 s2 = mapor_spec_km H (K1 ∪ K2).
  Proof using Hok Hkm. intros H1 H2. apply (mapor_refine_km H Hok Hkm). by apply mmerge_reach_km. Qed.
  Theorem mapor_merge_is_union_km s1 K1 s2 K2 s K :
    moreach_km H s1 K1 → moreach_km H s2 K2 → moreach_km H s K → K = K1 ∪ K2 → mmerge vo s1 s2 = s.
  Proof using Hok Hkm. intros H1 H2 H3 ->. eapply mapor_converge_km; [by apply mmerge_reach_km|done]. Qed.

  (** C02: [mmerge] is commutative, associative and idempotent on reachable states *)
  Theorem mapor_merge_comm_km s1 K1 s2 K2 : moreach_km H s1 K1 → moreach_km H s2 K2 →
    mmerge vo s1 s2 = mmerge vo s2 s1.
  Proof using Hok Hkm.
    intros H1 H2. rewrite (mapor_merge_spec_km s1 K1 s2 K2), (mapor_merge_spec_km s2 K2 s1 K1) by done.
    by rewrite (comm_L (∪) K1 K2).
  Qed.
  Theorem mapor_merge_assoc_km s1 K1 s2 K2 s3 K3 :
    moreach_km H s1 K1 → moreach_km H s2 K2 → moreach_km H s3 K3 →
    mmerge vo (mmerge vo s1 s2) s3 = mmerge vo s1 (mmerge vo s2 s3).
  Proof using Hok Hkm.
    intros H1 H2 H3.
    rewrite (mapor_merge_spec_km (mmerge vo s1 s2) (K1 ∪ K2) s3 K3) by (try apply mmerge_reach_km; done).
    rewrite (mapor_merge_spec_km s1 K1 (mmerge vo s2 s3) (K2 ∪ K3)) by (try apply mmerge_reach_km; done).
    by rewrite (assoc_L (∪) K1 K2 K3).
  Qed.
  Theorem mapor_merge_idem_km s K : moreach_km H s K → mmerge vo s s = s.
  Proof using Hok Hkm.
    intros H1. rewrite (mapor_merge_spec_km s K s K) by done. rewrite (idemp_L (∪) K).
    symmetry. by apply mapor_refine_km.
  Qed.

  (** C09: a duplicate op and a stale state are absorbed *)
  Theorem mapor_dup_apply_km s K i r : moreach_km H s K → H !! i = Some r → i ∈ K →
    mapply vo s (op_val r) = s.
  Proof using Hok Hkm.
    intros Hr Hi HiK.
    assert (adm_per_actor H K i) as Ha.
    { exists r. split; [done|]. intros j r' Hj Hl Hau.
      destruct (map_keys_reach_spec vo H HH s K Hr) as [_ [_ Hval]].
      apply (Hval i j _ _ HiK Hj (hmap_lookup_Some oabs H i r Hi) (hmap_lookup_Some oabs H j r' Hl)). done. }
    assert (moreach_km H (mapply vo s (op_val r)) (K ∪ {[i]})) as Hr' by (by eapply reach_apply).
    replace (K ∪ {[i]}) with K in Hr' by set_solver. by eapply mapor_converge_km.
  Qed.
  Theorem mapor_stale_merge_km s1 K1 s2 K2 : moreach_km H s1 K1 → moreach_km H s2 K2 → K2 ⊆ K1 →
    mmerge vo s1 s2 = s1 ∧ mmerge vo s2 s1 = s1.
  Proof using Hok Hkm.
    intros H1 H2 Hsub.
    rewrite (mapor_merge_spec_km s1 K1 s2 K2), (mapor_merge_spec_km s2 K2 s1 K1) by done.
    assert (K1 ∪ K2 = K1) as -> by set_solver. assert (K2 ∪ K1 = K1) as -> by set_solver.
    split; symmetry; by apply mapor_refine_km.
  Qed.

  (** the components of a reachable state: the key layer of spec/MapSpec.v; under every present
      key the nested clock is the entry clock, the member table is [mo_entries], nothing is
      pending inside the nested set *)
  Theorem mapor_components_km s K k : moreach_km H s K →
    let os := known_ops H K in
    mclock s = mspec_clock os ∧ dom (mentries s) = mspec_keys os ∧
    mentry_clock s k = mspec_entry_clock os k ∧
    mdeferred s = ospec_deferred (oabs <$> os) ∧
    (∀ e, mentries s !! k = Some e →
          eclock e = mspec_entry_clock os k ∧
          eval e = Orswot (mspec_entry_clock os k) (mo_entries os k) ∅) ∧
    mo_state_entries s k = mo_entries os k.
  Proof using Hok Hkm.
    intros Hr os. destruct (map_keys_reach_mspec vo H HH s K Hr) as (Ec & Ek & Ee & Ed).
    destruct (km_inv_reach H Hok Hkm s K Hr) as [Hinv Hv4].
    split_and!; [done|done|done|done| |by apply mapor_values_refine_km].
    intros e He. specialize (Ee k). unfold mentry_clock in Ee. rewrite He in Ee. split; [done|].
    destruct (Hinv k e He) as (A & _ & D). pose proof (Hv4 k e He) as B.
    destruct (eval e) as [oc t d]. cbn in A, B, D. unfold os. by rewrite A, B, D, Ee.
  Qed.

  (** the member sentence (C05): [m] is in the set under [k] iff some known add of [m] under [k]
      is covered by no known key remove naming [k] (pending or not) *)
  Theorem mapor_member_iff_km s K k m : moreach_km H s K →
    m ∈ dom (mo_state_entries s k) ↔
      ∃ d ms, MUp d k (OAdd d ms) ∈ known_ops H K ∧ m ∈ ms ∧
        ¬ ∃ c ks, MRm c ks ∈ known_ops H K ∧ k ∈ ks ∧ dcounter d <= vget c (dactor d).
  Proof using Hok Hkm.
    intros Hr. rewrite (mapor_values_refine_km H Hok Hkm s K Hr k), elem_of_dom, mo_entries_lookup.
    set (os := known_ops H K). split.
    - intros Hs. destruct (mo_live_dots os k m) as [|d l] eqn:El.
      { unfold mo_entry in Hs. rewrite El, dots_clock_nil in Hs. by destruct Hs. }
      assert (d ∈ mo_live_dots os k m) as Hd by (rewrite El; by left).
      apply (km_live_member H Hok) in Hd as [(ms & Hin & Hm) Hc].
      exists d, ms. split_and!; [done|done|]. rewrite <- mcovered_spec. intros Ht. unfold os in *. by rewrite Ht in Hc.
    - intros (d & ms & Hin & Hm & Hn).
      assert (d ∈ mo_live_dots os k m) as Hd.
      { apply (km_live_member H Hok). split; [by exists ms|]. apply not_true_iff_false. by rewrite mcovered_spec. }
      assert (0 < dcounter d) as Hpos by (eapply (inH_pos H Hok), known_inH; exact Hin).
      assert (mo_entry os k m ≠ ∅) as Hne.
      { apply (vne_get _ (dactor d)). rewrite mo_entry_get.
        pose proof (max_ctr_ge _ _ _ Hd eq_refl). lia. }
      apply vis_empty_false in Hne. rewrite Hne. by eexists.
  Qed.

  (** both monitor deciders of the earlier specifications *)
  Theorem mapor_valspec_ok_km s K : moreach_km H s K → movalspec_ok H K s = true.
  Proof using Hok Hkm.
    intros Hr. unfold movalspec_ok. apply andb_true_intro. split.
    - apply forallb_forall. intros k _. apply bool_decide_eq_true. by apply mapor_values_refine_km.
    - apply bool_decide_eq_true.
      destruct (map_keys_reach_mspec vo H HH s K Hr) as (_ & Ek & _).
      unfold mkeys in Ek. rewrite Ek. unfold mspec_keys. intros k.
      rewrite !elem_of_list_to_set, elem_of_list_In, filter_In, <- elem_of_list_In. tauto.
  Qed.
  Theorem mapor_keyspec_ok_km s K : moreach_km H s K → mkeyspec_ok H K s = true.
  Proof using Hok. apply (map_keyspec_ok vo H HH). Qed.
End corollaries.

(** instance of the framework, for reference: with [eqv := eq], [spec := mapor_spec_km],
    [wfH H := mohist_ok_km H ∧ km_once H] the conclusion of [reach_spec] of spec/System.v is
    [mapor_refine_km]; its corollaries [converge], [merge_is_union], [merge_comm], [merge_assoc],
    [merge_idem], [dup_apply], [stale_merge] are the theorems of Part 6. *)

(** every delivery discipline at least as strong as per-actor delivery (causal delivery in
    particular), with or without state merges, reaches only states of [moreach_km] *)
Theorem mapor_refine_km_any (adm : adm_t (mop oop)) (mg : Prop) H s K : mohist_ok_km H → km_once H →
  (∀ K i, adm H K i → adm_per_actor H K i) →
  reach mnew (mapply vo) (mmerge vo) adm mg H s K → s = mapor_spec_km H K.
Proof.
  intros Hok Hkm Hadm Hr. apply (mapor_refine_km H Hok Hkm).
  induction Hr as [|s K i o Hr IH Ho Ha|s1 K1 s2 K2 Hm Hr1 IH1 Hr2 IH2].
  - constructor.
  - eapply reach_apply; [done..|by apply Hadm].
  - by apply reach_merge.
Qed.

Print Assumptions mapor_refine_km.
Print Assumptions mapor_km_ok_reach.
Print Assumptions mapor_converge_km.
Print Assumptions mapor_merge_spec_km.
Print Assumptions mapor_merge_is_union_km.
Print Assumptions mapor_merge_comm_km.
Print Assumptions mapor_merge_assoc_km.
Print Assumptions mapor_merge_idem_km.
Print Assumptions mapor_dup_apply_km.
Print Assumptions mapor_stale_merge_km.
Print Assumptions mapor_components_km.
Print Assumptions mapor_member_iff_km.
Print Assumptions mapor_valspec_ok_km.
Print Assumptions mapor_keyspec_ok_km.
Print Assumptions mapor_refine_km_any.

(** causal delivery: an op's dependency set contains its author's earlier ops *)
Lemma km_hist_deps_own H : mohist_ok_km H →
  ∀ i r j r', H !! i = Some r → (j < i)%nat → H !! j = Some r' → op_author r' = op_author r → j ∈ op_deps r.
Proof.
  induction 1 as [|H s K a cmd o Hok IH Hr Hown Hgen]; [intros i r j r' Hi; by rewrite lookup_nil in Hi|].
  intros i r j r' Hi Hlt Hj Ha.
  destruct (decide (i < length H)%nat) as [Hl|Hge].
  - rewrite lookup_app_l in Hi by done. rewrite lookup_app_l in Hj by lia. by eapply IH.
  - assert (i = length H) as ->.
    { apply lookup_lt_Some in Hi. rewrite app_length in Hi. cbn in Hi. lia. }
    rewrite lookup_app_r, Nat.sub_diag in Hi by lia. cbn in Hi. injection Hi as <-. cbn in *.
    rewrite lookup_app_l in Hj by lia. by apply (Hown j r').
Qed.
Corollary mapor_refine_km_causal (mg : Prop) H s K : mohist_ok_km H → km_once H →
  reach mnew (mapply vo) (mmerge vo) adm_causal mg H s K → s = mapor_spec_km H K.
Proof.
  intros Hok Hkm. apply mapor_refine_km_any; [done|done|].
  intros K' i (r & Hi & Hd). exists r. split; [done|]. intros j r' Hlt Hj Ha.
  apply Hd. by eapply (km_hist_deps_own H Hok).
Qed.
Print Assumptions mapor_refine_km_causal.

(** * Part 7: non-vacuity.  Three actors.  Actors 1 and 2 each update key 7 once, concurrently
    (members 10 and 20); actor 3, having seen only actor 1's update, removes key 7 (context
    {1:1}); actor 1 also updates key 8 twice (members 30, 31): key 8 is named by no remove, so
    [km_once] holds.  Replica P is fresh and receives the key remove first: it overtakes the
    update it observed and is PARKED.  Replica Q holds actor 2's update and merges P: the parked
    remove travels inside the merged state M.  Replica R holds all four updates.  Merging M into R
    or R into M gives the same state, the state C that op delivery reaches and the specification
    of the joint knowledge: member 20 of actor 2 survives under key 7, member 10 of actor 1 is
    gone, nothing is pending any more. *)
Local Ltac km_adm :=
  eexists; split; [done|]; intros [|[|[|[|[|j]]]]] r' Hlt Hj Ha; cbn in Hj, Ha; simplify_eq; try lia; set_solver.
Local Ltac km_own :=
  intros [|[|[|[|[|j]]]]] r Hj Ha; cbn in Hj, Ha; simplify_eq; set_solver.

Section example.
  Let o0 : mop oop := MUp (Dot 1 1) 7 (OAdd (Dot 1 1) [10]).
  Let o1 : mop oop := MUp (Dot 2 1) 7 (OAdd (Dot 2 1) [20]).
  Let o2 : mop oop := MRm {[1 := 1]} {[7]}.
  Let o3 : mop oop := MUp (Dot 1 2) 8 (OAdd (Dot 1 2) [30]).
  Let o4 : mop oop := MUp (Dot 1 3) 8 (OAdd (Dot 1 3) [31]).
  Let r0 := OpRec 1 o0 ∅.
  Let r1 := OpRec 2 o1 ∅.
  Let r2 := OpRec 3 o2 (∅ ∪ {[0%nat]}).
  Let r3 := OpRec 1 o3 (∅ ∪ {[0%nat]}).
  Let r4 := OpRec 1 o4 (∅ ∪ {[0%nat]} ∪ {[3%nat]}).
  Let H : list (oprec (mop oop)) := [r0; r1; r2; r3; r4].
  (* P: a fresh replica receives the key remove first: parked *)
  Let sP := mapply vo mnew o2.
  Let KP : gset nat := ∅ ∪ {[2%nat]}.
  (* Q: holds actor 2's update; merges P: the parked remove travels *)
  Let sQ := mapply vo mnew o1.
  Let KQ : gset nat := ∅ ∪ {[1%nat]}.
  Let sM := mmerge vo sQ sP.
  (* R: holds both updates of key 7 and both updates of key 8 *)
  Let sR := mapply vo (mapply vo (mapply vo (mapply vo mnew o0) o1) o3) o4.
  Let KR : gset nat := ∅ ∪ {[0%nat]} ∪ {[1%nat]} ∪ {[3%nat]} ∪ {[4%nat]}.
  (* C: everything by op delivery *)
  Let sC := mapply vo sR o2.
  Let KC : gset nat := KR ∪ {[2%nat]}.

  Example mapor_km_example :
    mohist_ok_km H ∧ km_once H ∧
    moreach_km H sP KP ∧ mdeferred sP = {[ ({[1 := 1]} : gmap N N) := ({[7]} : gset N) ]} ∧
    moreach_km H sM (KQ ∪ KP) ∧ mdeferred sM = {[ ({[1 := 1]} : gmap N N) := ({[7]} : gset N) ]} ∧
    mo_state_entries sM 7 = {[20 := {[2 := 1]}]} ∧
    moreach_km H sR KR ∧ mo_state_entries sR 7 = {[10 := {[1 := 1]}; 20 := {[2 := 1]}]} ∧
    moreach_km H sC KC ∧ KC = KR ∪ (KQ ∪ KP) ∧
    mmerge vo sR sM = sC ∧ mmerge vo sM sR = sC ∧
    mmerge vo sR sM = mapor_spec_km H KC ∧
    mapor_km_ok H KC (mmerge vo sM sR) = true ∧ mapor_km_ok H (KQ ∪ KP) sM = true ∧
    mo_state_entries sC 7 = {[20 := {[2 := 1]}]} ∧
    mo_state_entries sC 8 = {[30 := {[1 := 2]}; 31 := {[1 := 3]}]} ∧
    mdeferred sC = ∅ ∧
    sC = CMap {[1 := 3; 2 := 1]}
              {[7 := MEntry {[2 := 1]} (Orswot {[2 := 1]} {[20 := {[2 := 1]}]} ∅);
                8 := MEntry {[1 := 3]} (Orswot {[1 := 3]} {[30 := {[1 := 2]}; 31 := {[1 := 3]}]} ∅)]} ∅.
  Proof.
    assert (moreach_km H (mapply vo mnew o0) (∅ ∪ {[0%nat]})) as R0.
    { apply (reach_apply _ _ _ _ _ _ mnew ∅ 0%nat r0); [constructor|done|km_adm]. }
    assert (moreach_km H (mapply vo (mapply vo mnew o0) o3) (∅ ∪ {[0%nat]} ∪ {[3%nat]})) as R03.
    { apply (reach_apply _ _ _ _ _ _ _ _ 3%nat r3); [exact R0|done|km_adm]. }
    assert (mohist_ok_km H) as Hok.
    { change H with ((((([] ++ [r0]) ++ [r1]) ++ [r2]) ++ [r3]) ++ [r4]).
      apply (hist_snoc _ _ _ _ _ _ _ (mapply vo (mapply vo mnew o0) o3) _ 1 (MOAdd 8 [31])).
      - apply (hist_snoc _ _ _ _ _ _ _ (mapply vo mnew o0) _ 1 (MOAdd 8 [30])).
        + apply (hist_snoc _ _ _ _ _ _ _ (mapply vo mnew o0) _ 3 (MOKeyRm {[7]} (Some 7))).
          * apply (hist_snoc _ _ _ _ _ _ _ mnew _ 2 (MOAdd 7 [20])).
            -- apply (hist_snoc _ _ _ _ _ _ _ mnew _ 1 (MOAdd 7 [10])); [constructor|constructor|km_own|by vm_compute].
            -- constructor.
            -- km_own.
            -- by vm_compute.
          * apply (reach_apply _ _ _ _ _ _ mnew ∅ 0%nat r0); [constructor|done|km_adm].
          * km_own.
          * by vm_compute.
        + apply (reach_apply _ _ _ _ _ _ mnew ∅ 0%nat r0); [constructor|done|km_adm].
        + km_own.
        + by vm_compute.
      - apply (reach_apply _ _ _ _ _ _ _ _ 3%nat r3); [|done|km_adm].
        apply (reach_apply _ _ _ _ _ _ mnew ∅ 0%nat r0); [constructor|done|km_adm].
      - km_own.
      - by vm_compute. }
    assert (km_once H) as Hkm.
    { intros i j ri rj di dj k oi oj Hi Hj Hvi Hvj (l & rl & c & ks & Hl & Hvl & Hk) Ha.
      assert (k = 7) as ->.
      { destruct l as [|[|[|[|[|l]]]]]; cbn in Hl; simplify_eq; cbn in Hvl; simplify_eq. by apply elem_of_singleton in Hk. }
      destruct i as [|[|[|[|[|i]]]]], j as [|[|[|[|[|j]]]]]; cbn in Hi, Hj; simplify_eq; cbn in Hvi, Hvj; simplify_eq;
        try done. }
    assert (moreach_km H sP KP) as HP.
    { apply (reach_apply _ _ _ _ _ _ mnew ∅ 2%nat r2); [constructor|done|km_adm]. }
    assert (moreach_km H sQ KQ) as HQ.
    { apply (reach_apply _ _ _ _ _ _ mnew ∅ 1%nat r1); [constructor|done|km_adm]. }
    assert (moreach_km H sM (KQ ∪ KP)) as HM by (by apply reach_merge).
    assert (moreach_km H sR KR) as HR.
    { apply (reach_apply _ _ _ _ _ _ _ _ 4%nat r4); [|done|km_adm].
      apply (reach_apply _ _ _ _ _ _ _ _ 3%nat r3); [|done|km_adm].
      apply (reach_apply _ _ _ _ _ _ _ _ 1%nat r1); [|done|km_adm]. exact R0. }
    assert (moreach_km H sC KC) as HC.
    { apply (reach_apply _ _ _ _ _ _ _ _ 2%nat r2); [exact HR|done|km_adm]. }
    assert (KC = KR ∪ (KQ ∪ KP)) as HK by (apply (bool_decide_unpack _); by vm_compute).
    split_and!.
    - exact Hok.
    - exact Hkm.
    - exact HP.
    - apply (bool_decide_unpack _). by vm_compute.
    - exact HM.
    - apply (bool_decide_unpack _). by vm_compute.
    - apply (bool_decide_unpack _). by vm_compute.
    - exact HR.
    - apply (bool_decide_unpack _). by vm_compute.
    - exact HC.
    - exact HK.
    - exact (mapor_merge_is_union_km H Hok Hkm sR KR sM (KQ ∪ KP) sC KC HR HM HC HK).
    - apply (mapor_merge_is_union_km H Hok Hkm sM (KQ ∪ KP) sR KR sC KC HM HR HC).
      apply (bool_decide_unpack _). by vm_compute.
    - rewrite HK. by apply (mapor_merge_spec_km H Hok Hkm).
    - apply (mapor_km_ok_reach H Hok Hkm). rewrite HK, (comm_L (∪) KR). by apply reach_merge.
    - by apply (mapor_km_ok_reach H Hok Hkm).
    - apply (bool_decide_unpack _). by vm_compute.
    - apply (bool_decide_unpack _). by vm_compute.
    - apply (bool_decide_unpack _). by vm_compute.
    - apply (bool_decide_unpack _). by vm_compute.
  Qed.
End example.
Print Assumptions mapor_km_example.

(** * [km_once] is needed (finding T2): actor 2 updates key 0 twice (members 8, then 9); actor 3,
    having seen the first update only, removes key 0.  The history is API-generated in the
    fragment without nested removes, it violates [km_once], and the merge of the replica that
    applied the remove with the replica that holds both updates brings member 8 back: the merged
    state is not the state op delivery reaches for the same knowledge and violates the value-level
    specification [mo_entries]. *)
Section needed.
  Let p1 : mop oop := MUp (Dot 2 1) 0 (OAdd (Dot 2 1) [8]).
  Let p2 : mop oop := MUp (Dot 2 2) 0 (OAdd (Dot 2 2) [9]).
  Let p3 : mop oop := MRm {[2 := 1]} {[0]}.
  Let r0 := OpRec 2 p1 ∅.
  Let r1 := OpRec 2 p2 (∅ ∪ {[0%nat]}).
  Let r2 := OpRec 3 p3 (∅ ∪ {[0%nat]}).
  Let H : list (oprec (mop oop)) := [r0; r1; r2].
  Let sA := mapply vo (mapply vo mnew p1) p2.
  Let KA : gset nat := ∅ ∪ {[0%nat]} ∪ {[1%nat]}.
  Let sB := mapply vo (mapply vo mnew p1) p3.
  Let KB : gset nat := ∅ ∪ {[0%nat]} ∪ {[2%nat]}.
  Let sD := mapply vo sB p2.

  Example km_once_needed :
    mohist_ok_km H ∧ ¬ km_once H ∧
    moreach_km H sA KA ∧ moreach_km H sB KB ∧ moreach_km H (mmerge vo sB sA) (KB ∪ KA) ∧
    moreach_km H sD (KB ∪ {[1%nat]}) ∧ KB ∪ {[1%nat]} = KB ∪ KA ∧
    mmerge vo sB sA ≠ sD ∧ mmerge vo sA sB ≠ sD ∧
    mo_entries (known_ops H (KB ∪ KA)) 0 = {[9 := {[2 := 2]}]} ∧
    mo_state_entries sD 0 = {[9 := {[2 := 2]}]} ∧
    mo_state_entries (mmerge vo sB sA) 0 = {[8 := {[2 := 1]}; 9 := {[2 := 2]}]} ∧
    mapor_km_ok H (KB ∪ KA) sD = true ∧ mapor_km_ok H (KB ∪ KA) (mmerge vo sB sA) = false.
  Proof.
    assert (moreach_km H (mapply vo mnew p1) (∅ ∪ {[0%nat]})) as R0.
    { apply (reach_apply _ _ _ _ _ _ mnew ∅ 0%nat r0); [constructor|done|km_adm]. }
    assert (mohist_ok_km H) as Hok.
    { change H with ((([] ++ [r0]) ++ [r1]) ++ [r2]).
      apply (hist_snoc _ _ _ _ _ _ _ (mapply vo mnew p1) _ 3 (MOKeyRm {[0]} (Some 0))).
      - apply (hist_snoc _ _ _ _ _ _ _ (mapply vo mnew p1) _ 2 (MOAdd 0 [9])).
        + apply (hist_snoc _ _ _ _ _ _ _ mnew _ 2 (MOAdd 0 [8])); [constructor|constructor|km_own|by vm_compute].
        + apply (reach_apply _ _ _ _ _ _ mnew ∅ 0%nat r0); [constructor|done|km_adm].
        + km_own.
        + by vm_compute.
      - apply (reach_apply _ _ _ _ _ _ mnew ∅ 0%nat r0); [constructor|done|km_adm].
      - km_own.
      - by vm_compute. }
    assert (moreach_km H sA KA) as HA.
    { apply (reach_apply _ _ _ _ _ _ _ _ 1%nat r1); [exact R0|done|km_adm]. }
    assert (moreach_km H sB KB) as HB.
    { apply (reach_apply _ _ _ _ _ _ _ _ 2%nat r2); [exact R0|done|km_adm]. }
    split_and!.
    - exact Hok.
    - intros Hkm.
      assert (0%nat = 1%nat); [|done].
      apply (Hkm 0%nat 1%nat r0 r1 (Dot 2 1) (Dot 2 2) 0 (OAdd (Dot 2 1) [8]) (OAdd (Dot 2 2) [9])); try done.
      exists 2%nat, r2, {[2 := 1]}, {[0]}. split_and!; [done|done|]. by apply elem_of_singleton.
    - exact HA.
    - exact HB.
    - by apply reach_merge.
    - apply (reach_apply _ _ _ _ _ _ _ _ 1%nat r1); [exact HB|done|km_adm].
    - apply (bool_decide_unpack _). by vm_compute.
    - apply (bool_decide_unpack _). by vm_compute.
    - apply (bool_decide_unpack _). by vm_compute.
    - apply (bool_decide_unpack _). by vm_compute.
    - apply (bool_decide_unpack _). by vm_compute.
    - apply (bool_decide_unpack _). by vm_compute.
    - by vm_compute.
    - by vm_compute.
  Qed.
End needed.
Print Assumptions km_once_needed.
Print Assumptions km_point.
Print Assumptions km_merge_inv.
Print Assumptions km_inv_reach.
