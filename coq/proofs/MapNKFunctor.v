(** "At every nesting depth": the no-key-remove complete-state refinement of [Map<K, V>] as a
    FUNCTOR over the nested value type.

    proofs/MapOrswotNK.v proves that a [Map<K, Orswot>] whose keys are never removed is, in every
    reachable state, the specification of its knowledge; proofs/MapMapOrswotNK.v repeats the
    construction one level up.  This file replaces "another file per depth" by one induction step:

      - Part 1: the interface [sparse_ref vo] - a *sparse list-level refinement structure* on a
        nested value type [vo : valops V O E]: a specification [vspec : list O → V] of op lists,
        the dot an op carries ([vodot]), the shape of an op carried by an update with dot [d]
        ([vtag d]), well-formed universes of ops inside an ambient dot set ([vuniv A U]: for the
        value under key [k] of a map the ambient dots are the dots of the updates of [k]), and the
        laws: default, extensionality, apply of a fresh op, merge of two sides of a universe,
        [reset_remove] by a clock that covers no ambient dot is the identity, universes grow by
        new ops ([vnewop]) and with the ambient set.  Derived notions: the clock [sclk] of an op
        list, [sside U os] (the ops a replica knows: a dot-carrying op of the universe whose dot
        the replica's clock covers is known), [dclk]/[aclk] (clocks made of dots);
      - Part 2: the functor: if [vo] has the structure, so has [map_valops vo], with
        [mspec_nk_of X os] (map clock, key set, entry clocks, under every key [vspec] of the
        projected ops, no pending remove) - [map_sr];
      - Part 3: the base instance [orswot_sr] ([sparse_L2], [oapply_spec_add/rm],
        [ospec_oreset_inert]);
      - Part 4: the reach level, once for every depth: for an abstract command interpreter [gen]
        whose ops at specification states are new ops of the universe, every reachable state of a
        generated history is the specification of its knowledge ([map_sr_refine]).

    The instances at depths 1, 2, 3 and the end-to-end theorem at depth 3 are in
    proofs/MapNKFunctorInst.v. *)
From stdpp Require Import gmap.
From Crdt Require Import proofs.VClock proofs.Reset proofs.OrswotLayer
  proofs.OrswotL1 proofs.OrswotL2a proofs.OrswotL2 proofs.OrswotSystem proofs.MapFacts proofs.MapKeys
  proofs.MapOrswot proofs.OrswotSparseL2 proofs.MapOrswotNK proofs.MapMapOrswotNK
  model.Orswot model.Map spec.System spec.OrswotSpec spec.OrswotSystem
  spec.MapSpec spec.MapSystem spec.MapOrswotSpec spec.MapMapOrswotSpec spec.MapMapOrswotNKSpec.
From Coq Require Import ZifyBool ZifyN ZifyNat.
Local Open Scope N_scope.

(** * Part 1: the interface *)

(** every positive component of [x] is a dot of the (ambient) dot set [A] *)
Definition aclk (A : dot → Prop) (x : gmap N N) : Prop := ∀ a, 0 < vget x a → A (Dot a (vget x a)).
Lemma aclk_mono (A A' : dot → Prop) x : (∀ d, A d → A' d) → aclk A x → aclk A' x.
Proof. intros HA Hx a Ha. by apply HA, Hx. Qed.

Section derived.
  Context {O : Type} (vodot : O → option dot).
  (** the dots of an op list and their join: the clock of the specification *)
  Definition sdots (os : list O) : list dot := omap vodot os.
  Definition sclk (os : list O) : gmap N N := dots_clock (sdots os).
  (** every positive component of [x] is the dot of an op of [U] *)
  Definition dclk (U : list O) (x : gmap N N) : Prop :=
    ∀ a, 0 < vget x a → ∃ o, o ∈ U ∧ vodot o = Some (Dot a (vget x a)).
  (** the dots of the ops of [U] belong to the (ambient) dot set [A] *)
  Definition dots_in (A : dot → Prop) (U : list O) : Prop := ∀ o d, o ∈ U → vodot o = Some d → A d.
  (** the ops a replica knows: ops of the universe; a dot-carrying op of the universe whose dot
      the replica's clock covers is known *)
  Definition sside (U os : list O) : Prop :=
    (∀ o, o ∈ os → o ∈ U) ∧
    (∀ o d, o ∈ U → vodot o = Some d → dcounter d <= vget (sclk os) (dactor d) → o ∈ os).

  Lemma sdots_app os1 os2 : sdots (os1 ++ os2) = sdots os1 ++ sdots os2.
  Proof. unfold sdots. by rewrite omap_app. Qed.
  Lemma sclk_app os1 os2 : sclk (os1 ++ os2) = vmerge (sclk os1) (sclk os2).
  Proof. unfold sclk. by rewrite sdots_app, dots_clock_app. Qed.
  Lemma elem_of_sdots os d : d ∈ sdots os ↔ ∃ o, o ∈ os ∧ vodot o = Some d.
  Proof. unfold sdots. by rewrite elem_of_list_omap. Qed.
  Lemma dclk_mono U U' x : (∀ o, o ∈ U → o ∈ U') → dclk U x → dclk U' x.
  Proof. intros Hs Hx a Ha. destruct (Hx a Ha) as (o & Ho & Hd). exists o. split; [by apply Hs|done]. Qed.
  Lemma sside_app U os1 os2 : sside U os1 → sside U os2 → sside U (os1 ++ os2).
  Proof.
    intros HS1 HS2. split.
    - intros o [?|?]%elem_of_app; [by apply HS1|by apply HS2].
    - intros o d Hin Hd Hle. rewrite sclk_app, vmerge_get in Hle. apply elem_of_app.
      destruct (N.max_spec (vget (sclk os1) (dactor d)) (vget (sclk os2) (dactor d))) as [[_ E]|[_ E]];
        rewrite E in Hle; [right; by apply (proj2 HS2 o d)|left; by apply (proj2 HS1 o d)].
  Qed.
  (** the clock of a side is made of dots of the universe *)
  Lemma dclk_sclk U os : sside U os → dclk U (sclk os).
  Proof.
    intros HS a. unfold sclk. rewrite dots_clock_get. intros Hp.
    destruct (max_ctr_witness (sdots os) a) as [?|([a' n] & Hin & Ha & Hc)]; [lia|]. cbn in Ha, Hc. subst a'.
    rewrite <- Hc. apply elem_of_sdots in Hin as (o & Ho & Hd). exists o. split; [by apply HS|done].
  Qed.
  Lemma dclk_aclk A U x : dots_in A U → dclk U x → aclk A x.
  Proof. intros HA Hx a Ha. destruct (Hx a Ha) as (o & Ho & Hd). by eapply HA. Qed.
End derived.

Record sparse_ref {V O E : Type} (vo : valops V O E) := SparseRef {
  (** data *)
  vspec : list O → V;                     (* the state a replica that knows the ops [os] is in *)
  vodot : O → option dot;                  (* the dot an op carries *)
  vtag : dot → O → Prop;                  (* shape of an op carried by a [Map] update with dot [d] *)
  vuniv : (dot → Prop) → list O → Prop;   (* well-formed universes "all ops ever generated", inside
                                             an ambient dot set [A] (the dots of the enclosing updates) *)
  vnewop : (dot → Prop) → list O → dot → O → Prop; (* [o], tagged [d], may be added to the universe [U] *)
  (** laws *)
  vspec_nil : vspec [] = v_default vo;
  vspec_ext : ∀ os os', (∀ o, o ∈ os ↔ o ∈ os') → vspec os = vspec os';
  vtag_dot : ∀ d d' o, vtag d o → vodot o = Some d' → d' = d;
  vuniv_tag : ∀ A U o, vuniv A U → o ∈ U → ∃ d, vtag d o;
  vuniv_dots : ∀ A U, vuniv A U → dots_in vodot A U;
  vuniv_mono : ∀ (A A' : dot → Prop) U, (∀ d, A d → A' d) → vuniv A U → vuniv A' U;
  vapply_fresh : ∀ os d o, (∀ x, x ∈ os → ∃ d', vtag d' x) → vtag d o →
    vget (sclk vodot os) (dactor d) < dcounter d → v_apply vo (vspec os) o = vspec (os ++ [o]);
  vmerge_spec : ∀ A U os1 os2, vuniv A U → sside vodot U os1 → sside vodot U os2 →
    v_merge vo (vspec os1) (vspec os2) = vspec (os1 ++ os2);
  vreset_inert : ∀ A U os r, vuniv A U → sside vodot U os → (∀ x, aclk A x → inert x r) →
    v_reset vo (vspec os) r = vspec os;
  vuniv_nil : ∀ A, vuniv A [];
  vuniv_snoc : ∀ A U d o, vuniv A U → vnewop A U d o → vuniv A (U ++ [o]);
  vnewop_tag : ∀ A U d o, vnewop A U d o → vtag d o;
}.
Global Arguments vspec {_ _ _ _} _ _.
Global Arguments vodot {_ _ _ _} _ _.
Global Arguments vtag {_ _ _ _} _ _ _.
Global Arguments vuniv {_ _ _ _} _ _ _.
Global Arguments vnewop {_ _ _ _} _ _ _ _ _.
Global Arguments vspec_nil {_ _ _ _} _.
Global Arguments vspec_ext {_ _ _ _} _ _ _ _.
Global Arguments vtag_dot {_ _ _ _} _ _ _ _ _ _.
Global Arguments vuniv_tag {_ _ _ _} _ _ _ _ _ _.
Global Arguments vuniv_dots {_ _ _ _} _ _ _ _.
Global Arguments vuniv_mono {_ _ _ _} _ _ _ _ _ _.
Global Arguments vapply_fresh {_ _ _ _} _ _ _ _ _ _ _.
Global Arguments vmerge_spec {_ _ _ _} _ _ _ _ _ _ _ _.
Global Arguments vreset_inert {_ _ _ _} _ _ _ _ _ _ _ _.
Global Arguments vuniv_nil {_ _ _ _} _ _.
Global Arguments vuniv_snoc {_ _ _ _} _ _ _ _ _ _ _.
Global Arguments vnewop_tag {_ _ _ _} _ _ _ _ _ _.

(** * Part 2: the functor *)

(** the dot of a map op, the nested ops addressed to a key *)
Definition mdot {O} (o : mop O) : option dot := match o with MUp d _ _ => Some d | MRm _ _ => None end.
Definition mproj {O} (os : list (mop O)) (k : N) : list O :=
  omap (λ o, match o with MUp _ k' o' => if bool_decide (k' = k) then Some o' else None | MRm _ _ => None end) os.

Section proj.
  Context {O : Type}.
  Implicit Types (os U : list (mop O)) (k : N) (d : dot).
  Lemma elem_of_mproj os k o : o ∈ mproj os k ↔ ∃ d, MUp d k o ∈ os.
  Proof.
    unfold mproj. rewrite elem_of_list_omap. split.
    - intros ([c ks|d k' o'] & Hin & Hb); [done|]. case_bool_decide; [|done]. simplify_eq. by exists d.
    - intros (d & Hin). exists (MUp d k o). split; [done|]. by rewrite bool_decide_eq_true_2.
  Qed.
  Lemma mproj_app os1 os2 k : mproj (os1 ++ os2) k = mproj os1 k ++ mproj os2 k.
  Proof. unfold mproj. by rewrite omap_app. Qed.
  Lemma mproj_absent os k : k ∉ mkeys_mentioned os → mproj os k = [].
  Proof.
    intros Hn. apply list_no_elem_nil. intros o [d Ho]%elem_of_mproj. apply Hn, g_mentioned. by exists d, o.
  Qed.
  Lemma mproj_snoc_eq os d k o : mproj (os ++ [MUp d k o]) k = mproj os k ++ [o].
  Proof. rewrite mproj_app. cbn. by rewrite bool_decide_eq_true_2. Qed.
  Lemma mproj_snoc_ne os d k o k' : k' ≠ k → mproj (os ++ [MUp d k o]) k' = mproj os k'.
  Proof. intros Hne. rewrite mproj_app. cbn. rewrite bool_decide_eq_false_2 by done. cbn. by rewrite app_nil_r. Qed.

  (** [sside mdot] is the [gside] of proofs/MapMapOrswotNK.v, Part 0 *)
  Lemma mside_gside U os : sside mdot U os ↔ gside U os.
  Proof.
    unfold sside, gside. split; intros [H1 H2]; (split; [done|]).
    - intros d k o Hin Hle. by apply (H2 (MUp d k o) d).
    - intros [c ks|d' k o'] d Hin Hd Hle; [done|]. injection Hd as ->. by apply H2.
  Qed.
  Lemma gside_app U os1 os2 : gside U os1 → gside U os2 → gside U (os1 ++ os2).
  Proof. rewrite <- !mside_gside. apply sside_app. Qed.
  Lemma gclk_dclk U k x : gclk U k x → dclk mdot U x.
  Proof. intros Hx a Ha. destruct (Hx a Ha) as [o Ho]. by exists (MUp (Dot a (vget x a)) k o). Qed.

  (** the dots of the updates of key [k]: the ambient dot set of the nested universe under [k];
      [aclk (kdom U k)] is (by conversion) the [gclk U k] of proofs/MapMapOrswotNK.v *)
  Definition kdom U k : dot → Prop := λ d, ∃ o, MUp d k o ∈ U.
  Lemma kdom_mono U U' k d : (∀ o, o ∈ U → o ∈ U') → kdom U k d → kdom U' k d.
  Proof. intros Hs [o Ho]. exists o. by apply Hs. Qed.
  Lemma kdom_app_l U U' k d : kdom U k d → kdom (U ++ U') k d.
  Proof. apply kdom_mono. intros o ?. apply elem_of_app. by left. Qed.
  Lemma kdom_snoc U d k o : kdom (U ++ [MUp d k o]) k d.
  Proof. exists o. apply elem_of_app. right. by apply elem_of_list_singleton. Qed.
  Lemma aclk_kdom U k x : aclk (kdom U k) x ↔ gclk U k x.
  Proof. done. Qed.
End proj.

Section functor.
  Context {V O E : Type} {vo : valops V O E} (X : sparse_ref vo).
  Implicit Types (os U : list (mop O)) (k : N) (d : dot).

  (** an update carries a nested op tagged with the update's dot; no key removes *)
  Definition mtag d (o : mop O) : Prop :=
    match o with MUp d' _ o' => d' = d ∧ vtag X d o' | MRm _ _ => False end.
  Definition mtagged os : Prop := ∀ o, o ∈ os → ∃ d, mtag d o.

  Definition mspec_nk_of os : cmap V :=
    CMap (mspec_clock os)
         (fn_map (list_to_set (mkeys_mentioned os))
                 (λ k, Some (MEntry (mspec_entry_clock os k) (vspec X (mproj os k)))))
         ∅.
  (** universes: shape, non-zero dots, and under every key a universe of the nested type *)
  Definition muniv (A : dot → Prop) U : Prop :=
    mtagged U ∧ (∀ d k o, MUp d k o ∈ U → 0 < dcounter d ∧ A d) ∧ ∀ k, vuniv X (kdom U k) (mproj U k).
  Definition mnewop (A : dot → Prop) U d (o : mop O) : Prop :=
    match o with
    | MUp d' k o' => d' = d ∧ 0 < dcounter d ∧ A d ∧ vnewop X (kdom (U ++ [o]) k) (mproj U k) d o'
    | MRm _ _ => False
    end.

  Local Notation S := mspec_nk_of.
  Definition ment os k : mentry V := MEntry (mspec_entry_clock os k) (vspec X (mproj os k)).

  Lemma mtagged_app os1 os2 : mtagged (os1 ++ os2) ↔ mtagged os1 ∧ mtagged os2.
  Proof.
    unfold mtagged. setoid_rewrite elem_of_app. split.
    - intros H. split; intros o Ho; apply H; tauto.
    - intros [H1 H2] o [?|?]; [by apply H1|by apply H2].
  Qed.
  Lemma mtagged_up os d k o : mtagged os → MUp d k o ∈ os → vtag X d o.
  Proof. intros Hs Hin. destruct (Hs _ Hin) as [d' [-> Ht]]. done. Qed.
  Lemma mtagged_norm os : mtagged os → g_norm os.
  Proof. intros Hs c ks Hin. by destruct (Hs _ Hin) as [d' ?]. Qed.
  Lemma mproj_tagged os k : mtagged os → ∀ x, x ∈ mproj os k → ∃ d, vtag X d x.
  Proof. intros Hs x [d Hin]%elem_of_mproj. exists d. by eapply mtagged_up. Qed.
  (** a dot-carrying nested op addressed to [k] comes from an update with the same dot *)
  Lemma mproj_up os k d o : mtagged os → o ∈ mproj os k → vodot X o = Some d → MUp d k o ∈ os.
  Proof.
    intros Hs [d0 Hin]%elem_of_mproj Hd. pose proof (mtagged_up os d0 k o Hs Hin) as Ht.
    by rewrite (vtag_dot X d0 d o Ht Hd).
  Qed.

  (** the nested clock is below the entry clock (which is below the map clock) *)
  Lemma minner_clock_le os k a : mtagged os →
    vget (sclk (vodot X) (mproj os k)) a <= vget (mspec_entry_clock os k) a.
  Proof.
    intros Hs. unfold sclk. rewrite g_entry_clock, !dots_clock_get by (by apply mtagged_norm).
    apply max_ctr_le_iff. intros d Hd Ha. apply max_ctr_ge; [|done].
    apply elem_of_sdots in Hd as (o & Ho & Hd). apply elem_of_gkdots. exists o. by apply mproj_up.
  Qed.

  Lemma mentries_lookup os k :
    mentries (S os) !! k = if decide (k ∈ mkeys_mentioned os) then Some (ment os k) else None.
  Proof.
    cbn [mentries mspec_nk_of]. rewrite fn_map_lookup.
    destruct (decide (k ∈ list_to_set _)) as [Hin|Hin]; rewrite elem_of_list_to_set in Hin.
    - by rewrite decide_True.
    - by rewrite decide_False.
  Qed.
  Lemma ment_absent os k : k ∉ mkeys_mentioned os → ment os k = MEntry ∅ (v_default vo).
  Proof. intros Hn. unfold ment. by rewrite g_absent_entry_clock, mproj_absent, (vspec_nil X). Qed.
  Lemma mentries_default os k :
    default (MEntry ∅ (v_default vo)) (mentries (S os) !! k) = ment os k.
  Proof.
    rewrite mentries_lookup. destruct (decide _) as [Hin|Hin]; [done|].
    cbn [default]. by rewrite ment_absent.
  Qed.
  (** the nested value the closure of [Map::update] receives at a specification state *)
  Lemma mspec_nested os k :
    default (v_default vo) (eval <$> mentries (S os) !! k) = vspec X (mproj os k).
  Proof.
    rewrite mentries_lookup. destruct (decide _) as [Hin|Hin]; [done|].
    cbn. by rewrite (mproj_absent os k Hin), (vspec_nil X).
  Qed.

  Lemma mspec_nil : S [] = v_default (map_valops vo).
  Proof.
    apply cmap_eq3; cbn [mclock mentries mdeferred mspec_nk_of v_default map_valops mnew]; [|..|done].
    - unfold mspec_clock. cbn. apply dots_clock_nil.
    - apply map_eq. intros k. change (fn_map _ _) with (mentries (S [])). rewrite mentries_lookup.
      rewrite decide_False by (cbn; apply not_elem_of_nil). by rewrite lookup_empty.
  Qed.

  (** the specification depends only on the SET of known ops *)
  Lemma mspec_ext os os' : (∀ o, o ∈ os ↔ o ∈ os') → S os = S os'.
  Proof.
    intros H.
    assert (mspec_clock os = mspec_clock os') as Hc.
    { apply dots_clock_ext. intros d. rewrite !elem_of_mall_dots. by setoid_rewrite H. }
    assert (∀ k, ment os k = ment os' k) as He.
    { intros k. unfold ment. f_equal.
      - apply dots_clock_ext. intros d. rewrite !elem_of_mlive_dots. by setoid_rewrite H.
      - apply (vspec_ext X). intros o. rewrite !elem_of_mproj. by setoid_rewrite H. }
    apply cmap_eq3; [done| |done].
    apply map_eq. intros k. rewrite !mentries_lookup, He.
    destruct (decide (k ∈ mkeys_mentioned os)) as [Hin|Hin], (decide (k ∈ mkeys_mentioned os')) as [Hin'|Hin']; try done.
    - destruct Hin'. apply g_mentioned in Hin as (d & o & Ho). apply g_mentioned. exists d, o. by apply H.
    - destruct Hin. apply g_mentioned in Hin' as (d & o & Ho). apply g_mentioned. exists d, o. by apply H.
  Qed.

  Lemma mtag_dot d d' (o : mop O) : mtag d o → mdot o = Some d' → d' = d.
  Proof. destruct o as [c ks|d0 k o']; [done|]. intros [-> _] [= ->]. done. Qed.

  (** ** L1 on op lists *)
  Lemma mapply_fresh os d o :
    mtagged os → mtag d o → vget (sclk mdot os) (dactor d) < dcounter d →
    mapply vo (S os) o = S (os ++ [o]).
  Proof.
    intros Hs Hop Hfresh. destruct o as [c ks|d' k o]; [done|]. destruct Hop as [-> Hop].
    change (sclk mdot os) with (mspec_clock os) in Hfresh.
    assert (mtagged (os ++ [MUp d k o])) as Hs'.
    { apply mtagged_app. split; [done|]. intros x ->%elem_of_list_singleton. by exists d. }
    pose proof (mtagged_norm _ Hs) as Hn. pose proof (mtagged_norm _ Hs') as Hn'.
    rewrite mapply_up_fresh by done. rewrite mapply_deferred_empty by done.
    rewrite mentries_default. cbn [eclock eval ment].
    apply cmap_eq3; cbn [mclock mentries mdeferred]; [| |done].
    - unfold mspec_nk_of. cbn [mclock]. unfold mspec_clock. rewrite g_mall_dots_app. cbn. rewrite dots_clock_snoc; [done|lia].
    - apply map_eq. intros k'.
      rewrite (mentries_lookup (os ++ _)), g_mentioned_app. cbn [mkeys_mentioned omap list_omap].
      destruct (decide (k' = k)) as [->|Hne].
      + rewrite lookup_insert, decide_True by (rewrite elem_of_app, elem_of_list_singleton; by right).
        f_equal. unfold ment. f_equal.
        * rewrite !g_entry_clock, gkdots_app by done. cbn. rewrite bool_decide_eq_true_2 by done.
          cbn. rewrite dots_clock_snoc; [done|lia].
        * rewrite mproj_snoc_eq. apply (vapply_fresh X _ d); [by apply mproj_tagged|done|].
          pose proof (minner_clock_le os k (dactor d) Hs). pose proof (g_entry_clock_le os k (dactor d)). lia.
      + rewrite lookup_insert_ne by done. rewrite mentries_lookup.
        assert (ment (os ++ [MUp d k o]) k' = ment os k') as ->.
        { unfold ment. f_equal.
          - rewrite !g_entry_clock, gkdots_app by done. cbn. rewrite bool_decide_eq_false_2 by done.
            cbn. by rewrite app_nil_r.
          - by rewrite mproj_snoc_ne. }
        destruct (decide (k' ∈ mkeys_mentioned os)) as [Hin|Hin].
        * rewrite decide_True; [done|]. rewrite elem_of_app. by left.
        * rewrite decide_False; [done|]. rewrite elem_of_app, elem_of_list_singleton. intros [?|?]; congruence.
  Qed.

  (** a known update is absorbed (the dedup gate of [Map::apply]; no shape condition needed) *)
  Lemma mapply_known os d k o : MUp d k o ∈ os → mapply vo (S os) (MUp d k o) = S os.
  Proof.
    intros Hin. apply mapply_dedup. cbn [mclock mspec_nk_of]. unfold mspec_clock. rewrite dots_clock_get.
    apply max_ctr_ge; [|done]. apply elem_of_mall_dots. by exists k, o.
  Qed.

  (** ** L2 on op lists *)
  Section merge.
    Context (A : dot → Prop) (U : list (mop O)) (HU : muniv A U).
    Lemma mu_norm : g_norm U.
    Proof using HU. apply mtagged_norm, HU. Qed.
    Lemma mu_pos : ∀ d k (o : O), MUp d k o ∈ U → 0 < dcounter d.
    Proof using HU. intros d k o Hin. by destruct (proj1 (proj2 HU) d k o Hin). Qed.
    Lemma mu_dots : dots_in mdot A U.
    Proof using HU. intros [c ks|d' k o] d Hin [= <-]. by destruct (proj1 (proj2 HU) d' k o Hin). Qed.
    Lemma gclk_aclk k x : gclk U k x → aclk A x.
    Proof using HU. intros Hx. eapply dclk_aclk; [apply mu_dots|by eapply gclk_dclk]. Qed.
    Lemma mside_tagged os : gside U os → mtagged os.
    Proof using HU. intros [Hsub _] o Ho. destruct HU as (Hs & _). by apply Hs, Hsub. Qed.

    (** the projected knowledge is a side of the projected universe *)
    Lemma mside_proj os k : gside U os → sside (vodot X) (mproj U k) (mproj os k).
    Proof using HU.
      intros HS. pose proof (mside_tagged os HS) as Hs. destruct HS as [Hsub Hseen]. destruct HU as (HsU & _).
      split.
      - intros o [d Ho]%elem_of_mproj. apply elem_of_mproj. exists d. by apply Hsub.
      - intros o d Hin Hd Hle. pose proof (mproj_up U k d o HsU Hin Hd) as HinU.
        apply elem_of_mproj. exists d. apply Hseen; [done|].
        pose proof (minner_clock_le os k (dactor d) Hs). pose proof (g_entry_clock_le os k (dactor d)). lia.
    Qed.
    (** a clock made of dots of nested ops under [k] is made of dots of updates of [k] *)
    Lemma dclk_gclk k x : dclk (vodot X) (mproj U k) x → gclk U k x.
    Proof using HU.
      intros Hx a Ha. destruct (Hx a Ha) as (o & Ho & Hd). exists o. apply mproj_up; [apply HU|done..].
    Qed.

    (** a clock that is inert on every clock made of dots of [k] leaves the nested value under [k] alone *)
    Lemma minner_reset_inert os k r : gside U os →
      (∀ x, gclk U k x → inert x r) → v_reset vo (vspec X (mproj os k)) r = vspec X (mproj os k).
    Proof using HU.
      intros HS Hr. apply (vreset_inert X (kdom U k) (mproj U k)); [apply HU|by apply mside_proj|].
      intros x Hx. by apply Hr.
    Qed.

    Theorem mmerge_nk os1 os2 : gside U os1 → gside U os2 →
      mmerge vo (S os1) (S os2) = S (os1 ++ os2).
    Proof using HU.
      intros HS1 HS2. pose proof (mside_tagged os1 HS1) as Hs1. pose proof (mside_tagged os2 HS2) as Hs2.
      assert (mtagged (os1 ++ os2)) as Hs by (by apply mtagged_app).
      pose proof (mtagged_norm _ Hs1) as Hn1. pose proof (mtagged_norm _ Hs2) as Hn2. pose proof (mtagged_norm _ Hs) as Hn.
      rewrite mmerge_unfold. cbn zeta.
      change (mdeferred (S os2)) with (∅ : gmap (gmap N N) (gset N)).
      unfold mfold at 1 2. rewrite map_fold_empty. cbn [mclock mentries mdeferred].
      rewrite mapply_deferred_empty by done.
      apply cmap_eq3; cbn [mclock mentries mdeferred]; [| |done].
      - unfold mspec_nk_of. cbn [mclock]. by rewrite g_clock_app.
      - change (mclock (S os1)) with (mspec_clock os1). change (mclock (S os2)) with (mspec_clock os2).
        apply map_eq. intros k. rewrite mmerge_entries_lookup, !mentries_lookup, g_mentioned_app.
        assert (ment (os1 ++ os2) k =
                MEntry (vmerge (mspec_entry_clock os1 k) (mspec_entry_clock os2 k))
                       (vspec X (mproj os1 k ++ mproj os2 k))) as He.
        { unfold ment. by rewrite !g_entry_clock, gkdots_app, dots_clock_app, mproj_app by done. }
        destruct (decide (k ∈ mkeys_mentioned os1)) as [H1|H1], (decide (k ∈ mkeys_mentioned os2)) as [H2|H2].
        + rewrite decide_True by (rewrite elem_of_app; by left).
          cbn [mmerge_entry ment eclock eval]. rewrite (g_common U mu_norm mu_pos os1 os2 k HS1 HS2).
          assert (vwf (mspec_entry_clock os1 k)) as Hw1 by apply dots_clock_wf.
          assert (vwf (mspec_entry_clock os2 k)) as Hw2 by apply dots_clock_wf.
          destruct (vis_empty _) eqn:Ee.
          { apply vis_empty_spec in Ee. destruct (g_entry_clock_pos U mu_norm mu_pos os1 k HS1 H1) as [a Ha].
            assert (vget (vmerge (mspec_entry_clock os1 k) (mspec_entry_clock os2 k)) a = 0) as Hz by (by rewrite Ee, vget_empty).
            rewrite vmerge_get in Hz. lia. }
          rewrite He. f_equal. f_equal.
          rewrite (vmerge_comm (mspec_entry_clock os2 k)), vreset_self by done.
          rewrite (vmerge_spec X (kdom U k) (mproj U k) (mproj os1 k) (mproj os2 k) (proj2 (proj2 HU) k)
                     (mside_proj os1 k HS1) (mside_proj os2 k HS2)).
          rewrite <- mproj_app. apply minner_reset_inert; [by apply gside_app|].
          intros x _. apply inert_empty_r.
        + rewrite decide_True by (rewrite elem_of_app; by left).
          cbn [mmerge_entry ment eclock eval].
          destruct (g_one_side U mu_norm mu_pos os1 os2 k HS1 HS2 H1 H2) as (-> & -> & Hr).
          rewrite (minner_reset_inert os1 k _ HS1 Hr), He.
          rewrite (g_absent_entry_clock os2 k H2), (mproj_absent os2 k H2), vmerge_empty_r, app_nil_r. done.
        + rewrite decide_True by (rewrite elem_of_app; by right).
          cbn [mmerge_entry ment eclock eval].
          destruct (g_one_side U mu_norm mu_pos os2 os1 k HS2 HS1 H2 H1) as (-> & -> & Hr).
          rewrite (minner_reset_inert os2 k _ HS2 Hr), He.
          rewrite (g_absent_entry_clock os1 k H1), (mproj_absent os1 k H1), vmerge_empty_l by apply dots_clock_wf. done.
        + rewrite decide_False by (rewrite elem_of_app; tauto). done.
    Qed.

    (** [reset_remove] of a specification state by a clock that covers no dot of the ambient set *)
    Theorem mreset_nk_inert os r : gside U os → (∀ x, aclk A x → inert x r) →
      mreset vo (S os) r = S os.
    Proof using HU.
      intros HS Hr. unfold mreset. apply cmap_eq3; cbn [mclock mentries mdeferred mspec_nk_of].
      - apply inert_vreset_id; [apply dots_clock_wf|]. apply Hr.
        apply (dclk_aclk mdot A U); [apply mu_dots|]. apply (dclk_sclk mdot U os). by apply mside_gside.
      - apply map_eq. intros k. rewrite map_lookup_imap.
        change (fn_map _ _) with (mentries (S os)). rewrite mentries_lookup.
        destruct (decide _) as [Hin|Hin]; [|done]. cbn [mbind option_bind ment eclock eval].
        pose proof (gclk_entry_clock U mu_norm mu_pos os k HS) as Hek.
        rewrite (inert_vreset_id _ r) by (apply dots_clock_wf || by eapply Hr, gclk_aclk).
        rewrite (proj2 (vis_empty_false _) (g_entry_clock_ne U mu_norm mu_pos os k HS Hin)).
        rewrite minner_reset_inert; [done|done|]. intros x Hx. by eapply Hr, gclk_aclk.
      - apply mreset_empty_deferred.
    Qed.
  End merge.

  Lemma muniv_nil A : muniv A [].
  Proof.
    split_and!; [by intros ? ?%elem_of_nil|by intros ??? ?%elem_of_nil|intros k; apply (vuniv_nil X)].
  Qed.
  Lemma muniv_mono (A A' : dot → Prop) U : (∀ d, A d → A' d) → muniv A U → muniv A' U.
  Proof.
    intros HA (Hs & Hp & Hk). split_and!; [done| |done].
    intros d k o Hin. destruct (Hp d k o Hin). split; [done|by apply HA].
  Qed.
  Lemma mnewop_tag A U d o : mnewop A U d o → mtag d o.
  Proof. destruct o as [c ks|d' k o']; [done|]. intros (-> & _ & _ & Hn). split; [done|]. by eapply vnewop_tag. Qed.
  (** introduction rule, one level at a time *)
  Lemma mnewop_up (A : dot → Prop) U d k o' : 0 < dcounter d → A d →
    vnewop X (kdom (U ++ [MUp d k o']) k) (mproj U k) d o' → mnewop A U d (MUp d k o').
  Proof. by intros ???. Qed.
  Lemma muniv_snoc A U d o : muniv A U → mnewop A U d o → muniv A (U ++ [o]).
  Proof.
    intros (Hs & Hp & Hk) Hn. pose proof (mnewop_tag A U d o Hn) as Ht.
    destruct o as [c ks|d' k o']; [done|]. destruct Hn as (-> & Hd & HA & Hn).
    split_and!.
    - apply mtagged_app. split; [done|]. intros x ->%elem_of_list_singleton. by exists d.
    - intros d' k' o [Hin|Hin%elem_of_list_singleton]%elem_of_app; [by eapply Hp|]. by simplify_eq.
    - intros k'. destruct (decide (k' = k)) as [->|Hne].
      + rewrite mproj_snoc_eq. apply (vuniv_snoc X _ _ d); [|done].
        eapply (vuniv_mono X); [|apply Hk]. intros ?. apply kdom_app_l.
      + rewrite mproj_snoc_ne by done. eapply (vuniv_mono X); [|apply Hk]. intros ?. apply kdom_app_l.
  Qed.

  (** ** the functor theorem: [map_valops vo] has the structure whenever [vo] has it *)
  Definition map_sr : sparse_ref (map_valops vo).
  Proof.
    refine (SparseRef _ _ _ (map_valops vo) mspec_nk_of mdot mtag muniv mnewop
              mspec_nil mspec_ext mtag_dot _ mu_dots muniv_mono mapply_fresh _ _ muniv_nil muniv_snoc mnewop_tag).
    - intros A U o HU Hin. by apply HU.
    - intros A U os1 os2 HU HS1%mside_gside HS2%mside_gside. by apply (mmerge_nk A U HU).
    - intros A U os r HU HS%mside_gside Hr. by apply (mreset_nk_inert A U HU).
  Defined.
End functor.
Global Arguments map_sr {_ _ _ _} _.

(** * Part 3: the base instance: [Orswot] *)
Definition odot (o : oop) : option dot := match o with OAdd d _ => Some d | ORm _ _ => None end.
Definition otag (d : dot) (o : oop) : Prop := match o with OAdd d' _ => d' = d | ORm c _ => vwf c end.
(** remove contexts store no zero and are made of ambient dots; add dots are non-zero ambient dots *)
Definition ouniv (A : dot → Prop) (P : list oop) : Prop :=
  (∀ c ms, ORm c ms ∈ P → vwf c ∧ aclk A c) ∧ (∀ d ms, OAdd d ms ∈ P → 0 < dcounter d ∧ A d).
Definition onewop (A : dot → Prop) (P : list oop) (d : dot) (o : oop) : Prop :=
  match o with OAdd d' _ => d' = d ∧ 0 < dcounter d ∧ A d | ORm c _ => vwf c ∧ aclk A c end.

Lemma elem_of_osdots p d : d ∈ sdots odot p ↔ ∃ ms, OAdd d ms ∈ p.
Proof.
  rewrite elem_of_sdots. split.
  - intros ([d' ms|c ms] & Hin & Hd); [|done]. injection Hd as ->. by exists ms.
  - intros [ms Hin]. by exists (OAdd d ms).
Qed.
Lemma osclk p : sclk odot p = ospec_clock p.
Proof. apply dots_clock_ext. intros d. by rewrite elem_of_osdots, elem_of_add_dots. Qed.

Lemma ouniv_dots A U : ouniv A U → dots_in odot A U.
Proof. intros [_ HU] [d' ms|c ms] d Hin [= <-]. by destruct (HU d' ms Hin). Qed.
Lemma oside_sp_side A U p : ouniv A U → sside odot U p → sp_side U p.
Proof.
  intros [HU _] [Hsub Hseen]. split_and!; [done| |].
  - intros c ms Hin. by destruct (HU c ms (Hsub _ Hin)).
  - intros d ms Hin Hle. apply (Hseen _ d); [done..|]. by rewrite osclk.
Qed.
(** the clocks of the Orswot specification of a side are made of add dots of the universe *)
Lemma odclk_clock U p : sside odot U p → dclk odot U (ospec_clock p).
Proof. intros HS. rewrite <- osclk. by apply dclk_sclk. Qed.
Lemma odclk_entry U p m : sside odot U p → dclk odot U (ospec_entry p m).
Proof.
  intros HS a. rewrite ospec_entry_get. intros Hp.
  destruct (max_ctr_witness (live_dots p m) a) as [?|([a' n] & Hin & Ha & Hc)]; [lia|].
  cbn in Ha, Hc. subst a'. rewrite <- Hc.
  apply elem_of_live_dots in Hin as [(ms & Hin & _) _]. exists (OAdd (Dot a n) ms). split; [by apply HS|done].
Qed.

Lemma oapply_fresh_sr os d o : (∀ x, x ∈ os → ∃ d', otag d' x) → otag d o →
  vget (sclk odot os) (dactor d) < dcounter d → oapply (ospec_of os) o = ospec_of (os ++ [o]).
Proof.
  intros Hs Hop Hfresh. rewrite osclk in Hfresh.
  assert (∀ x, x ∈ os ++ [o] ↔ x ∈ os ∨ x = o) as Hos'.
  { intros x. by rewrite elem_of_app, elem_of_list_singleton. }
  destruct o as [d' ms|c ms].
  - cbn in Hop. subst d'. apply (oapply_spec_add os (os ++ [OAdd d ms]) d ms Hos'); [done|].
    intros c ms' Hin. by destruct (Hs _ Hin) as [d' Ht].
  - by apply (oapply_spec_rm os (os ++ [ORm c ms]) c ms Hos').
Qed.
Lemma omerge_sr A U os1 os2 : ouniv A U → sside odot U os1 → sside odot U os2 →
  omerge (ospec_of os1) (ospec_of os2) = ospec_of (os1 ++ os2).
Proof.
  intros HU HS1 HS2. apply (sparse_L2 U os1 os2); [|by eapply oside_sp_side..].
  intros d ms Hin. by destruct (proj2 HU d ms Hin).
Qed.
Lemma oreset_inert_sr A U os r : ouniv A U → sside odot U os → (∀ x, aclk A x → inert x r) →
  oreset (ospec_of os) r = ospec_of os.
Proof.
  intros HU HS Hr. pose proof (ouniv_dots A U HU) as HA. apply ospec_oreset_inert.
  - intros c ms Hin. by destruct (proj1 HU c ms (proj1 HS _ Hin)).
  - by eapply Hr, dclk_aclk, odclk_clock.
  - intros m. by eapply Hr, dclk_aclk, odclk_entry.
  - intros c ms Hin. apply Hr. by destruct (proj1 HU c ms (proj1 HS _ Hin)).
Qed.
Lemma ouniv_mono (A A' : dot → Prop) U : (∀ d, A d → A' d) → ouniv A U → ouniv A' U.
Proof.
  intros HA [Hr Ha]. split.
  - intros c ms Hin. destruct (Hr c ms Hin). split; [done|by eapply aclk_mono].
  - intros d ms Hin. destruct (Ha d ms Hin). split; [done|by apply HA].
Qed.
Lemma ouniv_snoc A U d o : ouniv A U → onewop A U d o → ouniv A (U ++ [o]).
Proof.
  intros [Hr Ha] Hn. split.
  - intros c ms [Hin|Hin%elem_of_list_singleton]%elem_of_app; [by apply (Hr c ms)|].
    subst o. exact Hn.
  - intros d' ms [Hin|Hin%elem_of_list_singleton]%elem_of_app; [by eapply Ha|].
    subst o. by destruct Hn as [-> ?].
Qed.

Definition orswot_sr : sparse_ref orswot_valops.
Proof.
  refine (SparseRef _ _ _ orswot_valops ospec_of odot otag ouniv onewop
            ospec_of_nil ospec_of_ext _ _ ouniv_dots ouniv_mono oapply_fresh_sr omerge_sr oreset_inert_sr _ ouniv_snoc _).
  - intros d d' [d0 ms|c ms]; [|done]. cbn. by intros -> [= ->].
  - intros A U [d ms|c ms] [HU _] Hin; [by exists d|]. exists (Dot 0 0). cbn. by destruct (HU c ms Hin).
  - intros A. split; [by intros ?? ?%elem_of_nil|by intros ?? ?%elem_of_nil].
  - intros A U d [d' ms|c ms]; cbn; [by intros [-> _]|by intros [? _]].
Defined.

(** * Part 4: the reach level, for every depth at once *)
Section reach.
  Context {V O E : Type} {vo : valops V O E} (X : sparse_ref vo).
  (** an abstract command interpreter: a restriction of the API of [Map] ... *)
  Context {Cmd : Type} (gen : cmap V → N → Cmd → option (mop O)) (tocmd : Cmd → mcmd V O).
  Hypothesis gen_mgen : ∀ s a c o, gen s a c = Some o → mgen vo s a (tocmd c) = Some o.
  (** ... whose op at the specification state of a side of a universe is a new op of the universe *)
  Hypothesis gen_new : ∀ U os a c o, muniv X (λ _, True) U → gside U os →
    gen (mspec_nk_of X os) a c = Some o → ∃ d, mnewop X (λ _, True) U d o.

  Local Notation S := (mspec_nk_of X).
  Local Notation mreach := (reach mnew (mapply vo) (mmerge vo) adm_per_actor True).
  Local Notation mhist := (hist_ok mnew (mapply vo) (mmerge vo) gen adm_per_actor True).
  Definition sr_spec (H : list (oprec (mop O))) (K : gset nat) : cmap V := S (known_ops H K).
  Definition sr_hops (H : list (oprec (mop O))) : list (mop O) := op_val <$> H.
  Definition sr_wfH (H : list (oprec (mop O))) : Prop := owfH (habs H) ∧ muniv X (λ _, True) (sr_hops H).
  Definition sr_valid (H : list (oprec (mop O))) (K : gset nat) : Prop := ovalid (habs H) K.

  Lemma elem_of_sr_hops H o : o ∈ sr_hops H ↔ ∃ i r, H !! i = Some r ∧ op_val r = o.
  Proof.
    unfold sr_hops. rewrite elem_of_list_fmap. split.
    - intros (r & -> & [i Hi]%elem_of_list_lookup). by exists i, r.
    - intros (i & r & Hi & <-). exists r. split; [done|]. by eapply elem_of_list_lookup_2.
  Qed.
  Lemma sr_hops_app H H' : sr_hops (H ++ H') = sr_hops H ++ sr_hops H'.
  Proof. unfold sr_hops. by rewrite fmap_app. Qed.
  Lemma sr_habs_up_lookup (H : list (oprec (mop O))) i r d k o : H !! i = Some r → op_val r = MUp d k o →
    habs H !! i = Some (OpRec (op_author r) (OAdd d [k]) (op_deps r)).
  Proof. intros Hi Ho. unfold habs. rewrite (hmap_lookup_Some oabs H i r Hi). by rewrite Ho. Qed.
  Lemma sr_seen H K i r d k o : owfH (habs H) → sr_valid H K → H !! i = Some r → op_val r = MUp d k o →
    dcounter d <= vget (mspec_clock (known_ops H K)) (dactor d) → i ∈ K.
  Proof.
    intros HH HK Hi Ho Hle.
    assert (mspec_clock (known_ops H K) = ospec_clock (known_ops (habs H) K)) as Ecl
      by (by rewrite known_ops_habs, mspec_clock_abs).
    rewrite Ecl in Hle.
    exact (seen (habs H) K i _ d [k] HH HK (sr_habs_up_lookup H i r d k o Hi Ho) eq_refl Hle).
  Qed.
  Lemma sr_side_known H K : owfH (habs H) → sr_valid H K → gside (sr_hops H) (known_ops H K).
  Proof.
    intros HH HK. split.
    - intros o (i & r & Hi & _ & Ho)%elem_of_known_ops. apply elem_of_sr_hops. by exists i, r.
    - intros d k o (i & r & Hi & Ho)%elem_of_sr_hops Hle. apply elem_of_known_ops. exists i, r.
      split_and!; [done| |done]. by eapply sr_seen.
  Qed.
  Lemma sr_spec_init H : sr_spec H ∅ = mnew.
  Proof. unfold sr_spec. rewrite known_ops_empty. apply (mspec_nil X). Qed.

  (** ** L1 and L2 of the framework *)
  Theorem sr_L1 H K i r : sr_wfH H → sr_valid H K → H !! i = Some r →
    mapply vo (sr_spec H K) (op_val r) = sr_spec H (K ∪ {[i]}).
  Proof.
    intros [HH HU] HK Hi. unfold sr_spec.
    assert (op_val r ∈ sr_hops H) as Hin by (apply elem_of_sr_hops; by exists i, r).
    destruct (proj1 HU _ Hin) as [d0 Hop].
    destruct (op_val r) as [c ks|d k o] eqn:Ho; [done|]. destruct Hop as [Hd Hop]; subst d0.
    destruct (N.le_gt_cases (dcounter d) (vget (mspec_clock (known_ops H K)) (dactor d))) as [Hle|Hgt].
    - assert (i ∈ K) as HiK by (by eapply sr_seen).
      assert (K ∪ {[i]} = K) as -> by set_solver.
      by apply mapply_dedup.
    - rewrite (mapply_fresh X _ d); [| |by split|done].
      + apply mspec_ext. intros x. rewrite (known_ops_add_elem H K i r x Hi), Ho.
        by rewrite elem_of_app, elem_of_list_singleton.
      + by apply (mside_tagged X _ (sr_hops H) HU), sr_side_known.
  Qed.
  Theorem sr_L2 H K1 K2 : sr_wfH H → sr_valid H K1 → sr_valid H K2 →
    mmerge vo (sr_spec H K1) (sr_spec H K2) = sr_spec H (K1 ∪ K2).
  Proof.
    intros [HH HU] HK1 HK2. unfold sr_spec.
    rewrite (mmerge_nk X _ (sr_hops H) HU) by (by apply sr_side_known).
    apply mspec_ext. intros o. rewrite elem_of_app. symmetry. apply known_ops_union_elem.
  Qed.

  Theorem sr_reach_spec H s K : sr_wfH H → mreach H s K → s = sr_spec H K ∧ sr_valid H K.
  Proof.
    intros HH Hr.
    refine (reach_spec eq mnew (mapply vo) (mmerge vo) adm_per_actor True sr_spec sr_wfH sr_valid
              _ _ _ _ _ _ _ _ H s K HH Hr).
    - by intros ??? ->.
    - by intros ???? -> ->.
    - intros H'. by rewrite sr_spec_init.
    - intros H'. apply ovalid_empty.
    - intros H' K' i [HH' _] HK' Ha. apply ovalid_step; [done..|]. by apply adm_per_actor_hmap.
    - intros H' K1 K2. apply ovalid_union.
    - intros H' K' i o HH' HK' _ Hi. by apply sr_L1.
    - intros H' K1 K2 _. apply sr_L2.
  Qed.

  (** ** generated histories are well-formed *)
  Lemma sr_hist_maphist H : mhist H → maphist_ok vo H.
  Proof using gen_mgen.
    induction 1 as [|H s K a cmd o Hok IH Hr Hown Hgen]; [constructor|].
    by apply (hist_snoc _ _ _ _ _ _ H s K a (tocmd cmd) o); [done|done|done|apply gen_mgen].
  Qed.
  Theorem sr_hist_wf H : mhist H → sr_wfH H.
  Proof using gen_mgen gen_new.
    intros Hok. split; [by apply (maphist_ok_wf vo), sr_hist_maphist|].
    induction Hok as [|H s K a cmd o Hok IH Hr Hown Hgen]; [apply muniv_nil|].
    assert (owfH (habs H)) as HH by (by apply (maphist_ok_wf vo), sr_hist_maphist).
    destruct (sr_reach_spec H s K (conj HH IH) Hr) as [-> HK].
    destruct (gen_new (sr_hops H) (known_ops H K) a cmd o IH (sr_side_known H K HH HK) Hgen) as [d Hn].
    rewrite sr_hops_app. cbn [sr_hops fmap list_fmap op_val]. by apply (muniv_snoc X _ _ d).
  Qed.

  (** * the theorem, for every nested type with the structure *)
  Theorem map_sr_refine H : mhist H → ∀ s K, mreach H s K → s = sr_spec H K.
  Proof using gen_mgen gen_new. intros Hok s K Hr. by destruct (sr_reach_spec H s K (sr_hist_wf H Hok) Hr). Qed.

  (** * corollaries, for every nested type with the structure *)
  Section corollaries.
    Context (H : list (oprec (mop O))) (Hok : mhist H).
    Let HW : sr_wfH H := sr_hist_wf H Hok.
    Implicit Types (s : cmap V) (K : gset nat).

    Lemma sr_reach_valid s K : mreach H s K → sr_valid H K.
    Proof using Hok gen_mgen gen_new. intros Hr. by destruct (sr_reach_spec H s K HW Hr). Qed.
    Lemma sr_known_side s K : mreach H s K → gside (sr_hops H) (known_ops H K).
    Proof using Hok gen_mgen gen_new. intros Hr. apply sr_side_known; [apply HW|by eapply sr_reach_valid]. Qed.

    (** C01 / C20: equal knowledge, equal (complete) state *)
    Theorem sr_converge s1 s2 K : mreach H s1 K → mreach H s2 K → s1 = s2.
    Proof using Hok gen_mgen gen_new.
      intros H1 H2. by rewrite (map_sr_refine H Hok s1 K H1), (map_sr_refine H Hok s2 K H2).
    Qed.
    (** C03: merging two replicas = having learned the union of their ops *)
    Theorem sr_merge_spec s1 K1 s2 K2 : mreach H s1 K1 → mreach H s2 K2 →
      mmerge vo s1 s2 = sr_spec H (K1 ∪ K2).
    Proof using Hok gen_mgen gen_new. intros H1 H2. apply (map_sr_refine H Hok). by apply reach_merge. Qed.
    Theorem sr_merge_is_union s1 K1 s2 K2 s K :
      mreach H s1 K1 → mreach H s2 K2 → mreach H s K → K = K1 ∪ K2 → mmerge vo s1 s2 = s.
    Proof using Hok gen_mgen gen_new. intros H1 H2 H3 ->. eapply sr_converge; [by apply reach_merge|done]. Qed.
    (** C02: [mmerge] is commutative, associative and idempotent on reachable states *)
    Theorem sr_merge_comm s1 K1 s2 K2 : mreach H s1 K1 → mreach H s2 K2 →
      mmerge vo s1 s2 = mmerge vo s2 s1.
    Proof using Hok gen_mgen gen_new.
      intros H1 H2. rewrite (sr_merge_spec s1 K1 s2 K2), (sr_merge_spec s2 K2 s1 K1) by done.
      by rewrite (comm_L (∪) K1 K2).
    Qed.
    Theorem sr_merge_assoc s1 K1 s2 K2 s3 K3 :
      mreach H s1 K1 → mreach H s2 K2 → mreach H s3 K3 →
      mmerge vo (mmerge vo s1 s2) s3 = mmerge vo s1 (mmerge vo s2 s3).
    Proof using Hok gen_mgen gen_new.
      intros H1 H2 H3.
      rewrite (sr_merge_spec (mmerge vo s1 s2) (K1 ∪ K2) s3 K3) by (try apply reach_merge; done).
      rewrite (sr_merge_spec s1 K1 (mmerge vo s2 s3) (K2 ∪ K3)) by (try apply reach_merge; done).
      by rewrite (assoc_L (∪) K1 K2 K3).
    Qed.
    Theorem sr_merge_idem s K : mreach H s K → mmerge vo s s = s.
    Proof using Hok gen_mgen gen_new.
      intros H1. rewrite (sr_merge_spec s K s K) by done. rewrite (idemp_L (∪) K).
      symmetry. by apply map_sr_refine.
    Qed.
    (** C09: a duplicate op and a stale state are absorbed *)
    Theorem sr_dup_apply s K i r : mreach H s K → H !! i = Some r → i ∈ K →
      mapply vo s (op_val r) = s.
    Proof using Hok gen_mgen gen_new.
      intros Hr Hi HiK. rewrite (map_sr_refine H Hok s K Hr) at 1.
      rewrite (sr_L1 H K i r HW (sr_reach_valid s K Hr) Hi).
      assert (K ∪ {[i]} = K) as -> by set_solver. symmetry. by apply map_sr_refine.
    Qed.
    Theorem sr_stale_merge s1 K1 s2 K2 : mreach H s1 K1 → mreach H s2 K2 → K2 ⊆ K1 →
      mmerge vo s1 s2 = s1 ∧ mmerge vo s2 s1 = s1.
    Proof using Hok gen_mgen gen_new.
      intros H1 H2 Hsub.
      rewrite (sr_merge_spec s1 K1 s2 K2), (sr_merge_spec s2 K2 s1 K1) by done.
      assert (K1 ∪ K2 = K1) as -> by set_solver. assert (K2 ∪ K1 = K1) as -> by set_solver.
      split; symmetry; by apply map_sr_refine.
    Qed.

    (** the components of a reachable state: clock, no pending key remove, the key set, the entry
        clocks, and under every key the specification state of the nested type *)
    Theorem sr_components s K k : mreach H s K →
      let os := known_ops H K in
      mclock s = mspec_clock os ∧ mdeferred s = ∅ ∧
      (k ∈ dom (mentries s) ↔ ∃ d o, MUp d k o ∈ os) ∧
      (∀ e, mentries s !! k = Some e →
            eclock e = dots_clock (gkdots os k) ∧ eval e = vspec X (mproj os k)) ∧
      default (v_default vo) (eval <$> mentries s !! k) = vspec X (mproj os k).
    Proof using Hok gen_mgen gen_new.
      intros Hr os. pose proof (sr_known_side s K Hr) as HS. fold os in HS.
      rewrite (map_sr_refine H Hok s K Hr). unfold sr_spec. fold os.
      assert (mtagged X os) as Hs by (apply (mside_tagged X _ (sr_hops H) (proj2 HW)), HS).
      split_and!; [done|done| | |].
      - rewrite elem_of_dom, mentries_lookup, <- g_mentioned.
        destruct (decide _) as [Hin|Hin].
        + split; [done|by eexists].
        + split; [by intros [? ?]|done].
      - intros e. rewrite mentries_lookup. destruct (decide _); [|done]. intros [= <-].
        cbn [ment eclock eval]. by rewrite g_entry_clock by (by apply (mtagged_norm X)).
      - apply (mspec_nested X os k).
    Qed.

    (** every delivery discipline at least as strong as per-actor delivery, with or without merges *)
    Theorem sr_refine_any (adm : adm_t (mop O)) (mg : Prop) s K :
      (∀ K i, adm H K i → adm_per_actor H K i) →
      reach mnew (mapply vo) (mmerge vo) adm mg H s K → s = sr_spec H K.
    Proof using Hok gen_mgen gen_new.
      intros Hadm Hr. apply (map_sr_refine H Hok).
      induction Hr as [|s K i o Hr IH Ho Ha|s1 K1 s2 K2 Hm Hr1 IH1 Hr2 IH2].
      - constructor.
      - eapply reach_apply; [done..|by apply Hadm].
      - by apply reach_merge.
    Qed.
  End corollaries.
End reach.

Print Assumptions map_sr.
Print Assumptions mapply_fresh.
Print Assumptions mapply_known.
Print Assumptions mmerge_nk.
Print Assumptions mreset_nk_inert.
Print Assumptions muniv_snoc.
Print Assumptions orswot_sr.
Print Assumptions map_sr_refine.
Print Assumptions sr_converge.
Print Assumptions sr_merge_spec.
Print Assumptions sr_merge_is_union.
Print Assumptions sr_merge_comm.
Print Assumptions sr_merge_assoc.
Print Assumptions sr_merge_idem.
Print Assumptions sr_dup_apply.
Print Assumptions sr_stale_merge.
Print Assumptions sr_components.
Print Assumptions sr_refine_any.
