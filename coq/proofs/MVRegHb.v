(** MVReg, part A: consequences of [mvwfH] (spec/MVRegSystem.v).

    The clock of a write is an exact encoding of happened-before:
    [clock j ≤ clock i ↔ j = i ∨ mvhb H j i]. *)
From Crdt Require Import model.MVReg spec.System spec.OrswotSpec spec.Specs spec.MVRegSystem
  proofs.VClock proofs.OrswotLayer.
From Coq Require Import ZifyBool ZifyN.
Local Open Scope N_scope.

(** * joins of lists of clocks *)
Lemma vleq_empty c : vleq ∅ c.
Proof. intros x. rewrite vget_empty. lia. Qed.

Lemma vjoin_acc_le cs acc : vleq acc (foldl vmerge acc cs).
Proof.
  revert acc. induction cs as [|c cs IH]; intros acc; simpl; [apply vleq_refl|].
  eapply vleq_trans; [apply vmerge_ub_l|apply IH].
Qed.
Lemma vjoin_ub cs acc c : c ∈ cs → vleq c (foldl vmerge acc cs).
Proof.
  intros Hin. revert acc. induction Hin as [c cs|c c' cs Hin IH]; intros acc; simpl.
  - eapply vleq_trans; [apply vmerge_ub_r|apply vjoin_acc_le].
  - apply IH.
Qed.
Lemma vjoin_least cs acc U : vleq acc U → (∀ c, c ∈ cs → vleq c U) → vleq (foldl vmerge acc cs) U.
Proof.
  revert acc. induction cs as [|c cs IH]; intros acc Ha Hc; simpl; [done|].
  apply IH.
  - apply vmerge_least; [done|]. apply Hc. by left.
  - intros c' Hin. apply Hc. by right.
Qed.
Lemma vjoin_wf cs acc : vwf acc → (∀ c, c ∈ cs → vwf c) → vwf (foldl vmerge acc cs).
Proof.
  revert acc. induction cs as [|c cs IH]; intros acc Ha Hc; simpl; [done|].
  apply IH.
  - apply vmerge_wf; [done|]. apply Hc. by left.
  - intros c' Hin. apply Hc. by right.
Qed.
Lemma vjoin_witness cs acc x :
  vget (foldl vmerge acc cs) x = vget acc x ∨
  ∃ c, c ∈ cs ∧ vget c x = vget (foldl vmerge acc cs) x.
Proof.
  revert acc. induction cs as [|c cs IH]; intros acc; simpl; [by left|].
  destruct (IH (vmerge acc c)) as [E|(c' & Hin & E)].
  - rewrite vmerge_get in E.
    destruct (N.max_spec (vget acc x) (vget c x)) as [[Hlt Hm]|[Hle Hm]]; rewrite Hm in E.
    + right. exists c. split; [by left|done].
    + by left.
  - right. exists c'. split; [by right|done].
Qed.

(** * the clock of the op with index [i] *)
Definition hclock (H : list (oprec mvop)) (i : nat) : vclock :=
  match H !! i with Some r => mvop_clock (op_val r) | None => ∅ end.

Lemma hclock_Some H i r : H !! i = Some r → hclock H i = mvop_clock (op_val r).
Proof. unfold hclock. by intros ->. Qed.
Lemma hclock_None H i : H !! i = None → hclock H i = ∅.
Proof. unfold hclock. by intros ->. Qed.

Lemma elem_of_deps_clocks H K c :
  c ∈ (mvop_clock <$> known_ops H K) ↔ ∃ i, i ∈ K ∧ is_Some (H !! i) ∧ hclock H i = c.
Proof.
  rewrite elem_of_list_fmap. split.
  - intros (o & -> & Hin). apply elem_of_known_ops in Hin as (i & r & Hl & Hi & <-).
    exists i. split; [done|]. split; [by exists r|by apply hclock_Some].
  - intros (i & Hi & [r Hl] & <-). exists (op_val r). split; [by apply hclock_Some|].
    apply elem_of_known_ops. by exists i, r.
Qed.

Lemma deps_clock_ub H K j : j ∈ K → vleq (hclock H j) (deps_clock H K).
Proof.
  intros Hj. destruct (H !! j) as [r|] eqn:E.
  - apply vjoin_ub, elem_of_deps_clocks. exists j. split; [done|]. split; [by exists r|done].
  - rewrite (hclock_None _ _ E). apply vleq_empty.
Qed.
Lemma deps_clock_least H K U : (∀ j, j ∈ K → vleq (hclock H j) U) → vleq (deps_clock H K) U.
Proof.
  intros HU. apply vjoin_least; [apply vleq_empty|].
  intros c (j & Hj & _ & <-)%elem_of_deps_clocks. by apply HU.
Qed.
Lemma deps_clock_wf H K : (∀ j, j ∈ K → vwf (hclock H j)) → vwf (deps_clock H K).
Proof.
  intros HU. apply vjoin_wf; [apply vwf_empty|].
  intros c (j & Hj & _ & <-)%elem_of_deps_clocks. by apply HU.
Qed.
Lemma deps_clock_witness H K x :
  vget (deps_clock H K) x = 0 ∨
  ∃ j, j ∈ K ∧ is_Some (H !! j) ∧ vget (hclock H j) x = vget (deps_clock H K) x.
Proof.
  destruct (vjoin_witness (mvop_clock <$> known_ops H K) ∅ x) as [E|(c & Hin & E)].
  - left. by rewrite vget_empty in E.
  - right. apply elem_of_deps_clocks in Hin as (j & Hj & Hs & <-). by exists j.
Qed.
Lemma deps_clock_empty H : deps_clock H ∅ = ∅.
Proof. unfold deps_clock. by rewrite known_ops_empty. Qed.

(** [known_ops] only looks at the indices below the length *)
Lemma known_ops_app_elem {Op} (H H' : list (oprec Op)) K o :
  (∀ i, i ∈ K → (i < length H)%nat) → o ∈ known_ops (H ++ H') K ↔ o ∈ known_ops H K.
Proof.
  intros HK. rewrite !elem_of_known_ops. split.
  - intros (i & r & Hl & Hi & Ho). exists i, r. split; [|done].
    rewrite lookup_app_l in Hl by (by apply HK). done.
  - intros (i & r & Hl & Hi & Ho). exists i, r. split; [|done]. by apply lookup_app_l_Some.
Qed.

(** number of ops of actor [a] among the first [n] *)
Definition own_count (H : list (oprec mvop)) (a : N) (n : nat) : nat :=
  length (List.filter (λ r : oprec mvop, bool_decide (op_author r = a)) (take n H)).

Lemma own_count_S H a n r :
  H !! n = Some r →
  own_count H a (S n) = if decide (op_author r = a) then S (own_count H a n) else own_count H a n.
Proof.
  intros Hl. unfold own_count. rewrite (take_S_r _ _ _ Hl), List.filter_app, app_length. simpl.
  destruct (decide (op_author r = a)) as [Ha|Ha].
  - rewrite (bool_decide_eq_true_2 _ Ha). simpl. lia.
  - rewrite (bool_decide_eq_false_2 _ Ha). simpl. lia.
Qed.
Lemma own_count_mono H a n m : (n ≤ m)%nat → (own_count H a n ≤ own_count H a m)%nat.
Proof.
  intros Hle. induction Hle as [|m Hle IH]; [done|].
  destruct (H !! m) as [r|] eqn:E.
  - rewrite (own_count_S _ _ _ _ E). destruct (decide _); lia.
  - unfold own_count in *. apply lookup_ge_None in E.
    rewrite (take_ge H (S m)) by lia. rewrite (take_ge H m) in IH by lia. done.
Qed.
Lemma own_count_last H a n :
  (n ≤ length H)%nat → (0 < own_count H a n)%nat →
  ∃ k r, (k < n)%nat ∧ H !! k = Some r ∧ op_author r = a ∧ own_count H a n = own_count H a (S k).
Proof.
  induction n as [|n IH]; intros Hn Hpos; [unfold own_count in Hpos; simpl in Hpos; lia|].
  destruct (lookup_lt_is_Some_2 H n) as [r Hl]; [lia|].
  destruct (decide (op_author r = a)) as [Ha|Ha].
  - exists n, r. split; [lia|done].
  - rewrite (own_count_S _ _ _ _ Hl), decide_False in Hpos |- * by done.
    destruct IH as (k & r' & Hk & Hl' & Ha' & E); [lia|done|].
    exists k, r'. split; [lia|done].
Qed.

Section hb.
  Context (H : list (oprec mvop)) (HH : mvwfH H).

  Lemma wfH_deps_lt i r j : H !! i = Some r → j ∈ op_deps r → (j < i)%nat.
  Proof. intros Hl. destruct (HH i r Hl) as (H1 & _). apply H1. Qed.
  Lemma wfH_deps_Some i r j : H !! i = Some r → j ∈ op_deps r → is_Some (H !! j).
  Proof.
    intros Hl Hj. apply lookup_lt_is_Some_2. pose proof (wfH_deps_lt _ _ _ Hl Hj).
    apply lookup_lt_Some in Hl. lia.
  Qed.
  Lemma wfH_own i r j r' :
    H !! i = Some r → (j < i)%nat → H !! j = Some r' → op_author r' = op_author r → j ∈ op_deps r.
  Proof. intros Hl. destruct (HH i r Hl) as (_ & H2 & _). apply H2. Qed.
  Lemma wfH_clock i r :
    H !! i = Some r →
    hclock H i = vapply (deps_clock H (op_deps r)) (vinc (deps_clock H (op_deps r)) (op_author r)).
  Proof. intros Hl. rewrite (hclock_Some _ _ _ Hl). destruct (HH i r Hl) as (_ & _ & H3). exact H3. Qed.

  (** every write clock is well-formed (no stored zero) ... *)
  Lemma hclock_wf i : vwf (hclock H i).
  Proof.
    induction i as [i IH] using lt_wf_ind.
    destruct (H !! i) as [r|] eqn:E; [|rewrite (hclock_None _ _ E); apply vwf_empty].
    rewrite (wfH_clock _ _ E). apply vapply_wf, deps_clock_wf.
    intros j Hj. apply IH. by eapply wfH_deps_lt.
  Qed.
  Lemma deps_clock_wf' K : vwf (deps_clock H K).
  Proof. apply deps_clock_wf. intros j _. apply hclock_wf. Qed.

  Lemma hclock_own i r :
    H !! i = Some r →
    vget (hclock H i) (op_author r) = vget (deps_clock H (op_deps r)) (op_author r) + 1.
  Proof. intros Hl. rewrite (wfH_clock _ _ Hl), vapply_vinc_get. by rewrite decide_True. Qed.
  Lemma hclock_other i r x :
    H !! i = Some r → x ≠ op_author r →
    vget (hclock H i) x = vget (deps_clock H (op_deps r)) x.
  Proof. intros Hl Hx. rewrite (wfH_clock _ _ Hl), vapply_vinc_get. by rewrite decide_False. Qed.
  Lemma hclock_ge_deps i r : H !! i = Some r → vleq (deps_clock H (op_deps r)) (hclock H i).
  Proof. intros Hl x. rewrite (wfH_clock _ _ Hl). apply vapply_mono. Qed.

  (** ... and non-empty *)
  Lemma hclock_nonempty i r : H !! i = Some r → hclock H i ≠ ∅.
  Proof.
    intros Hl E. pose proof (hclock_own _ _ Hl) as Ho. rewrite E, vget_empty in Ho. lia.
  Qed.
  Lemma hclock_not_empty i r : H !! i = Some r → vis_empty (hclock H i) = false.
  Proof.
    intros Hl. apply not_true_iff_false. rewrite vis_empty_spec. by eapply hclock_nonempty.
  Qed.

  (** the clock of an op dominates the clocks of its dependencies *)
  Lemma hclock_dep_le i r j : H !! i = Some r → j ∈ op_deps r → vleq (hclock H j) (hclock H i).
  Proof.
    intros Hl Hj. eapply vleq_trans; [by apply deps_clock_ub|by apply hclock_ge_deps].
  Qed.

  (** happened-before goes forward in the history *)
  Lemma mvhb_lt j i : mvhb H j i → (j < i)%nat.
  Proof.
    induction 1 as [i j r Hl Hj|i j k _ IH1 _ IH2]; [by eapply wfH_deps_lt|lia].
  Qed.
  Lemma mvhb_irrefl i : ¬ mvhb H i i.
  Proof. intros Hx%mvhb_lt. lia. Qed.
  Lemma mvhb_Some_r j i : mvhb H j i → is_Some (H !! i).
  Proof. induction 1 as [i j r Hl Hj|i j k _ IH1 _ IH2]; [by exists r|done]. Qed.
  Lemma mvhb_Some_l j i : mvhb H j i → is_Some (H !! j).
  Proof. induction 1 as [i j r Hl Hj|i j k _ IH1 _ IH2]; [by eapply wfH_deps_Some|done]. Qed.
  Lemma mvhb_asym j i : mvhb H j i → ¬ mvhb H i j.
  Proof. intros H1%mvhb_lt H2%mvhb_lt. lia. Qed.

  Lemma mvhb_le j i : mvhb H j i → vleq (hclock H j) (hclock H i).
  Proof.
    induction 1 as [i j r Hl Hj|i j k _ IH1 _ IH2]; [by eapply hclock_dep_le|by eapply vleq_trans].
  Qed.

  (** own counters grow strictly along the ops of one author *)
  Lemma hclock_own_mono j rj i ri :
    H !! j = Some rj → H !! i = Some ri → (j < i)%nat → op_author rj = op_author ri →
    vget (hclock H j) (op_author ri) < vget (hclock H i) (op_author ri).
  Proof.
    intros Hj Hi Hlt Ha. rewrite (hclock_own _ _ Hi).
    assert (j ∈ op_deps ri) as Hd by (by eapply wfH_own).
    pose proof (deps_clock_ub H _ _ Hd (op_author ri)). lia.
  Qed.

  (** every entry of a clock is the own dot of an op that is the op itself or
      happened before it *)
  Lemma hclock_witness i x :
    vget (hclock H i) x = 0 ∨
    ∃ m rm, H !! m = Some rm ∧ (m = i ∨ mvhb H m i) ∧ op_author rm = x ∧
            vget (hclock H m) x = vget (hclock H i) x.
  Proof.
    induction i as [i IH] using lt_wf_ind.
    destruct (H !! i) as [r|] eqn:E; [|left; by rewrite (hclock_None _ _ E), vget_empty].
    destruct (decide (x = op_author r)) as [->|Hx].
    { right. exists i, r. split; [done|]. split; [by left|done]. }
    rewrite (hclock_other _ _ _ E Hx).
    destruct (deps_clock_witness H (op_deps r) x) as [E0|(d & Hd & _ & Ed)]; [by left|].
    rewrite <- Ed.
    destruct (IH d (wfH_deps_lt _ _ _ E Hd)) as [E0|(m & rm & Hm & Hhb & Ha & Em)]; [by left|].
    right. exists m, rm. split; [done|]. split; [|done].
    right. destruct Hhb as [->|Hhb].
    - by eapply mvhb_dep.
    - eapply mvhb_trans; [exact Hhb|by eapply mvhb_dep].
  Qed.

  (** KEY LEMMA: the clock order is exactly happened-before *)
  Theorem clock_hb i j :
    is_Some (H !! i) → is_Some (H !! j) →
    vleq (hclock H j) (hclock H i) ↔ j = i ∨ mvhb H j i.
  Proof.
    intros [ri Hi] [rj Hj]. split.
    - intros Hle.
      pose proof (Hle (op_author rj)) as Hc. rewrite (hclock_own _ _ Hj) in Hc.
      destruct (hclock_witness i (op_author rj)) as [E0|(m & rm & Hm & Hhb & Ha & Em)]; [lia|].
      destruct (lt_eq_lt_dec m j) as [[Hlt| ->]|Hgt].
      + (* an earlier op of the same author has a smaller own counter *)
        pose proof (hclock_own_mono _ _ _ _ Hm Hj Hlt Ha) as Hmono.
        rewrite (hclock_own _ _ Hj) in Hmono. lia.
      + destruct Hhb as [->|Hhb]; [by left|by right].
      + right. assert (mvhb H j m) as Hjm.
        { eapply mvhb_dep; [exact Hm|]. eapply wfH_own; [exact Hm|done|exact Hj|done]. }
        destruct Hhb as [->|Hhb]; [done|]. by eapply mvhb_trans.
    - intros [->|Hhb]; [apply vleq_refl|by apply mvhb_le].
  Qed.

  (** distinct ops have distinct clocks *)
  Corollary hclock_inj i j :
    is_Some (H !! i) → is_Some (H !! j) → hclock H i = hclock H j → i = j.
  Proof.
    intros Hi Hj E.
    assert (vleq (hclock H j) (hclock H i)) as H1 by (rewrite E; apply vleq_refl).
    assert (vleq (hclock H i) (hclock H j)) as H2 by (rewrite E; apply vleq_refl).
    destruct (proj1 (clock_hb i j Hi Hj) H1) as [->|H1']; [done|].
    destruct (proj1 (clock_hb j i Hj Hi) H2) as [->|H2']; [done|].
    by apply mvhb_asym in H1'.
  Qed.

  (** the strict clock order is happened-before *)
  Corollary clock_hb_lt i j :
    is_Some (H !! i) → is_Some (H !! j) →
    vlt (hclock H j) (hclock H i) = true ↔ mvhb H j i.
  Proof.
    intros Hi Hj. rewrite vlt_spec by apply hclock_wf. rewrite clock_hb by done. split.
    - intros [[->|Hhb] Hne]; done.
    - intros Hhb. split; [by right|]. intros E%hclock_inj; [|done..]. subst. by apply mvhb_irrefl in Hhb.
  Qed.
  Corollary clock_hb_gt i j :
    is_Some (H !! i) → is_Some (H !! j) →
    vgt (hclock H i) (hclock H j) = true ↔ mvhb H j i.
  Proof.
    intros Hi Hj. rewrite vgt_spec by apply hclock_wf. rewrite clock_hb by done. split.
    - intros [[->|Hhb] Hne]; done.
    - intros Hhb. split; [by right|]. intros E%hclock_inj; [|done..]. subst. by apply mvhb_irrefl in Hhb.
  Qed.
  Corollary clock_hb_cmp i j :
    is_Some (H !! i) → is_Some (H !! j) →
    vcmp (hclock H j) (hclock H i) =
      None ↔ j ≠ i ∧ ¬ mvhb H j i ∧ ¬ mvhb H i j.
  Proof.
    intros Hi Hj. rewrite vcmp_None by apply hclock_wf. rewrite !clock_hb by done.
    split; [intros [H1 H2]|intros (H1 & H2 & H3)]; [split_and!|split]; intuition congruence.
  Qed.

  (** the author's own counter is the number of its writes so far *)
  Lemma hclock_own_count i r :
    H !! i = Some r → vget (hclock H i) (op_author r) = N.of_nat (own_count H (op_author r) (S i)).
  Proof.
    revert r. induction i as [i IH] using lt_wf_ind. intros r Hl.
    rewrite (hclock_own _ _ Hl), (own_count_S _ _ _ _ Hl), decide_True by done.
    set (a := op_author r).
    cut (vget (deps_clock H (op_deps r)) a = N.of_nat (own_count H a i)); [lia|].
    apply N.le_antisymm.
    - destruct (deps_clock_witness H (op_deps r) a) as [E0|(d & Hd & _ & Ed)]; [lia|].
      rewrite <- Ed. pose proof (wfH_deps_lt _ _ _ Hl Hd) as Hdi.
      destruct (hclock_witness d a) as [E0|(m & rm & Hm & Hhb & Ha & Em)]; [lia|].
      assert (m ≤ d)%nat as Hmd by (destruct Hhb as [->|?%mvhb_lt]; lia).
      assert (m < i)%nat as Hmi by lia.
      rewrite <- Em, <- Ha, (IH m Hmi rm Hm), Ha.
      assert (S m ≤ i)%nat as Hmi' by lia.
      pose proof (own_count_mono H a (S m) i Hmi'). lia.
    - destruct (Nat.eq_dec (own_count H a i) 0%nat) as [E0|Hpos]; [rewrite E0; lia|].
      destruct (own_count_last H a i) as (k & rk & Hk & Hlk & Hak & E);
        [apply lookup_lt_Some in Hl; lia|lia|].
      rewrite E.
      pose proof (IH k Hk rk Hlk) as IHk. rewrite Hak in IHk. rewrite <- IHk.
      apply deps_clock_ub. eapply wfH_own; [exact Hl|exact Hk|exact Hlk|exact Hak].
  Qed.
End hb.
