(** [Map<K, Orswot<M>>] with key removes and state merges in the fragment [km_once]
    (spec/MapOrswotKM.v), first half: the apply step for states that may be results of merges, and
    the computation of the per-key step of [mmerge] on entries of the shape the fragment keeps
    (nested clock = entry clock, no pending nested remove).

    - Part 0: API-generated histories of the fragment ([mohist_ok_km]) at the key layer; shape of
      the ops.
    - Part 1: the apply step of proofs/MapOrswotPA.v ([mo_step_pa]) re-done for [moreach_km]: the
      argument only uses key-layer facts (proofs/MapKeys.v), which hold with merges.  The nested
      clock equals the entry clock ([mo_v4_step_km], as in proofs/MapOrswotEq.v).
    - Part 2: [omerge] of two values without pending removes; the member table of the entry
      [mmerge_entry] builds, per member and actor, as an arithmetic function [kmF] of the map
      clocks, entry clocks and witness counters of both sides ([mmerge_entry_km]); replay of
      pending tables ([mfold_vrel_gen], [mmerge_entries_vrel]).
    - Part 3: the arithmetic of [kmF] in the two cases of the fragment: a key no remove names
      ([kmF_unnamed]: the join), a key named by a remove, updated once by the actor ([kmF_named]). *)
From stdpp Require Import gmap.
From Crdt Require Import model.Orswot model.Map spec.System spec.OrswotSpec spec.OrswotSystem
  spec.MapSpec spec.MapSystem spec.MapOrswotSpec spec.MapOrswotKM proofs.VClock proofs.Reset proofs.OrswotLayer
  proofs.OrswotL1 proofs.OrswotL2 proofs.OrswotSystem proofs.MapFacts proofs.MapKeys proofs.MapOrswot
  proofs.MapOrswotPA proofs.MapOrswotEq.
From Coq Require Import ZifyBool ZifyN ZifyNat.
Local Open Scope N_scope.

Local Notation vo := orswot_valops.

(** * Part 0: histories of the fragment *)
Lemma mohist_km_maphist H : mohist_ok_km H → maphist_ok vo H.
Proof.
  induction 1 as [|H s K a cmd o Hok IH Hr Hown Hgen]; [constructor|].
  apply (hist_snoc _ _ _ _ _ _ H s K a (mo_cmd cmd) o); [done|done|done|by apply mogen_ao_mgen].
Qed.

Lemma mohist_km_shape H : mohist_ok_km H → ∀ j r, H !! j = Some r → op_ao (op_val r).
Proof.
  induction 1 as [|H s K a cmd o Hok IH Hr Hown Hgen]; [intros i r Hi; by rewrite lookup_nil in Hi|].
  intros i r Hi. destruct (decide (i < length H)%nat) as [Hl|Hge].
  - rewrite lookup_app_l in Hi by done. by apply (IH i r).
  - assert (i = length H) as ->.
    { apply lookup_lt_Some in Hi. rewrite app_length in Hi. cbn in Hi. lia. }
    rewrite lookup_app_r, Nat.sub_diag in Hi by lia. cbn in Hi. injection Hi as <-. cbn [op_val].
    by eapply mogen_ao_shape.
Qed.

(** * Part 1: the apply step *)
Section main.
  Context (H : list (oprec (mop oop))) (Hmo : mohist_ok_km H).
  Let Hmap : maphist_ok vo H := mohist_km_maphist H Hmo.
  Let HH : owfH (habs H) := maphist_ok_wf vo H Hmap.
  Implicit Types (s : cmap orswot) (K : gset nat) (k m : N).

  Lemma known_shape_km K o : o ∈ known_ops H K → op_ao o.
  Proof using Hmo.
    intros (i & r & Hi & _ & <-)%elem_of_known_ops. by apply (mohist_km_shape H Hmo i r).
  Qed.
  Lemma mo_shape_known_km K : mo_shape (known_ops H K).
  Proof using Hmo. intros d0 k d ms Hin. by apply (known_shape_km K) in Hin. Qed.
  Lemma no_nested_rm K d k c ms : MUp d k (ORm c ms) ∉ known_ops H K.
  Proof using Hmo. intros Hin. by apply (known_shape_km K) in Hin. Qed.

  (** only key removes cover *)
  Lemma mo_covered_km K k m d :
    mo_covered (known_ops H K) k m d = true ↔
      ∃ c ks, MRm c ks ∈ known_ops H K ∧ k ∈ ks ∧ dcounter d <= vget c (dactor d).
  Proof using Hmo.
    rewrite mo_covered_spec. split; [|by left].
    intros [?|(d1 & c & ms' & Hin & _)]; [done|]. by apply no_nested_rm in Hin.
  Qed.

  Lemma key_clock_km s K : moreach_km H s K → mclock s = mspec_clock (known_ops H K) ∧ ovalid (habs H) K.
  Proof using Hmo.
    intros Hr. split.
    - by destruct (map_keys_reach_mspec vo H HH s K Hr).
    - by destruct (map_keys_reach_spec vo H HH s K Hr).
  Qed.
  Lemma mclock_wf_km s K : moreach_km H s K → vwf (mclock s).
  Proof using Hmo. intros Hr. destruct (key_clock_km s K Hr) as [-> _]. apply dots_clock_wf. Qed.

  (** the dedup gate of the map recognises exactly the known updates *)
  Lemma up_gate_km s K i r d k o : moreach_km H s K → H !! i = Some r → op_val r = MUp d k o →
    (i ∈ K → dcounter d <= vget (mclock s) (dactor d)) ∧
    (i ∉ K → vget (mclock s) (dactor d) < dcounter d) ∧
    dcounter d ≠ 0.
  Proof using Hmo.
    intros Hr Hi Hv. destruct (key_clock_km s K Hr) as [Ec Hval].
    pose proof (hmap_lookup_Some oabs H i r Hi) as Hi'.
    assert (op_val (OpRec (op_author r) (oabs (op_val r)) (op_deps r)) = OAdd d [k]) as Hv'.
    { cbn. by rewrite Hv. }
    split_and!.
    - intros HiK. rewrite Ec. unfold mspec_clock. rewrite dots_clock_get. apply max_ctr_ge; [|done].
      apply elem_of_mall_dots. exists k, o. apply elem_of_known_ops. by exists i, r.
    - intros HiK. destruct (decide (dcounter d <= vget (mclock s) (dactor d))) as [Hle|]; [|lia].
      destruct HiK. apply (seen (habs H) K i _ d [k] HH Hval Hi' Hv').
      by rewrite known_ops_habs, <- mspec_clock_abs, <- Ec.
    - destruct (owfH_add _ _ _ _ _ HH Hi' Hv') as (_ & Hc & _). lia.
  Qed.

  (** an absent key has no member in the specification *)
  Lemma absent_spec_km s K k : moreach_km H s K → mentries s !! k = None → mo_entries (known_ops H K) k = ∅.
  Proof using Hmo.
    intros Hr Hn. apply mo_entries_key_covered; [apply mo_shape_known_km|]. intros d o Hin.
    destruct (mcovered (known_ops H K) k d) eqn:Ec; [done|]. exfalso.
    destruct (map_key_present_iff vo H HH s K k Hr) as (_ & Hp & _).
    assert (k ∈ dom (mentries s)) as Hd.
    { apply Hp. exists d, o. split; [done|]. rewrite <- mcovered_spec. by rewrite Ec. }
    apply elem_of_dom in Hd as [? ?]. congruence.
  Qed.

  Lemma live_le_mclock_km s K k m a : moreach_km H s K →
    max_ctr (mo_live_dots (known_ops H K) k m) a <= vget (mclock s) a.
  Proof using Hmo.
    intros Hr. destruct (key_clock_km s K Hr) as [-> _]. rewrite <- mo_entry_get.
    apply mo_entry_le_clock, mo_shape_known_km.
  Qed.

  (** the pending table: removes that are known, and all known removes the clock does not cover *)
  Lemma pending_named_km s K c ks k : moreach_km H s K → mdeferred s !! c = Some ks → k ∈ ks →
    ∃ ks', MRm c ks' ∈ known_ops H K ∧ k ∈ ks'.
  Proof using Hmo.
    intros Hr Hl Hk.
    destruct (map_keys_pending vo H Hmap s K c Hr) as (P1 & _). destruct (P1 ks Hl) as (_ & _ & _ & Hiff).
    by apply Hiff.
  Qed.
  Lemma pending_covering_km s K c ks' k a : moreach_km H s K → MRm c ks' ∈ known_ops H K → k ∈ ks' →
    vget (mclock s) a < vget c a → ∃ ks, mdeferred s !! c = Some ks ∧ k ∈ ks.
  Proof using Hmo.
    intros Hr Hin Hk Hlt. pose proof (mclock_wf_km s K Hr) as Hw.
    assert (vwf c) as Hwc.
    { pose proof Hin as (i & r & Hi & _ & Hv)%elem_of_known_ops.
      pose proof (owfH_habs_mopwf H i r HH Hi) as Hwf. by rewrite Hv in Hwf. }
    destruct (map_keys_pending vo H Hmap s K c Hr) as (P1 & P2 & _).
    destruct P2 as [ks Hl]; [by exists ks'| |].
    { destruct (vle c (mclock s)) eqn:E; [|done]. apply vle_spec in E; [|done..]. specialize (E a). lia. }
    exists ks. split; [done|]. destruct (P1 ks Hl) as (_ & _ & _ & Hiff). apply Hiff. by exists ks'.
  Qed.

  (** a surviving witness is covered by no pending remove naming its key *)
  Lemma live_not_pending_km s K k m a : moreach_km H s K →
    let y := max_ctr (mo_live_dots (known_ops H K) k m) a in
    y = 0 ∨ ∀ c ks, mdeferred s !! c = Some ks → k ∈ ks → vget c a < y.
  Proof using Hmo.
    intros Hr y. destruct (max_ctr_witness (mo_live_dots (known_ops H K) k m) a) as [?|(x & Hx & Ha & Hc)]; [by left|].
    right. intros c ks Hl Hk. destruct (pending_named_km s K c ks k Hr Hl Hk) as (ks' & Hin & Hk').
    apply elem_of_mo_live_dots in Hx as [_ Hnc]. apply mo_covered_false in Hnc.
    destruct (decide (vget c a < y)) as [|Hge]; [done|]. destruct Hnc. left. exists c, ks'.
    split_and!; [done|done|]. subst a. fold y in Hc. lia.
  Qed.

  Lemma inv_default_km s K k : moreach_km H s K → mo_inv_pa H s K →
    let e0 := default (MEntry ∅ (v_default vo)) (mentries s !! k) in
    oentries (eval e0) = mo_entries (known_ops H K) k ∧ vleq (oclock (eval e0)) (mclock s) ∧
    odeferred (eval e0) = ∅.
  Proof using Hmo.
    intros Hr Hi. destruct (mentries s !! k) as [e|] eqn:E; cbn.
    - by apply Hi.
    - split_and!; [symmetry; by eapply absent_spec_km|apply vleq_empty_min|done].
  Qed.

  (** ** the step *)
  Lemma mo_step_km s K i r : moreach_km H s K → mo_inv_pa H s K → H !! i = Some r → adm_per_actor H K i →
    mo_inv_pa H (mapply vo s (op_val r)) (K ∪ {[i]}).
  Proof using Hmo.
    intros Hr Hinv Hi Ha.
    pose proof (λ o, known_ops_add_elem H K i r o Hi) as Hos'.
    pose proof (mohist_km_shape H Hmo i r Hi) as Hshape.
    destruct (op_val r) as [c ks|d k op] eqn:Ho.
    - (* key remove, parked or not *)
      intros k e'. cbn [mapply]. rewrite mapply_rm_entries, mapply_rm_clock, mrm_entries_lookup.
      destruct (mentries s !! k) as [e|] eqn:E; [|done]. cbn [mbind option_bind].
      destruct (Hinv k e E) as (E1 & V2 & V3). case_bool_decide as Hk.
      + destruct (vis_empty _); [done|]. intros [= <-]. cbn [eval v_reset orswot_valops]. split_and!.
        * cbn [oreset oentries]. rewrite E1.
          rewrite (step_krm_entries _ _ _ Hos' c ks k eq_refl), decide_True by done. done.
        * cbn [oreset oclock]. intros a. rewrite vreset_get. specialize (V2 a). case_match; lia.
        * cbn [oreset odeferred]. rewrite V3. apply oreset_deferred_empty.
      + intros [= <-]. split_and!; [|done|done].
        rewrite E1, (step_krm_entries _ _ _ Hos' c ks k eq_refl), decide_False by done. done.
    - destruct (up_gate_km s K i r d k op Hr Hi Ho) as (G1 & G2 & G3).
      destruct (decide (i ∈ K)) as [HiK|HiK].
      + rewrite mapply_dedup by auto. replace (K ∪ {[i]}) with K by set_solver. done.
      + specialize (G2 HiK). destruct op as [d' ms|c ms]; [|done]. cbn in Hshape. subst d'.
        rewrite mapply_up_fresh by done. rewrite mapply_deferred_mfold. cbn [mclock mentries mdeferred].
        destruct (inv_default_km s K k Hr Hinv) as (E0 & V0 & D0).
        set (e0 := default (MEntry ∅ (v_default vo)) (mentries s !! k)) in *.
        cbn [v_apply orswot_valops].
        rewrite (nested_add_pa (eval e0) d ms D0) by (specialize (V0 (dactor d)); lia).
        intros k' e' He'. rewrite mfold_clock. cbn [mclock].
        apply mfold_vrel in He' as (e1 & He1 & (R1 & R2 & R3 & R4)).
        2:{ intros k2 e2. destruct (decide (k2 = k)) as [->|Hne].
            - rewrite lookup_insert. intros [= <-]. cbn [eval odeferred oentries]. split; [done|].
              apply eswf_oadd; [|done]. rewrite E0. apply mo_entries_eswf.
            - rewrite lookup_insert_ne by done. intros He2. destruct (Hinv k2 e2 He2) as (E2 & _ & D2).
              split; [done|]. rewrite E2. apply mo_entries_eswf. }
        split_and!; [| |done].
        * apply eswf_ext; [done|apply mo_entries_eswf|]. intros m a.
          rewrite gdef_mo_entries, (step_add_max _ _ d k d ms k' m a Hos').
          destruct (R4 m a) as (A1 & A2 & A3).
          pose proof (live_not_pending_km s K k' m a Hr) as Hnp.
          pose proof (live_le_mclock_km s K k' m a Hr) as Hle.
          set (y := max_ctr (mo_live_dots (known_ops H K) k' m) a) in *.
          assert (gdef (oentries (eval e1)) m a =
                    if decide ((k' = k ∧ m ∈ ms) ∧ a = dactor d) then N.max y (dcounter d) else y) as Hx1.
          { destruct (decide (k' = k)) as [->|Hne].
            - rewrite lookup_insert in He1. injection He1 as <-. cbn [eval oentries].
              rewrite gdef_oadd, E0, gdef_mo_entries. fold y.
              destruct (decide (m ∈ ms ∧ a = dactor d)); [rewrite decide_True by tauto|rewrite decide_False by tauto]; done.
            - rewrite lookup_insert_ne in He1 by done. destruct (Hinv k' e1 He1) as (E1 & _).
              rewrite E1, gdef_mo_entries. fold y. rewrite decide_False by tauto. done. }
          rewrite Hx1 in A1, A2, A3. clear Hx1.
          destruct (decide ((k' = k ∧ m ∈ ms) ∧ a = dactor d)) as [[[-> Hm] ->]|Hn].
          -- (* the new witness *)
             assert (N.max y (dcounter d) = dcounter d) as Hmax by lia. rewrite Hmax in A1, A2, A3.
             destruct (mo_covered (known_ops H K) k m d) eqn:Ec.
             ++ rewrite decide_False by (intros [_ ?]; done).
                apply mo_covered_km in Ec as (c & ks' & Hin & Hk & Hc).
                destruct (pending_covering_km s K c ks' k (dactor d) Hr Hin Hk) as (ks & Hl & Hk2); [lia|].
                rewrite (A2 c ks Hl Hk2 Hc). symmetry.
                destruct Hnp as [?|Hnp]; [done|]. specialize (Hnp c ks Hl Hk2). lia.
             ++ rewrite decide_True by done. rewrite decide_True by done. rewrite Hmax. apply A3.
                intros c ks Hl Hk. destruct (pending_named_km s K c ks k Hr Hl Hk) as (ks' & Hin & Hk').
                destruct (decide (vget c (dactor d) < dcounter d)); [done|].
                assert (mo_covered (known_ops H K) k m d = true); [|congruence].
                apply mo_covered_km. exists c, ks'. split_and!; [done|done|lia].
          -- (* the old witnesses *)
             assert ((if decide ((k' = k ∧ m ∈ ms) ∧ mo_covered (known_ops H K) k' m d = false)
                      then if decide (dactor d = a) then N.max y (dcounter d) else y else y) = y) as ->.
             { destruct (decide _) as [[? _]|]; [|done]. destruct (decide _) as [<-|]; [|done]. tauto. }
             destruct Hnp as [Hy|Hnp]; [lia|]. by apply A3.
        * intros a. specialize (R2 a). etrans; [exact R2|]. destruct (decide (k' = k)) as [->|Hne].
          -- rewrite lookup_insert in He1. injection He1 as <-. cbn [eval oclock].
             rewrite !vapply_get. specialize (V0 a). destruct (decide _); lia.
          -- rewrite lookup_insert_ne in He1 by done. destruct (Hinv k' e1 He1) as (_ & V1 & _).
             specialize (V1 a). pose proof (vapply_mono (mclock s) d a). lia.
  Qed.

  (** the nested clock stays the entry clock *)
  Lemma mo_v4_step_km s K i r : moreach_km H s K → mo_inv_pa H s K → mo_v4 (mentries s) → H !! i = Some r →
    mo_v4 (mentries (mapply vo s (op_val r))).
  Proof using Hmo.
    intros Hr Hinv IH Hi.
    pose proof (mohist_km_shape H Hmo i r Hi) as Hshape.
    destruct (op_val r) as [c ks|d k op] eqn:Ho.
    - cbn [mapply]. rewrite mapply_rm_entries. by apply mo_v4_rm.
    - destruct (up_gate_km s K i r d k op Hr Hi Ho) as (G1 & G2 & G3).
      destruct (decide (i ∈ K)) as [HiK|HiK]; [by rewrite mapply_dedup by auto|].
      specialize (G2 HiK). destruct op as [d' ms|c ms]; [|done]. cbn in Hshape. subst d'.
      rewrite mapply_up_fresh by done. rewrite mapply_deferred_mfold. cbn [mclock mentries mdeferred].
      apply mfold_entries_ind; [intros; by apply mo_v4_rm|]. cbn [mentries].
      destruct (inv_default_km s K k Hr Hinv) as (_ & V0 & D0).
      assert (oclock (eval (default (MEntry ∅ (v_default vo)) (mentries s !! k))) =
              eclock (default (MEntry ∅ (v_default vo)) (mentries s !! k))) as E0.
      { destruct (mentries s !! k) as [e|] eqn:E; cbn; [by apply (IH k)|done]. }
      set (e0 := default (MEntry ∅ (v_default vo)) (mentries s !! k)) in *.
      intros k' e'. destruct (decide (k' = k)) as [->|Hne].
      + rewrite lookup_insert. intros [= <-]. change (oclock (oapply (eval e0) (OAdd d ms)) = vapply (eclock e0) d).
        rewrite (nested_add_pa (eval e0) d ms D0) by (specialize (V0 (dactor d)); lia).
        cbn [oclock]. by rewrite E0.
      + rewrite lookup_insert_ne by done. apply IH.
  Qed.
End main.

(** * Part 2: the per-key step of [mmerge] *)
Lemma omerge_nopending c1 t1 c2 t2 :
  omerge (Orswot c1 t1 ∅) (Orswot c2 t2 ∅) = Orswot (vmerge c1 c2) (merge (omerge_entry c1 c2) t1 t2) ∅.
Proof.
  unfold omerge. cbn [oclock oentries odeferred]. rewrite map_fold_empty. cbn [oclock oentries odeferred].
  unfold oapply_deferred. cbn [oclock oentries odeferred]. by rewrite map_fold_empty.
Qed.

Lemma vget_wopt X a : vget (default ∅ (if vis_empty X then None else Some X)) a = vget X a.
Proof. destruct (vis_empty X) eqn:E; [|done]. apply vis_empty_spec in E. by rewrite E. Qed.

Lemma gdef_empty m a : gdef ∅ m a = 0.
Proof. unfold gdef. by rewrite lookup_empty. Qed.

Lemma gdef_omerge c1 c2 t1 t2 m a : vwf c1 → vwf c2 → eswf t1 → eswf t2 →
  gdef (merge (omerge_entry c1 c2) t1 t2) m a =
    if gdef t1 m a =? gdef t2 m a then gdef t1 m a
    else N.max (if gdef t2 m a <=? vget c1 a then 0 else gdef t2 m a)
               (if gdef t1 m a <=? vget c2 a then 0 else gdef t1 m a).
Proof.
  intros Hc1 Hc2 Hw1 Hw2. unfold gdef. rewrite lookup_merge.
  destruct (t1 !! m) as [x|] eqn:E1, (t2 !! m) as [y|] eqn:E2; cbn [diag_None omerge_entry default id].
  - rewrite vget_wopt. unfold vclone_without. rewrite !vmerge_get, vintersection_get, !vreset_get.
    repeat case_match; lia.
  - rewrite vget_empty. destruct (Hw1 m x E1) as [Wx _]. destruct (vge c2 x) eqn:Eg; cbn [default id].
    + apply vge_spec in Eg; [|done..]. specialize (Eg a). rewrite vget_empty. repeat case_match; lia.
    + rewrite vreset_get. repeat case_match; lia.
  - rewrite vget_empty. destruct (Hw2 m y E2) as [Wy _]. destruct (vge c1 y) eqn:Eg; cbn [default id].
    + apply vge_spec in Eg; [|done..]. specialize (Eg a). rewrite vget_empty. repeat case_match; lia.
    + rewrite vreset_get. repeat case_match; lia.
  - rewrite vget_empty. repeat case_match; lia.
Qed.

Lemma eswf_omerge c1 c2 t1 t2 : vwf c1 → vwf c2 → eswf t1 → eswf t2 → eswf (merge (omerge_entry c1 c2) t1 t2).
Proof.
  intros Hc1 Hc2 Hw1 Hw2 m mc. rewrite lookup_merge.
  destruct (t1 !! m) as [x|] eqn:E1, (t2 !! m) as [y|] eqn:E2; cbn [diag_None omerge_entry]; [| | |done].
  - destruct (Hw1 m x E1) as [Wx _], (Hw2 m y E2) as [Wy _].
    destruct (vis_empty _) eqn:E; [done|]. intros [= <-]. split; [|by apply vis_empty_false].
    unfold vclone_without. repeat apply vmerge_wf; try apply vreset_wf; try done. by apply vintersection_wf.
  - destruct (Hw1 m x E1) as [Wx _]. destruct (vge c2 x) eqn:Eg; [done|]. intros [= <-].
    split; [by apply vreset_wf|]. by apply vreset_not_empty'.
  - destruct (Hw2 m y E2) as [Wy _]. destruct (vge c1 y) eqn:Eg; [done|]. intros [= <-].
    split; [by apply vreset_wf|]. by apply vreset_not_empty'.
Qed.

(** the entry clock and the witness counter the per-key step of [mmerge] computes, per actor:
    [c] map clocks, [e] entry clocks (= nested clocks), [w] witness counters of a member; side 1
    is [self], side 2 is [other]; an absent entry has [e = w = 0] *)
Definition kmC (c1 e1 c2 e2 : N) : N :=
  N.max (N.max (if e2 =? e1 then e2 else 0) (if e2 <=? c1 then 0 else e2)) (if e1 <=? c2 then 0 else e1).
Definition kmF (c1 e1 w1 c2 e2 w2 : N) : N :=
  let om := if w1 =? w2 then w1 else N.max (if w2 <=? e1 then 0 else w2) (if w1 <=? e2 then 0 else w1) in
  let del := if N.max e2 e1 <=? kmC c1 e1 c2 e2 then 0 else N.max e2 e1 in
  if om <=? del then 0 else om.

Definition entry_ok (c : gmap N N) (e : mentry orswot) : Prop :=
  vwf (eclock e) ∧ vleq (eclock e) c ∧ oclock (eval e) = eclock e ∧ odeferred (eval e) = ∅ ∧
  eswf (oentries (eval e)) ∧ ∀ m a, gdef (oentries (eval e)) m a <= vget (eclock e) a.

Definition edef (x : option (mentry orswot)) : mentry orswot := default (MEntry ∅ onew) x.

Lemma entry_ok_eval c e : entry_ok c e → eval e = Orswot (eclock e) (oentries (eval e)) ∅.
Proof. intros (_ & _ & E1 & E2 & _). destruct (eval e) as [oc t d]. cbn in *. by subst. Qed.

Lemma mmerge_entry_km c1 c2 x1 x2 e0 : vwf c1 → vwf c2 →
  (∀ e, x1 = Some e → entry_ok c1 e) → (∀ e, x2 = Some e → entry_ok c2 e) →
  mmerge_entry vo c1 c2 x1 x2 = Some e0 →
  odeferred (eval e0) = ∅ ∧ oclock (eval e0) = eclock e0 ∧ eswf (oentries (eval e0)) ∧
  ∀ m a, gdef (oentries (eval e0)) m a =
     kmF (vget c1 a) (vget (eclock (edef x1)) a) (gdef (oentries (eval (edef x1))) m a)
         (vget c2 a) (vget (eclock (edef x2)) a) (gdef (oentries (eval (edef x2))) m a).
Proof.
  intros Hc1 Hc2 H1 H2. destruct x1 as [e1|], x2 as [e2|]; cbn [mmerge_entry edef default id]; [| | |done].
  - specialize (H1 e1 eq_refl). specialize (H2 e2 eq_refl).
    pose proof (entry_ok_eval _ _ H1) as V1. pose proof (entry_ok_eval _ _ H2) as V2.
    destruct H1 as (W1 & L1 & _ & _ & S1 & G1), H2 as (W2 & L2 & _ & _ & S2 & G2).
    set (t1 := oentries (eval e1)) in *. set (t2 := oentries (eval e2)) in *.
    destruct (vis_empty _) eqn:Ee; [done|]. intros [= <-]. cbn [eval eclock v_reset v_merge orswot_valops].
    rewrite V1, V2, omerge_nopending.
    set (common := vmerge (vmerge (vintersection (eclock e2) (eclock e1)) (vclone_without (eclock e2) c1))
                          (vclone_without (eclock e1) c2)) in *.
    set (deleted := vreset (vmerge (eclock e2) (eclock e1)) common).
    assert (∀ a, vget common a = kmC (vget c1 a) (vget (eclock e1) a) (vget c2 a) (vget (eclock e2) a)) as Hcm.
    { intros a. unfold common, vclone_without. by rewrite !vmerge_get, vintersection_get, !vreset_get. }
    assert (vwf common) as Wc.
    { unfold common, vclone_without. repeat apply vmerge_wf; try apply vreset_wf; try done. by apply vintersection_wf. }
    split_and!.
    + cbn [oreset odeferred]. apply oreset_deferred_empty.
    + cbn [oreset oclock]. apply vwf_ext; [apply vreset_wf; by apply vmerge_wf|done|].
      intros a. unfold deleted. rewrite !vreset_get, !vmerge_get, Hcm. unfold kmC.
      specialize (L1 a). specialize (L2 a). repeat case_match; lia.
    + apply eswf_oreset. cbn [oentries]. by apply eswf_omerge.
    + intros m a. rewrite gdef_oreset. cbn [oentries]. rewrite gdef_omerge by done.
      unfold deleted. rewrite vreset_get, vmerge_get, Hcm. cbn [oentries]. reflexivity.
  - specialize (H1 e1 eq_refl). pose proof (entry_ok_eval _ _ H1) as V1.
    destruct H1 as (W1 & L1 & E1 & D1 & S1 & G1).
    destruct (vge c2 (eclock e1)) eqn:Eg; [done|]. intros [= <-]. cbn [eval eclock v_reset orswot_valops].
    split_and!.
    + cbn [oreset odeferred]. rewrite D1. apply oreset_deferred_empty.
    + cbn [oreset oclock]. rewrite E1. apply vwf_ext; [by apply vreset_wf|by apply vreset_wf|].
      intros a. rewrite !vreset_get. specialize (L1 a). repeat case_match; lia.
    + by apply eswf_oreset.
    + intros m a. rewrite gdef_oreset, !vreset_get. cbn [onew oentries]. rewrite vget_empty, gdef_empty.
      unfold kmF, kmC. specialize (L1 a). specialize (G1 m a). repeat case_match; lia.
  - specialize (H2 e2 eq_refl). pose proof (entry_ok_eval _ _ H2) as V2.
    destruct H2 as (W2 & L2 & E2 & D2 & S2 & G2).
    destruct (vge c1 (eclock e2)) eqn:Eg; [done|]. intros [= <-]. cbn [eval eclock v_reset orswot_valops].
    split_and!.
    + cbn [oreset odeferred]. rewrite D2. apply oreset_deferred_empty.
    + cbn [oreset oclock]. rewrite E2. apply vwf_ext; [by apply vreset_wf|by apply vreset_wf|].
      intros a. rewrite !vreset_get. specialize (L2 a). repeat case_match; lia.
    + by apply eswf_oreset.
    + intros m a. rewrite gdef_oreset, !vreset_get. cbn [onew oentries]. rewrite vget_empty, gdef_empty.
      unfold kmF, kmC. specialize (L2 a). specialize (G2 m a). repeat case_match; lia.
Qed.

(** replaying a pending table from any start state *)
Lemma mfold_vrel_gen (s0 : cmap orswot) D :
  (∀ k e1, mentries s0 !! k = Some e1 → odeferred (eval e1) = ∅ ∧ eswf (oentries (eval e1))) →
  ∀ k e, mentries (mfold vo s0 D) !! k = Some e →
    ∃ e1, mentries s0 !! k = Some e1 ∧ vrel D k (eval e1) (eval e).
Proof.
  intros Hes. unfold mfold.
  apply (map_fold_ind (λ r D', ∀ k e, mentries r !! k = Some e →
           ∃ e1, mentries s0 !! k = Some e1 ∧ vrel D' k (eval e1) (eval e))).
  - intros k e He. exists e. split; [done|]. destruct (Hes k e He). by apply vrel_refl.
  - intros c ks D' r Hc IH k e. rewrite mapply_rm_entries, mrm_entries_lookup.
    destruct (mentries r !! k) as [e0|] eqn:E0; [|done]. cbn [mbind option_bind].
    destruct (IH k e0 E0) as (e1 & He1 & Hrel). case_bool_decide as Hk.
    + destruct (vis_empty _); [done|]. intros [= <-]. exists e1. split; [done|]. cbn [eval v_reset orswot_valops].
      by apply vrel_reset.
    + intros [= <-]. exists e1. split; [done|]. by apply vrel_keep.
Qed.

(** the entries of a merge: the per-key step, then the replay of both pending tables *)
Lemma mmerge_entries_vrel (s1 s2 : cmap orswot) k e :
  (∀ k e0, merge (mmerge_entry vo (mclock s1) (mclock s2)) (mentries s1) (mentries s2) !! k = Some e0 →
     odeferred (eval e0) = ∅ ∧ oclock (eval e0) = eclock e0 ∧ eswf (oentries (eval e0))) →
  mentries (mmerge vo s1 s2) !! k = Some e →
  ∃ e0, mmerge_entry vo (mclock s1) (mclock s2) (mentries s1 !! k) (mentries s2 !! k) = Some e0 ∧
    oclock (eval e) = eclock e ∧ odeferred (eval e) = ∅ ∧ eswf (oentries (eval e)) ∧
    ∀ m a, let x0 := gdef (oentries (eval e0)) m a in let x := gdef (oentries (eval e)) m a in
      (x = 0 ∨ x = x0) ∧
      (∀ c ks, (mdeferred s1 !! c = Some ks ∨ mdeferred s2 !! c = Some ks) → k ∈ ks → x0 <= vget c a → x = 0) ∧
      ((∀ c ks, (mdeferred s1 !! c = Some ks ∨ mdeferred s2 !! c = Some ks) → k ∈ ks → vget c a < x0) → x = x0).
Proof.
  intros Hm. rewrite mmerge_unfold. cbn zeta. rewrite mapply_deferred_mfold. cbn [mclock mentries mdeferred].
  set (E0 := merge (mmerge_entry vo (mclock s1) (mclock s2)) (mentries s1) (mentries s2)) in *.
  set (sa := mfold vo (CMap (mclock s1) E0 (mdeferred s1)) (mdeferred s2)).
  assert (mo_v4 (mentries sa)) as V4a.
  { apply mfold_entries_ind; [intros; by apply mo_v4_rm|]. intros k0 e0 He0. by destruct (Hm k0 e0 He0) as (_ & ? & _). }
  assert (∀ k e', mentries sa !! k = Some e' →
            ∃ e0, E0 !! k = Some e0 ∧ vrel (mdeferred s2) k (eval e0) (eval e')) as Ha.
  { apply (mfold_vrel_gen (CMap (mclock s1) E0 (mdeferred s1))). intros k0 e0 He0. cbn [mentries] in He0.
    by destruct (Hm k0 e0 He0) as (? & _ & ?). }
  intros He.
  assert (mo_v4 (mentries (mfold vo (CMap (vmerge (mclock s1) (mclock s2)) (mentries sa) ∅) (mdeferred sa)))) as V4b.
  { apply mfold_entries_ind; [intros; by apply mo_v4_rm|]. done. }
  pose proof (V4b k e He) as V4e.
  apply mfold_vrel_gen in He as (e' & He' & (R1 & R2 & R3 & R4)).
  2:{ intros k0 e1 He1. cbn [mentries] in He1. destruct (Ha k0 e1 He1) as (e0 & _ & (Q1 & _ & Q3 & _)). done. }
  cbn [mentries] in He'. destruct (Ha k e' He') as (e0 & He0 & (Q1 & Q2 & Q3 & Q4)).
  exists e0. split; [by rewrite <- mmerge_entries_lookup|]. split; [done|]. split; [done|]. split; [done|].
  intros m a. cbn zeta. destruct (R4 m a) as (A1 & A2 & A3), (Q4 m a) as (B1 & B2 & B3).
  set (x0 := gdef (oentries (eval e0)) m a) in *. set (x' := gdef (oentries (eval e')) m a) in *.
  set (x := gdef (oentries (eval e)) m a) in *.
  assert (∀ c ks, mdeferred sa !! c = Some ks → k ∈ ks →
            ∃ ks', (mdeferred s1 !! c = Some ks' ∨ mdeferred s2 !! c = Some ks') ∧ k ∈ ks') as Hfin.
  { intros c ks. unfold sa. rewrite mfold_deferred. cbn [mclock mdeferred].
    destruct (mdeferred s2 !! c) as [ks2|] eqn:E2.
    - destruct (vge (mclock s1) c); [intros Hl Hk; exists ks; by split; [left|]|].
      intros [= <-] [Hk|Hk]%elem_of_union.
      + destruct (mdeferred s1 !! c) as [ks1|]; cbn in Hk; [|set_solver]. exists ks1. by split; [left|].
      + exists ks2. by split; [right|].
    - intros Hl Hk. exists ks. by split; [left|]. }
  assert (∀ c ks, mdeferred s1 !! c = Some ks → k ∈ ks → ∃ ks', mdeferred sa !! c = Some ks' ∧ k ∈ ks') as Hsub.
  { intros c ks Hl Hk. unfold sa. rewrite mfold_deferred. cbn [mclock mdeferred]. rewrite Hl.
    destruct (mdeferred s2 !! c) as [ks2|]; [|by exists ks].
    destruct (vge (mclock s1) c); [by exists ks|]. eexists. split; [done|]. cbn. set_solver. }
  split_and!.
  - lia.
  - intros c ks [Hl|Hl] Hk Hle.
    + destruct (Hsub c ks Hl Hk) as (ks' & Hl' & Hk'). destruct B1 as [B1|B1]; [lia|].
      apply (A2 c ks' Hl' Hk'). lia.
    + assert (x' = 0) by (by apply (B2 c ks Hl Hk)). lia.
  - intros Hall. assert (x' = x0) as Hx'.
    { apply B3. intros c ks Hl Hk. apply (Hall c ks); [by right|done]. }
    rewrite <- Hx'. apply A3. intros c ks Hl Hk. destruct (Hfin c ks Hl Hk) as (ks' & Hl' & Hk').
    rewrite Hx'. by apply (Hall c ks').
Qed.

(** * Part 3: arithmetic of the per-key step in the two cases of the fragment *)

(** a key no remove names: nothing is ever covered, the step computes the join *)
Lemma kmF_unnamed c1 e1 w1 c2 e2 w2 :
  w1 <= e1 → e1 <= c1 → w2 <= e2 → e2 <= c2 →
  (e2 <= c1 → e2 <= e1) → (e1 <= c2 → e1 <= e2) → (w2 <= c1 → w2 <= w1) → (w1 <= c2 → w1 <= w2) →
  kmF c1 e1 w1 c2 e2 w2 = N.max w1 w2.
Proof. intros. unfold kmF, kmC. repeat case_match; lia. Qed.

(** a key updated once by the actor, with dot counter [n]: [k] = the side knows the update,
    [v] = a key remove the side knows covers it *)
Lemma kmF_named n c1 c2 (k1 v1 k2 v2 : bool) : 0 < n →
  k1 = (n <=? c1) → k2 = (n <=? c2) →
  let e1 := if k1 && negb v1 then n else 0 in
  let e2 := if k2 && negb v2 then n else 0 in
  kmF c1 e1 e1 c2 e2 e2 =
    if (k1 && negb v1 && k2 && negb v2) || (k1 && negb v1 && negb k2) || (k2 && negb v2 && negb k1) then n else 0.
Proof.
  intros Hn -> ->. cbn zeta. unfold kmF, kmC.
  destruct (n <=? c1) eqn:E1, v1, (n <=? c2) eqn:E2, v2; cbn [andb orb negb]; repeat case_match; lia.
Qed.

Lemma max_ctr_sub ds ds' a : (∀ d, d ∈ ds → dactor d = a → d ∈ ds') → max_ctr ds a <= max_ctr ds' a.
Proof. intros Hs. apply max_ctr_le_iff. intros d Hd Ha. apply max_ctr_ge; [|done]. by apply Hs. Qed.


Print Assumptions mohist_km_maphist.
Print Assumptions mohist_km_shape.
Print Assumptions mo_step_km.
Print Assumptions mo_v4_step_km.
Print Assumptions gdef_omerge.
Print Assumptions mmerge_entry_km.
Print Assumptions mfold_vrel_gen.
Print Assumptions mmerge_entries_vrel.
Print Assumptions kmF_unnamed.
Print Assumptions kmF_named.
