(** Order and density properties of the identifier model
    (model/Identifier.v, i.e. src/identifier.rs). *)
From Coq Require Import QArith Qcanon Sorted.
From stdpp Require Import sorting.
From Crdt Require Import model.Identifier.

(** * Rationals *)

Lemma qcmp_refl (a : Qc) : qcmp a a = Eq.
Proof. unfold qcmp. by apply Qceq_alt. Qed.
Lemma qcmp_eq (a b : Qc) : qcmp a b = Eq → a = b.
Proof. unfold qcmp. by intros ?%Qceq_alt. Qed.
Lemma qcmp_Eq_iff (a b : Qc) : qcmp a b = Eq ↔ a = b.
Proof. split; [apply qcmp_eq|intros ->; apply qcmp_refl]. Qed.
Lemma qcmp_Lt_iff (a b : Qc) : qcmp a b = Lt ↔ (a < b)%Qc.
Proof. unfold qcmp. symmetry. apply Qclt_alt. Qed.
Lemma qcmp_Gt_iff (a b : Qc) : qcmp a b = Gt ↔ (b < a)%Qc.
Proof. unfold qcmp. symmetry. apply Qcgt_alt. Qed.
Lemma qcmp_antisym (a b : Qc) : qcmp b a = CompOpp (qcmp a b).
Proof. unfold qcmp, Qccompare. symmetry. apply Qcompare_antisym. Qed.
Lemma qcmp_trans (a b c : Qc) : qcmp a b = Lt → qcmp b c = Lt → qcmp a c = Lt.
Proof. rewrite !qcmp_Lt_iff. apply Qclt_trans. Qed.

Lemma Qc_lt_succ (l : Qc) : (l < l + Q2Qc 1)%Qc.
Proof.
  apply Qclt_minus_iff.
  replace (l + Q2Qc 1 + - l)%Qc with (Q2Qc 1) by ring. done.
Qed.
Lemma Qc_pred_lt (h : Qc) : (h - Q2Qc 1 < h)%Qc.
Proof.
  apply Qclt_minus_iff.
  replace (h + - (h - Q2Qc 1))%Qc with (Q2Qc 1) by ring. done.
Qed.
Lemma Qc_mid_double (l h : Qc) :
  ((l + h) / qtwo + (l + h) / qtwo = l + h)%Qc.
Proof. unfold qtwo. field. discriminate. Qed.
Lemma Qc_mid_lt_l (l h : Qc) : (l < h → l < (l + h) / qtwo)%Qc.
Proof.
  intros Hlh. apply Qclt_nge. intros Hle.
  assert ((l + h) / qtwo + (l + h) / qtwo <= l + l)%Qc as H
    by by apply Qcplus_le_compat.
  rewrite Qc_mid_double in H. revert H. apply Qclt_not_le.
  by apply Qcplus_lt_mono_l.
Qed.
Lemma Qc_mid_lt_r (l h : Qc) : (l < h → (l + h) / qtwo < h)%Qc.
Proof.
  intros Hlh. apply Qclt_nge. intros Hle.
  assert (h + h <= (l + h) / qtwo + (l + h) / qtwo)%Qc as H
    by by apply Qcplus_le_compat.
  rewrite Qc_mid_double in H. revert H. apply Qclt_not_le.
  by apply Qcplus_lt_mono_r.
Qed.

(** [rational_between] is strictly between its arguments. *)
Lemma rational_between_lt_l l oh :
  match oh with Some h => (l < h)%Qc | None => True end →
  (l < rational_between (Some l) oh)%Qc.
Proof. destruct oh; simpl; auto using Qc_mid_lt_l, Qc_lt_succ. Qed.
Lemma rational_between_lt_r ol h :
  match ol with Some l => (l < h)%Qc | None => True end →
  (rational_between ol (Some h) < h)%Qc.
Proof. destruct ol; simpl; auto using Qc_mid_lt_r, Qc_pred_lt. Qed.

(** * The order on identifiers, generic in the marker order *)
Section order.
  Context {T : Type} (tcmp : T → T → comparison).
  Notation ident := (list (Qc * T)).

  Hypothesis tcmp_refl : ∀ x, tcmp x x = Eq.
  Hypothesis tcmp_eq : ∀ x y, tcmp x y = Eq → x = y.
  Hypothesis tcmp_antisym : ∀ x y, tcmp y x = CompOpp (tcmp x y).
  Hypothesis tcmp_trans : ∀ x y z, tcmp x y = Lt → tcmp y z = Lt → tcmp x z = Lt.

  (** ** Nodes *)
  Lemma nodecmp_refl x : nodecmp tcmp x x = Eq.
  Proof. unfold nodecmp. by rewrite qcmp_refl. Qed.
  Lemma nodecmp_eq x y : nodecmp tcmp x y = Eq → x = y.
  Proof.
    destruct x as [xr xm], y as [yr ym]. unfold nodecmp; simpl.
    destruct (qcmp xr yr) eqn:Hq; try done.
    intros ?%tcmp_eq. apply qcmp_eq in Hq. congruence.
  Qed.
  Lemma nodecmp_antisym x y : nodecmp tcmp y x = CompOpp (nodecmp tcmp x y).
  Proof.
    unfold nodecmp. rewrite (qcmp_antisym x.1 y.1).
    destruct (qcmp x.1 y.1); simpl; auto.
  Qed.
  Lemma nodecmp_Lt x y :
    nodecmp tcmp x y = Lt ↔ (x.1 < y.1)%Qc ∨ x.1 = y.1 ∧ tcmp x.2 y.2 = Lt.
  Proof.
    unfold nodecmp. destruct (qcmp x.1 y.1) eqn:Hq.
    - apply qcmp_eq in Hq. split; [auto|]. intros [Hlt|[_ ?]]; [|done].
      rewrite Hq in Hlt. by apply Qclt_not_eq in Hlt.
    - apply qcmp_Lt_iff in Hq. split; auto.
    - apply qcmp_Gt_iff in Hq. split; [done|]. intros [Hlt|[He _]].
      + destruct (Qclt_not_le _ _ Hq). by apply Qclt_le_weak.
      + rewrite He in Hq. by apply Qclt_not_eq in Hq.
  Qed.
  Lemma nodecmp_trans x y z :
    nodecmp tcmp x y = Lt → nodecmp tcmp y z = Lt → nodecmp tcmp x z = Lt.
  Proof.
    rewrite !nodecmp_Lt. intros [H1|[H1 H1']] [H2|[H2 H2']].
    - left. by eapply Qclt_trans.
    - left. by rewrite <-H2.
    - left. by rewrite H1.
    - right. split; [congruence|]. by eapply tcmp_trans.
  Qed.

  (** ** Paths: [idcmp] is a strict total order whose [Eq] is Leibniz
      equality.  The empty path is the greatest element. *)
  Lemma idcmp_refl a : idcmp tcmp a a = Eq.
  Proof. induction a as [|x a IH]; simpl; [done|]. by rewrite nodecmp_refl. Qed.
  Lemma idcmp_eq a b : idcmp tcmp a b = Eq → a = b.
  Proof.
    revert b. induction a as [|x a IH]; intros [|y b]; simpl; try done.
    destruct (nodecmp tcmp x y) eqn:Hn; try done.
    intros ?%IH. apply nodecmp_eq in Hn. congruence.
  Qed.
  Lemma idcmp_antisym a b : idcmp tcmp b a = CompOpp (idcmp tcmp a b).
  Proof.
    revert b. induction a as [|x a IH]; intros [|y b]; simpl; try done.
    rewrite (nodecmp_antisym x y). destruct (nodecmp tcmp x y); simpl; auto.
  Qed.
  Lemma idcmp_trans a b c :
    idcmp tcmp a b = Lt → idcmp tcmp b c = Lt → idcmp tcmp a c = Lt.
  Proof.
    revert b c. induction a as [|x a IH]; intros [|y b] [|z c]; simpl; try done.
    destruct (nodecmp tcmp x y) eqn:Hxy; try done;
      destruct (nodecmp tcmp y z) eqn:Hyz; try done.
    - apply nodecmp_eq in Hyz. subst. rewrite Hxy. apply IH.
    - apply nodecmp_eq in Hxy. subst. by rewrite Hyz.
    - apply nodecmp_eq in Hyz. subst. by rewrite Hxy.
    - by rewrite (nodecmp_trans _ _ _ Hxy Hyz).
  Qed.

  Lemma idcmp_Eq_iff a b : idcmp tcmp a b = Eq ↔ a = b.
  Proof. split; [apply idcmp_eq|intros ->; apply idcmp_refl]. Qed.
  Lemma idcmp_Gt_iff a b : idcmp tcmp a b = Gt ↔ idcmp tcmp b a = Lt.
  Proof. rewrite (idcmp_antisym a b). destruct (idcmp tcmp a b); by simpl. Qed.
  Lemma idcmp_lt_irrefl a : idcmp tcmp a a ≠ Lt.
  Proof. by rewrite idcmp_refl. Qed.
  Lemma idcmp_lt_asym a b : idcmp tcmp a b = Lt → idcmp tcmp b a ≠ Lt.
  Proof. intros H. rewrite idcmp_antisym, H. by simpl. Qed.
  Lemma idcmp_lt_neq a b : idcmp tcmp a b = Lt → a ≠ b.
  Proof. intros H ->. by rewrite idcmp_refl in H. Qed.
  Lemma idcmp_trichotomy a b :
    idcmp tcmp a b = Lt ∨ a = b ∨ idcmp tcmp b a = Lt.
  Proof.
    destruct (idcmp tcmp a b) eqn:H; [right; left|left|right; right]; auto.
    - by apply idcmp_eq.
    - by apply idcmp_Gt_iff.
  Qed.
  Lemma idcmp_neq_Eq a b : a ≠ b → idcmp tcmp a b ≠ Eq.
  Proof. intros Hne ?%idcmp_eq. done. Qed.
  (** [[]] is the greatest element (no hypotheses on [tcmp]). *)
  Lemma idcmp_nil_r a : a ≠ [] → idcmp tcmp a [] = Lt.
  Proof. by destruct a. Qed.
  Lemma idcmp_nil_r_iff a : idcmp tcmp a [] = Lt ↔ a ≠ [].
  Proof. by destruct a. Qed.
  Lemma idcmp_nil_l a : idcmp tcmp [] a ≠ Lt.
  Proof. by destruct a. Qed.
  Lemma idlt_spec a b : idlt tcmp a b = true ↔ idcmp tcmp a b = Lt.
  Proof. unfold idlt. by destruct (idcmp tcmp a b). Qed.
  Lemma idlt_false a b : idlt tcmp a b = false ↔ idcmp tcmp a b ≠ Lt.
  Proof. unfold idlt. by destruct (idcmp tcmp a b). Qed.

  (** On one-node paths with the same rational [idcmp] is [tcmp]: so each
      hypothesis on [tcmp] is also necessary for the corresponding property
      of [idcmp] (no hypotheses used here). *)
  Lemma idcmp_singleton q x y : idcmp tcmp [(q, x)] [(q, y)] = tcmp x y.
  Proof. simpl. unfold nodecmp; simpl. rewrite qcmp_refl. by destruct (tcmp x y). Qed.
  Lemma idcmp_refl_inv : (∀ a, idcmp tcmp a a = Eq) → ∀ x, tcmp x x = Eq.
  Proof. intros H x. by rewrite <-(idcmp_singleton (Q2Qc 0)). Qed.
  Lemma idcmp_eq_inv :
    (∀ a b, idcmp tcmp a b = Eq → a = b) → ∀ x y, tcmp x y = Eq → x = y.
  Proof.
    intros H x y Hxy. rewrite <-(idcmp_singleton (Q2Qc 0)) in Hxy.
    apply H in Hxy. congruence.
  Qed.
  Lemma idcmp_antisym_inv :
    (∀ a b, idcmp tcmp b a = CompOpp (idcmp tcmp a b)) →
    ∀ x y, tcmp y x = CompOpp (tcmp x y).
  Proof. intros H x y. by rewrite <-!(idcmp_singleton (Q2Qc 0)). Qed.
  Lemma idcmp_trans_inv :
    (∀ a b c, idcmp tcmp a b = Lt → idcmp tcmp b c = Lt → idcmp tcmp a c = Lt) →
    ∀ x y z, tcmp x y = Lt → tcmp y z = Lt → tcmp x z = Lt.
  Proof. intros H x y z. rewrite <-!(idcmp_singleton (Q2Qc 0)). apply H. Qed.

  (** ** [walk]: the loop of [between] *)
  Lemma walk_nil_l high m :
    walk tcmp [] high m = [(rational_between None (fst <$> head high), m)].
  Proof. by destruct high as [|[??]?]. Qed.
  Lemma walk_nil_r low m :
    walk tcmp low [] m = [(rational_between (fst <$> head low) None, m)].
  Proof. by destruct low as [|[??]?]. Qed.

  (** The diverged state: the single fresh node is below [high]. *)
  Lemma walk_nil_lt high m : idcmp tcmp (walk tcmp [] high m) high = Lt.
  Proof.
    rewrite walk_nil_l. destruct high as [|[hr hm] high]; simpl; [done|].
    unfold nodecmp; simpl.
    by rewrite (proj2 (qcmp_Lt_iff _ _) (Qc_pred_lt hr)).
  Qed.

  Lemma walk_between low high m :
    idcmp tcmp low high = Lt →
    idcmp tcmp low (walk tcmp low high m) = Lt ∧
    idcmp tcmp (walk tcmp low high m) high = Lt.
  Proof.
    revert low. induction high as [|[hr hm] high IH]; intros [|[lr lm] low] Hlt;
      try done.
    - (* [high = []]: append a node above [low]'s head *)
      simpl. unfold nodecmp; simpl.
      by rewrite (proj2 (qcmp_Lt_iff _ _) (Qc_lt_succ lr)).
    - simpl in Hlt. unfold nodecmp in Hlt; simpl in Hlt.
      cbn [walk]. destruct (qcmp lr hr) eqn:Hq; [| |done].
      + (* same rational *)
        assert (idcmp tcmp ((lr, lm) :: low)
                  (match tcmp lm hm with
                   | Eq => (hr, hm) :: walk tcmp low high m
                   | _ => (hr, hm) :: walk tcmp [] high m
                   end) = Lt ∧
                idcmp tcmp
                  (match tcmp lm hm with
                   | Eq => (hr, hm) :: walk tcmp low high m
                   | _ => (hr, hm) :: walk tcmp [] high m
                   end) ((hr, hm) :: high) = Lt) as Helse.
        { destruct (tcmp lm hm) eqn:Ht; [| |done].
          - destruct (IH _ Hlt) as [IH1 IH2]. simpl. unfold nodecmp; simpl.
            by rewrite Hq, Ht, qcmp_refl, tcmp_refl.
          - simpl. unfold nodecmp; simpl.
            rewrite Hq, Ht, qcmp_refl, tcmp_refl. split; [done|].
            apply walk_nil_lt. }
        destruct (tcmp lm m) eqn:Hlm; try exact Helse.
        destruct (tcmp m hm) eqn:Hmh; try exact Helse.
        simpl. unfold nodecmp; simpl. by rewrite Hq, Hlm, qcmp_refl, Hmh.
      + (* fork on the rational *)
        apply qcmp_Lt_iff in Hq. simpl. unfold nodecmp; simpl.
        rewrite (proj2 (qcmp_Lt_iff _ _) (Qc_mid_lt_l _ _ Hq)).
        by rewrite (proj2 (qcmp_Lt_iff _ _) (Qc_mid_lt_r _ _ Hq)).
  Qed.

  (** The last node of [walk] always carries the marker. *)
  Lemma walk_value low high m : idvalue (walk tcmp low high m) = Some m.
  Proof.
    unfold idvalue. revert low.
    induction high as [|[hr hm] high IH]; intros low.
    { by rewrite walk_nil_r. }
    destruct low as [|[lr lm] low]; [done|].
    cbn [walk]. destruct (qcmp lr hr); try done.
    assert (∀ l, snd <$> last l = Some m →
                 snd <$> last ((hr, hm) :: l) = Some m) as Hcons.
    { intros l. rewrite last_cons. by destruct (last l). }
    destruct (tcmp lm m), (tcmp m hm), (tcmp lm hm); try done; by apply Hcons.
  Qed.
  Lemma walk_nonempty low high m : walk tcmp low high m ≠ [].
  Proof. intros H. pose proof (walk_value low high m) as Hv. by rewrite H in Hv. Qed.

  (** ** [between] *)
  (** Density.  No non-emptiness hypothesis: [[]] is the greatest element. *)
  Theorem between_density low high m :
    idcmp tcmp low high = Lt →
    idcmp tcmp low (between tcmp (Some low) (Some high) m) = Lt ∧
    idcmp tcmp (between tcmp (Some low) (Some high) m) high = Lt.
  Proof. intros Hlt. unfold between. rewrite Hlt. by apply walk_between. Qed.

  Theorem between_sym low high m :
    idcmp tcmp low high = Lt →
    between tcmp (Some high) (Some low) m = between tcmp (Some low) (Some high) m.
  Proof. intros Hlt. unfold between. by rewrite (idcmp_antisym low high), Hlt. Qed.
  (** Unconditional commutativity of the two-sided call. *)
  Theorem between_comm a b m :
    between tcmp (Some a) (Some b) m = between tcmp (Some b) (Some a) m.
  Proof.
    unfold between. rewrite (idcmp_antisym a b).
    destruct (idcmp tcmp a b) eqn:H; simpl; try done.
    symmetry. by apply idcmp_eq.
  Qed.
  Theorem between_same x m : between tcmp (Some x) (Some x) m = x.
  Proof. unfold between. by rewrite idcmp_refl. Qed.
  (** Density for arbitrary distinct arguments, in either order. *)
  Theorem between_density_neq a b m :
    a ≠ b →
    let c := between tcmp (Some a) (Some b) m in
    (idcmp tcmp a c = Lt ∧ idcmp tcmp c b = Lt) ∨
    (idcmp tcmp b c = Lt ∧ idcmp tcmp c a = Lt).
  Proof.
    intros Hne c. destruct (idcmp_trichotomy a b) as [H|[H|H]]; [|done|].
    - left. by apply between_density.
    - right. unfold c. rewrite between_comm. by apply between_density.
  Qed.

  (** One-sided and zero-sided calls (no hypotheses on [tcmp]). *)
  Theorem between_low_only low m :
    low ≠ [] → idcmp tcmp low (between tcmp (Some low) None m) = Lt.
  Proof.
    destruct low as [|[lr lm] low]; [done|intros _]. simpl.
    unfold nodecmp; simpl. by rewrite (proj2 (qcmp_Lt_iff _ _) (Qc_lt_succ lr)).
  Qed.
  Theorem between_high_only high m :
    high ≠ [] → idcmp tcmp (between tcmp None (Some high) m) high = Lt.
  Proof.
    destruct high as [|[hr hm] high]; [done|intros _]. simpl.
    unfold nodecmp; simpl. by rewrite (proj2 (qcmp_Lt_iff _ _) (Qc_pred_lt hr)).
  Qed.
  Lemma between_low_only_cons lr lm low m :
    between tcmp (Some ((lr, lm) :: low)) None m = [((lr + Q2Qc 1)%Qc, m)].
  Proof. done. Qed.
  Lemma between_high_only_cons hr hm high m :
    between tcmp None (Some ((hr, hm) :: high)) m = [((hr - Q2Qc 1)%Qc, m)].
  Proof. done. Qed.
  (** [low ≠ []] is needed: nothing is above [[]], and the result is below it. *)
  Theorem between_nil_low m : between tcmp (Some []) None m = [(Q2Qc 0, m)].
  Proof. done. Qed.
  Theorem between_nil_low_lt m :
    idcmp tcmp (between tcmp (Some []) None m) [] = Lt.
  Proof. done. Qed.
  Theorem between_nil_high m : between tcmp None (Some []) m = [(Q2Qc 0, m)].
  Proof. done. Qed.
  (** For [high = []] the one-sided result is still below [high]. *)
  Theorem between_high_only_any high m :
    idcmp tcmp (between tcmp None (Some high) m) high = Lt.
  Proof. destruct high; [done|]. by apply between_high_only. Qed.
  Theorem between_none m : between tcmp None None m = [(Q2Qc 0, m)].
  Proof. done. Qed.

  (** ** The marker of the result *)
  (** [proper_gap lo hi]: the call does not take the [low = high] exit. *)
  Definition proper_gap (lo hi : option ident) : Prop :=
    match lo, hi with
    | Some l, Some h => idcmp tcmp l h ≠ Eq
    | _, _ => True
    end.
  Theorem between_value lo hi m :
    proper_gap lo hi → idvalue (between tcmp lo hi m) = Some m.
  Proof.
    destruct lo as [l|], hi as [h|]; try done. simpl.
    destruct (idcmp tcmp l h); [done|intros _; apply walk_value..].
  Qed.
  Theorem between_value_lt low high m :
    idcmp tcmp low high = Lt →
    idvalue (between tcmp (Some low) (Some high) m) = Some m.
  Proof. intros H. apply between_value. simpl. by rewrite H. Qed.
  Theorem between_value_neq a b m :
    a ≠ b → idvalue (between tcmp (Some a) (Some b) m) = Some m.
  Proof. intros H. apply between_value. simpl. by apply idcmp_neq_Eq. Qed.
  Theorem between_value_low_only low m :
    idvalue (between tcmp (Some low) None m) = Some m.
  Proof. done. Qed.
  Theorem between_value_high_only high m :
    idvalue (between tcmp None (Some high) m) = Some m.
  Proof. done. Qed.
  Theorem between_value_none m : idvalue (between tcmp None None m) = Some m.
  Proof. done. Qed.
  Theorem between_nonempty lo hi m :
    proper_gap lo hi → between tcmp lo hi m ≠ [].
  Proof. intros Hg H. apply (between_value _ _ m) in Hg. by rewrite H in Hg. Qed.
  (** Distinct markers give distinct identifiers. *)
  Corollary between_marker_inj lo hi lo' hi' m m' :
    proper_gap lo hi → proper_gap lo' hi' →
    between tcmp lo hi m = between tcmp lo' hi' m' → m = m'.
  Proof.
    intros Hg Hg' Heq. apply (between_value _ _ m) in Hg.
    apply (between_value _ _ m') in Hg'. congruence.
  Qed.
  Corollary between_marker_neq lo hi lo' hi' m m' :
    proper_gap lo hi → proper_gap lo' hi' → m ≠ m' →
    between tcmp lo hi m ≠ between tcmp lo' hi' m'.
  Proof. intros Hg Hg' Hne Heq. apply Hne. exact (between_marker_inj _ _ _ _ _ _ Hg Hg' Heq). Qed.
  (** The fresh identifier differs from any identifier whose marker is not
      [m] (in particular from every identifier already in a list whose
      markers are all different from [m]). *)
  Corollary between_fresh lo hi m x :
    proper_gap lo hi → idvalue x ≠ Some m → between tcmp lo hi m ≠ x.
  Proof. intros Hg Hx <-. by apply Hx, between_value. Qed.
  (** ** Strictly sorted lists of identifiers ([BTreeSet] / [BTreeMap] keys) *)
  Definition sorted_ids (l : list ident) : Prop :=
    StronglySorted (λ a b, idcmp tcmp a b = Lt) l.
  Definition sorted_keys {X} (l : list (ident * X)) : Prop := sorted_ids (l.*1).

  Lemma sorted_ids_nil : sorted_ids [].
  Proof. constructor. Qed.
  Lemma sorted_ids_singleton x : sorted_ids [x].
  Proof. repeat constructor. Qed.
  Lemma sorted_ids_cons x l :
    sorted_ids (x :: l) ↔ Forall (λ y, idcmp tcmp x y = Lt) l ∧ sorted_ids l.
  Proof.
    split; [intros H%StronglySorted_inv; tauto|]. intros [??]. by constructor.
  Qed.
  Lemma sorted_ids_app l1 l2 :
    sorted_ids (l1 ++ l2) ↔
    sorted_ids l1 ∧ sorted_ids l2 ∧
    Forall (λ x, Forall (λ y, idcmp tcmp x y = Lt) l2) l1.
  Proof.
    induction l1 as [|x l1 IH]; simpl.
    - split; [intros ?; split_and!; by try constructor|tauto].
    - rewrite !sorted_ids_cons, IH, Forall_app, Forall_cons. tauto.
  Qed.
  Lemma sorted_ids_In_app l1 l2 x y :
    sorted_ids (l1 ++ l2) → In x l1 → In y l2 → idcmp tcmp x y = Lt.
  Proof.
    intros (_ & _ & H)%sorted_ids_app Hx%elem_of_list_In Hy%elem_of_list_In.
    rewrite Forall_forall in H. specialize (H x Hx).
    rewrite Forall_forall in H. by apply H.
  Qed.
  (** In a sorted list every element is at most the last one. *)
  Lemma sorted_ids_below_last l a i :
    sorted_ids l → last l = Some a → idcmp tcmp a i = Lt →
    Forall (λ x, idcmp tcmp x i = Lt) l.
  Proof.
    intros Hs [l' ->]%last_Some Hai.
    apply sorted_ids_app in Hs as (_ & _ & H).
    apply Forall_app. split; [|by repeat constructor].
    eapply Forall_impl; [exact H|]. intros x Hx; simpl in *.
    apply Forall_cons in Hx as [Hx _]. by eapply idcmp_trans.
  Qed.
  Lemma sorted_ids_NoDup l : sorted_ids l → NoDup l.
  Proof.
    induction l as [|x l IH]; [constructor|].
    intros [Hx Hs]%sorted_ids_cons. constructor; [|auto].
    intros Hin. rewrite Forall_forall in Hx. specialize (Hx _ Hin).
    by rewrite idcmp_refl in Hx.
  Qed.
  (** Two sorted lists with the same elements are equal. *)
  Lemma sorted_ids_ext l1 l2 :
    sorted_ids l1 → sorted_ids l2 → (∀ x, In x l1 ↔ In x l2) → l1 = l2.
  Proof.
    revert l2. induction l1 as [|x l1 IH]; intros [|y l2] H1 H2 Hin; [done|..].
    - destruct (proj2 (Hin y)). by left.
    - destruct (proj1 (Hin x)). by left.
    - apply sorted_ids_cons in H1 as [Hx H1], H2 as [Hy H2].
      rewrite Forall_forall in Hx, Hy.
      setoid_rewrite elem_of_list_In in Hx. setoid_rewrite elem_of_list_In in Hy.
      assert (x = y) as <-.
      { destruct (proj1 (Hin x)) as [->|Hx2]; [by left|done|].
        destruct (proj2 (Hin y)) as [->|Hy1]; [by left|done|].
        destruct (idcmp_lt_asym _ _ (Hx _ Hy1)). by apply Hy. }
      f_equal. apply IH; [done..|]. intros z. split; intros Hz.
      + destruct (proj1 (Hin z)) as [<-|?]; [by right| |done].
        by destruct (idcmp_lt_irrefl x); apply Hx.
      + destruct (proj2 (Hin z)) as [<-|?]; [by right| |done].
        by destruct (idcmp_lt_irrefl x); apply Hy.
  Qed.

  (** *** [idset_insert] *)
  Lemma idset_insert_Forall (P : ident → Prop) i l :
    P i → Forall P l → Forall P (idset_insert tcmp i l).
  Proof.
    intros Hi. induction 1 as [|x l Hx Hl IH]; simpl; [by repeat constructor|].
    destruct (idcmp tcmp i x); repeat constructor; auto.
  Qed.
  Theorem idset_insert_sorted i l :
    sorted_ids l → sorted_ids (idset_insert tcmp i l).
  Proof.
    induction l as [|x l IH]; simpl; intros Hs; [apply sorted_ids_singleton|].
    destruct (idcmp tcmp i x) eqn:Hc; [done| |].
    - apply sorted_ids_cons. split; [|done].
      apply sorted_ids_cons in Hs as [Hx Hs]. constructor; [done|].
      eapply Forall_impl; [exact Hx|]. intros y Hy; simpl in *.
      by eapply idcmp_trans.
    - apply sorted_ids_cons in Hs as [Hx Hs]. apply sorted_ids_cons. split; [|auto].
      apply idset_insert_Forall; [|done]. by apply idcmp_Gt_iff.
  Qed.
  Theorem idset_insert_elem_of x i l :
    x ∈ idset_insert tcmp i l ↔ x = i ∨ x ∈ l.
  Proof.
    induction l as [|y l IH]; simpl.
    - rewrite elem_of_list_singleton, elem_of_nil. tauto.
    - destruct (idcmp tcmp i y) eqn:Hc.
      + apply idcmp_eq in Hc as ->. rewrite elem_of_cons. tauto.
      + rewrite !elem_of_cons. tauto.
      + rewrite !elem_of_cons, IH. tauto.
  Qed.
  Theorem idset_insert_In x i l :
    In x (idset_insert tcmp i l) ↔ x = i ∨ In x l.
  Proof. rewrite <-!elem_of_list_In. apply idset_insert_elem_of. Qed.

  (** Positional characterisation: everything in [l1] is below [i] and the
      head of [l2] (if any) is above. *)
  Theorem idset_insert_app i l1 l2 :
    Forall (λ x, idcmp tcmp x i = Lt) l1 →
    match l2 with [] => True | b :: _ => idcmp tcmp i b = Lt end →
    idset_insert tcmp i (l1 ++ l2) = l1 ++ i :: l2.
  Proof.
    induction l1 as [|x l1 IH]; simpl; intros H1 H2.
    - destruct l2; simpl; [done|by rewrite H2].
    - apply Forall_cons in H1 as [Hx H1].
      rewrite (proj2 (idcmp_Gt_iff i x) Hx). by rewrite IH.
  Qed.
  (** The same for a sorted list, in terms of the two neighbours only. *)
  Theorem idset_insert_mid i l1 l2 :
    sorted_ids (l1 ++ l2) →
    (∀ a, last l1 = Some a → idcmp tcmp a i = Lt) →
    (∀ b, head l2 = Some b → idcmp tcmp i b = Lt) →
    idset_insert tcmp i (l1 ++ l2) = l1 ++ i :: l2.
  Proof.
    intros Hs Ha Hb. apply idset_insert_app.
    - destruct (last l1) as [a|] eqn:Hl.
      + apply sorted_ids_app in Hs as (Hs & _). eapply sorted_ids_below_last; eauto.
      + apply last_None in Hl as ->. constructor.
    - destruct l2; [done|]. by apply Hb.
  Qed.
  Theorem idset_insert_adjacent i l1 a b l2 :
    sorted_ids (l1 ++ [a] ++ [b] ++ l2) →
    idcmp tcmp a i = Lt → idcmp tcmp i b = Lt →
    idset_insert tcmp i (l1 ++ [a] ++ [b] ++ l2) = l1 ++ [a; i; b] ++ l2.
  Proof.
    intros Hs Ha Hb. rewrite (app_assoc l1 [a]) in *.
    rewrite idset_insert_mid; [by rewrite <-app_assoc|done|..].
    - intros a'. rewrite last_snoc. by intros [= <-].
    - by intros b' [= <-].
  Qed.
  Theorem idset_insert_last i l :
    Forall (λ x, idcmp tcmp x i = Lt) l → idset_insert tcmp i l = l ++ [i].
  Proof.
    intros H. rewrite <-(app_nil_r l) at 1. by apply idset_insert_app.
  Qed.
  Theorem idset_insert_first i l :
    Forall (λ x, idcmp tcmp i x = Lt) l → idset_insert tcmp i l = i :: l.
  Proof. destruct 1 as [|x l Hx _]; simpl; [done|by rewrite Hx]. Qed.
  Theorem idset_insert_present i l :
    sorted_ids l → In i l → idset_insert tcmp i l = l.
  Proof.
    induction l as [|x l IH]; simpl; [done|].
    intros [Hx Hs]%sorted_ids_cons [->|Hin].
    - by rewrite idcmp_refl.
    - rewrite Forall_forall in Hx. pose proof Hin as Hin'%elem_of_list_In.
      rewrite (proj2 (idcmp_Gt_iff i x) (Hx _ Hin')). by rewrite IH.
  Qed.
  Theorem idset_insert_idemp i l :
    sorted_ids l → idset_insert tcmp i (idset_insert tcmp i l) = idset_insert tcmp i l.
  Proof.
    intros Hs. apply idset_insert_present; [by apply idset_insert_sorted|].
    apply idset_insert_In. by left.
  Qed.
  Theorem idset_insert_comm i j l :
    sorted_ids l →
    idset_insert tcmp i (idset_insert tcmp j l) = idset_insert tcmp j (idset_insert tcmp i l).
  Proof.
    intros Hs. apply sorted_ids_ext; [by do 2 apply idset_insert_sorted..|].
    intros x. rewrite !idset_insert_In. tauto.
  Qed.

  (** *** Neighbour lookup by filtering (used by [gl_insert_before/after]) *)
  Lemma filter_all_true {A} (f : A → bool) l :
    Forall (λ x, f x = true) l → List.filter f l = l.
  Proof. induction 1 as [|x l Hx _ IH]; simpl; [done|]. by rewrite Hx, IH. Qed.
  Lemma filter_all_false {A} (f : A → bool) l :
    Forall (λ x, f x = false) l → List.filter f l = [].
  Proof. induction 1 as [|x l Hx _ IH]; simpl; [done|]. by rewrite Hx, IH. Qed.
  Theorem filter_idlt_below l1 h l2 :
    sorted_ids (l1 ++ h :: l2) →
    List.filter (λ i, idlt tcmp i h) (l1 ++ h :: l2) = l1.
  Proof.
    intros Hs. rewrite List.filter_app.
    rewrite (filter_all_true _ l1), (filter_all_false _ (h :: l2)), ?app_nil_r; [done|..].
    - apply sorted_ids_app in Hs as (_ & [Hh _]%sorted_ids_cons & _).
      constructor; [apply idlt_false, idcmp_lt_irrefl|].
      eapply Forall_impl; [exact Hh|]. intros y Hy. by apply idlt_false, idcmp_lt_asym.
    - apply sorted_ids_app in Hs as (_ & _ & H).
      eapply Forall_impl; [exact H|]. intros x [Hx _]%Forall_cons. by apply idlt_spec.
  Qed.
  Theorem filter_idlt_above l1 h l2 :
    sorted_ids (l1 ++ h :: l2) →
    List.filter (λ i, idlt tcmp h i) (l1 ++ h :: l2) = l2.
  Proof.
    intros Hs. rewrite List.filter_app. simpl.
    rewrite (proj2 (idlt_false h h) (idcmp_lt_irrefl h)).
    rewrite (filter_all_false _ l1), (filter_all_true _ l2); [done|..].
    - apply sorted_ids_app in Hs as (_ & [Hh _]%sorted_ids_cons & _).
      eapply Forall_impl; [exact Hh|]. intros y Hy. by apply idlt_spec.
    - apply sorted_ids_app in Hs as (_ & _ & H).
      eapply Forall_impl; [exact H|]. intros x [Hx _]%Forall_cons.
      by apply idlt_false, idcmp_lt_asym.
  Qed.
  (** *** [idmap_insert] *)
  Context {X : Type}.
  Implicit Types (v w : X) (kl : list (ident * X)).

  Lemma sorted_keys_cons (p : ident * X) kl :
    sorted_keys (p :: kl) ↔ Forall (λ q, idcmp tcmp p.1 q.1 = Lt) kl ∧ sorted_keys kl.
  Proof. unfold sorted_keys. rewrite fmap_cons, sorted_ids_cons, Forall_fmap. done. Qed.
  Lemma sorted_keys_app kl1 kl2 :
    sorted_keys (kl1 ++ kl2) ↔
    sorted_keys kl1 ∧ sorted_keys kl2 ∧
    Forall (λ p, Forall (λ q, idcmp tcmp p.1 q.1 = Lt) kl2) kl1.
  Proof.
    unfold sorted_keys. rewrite fmap_app, sorted_ids_app, Forall_fmap.
    repeat apply and_iff_compat_l. apply Forall_iff. intros p; simpl.
    by rewrite Forall_fmap.
  Qed.
  Lemma sorted_keys_NoDup kl : sorted_keys kl → NoDup (kl.*1).
  Proof. apply sorted_ids_NoDup. Qed.
  (** A sorted association list is functional. *)
  Lemma sorted_keys_functional kl k v w :
    sorted_keys kl → In (k, v) kl → In (k, w) kl → v = w.
  Proof.
    induction kl as [|p kl IH]; simpl; [done|].
    intros [Hp Hs]%sorted_keys_cons. rewrite Forall_forall in Hp.
    setoid_rewrite elem_of_list_In in Hp.
    intros [->|Hv] [Hw|Hw]; [congruence| | |by apply IH].
    - specialize (Hp _ Hw). simpl in Hp. by rewrite idcmp_refl in Hp.
    - subst p. specialize (Hp _ Hv). simpl in Hp. by rewrite idcmp_refl in Hp.
  Qed.

  Theorem idmap_insert_keys i v kl :
    (idmap_insert tcmp i v kl).*1 = idset_insert tcmp i (kl.*1).
  Proof.
    induction kl as [|p kl IH]; csimpl; [done|].
    destruct (idcmp tcmp i p.1); csimpl; congruence.
  Qed.
  Theorem idmap_insert_sorted i v kl :
    sorted_keys kl → sorted_keys (idmap_insert tcmp i v kl).
  Proof. unfold sorted_keys. rewrite idmap_insert_keys. apply idset_insert_sorted. Qed.
  Theorem idmap_insert_app i v kl1 kl2 :
    Forall (λ p, idcmp tcmp p.1 i = Lt) kl1 →
    match kl2 with [] => True | q :: _ => idcmp tcmp i q.1 = Lt end →
    idmap_insert tcmp i v (kl1 ++ kl2) = kl1 ++ (i, v) :: kl2.
  Proof.
    induction kl1 as [|p kl1 IH]; simpl; intros H1 H2.
    - destruct kl2; simpl; [done|by rewrite H2].
    - apply Forall_cons in H1 as [Hp H1].
      rewrite (proj2 (idcmp_Gt_iff i p.1) Hp). by rewrite IH.
  Qed.
  Theorem idmap_insert_mid i v kl1 kl2 :
    sorted_keys (kl1 ++ kl2) →
    (∀ p, last kl1 = Some p → idcmp tcmp p.1 i = Lt) →
    (∀ q, head kl2 = Some q → idcmp tcmp i q.1 = Lt) →
    idmap_insert tcmp i v (kl1 ++ kl2) = kl1 ++ (i, v) :: kl2.
  Proof.
    intros Hs Ha Hb. apply idmap_insert_app.
    - apply sorted_keys_app in Hs as (Hs & _).
      destruct (last kl1) as [p|] eqn:Hl.
      + apply (Forall_fmap fst (λ x, idcmp tcmp x i = Lt)).
        eapply sorted_ids_below_last; [exact Hs| |by apply Ha].
        by rewrite fmap_last, Hl.
      + apply last_None in Hl as ->. constructor.
    - destruct kl2; [done|]. by apply Hb.
  Qed.
  Theorem idmap_insert_adjacent i v kl1 p q kl2 :
    sorted_keys (kl1 ++ [p] ++ [q] ++ kl2) →
    idcmp tcmp p.1 i = Lt → idcmp tcmp i q.1 = Lt →
    idmap_insert tcmp i v (kl1 ++ [p] ++ [q] ++ kl2) = kl1 ++ [p; (i, v); q] ++ kl2.
  Proof.
    intros Hs Ha Hb. rewrite (app_assoc kl1 [p]) in *.
    rewrite idmap_insert_mid; [by rewrite <-app_assoc|done|..].
    - intros a'. rewrite last_snoc. by intros [= <-].
    - by intros b' [= <-].
  Qed.
  Theorem idmap_insert_last i v kl :
    Forall (λ p, idcmp tcmp p.1 i = Lt) kl → idmap_insert tcmp i v kl = kl ++ [(i, v)].
  Proof. intros H. rewrite <-(app_nil_r kl) at 1. by apply idmap_insert_app. Qed.
  Theorem idmap_insert_first i v kl :
    Forall (λ p, idcmp tcmp i p.1 = Lt) kl → idmap_insert tcmp i v kl = (i, v) :: kl.
  Proof. destruct 1 as [|x l Hx _]; simpl; [done|by rewrite Hx]. Qed.
  (** [entry(id).or_insert(v)] of a present key is the identity. *)
  Theorem idmap_insert_present i v kl :
    sorted_keys kl → In i (kl.*1) → idmap_insert tcmp i v kl = kl.
  Proof.
    induction kl as [|p kl IH]; simpl; [done|].
    intros [Hp Hs]%sorted_keys_cons [->|Hin].
    - by rewrite idcmp_refl.
    - apply elem_of_list_In, elem_of_list_fmap in Hin as (q & -> & Hq).
      rewrite Forall_forall in Hp.
      rewrite (proj2 (idcmp_Gt_iff q.1 p.1) (Hp _ Hq)). rewrite IH; [done..|].
      apply elem_of_list_In, elem_of_list_fmap. eauto.
  Qed.
  Theorem idmap_insert_In_absent pr i v kl :
    ¬ In i (kl.*1) → In pr (idmap_insert tcmp i v kl) ↔ pr = (i, v) ∨ In pr kl.
  Proof.
    induction kl as [|p kl IH]; simpl; intros Hni.
    - split; intros [|]; auto.
    - destruct (idcmp tcmp i p.1) eqn:Hc; simpl.
      + apply idcmp_eq in Hc. destruct Hni. auto.
      + split; intros [|]; auto.
      + rewrite IH by tauto. tauto.
  Qed.
  Theorem idmap_insert_In pr i v kl :
    sorted_keys kl →
    In pr (idmap_insert tcmp i v kl) ↔ (pr = (i, v) ∧ ¬ In i (kl.*1)) ∨ In pr kl.
  Proof.
    induction kl as [|p kl IH]; simpl.
    - intros _. split; [intros [|[]]; auto|intros [[]|[]]; auto].
    - intros [Hp Hs]%sorted_keys_cons. destruct (idcmp tcmp i p.1) eqn:Hc; simpl.
      + apply idcmp_eq in Hc. split; [auto|]. intros [[_ []]|]; auto.
      + split; [|intros [[]|]; auto]. intros [<-|]; [left|by right].
        split; [done|]. intros [He|Hin].
        * rewrite He in Hc. by rewrite idcmp_refl in Hc.
        * apply elem_of_list_In, elem_of_list_fmap in Hin as (q & -> & Hq).
          rewrite Forall_forall in Hp. specialize (Hp _ Hq).
          by destruct (idcmp_lt_asym _ _ Hp).
      + rewrite (IH Hs). assert (p.1 ≠ i).
        { intros He. rewrite He in Hc. by rewrite idcmp_refl in Hc. }
        tauto.
  Qed.

  (** *** [idmap_remove] *)
  Lemma idmap_remove_Forall (P : ident * X → Prop) i kl :
    Forall P kl → Forall P (idmap_remove tcmp i kl).
  Proof.
    induction 1 as [|p kl Hp Hkl IH]; simpl; [constructor|].
    destruct (idcmp tcmp i p.1); try done; by constructor.
  Qed.
  Theorem idmap_remove_sorted i kl :
    sorted_keys kl → sorted_keys (idmap_remove tcmp i kl).
  Proof.
    induction kl as [|p kl IH]; simpl; [done|].
    intros [Hp Hs]%sorted_keys_cons.
    destruct (idcmp tcmp i p.1); [done|..];
      (apply sorted_keys_cons; split; [by apply idmap_remove_Forall|auto]).
  Qed.
  (** Removing an absent key is the identity. *)
  Theorem idmap_remove_absent i kl :
    ¬ In i (kl.*1) → idmap_remove tcmp i kl = kl.
  Proof.
    induction kl as [|p kl IH]; simpl; [done|]. intros Hni.
    destruct (idcmp tcmp i p.1) eqn:Hc.
    - apply idcmp_eq in Hc. destruct Hni. auto.
    - rewrite IH; tauto.
    - rewrite IH; tauto.
  Qed.
  (** Removing a present key removes exactly that entry. *)
  Theorem idmap_remove_app i v kl1 kl2 :
    Forall (λ p, idcmp tcmp i p.1 ≠ Eq) kl1 →
    idmap_remove tcmp i (kl1 ++ (i, v) :: kl2) = kl1 ++ kl2.
  Proof.
    induction 1 as [|p kl1 Hp _ IH]; simpl; [by rewrite idcmp_refl|].
    rewrite IH. by destruct (idcmp tcmp i p.1).
  Qed.
  Theorem idmap_remove_present i v kl1 kl2 :
    sorted_keys (kl1 ++ (i, v) :: kl2) →
    idmap_remove tcmp i (kl1 ++ (i, v) :: kl2) = kl1 ++ kl2.
  Proof.
    intros (_ & _ & H)%sorted_keys_app. apply idmap_remove_app.
    eapply Forall_impl; [exact H|]. intros p [Hp _]%Forall_cons; simpl in *.
    rewrite (proj2 (idcmp_Gt_iff i p.1) Hp). done.
  Qed.
  Theorem idmap_remove_In pr i kl :
    sorted_keys kl →
    In pr (idmap_remove tcmp i kl) ↔ pr.1 ≠ i ∧ In pr kl.
  Proof.
    induction kl as [|p kl IH]; simpl; [tauto|].
    intros [Hp Hs]%sorted_keys_cons. destruct (idcmp tcmp i p.1) eqn:Hc; simpl.
    - apply idcmp_eq in Hc as ->. split.
      + intros Hin. split; [|by right]. intros He.
        apply elem_of_list_In in Hin. rewrite Forall_forall in Hp.
        specialize (Hp _ Hin). rewrite He in Hp. by rewrite idcmp_refl in Hp.
      + intros [Hne [->|?]]; done.
    - rewrite (IH Hs). assert (p.1 ≠ i).
      { intros He. rewrite He in Hc. by rewrite idcmp_refl in Hc. }
      split; [intros [<-|[??]]; auto|intros [? [?|?]]; auto].
    - rewrite (IH Hs). assert (p.1 ≠ i).
      { intros He. rewrite He in Hc. by rewrite idcmp_refl in Hc. }
      split; [intros [<-|[??]]; auto|intros [? [?|?]]; auto].
  Qed.
  Theorem idmap_remove_keys_In k i kl :
    sorted_keys kl →
    In k (idmap_remove tcmp i kl).*1 ↔ k ≠ i ∧ In k (kl.*1).
  Proof.
    intros Hs. rewrite <-!elem_of_list_In, !elem_of_list_fmap. split.
    - intros (pr & -> & Hin). apply elem_of_list_In, idmap_remove_In in Hin as [??]; [|done].
      split; [done|]. exists pr. by rewrite elem_of_list_In.
    - intros (Hne & pr & -> & Hin). exists pr. split; [done|].
      apply elem_of_list_In, idmap_remove_In; [done|]. by rewrite <-elem_of_list_In.
  Qed.
  (** [remove] undoes a fresh [insert]. *)
  Theorem idmap_remove_insert i v kl :
    ¬ In i (kl.*1) → idmap_remove tcmp i (idmap_insert tcmp i v kl) = kl.
  Proof.
    induction kl as [|p kl IH]; simpl; intros Hni.
    - by rewrite idcmp_refl.
    - destruct (idcmp tcmp i p.1) eqn:Hc; simpl.
      + apply idcmp_eq in Hc. destruct Hni. auto.
      + by rewrite idcmp_refl.
      + rewrite Hc, IH; tauto.
  Qed.
End order.

(** [tcmp_refl] is in fact a consequence of [tcmp_antisym]. *)
Lemma tcmp_antisym_refl {T} (tcmp : T → T → comparison) :
  (∀ x y, tcmp y x = CompOpp (tcmp x y)) → ∀ x, tcmp x x = Eq.
Proof. intros H x. specialize (H x x). by destruct (tcmp x x). Qed.

(** * Counterexamples: the hypotheses are needed *)
Module counterexamples.
  Local Notation q0 := (Q2Qc 0).
  Local Notation q1 := (Q2Qc 1).

  (** Density needs [tcmp_refl].  [bad1] satisfies [tcmp_eq] and
      [tcmp_trans] but [bad1 true true = Gt]. *)
  Definition bad1 (x y : bool) : comparison :=
    match x, y with
    | false, false => Eq | false, true => Lt | true, _ => Gt
    end.
  Lemma density_needs_refl :
    let low := [(q0, false)] in let high := [(q0, true)] in
    idcmp bad1 low high = Lt ∧
    idcmp bad1 (between bad1 (Some low) (Some high) true) high ≠ Lt.
  Proof. vm_compute. split; [done|discriminate]. Qed.

  (** [between (Some x) (Some x) m = x] needs [tcmp_refl]. *)
  Definition bad2 (x y : bool) : comparison := Lt.
  Lemma between_same_needs_refl :
    between bad2 (Some [(q0, false)]) (Some [(q0, false)]) true = [(q0, true)].
  Proof. done. Qed.

  (** The symmetric call needs [tcmp_antisym].  [bad3] satisfies
      [tcmp_refl] and [tcmp_eq], but [false < true] and [true < false]. *)
  Definition bad3 (x y : bool) : comparison :=
    if bool_decide (x = y) then Eq else Lt.
  Lemma between_sym_needs_antisym :
    let low := [(q0, false)] in let high := [(q0, true)] in
    idcmp bad3 low high = Lt ∧
    between bad3 (Some low) (Some high) false = [(q0, true); (q0, false)] ∧
    between bad3 (Some high) (Some low) false = [(q0, false); (q0, false)].
  Proof. done. Qed.

  (** Transitivity of [idcmp] needs [tcmp_eq] besides [tcmp_trans]: [bad4]
      is reflexive and (vacuously) [Lt]-transitive, but identifies [1] and
      [2] without their being equal. *)
  Definition bad4 (x y : N) : comparison :=
    match x, y with
    | 0, 0 | 1, 1 | 2, 2 | 1, 2 | 2, 1 => Eq
    | 0, 1 => Lt
    | _, _ => Gt
    end%N.
  Lemma bad4_trans x y z : bad4 x y = Lt → bad4 y z = Lt → bad4 x z = Lt.
  Proof.
    destruct x as [|[[]|[]|]], y as [|[[]|[]|]]; try done;
      destruct z as [|[[]|[]|]]; done.
  Qed.
  Lemma idcmp_trans_needs_eq :
    let a := [(q0, 0)] in let b := [(q0, 1); (q0, 0)] in let c := [(q0, 2)] in
    idcmp bad4 a b = Lt ∧ idcmp bad4 b c = Lt ∧ idcmp bad4 a c = Gt.
  Proof. vm_compute. done. Qed.

  (** [low ≠ []] is needed for the one-sided call: see [between_nil_low_lt]. *)
  Lemma between_low_only_needs_nonempty (m : N) :
    idcmp ncompare [] (between ncompare (Some []) None m) = Gt.
  Proof. done. Qed.

  (** Inserting a present key is the identity only on sorted lists. *)
  Lemma idset_insert_present_needs_sorted :
    let l := [[(q1, 0)]; [(q0, 0)]] in
    In [(q0, 0)] l ∧ idset_insert ncompare [(q0, 0)] l = [(q0, 0)] :: l.
  Proof. vm_compute. split; [auto|done]. Qed.
  Lemma idmap_remove_present_needs_sorted :
    let kl := [([(q0, 0)], 1); ([(q0, 0)], 2)] in
    idmap_remove ncompare [(q0, 0)] kl = [([(q0, 0)], 2)].
  Proof. done. Qed.
End counterexamples.

(** * The two marker instances *)
Lemma ncompare_refl x : ncompare x x = Eq.
Proof. apply N.compare_refl. Qed.
Lemma ncompare_eq x y : ncompare x y = Eq → x = y.
Proof. apply N.compare_eq. Qed.
Lemma ncompare_antisym x y : ncompare y x = CompOpp (ncompare x y).
Proof. apply N.compare_antisym. Qed.
Lemma ncompare_trans x y z : ncompare x y = Lt → ncompare y z = Lt → ncompare x z = Lt.
Proof. unfold ncompare. rewrite !N.compare_lt_iff. apply N.lt_trans. Qed.

Lemma odcmp_refl x : odcmp x x = Eq.
Proof. unfold odcmp. by rewrite !ncompare_refl. Qed.
Lemma odcmp_eq x y : odcmp x y = Eq → x = y.
Proof.
  destruct x as [x1 x2], y as [y1 y2]. unfold odcmp; simpl.
  destruct (ncompare x1 y1) eqn:H1; try done.
  intros H2. apply ncompare_eq in H1, H2. congruence.
Qed.
Lemma odcmp_antisym x y : odcmp y x = CompOpp (odcmp x y).
Proof.
  unfold odcmp. rewrite (ncompare_antisym x.1 y.1).
  destruct (ncompare x.1 y.1); simpl; auto using ncompare_antisym.
Qed.
Lemma odcmp_Lt x y :
  odcmp x y = Lt ↔ (x.1 < y.1)%N ∨ x.1 = y.1 ∧ (x.2 < y.2)%N.
Proof.
  unfold odcmp, ncompare.
  destruct (N.compare_spec x.1 y.1) as [H|H|H]; rewrite ?N.compare_lt_iff.
  - split; [auto|]. intros [?|[_ ?]]; [|done]. rewrite H in *. by destruct (N.lt_irrefl y.1).
  - split; auto.
  - split; [done|]. intros [?|[He _]].
    + destruct (N.lt_irrefl x.1). by etrans.
    + rewrite He in H. by destruct (N.lt_irrefl y.1).
Qed.
Lemma odcmp_trans x y z : odcmp x y = Lt → odcmp y z = Lt → odcmp x z = Lt.
Proof.
  rewrite !odcmp_Lt. intros [H1|[H1 H1']] [H2|[H2 H2']].
  - left. by etrans.
  - left. by rewrite <-H2.
  - left. by rewrite H1.
  - right. split; [congruence|]. by etrans.
Qed.

(** * Closed instances of the main theorems *)
(** ** Markers [N] ([GList]) *)
Section inst_n.
  Implicit Types (a b c low high x : list (Qc * N)) (m : N).
  Local Notation cmp := ncompare.
  Theorem idcmp_refl_n a : idcmp cmp a a = Eq.
  Proof. apply idcmp_refl, ncompare_refl. Qed.
  Theorem idcmp_eq_n a b : idcmp cmp a b = Eq → a = b.
  Proof. apply idcmp_eq, ncompare_eq. Qed.
  Theorem idcmp_antisym_n a b : idcmp cmp b a = CompOpp (idcmp cmp a b).
  Proof. apply idcmp_antisym, ncompare_antisym. Qed.
  Theorem idcmp_trans_n a b c :
    idcmp cmp a b = Lt → idcmp cmp b c = Lt → idcmp cmp a c = Lt.
  Proof. apply idcmp_trans; [apply ncompare_eq|apply ncompare_trans]. Qed.
  Theorem idcmp_trichotomy_n a b :
    idcmp cmp a b = Lt ∨ a = b ∨ idcmp cmp b a = Lt.
  Proof. apply idcmp_trichotomy; [apply ncompare_eq|apply ncompare_antisym]. Qed.
  Theorem between_density_n low high m :
    idcmp cmp low high = Lt →
    idcmp cmp low (between cmp (Some low) (Some high) m) = Lt ∧
    idcmp cmp (between cmp (Some low) (Some high) m) high = Lt.
  Proof. apply between_density, ncompare_refl. Qed.
  Theorem between_sym_n low high m :
    idcmp cmp low high = Lt →
    between cmp (Some high) (Some low) m = between cmp (Some low) (Some high) m.
  Proof. apply between_sym, ncompare_antisym. Qed.
  Theorem between_comm_n a b m :
    between cmp (Some a) (Some b) m = between cmp (Some b) (Some a) m.
  Proof. apply between_comm; [apply ncompare_eq|apply ncompare_antisym]. Qed.
  Theorem between_same_n x m : between cmp (Some x) (Some x) m = x.
  Proof. apply between_same, ncompare_refl. Qed.
  Theorem between_density_neq_n a b m :
    a ≠ b →
    let c := between cmp (Some a) (Some b) m in
    (idcmp cmp a c = Lt ∧ idcmp cmp c b = Lt) ∨
    (idcmp cmp b c = Lt ∧ idcmp cmp c a = Lt).
  Proof.
    apply between_density_neq; [apply ncompare_refl|apply ncompare_eq|apply ncompare_antisym].
  Qed.
  Theorem between_low_only_n low m :
    low ≠ [] → idcmp cmp low (between cmp (Some low) None m) = Lt.
  Proof. apply between_low_only. Qed.
  Theorem between_high_only_n high m :
    high ≠ [] → idcmp cmp (between cmp None (Some high) m) high = Lt.
  Proof. apply between_high_only. Qed.
  Theorem between_value_lt_n low high m :
    idcmp cmp low high = Lt →
    idvalue (between cmp (Some low) (Some high) m) = Some m.
  Proof. apply between_value_lt. Qed.
  Theorem between_value_neq_n a b m :
    a ≠ b → idvalue (between cmp (Some a) (Some b) m) = Some m.
  Proof. apply between_value_neq, ncompare_eq. Qed.
End inst_n.

(** ** Markers [N * N] = [OrdDot] ([List]) *)
Section inst_od.
  Implicit Types (a b c low high x : list (Qc * (N * N))) (m : N * N).
  Local Notation cmp := odcmp.
  Theorem idcmp_refl_od a : idcmp cmp a a = Eq.
  Proof. apply idcmp_refl, odcmp_refl. Qed.
  Theorem idcmp_eq_od a b : idcmp cmp a b = Eq → a = b.
  Proof. apply idcmp_eq, odcmp_eq. Qed.
  Theorem idcmp_antisym_od a b : idcmp cmp b a = CompOpp (idcmp cmp a b).
  Proof. apply idcmp_antisym, odcmp_antisym. Qed.
  Theorem idcmp_trans_od a b c :
    idcmp cmp a b = Lt → idcmp cmp b c = Lt → idcmp cmp a c = Lt.
  Proof. apply idcmp_trans; [apply odcmp_eq|apply odcmp_trans]. Qed.
  Theorem idcmp_trichotomy_od a b :
    idcmp cmp a b = Lt ∨ a = b ∨ idcmp cmp b a = Lt.
  Proof. apply idcmp_trichotomy; [apply odcmp_eq|apply odcmp_antisym]. Qed.
  Theorem between_density_od low high m :
    idcmp cmp low high = Lt →
    idcmp cmp low (between cmp (Some low) (Some high) m) = Lt ∧
    idcmp cmp (between cmp (Some low) (Some high) m) high = Lt.
  Proof. apply between_density, odcmp_refl. Qed.
  Theorem between_sym_od low high m :
    idcmp cmp low high = Lt →
    between cmp (Some high) (Some low) m = between cmp (Some low) (Some high) m.
  Proof. apply between_sym, odcmp_antisym. Qed.
  Theorem between_comm_od a b m :
    between cmp (Some a) (Some b) m = between cmp (Some b) (Some a) m.
  Proof. apply between_comm; [apply odcmp_eq|apply odcmp_antisym]. Qed.
  Theorem between_same_od x m : between cmp (Some x) (Some x) m = x.
  Proof. apply between_same, odcmp_refl. Qed.
  Theorem between_density_neq_od a b m :
    a ≠ b →
    let c := between cmp (Some a) (Some b) m in
    (idcmp cmp a c = Lt ∧ idcmp cmp c b = Lt) ∨
    (idcmp cmp b c = Lt ∧ idcmp cmp c a = Lt).
  Proof.
    apply between_density_neq; [apply odcmp_refl|apply odcmp_eq|apply odcmp_antisym].
  Qed.
  Theorem between_low_only_od low m :
    low ≠ [] → idcmp cmp low (between cmp (Some low) None m) = Lt.
  Proof. apply between_low_only. Qed.
  Theorem between_high_only_od high m :
    high ≠ [] → idcmp cmp (between cmp None (Some high) m) high = Lt.
  Proof. apply between_high_only. Qed.
  Theorem between_value_lt_od low high m :
    idcmp cmp low high = Lt →
    idvalue (between cmp (Some low) (Some high) m) = Some m.
  Proof. apply between_value_lt. Qed.
  Theorem between_value_neq_od a b m :
    a ≠ b → idvalue (between cmp (Some a) (Some b) m) = Some m.
  Proof. apply between_value_neq, odcmp_eq. Qed.
End inst_od.

(** ** The remaining lemmas of the section that depend on a hypothesis,
    instantiated ([Check] them for their statements). *)
Definition idcmp_Eq_iff_n := idcmp_Eq_iff ncompare ncompare_refl ncompare_eq.
Definition idcmp_Eq_iff_od := idcmp_Eq_iff odcmp odcmp_refl odcmp_eq.
Definition idcmp_Gt_iff_n := idcmp_Gt_iff ncompare ncompare_antisym.
Definition idcmp_Gt_iff_od := idcmp_Gt_iff odcmp odcmp_antisym.
Definition idcmp_lt_irrefl_n := idcmp_lt_irrefl ncompare ncompare_refl.
Definition idcmp_lt_irrefl_od := idcmp_lt_irrefl odcmp odcmp_refl.
Definition idcmp_lt_asym_n := idcmp_lt_asym ncompare ncompare_antisym.
Definition idcmp_lt_asym_od := idcmp_lt_asym odcmp odcmp_antisym.
Definition idcmp_lt_neq_n := idcmp_lt_neq ncompare ncompare_refl.
Definition idcmp_lt_neq_od := idcmp_lt_neq odcmp odcmp_refl.
Definition idcmp_neq_Eq_n := idcmp_neq_Eq ncompare ncompare_eq.
Definition idcmp_neq_Eq_od := idcmp_neq_Eq odcmp odcmp_eq.
Definition walk_between_n := walk_between ncompare ncompare_refl.
Definition walk_between_od := walk_between odcmp odcmp_refl.
Definition sorted_ids_below_last_n := sorted_ids_below_last ncompare ncompare_eq ncompare_trans.
Definition sorted_ids_below_last_od := sorted_ids_below_last odcmp odcmp_eq odcmp_trans.
Definition sorted_ids_NoDup_n := sorted_ids_NoDup ncompare ncompare_refl.
Definition sorted_ids_NoDup_od := sorted_ids_NoDup odcmp odcmp_refl.
Definition sorted_ids_ext_n := sorted_ids_ext ncompare ncompare_refl ncompare_antisym.
Definition sorted_ids_ext_od := sorted_ids_ext odcmp odcmp_refl odcmp_antisym.
Definition idset_insert_sorted_n := idset_insert_sorted ncompare ncompare_eq ncompare_antisym ncompare_trans.
Definition idset_insert_sorted_od := idset_insert_sorted odcmp odcmp_eq odcmp_antisym odcmp_trans.
Definition idset_insert_elem_of_n := idset_insert_elem_of ncompare ncompare_eq.
Definition idset_insert_elem_of_od := idset_insert_elem_of odcmp odcmp_eq.
Definition idset_insert_In_n := idset_insert_In ncompare ncompare_eq.
Definition idset_insert_In_od := idset_insert_In odcmp odcmp_eq.
Definition idset_insert_app_n := idset_insert_app ncompare ncompare_antisym.
Definition idset_insert_app_od := idset_insert_app odcmp odcmp_antisym.
Definition idset_insert_mid_n := idset_insert_mid ncompare ncompare_eq ncompare_antisym ncompare_trans.
Definition idset_insert_mid_od := idset_insert_mid odcmp odcmp_eq odcmp_antisym odcmp_trans.
Definition idset_insert_adjacent_n := idset_insert_adjacent ncompare ncompare_eq ncompare_antisym ncompare_trans.
Definition idset_insert_adjacent_od := idset_insert_adjacent odcmp odcmp_eq odcmp_antisym odcmp_trans.
Definition idset_insert_last_n := idset_insert_last ncompare ncompare_antisym.
Definition idset_insert_last_od := idset_insert_last odcmp odcmp_antisym.
Definition idset_insert_present_n := idset_insert_present ncompare ncompare_refl ncompare_antisym.
Definition idset_insert_present_od := idset_insert_present odcmp odcmp_refl odcmp_antisym.
Definition idset_insert_idemp_n := idset_insert_idemp ncompare ncompare_refl ncompare_eq ncompare_antisym ncompare_trans.
Definition idset_insert_idemp_od := idset_insert_idemp odcmp odcmp_refl odcmp_eq odcmp_antisym odcmp_trans.
Definition idset_insert_comm_n := idset_insert_comm ncompare ncompare_refl ncompare_eq ncompare_antisym ncompare_trans.
Definition idset_insert_comm_od := idset_insert_comm odcmp odcmp_refl odcmp_eq odcmp_antisym odcmp_trans.
Definition filter_idlt_below_n := filter_idlt_below ncompare ncompare_refl ncompare_antisym.
Definition filter_idlt_below_od := filter_idlt_below odcmp odcmp_refl odcmp_antisym.
Definition filter_idlt_above_n := filter_idlt_above ncompare ncompare_refl ncompare_antisym.
Definition filter_idlt_above_od := filter_idlt_above odcmp odcmp_refl odcmp_antisym.
Definition sorted_keys_NoDup_n {X} := sorted_keys_NoDup ncompare ncompare_refl (X:=X).
Definition sorted_keys_NoDup_od {X} := sorted_keys_NoDup odcmp odcmp_refl (X:=X).
Definition sorted_keys_functional_n {X} := sorted_keys_functional ncompare ncompare_refl (X:=X).
Definition sorted_keys_functional_od {X} := sorted_keys_functional odcmp odcmp_refl (X:=X).
Definition idmap_insert_sorted_n {X} := idmap_insert_sorted ncompare ncompare_eq ncompare_antisym ncompare_trans (X:=X).
Definition idmap_insert_sorted_od {X} := idmap_insert_sorted odcmp odcmp_eq odcmp_antisym odcmp_trans (X:=X).
Definition idmap_insert_app_n {X} := idmap_insert_app ncompare ncompare_antisym (X:=X).
Definition idmap_insert_app_od {X} := idmap_insert_app odcmp odcmp_antisym (X:=X).
Definition idmap_insert_mid_n {X} := idmap_insert_mid ncompare ncompare_eq ncompare_antisym ncompare_trans (X:=X).
Definition idmap_insert_mid_od {X} := idmap_insert_mid odcmp odcmp_eq odcmp_antisym odcmp_trans (X:=X).
Definition idmap_insert_adjacent_n {X} := idmap_insert_adjacent ncompare ncompare_eq ncompare_antisym ncompare_trans (X:=X).
Definition idmap_insert_adjacent_od {X} := idmap_insert_adjacent odcmp odcmp_eq odcmp_antisym odcmp_trans (X:=X).
Definition idmap_insert_last_n {X} := idmap_insert_last ncompare ncompare_antisym (X:=X).
Definition idmap_insert_last_od {X} := idmap_insert_last odcmp odcmp_antisym (X:=X).
Definition idmap_insert_present_n {X} := idmap_insert_present ncompare ncompare_refl ncompare_antisym (X:=X).
Definition idmap_insert_present_od {X} := idmap_insert_present odcmp odcmp_refl odcmp_antisym (X:=X).
Definition idmap_insert_In_absent_n {X} := idmap_insert_In_absent ncompare ncompare_eq (X:=X).
Definition idmap_insert_In_absent_od {X} := idmap_insert_In_absent odcmp odcmp_eq (X:=X).
Definition idmap_insert_In_n {X} := idmap_insert_In ncompare ncompare_refl ncompare_eq ncompare_antisym (X:=X).
Definition idmap_insert_In_od {X} := idmap_insert_In odcmp odcmp_refl odcmp_eq odcmp_antisym (X:=X).
Definition idmap_remove_absent_n {X} := idmap_remove_absent ncompare ncompare_eq (X:=X).
Definition idmap_remove_absent_od {X} := idmap_remove_absent odcmp odcmp_eq (X:=X).
Definition idmap_remove_app_n {X} := idmap_remove_app ncompare ncompare_refl (X:=X).
Definition idmap_remove_app_od {X} := idmap_remove_app odcmp odcmp_refl (X:=X).
Definition idmap_remove_present_n {X} := idmap_remove_present ncompare ncompare_refl ncompare_antisym (X:=X).
Definition idmap_remove_present_od {X} := idmap_remove_present odcmp odcmp_refl odcmp_antisym (X:=X).
Definition idmap_remove_In_n {X} := idmap_remove_In ncompare ncompare_refl ncompare_eq (X:=X).
Definition idmap_remove_In_od {X} := idmap_remove_In odcmp odcmp_refl odcmp_eq (X:=X).
Definition idmap_remove_keys_In_n {X} := idmap_remove_keys_In ncompare ncompare_refl ncompare_eq (X:=X).
Definition idmap_remove_keys_In_od {X} := idmap_remove_keys_In odcmp odcmp_refl odcmp_eq (X:=X).
Definition idmap_remove_insert_n {X} := idmap_remove_insert ncompare ncompare_refl ncompare_eq (X:=X).
Definition idmap_remove_insert_od {X} := idmap_remove_insert odcmp odcmp_refl odcmp_eq (X:=X).

(** * Packaged statements for props/C14.v *)
(** [tcmp] is the comparison of a total order consistent with equality
    (what Rust's [Ord] promises for the marker type). *)
Definition total_cmp {T} (tcmp : T → T → comparison) : Prop :=
  (∀ x, tcmp x x = Eq) ∧ (∀ x y, tcmp x y = Eq → x = y) ∧
  (∀ x y, tcmp y x = CompOpp (tcmp x y)) ∧
  (∀ x y z, tcmp x y = Lt → tcmp y z = Lt → tcmp x z = Lt).

Lemma total_cmp_n : total_cmp ncompare.
Proof. split_and!; [apply ncompare_refl|apply ncompare_eq|apply ncompare_antisym|apply ncompare_trans]. Qed.
Lemma total_cmp_od : total_cmp odcmp.
Proof. split_and!; [apply odcmp_refl|apply odcmp_eq|apply odcmp_antisym|apply odcmp_trans]. Qed.

Lemma c14_order {T} (tcmp : T → T → comparison) : total_cmp tcmp →
  ∀ a b c : list (Qc * T),
    idcmp tcmp a a = Eq ∧
    (idcmp tcmp a b = Eq ↔ a = b) ∧
    idcmp tcmp b a = CompOpp (idcmp tcmp a b) ∧
    (idcmp tcmp a b = Lt → idcmp tcmp b c = Lt → idcmp tcmp a c = Lt) ∧
    (idcmp tcmp a b = Lt ∨ a = b ∨ idcmp tcmp b a = Lt).
Proof.
  intros (Hr & He & Ha & Ht) a b c. split_and!.
  - by apply idcmp_refl.
  - split; [by apply idcmp_eq|]. intros ->. by apply idcmp_refl.
  - by apply idcmp_antisym.
  - by apply idcmp_trans.
  - by apply idcmp_trichotomy.
Qed.

Lemma c14_dense {T} (tcmp : T → T → comparison) : total_cmp tcmp →
  ∀ (low high : list (Qc * T)) (m : T),
    (idcmp tcmp low high = Lt →
       idcmp tcmp low (between tcmp (Some low) (Some high) m) = Lt ∧
       idcmp tcmp (between tcmp (Some low) (Some high) m) high = Lt ∧
       between tcmp (Some high) (Some low) m = between tcmp (Some low) (Some high) m ∧
       idvalue (between tcmp (Some low) (Some high) m) = Some m) ∧
    (low ≠ [] → idcmp tcmp low (between tcmp (Some low) None m) = Lt) ∧
    (high ≠ [] → idcmp tcmp (between tcmp None (Some high) m) high = Lt) ∧
    idvalue (between tcmp (Some low) None m) = Some m ∧
    idvalue (between tcmp None (Some high) m) = Some m ∧
    idvalue (between tcmp None None m) = Some m.
Proof.
  intros (Hr & He & Ha & Ht) low high m. split_and!.
  - intros Hlt. destruct (between_density tcmp Hr low high m Hlt) as [H1 H2]. split_and!; [done..| |].
    + by apply between_sym.
    + by apply between_value_lt.
  - apply between_low_only.
  - apply between_high_only.
  - apply between_value_low_only.
  - apply between_value_high_only.
  - apply between_value_none.
Qed.

(** identifiers allocated with distinct markers never collide *)
Lemma c14_unique {T} (tcmp : T → T → comparison) (lo hi lo' hi' : option (list (Qc * T))) (m m' : T) :
  proper_gap tcmp lo hi → proper_gap tcmp lo' hi' → m ≠ m' →
  between tcmp lo hi m ≠ between tcmp lo' hi' m'.
Proof. apply between_marker_neq. Qed.

Lemma c14_empty_low_witness (m : N) :
  between ncompare (Some []) None m = [(Q2Qc 0, m)] ∧
  idcmp ncompare (between ncompare (Some []) None m) [] = Lt.
Proof. split; [apply between_nil_low|apply between_nil_low_lt]. Qed.

Lemma c14_examples :
  let a : list (Qc * N) := [(Q2Qc 0, 1)] in
  let b : list (Qc * N) := [(Q2Qc 0, 1); (Q2Qc 0, 0)] in
  let c : list (Qc * N) := [(Q2Qc 0, 3)] in
  idcmp ncompare b a = Lt ∧ idcmp ncompare a c = Lt ∧
  idcmp ncompare b (between ncompare (Some b) (Some a) 2) = Lt ∧
  between ncompare (Some a) (Some c) 2 = [(Q2Qc 0, 2)] ∧
  between ncompare (Some a) (Some c) 5 = [(Q2Qc 0, 3); (Q2Qc 0, 5)].
Proof. split_and!; by vm_compute. Qed.
