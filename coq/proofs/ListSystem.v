(** List as an instance of the replicated-system framework (spec/System.v):
    the refinement lemma L1 for causal delivery with duplicates, the
    instantiation ([list_reach_spec], [list_converge], [list_dup_apply]),
    [hist_ok → lwfH] for API-generated histories, and the property-level
    corollaries for C12 (one global order of identifiers, a replica's sequence
    is the restriction of the globally sorted list to what it has inserted and
    not deleted, causal delivery is necessary). *)
From Crdt Require Import model.List spec.System spec.OrswotSpec spec.Specs spec.ListSystem
  proofs.VClock proofs.Identifier proofs.OrswotLayer.
From Coq Require Import ZifyBool ZifyN ZifyNat.
Local Open Scope N_scope.

(** * Sorted association lists: extensionality, folds, filters, positions *)
Section assoc.
  Context {X : Type}.
  Implicit Types (kl : list (list (Qc * (N * N)) * X)).

  Lemma sorted_keys_ext kl1 kl2 :
    sorted_keys odcmp kl1 → sorted_keys odcmp kl2 → (∀ p, In p kl1 ↔ In p kl2) → kl1 = kl2.
  Proof.
    revert kl2. induction kl1 as [|x l1 IH]; intros [|y l2] H1 H2 Hin; [done|..].
    - destruct (proj2 (Hin y)). by left.
    - destruct (proj1 (Hin x)). by left.
    - apply sorted_keys_cons in H1 as [Hx H1], H2 as [Hy H2].
      rewrite Forall_forall in Hx, Hy.
      setoid_rewrite elem_of_list_In in Hx. setoid_rewrite elem_of_list_In in Hy.
      assert (x = y) as <-.
      { destruct (proj1 (Hin x)) as [->|Hx2]; [by left|done|].
        destruct (proj2 (Hin y)) as [->|Hy1]; [by left|done|].
        destruct (idcmp_lt_asym_od _ _ (Hx _ Hy1)). by apply Hy. }
      f_equal. apply IH; [done..|]. intros z. split; intros Hz.
      + destruct (proj1 (Hin z)) as [<-|?]; [by right| |done].
        by destruct (idcmp_lt_irrefl_od x.1); apply Hx.
      + destruct (proj2 (Hin z)) as [<-|?]; [by right| |done].
        by destruct (idcmp_lt_irrefl_od x.1); apply Hy.
  Qed.

  Lemma In_keys k kl : In k (kl.*1) ↔ ∃ v, In (k, v) kl.
  Proof.
    rewrite <-elem_of_list_In, elem_of_list_fmap. split.
    - intros ([k' v] & -> & Hin). exists v. by apply elem_of_list_In.
    - intros [v Hin]. exists (k, v). split; [done|]. by apply elem_of_list_In.
  Qed.

  (** the fold of [entry().or_insert()] over a list of pairs *)
  Definition lfold kl (ins : list (list (Qc * (N * N)) * X)) :=
    foldl (λ acc p, idmap_insert odcmp p.1 p.2 acc) kl ins.

  Lemma lfold_sorted kl ins : sorted_keys odcmp kl → sorted_keys odcmp (lfold kl ins).
  Proof.
    revert kl. induction ins as [|p ins IH]; intros kl Hs; [done|].
    cbn [lfold foldl]. apply IH. by apply idmap_insert_sorted_od.
  Qed.
  Lemma lfold_In kl ins pr :
    sorted_keys odcmp kl →
    (∀ k v w, In (k, v) (kl ++ ins) → In (k, w) (kl ++ ins) → v = w) →
    In pr (lfold kl ins) ↔ In pr kl ∨ In pr ins.
  Proof.
    revert kl. induction ins as [|p ins IH]; intros kl Hs Hf.
    - cbn. tauto.
    - cbn [lfold foldl]. fold (lfold (idmap_insert odcmp p.1 p.2 kl) ins).
      assert (∀ q, In q (idmap_insert odcmp p.1 p.2 kl) → q = p ∨ In q kl) as Hsub.
      { intros q Hq. apply idmap_insert_In_od in Hq as [[-> _]|Hq]; [|by right|done].
        left. by destruct p. }
      rewrite IH; [|by apply idmap_insert_sorted_od|].
      + rewrite idmap_insert_In_od by done. cbn [In]. split.
        * intros [[[-> _]|?]|?]; [right; left; by destruct p|tauto..].
        * intros [?|[<-|?]]; [tauto| |tauto].
          destruct (decide (p.1 ∈ kl.*1)) as [Hin%elem_of_list_In|Hni%(not_iff_compat (elem_of_list_In _ _))].
          -- apply In_keys in Hin as [w Hw]. left. right.
             assert (p.2 = w) as Hv.
             { apply (Hf p.1); apply in_or_app; [right; left; by destruct p|by left]. }
             destruct p as [k v]. cbn in *. by subst.
          -- left. left. split; [by destruct p|done].
      + intros k v w Hv Hw. apply (Hf k).
        * apply in_app_or in Hv as [Hv|Hv]; apply in_or_app; [|right; by right].
          apply Hsub in Hv as [->|Hv]; [right; by left|by left].
        * apply in_app_or in Hw as [Hw|Hw]; apply in_or_app; [|right; by right].
          apply Hsub in Hw as [->|Hw]; [right; by left|by left].
  Qed.
End assoc.

(** * A. Consequences of [lwfH] *)
(** number of ops of actor [a] in [l] *)
Definition cnt (a : N) (l : list (oprec lop)) : nat :=
  length (List.filter (λ r', bool_decide (op_author r' = a)) l).

Lemma cnt_app a l1 l2 : cnt a (l1 ++ l2) = (cnt a l1 + cnt a l2)%nat.
Proof. unfold cnt. by rewrite List.filter_app, app_length. Qed.
Lemma cnt_cons a r l :
  cnt a (r :: l) = if decide (op_author r = a) then S (cnt a l) else cnt a l.
Proof. unfold cnt. cbn [List.filter]. case_bool_decide; by destruct (decide _). Qed.
Lemma cnt_take_lt a (H : list (oprec lop)) i j r :
  H !! j = Some r → op_author r = a → (j < i)%nat → (cnt a (take j H) < cnt a (take i H))%nat.
Proof.
  intros Hj Ha Hlt.
  assert (take i H !! j = Some r) as Ht by (by rewrite lookup_take).
  apply take_drop_middle in Ht. rewrite take_take, Nat.min_l in Ht by lia.
  rewrite <-Ht, cnt_app, cnt_cons, decide_True by done. lia.
Qed.
Lemma cnt_take_le a (H : list (oprec lop)) j r :
  H !! j = Some r → op_author r = a → (cnt a (take j H) < cnt a H)%nat.
Proof.
  intros Hj Ha. pose proof (lookup_lt_Some _ _ _ Hj).
  rewrite <-(firstn_all H) at 2. by eapply cnt_take_lt.
Qed.
(** the last op of an actor *)
Lemma cnt_last a (H : list (oprec lop)) :
  (0 < cnt a H)%nat → ∃ j r, H !! j = Some r ∧ op_author r = a ∧ S (cnt a (take j H)) = cnt a H.
Proof.
  induction H as [|x H IH] using rev_ind; [cbn; lia|].
  rewrite cnt_app, cnt_cons. cbn. destruct (decide (op_author x = a)) as [Ha|Ha]; intros Hp.
  - exists (length H), x. split; [by rewrite lookup_app_r, Nat.sub_diag by lia|].
    split; [done|]. rewrite take_app. lia.
  - destruct IH as (j & r & Hj & Hr & Hc); [lia|]. exists j, r.
    split; [by apply lookup_app_l_Some|]. split; [done|].
    pose proof (lookup_lt_Some _ _ _ Hj). rewrite take_app_le by lia. lia.
Qed.

Section wf.
  Context (H : list (oprec lop)) (HH : lwfH H).

  (** the k-th op of an actor carries the dot (actor, k) *)
  Lemma lwfH_dot i r : H !! i = Some r →
    lop_dot (op_val r) = Some (Dot (op_author r) (N.of_nat (cnt (op_author r) (take i H)) + 1)).
  Proof. intros Hi. by destruct (HH i r Hi) as (_ & _ & Hd & _). Qed.
  Lemma lwfH_counter i r d : H !! i = Some r → lop_dot (op_val r) = Some d →
    dactor d = op_author r ∧ dcounter d = N.of_nat (cnt (op_author r) (take i H)) + 1.
  Proof. intros Hi Hd. rewrite (lwfH_dot i r Hi) in Hd. by simplify_eq. Qed.
  Lemma lwfH_deps_lt i r j : H !! i = Some r → j ∈ op_deps r → (j < i)%nat.
  Proof. intros Hi. destruct (HH i r Hi) as (Hd & _). apply Hd. Qed.
  Lemma lwfH_deps_own i r j r' :
    H !! i = Some r → H !! j = Some r' → (j < i)%nat → op_author r' = op_author r → j ∈ op_deps r.
  Proof. intros Hi Hj Hlt Ha. destruct (HH i r Hi) as (_ & Hd & _). by apply (Hd j r'). Qed.
  Lemma lwfH_delete_target i r id d : H !! i = Some r → op_val r = LDelete id d →
    ∃ j r' v, j ∈ op_deps r ∧ H !! j = Some r' ∧ op_val r' = LInsert id v.
  Proof. intros Hi Hv. destruct (HH i r Hi) as (_ & _ & _ & Hd). by rewrite Hv in Hd. Qed.

  (** dots of the same actor are ordered like their positions *)
  Lemma lwfH_dot_mono i j r r' d d' :
    H !! i = Some r → H !! j = Some r' → lop_dot (op_val r) = Some d → lop_dot (op_val r') = Some d' →
    dactor d = dactor d' → (i < j)%nat ↔ dcounter d < dcounter d'.
  Proof.
    intros Hi Hj Hd Hd' Ha.
    destruct (lwfH_counter _ _ _ Hi Hd) as [Ha1 Hc1], (lwfH_counter _ _ _ Hj Hd') as [Ha2 Hc2].
    assert (op_author r = op_author r') as Hau by congruence.
    rewrite Hc1, Hc2, Hau. destruct (lt_eq_lt_dec i j) as [[Hlt| ->]|Hgt].
    - pose proof (cnt_take_lt (op_author r') H j i r Hi Hau Hlt). lia.
    - lia.
    - pose proof (cnt_take_lt (op_author r') H i j r' Hj eq_refl Hgt). lia.
  Qed.
  (** dots are unique *)
  Lemma lwfH_dot_inj i j r r' d :
    H !! i = Some r → H !! j = Some r' → lop_dot (op_val r) = Some d → lop_dot (op_val r') = Some d →
    i = j.
  Proof.
    intros Hi Hj Hd Hd'.
    pose proof (lwfH_dot_mono i j r r' d d Hi Hj Hd Hd' eq_refl).
    pose proof (lwfH_dot_mono j i r' r d d Hj Hi Hd' Hd eq_refl). lia.
  Qed.
  Lemma lwfH_dot_inj_op i j r r' d :
    H !! i = Some r → H !! j = Some r' → lop_dot (op_val r) = Some d → lop_dot (op_val r') = Some d →
    i = j ∧ r = r'.
  Proof. intros Hi Hj Hd Hd'. assert (i = j) as -> by eauto using lwfH_dot_inj. split; congruence. Qed.
  (** dots are positive *)
  Lemma lwfH_dot_pos i r d : H !! i = Some r → lop_dot (op_val r) = Some d → dcounter d ≠ 0.
  Proof. intros Hi Hd. destruct (lwfH_counter _ _ _ Hi Hd) as [_ ->]. lia. Qed.

  (** an insert's identifier is non-empty and ends with its dot *)
  Lemma lwfH_insert_value i r id v : H !! i = Some r → op_val r = LInsert id v →
    idvalue id = Some (op_author r, N.of_nat (cnt (op_author r) (take i H)) + 1).
  Proof.
    intros Hi Hv. pose proof (lwfH_dot i r Hi) as Hd. rewrite Hv in Hd. cbn in Hd.
    destruct (idvalue id) as [[a c]|]; [|done]. cbn in Hd. by simplify_eq.
  Qed.
  Lemma lwfH_insert_nonempty i r id v : H !! i = Some r → op_val r = LInsert id v → id ≠ [].
  Proof. intros Hi Hv ->. by pose proof (lwfH_insert_value i r [] v Hi Hv). Qed.
  (** insert identifiers are unique: two inserts of one identifier are the same op *)
  Lemma lwfH_insert_inj i j r r' id v w :
    H !! i = Some r → H !! j = Some r' → op_val r = LInsert id v → op_val r' = LInsert id w → i = j.
  Proof.
    intros Hi Hj Hv Hw. pose proof (lwfH_dot i r Hi) as Hd.
    eapply (lwfH_dot_inj i j r r'); [done..|]. by rewrite Hw, <-Hd, Hv.
  Qed.
  Lemma lwfH_insert_inj_val i j r r' id v w :
    H !! i = Some r → H !! j = Some r' → op_val r = LInsert id v → op_val r' = LInsert id w → v = w.
  Proof.
    intros Hi Hj Hv Hw. assert (i = j) as -> by eauto using lwfH_insert_inj. congruence.
  Qed.
  (** a delete is later than the insert it targets *)
  Lemma lwfH_delete_after i j r r' id v d :
    H !! i = Some r → H !! j = Some r' → op_val r = LInsert id v → op_val r' = LDelete id d →
    i ∈ op_deps r' ∧ (i < j)%nat.
  Proof.
    intros Hi Hj Hv Hd. destruct (lwfH_delete_target j r' id d Hj Hd) as (k & rk & w & Hk & Hlk & Hvk).
    assert (k = i) as -> by eauto using lwfH_insert_inj. split; [done|]. by eapply lwfH_deps_lt.
  Qed.
End wf.

(** * B. The specification, extensionally *)
(** [id] is inserted with value [v] / deleted by an op known in [K] *)
Definition ins_in (H : list (oprec lop)) (K : gset nat) (id : list (Qc * (N * N))) (v : N) : Prop :=
  ∃ i r, H !! i = Some r ∧ i ∈ K ∧ op_val r = LInsert id v.
Definition del_in (H : list (oprec lop)) (K : gset nat) (id : list (Qc * (N * N))) : Prop :=
  ∃ i r d, H !! i = Some r ∧ i ∈ K ∧ op_val r = LDelete id d.
Definition live (H : list (oprec lop)) (K : gset nat) (id : list (Qc * (N * N))) (v : N) : Prop :=
  ins_in H K id v ∧ ¬ del_in H K id.
(** the dots of the ops known in [K] *)
Definition kdots (H : list (oprec lop)) (K : gset nat) : list dot := omap lop_dot (known_ops H K).

(** what characterises [lspec H K] *)
Definition lchar (H : list (oprec lop)) (K : gset nat) (s : clist) : Prop :=
  sorted_keys odcmp (lseq s) ∧
  (∀ id v, In (id, v) (lseq s) ↔ live H K id v) ∧
  lclock s = dots_clock (kdots H K).

Lemma lchar_eq H K s1 s2 : lchar H K s1 → lchar H K s2 → s1 = s2.
Proof.
  intros (Hs1 & Hi1 & Hc1) (Hs2 & Hi2 & Hc2). destruct s1 as [q1 c1], s2 as [q2 c2]. cbn in *.
  f_equal; [|congruence]. apply sorted_keys_ext; [done..|]. intros [id v]. by rewrite Hi1, Hi2.
Qed.

Lemma elem_of_known_insert H K id v : LInsert id v ∈ known_ops H K ↔ ins_in H K id v.
Proof. apply elem_of_known_ops. Qed.
Lemma elem_of_known_delete H K id : (∃ d, LDelete id d ∈ known_ops H K) ↔ del_in H K id.
Proof.
  unfold del_in. setoid_rewrite elem_of_known_ops. split.
  - intros (d & i & r & ?). by exists i, r, d.
  - intros (i & r & d & ?). by exists d, i, r.
Qed.
Lemma elem_of_kdots H K d :
  d ∈ kdots H K ↔ ∃ i r, H !! i = Some r ∧ i ∈ K ∧ lop_dot (op_val r) = Some d.
Proof.
  unfold kdots. rewrite elem_of_list_omap. setoid_rewrite elem_of_known_ops. split.
  - intros (o & (i & r & Hi & HK & <-) & Hd). by exists i, r.
  - intros (i & r & Hi & HK & Hd). exists (op_val r). split; [by exists i, r|done].
Qed.

Lemma elem_of_deleted (os : list lop) id :
  id ∈ omap (λ o, match o with LDelete id _ => Some id | _ => None end) os ↔ ∃ d, LDelete id d ∈ os.
Proof.
  rewrite elem_of_list_omap. split.
  - intros ([|id' d] & Hin & Ho); simplify_eq. by exists d.
  - intros [d Hin]. by exists (LDelete id d).
Qed.

Lemma lspec_lchar H K : lwfH H → lchar H K (lspec H K).
Proof.
  intros HH. unfold lspec.
  set (os := known_ops H K).
  set (deleted := omap (λ o, match o with LDelete id _ => Some id | _ => None end) os).
  set (ins := omap _ os).
  assert (∀ id v, In (id, v) ins ↔ live H K id v) as Hins.
  { intros id v. rewrite <-elem_of_list_In. unfold ins. rewrite elem_of_list_omap.
    unfold live. rewrite <-elem_of_known_insert, <-elem_of_known_delete, <-elem_of_deleted.
    fold os deleted. split.
    - intros ([id' v'|] & Hin & Ho); [|done]. case_bool_decide; simplify_eq. done.
    - intros [Hin Hnd]. exists (LInsert id v). split; [done|]. by rewrite bool_decide_eq_false_2. }
  split_and!; cbn [lseq lclock].
  - apply (lfold_sorted []). constructor.
  - intros id v. rewrite <-Hins. change (foldl _ [] ins) with (lfold [] ins).
    rewrite lfold_In; [cbn; tauto|constructor|].
    cbn [app]. intros k v1 v2 [(i & r & Hi & _ & Hv) _]%Hins [(j & r' & Hj & _ & Hw) _]%Hins.
    by eapply (lwfH_insert_inj_val H HH i j r r').
  - done.
Qed.

Lemma lspec_init H : lspec H ∅ = l_new.
Proof. unfold lspec. rewrite known_ops_empty. cbn. by rewrite dots_clock_nil. Qed.

Lemma lvalid_empty H : lvalid H ∅.
Proof. split; intros i; set_solver. Qed.
Lemma lvalid_step H K i : lvalid H K → adm_causal H K i → lvalid H (K ∪ {[i]}).
Proof.
  intros [Hd Hc] (o & Ho & Hdeps). split.
  - intros j [Hj| ->%elem_of_singleton]%elem_of_union; [by apply Hd|by eexists].
  - intros j r [Hj| ->%elem_of_singleton]%elem_of_union Hr.
    + specialize (Hc j r Hj Hr). set_solver.
    + simplify_eq. set_solver.
Qed.
Lemma lvalid_union H K1 K2 : lvalid H K1 → lvalid H K2 → lvalid H (K1 ∪ K2).
Proof.
  intros [Hd1 Hc1] [Hd2 Hc2]. split.
  - intros j [Hj|Hj]%elem_of_union; auto.
  - intros j r [Hj|Hj]%elem_of_union Hr; [specialize (Hc1 j r Hj Hr)|specialize (Hc2 j r Hj Hr)]; set_solver.
Qed.
(** a causally closed set is closed under each author's earlier ops *)
Lemma lvalid_per_actor H K i j r r' :
  lwfH H → lvalid H K → i ∈ K → H !! i = Some r → H !! j = Some r' → (j < i)%nat →
  op_author r' = op_author r → j ∈ K.
Proof.
  intros HH [_ Hc] Hi Hr Hr' Hlt Ha. apply (Hc i r Hi Hr). by eapply lwfH_deps_own.
Qed.

(** ** the [seen] lemma: the clock gate decides membership in [K] *)
Lemma lseen_dots H K i r d :
  lwfH H → lvalid H K → H !! i = Some r → lop_dot (op_val r) = Some d →
  dcounter d <= max_ctr (kdots H K) (dactor d) ↔ i ∈ K.
Proof.
  intros HH HK Hi Hd. split.
  - intros Hle. destruct (max_ctr_witness (kdots H K) (dactor d)) as [H0|(d' & Hin & Ha & Hc)].
    { pose proof (lwfH_dot_pos H HH i r d Hi Hd). lia. }
    apply elem_of_kdots in Hin as (j & r' & Hj & HjK & Hd').
    destruct (decide (i = j)) as [->|Hne]; [done|].
    destruct (decide (i < j)%nat) as [Hlt|Hge].
    + destruct (lwfH_counter H HH _ _ _ Hi Hd) as [Ha1 _], (lwfH_counter H HH _ _ _ Hj Hd') as [Ha2 _].
      eapply (lvalid_per_actor H K j i r' r); eauto. congruence.
    + assert (j < i)%nat as Hlt by lia.
      apply (lwfH_dot_mono H HH j i r' r d' d Hj Hi Hd' Hd Ha) in Hlt. lia.
  - intros HiK. apply max_ctr_ge; [|done]. apply elem_of_kdots. by exists i, r.
Qed.
Lemma lseen H K i r d :
  lwfH H → lvalid H K → H !! i = Some r → lop_dot (op_val r) = Some d →
  dcounter d <= vget (lclock (lspec H K)) (dactor d) ↔ i ∈ K.
Proof.
  intros HH HK Hi Hd. unfold lspec. cbn [lclock]. rewrite dots_clock_get. by apply (lseen_dots H K i r d).
Qed.
(** in words: an op whose dot is covered by the clock of a valid knowledge set is in it *)
Corollary lseen_covered H K i r d :
  lwfH H → lvalid H K → H !! i = Some r → lop_dot (op_val r) = Some d →
  dcounter d <= vget (lclock (lspec H K)) (dactor d) → i ∈ K.
Proof. intros HH HK Hi Hd. by apply (lseen H K i r d). Qed.

(** ** the clock after learning one more op *)
Lemma kdots_add H K i r d :
  lwfH H → H !! i = Some r → lop_dot (op_val r) = Some d →
  dots_clock (kdots H (K ∪ {[i]})) = vapply (dots_clock (kdots H K)) d.
Proof.
  intros HH Hi Hd. rewrite <-dots_clock_snoc by (by eapply lwfH_dot_pos).
  apply dots_clock_ext. intros d'. rewrite elem_of_app, elem_of_list_singleton, !elem_of_kdots. split.
  - intros (j & r' & Hj & [HjK| ->%elem_of_singleton]%elem_of_union & Hd'); [left; by exists j, r'|].
    right. congruence.
  - intros [(j & r' & Hj & HjK & Hd')| ->]; [exists j, r'|exists i, r]; set_solver.
Qed.

(** ** one delivery step preserves the characterisation *)
Lemma lapply_lchar H K i r s :
  lwfH H → lvalid H K → H !! i = Some r → lchar H K s → lchar H (K ∪ {[i]}) (l_apply' s (op_val r)).
Proof.
  intros HH HK Hi (Hs & Hin & Hc).
  pose proof (lwfH_dot H HH i r Hi) as Hd. set (d := Dot _ _) in Hd.
  unfold l_apply', l_apply. rewrite Hd.
  destruct (dcounter d <=? vget (lclock s) (dactor d)) eqn:Hg.
  - (* already known *)
    assert (i ∈ K) as HiK.
    { eapply lseen_dots; [done..|]. rewrite Hc, dots_clock_get in Hg. lia. }
    replace (K ∪ {[i]}) with K by set_solver. done.
  - assert (i ∉ K) as HiK.
    { intros HiK. eapply (lseen_dots H K i r d) in HiK; [|done..]. rewrite Hc, dots_clock_get in Hg. lia. }
    destruct (op_val r) as [id v|id dd] eqn:Hv; (split_and!; cbn [from_option Datatypes.id lseq lclock]).
    + by apply idmap_insert_sorted_od.
    + intros id' v'. rewrite idmap_insert_In_od by done. rewrite Hin. split.
      * intros [[[= -> ->] Hni]|[(j & r' & Hj & HjK & Hv') Hnd]].
        -- split; [exists i, r; set_solver|].
           intros (j & r' & d' & Hj & [HjK| ->%elem_of_singleton]%elem_of_union & Hv'); [|congruence].
           destruct (lwfH_delete_after H HH i j r r' id v d' Hi Hj Hv Hv') as [Hdep _].
           destruct HK as [_ HKc]. specialize (HKc j r' HjK Hj). set_solver.
        -- split; [exists j, r'; set_solver|].
           intros (k & rk & d' & Hk & [HkK| ->%elem_of_singleton]%elem_of_union & Hvk); [|congruence].
           apply Hnd. by exists k, rk, d'.
      * intros [(j & r' & Hj & [HjK| ->%elem_of_singleton]%elem_of_union & Hv') Hnd].
        -- right. split; [by exists j, r'|]. intros (k & rk & d' & Hk & HkK & Hvk). apply Hnd.
           exists k, rk, d'. set_solver.
        -- left. simplify_eq. rewrite Hv in Hv'. simplify_eq. split; [done|]. intros [w Hw]%In_keys. apply Hin in Hw as [(j & r' & Hj & HjK & Hv') _].
           assert (i = j) as -> by eauto using lwfH_insert_inj. done.
    + by rewrite Hc, (kdots_add H K i r d HH Hi) by (by rewrite Hv).
    + by apply idmap_remove_sorted.
    + intros id' v'. rewrite idmap_remove_In_od by done. rewrite Hin. cbn [fst]. split.
      * intros [Hne [(j & r' & Hj & HjK & Hv') Hnd]]. split; [exists j, r'; set_solver|].
        intros (k & rk & d' & Hk & [HkK| ->%elem_of_singleton]%elem_of_union & Hvk); [|congruence].
        apply Hnd. by exists k, rk, d'.
      * intros [(j & r' & Hj & [HjK| ->%elem_of_singleton]%elem_of_union & Hv') Hnd]; [|congruence].
        split.
        -- intros ->. apply Hnd. exists i, r, dd. set_solver.
        -- split; [by exists j, r'|]. intros (k & rk & d' & Hk & HkK & Hvk). apply Hnd.
           exists k, rk, d'. set_solver.
    + by rewrite Hc, (kdots_add H K i r d HH Hi) by (by rewrite Hv).
Qed.

(** ** L1: applying an op to the specification of [K] gives the specification of [K ∪ {i}] *)
Theorem list_L1 H K i r :
  lwfH H → lvalid H K → adm_causal H K i → H !! i = Some r →
  l_apply' (lspec H K) (op_val r) = lspec H (K ∪ {[i]}).
Proof.
  intros HH HK _ Hi. apply (lchar_eq H (K ∪ {[i]})); [|by apply lspec_lchar].
  apply lapply_lchar; [done..|]. by apply lspec_lchar.
Qed.

(** ** the framework instance *)
Notation lreach := (reach l_new l_apply' (λ s _ : clist, s) adm_causal False).
Notation lhist_ok := (hist_ok l_new l_apply' (λ s _ : clist, s) lgen adm_causal False).

Theorem list_reach_spec H s K : lwfH H → lreach H s K → s = lspec H K ∧ lvalid H K.
Proof.
  apply (reach_spec eq l_new l_apply' (λ s _, s) adm_causal False lspec lwfH lvalid).
  - by intros ??? ->.
  - by intros ???? -> ->.
  - intros. by rewrite lspec_init.
  - apply lvalid_empty.
  - intros ??? _. apply lvalid_step.
  - apply lvalid_union.
  - apply list_L1.
  - intros ??? [].
Qed.
(** equal knowledge, equal state (structurally) *)
Corollary list_converge H s1 s2 K : lwfH H → lreach H s1 K → lreach H s2 K → s1 = s2.
Proof.
  intros HH [-> _]%list_reach_spec [-> _]%list_reach_spec; done.
Qed.
(** re-delivering a known op changes nothing *)
Corollary list_dup_apply H s K i r :
  lwfH H → lreach H s K → H !! i = Some r → adm_causal H K i → i ∈ K → l_apply' s (op_val r) = s.
Proof.
  intros HH Hr Hi Ha HiK. eapply (list_converge H _ _ K); [done| |done].
  assert (lreach H (l_apply' s (op_val r)) (K ∪ {[i]})) as Hm by (by eapply reach_apply).
  by replace (K ∪ {[i]}) with K in Hm by set_solver.
Qed.

(** * D. Property-level corollaries (C12) *)
(** positions in a strictly sorted list are ordered like the identifiers *)
Lemma sorted_ids_pos_lt (l : list (list (Qc * (N * N)))) i j x y :
  sorted_ids odcmp l → l !! i = Some x → l !! j = Some y → (i < j)%nat ↔ idcmp odcmp x y = Lt.
Proof.
  intros Hs Hi Hj.
  assert (∀ i j x y, l !! i = Some x → l !! j = Some y → (i < j)%nat → idcmp odcmp x y = Lt) as Hlt.
  { clear i j x y Hi Hj. intros i j x y Hi Hj Hlt. rewrite <-(take_drop j l) in Hs.
    apply (sorted_ids_In_app odcmp _ _ x y Hs).
    - apply elem_of_list_In, (elem_of_list_lookup_2 _ i). by rewrite lookup_take.
    - apply elem_of_list_In, (elem_of_list_lookup_2 _ 0%nat). by rewrite lookup_drop, Nat.add_0_r. }
  split; [by apply Hlt|]. intros Hc. destruct (lt_eq_lt_dec i j) as [[?| ->]|Hgt]; [done|..].
  - simplify_eq. by destruct (idcmp_lt_irrefl_od x).
  - destruct (idcmp_lt_asym_od _ _ Hc). by apply (Hlt j i).
Qed.

Lemma sorted_keys_filter {X} (f : list (Qc * (N * N)) * X → bool) kl :
  sorted_keys odcmp kl → sorted_keys odcmp (List.filter f kl).
Proof.
  induction kl as [|p kl IH]; [done|]. intros [Hp Hs]%sorted_keys_cons. cbn [List.filter].
  destruct (f p); [|by apply IH]. apply sorted_keys_cons. split; [|by apply IH].
  rewrite Forall_forall in *. intros q Hq%elem_of_list_In%filter_In. apply Hp, elem_of_list_In, Hq.
Qed.

(** the globally sorted list of everything ever inserted in [H] *)
Definition l_all (H : list (oprec lop)) : list (list (Qc * (N * N)) * N) :=
  lfold [] (omap (λ r, match op_val r with LInsert id v => Some (id, v) | _ => None end) H).
(** a replica knowing [K] has an insert of [id] and no delete of it *)
Definition l_has (H : list (oprec lop)) (K : gset nat) (id : list (Qc * (N * N))) : bool :=
  bool_decide (id ∈ omap (λ o, match o with LInsert id _ => Some id | _ => None end) (known_ops H K))
  && negb (bool_decide (id ∈ omap (λ o, match o with LDelete id _ => Some id | _ => None end) (known_ops H K))).

Lemma l_all_sorted H : sorted_keys odcmp (l_all H).
Proof. apply lfold_sorted. constructor. Qed.
Lemma l_all_In H id v : lwfH H →
  In (id, v) (l_all H) ↔ ∃ i r, H !! i = Some r ∧ op_val r = LInsert id v.
Proof.
  intros HH. unfold l_all. set (ins := omap _ H).
  assert (∀ id v, In (id, v) ins ↔ ∃ i r, H !! i = Some r ∧ op_val r = LInsert id v) as Hins.
  { intros id' v'. rewrite <-elem_of_list_In. unfold ins. rewrite elem_of_list_omap. split.
    - intros (r & [i Hi]%elem_of_list_lookup & Hv). exists i, r. split; [done|].
      destruct (op_val r); by simplify_eq.
    - intros (i & r & Hi & Hv). exists r. split; [by eapply elem_of_list_lookup_2|by rewrite Hv]. }
  rewrite lfold_In; [cbn; rewrite Hins; tauto|constructor|].
  cbn [app]. intros k v1 v2 (i & r & Hi & Hv)%Hins (j & r' & Hj & Hw)%Hins.
  by eapply (lwfH_insert_inj_val H HH i j r r').
Qed.
Lemma l_has_spec H K id : l_has H K id = true ↔ (∃ v, ins_in H K id v) ∧ ¬ del_in H K id.
Proof.
  unfold l_has. rewrite andb_true_iff, negb_true_iff, bool_decide_eq_true, bool_decide_eq_false.
  rewrite elem_of_deleted, elem_of_known_delete. apply and_iff_compat_r.
  rewrite elem_of_list_omap. setoid_rewrite <-elem_of_known_insert. split.
  - intros ([id' v|] & Hin & Ho); simplify_eq. by exists v.
  - intros [v Hin]. by exists (LInsert id v).
Qed.

Section reachable.
  Context (H : list (oprec lop)) (HH : lwfH H).

  Lemma lreach_lchar s K : lreach H s K → lchar H K s.
  Proof. intros [-> _]%list_reach_spec; [|done]. by apply lspec_lchar. Qed.

  (** (i) the sequence is strictly sorted by the one global order on identifiers *)
  Theorem list_sorted s K : lreach H s K → sorted_keys odcmp (lseq s).
  Proof. by intros (? & _)%lreach_lchar. Qed.
  (** (ii) its entries are exactly the inserted and not deleted ones, each once *)
  Theorem list_entries s K id v : lreach H s K → In (id, v) (lseq s) ↔ live H K id v.
  Proof. intros (_ & Hin & _)%lreach_lchar. apply Hin. Qed.
  Theorem list_keys s K id :
    lreach H s K → In id (lseq s).*1 ↔ (∃ v, ins_in H K id v) ∧ ¬ del_in H K id.
  Proof.
    intros Hr. rewrite In_keys. setoid_rewrite (list_entries s K id _ Hr). unfold live. split.
    - intros (v & ? & ?). eauto.
    - intros [[v ?] ?]. eauto.
  Qed.
  Theorem list_keys_NoDup s K : lreach H s K → NoDup (lseq s).*1.
  Proof. intros Hr. by eapply sorted_keys_NoDup_od, list_sorted. Qed.
  (** the clock is the per-actor greatest dot of the known ops *)
  Theorem list_clock s K a : lreach H s K → vget (lclock s) a = max_ctr (kdots H K) a.
  Proof. intros (_ & _ & ->)%lreach_lchar. apply dots_clock_get. Qed.

  (** (iii) position order = identifier order, at every replica *)
  Theorem list_order_global s K i j x y :
    lreach H s K → (lseq s).*1 !! i = Some x → (lseq s).*1 !! j = Some y →
    (i < j)%nat ↔ idcmp odcmp x y = Lt.
  Proof. intros Hr. apply sorted_ids_pos_lt. by eapply list_sorted. Qed.
  (** hence two replicas order any two elements they both hold in the same way *)
  Theorem list_order_agree s1 K1 s2 K2 i1 j1 i2 j2 x y :
    lreach H s1 K1 → lreach H s2 K2 →
    (lseq s1).*1 !! i1 = Some x → (lseq s1).*1 !! j1 = Some y →
    (lseq s2).*1 !! i2 = Some x → (lseq s2).*1 !! j2 = Some y →
    (i1 < j1)%nat ↔ (i2 < j2)%nat.
  Proof.
    intros Hr1 Hr2 Hi1 Hj1 Hi2 Hj2.
    rewrite (list_order_global s1 K1 i1 j1 x y), (list_order_global s2 K2 i2 j2 x y); done.
  Qed.
  (** a replica's sequence is the restriction of the globally sorted list of
      all inserted entries to those it has and has not deleted *)
  Theorem list_restriction s K :
    lreach H s K → lseq s = List.filter (λ p, l_has H K p.1) (l_all H).
  Proof.
    intros Hr. apply sorted_keys_ext; [by eapply list_sorted|apply sorted_keys_filter, l_all_sorted|].
    intros [id v]. rewrite (list_entries s K id v Hr), filter_In, l_all_In, l_has_spec by done.
    cbn [fst]. unfold live. split.
    - intros [(i & r & Hi & HiK & Hv) Hnd]. split; [by exists i, r|]. split; [|done]. exists v. by exists i, r.
    - intros [(i & r & Hi & Hv) [[w (j & r' & Hj & HjK & Hw)] Hnd]]. split; [|done].
      assert (i = j) as -> by eauto using lwfH_insert_inj. by exists j, r.
  Qed.
  (** the replica with more knowledge and no new deletes has a supersequence ... in
      general: the common part of two replicas is the same subsequence of both *)
  Theorem list_common_subseq s1 K1 s2 K2 :
    lreach H s1 K1 → lreach H s2 K2 →
    List.filter (λ p, l_has H K2 p.1) (lseq s1) = List.filter (λ p, l_has H K1 p.1) (lseq s2).
  Proof.
    intros Hr1 Hr2. rewrite (list_restriction s1 K1 Hr1), (list_restriction s2 K2 Hr2).
    generalize (l_all H). intros l. induction l as [|p l IH]; [done|]. cbn [List.filter].
    destruct (l_has H K1 p.1) eqn:E1, (l_has H K2 p.1) eqn:E2; cbn [List.filter]; rewrite ?E1, ?E2, IH; done.
  Qed.
End reachable.

(** states of different points in time of one run: [H] grows to [H ++ H'] *)
Lemma lreach_mono H H' s K : lreach H s K → lreach (H ++ H') s K.
Proof. apply reach_mono. apply @adm_causal_mono. Qed.
Theorem list_order_stable H H' s1 K1 s2 K2 i1 j1 i2 j2 x y :
  lwfH (H ++ H') → lreach H s1 K1 → lreach (H ++ H') s2 K2 →
  (lseq s1).*1 !! i1 = Some x → (lseq s1).*1 !! j1 = Some y →
  (lseq s2).*1 !! i2 = Some x → (lseq s2).*1 !! j2 = Some y →
  (i1 < j1)%nat ↔ (i2 < j2)%nat.
Proof. intros HH Hr1%(lreach_mono H H') Hr2. by apply (list_order_agree (H ++ H') HH s1 K1 s2 K2). Qed.

(** (iv) equal knowledge, equal state: [list_converge] above. *)

(** (v) causal delivery is necessary: actor 1 appends 7, actor 2 (having
    applied it) deletes it; a fresh replica receiving the delete BEFORE the
    insert keeps the element for ever, whereas the specification (and every
    causally delivering replica with the same knowledge) has an empty list. *)
Notation lreach_any := (reach l_new l_apply' (λ s _ : clist, s) adm_any False).
Notation lhist_ok_any := (hist_ok l_new l_apply' (λ s _ : clist, s) lgen adm_any False).

Definition c12_id : list (Qc * (N * N)) := [(Q2Qc 0, (1, 1))].
Definition c12_hist : list (oprec lop) :=
  [OpRec 1 (LInsert c12_id 7) ∅; OpRec 2 (LDelete c12_id (Dot 2 1)) {[0%nat]}].
Definition c12_bad : clist := l_apply' (l_apply' l_new (LDelete c12_id (Dot 2 1))) (LInsert c12_id 7).
Definition c12_good : clist := l_apply' (l_apply' l_new (LInsert c12_id 7)) (LDelete c12_id (Dot 2 1)).

Theorem C12_noncausal_refuted :
  lhist_ok_any c12_hist ∧ lhist_ok c12_hist ∧ lwfH c12_hist ∧
  lreach_any c12_hist c12_bad {[1%nat; 0%nat]} ∧
  lreach c12_hist c12_good {[0%nat; 1%nat]} ∧
  l_read c12_bad = [7] ∧ l_read c12_good = [] ∧ l_read (lspec c12_hist {[0%nat; 1%nat]}) = [] ∧
  c12_bad ≠ lspec c12_hist {[1%nat; 0%nat]} ∧ c12_bad ≠ c12_good.
Proof.
  assert (∀ adm : adm_t lop, (∀ H K i, is_Some (H !! i) → (∀ o, H !! i = Some o → op_deps o ⊆ K) → adm H K i) →
    hist_ok l_new l_apply' (λ s _ : clist, s) lgen adm False c12_hist) as Hok.
  { intros adm Hadm.
    apply (hist_snoc _ _ _ _ _ _ [OpRec 1 (LInsert c12_id 7) ∅] (l_apply' l_new (LInsert c12_id 7)) {[0%nat]} 2 (CDelete 0)).
    - apply (hist_snoc _ _ _ _ _ _ [] l_new ∅ 1 (CAppend 7)); [constructor|constructor| |done].
      by intros j o Hj.
    - replace ({[0%nat]} : gset nat) with ((∅ : gset nat) ∪ {[0%nat]}) by set_solver.
      apply (reach_apply _ _ _ _ _ _ l_new ∅ 0%nat (OpRec 1 (LInsert c12_id 7) ∅)); [constructor|done|].
      apply Hadm; [by eexists|]. intros o [= <-]. done.
    - intros [|[|j]] o Hj Ha; simplify_eq; cbn in *; simplify_eq.
    - done. }
  split_and!.
  - apply Hok. by intros H K i Hs _.
  - apply Hok. intros H K i [o Ho] Hd. exists o. split; [done|by apply Hd].
  - intros [|[|i]] r Hi; cbn in Hi; simplify_eq; cbn [op_val op_deps op_author take]; split_and!.
    + set_solver.
    + intros j r' Hj. lia.
    + by vm_compute.
    + done.
    + intros j ->%elem_of_singleton. lia.
    + intros [|[|j]] r' Hlt Hj Ha; cbn in *; simplify_eq; try lia.
    + by vm_compute.
    + exists 0%nat, (OpRec 1 (LInsert c12_id 7) ∅), 7. split_and!; [set_solver|done|done].
  - apply (reach_apply _ _ _ _ _ _ _ {[1%nat]} 0%nat (OpRec 1 (LInsert c12_id 7) ∅)); [|done|by eexists].
    replace ({[1%nat]} : gset nat) with ((∅ : gset nat) ∪ {[1%nat]}) by set_solver.
    apply (reach_apply _ _ _ _ _ _ l_new ∅ 1%nat (OpRec 2 (LDelete c12_id (Dot 2 1)) {[0%nat]})); [constructor|done|by eexists].
  - apply (reach_apply _ _ _ _ _ _ _ {[0%nat]} 1%nat (OpRec 2 (LDelete c12_id (Dot 2 1)) {[0%nat]})); [|done|by eexists].
    replace ({[0%nat]} : gset nat) with ((∅ : gset nat) ∪ {[0%nat]}) by set_solver.
    apply (reach_apply _ _ _ _ _ _ l_new ∅ 0%nat (OpRec 1 (LInsert c12_id 7) ∅)); [constructor|done|].
    eexists. split; [done|]. set_solver.
  - by vm_compute.
  - by vm_compute.
  - by vm_compute.
  - intros Heq. apply (f_equal l_read) in Heq. by vm_compute in Heq.
  - intros Heq. apply (f_equal l_read) in Heq. by vm_compute in Heq.
Qed.

(** * C. API-generated histories are well-formed *)
(** the clock entry of an actor whose ops are all known counts its ops *)
Lemma list_own_clock H K a :
  lwfH H → own_known H a K → max_ctr (kdots H K) a = N.of_nat (cnt a H).
Proof.
  intros HH Hown. apply N.le_antisymm.
  - apply max_ctr_le_iff. intros d (j & r & Hj & HjK & Hd)%elem_of_kdots Ha.
    destruct (lwfH_counter H HH j r d Hj Hd) as [Hau ->].
    pose proof (cnt_take_le (op_author r) H j r Hj eq_refl). rewrite <-Ha, Hau. lia.
  - destruct (decide (cnt a H = 0%nat)) as [->|Hne]; [lia|].
    destruct (cnt_last a H) as (j & r & Hj & Hau & Hc); [lia|].
    pose proof (lwfH_dot H HH j r Hj) as Hd. rewrite Hau in Hd.
    etrans; [|apply (max_ctr_ge _ _ (Dot a (N.of_nat (cnt a (take j H)) + 1)))]; [cbn; lia| |done].
    apply elem_of_kdots. exists j, r. split_and!; [done|by eapply Hown|done].
Qed.

Lemma vinc_eq c a : vinc c a = Dot a (vget c a + 1).
Proof. done. Qed.

(** an identifier generated by [insert_index] ends with the author's next dot *)
Lemma l_insert_index_dot s ix v a :
  sorted_keys odcmp (lseq s) → lop_dot (l_insert_index s ix v a) = Some (vinc (lclock s) a).
Proof.
  intros Hs. unfold l_insert_index.
  set (m := (dactor (vinc (lclock s) a), dcounter (vinc (lclock s) a))).
  assert (∀ lo hi, proper_gap odcmp lo hi →
            lop_dot (LInsert (between odcmp lo hi m) v) = Some (vinc (lclock s) a)) as Hg.
  { intros lo hi Hp. cbn [lop_dot]. rewrite (between_value odcmp lo hi m Hp). done. }
  destruct (ix `min` length (lseq s))%nat as [|i]; [by apply Hg|].
  apply Hg. destruct ((lseq s).*1 !! i) as [x|] eqn:Hx; [|done].
  destruct ((lseq s).*1 !! S i) as [y|] eqn:Hy; [|done]. cbn.
  assert (idcmp odcmp x y = Lt) as ->; [|done].
  apply (sorted_ids_pos_lt (lseq s).*1 i (S i) x y Hs Hx Hy). lia.
Qed.
Lemma l_insert_index_is_insert s ix v a : ∃ id, l_insert_index s ix v a = LInsert id v.
Proof. unfold l_insert_index. destruct (ix `min` length (lseq s))%nat; by eexists. Qed.
(** [delete_index] targets a key of the sequence *)
Lemma l_delete_index_target s ix a o :
  l_delete_index s ix a = Some o → ∃ id v, o = LDelete id (vinc (lclock s) a) ∧ In (id, v) (lseq s).
Proof.
  unfold l_delete_index. rewrite list_lookup_fmap.
  destruct (lseq s !! ix) as [[id v]|] eqn:E; [|done]. cbn. intros [= <-]. exists id, v.
  split; [done|]. by eapply elem_of_list_In, elem_of_list_lookup_2.
Qed.
(** every generated op carries the author's next dot *)
Lemma lgen_dot s a cmd o :
  sorted_keys odcmp (lseq s) → lgen s a cmd = Some o → lop_dot o = Some (vinc (lclock s) a).
Proof.
  intros Hs. destruct cmd as [ix v|v|ix]; cbn [lgen].
  - intros [= <-]. by apply l_insert_index_dot.
  - intros [= <-]. by apply l_insert_index_dot.
  - intros (id & v & -> & _)%l_delete_index_target. done.
Qed.

Theorem lhist_ok_lwfH H : lhist_ok H → lwfH H.
Proof.
  induction 1 as [|H s K a cmd o Hok IH Hr Hown Hgen].
  { intros i r Hi. by rewrite lookup_nil in Hi. }
  destruct (list_reach_spec H s K IH Hr) as [-> HK].
  pose proof (lspec_lchar H K IH) as (Hs & Hin & Hc).
  intros i r [Hi|[Hge Hi]]%lookup_app_Some.
  - destruct (IH i r Hi) as (H1 & H2 & H3 & H4). pose proof (lookup_lt_Some _ _ _ Hi) as Hlt. split_and!.
    + done.
    + intros j r' Hji Hj Ha. apply (H2 j r'); [done| |done]. by rewrite lookup_app_l in Hj by lia.
    + by rewrite take_app_le by lia.
    + destruct (op_val r); [done|]. destruct H4 as (j & r' & v & ? & Hj & ?). exists j, r', v.
      split_and!; [done|by apply lookup_app_l_Some|done].
  - apply list_lookup_singleton_Some in Hi as [Hi <-]. assert (i = length H) as -> by lia.
    cbn [op_deps op_author op_val]. split_and!.
    + intros j Hj. destruct HK as [HK _]. by apply lookup_lt_is_Some, HK.
    + intros j r' Hlt Hj Ha. rewrite lookup_app_l in Hj by done. by eapply Hown.
    + rewrite take_app. rewrite (lgen_dot _ a cmd o Hs Hgen), vinc_eq, Hc, dots_clock_get.
      by rewrite (list_own_clock H K a IH Hown).
    + destruct cmd as [ix v|v|ix]; cbn [lgen] in Hgen.
      * destruct (l_insert_index_is_insert (lspec H K) ix v a) as [id Hid].
        injection Hgen as <-. by rewrite Hid.
      * destruct (l_insert_index_is_insert (lspec H K) (length (lseq (lspec H K))) v a) as [id Hid].
        change (l_append (lspec H K) v a = LInsert id v) in Hid. injection Hgen as <-. by rewrite Hid.
      * apply l_delete_index_target in Hgen as (id & v & -> & [(j & r' & Hj & HjK & Hv) _]%Hin).
        exists j, r', v. split_and!; [done|by apply lookup_app_l_Some|done].
Qed.

(** ** the results for API-generated histories *)
Corollary list_reach_spec_ok H s K : lhist_ok H → lreach H s K → s = lspec H K ∧ lvalid H K.
Proof. intros HH%lhist_ok_lwfH. by apply list_reach_spec. Qed.
Corollary list_converge_ok H s1 s2 K : lhist_ok H → lreach H s1 K → lreach H s2 K → s1 = s2.
Proof. intros HH%lhist_ok_lwfH. by apply list_converge. Qed.
(** API-generated insert identifiers are non-empty, end with their op's dot and are fresh *)
Corollary lhist_ok_insert_value H i r id v : lhist_ok H → H !! i = Some r → op_val r = LInsert id v →
  id ≠ [] ∧ (λ p : N * N, Dot p.1 p.2) <$> idvalue id = lop_dot (op_val r) ∧
  ∀ j r' w, H !! j = Some r' → op_val r' = LInsert id w → j = i.
Proof.
  intros HH%lhist_ok_lwfH Hi Hv. split_and!.
  - by eapply lwfH_insert_nonempty.
  - by rewrite Hv.
  - intros j r' w Hj Hw. by eapply (lwfH_insert_inj H HH j i r' r).
Qed.
(** C12 for API-generated histories under causal delivery, in one statement *)
Theorem C12_list H s1 K1 s2 K2 :
  lhist_ok H → lreach H s1 K1 → lreach H s2 K2 →
  sorted_keys odcmp (lseq s1) ∧ NoDup (lseq s1).*1 ∧
  (∀ id v, In (id, v) (lseq s1) ↔ live H K1 id v) ∧
  lseq s1 = List.filter (λ p, l_has H K1 p.1) (l_all H) ∧
  (∀ i1 j1 i2 j2 x y,
     (lseq s1).*1 !! i1 = Some x → (lseq s1).*1 !! j1 = Some y →
     (lseq s2).*1 !! i2 = Some x → (lseq s2).*1 !! j2 = Some y →
     (i1 < j1)%nat ↔ (i2 < j2)%nat) ∧
  (K1 = K2 → s1 = s2).
Proof.
  intros HH%lhist_ok_lwfH Hr1 Hr2. split_and!.
  - by eapply list_sorted.
  - by eapply list_keys_NoDup.
  - intros id v. by apply list_entries.
  - by apply list_restriction.
  - intros i1 j1 i2 j2 x y. by apply (list_order_agree H HH s1 K1 s2 K2).
  - intros <-. by eapply list_converge.
Qed.

(** ** the gate and the absence of panics on reachable states *)
Corollary list_gate H s K i r d :
  lwfH H → lreach H s K → H !! i = Some r → lop_dot (op_val r) = Some d →
  dcounter d <= vget (lclock s) (dactor d) ↔ i ∈ K.
Proof. intros HH [-> HK]%list_reach_spec Hi Hd; [|done]. by apply (lseen H K i r d). Qed.
Corollary list_apply_total H s i r :
  lwfH H → H !! i = Some r → l_apply s (op_val r) = Some (l_apply' s (op_val r)).
Proof.
  intros HH Hi. unfold l_apply', l_apply. rewrite (lwfH_dot H HH i r Hi). by destruct (_ <=? _).
Qed.
