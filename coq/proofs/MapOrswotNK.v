(** [Map<K, Orswot<M>>] whose keys are never removed (commands [MOAdd], [MORm] only):
    the COMPLETE state of every reachable replica - map clock, key set, entry clocks and under
    every key the complete nested Orswot (clock, members with witness clocks, pending nested
    removes), [mdeferred = ∅] - is the specification [mapor_spec_nk] of its knowledge, under
    per-actor (overtaking) delivery, duplicates AND state merges ([mapor_refine_nk]).

    Route: the Orswot refinement lemmas are used on op LISTS.  The apply lemmas of
    proofs/OrswotL1.v ([oapply_spec_add], [oapply_spec_rm]) are already stated for op lists
    and need no contiguity of dots; the merge lemma is re-proved for sparse dots in
    proofs/OrswotSparseL2.v ([sparse_L2]).  This file proves the two local refinement lemmas
    of the replicated-system framework (spec/System.v) for the map:
      - Part 1: the specification [mapor_spec_nk_of] through lookup lemmas;
      - Part 2: L1 on op lists ([nk_apply_fresh]);
      - Part 3: L2 on op lists ([nk_merge]): without key removes [mmerge_entry] deletes
        nothing, the nested [reset_remove] is the identity;
      - Part 4: histories: well-formedness [nk_wfH] (established for API-generated histories
        together with the theorem, [mohist_nk_wf]), the instance of the framework, the theorem;
      - Part 5: corollaries (C01 C02 C03 C08 C09 C20) and a closed non-vacuity example. *)
From stdpp Require Import gmap.
From Crdt Require Import model.Orswot model.Map spec.System spec.OrswotSpec spec.OrswotSystem
  spec.MapSpec spec.MapSystem spec.MapOrswotSpec proofs.VClock proofs.Reset proofs.OrswotLayer
  proofs.OrswotL1 proofs.OrswotL2a proofs.OrswotL2 proofs.OrswotSystem proofs.MapFacts proofs.MapKeys
  proofs.MapOrswot proofs.OrswotSparseL2.
From Coq Require Import ZifyBool ZifyN ZifyNat.
Local Open Scope N_scope.

Local Notation vo := orswot_valops.
Local Notation S := mapor_spec_nk_of.

(** * Part 1: the specification, through lookups *)

(** what the commands [MOAdd], [MORm] generate: an update whose nested add carries the dot
    of the update, or whose nested remove has a context without stored zero *)
Definition nk_op (o : mop oop) : Prop :=
  match o with
  | MUp d _ (OAdd d' _) => d' = d
  | MUp _ _ (ORm c _) => vwf c
  | MRm _ _ => False
  end.
Definition nk_ops (os : list (mop oop)) : Prop := ∀ o, o ∈ os → nk_op o.

(** the dots of the updates of key [k] *)
Definition kdots (os : list (mop oop)) (k : N) : list dot :=
  omap (λ o, match o with MUp d k' _ => if bool_decide (k' = k) then Some d else None | MRm _ _ => None end) os.

Definition nk_ent (os : list (mop oop)) (k : N) : mentry orswot :=
  MEntry (mspec_entry_clock os k) (ospec_of (mo_proj os k)).

Lemma nk_ops_app os1 os2 : nk_ops (os1 ++ os2) ↔ nk_ops os1 ∧ nk_ops os2.
Proof.
  unfold nk_ops. setoid_rewrite elem_of_app. split.
  - intros H. split; intros o Ho; apply H; tauto.
  - intros [H1 H2] o [?|?]; [by apply H1|by apply H2].
Qed.

Lemma elem_of_mkeys_mentioned (os : list (mop oop)) k : k ∈ mkeys_mentioned os ↔ ∃ d o, MUp d k o ∈ os.
Proof.
  unfold mkeys_mentioned. rewrite elem_of_list_omap. split.
  - intros ([c ks|d k' o] & Hin & Hb); [done|]. injection Hb as ->. by exists d, o.
  - intros (d & o & Hin). by exists (MUp d k o).
Qed.
Lemma elem_of_mo_proj os k o : o ∈ mo_proj os k ↔ ∃ d, MUp d k o ∈ os.
Proof.
  unfold mo_proj. rewrite elem_of_list_omap. split.
  - intros ([c ks|d k' o'] & Hin & Hb); [done|]. case_bool_decide; [|done]. simplify_eq. by exists d.
  - intros (d & Hin). exists (MUp d k o). split; [done|]. by rewrite bool_decide_eq_true_2.
Qed.
Lemma elem_of_kdots os k d : d ∈ kdots os k ↔ ∃ o, MUp d k o ∈ os.
Proof.
  unfold kdots. rewrite elem_of_list_omap. split.
  - intros ([c ks|d' k' o'] & Hin & Hb); [done|]. case_bool_decide; [|done]. simplify_eq. by exists o'.
  - intros (o & Hin). exists (MUp d k o). split; [done|]. by rewrite bool_decide_eq_true_2.
Qed.

Lemma mo_proj_app os1 os2 k : mo_proj (os1 ++ os2) k = mo_proj os1 k ++ mo_proj os2 k.
Proof. unfold mo_proj. by rewrite omap_app. Qed.
Lemma kdots_app os1 os2 k : kdots (os1 ++ os2) k = kdots os1 k ++ kdots os2 k.
Proof. unfold kdots. by rewrite omap_app. Qed.
Lemma mall_dots_app (os1 os2 : list (mop oop)) : mall_dots (os1 ++ os2) = mall_dots os1 ++ mall_dots os2.
Proof. unfold mall_dots. by rewrite omap_app. Qed.
Lemma mkeys_mentioned_app (os1 os2 : list (mop oop)) :
  mkeys_mentioned (os1 ++ os2) = mkeys_mentioned os1 ++ mkeys_mentioned os2.
Proof. unfold mkeys_mentioned. by rewrite omap_app. Qed.

Lemma dots_clock_app ds1 ds2 : dots_clock (ds1 ++ ds2) = vmerge (dots_clock ds1) (dots_clock ds2).
Proof.
  apply vwf_ext; [apply dots_clock_wf|apply vmerge_wf; apply dots_clock_wf|]. intros a.
  by rewrite vmerge_get, !dots_clock_get, max_ctr_app.
Qed.

(** without key removes every update dot of a key survives *)
Lemma nk_live os k d : nk_ops os → d ∈ mlive_dots os k ↔ d ∈ kdots os k.
Proof.
  intros Hs. rewrite elem_of_mlive_dots, elem_of_kdots. split; [by intros [? _]|].
  intros Hex. split; [done|]. intros (c & ks & Hin & _). by apply Hs in Hin.
Qed.
Lemma nk_entry_clock os k : nk_ops os → mspec_entry_clock os k = dots_clock (kdots os k).
Proof. intros Hs. apply dots_clock_ext. intros d. by apply nk_live. Qed.

Lemma nk_clock_get (os : list (mop oop)) a : vget (mspec_clock os) a = max_ctr (mall_dots os) a.
Proof. apply dots_clock_get. Qed.

Lemma nk_entries_lookup os k :
  mentries (S os) !! k = if decide (k ∈ mkeys_mentioned os) then Some (nk_ent os k) else None.
Proof.
  cbn [mentries mapor_spec_nk_of]. rewrite fn_map_lookup.
  destruct (decide (k ∈ list_to_set _)) as [Hin|Hin]; rewrite elem_of_list_to_set in Hin.
  - by rewrite decide_True.
  - by rewrite decide_False.
Qed.

Lemma ospec_of_nil : ospec_of [] = onew.
Proof. by vm_compute. Qed.

Lemma nk_ent_absent os k : k ∉ mkeys_mentioned os → nk_ent os k = MEntry ∅ onew.
Proof.
  intros Hn. unfold nk_ent.
  assert (mlive_dots os k = []) as Hl.
  { apply list_no_elem_nil. intros d [[o Ho] _]%elem_of_mlive_dots. apply Hn, elem_of_mkeys_mentioned. by exists d, o. }
  assert (mo_proj os k = []) as Hp.
  { apply list_no_elem_nil. intros o [d Ho]%elem_of_mo_proj. apply Hn, elem_of_mkeys_mentioned. by exists d, o. }
  unfold mspec_entry_clock. by rewrite Hl, Hp, dots_clock_nil, ospec_of_nil.
Qed.

Lemma nk_entries_default os k :
  default (MEntry ∅ (v_default vo)) (mentries (S os) !! k) = nk_ent os k.
Proof.
  rewrite nk_entries_lookup. destruct (decide _) as [Hin|Hin]; [done|].
  cbn [default v_default]. by rewrite nk_ent_absent.
Qed.

(** the specification depends only on the SET of known ops *)
Lemma nk_spec_ext os os' : (∀ o, o ∈ os ↔ o ∈ os') → S os = S os'.
Proof.
  intros H.
  assert (mspec_clock os = mspec_clock os') as Hc.
  { apply dots_clock_ext. intros d. rewrite !elem_of_mall_dots. by setoid_rewrite H. }
  assert (∀ k, nk_ent os k = nk_ent os' k) as He.
  { intros k. unfold nk_ent. f_equal.
    - apply dots_clock_ext. intros d. rewrite !elem_of_mlive_dots. by setoid_rewrite H.
    - apply ospec_of_ext. intros o. rewrite !elem_of_mo_proj. by setoid_rewrite H. }
  apply cmap_eq3; [done| |done].
  apply map_eq. intros k. rewrite !nk_entries_lookup, He.
  destruct (decide (k ∈ mkeys_mentioned os)) as [Hin|Hin], (decide (k ∈ mkeys_mentioned os')) as [Hin'|Hin']; try done.
  - destruct Hin'. apply elem_of_mkeys_mentioned in Hin as (d & o & Ho). apply elem_of_mkeys_mentioned. exists d, o. by apply H.
  - destruct Hin. apply elem_of_mkeys_mentioned in Hin' as (d & o & Ho). apply elem_of_mkeys_mentioned. exists d, o. by apply H.
Qed.

(** the nested clock is below the entry clock, which is below the map clock *)
Lemma nk_nested_clock_le os k a : nk_ops os →
  vget (ospec_clock (mo_proj os k)) a <= vget (mspec_entry_clock os k) a.
Proof.
  intros Hs. rewrite ospec_clock_get, nk_entry_clock, dots_clock_get by done.
  apply max_ctr_le_iff. intros d Hd Ha. apply max_ctr_ge; [|done].
  apply elem_of_add_dots in Hd as [ms Hd]. apply elem_of_mo_proj in Hd as [d0 Hd].
  pose proof (Hs _ Hd) as Ho. cbn in Ho. subst d0. apply elem_of_kdots. by eexists.
Qed.
Lemma nk_entry_clock_le (os : list (mop oop)) k a : vget (mspec_entry_clock os k) a <= vget (mspec_clock os) a.
Proof. apply mspec_entry_le_clock. Qed.

(** * Part 2: L1 on op lists *)
Lemma nk_apply_fresh os d k o :
  nk_ops (os ++ [MUp d k o]) → vget (mspec_clock os) (dactor d) < dcounter d →
  mapply vo (S os) (MUp d k o) = S (os ++ [MUp d k o]).
Proof.
  intros Hs' Hfresh. pose proof Hs' as [Hs Hnew]%nk_ops_app.
  assert (nk_op (MUp d k o)) as Hop by (apply Hnew; by left).
  rewrite mapply_up_fresh by done. rewrite mapply_deferred_empty by done.
  rewrite nk_entries_default. cbn [eclock eval nk_ent v_apply].
  apply cmap_eq3; cbn [mclock mentries mdeferred]; [| |done].
  - unfold mapor_spec_nk_of. cbn [mclock]. unfold mspec_clock. rewrite mall_dots_app. cbn. rewrite dots_clock_snoc; [done|lia].
  - apply map_eq. intros k'.
    rewrite (nk_entries_lookup (os ++ _)), mkeys_mentioned_app. cbn [mkeys_mentioned omap list_omap].
    destruct (decide (k' = k)) as [->|Hne].
    + rewrite lookup_insert, decide_True by (rewrite elem_of_app, elem_of_list_singleton; by right).
      f_equal. unfold nk_ent. f_equal.
      * rewrite !nk_entry_clock, kdots_app by done. cbn. rewrite bool_decide_eq_true_2 by done.
        cbn. rewrite dots_clock_snoc; [done|lia].
      * rewrite mo_proj_app. cbn. rewrite bool_decide_eq_true_2 by done. cbn.
        set (p := mo_proj os k).
        assert (∀ x, x ∈ p ++ [o] ↔ x ∈ p ∨ x = o) as Hos'.
        { intros x. by rewrite elem_of_app, elem_of_list_singleton. }
        destruct o as [d' ms|c ms].
        -- cbn in Hop. subst d'. apply (oapply_spec_add p (p ++ [OAdd d ms]) d ms Hos').
           ++ pose proof (nk_nested_clock_le os k (dactor d) Hs). pose proof (nk_entry_clock_le os k (dactor d)).
              fold p in H. lia.
           ++ intros c ms' [d0 Hin]%elem_of_mo_proj. by apply Hs in Hin.
        -- by apply (oapply_spec_rm p (p ++ [ORm c ms]) c ms Hos').
    + rewrite lookup_insert_ne by done. rewrite nk_entries_lookup.
      assert (nk_ent (os ++ [MUp d k o]) k' = nk_ent os k') as ->.
      { unfold nk_ent. f_equal.
        - rewrite !nk_entry_clock, kdots_app by done. cbn. rewrite bool_decide_eq_false_2 by done.
          cbn. by rewrite app_nil_r.
        - rewrite mo_proj_app. cbn. rewrite bool_decide_eq_false_2 by done. cbn. by rewrite app_nil_r. }
      destruct (decide (k' ∈ mkeys_mentioned os)) as [Hin|Hin].
      * rewrite decide_True; [done|]. rewrite elem_of_app. by left.
      * rewrite decide_False; [done|]. rewrite elem_of_app, elem_of_list_singleton. intros [?|?]; congruence.
Qed.

(** * Part 3: L2 on op lists *)

(** every positive component of [c] is the dot of an update of key [k] in the universe *)
Definition kclk (Ua : list (mop oop)) (k : N) (c : gmap N N) : Prop :=
  ∀ a, 0 < vget c a → ∃ o, MUp (Dot a (vget c a)) k o ∈ Ua.

(** the universe of all ops ever generated *)
Definition nk_univ (Ua : list (mop oop)) : Prop :=
  nk_ops Ua ∧ (∀ d k o, MUp d k o ∈ Ua → 0 < dcounter d) ∧
  (∀ d k c ms, MUp d k (ORm c ms) ∈ Ua → kclk Ua k c).

(** the ops a replica knows: ops of the universe; an update of the universe whose dot the
    replica's clock covers is known *)
Definition nk_side (Ua os : list (mop oop)) : Prop :=
  (∀ o, o ∈ os → o ∈ Ua) ∧
  (∀ d k o, MUp d k o ∈ Ua → dcounter d <= vget (mspec_clock os) (dactor d) → MUp d k o ∈ os).

Lemma inert_le x c c' : inert x c → vleq c' c → inert x c'.
Proof. intros Hi Hle a. specialize (Hle a). destruct (Hi a); [by left|right; lia]. Qed.
Lemma inert_empty_r x : inert x ∅.
Proof. intros a. rewrite vget_empty. lia. Qed.

Lemma oreset_inert v r :
  vwf (oclock v) → inert (oclock v) r →
  (∀ m e, oentries v !! m = Some e → vwf e ∧ e ≠ ∅ ∧ inert e r) →
  (∀ c ms, odeferred v !! c = Some ms → vwf c ∧ c ≠ ∅ ∧ inert c r) →
  oreset v r = v.
Proof.
  intros Hc Hci He Hd. rewrite oreset_unfold. destruct v as [cl es df]. cbn [oclock oentries odeferred] in *.
  f_equal.
  - by apply inert_vreset_id.
  - apply map_eq. intros m. rewrite ereset_lookup. destruct (es !! m) as [e|] eqn:E; [|done]. cbn.
    destruct (He m e E) as (Hw & Hne & Hi). apply wreset_Some. by rewrite inert_vreset_id.
  - assert (∀ k ms, df !! k = Some ms → vreset k r = k) as Hid.
    { intros k ms Hk. destruct (Hd k ms Hk) as (Hw & _ & Hi). by apply inert_vreset_id. }
    apply dtbl_ext.
    + intros k. rewrite oreset_deferred_dom. split.
      * intros [_ (k0 & [ms H] & <-)]. rewrite (Hid _ _ H). by exists ms.
      * intros [ms H]. split; [by destruct (Hd k ms H) as (_ & ? & _)|]. exists k. split; [by exists ms|by eapply Hid].
    + intros k m. rewrite oreset_deferred_mem. split.
      * intros [_ (k0 & ms & H & Hm & <-)]. by rewrite (Hid _ _ H), H.
      * destruct (df !! k) as [ms|] eqn:H; cbn [default]; [|set_solver]. intros Hm.
        split; [by destruct (Hd k ms H) as (_ & ? & _)|]. exists k, ms. split_and!; [done..|by eapply Hid].
Qed.

Lemma ospec_oreset_inert p r :
  (∀ c ms, ORm c ms ∈ p → vwf c) →
  inert (ospec_clock p) r → (∀ m, inert (ospec_entry p m) r) → (∀ c ms, ORm c ms ∈ p → inert c r) →
  oreset (ospec_of p) r = ospec_of p.
Proof.
  intros Hw Hc He Hd. apply oreset_inert; cbn [oclock oentries odeferred ospec_of].
  - apply ospec_clock_wf.
  - done.
  - intros m e [-> Hne]%ospec_entries_Some. split_and!; [apply ospec_entry_wf|done|apply He].
  - intros c ms (-> & Hv & ms' & Hin)%ospec_deferred_Some.
    pose proof (Hw _ _ Hin) as Hcw. split_and!; [done| |by eapply Hd].
    intros ->. assert (vle ∅ (ospec_clock p) = true); [|congruence].
    apply vle_spec; [apply vwf_empty|apply ospec_clock_wf|]. intros a. rewrite vget_empty. lia.
Qed.

Section merge.
  Context (Ua : list (mop oop)) (HU : nk_univ Ua).

  Lemma nk_side_ops os : nk_side Ua os → nk_ops os.
  Proof using HU. intros [Hsub _] o Ho. destruct HU as (Hs & _). by apply Hs, Hsub. Qed.

  Lemma nk_sp_side os k : nk_side Ua os → sp_side (mo_proj Ua k) (mo_proj os k).
  Proof using HU.
    intros HS. pose proof (nk_side_ops os HS) as Hs. destruct HS as [Hsub Hseen]. destruct HU as (HsU & _).
    split_and!.
    - intros o [d Ho]%elem_of_mo_proj. apply elem_of_mo_proj. exists d. by apply Hsub.
    - intros c ms [d Ho]%elem_of_mo_proj. by apply Hs in Ho.
    - intros d ms [d0 Ho]%elem_of_mo_proj Hle. pose proof (HsU _ Ho) as Hop. cbn in Hop. subst d0.
      apply elem_of_mo_proj. exists d. apply Hseen; [done|].
      pose proof (nk_nested_clock_le os k (dactor d) Hs). pose proof (nk_entry_clock_le os k (dactor d)). lia.
  Qed.
  Lemma nk_sp_pos k d ms : OAdd d ms ∈ mo_proj Ua k → 0 < dcounter d.
  Proof using HU.
    intros [d0 Ho]%elem_of_mo_proj. destruct HU as (HsU & Hpos & _).
    pose proof (HsU _ Ho) as Hop. cbn in Hop. subst d0. by eapply Hpos.
  Qed.

  (** the clocks of the specification under key [k] consist of update dots of [k] *)
  Lemma kclk_entry_clock os k : nk_side Ua os → kclk Ua k (mspec_entry_clock os k).
  Proof using HU.
    intros HS a. pose proof (nk_side_ops os HS) as Hs. rewrite nk_entry_clock, dots_clock_get by done. intros Hp.
    destruct (max_ctr_witness (kdots os k) a) as [?|([a' n] & Hin & Ha & Hc)]; [lia|]. cbn in Ha, Hc. subst a'.
    rewrite <- Hc. apply elem_of_kdots in Hin as [o Ho]. exists o. by apply HS.
  Qed.
  Lemma kclk_nested_clock os k : nk_side Ua os → kclk Ua k (ospec_clock (mo_proj os k)).
  Proof using HU.
    intros HS a. pose proof (nk_side_ops os HS) as Hs. rewrite ospec_clock_get. intros Hp.
    destruct (max_ctr_witness (fst <$> adds_of (mo_proj os k)) a) as [?|([a' n] & Hin & Ha & Hc)]; [lia|].
    cbn in Ha, Hc. subst a'. rewrite <- Hc.
    apply elem_of_add_dots in Hin as [ms Hin]. apply elem_of_mo_proj in Hin as [d0 Ho].
    pose proof (Hs _ Ho) as Hop. cbn in Hop. subst d0. eexists. by apply HS.
  Qed.
  Lemma kclk_nested_entry os k m : nk_side Ua os → kclk Ua k (ospec_entry (mo_proj os k) m).
  Proof using HU.
    intros HS a. pose proof (nk_side_ops os HS) as Hs. rewrite ospec_entry_get. intros Hp.
    destruct (max_ctr_witness (live_dots (mo_proj os k) m) a) as [?|([a' n] & Hin & Ha & Hc)]; [lia|].
    cbn in Ha, Hc. subst a'. rewrite <- Hc.
    apply elem_of_live_dots in Hin as [(ms & Hin & _) _]. apply elem_of_mo_proj in Hin as [d0 Ho].
    pose proof (Hs _ Ho) as Hop. cbn in Hop. subst d0. eexists. by apply HS.
  Qed.
  Lemma kclk_nested_rm os k c ms : nk_side Ua os → ORm c ms ∈ mo_proj os k → kclk Ua k c.
  Proof using HU.
    intros HS [d Ho]%elem_of_mo_proj. destruct HU as (_ & _ & Hk). eapply Hk. by apply HS.
  Qed.

  (** a replica that holds no update of [k] covers none of [k]'s dots *)
  Lemma kclk_inert os k x : nk_side Ua os → k ∉ mkeys_mentioned os → kclk Ua k x → inert x (mspec_clock os).
  Proof.
    intros [_ Hseen] Hk Hx a. destruct (N.eq_0_gt_0_cases (vget x a)) as [?|Hp]; [by left|right].
    destruct (Hx a Hp) as [o Ho]. destruct (N.lt_ge_cases (vget (mspec_clock os) a) (vget x a)) as [?|Hle]; [done|].
    exfalso. apply Hk, elem_of_mkeys_mentioned. exists (Dot a (vget x a)), o. by apply Hseen.
  Qed.

  (** a dot of [k] that one replica holds and the clock of the other covers is held by both *)
  Lemma nk_entry_seen os os' k a : nk_side Ua os → nk_side Ua os' →
    vget (mspec_entry_clock os' k) a <= vget (mspec_clock os) a →
    vget (mspec_entry_clock os' k) a <= vget (mspec_entry_clock os k) a.
  Proof using HU.
    intros HS HS'. pose proof (nk_side_ops os HS) as Hs. pose proof (nk_side_ops os' HS') as Hs'.
    rewrite !nk_entry_clock, !dots_clock_get by done. intros Hle.
    destruct (max_ctr_witness (kdots os' k) a) as [->|([a' n] & Hin & Ha & Hc)]; [lia|]. cbn in Ha, Hc. subst a'.
    rewrite <- Hc in *. apply (max_ctr_ge _ _ (Dot a n)); [|done].
    apply elem_of_kdots in Hin as [o Ho]. apply elem_of_kdots. exists o. apply HS; [by apply HS'|done].
  Qed.

  Lemma nk_absent_nil os k : k ∉ mkeys_mentioned os → kdots os k = [] ∧ mo_proj os k = [].
  Proof.
    intros Hn. split; apply list_no_elem_nil.
    - intros d [o Ho]%elem_of_kdots. apply Hn, elem_of_mkeys_mentioned. by exists d, o.
    - intros o [d Ho]%elem_of_mo_proj. apply Hn, elem_of_mkeys_mentioned. by exists d, o.
  Qed.

  Lemma nk_entry_clock_pos os k : nk_side Ua os → k ∈ mkeys_mentioned os →
    ∃ a, 0 < vget (mspec_entry_clock os k) a.
  Proof using HU.
    intros HS (d & o & Ho)%elem_of_mkeys_mentioned. pose proof (nk_side_ops os HS) as Hs.
    exists (dactor d). rewrite nk_entry_clock, dots_clock_get by done.
    assert (0 < dcounter d) by (destruct HU as (_ & Hpos & _); eapply Hpos; by apply HS).
    assert (dcounter d <= max_ctr (kdots os k) (dactor d)); [|lia].
    apply max_ctr_ge; [|done]. apply elem_of_kdots. by exists o.
  Qed.

  (** one side holds the key, the other does not: nothing is deleted *)
  Lemma nk_one_side os os' k : nk_side Ua os → nk_side Ua os' →
    k ∈ mkeys_mentioned os → k ∉ mkeys_mentioned os' →
    vge (mspec_clock os') (mspec_entry_clock os k) = false ∧
    vreset (mspec_entry_clock os k) (mspec_clock os') = mspec_entry_clock os k ∧
    oreset (ospec_of (mo_proj os k)) (vreset (mspec_clock os') (mspec_entry_clock os k)) = ospec_of (mo_proj os k).
  Proof using HU.
    intros HS HS' Hin Hnin. pose proof (nk_side_ops os HS) as Hs.
    pose proof (kclk_inert os' k _ HS' Hnin (kclk_entry_clock os k HS)) as Hi.
    assert (vwf (mspec_entry_clock os k)) as Hw by apply dots_clock_wf.
    assert (vwf (mspec_clock os')) as Hw' by apply dots_clock_wf.
    split_and!.
    - destruct (vge _ _) eqn:E; [|done]. apply vge_spec in E; [|done..].
      destruct (nk_entry_clock_pos os k HS Hin) as [a Ha]. specialize (E a). destruct (Hi a); lia.
    - by apply inert_vreset_id.
    - assert (∀ x, kclk Ua k x → inert x (vreset (mspec_clock os') (mspec_entry_clock os k))) as Hx.
      { intros x Hx. eapply inert_le; [by eapply kclk_inert|]. apply vreset_leq. }
      apply ospec_oreset_inert.
      + intros c ms [d Ho]%elem_of_mo_proj. by apply Hs in Ho.
      + by apply Hx, kclk_nested_clock.
      + intros m. by apply Hx, kclk_nested_entry.
      + intros c ms Hc. apply Hx. by apply (kclk_nested_rm os k c ms).
  Qed.

  (** both sides hold the key: the common clock is the join *)
  Lemma nk_common os1 os2 k : nk_side Ua os1 → nk_side Ua os2 →
    vmerge (vmerge (vintersection (mspec_entry_clock os2 k) (mspec_entry_clock os1 k))
                   (vclone_without (mspec_entry_clock os2 k) (mspec_clock os1)))
           (vclone_without (mspec_entry_clock os1 k) (mspec_clock os2)) =
    vmerge (mspec_entry_clock os1 k) (mspec_entry_clock os2 k).
  Proof using HU.
    intros HS1 HS2. unfold vclone_without.
    assert (vwf (mspec_entry_clock os1 k)) as Hw1 by apply dots_clock_wf.
    assert (vwf (mspec_entry_clock os2 k)) as Hw2 by apply dots_clock_wf.
    apply vwf_ext.
    - repeat apply vmerge_wf; try apply vreset_wf; try done. by apply vintersection_wf.
    - by apply vmerge_wf.
    - intros a. rewrite !vmerge_get, vintersection_get, !vreset_get.
      pose proof (nk_entry_seen os1 os2 k a HS1 HS2). pose proof (nk_entry_seen os2 os1 k a HS2 HS1).
      pose proof (nk_entry_clock_le os1 k a). pose proof (nk_entry_clock_le os2 k a).
      repeat case_match; lia.
  Qed.

  Theorem nk_merge os1 os2 : nk_side Ua os1 → nk_side Ua os2 →
    mmerge vo (S os1) (S os2) = S (os1 ++ os2).
  Proof using HU.
    intros HS1 HS2. pose proof (nk_side_ops os1 HS1) as Hs1. pose proof (nk_side_ops os2 HS2) as Hs2.
    assert (nk_ops (os1 ++ os2)) as Hs by (by apply nk_ops_app).
    rewrite mmerge_unfold. cbn zeta.
    change (mdeferred (S os2)) with (∅ : gmap (gmap N N) (gset N)).
    unfold mfold at 1 2. rewrite map_fold_empty. cbn [mclock mentries mdeferred].
    rewrite mapply_deferred_empty by done.
    apply cmap_eq3; cbn [mclock mentries mdeferred]; [| |done].
    - unfold mapor_spec_nk_of. cbn [mclock]. unfold mspec_clock. by rewrite mall_dots_app, dots_clock_app.
    - change (mclock (S os1)) with (mspec_clock os1). change (mclock (S os2)) with (mspec_clock os2).
      apply map_eq. intros k. rewrite mmerge_entries_lookup, !nk_entries_lookup, mkeys_mentioned_app.
      assert (nk_ent (os1 ++ os2) k =
              MEntry (vmerge (mspec_entry_clock os1 k) (mspec_entry_clock os2 k))
                     (ospec_of (mo_proj os1 k ++ mo_proj os2 k))) as He.
      { unfold nk_ent. by rewrite !nk_entry_clock, kdots_app, dots_clock_app, mo_proj_app by done. }
      destruct (decide (k ∈ mkeys_mentioned os1)) as [H1|H1], (decide (k ∈ mkeys_mentioned os2)) as [H2|H2].
      + rewrite decide_True by (rewrite elem_of_app; by left).
        cbn [mmerge_entry nk_ent eclock eval]. rewrite (nk_common os1 os2 k HS1 HS2).
        assert (vwf (mspec_entry_clock os1 k)) as Hw1 by apply dots_clock_wf.
        assert (vwf (mspec_entry_clock os2 k)) as Hw2 by apply dots_clock_wf.
        destruct (vis_empty _) eqn:Ee.
        { apply vis_empty_spec in Ee. destruct (nk_entry_clock_pos os1 k HS1 H1) as [a Ha].
          assert (vget (vmerge (mspec_entry_clock os1 k) (mspec_entry_clock os2 k)) a = 0) as Hz by (by rewrite Ee, vget_empty).
          rewrite vmerge_get in Hz. lia. }
        rewrite He. f_equal. f_equal.
        rewrite (vmerge_comm (mspec_entry_clock os2 k)), vreset_self by done.
        cbn [v_reset v_merge orswot_valops].
        rewrite (sparse_L2 (mo_proj Ua k) (mo_proj os1 k) (mo_proj os2 k) (nk_sp_pos k)
                   (nk_sp_side os1 k HS1) (nk_sp_side os2 k HS2)).
        apply ospec_oreset_inert; intros; try apply inert_empty_r.
        match goal with Hx : ORm _ _ ∈ _ |- _ => apply elem_of_app in Hx as [[d Ho]%elem_of_mo_proj|[d Ho]%elem_of_mo_proj] end.
        * by apply Hs1 in Ho.
        * by apply Hs2 in Ho.
      + rewrite decide_True by (rewrite elem_of_app; by left).
        cbn [mmerge_entry nk_ent eclock eval].
        destruct (nk_one_side os1 os2 k HS1 HS2 H1 H2) as (-> & -> & Hr).
        cbn [v_reset orswot_valops]. rewrite Hr, He.
        destruct (nk_absent_nil os2 k H2) as [Hk Hp].
        rewrite (nk_entry_clock os2), Hk, Hp, dots_clock_nil, vmerge_empty_r, app_nil_r by done. done.
      + rewrite decide_True by (rewrite elem_of_app; by right).
        cbn [mmerge_entry nk_ent eclock eval].
        destruct (nk_one_side os2 os1 k HS2 HS1 H2 H1) as (-> & -> & Hr).
        cbn [v_reset orswot_valops]. rewrite Hr, He.
        destruct (nk_absent_nil os1 k H1) as [Hk Hp].
        rewrite (nk_entry_clock os1), Hk, Hp, dots_clock_nil, vmerge_empty_l by (done || apply dots_clock_wf). done.
      + rewrite decide_False by (rewrite elem_of_app; tauto). done.
  Qed.
End merge.

(** * Part 4: histories *)
Definition hops (H : list (oprec (mop oop))) : list (mop oop) := op_val <$> H.

(** structural well-formedness of a history: at key level the n-th update of an actor carries
    the dot (actor, n); the ops have the shape [nk_op]; every positive component of a nested
    remove context under [k] is the dot of an update of [k] *)
Definition nk_wfH (H : list (oprec (mop oop))) : Prop := owfH (habs H) ∧ nk_univ (hops H).
Definition nk_valid (H : list (oprec (mop oop))) (K : gset nat) : Prop := ovalid (habs H) K.

Lemma elem_of_hops H o : o ∈ hops H ↔ ∃ i r, H !! i = Some r ∧ op_val r = o.
Proof.
  unfold hops. rewrite elem_of_list_fmap. split.
  - intros (r & -> & [i Hi]%elem_of_list_lookup). by exists i, r.
  - intros (i & r & Hi & <-). exists r. split; [done|]. by eapply elem_of_list_lookup_2.
Qed.
Lemma hops_app H H' : hops (H ++ H') = hops H ++ hops H'.
Proof. unfold hops. by rewrite fmap_app. Qed.

Lemma habs_up_lookup (H : list (oprec (mop oop))) i r d k o : H !! i = Some r → op_val r = MUp d k o →
  habs H !! i = Some (OpRec (op_author r) (OAdd d [k]) (op_deps r)).
Proof. intros Hi Ho. unfold habs. rewrite (hmap_lookup_Some oabs H i r Hi). by rewrite Ho. Qed.

Lemma nk_hops_pos H d k o : owfH (habs H) → MUp d k o ∈ hops H → 0 < dcounter d.
Proof.
  intros HH (i & r & Hi & Ho)%elem_of_hops.
  destruct (owfH_add _ _ _ _ _ HH (habs_up_lookup H i r d k o Hi Ho) eq_refl) as (_ & Hc & _). lia.
Qed.

Lemma nk_map_clock_abs (H : list (oprec (mop oop))) K :
  mspec_clock (known_ops H K) = ospec_clock (known_ops (habs H) K).
Proof. by rewrite known_ops_habs, mspec_clock_abs. Qed.

Lemma nk_seen H K i r d k o : owfH (habs H) → nk_valid H K → H !! i = Some r → op_val r = MUp d k o →
  dcounter d <= vget (mspec_clock (known_ops H K)) (dactor d) → i ∈ K.
Proof.
  intros HH HK Hi Ho Hle. rewrite nk_map_clock_abs in Hle.
  exact (seen (habs H) K i _ d [k] HH HK (habs_up_lookup H i r d k o Hi Ho) eq_refl Hle).
Qed.

Lemma nk_side_known H K : owfH (habs H) → nk_valid H K → nk_side (hops H) (known_ops H K).
Proof.
  intros HH HK. split.
  - intros o (i & r & Hi & _ & Ho)%elem_of_known_ops. apply elem_of_hops. by exists i, r.
  - intros d k o (i & r & Hi & Ho)%elem_of_hops Hle. apply elem_of_known_ops. exists i, r.
    split_and!; [done| |done]. by eapply nk_seen.
Qed.

Lemma nk_valid_empty H : nk_valid H ∅.
Proof. apply ovalid_empty. Qed.
Lemma nk_valid_step H K i : nk_wfH H → nk_valid H K → adm_per_actor H K i → nk_valid H (K ∪ {[i]}).
Proof. intros [HH _] HK Ha. apply ovalid_step; [done..|]. by apply adm_per_actor_hmap. Qed.
Lemma nk_valid_union H K1 K2 : nk_valid H K1 → nk_valid H K2 → nk_valid H (K1 ∪ K2).
Proof. apply ovalid_union. Qed.

Lemma nk_spec_init H : mapor_spec_nk H ∅ = mnew.
Proof. unfold mapor_spec_nk. rewrite known_ops_empty. by vm_compute. Qed.

(** ** L1: applying an op to the specification state *)
Theorem nk_L1 H K i r : nk_wfH H → nk_valid H K → H !! i = Some r →
  mapply vo (mapor_spec_nk H K) (op_val r) = mapor_spec_nk H (K ∪ {[i]}).
Proof.
  intros [HH HU] HK Hi. unfold mapor_spec_nk.
  assert (op_val r ∈ hops H) as Hin by (apply elem_of_hops; by exists i, r).
  pose proof (proj1 HU _ Hin) as Hop.
  destruct (op_val r) as [c ks|d k o] eqn:Ho; [done|].
  destruct (N.le_gt_cases (dcounter d) (vget (mspec_clock (known_ops H K)) (dactor d))) as [Hle|Hgt].
  - assert (i ∈ K) as HiK by (by eapply nk_seen).
    assert (K ∪ {[i]} = K) as -> by set_solver.
    by apply mapply_dedup.
  - rewrite nk_apply_fresh; [|apply nk_ops_app|done].
    + apply nk_spec_ext. intros x. rewrite (known_ops_add_elem H K i r x Hi), Ho.
      by rewrite elem_of_app, elem_of_list_singleton.
    + split; [by apply (nk_side_ops (hops H) HU), nk_side_known|].
      by intros x ->%elem_of_list_singleton.
Qed.

(** ** L2: merging two specification states *)
Theorem nk_L2 H K1 K2 : nk_wfH H → nk_valid H K1 → nk_valid H K2 →
  mmerge vo (mapor_spec_nk H K1) (mapor_spec_nk H K2) = mapor_spec_nk H (K1 ∪ K2).
Proof.
  intros [HH HU] HK1 HK2. unfold mapor_spec_nk.
  rewrite (nk_merge (hops H) HU) by (by apply nk_side_known).
  apply nk_spec_ext. intros o. rewrite elem_of_app. symmetry. apply known_ops_union_elem.
Qed.

(** ** every reachable state is the specification of its knowledge (given [nk_wfH]) *)
Theorem nk_reach_spec H s K : nk_wfH H → moreach_nk H s K → s = mapor_spec_nk H K ∧ nk_valid H K.
Proof.
  intros HH Hr.
  refine (reach_spec eq mnew (mapply vo) (mmerge vo) adm_per_actor True mapor_spec_nk nk_wfH nk_valid
            _ _ _ _ _ _ _ _ H s K HH Hr).
  - by intros ??? ->.
  - by intros ???? -> ->.
  - intros H'. by rewrite nk_spec_init.
  - intros H'. apply nk_valid_empty.
  - intros H' K' i. apply nk_valid_step.
  - intros H' K1 K2. apply nk_valid_union.
  - intros H' K' i o HH' HK' _ Hi. by apply nk_L1.
  - intros H' K1 K2 _. apply nk_L2.
Qed.

(** ** API-generated histories are well-formed *)
Lemma mogen_nk_mgen s a cmd o : mogen_nk s a cmd = Some o → mgen vo s a (mo_cmd cmd) = Some o.
Proof. unfold mogen_nk. by destruct (mo_nokrm cmd). Qed.

Lemma mohist_nk_maphist H : mohist_ok_nk H → maphist_ok vo H.
Proof.
  induction 1 as [|H s K a cmd o Hok IH Hr Hown Hgen]; [constructor|].
  by apply (hist_snoc _ _ _ _ _ _ H s K a (mo_cmd cmd) o); [done|done|done|apply mogen_nk_mgen].
Qed.

Lemma kclk_mono Ua Ua' k c : (∀ o, o ∈ Ua → o ∈ Ua') → kclk Ua k c → kclk Ua' k c.
Proof. intros Hs Hc a Ha. destruct (Hc a Ha) as [o Ho]. exists o. by apply Hs. Qed.

(** the nested value the closure of [Map::update] receives at a specification state *)
Lemma nk_spec_nested os k :
  default (v_default vo) (eval <$> mentries (S os) !! k) = ospec_of (mo_proj os k).
Proof.
  rewrite nk_entries_lookup. destruct (decide _) as [Hin|Hin]; [done|].
  cbn. destruct (nk_absent_nil os k Hin) as [_ ->]. by rewrite ospec_of_nil.
Qed.

Lemma mogen_nk_op H K a cmd o : nk_wfH H → nk_valid H K →
  mogen_nk (mapor_spec_nk H K) a cmd = Some o →
  nk_op o ∧ ∀ d k c ms, o = MUp d k (ORm c ms) → kclk (hops H) k c.
Proof.
  intros [HH HU] HK Hgen. pose proof (nk_side_known H K HH HK) as HS.
  unfold mapor_spec_nk in Hgen. set (os := known_ops H K) in *.
  unfold mogen_nk, mogen in Hgen.
  destruct cmd as [k ms|k ms [m'|]|ks src]; cbn [mo_nokrm mo_cmd mgen] in Hgen; [| | |done]; injection Hgen as <-;
    unfold mupdate, oadd_all, orm_all; cbn beta; rewrite ?nk_spec_nested.
  - split; [reflexivity|]. intros ???? [=].
  - cbn [derive_rm_ctx rm_clock ocontains oentries ospec_of].
    rewrite ospec_entries_default. split; [apply ospec_entry_wf|].
    intros d k' c ms' [= _ <- <- _]. by apply kclk_nested_entry.
  - cbn [derive_rm_ctx rm_clock oread_ctx oclock ospec_of].
    split; [apply ospec_clock_wf|].
    intros d k' c ms' [= _ <- <- _]. by apply kclk_nested_clock.
Qed.

Theorem mohist_nk_wf H : mohist_ok_nk H → nk_wfH H.
Proof.
  intros Hok. split; [by apply (maphist_ok_wf vo), mohist_nk_maphist|].
  pose proof (maphist_ok_wf vo H (mohist_nk_maphist H Hok)) as HHall.
  induction Hok as [|H s K a cmd o Hok IH Hr Hown Hgen].
  { split_and!; [by intros ? ?%elem_of_nil|by intros ??? ?%elem_of_nil|by intros ???? ?%elem_of_nil]. }
  assert (owfH (habs H)) as HH by (by apply (maphist_ok_wf vo), mohist_nk_maphist).
  specialize (IH HH).
  destruct (nk_reach_spec H s K (conj HH IH) Hr) as [-> HK].
  destruct (mogen_nk_op H K a cmd o (conj HH IH) HK Hgen) as [Hop Hctx].
  rewrite hops_app. cbn [hops fmap list_fmap op_val].
  destruct IH as (Hs & Hpos & Hk).
  assert (∀ x, x ∈ hops H → x ∈ hops H ++ [o]) as Hmono by (intros x ?; apply elem_of_app; by left).
  split_and!.
  - apply nk_ops_app. split; [done|]. by intros x ->%elem_of_list_singleton.
  - intros d k o' Hin. apply (nk_hops_pos (H ++ [OpRec a o K]) d k o' HHall).
    by rewrite hops_app.
  - intros d k c ms [Hin|Heq%elem_of_list_singleton]%elem_of_app.
    + eapply kclk_mono; [exact Hmono|]. by eapply Hk.
    + eapply kclk_mono; [exact Hmono|]. by eapply Hctx.
Qed.

(** * The theorem *)
Theorem mapor_refine_nk (H : list (oprec (mop oop))) : mohist_ok_nk H →
  ∀ (s : cmap orswot) (K : gset nat), moreach_nk H s K → s = mapor_spec_nk H K.
Proof. intros Hok s K Hr. by destruct (nk_reach_spec H s K (mohist_nk_wf H Hok) Hr). Qed.

(** the value-level specification of spec/MapOrswotSpec.v ([mo_entries], property C05) is, without
    key removes, the member table of the Orswot specification of the projected ops *)
Lemma nk_mo_entries os k : nk_ops os → mo_entries os k = ospec_entries (mo_proj os k).
Proof.
  intros Hs. apply map_eq. intros m. rewrite mo_entries_lookup, ospec_entries_lookup. cbn zeta.
  assert (mo_entry os k m = ospec_entry (mo_proj os k) m) as ->; [|done].
  apply dots_clock_ext. intros d. rewrite elem_of_mo_live_dots, elem_of_live_dots, mo_covered_false, covered_false.
  split.
  - intros [(d0 & ms & Ho & Hm) Hn]. split.
    + exists ms. split; [|done]. apply elem_of_mo_proj. by exists d0.
    + intros (c & ms' & [d1 Ho']%elem_of_mo_proj & Hm' & Hle). apply Hn. right. by exists d1, c, ms'.
  - intros [(ms & [d0 Ho]%elem_of_mo_proj & Hm) Hn]. split; [by exists d0, ms|].
    intros [(c & ks & Ho' & _)|(d1 & c & ms' & Ho' & Hm' & Hle)]; [by apply Hs in Ho'|].
    apply Hn. exists c, ms'. split_and!; [|done..]. apply elem_of_mo_proj. by exists d1.
Qed.

(** * Part 5: corollaries *)
Section corollaries.
  Context (H : list (oprec (mop oop))) (Hok : mohist_ok_nk H).
  Let HW : nk_wfH H := mohist_nk_wf H Hok.
  Implicit Types (s : cmap orswot) (K : gset nat).

  Lemma nk_reach_valid s K : moreach_nk H s K → nk_valid H K.
  Proof using Hok. intros Hr. by destruct (nk_reach_spec H s K HW Hr). Qed.

  (** the monitor's decider *)
  Theorem mapor_nk_ok_reach s K : moreach_nk H s K → mapor_nk_ok H K s = true.
  Proof using Hok. intros Hr. apply bool_decide_eq_true. by apply mapor_refine_nk. Qed.

  (** C01 / C20: equal knowledge, equal (complete) state *)
  Theorem mapor_converge_nk s1 s2 K : moreach_nk H s1 K → moreach_nk H s2 K → s1 = s2.
  Proof using Hok. intros H1 H2. by rewrite (mapor_refine_nk H Hok s1 K H1), (mapor_refine_nk H Hok s2 K H2). Qed.

  Lemma mmerge_reach_nk s1 K1 s2 K2 : moreach_nk H s1 K1 → moreach_nk H s2 K2 →
    moreach_nk H (mmerge vo s1 s2) (K1 ∪ K2).
  Proof. intros. by apply reach_merge. Qed.

  (** C03: merging two replicas = having learned the union of their ops (hybrid replication) *)
  Theorem mapor_merge_spec_nk s1 K1 s2 K2 : moreach_nk H s1 K1 → moreach_nk H s2 K2 →
    mmerge vo s1 s2 = mapor_spec_nk H (K1 ∪ K2).
  Proof using Hok. intros H1 H2. apply (mapor_refine_nk H Hok). by apply mmerge_reach_nk. Qed.
  Theorem mapor_merge_is_union_nk s1 K1 s2 K2 s K :
    moreach_nk H s1 K1 → moreach_nk H s2 K2 → moreach_nk H s K → K = K1 ∪ K2 → mmerge vo s1 s2 = s.
  Proof using Hok. intros H1 H2 H3 ->. eapply mapor_converge_nk; [by apply mmerge_reach_nk|done]. Qed.

  (** C02: [mmerge] is commutative, associative and idempotent on reachable states *)
  Theorem mapor_merge_comm_nk s1 K1 s2 K2 : moreach_nk H s1 K1 → moreach_nk H s2 K2 →
    mmerge vo s1 s2 = mmerge vo s2 s1.
  Proof using Hok.
    intros H1 H2. rewrite (mapor_merge_spec_nk s1 K1 s2 K2), (mapor_merge_spec_nk s2 K2 s1 K1) by done.
    by rewrite (comm_L (∪) K1 K2).
  Qed.
  Theorem mapor_merge_assoc_nk s1 K1 s2 K2 s3 K3 :
    moreach_nk H s1 K1 → moreach_nk H s2 K2 → moreach_nk H s3 K3 →
    mmerge vo (mmerge vo s1 s2) s3 = mmerge vo s1 (mmerge vo s2 s3).
  Proof using Hok.
    intros H1 H2 H3.
    rewrite (mapor_merge_spec_nk (mmerge vo s1 s2) (K1 ∪ K2) s3 K3) by (try apply mmerge_reach_nk; done).
    rewrite (mapor_merge_spec_nk s1 K1 (mmerge vo s2 s3) (K2 ∪ K3)) by (try apply mmerge_reach_nk; done).
    by rewrite (assoc_L (∪) K1 K2 K3).
  Qed.
  Theorem mapor_merge_idem_nk s K : moreach_nk H s K → mmerge vo s s = s.
  Proof using Hok.
    intros H1. rewrite (mapor_merge_spec_nk s K s K) by done. rewrite (idemp_L (∪) K).
    symmetry. by apply mapor_refine_nk.
  Qed.

  (** C09: a duplicate op and a stale state are absorbed (no admissibility needed for the duplicate) *)
  Theorem mapor_dup_apply_nk s K i r : moreach_nk H s K → H !! i = Some r → i ∈ K →
    mapply vo s (op_val r) = s.
  Proof using Hok.
    intros Hr Hi HiK. rewrite (mapor_refine_nk H Hok s K Hr) at 1.
    rewrite (nk_L1 H K i r HW (nk_reach_valid s K Hr) Hi).
    assert (K ∪ {[i]} = K) as -> by set_solver. symmetry. by apply mapor_refine_nk.
  Qed.
  Theorem mapor_stale_merge_nk s1 K1 s2 K2 : moreach_nk H s1 K1 → moreach_nk H s2 K2 → K2 ⊆ K1 →
    mmerge vo s1 s2 = s1 ∧ mmerge vo s2 s1 = s1.
  Proof using Hok.
    intros H1 H2 Hsub.
    rewrite (mapor_merge_spec_nk s1 K1 s2 K2), (mapor_merge_spec_nk s2 K2 s1 K1) by done.
    assert (K1 ∪ K2 = K1) as -> by set_solver. assert (K2 ∪ K1 = K1) as -> by set_solver.
    split; symmetry; by apply mapor_refine_nk.
  Qed.

  (** the components of a reachable state *)
  Theorem mapor_components_nk s K k : moreach_nk H s K →
    let os := known_ops H K in
    mclock s = mspec_clock os ∧ mdeferred s = ∅ ∧
    (k ∈ dom (mentries s) ↔ ∃ d o, MUp d k o ∈ os) ∧
    (∀ e, mentries s !! k = Some e →
          eclock e = dots_clock (kdots os k) ∧ eval e = ospec_of (mo_proj os k)) ∧
    mo_state_entries s k = ospec_entries (mo_proj os k).
  Proof using Hok.
    intros Hr os. rewrite (mapor_refine_nk H Hok s K Hr). unfold mapor_spec_nk. fold os.
    assert (nk_ops os) as Hs.
    { apply (nk_side_ops (hops H) (proj2 HW)), nk_side_known; [apply HW|by eapply nk_reach_valid]. }
    split_and!; [done|done| | |].
    - rewrite elem_of_dom, nk_entries_lookup, <- elem_of_mkeys_mentioned.
      destruct (decide _) as [Hin|Hin].
      + split; [done|by eexists].
      + split; [by intros [? ?]|done].
    - intros e. rewrite nk_entries_lookup. destruct (decide _); [|done]. intros [= <-].
      cbn [nk_ent eclock eval]. by rewrite nk_entry_clock.
    - unfold mo_state_entries. rewrite nk_entries_lookup. destruct (decide _) as [Hin|Hin]; [done|].
      destruct (nk_absent_nil os k Hin) as [_ ->]. by vm_compute.
  Qed.

  (** the member sentence (C04/C05 for the nested set): [m] is in the set under [k] iff some
      known add of [m] under [k] is covered by no known nested remove under [k] naming [m] *)
  Theorem mapor_member_iff_nk s K k m : moreach_nk H s K →
    m ∈ dom (mo_state_entries s k) ↔
    ∃ d ms, MUp d k (OAdd d ms) ∈ known_ops H K ∧ m ∈ ms ∧
            ¬ ∃ d' c ms', MUp d' k (ORm c ms') ∈ known_ops H K ∧ m ∈ ms' ∧ dcounter d <= vget c (dactor d).
  Proof using Hok.
    intros Hr. destruct (mapor_components_nk s K k Hr) as (_ & _ & _ & _ & ->).
    set (os := known_ops H K).
    assert (nk_side (hops H) os) as HS by (apply nk_side_known; [apply HW|by eapply nk_reach_valid]).
    pose proof (nk_side_ops (hops H) (proj2 HW) os HS) as Hs.
    set (p := mo_proj os k).
    assert (∀ d ms, OAdd d ms ∈ p → dcounter d ≠ 0) as Hpos.
    { intros d ms [d0 Ho]%elem_of_mo_proj. pose proof (Hs _ Ho) as Hop. cbn in Hop. subst d0.
      destruct HW as [_ (_ & Hp & _)]. assert (0 < dcounter d); [|lia]. eapply Hp. by apply HS. }
    assert (ospec_entry p m ≠ ∅ ↔ ∃ d, d ∈ live_dots p m) as Hlive.
    { rewrite ospec_entry_empty_iff by done.
      destruct (live_dots p m) as [|x l]; split; try done.
      - by intros [? ?%elem_of_nil].
      - intros _. exists x. by left. }
    rewrite elem_of_dom, ospec_entries_lookup. cbn zeta.
    transitivity (∃ d, d ∈ live_dots p m).
    - rewrite <- Hlive, <- vis_empty_false. destruct (vis_empty (ospec_entry p m)); split; try done.
      by intros [? ?].
    - setoid_rewrite elem_of_live_dots. setoid_rewrite covered_false. split.
      + intros (d & (ms & Hin & Hm) & Hn). apply elem_of_mo_proj in Hin as [d0 Ho].
        pose proof (Hs _ Ho) as Hop. cbn in Hop. subst d0. exists d, ms. split_and!; [done..|].
        intros (d' & c & ms' & Ho' & Hm' & Hle). apply Hn. exists c, ms'. split_and!; [|done..].
        apply elem_of_mo_proj. by exists d'.
      + intros (d & ms & Ho & Hm & Hn). exists d. split.
        * exists ms. split; [|done]. apply elem_of_mo_proj. by exists d.
        * intros (c & ms' & [d' Ho']%elem_of_mo_proj & Hm' & Hle). apply Hn. by exists d', c, ms'.
  Qed.

  (** the earlier value-level specification (C05) and both monitor deciders hold as well *)
  Theorem mapor_values_refine_nk s K k : moreach_nk H s K →
    mo_state_entries s k = mo_entries (known_ops H K) k.
  Proof using Hok.
    intros Hr. destruct (mapor_components_nk s K k Hr) as (_ & _ & _ & _ & ->).
    rewrite nk_mo_entries; [done|].
    apply (nk_side_ops (hops H) (proj2 HW)), nk_side_known; [apply HW|by eapply nk_reach_valid].
  Qed.
  Theorem mapor_valspec_ok_nk s K : moreach_nk H s K → movalspec_ok H K s = true.
  Proof using Hok.
    intros Hr. unfold movalspec_ok. apply andb_true_intro. split.
    - apply forallb_forall. intros k _. apply bool_decide_eq_true. by apply mapor_values_refine_nk.
    - apply bool_decide_eq_true. intros k Hk. rewrite elem_of_list_to_set, elem_of_mkeys_mentioned.
      by apply (mapor_components_nk s K k Hr).
  Qed.
  Theorem mapor_keyspec_ok_nk s K : moreach_nk H s K → mkeyspec_ok H K s = true.
  Proof using Hok. apply (map_keyspec_ok vo H (proj1 HW)). Qed.
End corollaries.

(** instance of the framework corollaries, for reference: the section [system] of
    spec/System.v applies with [eqv := eq], [spec := mapor_spec_nk], [wfH := nk_wfH],
    [valid := nk_valid], [L1 := nk_L1], [L2 := nk_L2] (see [nk_reach_spec]). *)

(** every delivery discipline at least as strong as per-actor delivery (causal delivery in
    particular), with or without state merges, reaches only states of [moreach_nk] *)
Theorem mapor_refine_nk_any (adm : adm_t (mop oop)) (mg : Prop) H s K : mohist_ok_nk H →
  (∀ K i, adm H K i → adm_per_actor H K i) →
  reach mnew (mapply vo) (mmerge vo) adm mg H s K → s = mapor_spec_nk H K.
Proof.
  intros Hok Hadm Hr. apply (mapor_refine_nk H Hok).
  induction Hr as [|s K i o Hr IH Ho Ha|s1 K1 s2 K2 Hm Hr1 IH1 Hr2 IH2].
  - constructor.
  - eapply reach_apply; [done..|by apply Hadm].
  - by apply reach_merge.
Qed.

(** causal delivery: an op's dependency set contains its author's earlier ops *)
Lemma nk_hist_deps_own H : mohist_ok_nk H →
  ∀ i r j r', H !! i = Some r → (j < i)%nat → H !! j = Some r' → op_author r' = op_author r → j ∈ op_deps r.
Proof.
  induction 1 as [|H s K a cmd o Hok IH Hr Hown Hgen]; [intros i r j r' Hi; by rewrite lookup_nil in Hi|].
  intros i r j r' Hi Hlt Hj Ha.
  destruct (decide (i < length H)%nat) as [Hl|Hge].
  - rewrite lookup_app_l in Hi by done. rewrite lookup_app_l in Hj by lia. by eapply IH.
  - assert (i = length H) as ->.
    { apply lookup_lt_Some in Hi. rewrite app_length in Hi. cbn in Hi. lia. }
    rewrite lookup_app_r, Nat.sub_diag in Hi by lia. cbn in Hi. injection Hi as <-. cbn in *.
    rewrite lookup_app_l in Hj by lia. by apply (Hown j r').
Qed.
Corollary mapor_refine_nk_causal (mg : Prop) H s K : mohist_ok_nk H →
  reach mnew (mapply vo) (mmerge vo) adm_causal mg H s K → s = mapor_spec_nk H K.
Proof.
  intros Hok. apply mapor_refine_nk_any; [done|].
  intros K' i (r & Hi & Hd). exists r. split; [done|]. intros j r' Hlt Hj Ha.
  apply Hd. by eapply (nk_hist_deps_own H Hok).
Qed.

(** * Non-vacuity: two actors, two keys.  Actor 1 adds member 10 under key 7 (op 0); actor 2
    sees it, removes 10 under key 7 (op 1, nested context {1:1}) and adds 20 under key 8
    (op 2); actor 1 adds 21 under key 8 (op 3).  Replica A receives op 1 BEFORE op 0 (the
    nested remove overtakes the add it observed: it is parked inside the nested set under key
    7), then op 2.  Replica B receives ops 0 and 3.  Their merge equals the specification of
    all four ops and the state of replica C that received the ops in order: 10 is gone. *)
Local Ltac nk_adm :=
  eexists; split; [done|]; intros [|[|[|[|j]]]] r' Hlt Hj Ha; cbn in Hj, Ha; simplify_eq; try lia; set_solver.
Local Ltac nk_own :=
  intros [|[|[|[|j]]]] r Hj Ha; cbn in Hj, Ha; simplify_eq; set_solver.

Section example.
  Let o0 : mop oop := MUp (Dot 1 1) 7 (OAdd (Dot 1 1) [10]).
  Let o1 : mop oop := MUp (Dot 2 1) 7 (ORm {[1 := 1]} [10]).
  Let o2 : mop oop := MUp (Dot 2 2) 8 (OAdd (Dot 2 2) [20]).
  Let o3 : mop oop := MUp (Dot 1 2) 8 (OAdd (Dot 1 2) [21]).
  Let r0 := OpRec 1 o0 ∅.
  Let r1 := OpRec 2 o1 (∅ ∪ {[0%nat]}).
  Let r2 := OpRec 2 o2 (∅ ∪ {[0%nat]} ∪ {[1%nat]}).
  Let r3 := OpRec 1 o3 (∅ ∪ {[0%nat]}).
  Let H : list (oprec (mop oop)) := [r0; r1; r2; r3].
  Let KA : gset nat := ∅ ∪ {[1%nat]} ∪ {[2%nat]}.
  Let KB : gset nat := ∅ ∪ {[0%nat]} ∪ {[3%nat]}.
  Let KC : gset nat := ∅ ∪ {[0%nat]} ∪ {[1%nat]} ∪ {[2%nat]} ∪ {[3%nat]}.
  Let sA1 := mapply vo mnew o1.
  Let sA := mapply vo sA1 o2.
  Let sB := mapply vo (mapply vo mnew o0) o3.
  Let sC := mapply vo (mapply vo (mapply vo (mapply vo mnew o0) o1) o2) o3.

  Example mapor_nk_example :
    mohist_ok_nk H ∧
    ¬ adm_causal H ∅ 1%nat ∧
    moreach_nk H sA KA ∧
    odeferred <$> (eval <$> mentries sA1 !! 7) = Some {[ ({[1 := 1]} : gmap N N) := ({[10]} : gset N) ]} ∧
    odeferred <$> (eval <$> mentries sA !! 7) = Some {[ ({[1 := 1]} : gmap N N) := ({[10]} : gset N) ]} ∧
    moreach_nk H sB KB ∧
    mo_state_entries sB 7 = {[10 := {[1 := 1]}]} ∧
    moreach_nk H (mmerge vo sA sB) (KA ∪ KB) ∧
    moreach_nk H sC KC ∧ KC = KA ∪ KB ∧
    mmerge vo sA sB = sC ∧ mmerge vo sB sA = sC ∧
    mmerge vo sA sB = mapor_spec_nk H (KA ∪ KB) ∧
    mapor_nk_ok H (KA ∪ KB) (mmerge vo sA sB) = true ∧
    mapor_nk_ok H KA sA = true ∧
    mo_state_entries sC 7 = ∅ ∧
    odeferred <$> (eval <$> mentries sC !! 7) = Some ∅ ∧
    mo_state_entries sC 8 = {[20 := {[2 := 2]}; 21 := {[1 := 2]}]}.
  Proof.
    assert (mohist_ok_nk H) as Hok.
    { change H with (((([] ++ [r0]) ++ [r1]) ++ [r2]) ++ [r3]).
      apply (hist_snoc _ _ _ _ _ _ _ (mapply vo mnew o0) _ 1 (MOAdd 8 [21])).
      - apply (hist_snoc _ _ _ _ _ _ _ (mapply vo (mapply vo mnew o0) o1) _ 2 (MOAdd 8 [20])).
        + apply (hist_snoc _ _ _ _ _ _ _ (mapply vo mnew o0) _ 2 (MORm 7 [10] None)).
          * apply (hist_snoc _ _ _ _ _ _ _ mnew _ 1 (MOAdd 7 [10])); [constructor|constructor|nk_own|by vm_compute].
          * apply (reach_apply _ _ _ _ _ _ mnew ∅ 0%nat r0); [constructor|done|nk_adm].
          * nk_own.
          * by vm_compute.
        + apply (reach_apply _ _ _ _ _ _ _ _ 1%nat r1); [|done|nk_adm].
          apply (reach_apply _ _ _ _ _ _ mnew ∅ 0%nat r0); [constructor|done|nk_adm].
        + nk_own.
        + by vm_compute.
      - apply (reach_apply _ _ _ _ _ _ mnew ∅ 0%nat r0); [constructor|done|nk_adm].
      - nk_own.
      - by vm_compute. }
    assert (moreach_nk H sA KA) as HA.
    { apply (reach_apply _ _ _ _ _ _ _ _ 2%nat r2); [|done|nk_adm].
      apply (reach_apply _ _ _ _ _ _ mnew ∅ 1%nat r1); [constructor|done|nk_adm]. }
    assert (moreach_nk H sB KB) as HB.
    { apply (reach_apply _ _ _ _ _ _ _ _ 3%nat r3); [|done|nk_adm].
      apply (reach_apply _ _ _ _ _ _ mnew ∅ 0%nat r0); [constructor|done|nk_adm]. }
    assert (moreach_nk H sC KC) as HC.
    { apply (reach_apply _ _ _ _ _ _ _ _ 3%nat r3); [|done|nk_adm].
      apply (reach_apply _ _ _ _ _ _ _ _ 2%nat r2); [|done|nk_adm].
      apply (reach_apply _ _ _ _ _ _ _ _ 1%nat r1); [|done|nk_adm].
      apply (reach_apply _ _ _ _ _ _ mnew ∅ 0%nat r0); [constructor|done|nk_adm]. }
    assert (KC = KA ∪ KB) as HK by (apply (bool_decide_unpack _); by vm_compute).
    assert (moreach_nk H (mmerge vo sA sB) (KA ∪ KB)) as HM by (by apply reach_merge).
    split_and!.
    - exact Hok.
    - intros (r & Hr & Hd). cbn in Hr. injection Hr as <-. cbn in Hd.
      revert Hd. apply (bool_decide_unpack _). by vm_compute.
    - exact HA.
    - apply (bool_decide_unpack _). by vm_compute.
    - apply (bool_decide_unpack _). by vm_compute.
    - exact HB.
    - apply (bool_decide_unpack _). by vm_compute.
    - exact HM.
    - exact HC.
    - exact HK.
    - exact (mapor_merge_is_union_nk H Hok sA KA sB KB sC KC HA HB HC HK).
    - apply (mapor_merge_is_union_nk H Hok sB KB sA KA sC KC HB HA HC).
      apply (bool_decide_unpack _). by vm_compute.
    - by apply (mapor_refine_nk H Hok).
    - by apply (mapor_nk_ok_reach H Hok).
    - by apply (mapor_nk_ok_reach H Hok).
    - apply (bool_decide_unpack _). by vm_compute.
    - apply (bool_decide_unpack _). by vm_compute.
    - apply (bool_decide_unpack _). by vm_compute.
  Qed.
End example.

Print Assumptions nk_apply_fresh.
Print Assumptions nk_merge.
Print Assumptions nk_L1.
Print Assumptions nk_L2.
Print Assumptions nk_reach_spec.
Print Assumptions mohist_nk_wf.
Print Assumptions mapor_refine_nk.
Print Assumptions mapor_nk_ok_reach.
Print Assumptions mapor_converge_nk.
Print Assumptions mapor_merge_spec_nk.
Print Assumptions mapor_merge_is_union_nk.
Print Assumptions mapor_merge_comm_nk.
Print Assumptions mapor_merge_assoc_nk.
Print Assumptions mapor_merge_idem_nk.
Print Assumptions mapor_dup_apply_nk.
Print Assumptions mapor_stale_merge_nk.
Print Assumptions mapor_components_nk.
Print Assumptions mapor_member_iff_nk.
Print Assumptions mapor_values_refine_nk.
Print Assumptions mapor_valspec_ok_nk.
Print Assumptions mapor_keyspec_ok_nk.
Print Assumptions mapor_refine_nk_any.
Print Assumptions mapor_refine_nk_causal.
Print Assumptions mapor_nk_example.
