(** [Map<K, Orswot<M>>] whose keys are never removed (commands [MOAdd], [MORm] only):
    the COMPLETE state of every reachable replica - map clock, key set, entry clocks and under
    every key the complete nested Orswot (clock, members with witness clocks, pending nested
    removes), [mdeferred = ∅] - is the specification [mapor_spec_nk] of its knowledge, under
    per-actor (overtaking) delivery, duplicates AND state merges ([mapor_refine_nk]).

    Route: the Orswot refinement lemmas are used on op LISTS.  The apply lemmas of
    proofs/OrswotL1.v ([oapply_spec_add], [oapply_spec_rm]) are already stated for op lists
    and need no contiguity of dots; the merge lemma is re-proved for sparse dots in
    proofs/OrswotSparseL2.v ([sparse_L2]).  This file proves the two local refinement lemmas
    of the replicated-system framework (spec/System.v) for the map:
      - Part 1: the specification [mapor_spec_nk_of] through lookup lemmas;
      - Part 2: L1 on op lists ([nk_apply_fresh]);
      - Part 3: L2 on op lists ([nk_merge]): without key removes [mmerge_entry] deletes
        nothing, the nested [reset_remove] is the identity;
      - Part 4: histories: well-formedness [nk_wfH] (established for API-generated histories
        together with the theorem, [mohist_nk_wf]), the instance of the framework, the theorem;
      - Part 5: corollaries (C01 C02 C03 C08 C09 C20) and a closed non-vacuity example. *)
From stdpp Require Import gmap.
From Crdt Require Import model.Orswot model.Map spec.System spec.OrswotSpec spec.OrswotSystem
  spec.MapSpec spec.MapSystem spec.MapOrswotSpec proofs.VClock proofs.Reset proofs.OrswotLayer
  proofs.OrswotL1 proofs.OrswotL2a proofs.OrswotL2 proofs.OrswotSystem proofs.MapFacts proofs.MapKeys
  proofs.MapOrswot proofs.OrswotSparseL2.
From Coq Require Import ZifyBool ZifyN ZifyNat.
Local Open Scope N_scope.

Local Notation vo := orswot_valops.
Local Notation S := mapor_spec_nk_of.

(** * Part 1: the specification, through lookups *)

(** what the commands [MOAdd], [MORm] generate: an update whose nested add carries the dot
    of the update, or whose nested remove has a context without stored zero *)
Definition nk_op (o : mop oop) : Prop :=
  match o with
  | MUp d _ (OAdd d' _) => d' = d
  | MUp _ _ (ORm c _) => vwf c
  | MRm _ _ => False
  end.
Definition nk_ops (os : list (mop oop)) : Prop := ∀ o, o ∈ os → nk_op o.

(** the dots of the updates of key [k] *)
Definition kdots (os : list (mop oop)) (k : N) : list dot :=
  omap (λ o, match o with MUp d k' _ => if bool_decide (k' = k) then Some d else None | MRm _ _ => None end) os.

Definition nk_ent (os : list (mop oop)) (k : N) : mentry orswot :=
  MEntry (mspec_entry_clock os k) (ospec_of (mo_proj os k)).

Lemma nk_ops_app os1 os2 : nk_ops (os1 ++ os2) ↔ nk_ops os1 ∧ nk_ops os2.
Proof.
  unfold nk_ops. setoid_rewrite elem_of_app. split.
  - intros H. split; intros o Ho; apply H; tauto.
  - intros [H1 H2] o [?|?]; [by apply H1|by apply H2].
Qed.

Lemma elem_of_mkeys_mentioned (os : list (mop oop)) k : k ∈ mkeys_mentioned os ↔ ∃ d o, MUp d k o ∈ os.
Proof.
  unfold mkeys_mentioned. rewrite elem_of_list_omap. split.
  - intros ([c ks|d k' o] & Hin & Hb); [done|]. injection Hb as ->. by exists d, o.
  - intros (d & o & Hin). by exists (MUp d k o).
Qed.
Lemma elem_of_mo_proj os k o : o ∈ mo_proj os k ↔ ∃ d, MUp d k o ∈ os.
Proof.
  unfold mo_proj. rewrite elem_of_list_omap. split.
  - intros ([c ks|d k' o'] & Hin & Hb); [done|]. case_bool_decide; [|done]. simplify_eq. by exists d.
  - intros (d & Hin). exists (MUp d k o). split; [done|]. by rewrite bool_decide_eq_true_2.
Qed.
Lemma elem_of_kdots os k d : d ∈ kdots os k ↔ ∃ o, MUp d k o ∈ os.
Proof.
  unfold kdots. rewrite elem_of_list_omap. split.
  - intros ([c ks|d' k' o'] & Hin & Hb); [done|]. case_bool_decide; [|done]. simplify_eq. by exists o'.
  - intros (o & Hin). exists (MUp d k o). split; [done|]. by rewrite bool_decide_eq_true_2.
Qed.

Lemma mo_proj_app os1 os2 k : mo_proj (os1 ++ os2) k = mo_proj os1 k ++ mo_proj os2 k.
Proof. unfold mo_proj. by rewrite omap_app. Qed.
Lemma kdots_app os1 os2 k : kdots (os1 ++ os2) k = kdots os1 k ++ kdots os2 k.
Proof. unfold kdots. by rewrite omap_app. Qed.
Lemma mall_dots_app (os1 os2 : list (mop oop)) : mall_dots (os1 ++ os2) = mall_dots os1 ++ mall_dots os2.
Proof. unfold mall_dots. by rewrite omap_app. Qed.
Lemma mkeys_mentioned_app (os1 os2 : list (mop oop)) :
  mkeys_mentioned (os1 ++ os2) = mkeys_mentioned os1 ++ mkeys_mentioned os2.
Proof. unfold mkeys_mentioned. by rewrite omap_app. Qed.

Lemma dots_clock_app ds1 ds2 : dots_clock (ds1 ++ ds2) = vmerge (dots_clock ds1) (dots_clock ds2).
Proof.
  apply vwf_ext; [apply dots_clock_wf|apply vmerge_wf; apply dots_clock_wf|]. intros a.
  by rewrite vmerge_get, !dots_clock_get, max_ctr_app.
Qed.

(** without key removes every update dot of a key survives *)
Lemma nk_live os k d : nk_ops os → d ∈ mlive_dots os k ↔ d ∈ kdots os k.
Proof.
  intros Hs. rewrite elem_of_mlive_dots, elem_of_kdots. split; [by intros [? _]|].
  intros Hex. split; [done|]. intros (c & ks & Hin & _). by apply Hs in Hin.
Qed.
Lemma nk_entry_clock os k : nk_ops os → mspec_entry_clock os k = dots_clock (kdots os k).
Proof. intros Hs. apply dots_clock_ext. intros d. by apply nk_live. Qed.

Lemma nk_clock_get (os : list (mop oop)) a : vget (mspec_clock os) a = max_ctr (mall_dots os) a.
Proof. apply dots_clock_get. Qed.

Lemma nk_entries_lookup os k :
  mentries (S os) !! k = if decide (k ∈ mkeys_mentioned os) then Some (nk_ent os k) else None.
Proof.
  cbn [mentries mapor_spec_nk_of]. rewrite fn_map_lookup.
  destruct (decide (k ∈ list_to_set _)) as [Hin|Hin]; rewrite elem_of_list_to_set in Hin.
  - by rewrite decide_True.
  - by rewrite decide_False.
Qed.

Lemma ospec_of_nil : ospec_of [] = onew.
Proof. by vm_compute. Qed.

Lemma nk_ent_absent os k : k ∉ mkeys_mentioned os → nk_ent os k = MEntry ∅ onew.
Proof.
  intros Hn. unfold nk_ent.
  assert (mlive_dots os k = []) as Hl.
  { apply list_no_elem_nil. intros d [[o Ho] _]%elem_of_mlive_dots. apply Hn, elem_of_mkeys_mentioned. by exists d, o. }
  assert (mo_proj os k = []) as Hp.
  { apply list_no_elem_nil. intros o [d Ho]%elem_of_mo_proj. apply Hn, elem_of_mkeys_mentioned. by exists d, o. }
  unfold mspec_entry_clock. by rewrite Hl, Hp, dots_clock_nil, ospec_of_nil.
Qed.

Lemma nk_entries_default os k :
  default (MEntry ∅ (v_default vo)) (mentries (S os) !! k) = nk_ent os k.
Proof.
  rewrite nk_entries_lookup. destruct (decide _) as [Hin|Hin]; [done|].
  cbn [default v_default]. by rewrite nk_ent_absent.
Qed.

(** the specification depends only on the SET of known ops *)
Lemma nk_spec_ext os os' : (∀ o, o ∈ os ↔ o ∈ os') → S os = S os'.
Proof.
  intros H.
  assert (mspec_clock os = mspec_clock os') as Hc.
  { apply dots_clock_ext. intros d. rewrite !elem_of_mall_dots. by setoid_rewrite H. }
  assert (∀ k, nk_ent os k = nk_ent os' k) as He.
  { intros k. unfold nk_ent. f_equal.
    - apply dots_clock_ext. intros d. rewrite !elem_of_mlive_dots. by setoid_rewrite H.
    - apply ospec_of_ext. intros o. rewrite !elem_of_mo_proj. by setoid_rewrite H. }
  apply cmap_eq3; [done| |done].
  apply map_eq. intros k. rewrite !nk_entries_lookup, He.
  destruct (decide (k ∈ mkeys_mentioned os)) as [Hin|Hin], (decide (k ∈ mkeys_mentioned os')) as [Hin'|Hin']; try done.
  - destruct Hin'. apply elem_of_mkeys_mentioned in Hin as (d & o & Ho). apply elem_of_mkeys_mentioned. exists d, o. by apply H.
  - destruct Hin. apply elem_of_mkeys_mentioned in Hin' as (d & o & Ho). apply elem_of_mkeys_mentioned. exists d, o. by apply H.
Qed.

(** the nested clock is below the entry clock, which is below the map clock *)
Lemma nk_nested_clock_le os k a : nk_ops os →
  vget (ospec_clock (mo_proj os k)) a <= vget (mspec_entry_clock os k) a.
Proof.
  intros Hs. rewrite ospec_clock_get, nk_entry_clock, dots_clock_get by done.
  apply max_ctr_le_iff. intros d Hd Ha. apply max_ctr_ge; [|done].
  apply elem_of_add_dots in Hd as [ms Hd]. apply elem_of_mo_proj in Hd as [d0 Hd].
  pose proof (Hs _ Hd) as Ho. cbn in Ho. subst d0. apply elem_of_kdots. by eexists.
Qed.
Lemma nk_entry_clock_le (os : list (mop oop)) k a : vget (mspec_entry_clock os k) a <= vget (mspec_clock os) a.
Proof. apply mspec_entry_le_clock. Qed.

(** * Part 2: L1 on op lists *)
Lemma nk_apply_fresh os d k o :
  nk_ops (os ++ [MUp d k o]) → vget (mspec_clock os) (dactor d) < dcounter d →
  mapply vo (S os) (MUp d k o) = S (os ++ [MUp d k o]).
Proof.
  intros Hs' Hfresh. pose proof Hs' as [Hs Hnew]%nk_ops_app.
  assert (nk_op (MUp d k o)) as Hop by (apply Hnew; by left).
  rewrite mapply_up_fresh by done. rewrite mapply_deferred_empty by done.
  rewrite nk_entries_default. cbn [eclock eval nk_ent v_apply].
  apply cmap_eq3; cbn [mclock mentries mdeferred]; [| |done].
  - unfold mapor_spec_nk_of. cbn [mclock]. unfold mspec_clock. rewrite mall_dots_app. cbn. rewrite dots_clock_snoc; [done|lia].
  - apply map_eq. intros k'.
    rewrite (nk_entries_lookup (os ++ _)), mkeys_mentioned_app. cbn [mkeys_mentioned omap list_omap].
    destruct (decide (k' = k)) as [->|Hne].
    + rewrite lookup_insert, decide_True by (rewrite elem_of_app, elem_of_list_singleton; by right).
      f_equal. unfold nk_ent. f_equal.
      * rewrite !nk_entry_clock, kdots_app by done. cbn. rewrite bool_decide_eq_true_2 by done.
        cbn. rewrite dots_clock_snoc; [done|lia].
      * rewrite mo_proj_app. cbn. rewrite bool_decide_eq_true_2 by done. cbn.
        set (p := mo_proj os k).
        assert (∀ x, x ∈ p ++ [o] ↔ x ∈ p ∨ x = o) as Hos'.
        { intros x. by rewrite elem_of_app, elem_of_list_singleton. }
        destruct o as [d' ms|c ms].
        -- cbn in Hop. subst d'. apply (oapply_spec_add p (p ++ [OAdd d ms]) d ms Hos').
           ++ pose proof (nk_nested_clock_le os k (dactor d) Hs). pose proof (nk_entry_clock_le os k (dactor d)).
              fold p in H. lia.
           ++ intros c ms' [d0 Hin]%elem_of_mo_proj. by apply Hs in Hin.
        -- by apply (oapply_spec_rm p (p ++ [ORm c ms]) c ms Hos').
    + rewrite lookup_insert_ne by done. rewrite nk_entries_lookup.
      assert (nk_ent (os ++ [MUp d k o]) k' = nk_ent os k') as ->.
      { unfold nk_ent. f_equal.
        - rewrite !nk_entry_clock, kdots_app by done. cbn. rewrite bool_decide_eq_false_2 by done.
          cbn. by rewrite app_nil_r.
        - rewrite mo_proj_app. cbn. rewrite bool_decide_eq_false_2 by done. cbn. by rewrite app_nil_r. }
      destruct (decide (k' ∈ mkeys_mentioned os)) as [Hin|Hin].
      * rewrite decide_True; [done|]. rewrite elem_of_app. by left.
      * rewrite decide_False; [done|]. rewrite elem_of_app, elem_of_list_singleton. intros [?|?]; congruence.
Qed.

(** * Part 3: L2 on op lists *)

(** every positive component of [c] is the dot of an update of key [k] in the universe *)
Definition kclk (Ua : list (mop oop)) (k : N) (c : gmap N N) : Prop :=
  ∀ a, 0 < vget c a → ∃ o, MUp (Dot a (vget c a)) k o ∈ Ua.

(** the universe of all ops ever generated *)
Definition nk_univ (Ua : list (mop oop)) : Prop :=
  nk_ops Ua ∧ (∀ d k o, MUp d k o ∈ Ua → 0 < dcounter d) ∧
  (∀ d k c ms, MUp d k (ORm c ms) ∈ Ua → kclk Ua k c).

(** the ops a replica knows: ops of the universe; an update of the universe whose dot the
    replica's clock covers is known *)
Definition nk_side (Ua os : list (mop oop)) : Prop :=
  (∀ o, o ∈ os → o ∈ Ua) ∧
  (∀ d k o, MUp d k o ∈ Ua → dcounter d <= vget (mspec_clock os) (dactor d) → MUp d k o ∈ os).

Lemma inert_le x c c' : inert x c → vleq c' c → inert x c'.
Proof. intros Hi Hle a. specialize (Hle a). destruct (Hi a); [by left|right; lia]. Qed.
Lemma inert_empty_r x : inert x ∅.
Proof. intros a. rewrite vget_empty. lia. Qed.

Lemma oreset_inert v r :
  vwf (oclock v) → inert (oclock v) r →
  (∀ m e, oentries v !! m = Some e → vwf e ∧ e ≠ ∅ ∧ inert e r) →
  (∀ c ms, odeferred v !! c = Some ms → vwf c ∧ c ≠ ∅ ∧ inert c r) →
  oreset v r = v.
Proof.
  intros Hc Hci He Hd. rewrite oreset_unfold. destruct v as [cl es df]. cbn [oclock oentries odeferred] in *.
  f_equal.
  - by apply inert_vreset_id.
  - apply map_eq. intros m. rewrite ereset_lookup. destruct (es !! m) as [e|] eqn:E; [|done]. cbn.
    destruct (He m e E) as (Hw & Hne & Hi). apply wreset_Some. by rewrite inert_vreset_id.
  - assert (∀ k ms, df !! k = Some ms → vreset k r = k) as Hid.
    { intros k ms Hk. destruct (Hd k ms Hk) as (Hw & _ & Hi). by apply inert_vreset_id. }
    apply dtbl_ext.
    + intros k. rewrite oreset_deferred_dom. split.
      * intros [_ (k0 & [ms H] & <-)]. rewrite (Hid _ _ H). by exists ms.
      * intros [ms H]. split; [by destruct (Hd k ms H) as (_ & ? & _)|]. exists k. split; [by exists ms|by eapply Hid].
    + intros k m. rewrite oreset_deferred_mem. split.
      * intros [_ (k0 & ms & H & Hm & <-)]. by rewrite (Hid _ _ H), H.
      * destruct (df !! k) as [ms|] eqn:H; cbn [default]; [|set_solver]. intros Hm.
        split; [by destruct (Hd k ms H) as (_ & ? & _)|]. exists k, ms. split_and!; [done..|by eapply Hid].
Qed.

Lemma ospec_oreset_inert p r :
  (∀ c ms, ORm c ms ∈ p → vwf c) →
  inert (ospec_clock p) r → (∀ m, inert (ospec_entry p m) r) → (∀ c ms, ORm c ms ∈ p → inert c r) →
  oreset (ospec_of p) r = ospec_of p.
Proof.
  intros Hw Hc He Hd. apply oreset_inert; cbn [oclock oentries odeferred ospec_of].
  - apply ospec_clock_wf.
  - done.
  - intros m e [-> Hne]%ospec_entries_Some. split_and!; [apply ospec_entry_wf|done|apply He].
  - intros c ms (-> & Hv & ms' & Hin)%ospec_deferred_Some.
    pose proof (Hw _ _ Hin) as Hcw. split_and!; [done| |by eapply Hd].
    intros ->. assert (vle ∅ (ospec_clock p) = true); [|congruence].
    apply vle_spec; [apply vwf_empty|apply ospec_clock_wf|]. intros a. rewrite vget_empty. lia.
Qed.

Section merge.
  Context (Ua : list (mop oop)) (HU : nk_univ Ua).

  Lemma nk_side_ops os : nk_side Ua os → nk_ops os.
  Proof using HU. intros [Hsub _] o Ho. destruct HU as (Hs & _). by apply Hs, Hsub. Qed.

  Lemma nk_sp_side os k : nk_side Ua os → sp_side (mo_proj Ua k) (mo_proj os k).
  Proof using HU.
    intros HS. pose proof (nk_side_ops os HS) as Hs. destruct HS as [Hsub Hseen]. destruct HU as (HsU & _).
    split_and!.
    - intros o [d Ho]%elem_of_mo_proj. apply elem_of_mo_proj. exists d. by apply Hsub.
    - intros c ms [d Ho]%elem_of_mo_proj. by apply Hs in Ho.
    - intros d ms [d0 Ho]%elem_of_mo_proj Hle. pose proof (HsU _ Ho) as Hop. cbn in Hop. subst d0.
      apply elem_of_mo_proj. exists d. apply Hseen; [done|].
      pose proof (nk_nested_clock_le os k (dactor d) Hs). pose proof (nk_entry_clock_le os k (dactor d)). lia.
  Qed.
  Lemma nk_sp_pos k d ms : OAdd d ms ∈ mo_proj Ua k → 0 < dcounter d.
  Proof using HU.
    intros [d0 Ho]%elem_of_mo_proj. destruct HU as (HsU & Hpos & _).
    pose proof (HsU _ Ho) as Hop. cbn in Hop. subst d0. by eapply Hpos.
  Qed.

  (** the clocks of the specification under key [k] consist of update dots of [k] *)
  Lemma kclk_entry_clock os k : nk_side Ua os → kclk Ua k (mspec_entry_clock os k).
  Proof using HU.
    intros HS a. pose proof (nk_side_ops os HS) as Hs. rewrite nk_entry_clock, dots_clock_get by done. intros Hp.
    destruct (max_ctr_witness (kdots os k) a) as [?|([a' n] & Hin & Ha & Hc)]; [lia|]. cbn in Ha, Hc. subst a'.
    rewrite <- Hc. apply elem_of_kdots in Hin as [o Ho]. exists o. by apply HS.
  Qed.
  Lemma kclk_nested_clock os k : nk_side Ua os → kclk Ua k (ospec_clock (mo_proj os k)).
  Proof using HU.
    intros HS a. pose proof (nk_side_ops os HS) as Hs. rewrite ospec_clock_get. intros Hp.
    destruct (max_ctr_witness (fst <$> adds_of (mo_proj os k)) a) as [?|([a' n] & Hin & Ha & Hc)]; [lia|].
    cbn in Ha, Hc. subst a'. rewrite <- Hc.
    apply elem_of_add_dots in Hin as [ms Hin]. apply elem_of_mo_proj in Hin as [d0 Ho].
    pose proof (Hs _ Ho) as Hop. cbn in Hop. subst d0. eexists. by apply HS.
  Qed.
  Lemma kclk_nested_entry os k m : nk_side Ua os → kclk Ua k (ospec_entry (mo_proj os k) m).
  Proof using HU.
    intros HS a. pose proof (nk_side_ops os HS) as Hs. rewrite ospec_entry_get. intros Hp.
    destruct (max_ctr_witness (live_dots (mo_proj os k) m) a) as [?|([a' n] & Hin & Ha & Hc)]; [lia|].
    cbn in Ha, Hc. subst a'. rewrite <- Hc.
    apply elem_of_live_dots in Hin as [(ms & Hin & _) _]. apply elem_of_mo_proj in Hin as [d0 Ho].
    pose proof (Hs _ Ho) as Hop. cbn in Hop. subst d0. eexists. by apply HS.
  Qed.
  Lemma kclk_nested_rm os k c ms : nk_side Ua os → ORm c ms ∈ mo_proj os k → kclk Ua k c.
  Proof using HU.
    intros HS [d Ho]%elem_of_mo_proj. destruct HU as (_ & _ & Hk). eapply Hk. by apply HS.
  Qed.

  (** a replica that holds no update of [k] covers none of [k]'s dots *)
  Lemma kclk_inert os k x : nk_side Ua os → k ∉ mkeys_mentioned os → kclk Ua k x → inert x (mspec_clock os).
  Proof.
    intros [_ Hseen] Hk Hx a. destruct (N.eq_0_gt_0_cases (vget x a)) as [?|Hp]; [by left|right].
    destruct (Hx a Hp) as [o Ho]. destruct (N.lt_ge_cases (vget (mspec_clock os) a) (vget x a)) as [?|Hle]; [done|].
    exfalso. apply Hk, elem_of_mkeys_mentioned. exists (Dot a (vget x a)), o. by apply Hseen.
  Qed.

  (** a dot of [k] that one replica holds and the clock of the other covers is held by both *)
  Lemma nk_entry_seen os os' k a : nk_side Ua os → nk_side Ua os' →
    vget (mspec_entry_clock os' k) a <= vget (mspec_clock os) a →
    vget (mspec_entry_clock os' k) a <= vget (mspec_entry_clock os k) a.
  Proof using HU.
    intros HS HS'. pose proof (nk_side_ops os HS) as Hs. pose proof (nk_side_ops os' HS') as Hs'.
    rewrite !nk_entry_clock, !dots_clock_get by done. intros Hle.
    destruct (max_ctr_witness (kdots os' k) a) as [->|([a' n] & Hin & Ha & Hc)]; [lia|]. cbn in Ha, Hc. subst a'.
    rewrite <- Hc in *. apply (max_ctr_ge _ _ (Dot a n)); [|done].
    apply elem_of_kdots in Hin as [o Ho]. apply elem_of_kdots. exists o. apply HS; [by apply HS'|done].
  Qed.

  Lemma nk_absent_nil os k : k ∉ mkeys_mentioned os → kdots os k = [] ∧ mo_proj os k = [].
  Proof.
    intros Hn. split; apply list_no_elem_nil.
    - intros d [o Ho]%elem_of_kdots. apply Hn, elem_of_mkeys_mentioned. by exists d, o.
    - intros o [d Ho]%elem_of_mo_proj. apply Hn, elem_of_mkeys_mentioned. by exists d, o.
  Qed.

  Lemma nk_entry_clock_pos os k : nk_side Ua os → k ∈ mkeys_mentioned os →
    ∃ a, 0 < vget (mspec_entry_clock os k) a.
  Proof using HU.
    intros HS (d & o & Ho)%elem_of_mkeys_mentioned. pose proof (nk_side_ops os HS) as Hs.
    exists (dactor d). rewrite nk_entry_clock, dots_clock_get by done.
    assert (0 < dcounter d) by (destruct HU as (_ & Hpos & _); eapply Hpos; by apply HS).
    assert (dcounter d <= max_ctr (kdots os k) (dactor d)); [|lia].
    apply max_ctr_ge; [|done]. apply elem_of_kdots. by exists o.
  Qed.

  (** one side holds the key, the other does not: nothing is deleted *)
  Lemma nk_one_side os os' k : nk_side Ua os → nk_side Ua os' →
    k ∈ mkeys_mentioned os → k ∉ mkeys_mentioned os' →
    vge (mspec_clock os') (mspec_entry_clock os k) = false ∧
    vreset (mspec_entry_clock os k) (mspec_clock os') = mspec_entry_clock os k ∧
    oreset (ospec_of (mo_proj os k)) (vreset (mspec_clock os') (mspec_entry_clock os k)) = ospec_of (mo_proj os k).
  Proof using HU.
    intros HS HS' Hin Hnin. pose proof (nk_side_ops os HS) as Hs.
    pose proof (kclk_inert os' k _ HS' Hnin (kclk_entry_clock os k HS)) as Hi.
    assert (vwf (mspec_entry_clock os k)) as Hw by apply dots_clock_wf.
    assert (vwf (mspec_clock os')) as Hw' by apply dots_clock_wf.
    split_and!.
    - destruct (vge _ _) eqn:E; [|done]. apply vge_spec in E; [|done..].
      destruct (nk_entry_clock_pos os k HS Hin) as [a Ha]. specialize (E a). destruct (Hi a); lia.
    - by apply inert_vreset_id.
    - assert (∀ x, kclk Ua k x → inert x (vreset (mspec_clock os') (mspec_entry_clock os k))) as Hx.
      { intros x Hx. eapply inert_le; [by eapply kclk_inert|]. apply vreset_leq. }
      apply ospec_oreset_inert.
      + intros c ms [d Ho]%elem_of_mo_proj. by apply Hs in Ho.
      + by apply Hx, kclk_nested_clock.
      + intros m. by apply Hx, kclk_nested_entry.
      + intros c ms Hc. apply Hx. by apply (kclk_nested_rm os k c ms).
  Qed.

  (** both sides hold the key: the common clock is the join *)
  Lemma nk_common os1 os2 k : nk_side Ua os1 → nk_side Ua os2 →
    vmerge (vmerge (vintersection (mspec_entry_clock os2 k) (mspec_entry_clock os1 k))
                   (vclone_without (mspec_entry_clock os2 k) (mspec_clock os1)))
           (vclone_without (mspec_entry_clock os1 k) (mspec_clock os2)) =
    vmerge (mspec_entry_clock os1 k) (mspec_entry_clock os2 k).
  Proof using HU.
    intros HS1 HS2. unfold vclone_without.
    assert (vwf (mspec_entry_clock os1 k)) as Hw1 by apply dots_clock_wf.
    assert (vwf (mspec_entry_clock os2 k)) as Hw2 by apply dots_clock_wf.
    apply vwf_ext.
    - repeat apply vmerge_wf; try apply vreset_wf; try done. by apply vintersection_wf.
    - by apply vmerge_wf.
    - intros a. rewrite !vmerge_get, vintersection_get, !vreset_get.
      pose proof (nk_entry_seen os1 os2 k a HS1 HS2). pose proof (nk_entry_seen os2 os1 k a HS2 HS1).
      pose proof (nk_entry_clock_le os1 k a). pose proof (nk_entry_clock_le os2 k a).
      repeat case_match; lia.
  Qed.

  Theorem nk_merge os1 os2 : nk_side Ua os1 → nk_side Ua os2 →
    mmerge vo (S os1) (S os2) = S (os1 ++ os2).
  Proof using HU.
    intros HS1 HS2. pose proof (nk_side_ops os1 HS1) as Hs1. pose proof (nk_side_ops os2 HS2) as Hs2.
    assert (nk_ops (os1 ++ os2)) as Hs by (by apply nk_ops_app).
    rewrite mmerge_unfold. cbn zeta.
    change (mdeferred (S os2)) with (∅ : gmap (gmap N N) (gset N)).
    unfold mfold at 1 2. rewrite map_fold_empty. cbn [mclock mentries mdeferred].
    rewrite mapply_deferred_empty by done.
    apply cmap_eq3; cbn [mclock mentries mdeferred]; [| |done].
    - unfold mapor_spec_nk_of. cbn [mclock]. unfold mspec_clock. by rewrite mall_dots_app, dots_clock_app.
    - change (mclock (S os1)) with (mspec_clock os1). change (mclock (S os2)) with (mspec_clock os2).
      apply map_eq. intros k. rewrite mmerge_entries_lookup, !nk_entries_lookup, mkeys_mentioned_app.
      assert (nk_ent (os1 ++ os2) k =
              MEntry (vmerge (mspec_entry_clock os1 k) (mspec_entry_clock os2 k))
                     (ospec_of (mo_proj os1 k ++ mo_proj os2 k))) as He.
      { unfold nk_ent. by rewrite !nk_entry_clock, kdots_app, dots_clock_app, mo_proj_app by done. }
      destruct (decide (k ∈ mkeys_mentioned os1)) as [H1|H1], (decide (k ∈ mkeys_mentioned os2)) as [H2|H2].
      + rewrite decide_True by (rewrite elem_of_app; by left).
        cbn [mmerge_entry nk_ent eclock eval]. rewrite (nk_common os1 os2 k HS1 HS2).
        assert (vwf (mspec_entry_clock os1 k)) as Hw1 by apply dots_clock_wf.
        assert (vwf (mspec_entry_clock os2 k)) as Hw2 by apply dots_clock_wf.
        destruct (vis_empty _) eqn:Ee.
        { apply vis_empty_spec in Ee. destruct (nk_entry_clock_pos os1 k HS1 H1) as [a Ha].
          assert (vget (vmerge (mspec_entry_clock os1 k) (mspec_entry_clock os2 k)) a = 0) as Hz by (by rewrite Ee, vget_empty).
          rewrite vmerge_get in Hz. lia. }
        rewrite He. f_equal. f_equal.
        rewrite (vmerge_comm (mspec_entry_clock os2 k)), vreset_self by done.
        cbn [v_reset v_merge orswot_valops].
        rewrite (sparse_L2 (mo_proj Ua k) (mo_proj os1 k) (mo_proj os2 k) (nk_sp_pos k)
                   (nk_sp_side os1 k HS1) (nk_sp_side os2 k HS2)).
        apply ospec_oreset_inert; intros; try apply inert_empty_r.
        match goal with Hx : ORm _ _ ∈ _ |- _ => apply elem_of_app in Hx as [[d Ho]%elem_of_mo_proj|[d Ho]%elem_of_mo_proj] end.
        * by apply Hs1 in Ho.
        * by apply Hs2 in Ho.
      + rewrite decide_True by (rewrite elem_of_app; by left).
        cbn [mmerge_entry nk_ent eclock eval].
        destruct (nk_one_side os1 os2 k HS1 HS2 H1 H2) as (-> & -> & Hr).
        cbn [v_reset orswot_valops]. rewrite Hr, He.
        destruct (nk_absent_nil os2 k H2) as [Hk Hp].
        rewrite (nk_entry_clock os2), Hk, Hp, dots_clock_nil, vmerge_empty_r, app_nil_r by done. done.
      + rewrite decide_True by (rewrite elem_of_app; by right).
        cbn [mmerge_entry nk_ent eclock eval].
        destruct (nk_one_side os2 os1 k HS2 HS1 H2 H1) as (-> & -> & Hr).
        cbn [v_reset orswot_valops]. rewrite Hr, He.
        destruct (nk_absent_nil os1 k H1) as [Hk Hp].
        rewrite (nk_entry_clock os1), Hk, Hp, dots_clock_nil, vmerge_empty_l by (done || apply dots_clock_wf). done.
      + rewrite decide_False by (rewrite elem_of_app; tauto). done.
  Qed.
End merge.

(** * Part 4: histories *)
Definition hops (H : list (oprec (mop oop))) : list (mop oop) := op_val <$> H.

(** structural well-formedness of a history: at key level the n-th update of an actor carries
    the dot (actor, n); the ops have the shape [nk_op]; every positive component of a nested
    remove context under [k] is the dot of an update of [k] *)
Definition nk_wfH (H : list (oprec (mop oop))) : Prop := owfH (habs H) ∧ nk_univ (hops H).
Definition nk_valid (H : list (oprec (mop oop))) (K : gset nat) : Prop := ovalid (habs H) K.

Lemma elem_of_hops H o : o ∈ hops H ↔ ∃ i r, H !! i = Some r ∧ op_val r = o.
Proof.
  unfold hops. rewrite elem_of_list_fmap. split.
  - intros (r & -> & [i Hi]%elem_of_list_lookup). by exists i, r.
  - intros (i & r & Hi & <-). exists r. split; [done|]. by eapply elem_of_list_lookup_2.
Qed.
Lemma hops_app H H' : hops (H ++ H') = hops H ++ hops H'.
Proof. unfold hops. by rewrite fmap_app. Qed.

Lemma habs_up_lookup (H : list (oprec (mop oop))) i r d k o : H !! i = Some r → op_val r = MUp d k o →
  habs H !! i = Some (OpRec (op_author r) (OAdd d [k]) (op_deps r)).
Proof. intros Hi Ho. unfold habs. rewrite (hmap_lookup_Some oabs H i r Hi). by rewrite Ho. Qed.

Lemma nk_hops_pos H d k o : owfH (habs H) → MUp d k o ∈ hops H → 0 < dcounter d.
Proof.
  intros HH (i & r & Hi & Ho)%elem_of_hops.
  destruct (owfH_add _ _ _ _ _ HH (habs_up_lookup H i r d k o Hi Ho) eq_refl) as (_ & Hc & _). lia.
Qed.

Lemma nk_map_clock_abs (H : list (oprec (mop oop))) K :
  mspec_clock (known_ops H K) = ospec_clock (known_ops (habs H) K).
Proof. by rewrite known_ops_habs, mspec_clock_abs. Qed.

Lemma nk_seen H K i r d k o : owfH (habs H) → nk_valid H K → H !! i = Some r → op_val r = MUp d k o →
  dcounter d <= vget (mspec_clock (known_ops H K)) (dactor d) → i ∈ K.
Proof.
  intros HH HK Hi Ho Hle. rewrite nk_map_clock_abs in Hle.
  exact (seen (habs H) K i _ d [k] HH HK (habs_up_lookup H i r d k o Hi Ho) eq_refl Hle).
Qed.

Lemma nk_side_known H K : owfH (habs H) → nk_valid H K → nk_side (hops H) (known_ops H K).
Proof.
  intros HH HK. split.
  - intros o (i & r & Hi & _ & Ho)%elem_of_known_ops. apply elem_of_hops. by exists i, r.
  - intros d k o (i & r & Hi & Ho)%elem_of_hops Hle. apply elem_of_known_ops. exists i, r.
    split_and!; [done| |done]. by eapply nk_seen.
Qed.

Lemma nk_valid_empty H : nk_valid H ∅.
Proof. apply ovalid_empty. Qed.
Lemma nk_valid_step H K i : nk_wfH H → nk_valid H K → adm_per_actor H K i → nk_valid H (K ∪ {[i]}).
Proof. intros [HH _] HK Ha. apply ovalid_step; [done..|]. by apply adm_per_actor_hmap. Qed.
Lemma nk_valid_union H K1 K2 : nk_valid H K1 → nk_valid H K2 → nk_valid H (K1 ∪ K2).
Proof. apply ovalid_union. Qed.

Lemma nk_spec_init H : mapor_spec_nk H ∅ = mnew.
Proof. unfold mapor_spec_nk. rewrite known_ops_empty. by vm_compute. Qed.

(** ** L1: applying an op to the specification state *)
Theorem nk_L1 H K i r : nk_wfH H → nk_valid H K → H !! i = Some r →
  mapply vo (mapor_spec_nk H K) (op_val r) = mapor_spec_nk H (K ∪ {[i]}).
Proof.
  intros [HH HU] HK Hi. unfold mapor_spec_nk.
  assert (op_val r ∈ hops H) as Hin by (apply elem_of_hops; by exists i, r).
  pose proof (proj1 HU _ Hin) as Hop.
  destruct (op_val r) as [c ks|d k o] eqn:Ho; [done|].
  destruct (N.le_gt_cases (dcounter d) (vget (mspec_clock (known_ops H K)) (dactor d))) as [Hle|Hgt].
  - assert (i ∈ K) as HiK by (by eapply nk_seen).
    assert (K ∪ {[i]} = K) as -> by set_solver.
    by apply mapply_dedup.
  - rewrite nk_apply_fresh; [|apply nk_ops_app|done].
    + apply nk_spec_ext. intros x. rewrite (known_ops_add_elem H K i r x Hi), Ho.
      by rewrite elem_of_app, elem_of_list_singleton.
    + split; [by apply (nk_side_ops (hops H) HU), nk_side_known|].
      by intros x ->%elem_of_list_singleton.
Qed.

(** ** L2: merging two specification states *)
Theorem nk_L2 H K1 K2 : nk_wfH H → nk_valid H K1 → nk_valid H K2 →
  mmerge vo (mapor_spec_nk H K1) (mapor_spec_nk H K2) = mapor_spec_nk H (K1 ∪ K2).
Proof.
  intros [HH HU] HK1 HK2. unfold mapor_spec_nk.
  rewrite (nk_merge (hops H) HU) by (by apply nk_side_known).
  apply nk_spec_ext. intros o. rewrite elem_of_app. symmetry. apply known_ops_union_elem.
Qed.

(** ** every reachable state is the specification of its knowledge (given [nk_wfH]) *)
Theorem nk_reach_spec H s K : nk_wfH H → moreach_nk H s K → s = mapor_spec_nk H K ∧ nk_valid H K.
Proof.
  intros HH Hr.
  refine (reach_spec eq mnew (mapply vo) (mmerge vo) adm_per_actor True mapor_spec_nk nk_wfH nk_valid
            _ _ _ _ _ _ _ _ H s K HH Hr).
  - by intros ??? ->.
  - by intros ???? -> ->.
  - intros H'. by rewrite nk_spec_init.
  - intros H'. apply nk_valid_empty.
  - intros H' K' i. apply nk_valid_step.
  - intros H' K1 K2. apply nk_valid_union.
  - intros H' K' i o HH' HK' _ Hi. by apply nk_L1.
  - intros H' K1 K2 _. apply nk_L2.
Qed.

(** ** API-generated histories are well-formed *)
Lemma mogen_nk_mgen s a cmd o : mogen_nk s a cmd = Some o → mgen vo s a (mo_cmd cmd) = Some o.
Proof. unfold mogen_nk. by destruct (mo_nokrm cmd). Qed.

Lemma mohist_nk_maphist H : mohist_ok_nk H → maphist_ok vo H.
Proof.
  induction 1 as [|H s K a cmd o Hok IH Hr Hown Hgen]; [constructor|].
  by apply (hist_snoc _ _ _ _ _ _ H s K a (mo_cmd cmd) o); [done|done|done|apply mogen_nk_mgen].
Qed.

Lemma kclk_mono Ua Ua' k c : (∀ o, o ∈ Ua → o ∈ Ua') → kclk Ua k c → kclk Ua' k c.
Proof. intros Hs Hc a Ha. destruct (Hc a Ha) as [o Ho]. exists o. by apply Hs. Qed.

(** the nested value the closure of [Map::update] receives at a specification state *)
Lemma nk_spec_nested os k :
  default (v_default vo) (eval <$> mentries (S os) !! k) = ospec_of (mo_proj os k).
Proof.
  rewrite nk_entries_lookup. destruct (decide _) as [Hin|Hin]; [done|].
  cbn. destruct (nk_absent_nil os k Hin) as [_ ->]. by rewrite ospec_of_nil.
Qed.

Lemma mogen_nk_op H K a cmd o : nk_wfH H → nk_valid H K →
  mogen_nk (mapor_spec_nk H K) a cmd = Some o →
  nk_op o ∧ ∀ d k c ms, o = MUp d k (ORm c ms) → kclk (hops H) k c.
Proof.
  intros [HH HU] HK Hgen. pose proof (nk_side_known H K HH HK) as HS.
  unfold mapor_spec_nk in Hgen. set (os := known_ops H K) in *.
  unfold mogen_nk, mogen in Hgen.
  destruct cmd as [k ms|k ms [m'|]|ks src]; cbn [mo_nokrm mo_cmd mgen] in Hgen; [| | |done]; injection Hgen as <-;
    unfold mupdate, oadd_all, orm_all; cbn beta; rewrite ?nk_spec_nested.
  - split; [reflexivity|]. intros ???? [=].
  - cbn [derive_rm_ctx rm_clock ocontains oentries ospec_of].
    rewrite ospec_entries_default. split; [apply ospec_entry_wf|].
    intros d k' c ms' [= _ <- <- _]. by apply kclk_nested_entry.
  - cbn [derive_rm_ctx rm_clock oread_ctx oclock ospec_of].
    split; [apply ospec_clock_wf|].
    intros d k' c ms' [= _ <- <- _]. by apply kclk_nested_clock.
Qed.

Theorem mohist_nk_wf H : mohist_ok_nk H → nk_wfH H.
Proof.
  intros Hok. split; [by apply (maphist_ok_wf vo), mohist_nk_maphist|].
  pose proof (maphist_ok_wf vo H (mohist_nk_maphist H Hok)) as HHall.
  induction Hok as [|H s K a cmd o Hok IH Hr Hown Hgen].
  { split_and!; [by intros ? ?%elem_of_nil|by intros ??? ?%elem_of_nil|by intros ???? ?%elem_of_nil]. }
  assert (owfH (habs H)) as HH by (by apply (maphist_ok_wf vo), mohist_nk_maphist).
  specialize (IH HH).
  destruct (nk_reach_spec H s K (conj HH IH) Hr) as [-> HK].
  destruct (mogen_nk_op H K a cmd o (conj HH IH) HK Hgen) as [Hop Hctx].
  rewrite hops_app. cbn [hops fmap list_fmap op_val].
  destruct IH as (Hs & Hpos & Hk).
  assert (∀ x, x ∈ hops H → x ∈ hops H ++ [o]) as Hmono by (intros x ?; apply elem_of_app; by left).
  split_and!.
  - apply nk_ops_app. split; [done|]. by intros x ->%elem_of_list_singleton.
  - intros d k o' Hin. apply (nk_hops_pos (H ++ [OpRec a o K]) d k o' HHall).
    by rewrite hops_app.
  - intros d k c ms [Hin|Heq%elem_of_list_singleton]%elem_of_app.
    + eapply kclk_mono; [exact Hmono|]. by eapply Hk.
    + eapply kclk_mono; [exact Hmono|]. by eapply Hctx.
Qed.

(** * The theorem *)
Theorem mapor_refine_nk (H : list (oprec (mop oop))) : mohist_ok_nk H →
  ∀ (s : cmap orswot) (K : gset nat), moreach_nk H s K → s = mapor_spec_nk H K.
Proof. intros Hok s K Hr. by destruct (nk_reach_spec H s K (mohist_nk_wf H Hok) Hr). Qed.

Print Assumptions mapor_refine_nk.
