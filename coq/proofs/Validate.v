(** Properties C16 (validate_op accepts every in-order op and rejects every
    gap) and C17 (validate_merge flags reused dots and nothing else).

    Group 1 (C16): Orswot, List, Map (REFUTED for Map: an actor's own second
    update is rejected at its origin), LWWReg, MerkleReg.
    Group 2 (C17): Orswot (REFUTED: one correct [add_all] of two members is
    flagged; it is indistinguishable from a genuine double spend), Map, LWWReg. *)
From stdpp Require Import gmap.
From Crdt Require Import model.Orswot model.MVReg model.Map model.List model.Simple model.Merkle
  spec.System spec.OrswotSpec spec.OrswotSystem spec.Specs spec.ListSystem
  proofs.VClock proofs.OrswotLayer proofs.OrswotL1 proofs.OrswotSystem proofs.ListSystem
  proofs.Simple proofs.MerkleInv proofs.Merkle.
From Coq Require Import ZifyBool ZifyN ZifyNat.
Local Open Scope N_scope.

(** * Counting the elements of a list that satisfy a boolean test *)
Section count.
  Context {A : Type} (p : A → bool) (l : list A).

  (** number of [p]-elements strictly before position [k] *)
  Definition pc (k : nat) : nat := length (List.filter p (take k l)).

  Lemma pc_0 : pc 0 = 0%nat.
  Proof. done. Qed.
  Lemma pc_S k x : l !! k = Some x → pc (S k) = (pc k + (if p x then 1 else 0))%nat.
  Proof.
    intros Hk. unfold pc. rewrite (take_S_r _ _ _ Hk), List.filter_app, app_length. cbn [List.filter].
    by destruct (p x).
  Qed.
  Lemma pc_mono j k : (j <= k)%nat → (pc j <= pc k)%nat.
  Proof.
    induction 1 as [|k Hle IH]; [done|].
    destruct (l !! k) as [x|] eqn:E.
    - rewrite (pc_S _ _ E). lia.
    - assert (pc (S k) = pc k) as ->; [|done].
      unfold pc. apply lookup_ge_None in E. by rewrite !take_ge by lia.
  Qed.
  Lemma pc_lt j k x : (j < k)%nat → l !! j = Some x → p x = true → (pc j < pc k)%nat.
  Proof.
    intros Hlt Hj Hp. pose proof (pc_mono (S j) k Hlt) as Hm. rewrite (pc_S _ _ Hj), Hp in Hm. lia.
  Qed.
  (** the [c]-th [p]-element exists *)
  Lemma pc_nth k c : (1 <= c <= pc k)%nat →
    ∃ j x, (j < k)%nat ∧ l !! j = Some x ∧ p x = true ∧ (pc j + 1 = c)%nat.
  Proof.
    induction k as [|k IH]; [rewrite pc_0; lia|]. intros Hc.
    destruct (l !! k) as [x|] eqn:E.
    - rewrite (pc_S _ _ E) in Hc. destruct (p x) eqn:Hp.
      + destruct (decide (c = pc k + 1)%nat) as [->|Hne].
        * exists k, x. split_and!; [lia|done..].
        * destruct IH as (j & y & ? & ? & ? & ?); [lia|]. exists j, y. split_and!; [lia|done..].
      + destruct IH as (j & y & ? & ? & ? & ?); [lia|]. exists j, y. split_and!; [lia|done..].
    - assert (pc (S k) = pc k) as Heq.
      { unfold pc. apply lookup_ge_None in E. by rewrite !take_ge by lia. }
      destruct IH as (j & y & ? & ? & ? & ?); [lia|]. exists j, y. split_and!; [lia|done..].
  Qed.

  (** number of [p]-elements at a position of [K], before position [k] *)
  Definition kc (K : gset nat) (k : nat) : nat :=
    length (List.filter (λ q : nat * A, bool_decide (q.1 ∈ K) && p q.2) (imap pair (take k l))).

  Lemma kc_S K k x : l !! k = Some x →
    kc K (S k) = (kc K k + (if bool_decide (k ∈ K) && p x then 1 else 0))%nat.
  Proof.
    intros Hk. unfold kc. rewrite (take_S_r _ _ _ Hk), imap_app, List.filter_app, app_length.
    cbn [imap List.filter fst snd]. rewrite take_length_le by (apply lookup_lt_Some in Hk; lia).
    rewrite Nat.add_0_r. by destruct (_ && _).
  Qed.

  (** a set that holds exactly the first [n] [p]-elements holds [n] of them *)
  Lemma kc_prefix K n k :
    (∀ j x, l !! j = Some x → p x = true → j ∈ K ↔ (pc j + 1 <= n)%nat) →
    (k <= length l)%nat → kc K k = (pc k `min` n)%nat.
  Proof.
    intros HK. induction k as [|k IH]; [done|]. intros Hk.
    destruct (lookup_lt_is_Some_2 l k) as [x Hx]; [lia|].
    rewrite (kc_S _ _ _ Hx), (pc_S _ _ Hx), IH by lia.
    destruct (p x) eqn:Hp; [|rewrite andb_false_r; lia].
    rewrite andb_true_r. specialize (HK k x Hx Hp). case_bool_decide as Hd; rewrite HK in Hd; lia.
  Qed.
End count.

(** * Group 1 (C16), Orswot *)

Lemma add_cnt_pc H a i : add_cnt H a i = pc (is_add_by a) H i.
Proof. done. Qed.

(** removes are always accepted *)
Theorem C16_orswot_rm s c ms : ovalidate_op s (ORm c ms) = None.
Proof. done. Qed.

(** all states: the exact gate and the exact error *)
Theorem C16_orswot_add_gate s d ms :
  (ovalidate_op s (OAdd d ms) = None ↔ dcounter d <= vget (oclock s) (dactor d) + 1) ∧
  (∀ e, ovalidate_op s (OAdd d ms) = Some e ↔
        e = (dactor d, vget (oclock s) (dactor d) + 1, dcounter d) ∧
        vget (oclock s) (dactor d) + 1 < dcounter d).
Proof.
  cbn [ovalidate_op]. split; [apply vvalidate_op_ok|]. intros e. rewrite vvalidate_op_spec.
  destruct (_ <? _) eqn:E; split.
  - intros [= <-]. split; [done|lia].
  - by intros [-> _].
  - done.
  - intros [_ ?]. lia.
Qed.

(** every op produced by the API validates at the state that produced it (any state) *)
Theorem C16_orswot_origin_any s a cmd o : ogen s a cmd = Some o → ovalidate_op s o = None.
Proof.
  destruct cmd as [ms|ms [m'|]]; cbn [ogen]; intros [= <-]; [|done..].
  apply vvalidate_op_ok. cbn. lia.
Qed.
Corollary C16_orswot_origin H s K a cmd o :
  oreach H s K → own_known H a K → ogen s a cmd = Some o → ovalidate_op s o = None.
Proof. intros _ _. apply C16_orswot_origin_any. Qed.

(** the number of adds of actor [a] known in [K] *)
Definition known_adds (H : list (oprec oop)) (K : gset nat) (a : N) : nat := kc (is_add_by a) H K (length H).

Section orswot_c16.
  Context (H : list (oprec oop)) (HH : owfH H) (K : gset nat) (HK : ovalid H K).

  (** an add is known iff the clock covers its counter *)
  Lemma oclock_known i r d ms : H !! i = Some r → op_val r = OAdd d ms →
    i ∈ K ↔ dcounter d <= vget (ospec_clock (known_ops H K)) (dactor d).
  Proof.
    intros Hi Ho. split; [|by eapply seen].
    intros HiK. rewrite ospec_clock_get. apply max_ctr_ge; [|done].
    apply elem_of_add_dots. exists ms. apply elem_of_known_ops. by exists i, r.
  Qed.
  Lemma oclock_known_cnt a i r : H !! i = Some r → is_add_by a r = true →
    i ∈ K ↔ (add_cnt H a i + 1 <= N.to_nat (vget (ospec_clock (known_ops H K)) a))%nat.
  Proof.
    intros Hi Hab. destruct (is_add_by_author _ _ Hab) as (<- & d & ms & Ho).
    destruct (owfH_add _ _ _ _ _ HH Hi Ho) as (Hd & Hc & _).
    rewrite (oclock_known i r d ms Hi Ho), Hd, Hc. lia.
  Qed.
  (** the clock never exceeds the number of adds generated *)
  Lemma oclock_le_total a :
    (N.to_nat (vget (ospec_clock (known_ops H K)) a) <= add_cnt H a (length H))%nat.
  Proof.
    rewrite ospec_clock_get.
    destruct (max_ctr_witness (fst <$> adds_of (known_ops H K)) a) as [->|(d & Hin & Ha & <-)]; [lia|].
    apply elem_of_add_dots in Hin as [ms Hin].
    apply elem_of_known_ops in Hin as (j & r & Hj & _ & Ho).
    destruct (owfH_add _ _ _ _ _ HH Hj Ho) as (Hd & Hc & Hab). rewrite <-Hd, Ha in *.
    pose proof (add_cnt_lt H a j (length H) r (lookup_lt_Some _ _ _ Hj) Hj Hab). lia.
  Qed.
  (** the clock entry of [a] is the number of [a]'s adds known in [K] *)
  Theorem oclock_counts a : vget (ospec_clock (known_ops H K)) a = N.of_nat (known_adds H K a).
  Proof.
    unfold known_adds.
    rewrite (kc_prefix (is_add_by a) H K (N.to_nat (vget (ospec_clock (known_ops H K)) a))); [|..|done].
    - pose proof (oclock_le_total a) as Hle. rewrite add_cnt_pc in Hle. lia.
    - intros j x Hj Hp. rewrite <-add_cnt_pc. apply (oclock_known_cnt a j x Hj Hp).
  Qed.

  (** accepted iff all earlier adds of the author are known *)
  Theorem ovalidate_add_ok i r d ms : H !! i = Some r → op_val r = OAdd d ms →
    ovalidate_op (ospec H K) (OAdd d ms) = None ↔
    ∀ j r' d' ms', (j < i)%nat → H !! j = Some r' → op_val r' = OAdd d' ms' →
                   op_author r' = op_author r → j ∈ K.
  Proof.
    intros Hi Ho. destruct (owfH_add _ _ _ _ _ HH Hi Ho) as (Hd & Hc & Hab).
    rewrite (proj1 (C16_orswot_add_gate _ _ _)). change (oclock (ospec H K)) with (ospec_clock (known_ops H K)).
    rewrite Hd, Hc. split.
    - intros Hle j r' d' ms' Hlt Hj Ho' Hau.
      destruct (owfH_add _ _ _ _ _ HH Hj Ho') as (Hd' & Hc' & Hab'). rewrite Hau in *.
      apply (oclock_known j r' d' ms' Hj Ho'). rewrite Hd', Hc'.
      pose proof (add_cnt_lt _ _ _ _ _ Hlt Hj Hab'). lia.
    - intros Hall. destruct (decide (add_cnt H (op_author r) i = 0%nat)) as [->|Hne]; [lia|].
      destruct (add_cnt_last H (op_author r) i) as (j & r' & Hlt & Hj & Hab' & Hcnt).
      { apply lookup_lt_Some in Hi. lia. } { lia. }
      destruct (is_add_by_author _ _ Hab') as (Hau & d' & ms' & Ho').
      specialize (Hall j r' d' ms' Hlt Hj Ho' Hau).
      apply (oclock_known j r' d' ms' Hj Ho') in Hall.
      destruct (owfH_add _ _ _ _ _ HH Hj Ho') as (Hd' & Hc' & _). rewrite Hau in *. rewrite Hd', Hc' in Hall. lia.
  Qed.

  (** when rejected, the range reported is exactly the missing counters *)
  Theorem ovalidate_add_err i r d ms e : H !! i = Some r → op_val r = OAdd d ms →
    ovalidate_op (ospec H K) (OAdd d ms) = Some e →
    let a := op_author r in
    let lo := N.of_nat (known_adds H K a) + 1 in
    e = (a, lo, dcounter d) ∧ lo = vget (oclock (ospec H K)) a + 1 ∧ lo < dcounter d ∧
    ∀ c, lo <= c < dcounter d ↔
         ∃ j r' ms', (j < i)%nat ∧ H !! j = Some r' ∧ op_val r' = OAdd (Dot a c) ms' ∧ j ∉ K.
  Proof.
    intros Hi Ho He a lo. destruct (owfH_add _ _ _ _ _ HH Hi Ho) as (Hd & Hc & Hab).
    apply (proj2 (C16_orswot_add_gate _ _ _)) in He as [-> Hlt].
    change (oclock (ospec H K)) with (ospec_clock (known_ops H K)) in *.
    rewrite Hd in *. fold a in Hc, Hab, Hlt |- *. unfold lo. rewrite <-oclock_counts.
    split_and!; [done..|]. intros c. rewrite Hc. split.
    - intros [Hlo Hhi].
      destruct (pc_nth (is_add_by a) H i (N.to_nat c)) as (j & r' & Hji & Hj & Hab' & Hcnt).
      { rewrite <-add_cnt_pc. lia. }
      rewrite <-add_cnt_pc in Hcnt.
      destruct (is_add_by_author _ _ Hab') as (Hau & [a' c'] & ms' & Ho').
      destruct (owfH_add _ _ _ _ _ HH Hj Ho') as (Hd' & Hc' & _). cbn [dactor dcounter] in *. rewrite Hau in *.
      exists j, r', ms'. split_and!; [done|done|by rewrite Ho'; do 2 f_equal; lia|].
      intros HjK%(oclock_known_cnt a j r' Hj Hab'). lia.
    - intros (j & r' & ms' & Hji & Hj & Ho' & HjK).
      destruct (owfH_add _ _ _ _ _ HH Hj Ho') as (Hd' & Hc' & Hab'). cbn [dactor dcounter] in *. rewrite <-Hd' in *.
      pose proof (add_cnt_lt _ _ _ _ _ Hji Hj Hab').
      rewrite (oclock_known_cnt a j r' Hj Hab') in HjK. lia.
  Qed.
End orswot_c16.

(** the statements on reachable replica states *)
Theorem C16_orswot H s K i r :
  owfH H → oreach H s K → H !! i = Some r →
  (∀ c ms, op_val r = ORm c ms → ovalidate_op s (op_val r) = None) ∧
  (∀ a, vget (oclock s) a = N.of_nat (known_adds H K a)) ∧
  (∀ d ms, op_val r = OAdd d ms →
     (ovalidate_op s (op_val r) = None ↔
      ∀ j r' d' ms', (j < i)%nat → H !! j = Some r' → op_val r' = OAdd d' ms' →
                     op_author r' = op_author r → j ∈ K) ∧
     (∀ e, ovalidate_op s (op_val r) = Some e →
        let a := op_author r in
        let lo := N.of_nat (known_adds H K a) + 1 in
        a = dactor d ∧ e = (a, lo, dcounter d) ∧ lo = vget (oclock s) a + 1 ∧ lo < dcounter d ∧
        ∀ c, lo <= c < dcounter d ↔
             ∃ j r' ms', (j < i)%nat ∧ H !! j = Some r' ∧ op_val r' = OAdd (Dot a c) ms' ∧ j ∉ K)).
Proof.
  intros HH Hr Hi. destruct (orswot_reach_spec _ _ _ HH Hr) as [-> HK]. split_and!.
  - by intros c ms ->.
  - intros a. by apply oclock_counts.
  - intros d ms Ho. rewrite Ho. split; [by apply ovalidate_add_ok|].
    intros e He. destruct (owfH_add _ _ _ _ _ HH Hi Ho) as (Hd & _).
    destruct (ovalidate_add_err H HH K HK i r d ms e Hi Ho He) as (? & ? & ? & ?). by split_and!.
Qed.

(** in-order delivery, re-delivery and delivery at the origin are all accepted *)
Corollary C16_orswot_accepts H s K i r :
  owfH H → oreach H s K → H !! i = Some r →
  (adm_per_actor H K i → ovalidate_op s (op_val r) = None) ∧
  (i ∈ K → ovalidate_op s (op_val r) = None) ∧
  (own_known (take i H) (op_author r) K → ovalidate_op s (op_val r) = None).
Proof.
  intros HH Hr Hi. destruct (C16_orswot H s K i r HH Hr Hi) as (Hrm & _ & Hadd).
  destruct (orswot_reach_spec _ _ _ HH Hr) as [_ [_ HK2]].
  assert ((∀ j r', (j < i)%nat → H !! j = Some r' → op_author r' = op_author r → j ∈ K) →
          ovalidate_op s (op_val r) = None) as Hgo.
  { intros Hall. destruct (op_val r) as [d ms|c ms] eqn:Ho; [|by eapply Hrm].
    apply (Hadd d ms eq_refl). intros j r' d' ms' Hlt Hj _ Hau. by apply (Hall j r'). }
  split_and!.
  - intros (r0 & Hi' & Hall). simplify_eq. by apply Hgo.
  - intros HiK. apply Hgo. intros j r' Hlt Hj Hau. by apply (HK2 i j r r').
  - intros Hown. apply Hgo. intros j r' Hlt Hj Hau. apply (Hown j r'); [|done].
    by rewrite lookup_take.
Qed.

(** for API-generated histories *)
Corollary C16_orswot_ok H s K i r :
  ohist_ok H → oreach H s K → H !! i = Some r →
  (∀ c ms, op_val r = ORm c ms → ovalidate_op s (op_val r) = None) ∧
  (∀ d ms, op_val r = OAdd d ms →
     (ovalidate_op s (op_val r) = None ↔
      ∀ j r' d' ms', (j < i)%nat → H !! j = Some r' → op_val r' = OAdd d' ms' →
                     op_author r' = op_author r → j ∈ K)) ∧
  (adm_per_actor H K i → ovalidate_op s (op_val r) = None) ∧
  (i ∈ K → ovalidate_op s (op_val r) = None).
Proof.
  intros HH%ohist_ok_wf Hr Hi. destruct (C16_orswot H s K i r HH Hr Hi) as (H1 & _ & H2).
  destruct (C16_orswot_accepts H s K i r HH Hr Hi) as (H3 & H4 & _).
  split_and!; [done| |done|done]. intros d ms Ho. by destruct (H2 d ms Ho).
Qed.

(** * Group 2 (C17), Orswot *)

(** (a) all states: validate_merge fails iff some stored dot of a member of [s]
    is the current counter of the same actor at a different member of [o] *)
Theorem C17_orswot_char s o :
  ovalidate_merge s o = false ↔
  ∃ m c m' c' a n, oentries s !! m = Some c ∧ oentries o !! m' = Some c' ∧
                   c !! a = Some n ∧ m' ≠ m ∧ vget c' a = n.
Proof.
  unfold ovalidate_merge. rewrite bool_decide_eq_false, (map_not_Forall _). split.
  - intros (m & c & Hm & (m' & c' & Hm' & (a & n & Ha & Hn)%(map_not_Forall _))%(map_not_Forall _)).
    exists m, c, m', c', a, n. split_and!; try done; destruct (decide (m' = m)); try done;
      destruct (decide (vget c' a = n)); try done; destruct Hn; tauto.
  - intros (m & c & m' & c' & a & n & Hm & Hm' & Ha & Hne & Hn).
    exists m, c. split; [done|]. apply (map_not_Forall _). exists m', c'. split; [done|].
    apply (map_not_Forall _). exists a, n. split; [done|]. tauto.
Qed.
Corollary C17_orswot_ok s o :
  ovalidate_merge s o = true ↔
  ∀ m c m' c' a n, oentries s !! m = Some c → oentries o !! m' = Some c' →
                   c !! a = Some n → vget c' a = n → m' = m.
Proof.
  destruct (ovalidate_merge s o) eqn:E.
  - split; [|done]. intros _ m c m' c' a n Hm Hm' Ha Hn. destruct (decide (m' = m)) as [|Hne]; [done|].
    assert (ovalidate_merge s o = false) as Hf; [|congruence].
    apply C17_orswot_char. by exists m, c, m', c', a, n.
  - split; [done|]. intros Hall. apply C17_orswot_char in E as (m & c & m' & c' & a & n & ? & ? & ? & Hne & ?).
    destruct Hne. by eapply Hall.
Qed.

(** (d) misuse is detected, on all states: a dot that is the current witness
    of two different members is flagged *)
Theorem C17_orswot_detects s o m c m' c' a n :
  oentries s !! m = Some c → oentries o !! m' = Some c' → m' ≠ m →
  c !! a = Some n → vget c' a = n → ovalidate_merge s o = false.
Proof. intros. apply C17_orswot_char. by exists m, c, m', c', a, n. Qed.

(** symmetry, when no entry clock stores a zero *)
Definition entries_wf (s : orswot) : Prop := ∀ m c, oentries s !! m = Some c → vwf c.
Lemma C17_orswot_sym_half s o : entries_wf s →
  ovalidate_merge s o = false → ovalidate_merge o s = false.
Proof.
  intros Hwf (m & c & m' & c' & a & n & Hm & Hm' & Ha & Hne & Hn)%C17_orswot_char.
  apply C17_orswot_char. exists m', c', m, c, a, n. split_and!; [done|done| |done|by apply vget_Some].
  pose proof (vwf_lookup _ _ _ (Hwf m c Hm) Ha). subst n. apply vget_pos_Some. lia.
Qed.
Theorem C17_orswot_sym s o : entries_wf s → entries_wf o → ovalidate_merge s o = ovalidate_merge o s.
Proof.
  intros Hs Ho. destruct (ovalidate_merge s o) eqn:E1, (ovalidate_merge o s) eqn:E2; try done.
  - apply (C17_orswot_sym_half _ _ Ho) in E2. congruence.
  - apply (C17_orswot_sym_half _ _ Hs) in E1. congruence.
Qed.
(** without it: a stored zero on one side only *)
Example C17_orswot_sym_needs_wf :
  let s := Orswot ∅ {[1 := {[5 := 0]}]} ∅ in
  let o := Orswot ∅ {[2 := ∅]} ∅ in
  ovalidate_merge s o = false ∧ ovalidate_merge o s = true.
Proof. by vm_compute. Qed.

(** (b) correct use: when no add names two different members, every pair of
    reachable states validates *)
Lemma ospec_witness H K m c a n : owfH H →
  oentries (ospec H K) !! m = Some c → vget c a = n → n ≠ 0 →
  ∃ j r ms, H !! j = Some r ∧ j ∈ K ∧ op_val r = OAdd (Dot a n) ms ∧ m ∈ ms.
Proof.
  intros HH Hm Hn Hpos. cbn in Hm. apply ospec_entries_Some in Hm as [-> _].
  rewrite ospec_entry_get in Hn.
  destruct (max_ctr_witness (live_dots (known_ops H K) m) a) as [?|([a' n'] & Hin & Ha & Hc)]; [lia|].
  cbn in Ha, Hc. subst a' n'. rewrite Hn in Hin.
  apply elem_of_live_dots in Hin as [(ms & Hin & Hms) _].
  apply elem_of_known_ops in Hin as (j & r & Hj & HjK & Ho). by exists j, r, ms.
Qed.

Theorem C17_orswot_correct_use H s1 K1 s2 K2 :
  ohist_ok H →
  (∀ i r d ms, H !! i = Some r → op_val r = OAdd d ms → ∀ m m', m ∈ ms → m' ∈ ms → m = m') →
  oreach H s1 K1 → oreach H s2 K2 → ovalidate_merge s1 s2 = true.
Proof.
  intros HH%ohist_ok_wf Hsingle Hr1 Hr2.
  destruct (orswot_reach_spec _ _ _ HH Hr1) as [-> _], (orswot_reach_spec _ _ _ HH Hr2) as [-> _].
  apply C17_orswot_ok. intros m c m' c' a n Hm Hm' Ha Hn.
  assert (n ≠ 0) as Hpos.
  { destruct (ospec_entry_inv _ _ _ _ Hm) as (Hwf & _). by eapply vwf_lookup. }
  destruct (ospec_witness H K1 m c a n HH Hm (vget_Some _ _ _ Ha) Hpos) as (j & r & ms & Hj & _ & Ho & Hin).
  destruct (ospec_witness H K2 m' c' a n HH Hm' Hn Hpos) as (j' & r' & ms' & Hj' & _ & Ho' & Hin').
  pose proof (dot_unique H j j' r r' _ ms ms' HH Hj Hj' Ho Ho') as <-.
  rewrite Hj in Hj'. injection Hj' as <-. rewrite Ho in Ho'. injection Ho' as <-.
  by apply (Hsingle j r (Dot a n) ms Hj Ho).
Qed.

(** (c) REFUTATION: one correct [add_all] of two members is flagged *)
Definition c17_op : oop := OAdd (Dot 1 1) [1; 2].
Definition c17_hist : list (oprec oop) := [OpRec 1 c17_op ∅].
Lemma c17_hist_ok : ohist_ok c17_hist.
Proof.
  change c17_hist with ([] ++ [OpRec 1 c17_op ∅]).
  apply (hist_snoc onew oapply omerge ogen adm_per_actor True [] onew ∅ 1 (CAdd [1; 2])).
  - constructor.
  - constructor.
  - intros j o Hj. by rewrite lookup_nil in Hj.
  - done.
Qed.
Theorem C17_add_all_refuted :
  let s := oapply onew c17_op in
  ohist_ok c17_hist ∧ ogen onew 1 (CAdd [1; 2]) = Some c17_op ∧
  oreach c17_hist s {[0%nat]} ∧
  ovalidate_merge s s = false.
Proof.
  split_and!; [apply c17_hist_ok|done| |by vm_compute].
  replace ({[0%nat]} : gset nat) with ((∅ : gset nat) ∪ {[0%nat]}) by set_solver.
  apply (reach_apply onew oapply omerge adm_per_actor True c17_hist onew ∅ 0 (OpRec 1 c17_op ∅)).
  - constructor.
  - done.
  - eexists. split; [done|]. intros j o' Hj. lia.
Qed.

(** ... and no validate_merge can do better: the flagged pair of states of a
    correct run (one [add_all] of two members, then each of two other replicas
    removes one of them) is also the pair of states of a genuine double spend
    (actor 1 used at two fresh replicas). *)
Local Instance oop_eq_dec : EqDecision oop.
Proof. solve_decision. Defined.

Lemma oreach_apply' H s K i r s' K' :
  oreach H s K → H !! i = Some r → adm_per_actor H K i →
  s' = oapply s (op_val r) → K' = K ∪ {[i]} → oreach H s' K'.
Proof. intros ??? -> ->. by eapply reach_apply. Qed.

Definition c17_rm2 : oop := ORm {[1 := 1]} [2].
Definition c17_rm1 : oop := ORm {[1 := 1]} [1].
Definition c17_histA : list (oprec oop) :=
  [OpRec 1 c17_op ∅; OpRec 2 c17_rm2 {[0%nat]}; OpRec 3 c17_rm1 {[0%nat]}].
Definition c17_s0 : orswot := oapply onew c17_op.
Definition c17_sA1 : orswot := oapply c17_s0 c17_rm2.
Definition c17_sA2 : orswot := oapply c17_s0 c17_rm1.
(** the double spend: actor 1 adds member 1 at one fresh replica and member 2 at another *)
Definition c17_opB1 : oop := OAdd (Dot 1 1) [1].
Definition c17_opB2 : oop := OAdd (Dot 1 1) [2].
Definition c17_histB : list (oprec oop) := [OpRec 1 c17_opB1 ∅; OpRec 1 c17_opB2 ∅].

Lemma c17_s0_reach H' : oreach (c17_hist ++ H') c17_s0 {[0%nat]}.
Proof.
  apply oreach_mono. by destruct C17_add_all_refuted as (_ & _ & ? & _).
Qed.
Lemma c17_histA_ok : ohist_ok c17_histA.
Proof.
  change c17_histA with (([OpRec 1 c17_op ∅] ++ [OpRec 2 c17_rm2 {[0%nat]}]) ++ [OpRec 3 c17_rm1 {[0%nat]}]).
  apply (hist_snoc onew oapply omerge ogen adm_per_actor True _ c17_s0 {[0%nat]} 3 (CRm [1] (Some 1))).
  - apply (hist_snoc onew oapply omerge ogen adm_per_actor True _ c17_s0 {[0%nat]} 2 (CRm [2] (Some 2))).
    + apply c17_hist_ok.
    + apply (c17_s0_reach []).
    + intros [|j] o Hj Ha; [set_solver|]. cbn in Hj. by destruct j.
    + apply (bool_decide_unpack _). by vm_compute.
  - apply (c17_s0_reach [_]).
  - intros [|[|j]] o Hj Ha; [set_solver| |cbn in Hj; by destruct j].
    cbn in Hj. injection Hj as <-. done.
  - apply (bool_decide_unpack _). by vm_compute.
Qed.

Theorem C17_add_all_indistinguishable :
  (* a correct run ... *)
  ohist_ok c17_histA ∧
  oreach c17_histA c17_sA1 {[0%nat; 1%nat]} ∧ oreach c17_histA c17_sA2 {[0%nat; 2%nat]} ∧
  (* ... a double spend: both ops generated by actor 1 at a fresh replica ... *)
  ogen onew 1 (CAdd [1]) = Some c17_opB1 ∧ ogen onew 1 (CAdd [2]) = Some c17_opB2 ∧
  ¬ owfH c17_histB ∧ ¬ ohist_ok c17_histB ∧
  (* ... the same pair of states, which is flagged *)
  c17_sA1 = oapply onew c17_opB1 ∧ c17_sA2 = oapply onew c17_opB2 ∧
  ovalidate_merge c17_sA1 c17_sA2 = false ∧
  (* so no validation function is both complete (accepts the correct run) and
     sound (rejects the double spend) *)
  ∀ v : orswot → orswot → bool,
    ¬ (v c17_sA1 c17_sA2 = true ∧ v (oapply onew c17_opB1) (oapply onew c17_opB2) = false).
Proof.
  assert (¬ owfH c17_histB) as HnB.
  { intros HH. destruct (HH 1%nat _ eq_refl) as [_ Hc]. by vm_compute in Hc. }
  assert (c17_sA1 = oapply onew c17_opB1) as E1 by (apply (bool_decide_unpack _); by vm_compute).
  assert (c17_sA2 = oapply onew c17_opB2) as E2 by (apply (bool_decide_unpack _); by vm_compute).
  split_and!; [| | |done|done|done| |done|done| |].
  - apply c17_histA_ok.
  - apply (oreach_apply' c17_histA c17_s0 {[0%nat]} 1 (OpRec 2 c17_rm2 {[0%nat]})); [apply (c17_s0_reach [_; _])|done| |done|set_solver].
    eexists. split; [done|]. intros [|j] o' Hlt Hj Ha; [|lia]. cbn in Hj. by injection Hj as <-.
  - apply (oreach_apply' c17_histA c17_s0 {[0%nat]} 2 (OpRec 3 c17_rm1 {[0%nat]})); [apply (c17_s0_reach [_; _])|done| |done|set_solver].
    eexists. split; [done|]. intros [|[|j]] o' Hlt Hj Ha; [| |lia]; cbn in Hj; by injection Hj as <-.
  - intros Hok. by apply HnB, ohist_ok_wf.
  - by vm_compute.
  - intros v [Hv1 Hv2]. rewrite <-E1, <-E2 in Hv2. congruence.
Qed.

(** * Group 1 (C16), Map: exact characterisation on all states, and the refutation *)
Section map_c16.
  Context {V O E : Type} (vo : valops V O E).

  Definition mentry_at (s : cmap V) (k : N) : mentry V :=
    default (MEntry ∅ (v_default vo)) (mentries s !! k).

  Theorem C16_map_rm s c ks : mvalidate_op vo s (MRm c ks) = None.
  Proof. done. Qed.

  Theorem C16_map_up_ok s d k o :
    mvalidate_op vo s (MUp d k o) = None ↔
    dcounter d <= vget (mclock s) (dactor d) + 1 ∧
    dcounter d <= vget (eclock (mentry_at s k)) (dactor d) + 1 ∧
    v_validate_op vo (eval (mentry_at s k)) o = None.
  Proof.
    cbn [mvalidate_op]. fold (mentry_at s k). rewrite <-!vvalidate_op_ok.
    destruct (vvalidate_op (mclock s) d); [naive_solver|].
    destruct (vvalidate_op (eclock (mentry_at s k)) d); [naive_solver|].
    destruct (v_validate_op vo (eval (mentry_at s k)) o); naive_solver.
  Qed.

  (** the error reported: the map clock's gap first, then the entry clock's, then the value's *)
  Theorem C16_map_up_err s d k o err :
    mvalidate_op vo s (MUp d k o) = Some err ↔
    let a := dactor d in let e := mentry_at s k in
    (vget (mclock s) a + 1 < dcounter d ∧ err = SourceOrder (a, vget (mclock s) a + 1, dcounter d)) ∨
    (dcounter d <= vget (mclock s) a + 1 ∧ vget (eclock e) a + 1 < dcounter d ∧
     err = SourceOrder (a, vget (eclock e) a + 1, dcounter d)) ∨
    (dcounter d <= vget (mclock s) a + 1 ∧ dcounter d <= vget (eclock e) a + 1 ∧
     ∃ x, v_validate_op vo (eval e) o = Some x ∧ err = ValueErr x).
  Proof.
    cbn [mvalidate_op]. fold (mentry_at s k). cbn zeta. rewrite !vvalidate_op_spec.
    destruct (_ <? _) eqn:E1; [split; [intros [= <-]; left; split; [lia|done]|intros [[_ ->]|[[? _]|[? _]]]; [done|lia..]]|].
    destruct (vget (eclock (mentry_at s k)) (dactor d) + 1 <? _) eqn:E2.
    { split; [intros [= <-]; right; left; split_and!; [lia|lia|done]|].
      intros [[? _]|[(_ & _ & ->)|(_ & ? & _)]]; [lia|done|lia]. }
    destruct (v_validate_op vo (eval (mentry_at s k)) o) as [x|].
    - split; [intros [= <-]; right; right; split_and!; [lia|lia|by exists x]|].
      intros [[? _]|[(_ & ? & _)|(_ & _ & x' & [= <-] & ->)]]; [lia|lia|done].
    - split; [done|]. intros [[? _]|[(_ & ? & _)|(_ & _ & x' & ? & _)]]; [lia|lia|done].
  Qed.
End map_c16.

(** REFUTATION of C16 for Map: actor 7 updates key 1 (dot 7.1) and then key 2
    (dot 7.2) on its own replica; the second op is rejected AT ITS ORIGIN,
    because the fresh entry of key 2 has an empty clock and [validate_op]
    checks the dot against the entry clock as if every dot of the actor had
    to touch every key. *)
Definition c16_put (v : N) : list (gmap N N * N) → addctx → mvop := λ _ ctx, mvwrite v ctx.
Definition c16_up (s : cmap (list (gmap N N * N))) (k v : N) : mop mvop :=
  mupdate mvreg_valops s k (derive_add_ctx (mread_ctx s) 7) (c16_put v).

Theorem C16_map_refuted :
  let s0 := mnew in
  let op1 := c16_up s0 1 10 in
  let s1 := mapply mvreg_valops s0 op1 in
  let op2 := c16_up s1 2 20 in
  (∃ o1 o2, op1 = MUp (Dot 7 1) 1 o1 ∧ op2 = MUp (Dot 7 2) 2 o2) ∧
  mvalidate_op mvreg_valops s0 op1 = None ∧
  mvalidate_op mvreg_valops s1 op2 = Some (SourceOrder (7, 1, 2)).
Proof. split_and!; [by eexists _, _|by vm_compute..]. Qed.

(** second witness: update key 1, remove it (context from [get]), update it again *)
Theorem C16_map_refuted_rm :
  let s0 := mnew in
  let op1 := c16_up s0 1 10 in
  let s1 := mapply mvreg_valops s0 op1 in
  let op2 : mop mvop := mrm 1 (derive_rm_ctx (mget s1 1)) in
  let s2 := mapply mvreg_valops s1 op2 in
  let op3 := c16_up s2 1 30 in
  (∃ o3, op3 = MUp (Dot 7 2) 1 o3) ∧
  mvalidate_op mvreg_valops s1 op2 = None ∧
  mvalidate_op mvreg_valops s2 op3 = Some (SourceOrder (7, 1, 2)).
Proof. split_and!; [by eexists|by vm_compute..]. Qed.

(** the same with a nested Orswot *)
Theorem C16_map_refuted_orswot :
  let up (s : cmap orswot) (k m : N) : mop oop :=
    mupdate orswot_valops s k (derive_add_ctx (mread_ctx s) 7) (λ _ ctx, oadd m ctx) in
  let op1 := up mnew 1 10 in
  let s1 := mapply orswot_valops mnew op1 in
  let op2 := up s1 2 20 in
  mvalidate_op orswot_valops mnew op1 = None ∧
  mvalidate_op orswot_valops s1 op2 = Some (SourceOrder (7, 1, 2)).
Proof. split; by vm_compute. Qed.

(** * Group 1 (C16), List *)
Definition by_actor (a : N) : oprec lop → bool := λ r', bool_decide (op_author r' = a).
(** the number of ops of actor [a] known in [K] *)
Definition known_ops_of (H : list (oprec lop)) (K : gset nat) (a : N) : nat := kc (by_actor a) H K (length H).

Lemma cnt_pc a (H : list (oprec lop)) i : cnt a (take i H) = pc (by_actor a) H i.
Proof. done. Qed.

(** every op produced by the API validates at the (reachable) state that produced it *)
Theorem C16_list_origin H s K a cmd o :
  lwfH H → lreach H s K → lgen s a cmd = Some o → l_validate_op s o = Some None.
Proof.
  intros HH Hr Hgen. unfold l_validate_op.
  rewrite (lgen_dot s a cmd o (list_sorted H HH s K Hr) Hgen). cbn [fmap option_fmap option_map].
  f_equal. apply vvalidate_op_ok. cbn. lia.
Qed.

Section list_c16.
  Context (H : list (oprec lop)) (HH : lwfH H) (s : clist) (K : gset nat) (Hr : lreach H s K).

  Lemma lclock_known a j x : H !! j = Some x → by_actor a x = true →
    j ∈ K ↔ (pc (by_actor a) H j + 1 <= N.to_nat (vget (lclock s) a))%nat.
  Proof.
    intros Hj Hp%bool_decide_eq_true. pose proof (lwfH_dot H HH j x Hj) as Hd. rewrite Hp in Hd.
    rewrite <-(list_gate H s K j x _ HH Hr Hj Hd). cbn [dactor dcounter]. rewrite cnt_pc. lia.
  Qed.
  Lemma lclock_le_total a : (N.to_nat (vget (lclock s) a) <= pc (by_actor a) H (length H))%nat.
  Proof.
    rewrite (list_clock H HH s K a Hr).
    destruct (max_ctr_witness (kdots H K) a) as [->|(d & Hin & Ha & <-)]; [lia|].
    apply elem_of_kdots in Hin as (j & r & Hj & _ & Hd).
    destruct (lwfH_counter H HH j r d Hj Hd) as [Hau ->]. rewrite Ha in Hau. rewrite <-Hau.
    pose proof (cnt_take_le a H j r Hj (eq_sym Hau)) as Hlt.
    rewrite <-cnt_pc, firstn_all. lia.
  Qed.
  (** the clock entry of [a] is the number of [a]'s ops known in [K] *)
  Theorem lclock_counts a : vget (lclock s) a = N.of_nat (known_ops_of H K a).
  Proof.
    unfold known_ops_of.
    rewrite (kc_prefix (by_actor a) H K (N.to_nat (vget (lclock s) a))); [|..|done].
    - pose proof (lclock_le_total a). lia.
    - intros j x Hj Hp. apply (lclock_known a j x Hj Hp).
  Qed.

  (** never a panic, and the verdict is the clock's verdict on the op's dot *)
  Theorem lvalidate_total i r : H !! i = Some r →
    l_validate_op s (op_val r) =
      Some (vvalidate_op (lclock s) (Dot (op_author r) (N.of_nat (pc (by_actor (op_author r)) H i) + 1))).
  Proof. intros Hi. unfold l_validate_op. by rewrite (lwfH_dot H HH i r Hi). Qed.

  (** accepted iff all earlier ops of the author are known *)
  Theorem lvalidate_ok i r : H !! i = Some r →
    l_validate_op s (op_val r) = Some None ↔
    ∀ j r', (j < i)%nat → H !! j = Some r' → op_author r' = op_author r → j ∈ K.
  Proof.
    intros Hi. rewrite (lvalidate_total i r Hi). set (a := op_author r).
    split.
    - intros [= Hv]. apply vvalidate_op_ok in Hv. cbn [dactor dcounter] in Hv.
      intros j r' Hlt Hj Hau. assert (by_actor a r' = true) as Hp by (by apply bool_decide_eq_true).
      apply (lclock_known a j r' Hj Hp). pose proof (pc_lt (by_actor a) H j i r' Hlt Hj Hp). lia.
    - intros Hall. f_equal. apply vvalidate_op_ok. cbn [dactor dcounter].
      destruct (decide (pc (by_actor a) H i = 0%nat)) as [->|Hne]; [lia|].
      destruct (pc_nth (by_actor a) H i (pc (by_actor a) H i)) as (j & r' & Hlt & Hj & Hp & Hc); [lia|].
      pose proof Hp as Hau%bool_decide_eq_true.
      specialize (Hall j r' Hlt Hj Hau). apply (lclock_known a j r' Hj Hp) in Hall. lia.
  Qed.

  (** when rejected, the range reported is exactly the missing counters *)
  Theorem lvalidate_err i r e : H !! i = Some r →
    l_validate_op s (op_val r) = Some (Some e) →
    let a := op_author r in
    let lo := N.of_nat (known_ops_of H K a) + 1 in
    let hi := N.of_nat (pc (by_actor a) H i) + 1 in
    lop_dot (op_val r) = Some (Dot a hi) ∧
    e = (a, lo, hi) ∧ lo = vget (lclock s) a + 1 ∧ lo < hi ∧
    ∀ c, lo <= c < hi ↔
         ∃ j r', (j < i)%nat ∧ H !! j = Some r' ∧ lop_dot (op_val r') = Some (Dot a c) ∧ j ∉ K.
  Proof.
    intros Hi He a lo hi. rewrite (lvalidate_total i r Hi) in He. injection He as He.
    rewrite vvalidate_op_spec in He. cbn [dactor dcounter] in He. fold a hi in He.
    destruct (_ <? _) eqn:Elt; [|done]. injection He as <-.
    unfold lo. rewrite <-lclock_counts. split_and!; [by apply (lwfH_dot H HH i r Hi)|done|done|lia|].
    intros c. split.
    - intros [Hlo Hhi].
      destruct (pc_nth (by_actor a) H i (N.to_nat c)) as (j & r' & Hji & Hj & Hp & Hcnt); [unfold hi in *; lia|].
      pose proof Hp as Hau%bool_decide_eq_true.
      exists j, r'. split_and!; [done|done| |].
      + rewrite (lwfH_dot H HH j r' Hj), Hau, cnt_pc. do 2 f_equal. lia.
      + intros HjK%(lclock_known a j r' Hj Hp). lia.
    - intros (j & r' & Hji & Hj & Hd & HjK).
      destruct (lwfH_counter H HH j r' _ Hj Hd) as [Hau Hc]. cbn [dactor dcounter] in Hau, Hc.
      assert (by_actor a r' = true) as Hp by (by apply bool_decide_eq_true).
      rewrite <-Hau, cnt_pc in Hc.
      pose proof (pc_lt (by_actor a) H j i r' Hji Hj Hp).
      rewrite (lclock_known a j r' Hj Hp) in HjK. unfold hi. lia.
  Qed.
End list_c16.

Theorem C16_list H s K i r :
  lwfH H → lreach H s K → H !! i = Some r →
  l_validate_op s (op_val r) ≠ None ∧
  (∀ a, vget (lclock s) a = N.of_nat (known_ops_of H K a)) ∧
  (l_validate_op s (op_val r) = Some None ↔
   ∀ j r', (j < i)%nat → H !! j = Some r' → op_author r' = op_author r → j ∈ K) ∧
  (adm_causal H K i → l_validate_op s (op_val r) = Some None) ∧
  (i ∈ K → l_validate_op s (op_val r) = Some None) ∧
  (∀ e, l_validate_op s (op_val r) = Some (Some e) →
     let a := op_author r in
     let lo := N.of_nat (known_ops_of H K a) + 1 in
     let hi := N.of_nat (pc (by_actor a) H i) + 1 in
     lop_dot (op_val r) = Some (Dot a hi) ∧
     e = (a, lo, hi) ∧ lo = vget (lclock s) a + 1 ∧ lo < hi ∧
     ∀ c, lo <= c < hi ↔
          ∃ j r', (j < i)%nat ∧ H !! j = Some r' ∧ lop_dot (op_val r') = Some (Dot a c) ∧ j ∉ K).
Proof.
  intros HH Hr Hi. destruct (list_reach_spec H s K HH Hr) as [_ HK]. split_and!.
  - by rewrite (lvalidate_total H HH s i r Hi).
  - intros a. by apply (lclock_counts H HH s K Hr).
  - by apply lvalidate_ok.
  - intros (r0 & Hi' & Hdeps). rewrite Hi in Hi'. injection Hi' as <-. apply (lvalidate_ok H HH s K Hr i r Hi).
    intros j r' Hlt Hj Hau. apply Hdeps. by eapply (lwfH_deps_own H HH i r j r').
  - intros HiK. apply (lvalidate_ok H HH s K Hr i r Hi).
    intros j r' Hlt Hj Hau. by eapply (lvalid_per_actor H K i j r r').
  - intros e He. by apply (lvalidate_err H HH s K Hr i r e Hi He).
Qed.
Corollary C16_list_ok H s K i r :
  lhist_ok H → lreach H s K → H !! i = Some r →
  l_validate_op s (op_val r) ≠ None ∧
  (l_validate_op s (op_val r) = Some None ↔
   ∀ j r', (j < i)%nat → H !! j = Some r' → op_author r' = op_author r → j ∈ K).
Proof.
  intros HH%lhist_ok_lwfH Hr Hi. destruct (C16_list H s K i r HH Hr Hi) as (? & _ & ? & _). done.
Qed.

(** * Group 1 (C16), LWWReg and MerkleReg (restated) *)
Theorem C16_lww s v m : lww_conflict s v m = true ↔ lww_marker s = m ∧ lww_val s ≠ v.
Proof. apply lww_conflict_spec. Qed.

Theorem C16_merkle hash (Hinj : ∀ n1 n2 : mnode, hash n1 = hash n2 → n1 = n2) s R n :
  Inv hash s R →
  (mk_missing s n = ∅ ↔ ∀ c, c ∈ nchildren n → visible R c) ∧
  (∀ c, c ∈ mk_missing s n ↔ c ∈ nchildren n ∧ ¬ visible R c).
Proof.
  intros HI. split; [by apply (mk_missing_empty hash Hinj)|]. intros c. by apply (elem_of_mk_missing hash).
Qed.

(** * Group 2 (C17), Map and LWWReg *)
Lemma vconcurrent_sym a b : vconcurrent a b = vconcurrent b a.
Proof.
  unfold vconcurrent, vcmp. repeat case_bool_decide; try congruence.
  by destruct (vdominates a b), (vdominates b a).
Qed.

Section map_c17.
  Context {V O E : Type} (vo : valops V O E).

  (** fails iff some stored dot of a key of [s] is the current counter of the
      same actor at a different key of [o], or the nested validation fails at a
      common key whose entry clocks are concurrent *)
  Theorem C17_map_char s o :
    mvalidate_merge vo s o = false ↔
    (∃ k e k' e' a n, mentries s !! k = Some e ∧ mentries o !! k' = Some e' ∧
                      eclock e !! a = Some n ∧ k' ≠ k ∧ vget (eclock e') a = n) ∨
    (∃ k e e', mentries s !! k = Some e ∧ mentries o !! k = Some e' ∧
               vconcurrent (eclock e) (eclock e') = true ∧
               v_validate_merge vo (eval e) (eval e') = false).
  Proof.
    unfold mvalidate_merge. rewrite bool_decide_eq_false, (map_not_Forall _). split.
    - intros (k & e & Hk & (k' & e' & Hk' & Hn)%(map_not_Forall _)).
      apply not_and_l in Hn as [Hn|Hn].
      + apply (map_not_Forall _) in Hn as (a & n & Ha & Hn). left.
        exists k, e, k', e', a, n. split_and!; try done; destruct (decide (k' = k)); try done;
          destruct (decide (vget (eclock e') a = n)); try done; destruct Hn; tauto.
      + right. destruct (decide (k = k')) as [<-|Hne]; [|by destruct Hn].
        exists k, e, e'. split_and!; [done|done|..].
        * destruct (vconcurrent _ _); [done|]. by destruct Hn.
        * destruct (v_validate_merge _ _ _); [|done]. by destruct Hn.
    - intros [(k & e & k' & e' & a & n & Hk & Hk' & Ha & Hne & Hn)|(k & e & e' & Hk & Hk' & Hc & Hv)].
      + exists k, e. split; [done|]. apply (map_not_Forall _). exists k', e'. split; [done|].
        intros [Hall _]. by apply (Hall a n Ha).
      + exists k, e. split; [done|]. apply (map_not_Forall _). exists k, e'. split; [done|].
        intros [_ Hall]. rewrite (Hall eq_refl Hc) in Hv. done.
  Qed.

  Definition mentries_wf (s : cmap V) : Prop := ∀ k e, mentries s !! k = Some e → vwf (eclock e).

  Lemma C17_map_sym_half s o :
    (∀ v v', v_validate_merge vo v v' = v_validate_merge vo v' v) → mentries_wf s →
    mvalidate_merge vo s o = false → mvalidate_merge vo o s = false.
  Proof.
    intros Hsym Hwf [(k & e & k' & e' & a & n & Hk & Hk' & Ha & Hne & Hn)|(k & e & e' & Hk & Hk' & Hc & Hv)]%C17_map_char;
      apply C17_map_char.
    - left. exists k', e', k, e, a, n. split_and!; [done|done| |done|by apply vget_Some].
      pose proof (vwf_lookup _ _ _ (Hwf k e Hk) Ha). subst n. apply vget_pos_Some. lia.
    - right. exists k, e', e. by rewrite vconcurrent_sym, Hsym.
  Qed.
  Theorem C17_map_sym s o :
    (∀ v v', v_validate_merge vo v v' = v_validate_merge vo v' v) → mentries_wf s → mentries_wf o →
    mvalidate_merge vo s o = mvalidate_merge vo o s.
  Proof.
    intros Hsym Hs Ho. destruct (mvalidate_merge vo s o) eqn:E1, (mvalidate_merge vo o s) eqn:E2; try done.
    - apply (C17_map_sym_half _ _ Hsym Ho) in E2. congruence.
    - apply (C17_map_sym_half _ _ Hsym Hs) in E1. congruence.
  Qed.
End map_c17.

Theorem C17_lww_sym s o :
  lww_conflict s (lww_val o) (lww_marker o) = lww_conflict o (lww_val s) (lww_marker s).
Proof.
  unfold lww_conflict. by rewrite (N.eqb_sym (lww_marker s)), (N.eqb_sym (lww_val s)).
Qed.
Theorem C17_lww s o :
  lww_conflict s (lww_val o) (lww_marker o) = true ↔ lww_marker s = lww_marker o ∧ lww_val s ≠ lww_val o.
Proof. apply lww_conflict_spec. Qed.
