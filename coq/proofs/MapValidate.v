(** C17 for Map through the key-layer simulation: on states reached by correct use
    [Map::validate_merge] never reports a double-spent dot (an update names ONE key, so the
    [add_all] obstruction K2 of the Orswot does not exist at key level); the verdict is then
    the nested values' verdict alone. *)
From stdpp Require Import gmap.
From Crdt Require Import model.Orswot model.MVReg model.Map spec.System spec.OrswotSpec spec.OrswotSystem
  spec.MapSpec spec.MapSystem proofs.VClock proofs.OrswotSystem proofs.Validate proofs.MapKeys.
Local Open Scope N_scope.

Section map_validate.
  Context {V O E : Type} (vo : valops V O E).

  Lemma habs_adds_singleton (H : list (oprec (mop O))) i r d ms :
    habs H !! i = Some r → op_val r = OAdd d ms → ∀ m m', m ∈ ms → m' ∈ ms → m = m'.
  Proof.
    unfold habs, hmap. rewrite list_lookup_fmap. intros Hl Hv m m' Hm Hm'.
    destruct (H !! i) as [r0|] eqn:Hr; [|done]. cbn in Hl. injection Hl as <-. cbn in Hv.
    destruct (op_val r0) as [c ks|d0 k o]; cbn in Hv; [done|]. injection Hv as <- <-.
    apply elem_of_list_singleton in Hm, Hm'. congruence.
  Qed.

  Theorem map_no_double_spend (H : list (oprec (mop O))) s1 K1 s2 K2 :
    maphist_ok vo H → mapreach vo H s1 K1 → mapreach vo H s2 K2 →
    ¬ ∃ k e k' e' a n, mentries s1 !! k = Some e ∧ mentries s2 !! k' = Some e' ∧ eclock e !! a = Some n ∧
                       k' ≠ k ∧ vget (eclock e') a = n.
  Proof.
    intros Hok H1 H2 (k & e & k' & e' & a & n & He & He' & Ha & Hne & Hg).
    pose proof (maphist_ok_abs vo H Hok) as Hoh.
    pose proof (maphist_ok_wf vo H Hok) as Hwf.
    pose proof (map_reach_sim vo H s1 K1 Hwf H1) as R1.
    pose proof (map_reach_sim vo H s2 K2 Hwf H2) as R2.
    pose proof (C17_orswot_correct_use (habs H) (kabs s1) K1 (kabs s2) K2 Hoh (habs_adds_singleton H) R1 R2) as Hv.
    assert (ovalidate_merge (kabs s1) (kabs s2) = false) as Hf; [|congruence].
    apply C17_orswot_char. exists k, (eclock e), k', (eclock e'), a, n.
    cbn [kabs oentries]. rewrite !lookup_fmap, He, He'. done.
  Qed.

  (** the verdict on correct use is the nested values' verdict alone *)
  Theorem map_validate_merge_correct_use (H : list (oprec (mop O))) s1 K1 s2 K2 :
    maphist_ok vo H → mapreach vo H s1 K1 → mapreach vo H s2 K2 →
    (mvalidate_merge vo s1 s2 = false ↔
     ∃ k e e', mentries s1 !! k = Some e ∧ mentries s2 !! k = Some e' ∧
               vconcurrent (eclock e) (eclock e') = true ∧ v_validate_merge vo (eval e) (eval e') = false).
  Proof.
    intros Hok H1 H2. rewrite C17_map_char. split.
    - intros [Hd|Hn]; [|done]. by destruct (map_no_double_spend H s1 K1 s2 K2 Hok H1 H2).
    - intros Hn. by right.
  Qed.

  (** with nested values that accept every merge (MVReg), correct use is always accepted *)
  Corollary map_validate_merge_accepts (H : list (oprec (mop O))) s1 K1 s2 K2 :
    (∀ v v', v_validate_merge vo v v' = true) →
    maphist_ok vo H → mapreach vo H s1 K1 → mapreach vo H s2 K2 → mvalidate_merge vo s1 s2 = true.
  Proof.
    intros Hv Hok H1 H2. destruct (mvalidate_merge vo s1 s2) eqn:Hm; [done|].
    apply (map_validate_merge_correct_use H s1 K1 s2 K2 Hok H1 H2) in Hm as (k & e & e' & _ & _ & _ & Hf).
    by rewrite Hv in Hf.
  Qed.
End map_validate.

Corollary mapmv_validate_merge_accepts (H : list (oprec (mop mvop))) s1 K1 s2 K2 :
  maphist_ok mvreg_valops H → mapreach mvreg_valops H s1 K1 → mapreach mvreg_valops H s2 K2 →
  mvalidate_merge mvreg_valops s1 s2 = true.
Proof. by apply map_validate_merge_accepts. Qed.
