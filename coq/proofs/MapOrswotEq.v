(** Property C20 for [Map<K, Orswot<M>>] in the per-actor fragment of proofs/MapOrswotPA.v
    (members added under keys, keys removed, no nested removes; delivery only respects the
    issue order of each author, duplicates allowed, no state merges): equal knowledge gives
    structurally equal states, and no tombstone outlives the arrival of what it waits for.

    - Part 1: the nested clock.  In this fragment every update of a key carries a nested
      add with the dot of the update and a key remove resets the entry clock and the
      nested value by the same context, so the clock of the Orswot stored under a key IS
      the entry clock of that key ([mapor_nested_clock_pa]); by proofs/MapKeys.v it is the
      clock of the surviving update dots of the key.
    - Part 2: [mapor_state_eq_pa]: two replicas that have learned the same ops hold
      Leibniz-equal states (all of [cmap orswot]: map clock, entries with entry clock and
      the three components of the nested Orswot, pending table).
    - Part 3: [mapor_no_residue_pa]: the pending table is empty exactly when the map clock
      covers the context of every learned remove; entries never carry residue (non-empty
      entry clock equal to the nested clock, no nested pending remove, no member with an
      empty witness clock), and a key whose updates are all covered is absent.
    - Part 4: the replicas X and Y of [mapor_pa_example] are equal. *)
From stdpp Require Import gmap.
From Crdt Require Import model.Orswot model.Map spec.System spec.OrswotSpec spec.OrswotSystem
  spec.MapSpec spec.MapSystem spec.MapOrswotSpec proofs.VClock proofs.Reset proofs.OrswotLayer
  proofs.OrswotL1 proofs.OrswotL2 proofs.OrswotSystem proofs.MapFacts proofs.MapKeys proofs.MapOrswot
  proofs.MapOrswotPA.
From Coq Require Import ZifyBool ZifyN ZifyNat.
Local Open Scope N_scope.

Local Notation vo := orswot_valops.

(** * Part 1: the nested clock is the entry clock (V4) *)
Definition mo_v4 (es : gmap N (mentry orswot)) : Prop :=
  ∀ k e, es !! k = Some e → oclock (eval e) = eclock e.

Lemma mo_v4_rm es ks c : mo_v4 es → mo_v4 (mrm_entries vo es ks c).
Proof.
  intros Hv k e'. rewrite mrm_entries_lookup. destruct (es !! k) as [e|] eqn:E; [|done].
  cbn [mbind option_bind]. case_bool_decide.
  - destruct (vis_empty _); [done|]. intros [= <-]. cbn. by rewrite (Hv k e E).
  - intros [= <-]. by apply (Hv k).
Qed.

Theorem mapor_nested_clock_pa H s K : mohist_ok_pa H → moreach_pa H s K → mo_v4 (mentries s).
Proof.
  intros Hok. induction 1 as [|s K i r Hr IH Hi Ha|s1 K1 s2 K2 Hm Hr1 IH1 Hr2 IH2]; [| |done].
  - intros k e. cbn. by rewrite lookup_empty.
  - pose proof (mo_inv_reach_pa H Hok s K Hr) as Hinv.
    pose proof (mohist_pa_shape H Hok i r Hi) as Hshape.
    destruct (op_val r) as [c ks|d k op] eqn:Ho.
    + cbn [mapply]. rewrite mapply_rm_entries. by apply mo_v4_rm.
    + destruct (up_gate_pa H Hok s K i r d k op Hr Hi Ho) as (G1 & G2 & G3).
      destruct (decide (i ∈ K)) as [HiK|HiK]; [by rewrite mapply_dedup by auto|].
      specialize (G2 HiK). destruct op as [d' ms|c ms]; [|done]. cbn in Hshape. subst d'.
      rewrite mapply_up_fresh by done. rewrite mapply_deferred_mfold. cbn [mclock mentries mdeferred].
      apply mfold_entries_ind; [intros; by apply mo_v4_rm|]. cbn [mentries].
      destruct (inv_default_pa H Hok s K k Hr Hinv) as (_ & V0 & D0).
      assert (oclock (eval (default (MEntry ∅ (v_default vo)) (mentries s !! k))) =
              eclock (default (MEntry ∅ (v_default vo)) (mentries s !! k))) as E0.
      { destruct (mentries s !! k) as [e|] eqn:E; cbn; [by apply (IH k)|done]. }
      set (e0 := default (MEntry ∅ (v_default vo)) (mentries s !! k)) in *.
      intros k' e'. destruct (decide (k' = k)) as [->|Hne].
      * rewrite lookup_insert. intros [= <-]. change (oclock (oapply (eval e0) (OAdd d ms)) = vapply (eclock e0) d).
        rewrite (nested_add_pa (eval e0) d ms D0) by (specialize (V0 (dactor d)); lia).
        cbn [oclock]. by rewrite E0.
      * rewrite lookup_insert_ne by done. apply IH.
Qed.

(** the nested clock as a function of the knowledge *)
Corollary mapor_nested_clock_spec_pa H s K k e : mohist_ok_pa H → moreach_pa H s K →
  mentries s !! k = Some e →
  oclock (eval e) = eclock e ∧ eclock e = mspec_entry_clock (known_ops H K) k.
Proof.
  intros Hok Hr He. split; [by apply (mapor_nested_clock_pa H s K Hok Hr k)|].
  pose proof (maphist_ok_wf vo H (mohist_pa_maphist H Hok)) as HH.
  destruct (map_keys_reach_mspec vo H HH s K (moreach_pa_mapreach H s K Hr)) as (_ & _ & Ec & _).
  specialize (Ec k). unfold mentry_clock in Ec. by rewrite He in Ec.
Qed.

(** * Part 2: equal knowledge gives equal states *)
Theorem mapor_state_eq_pa H s1 s2 K : mohist_ok_pa H → moreach_pa H s1 K → moreach_pa H s2 K → s1 = s2.
Proof.
  intros Hok H1 H2.
  destruct (mapor_converge_pa H s1 s2 K Hok H1 H2) as (_ & Hdom & Hc & _ & Hd & Hent).
  pose proof (mapor_nested_clock_pa H s1 K Hok H1) as V1.
  pose proof (mapor_nested_clock_pa H s2 K Hok H2) as V2.
  destruct s1 as [c1 es1 d1], s2 as [c2 es2 d2]. cbn [mclock mentries mdeferred] in *. subst c2 d2.
  f_equal. apply map_eq. intros k.
  destruct (es1 !! k) as [e1|] eqn:E1, (es2 !! k) as [e2|] eqn:E2.
  - destruct (Hent k e1 e2 E1 E2) as (Q1 & Q2 & Q3).
    pose proof (V1 k e1 E1) as W1. pose proof (V2 k e2 E2) as W2.
    destruct e1 as [ec1 [oc1 oe1 od1]], e2 as [ec2 [oc2 oe2 od2]]. cbn in *. congruence.
  - apply elem_of_dom_2 in E1. rewrite Hdom in E1. apply elem_of_dom in E1 as [? ?]. congruence.
  - apply elem_of_dom_2 in E2. rewrite <- Hdom in E2. apply elem_of_dom in E2 as [? ?]. congruence.
  - done.
Qed.

(** in particular a state reached under causal delivery is THE state of its knowledge *)
Corollary mapor_state_eq_causal_pa H s1 s2 K : mohist_ok_pa H → moreach_pa H s1 K → moreach H s2 K → s1 = s2.
Proof. intros Hok H1 H2%(mapor_causal_is_pa H s2 K Hok). by eapply mapor_state_eq_pa. Qed.

(** * Part 3: no residue *)

(** entries never carry residue, whatever is still pending at the map level *)
Theorem mapor_entries_clean_pa H s K : mohist_ok_pa H → moreach_pa H s K →
  (∀ k e, mentries s !! k = Some e →
     eclock e ≠ ∅ ∧ odeferred (eval e) = ∅ ∧
     (∀ m mc, oentries (eval e) !! m = Some mc → mc ≠ ∅) ∧
     oclock (eval e) = eclock e) ∧
  (∀ k, mlive_dots (known_ops H K) k = [] → mentries s !! k = None).
Proof.
  intros Hok Hr. pose proof (mohist_pa_maphist H Hok) as Hmap.
  pose proof (maphist_ok_wf vo H Hmap) as HH. pose proof (moreach_pa_mapreach H s K Hr) as Hr'.
  split.
  - intros k e He. split_and!.
    + destruct (map_keys_pending vo H Hmap s K ∅ Hr') as (_ & _ & _ & P4). by apply (P4 k e).
    + by destruct (mapor_nested_pa H s K k e Hok Hr He).
    + intros m mc Hm. destruct (mo_inv_reach_pa H Hok s K Hr k e He) as (E1 & _).
      rewrite E1 in Hm. by destruct (mo_entries_eswf _ _ _ _ Hm).
    + by apply (mapor_nested_clock_pa H s K Hok Hr k).
  - intros k Hl. destruct (map_key_present_iff vo H HH s K k Hr') as (Hp & _).
    destruct (mentries s !! k) as [e|] eqn:E; [|done]. apply elem_of_dom_2, Hp in E as [d Hd].
    rewrite Hl in Hd. by apply elem_of_nil in Hd.
Qed.

(** the pending table is empty iff every learned remove is covered by the map clock *)
Theorem mapor_pending_empty_iff_pa H s K : mohist_ok_pa H → moreach_pa H s K →
  mdeferred s = ∅ ↔ ∀ c ks, MRm c ks ∈ known_ops H K → vle c (mclock s) = true.
Proof.
  intros Hok Hr. pose proof (mohist_pa_maphist H Hok) as Hmap.
  pose proof (maphist_ok_wf vo H Hmap) as HH. pose proof (moreach_pa_mapreach H s K Hr) as Hr'.
  destruct (map_keys_reach_mspec vo H HH s K Hr') as (_ & _ & _ & Ed). split.
  - intros He c ks Hin. destruct (vle c (mclock s)) eqn:E; [done|]. exfalso.
    destruct (map_keys_pending vo H Hmap s K c Hr') as (_ & P2 & _).
    destruct P2 as [ks' Hl]; [by exists ks|done|]. rewrite He, lookup_empty in Hl. done.
  - intros Hcov. apply map_empty. intros c. destruct (mdeferred s !! c) as [ks|] eqn:El; [|done]. exfalso.
    destruct (map_keys_pending vo H Hmap s K c Hr') as (P1 & _). destruct (P1 ks El) as (_ & _ & Hv & _).
    rewrite Ed in El. apply ospec_deferred_Some in El as (_ & _ & ms' & Hin).
    apply elem_of_oabs_rm in Hin as (ks' & Hin & _). rewrite (Hcov c ks' Hin) in Hv. done.
Qed.

Theorem mapor_no_residue_pa H s K : mohist_ok_pa H → moreach_pa H s K →
  (∀ c ks, MRm c ks ∈ known_ops H K → vle c (mclock s) = true) →
  mdeferred s = ∅ ∧
  (∀ k e, mentries s !! k = Some e →
     eclock e ≠ ∅ ∧ odeferred (eval e) = ∅ ∧
     (∀ m mc, oentries (eval e) !! m = Some mc → mc ≠ ∅) ∧
     oclock (eval e) = eclock e) ∧
  (∀ k, mlive_dots (known_ops H K) k = [] → mentries s !! k = None).
Proof.
  intros Hok Hr Hcov. destruct (mapor_entries_clean_pa H s K Hok Hr) as [C1 C2].
  split_and!; [by apply (mapor_pending_empty_iff_pa H s K Hok Hr)|done|done].
Qed.

(** * Part 4: the history of [mapor_pa_example]: actor 1 adds members 10, 11 under key 7,
    actor 2 removes key 7 having seen that, actor 3 concurrently adds members 10, 12 under
    key 7.  Replica X received the key remove before the update it observed (parked, then
    replayed), replica Y received everything in causal order.  Both have learned all three
    ops: they are the same state, with an empty pending table, one entry whose clocks are
    actor 3's dot and no trace of actor 1's removed update.  After its first two
    deliveries X still holds the parked remove: its context is not covered yet. *)
Section example.
  Let o0 : mop oop := MUp (Dot 1 1) 7 (OAdd (Dot 1 1) [10; 11]).
  Let o1 : mop oop := MRm {[1 := 1]} {[7]}.
  Let o2 : mop oop := MUp (Dot 3 1) 7 (OAdd (Dot 3 1) [10; 12]).
  Let H : list (oprec (mop oop)) := [OpRec 1 o0 ∅; OpRec 2 o1 (∅ ∪ {[0%nat]}); OpRec 3 o2 ∅].
  Let K : gset nat := ∅ ∪ {[2%nat]} ∪ {[1%nat]} ∪ {[0%nat]}.
  Let x1 := mapply vo (mapply vo mnew o2) o1.
  Let x := mapply vo x1 o0.
  Let y := mapply vo (mapply vo (mapply vo mnew o0) o1) o2.

  Example mapor_eq_example :
    mohist_ok_pa H ∧ moreach_pa H x K ∧ moreach_pa H y K ∧
    x = y ∧
    x = CMap {[1 := 1; 3 := 1]}
             {[7 := MEntry {[3 := 1]}
                      (Orswot {[3 := 1]} {[10 := {[3 := 1]}; 12 := {[3 := 1]}]} ∅)]} ∅ ∧
    (∀ c ks, MRm c ks ∈ known_ops H K → vle c (mclock x) = true) ∧
    mlive_dots (known_ops H K) 7 = [Dot 3 1] ∧
    mlive_dots (known_ops H K) 8 = [] ∧ mentries x !! 8 = None ∧
    (* the intermediate state of X: the remove is known, not covered, parked *)
    moreach_pa H x1 (∅ ∪ {[2%nat]} ∪ {[1%nat]}) ∧
    MRm {[1 := 1]} {[7]} ∈ known_ops H (∅ ∪ {[2%nat]} ∪ {[1%nat]}) ∧
    vle {[1 := 1]} (mclock x1) = false ∧ mdeferred x1 ≠ ∅.
  Proof.
    destruct mapor_pa_example as (Hok & Hx & _ & Hy & HK & _).
    assert (moreach_pa H y K) as Hy' by (unfold K; rewrite <- HK; exact Hy).
    assert (known_ops H K = [o0; o1; o2]) as Ek by (by vm_compute).
    split_and!.
    - exact Hok.
    - exact Hx.
    - exact Hy'.
    - (* computed independently; [exact (mapor_state_eq_pa H x y K Hok Hx Hy')] proves it as well *)
      pose proof (mapor_state_eq_pa H x y K Hok Hx Hy') as _. apply (bool_decide_unpack _). by vm_compute.
    - apply (bool_decide_unpack _). by vm_compute.
    - intros c ks. rewrite Ek, !elem_of_cons, elem_of_nil. intros [Hq|[Hq|[Hq|[]]]]; unfold o0, o1, o2 in Hq; simplify_eq. by vm_compute.
    - by vm_compute.
    - by vm_compute.
    - apply (bool_decide_unpack _). by vm_compute.
    - (* all authors are distinct: per-actor admissibility asks for nothing *)
      apply (reach_apply _ _ _ _ _ _ _ _ 1%nat (OpRec 2 o1 (∅ ∪ {[0%nat]}))); [|done|].
      + apply (reach_apply _ _ _ _ _ _ _ _ 2%nat (OpRec 3 o2 ∅)); [constructor|done|].
        eexists; split; [done|]. intros [|[|[|j]]] r' Hlt Hj Ha; cbn in Hj, Ha; simplify_eq; lia.
      + eexists; split; [done|]. intros [|[|[|j]]] r' Hlt Hj Ha; cbn in Hj, Ha; simplify_eq; lia.
    - assert (known_ops H (∅ ∪ {[2%nat]} ∪ {[1%nat]}) = [o1; o2]) as -> by (by vm_compute). by left.
    - by vm_compute.
    - apply (bool_decide_unpack _). by vm_compute.
  Qed.
End example.

Print Assumptions mapor_nested_clock_pa.
Print Assumptions mapor_nested_clock_spec_pa.
Print Assumptions mapor_state_eq_pa.
Print Assumptions mapor_state_eq_causal_pa.
Print Assumptions mapor_entries_clean_pa.
Print Assumptions mapor_pending_empty_iff_pa.
Print Assumptions mapor_no_residue_pa.
Print Assumptions mapor_eq_example.
