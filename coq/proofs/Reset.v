(** Algebraic laws of [ResetRemove::reset_remove] ("forget exactly what the
    given clock covers") for the models of VClock, GCounter, PNCounter,
    MVReg, Orswot and the generic Map (at every nesting depth). *)
From Crdt Require Import model.Simple model.Map proofs.VClock.
From Coq Require Import ZifyBool ZifyN.

Local Open Scope N_scope.

(** * VClock *)
Lemma vreset_vreset a c1 c2 :
  vwf a → vreset (vreset a c1) c2 = vreset a (vmerge c1 c2).
Proof.
  intros Ha. apply vwf_ext; [by repeat apply vreset_wf..|].
  intros x. rewrite !vreset_get, vmerge_get.
  repeat case_match; lia.
Qed.
Lemma vreset_idem a c : vreset (vreset a c) c = vreset a c.
Proof.
  apply map_eq. intros x. rewrite !vreset_lookup.
  destruct (a !! x) as [n|], (c !! x) as [m|]; simpl; try done.
  destruct (n <=? m) eqn:E; simpl; [done|]. by rewrite E.
Qed.
Lemma vreset_self c : vreset c c = ∅.
Proof.
  apply map_eq. intros x. rewrite vreset_lookup, lookup_empty.
  destruct (c !! x); [by rewrite N.leb_refl|done].
Qed.
Lemma vreset_empty_left c : vreset ∅ c = ∅.
Proof. apply map_eq. intros x. by rewrite vreset_lookup, lookup_empty. Qed.
Lemma vreset_covered a c : vwf a → vleq a c → vreset a c = ∅.
Proof.
  intros Ha H. apply vwf_ext; [by apply vreset_wf|apply vwf_empty|].
  intros x. rewrite vreset_get, vget_empty. specialize (H x).
  case_match; lia.
Qed.
Lemma vreset_covered_inv a c : vreset a c = ∅ → vleq a c.
Proof.
  intros H x. assert (vget (vreset a c) x = 0) as Hx by (by rewrite H, vget_empty).
  rewrite vreset_get in Hx. case_match; lia.
Qed.
Lemma vreset_empty_iff a c : vwf a → (vreset a c = ∅ ↔ vleq a c).
Proof. intros Ha. split; [apply vreset_covered_inv|by apply vreset_covered]. Qed.
Lemma vreset_leq a c : vleq (vreset a c) a.
Proof. intros x. rewrite vreset_get. case_match; lia. Qed.
Lemma vreset_mono a b c : vleq a b → vleq (vreset a c) (vreset b c).
Proof.
  intros H x. rewrite !vreset_get. specialize (H x).
  repeat case_match; lia.
Qed.
Lemma vreset_comm a c1 c2 :
  vwf a → vreset (vreset a c1) c2 = vreset (vreset a c2) c1.
Proof.
  intros Ha. apply vwf_ext; [by repeat apply vreset_wf..|].
  intros x. rewrite !vreset_get. repeat case_match; lia.
Qed.
Lemma vreset_vmerge a b c :
  vwf a → vwf b → vreset (vmerge a b) c = vmerge (vreset a c) (vreset b c).
Proof.
  intros Ha Hb. apply vwf_ext; [by apply vreset_wf, vmerge_wf|by apply vmerge_wf; apply vreset_wf|].
  intros x. rewrite !vmerge_get, !vreset_get, !vmerge_get.
  repeat case_match; lia.
Qed.
Lemma vleq_empty_min a : vleq ∅ a.
Proof. intros x. rewrite vget_empty. lia. Qed.
Lemma vleq_empty_inv a : vwf a → vleq a ∅ → a = ∅.
Proof. intros Ha H. apply vleq_antisym; [done|apply vwf_empty|done|apply vleq_empty_min]. Qed.

Theorem reset_vclock_laws (a c c1 c2 : gmap N N) :
  vwf a →
  (* (a) *) (∀ x, vget (vreset a c) x = if vget a x <=? vget c x then 0 else vget a x) ∧
            (vreset a c = ∅ ↔ vleq a c) ∧
  (* (b) *) vreset a ∅ = a ∧
  (* (c) *) vreset (vreset a c1) c2 = vreset a (vmerge c1 c2) ∧
            vreset (vreset a c1) c2 = vreset (vreset a c2) c1 ∧
  (* (d) *) vreset (vreset a c) c = vreset a c ∧
  (* (e) *) vreset a a = ∅ ∧
  (* (f) *) vwf (vreset a c).
Proof.
  intros Ha. split_and!.
  - apply vreset_get.
  - by apply vreset_empty_iff.
  - apply vreset_empty_r.
  - by apply vreset_vreset.
  - by apply vreset_comm.
  - apply vreset_idem.
  - apply vreset_self.
  - by apply vreset_wf.
Qed.

(** (c) needs "no stored zero" (in the state or in the second clock). *)
Example vreset_vreset_needs_wf :
  let a : gmap N N := {[ 1 := 0 ]} in let c2 : gmap N N := {[ 1 := 0 ]} in
  vreset (vreset a ∅) c2 = ∅ ∧ vreset a (vmerge ∅ c2) = a ∧ a ≠ ∅.
Proof. cbv zeta. apply (bool_decide_unpack _). by vm_compute. Qed.

(** * GCounter, PNCounter *)
Theorem reset_gcounter_laws (a c c1 c2 : gmap N N) :
  vwf a →
  (∀ x, vget (gc_reset a c) x = if vget a x <=? vget c x then 0 else vget a x) ∧
  (gc_reset a c = ∅ ↔ vleq a c) ∧
  gc_reset a ∅ = a ∧
  gc_reset (gc_reset a c1) c2 = gc_reset a (vmerge c1 c2) ∧
  gc_reset (gc_reset a c1) c2 = gc_reset (gc_reset a c2) c1 ∧
  gc_reset (gc_reset a c) c = gc_reset a c ∧
  gc_reset a a = ∅ ∧
  vwf (gc_reset a c).
Proof. apply reset_vclock_laws. Qed.

Definition pnwf (s : pncounter) : Prop := vwf (pn_p s) ∧ vwf (pn_n s).

Theorem reset_pncounter_laws (s : pncounter) (c c1 c2 : gmap N N) :
  pnwf s →
  (* (a) *) (∀ x, vget (pn_p (pn_reset s c)) x = if vget (pn_p s) x <=? vget c x then 0 else vget (pn_p s) x) ∧
            (∀ x, vget (pn_n (pn_reset s c)) x = if vget (pn_n s) x <=? vget c x then 0 else vget (pn_n s) x) ∧
  (* (b) *) pn_reset s ∅ = s ∧
  (* (c) *) pn_reset (pn_reset s c1) c2 = pn_reset s (vmerge c1 c2) ∧
  (* (d) *) pn_reset (pn_reset s c) c = pn_reset s c ∧
  (* (e) *) pn_reset s (vmerge (pn_p s) (pn_n s)) = pn_new ∧
  (* (f) *) pnwf (pn_reset s c).
Proof.
  destruct s as [p n]. intros [Hp Hn]. simpl in *. unfold pn_reset, gc_reset, pn_new. simpl.
  split_and!.
  - apply vreset_get.
  - apply vreset_get.
  - by rewrite !vreset_empty_r.
  - by rewrite !vreset_vreset.
  - by rewrite !vreset_idem.
  - f_equal; apply vreset_covered; auto using vmerge_ub_l, vmerge_ub_r.
  - split; by apply vreset_wf.
Qed.

(** * One witness clock: subtract, prune when emptied *)
Definition wreset (k c : gmap N N) : option (gmap N N) :=
  let k' := vreset k c in if vis_empty k' then None else Some k'.

Lemma wreset_Some k c k' : wreset k c = Some k' ↔ k' = vreset k c ∧ k' ≠ ∅.
Proof.
  unfold wreset, vis_empty. simpl. case_bool_decide as E.
  - split; [done|]. intros [-> ?]. done.
  - split; [by intros [= <-]|]. by intros [-> _].
Qed.
Lemma wreset_None k c : wreset k c = None ↔ vreset k c = ∅.
Proof. unfold wreset, vis_empty. simpl. case_bool_decide; split; done. Qed.
Lemma wreset_Some_wf k c k' :
  vwf k → (wreset k c = Some k' ↔ ¬ vleq k c ∧ k' = vreset k c).
Proof.
  intros Hk. rewrite wreset_Some, <- (vreset_empty_iff k c Hk).
  split; [by intros [-> ?]|by intros [? ->]].
Qed.
Lemma wreset_None_wf k c : vwf k → (wreset k c = None ↔ vleq k c).
Proof. intros Hk. by rewrite wreset_None, vreset_empty_iff. Qed.
Lemma wreset_empty k : k ≠ ∅ → wreset k ∅ = Some k.
Proof. intros. apply wreset_Some. by rewrite vreset_empty_r. Qed.
Lemma wreset_wreset k c1 c2 :
  vwf k → wreset k c1 ≫= (λ k', wreset k' c2) = wreset k (vmerge c1 c2).
Proof.
  intros Hk. destruct (wreset k c1) as [k1|] eqn:E; simpl.
  - apply wreset_Some in E as [-> _]. unfold wreset. simpl. by rewrite vreset_vreset.
  - apply wreset_None in E. symmetry. apply wreset_None.
    by rewrite <- vreset_vreset, E, vreset_empty_left.
Qed.
Lemma wreset_idem k c : wreset k c ≫= (λ k', wreset k' c) = wreset k c.
Proof.
  destruct (wreset k c) as [k1|] eqn:E; simpl; [|done].
  apply wreset_Some in E as [-> ?]. apply wreset_Some. by rewrite vreset_idem.
Qed.
Lemma wreset_wf k c k' : vwf k → wreset k c = Some k' → vwf k' ∧ k' ≠ ∅.
Proof. intros Hk [-> ?]%wreset_Some. split; [by apply vreset_wf|done]. Qed.

(** * The pending-remove table (shared by Orswot and Map) *)
Section deferred.
  Implicit Types (df : gmap (gmap N N) (gset N)) (c k : gmap N N).

  (** Two tables are equal when they have the same keys and the same
      members under every key (member sets may be empty). *)
  Lemma dtbl_ext df1 df2 :
    (∀ k, is_Some (df1 !! k) ↔ is_Some (df2 !! k)) →
    (∀ k m, m ∈ default ∅ (df1 !! k) ↔ m ∈ default ∅ (df2 !! k)) →
    df1 = df2.
  Proof.
    intros Hd Hm. apply map_eq. intros k. specialize (Hd k). specialize (Hm k).
    destruct (df1 !! k) as [s1|], (df2 !! k) as [s2|]; simpl in *.
    - f_equal. apply set_eq. done.
    - destruct Hd as [Hd _]. by destruct Hd.
    - destruct Hd as [_ Hd]. by destruct Hd.
    - done.
  Qed.

  Lemma oreset_deferred_dom df c k :
    is_Some (oreset_deferred df c !! k) ↔
    k ≠ ∅ ∧ ∃ k0, is_Some (df !! k0) ∧ vreset k0 c = k.
  Proof.
    unfold oreset_deferred. revert k.
    apply (map_fold_ind (λ r (df : gmap (gmap N N) (gset N)), ∀ k,
      is_Some (r !! k) ↔ k ≠ ∅ ∧ ∃ k0, is_Some (df !! k0) ∧ vreset k0 c = k)).
    { intros k. rewrite lookup_empty. split; [by intros []|].
      intros [_ (k0 & H & _)]. rewrite lookup_empty in H. by destruct H. }
    intros i ms df' r Hi IH k. simpl. unfold vis_empty. case_bool_decide as E.
    - rewrite IH. split; intros [Hk (k0 & H0 & Hr)]; (split; [done|]); exists k0.
      + split; [|done]. rewrite lookup_insert_ne; [done|]. intros <-. rewrite Hi in H0. by destruct H0.
      + split; [|done]. rewrite lookup_insert_ne in H0; [done|]. intros <-. congruence.
    - destruct (decide (k = vreset i c)) as [->|Hne].
      + rewrite lookup_insert. split; [|by eauto]. intros _. split; [done|].
        exists i. by rewrite lookup_insert.
      + rewrite lookup_insert_ne by done. rewrite IH.
        split; intros [Hk (k0 & H0 & Hr)]; (split; [done|]); exists k0.
        * split; [|done]. rewrite lookup_insert_ne; [done|]. intros <-. rewrite Hi in H0. by destruct H0.
        * split; [|done]. rewrite lookup_insert_ne in H0; [done|]. intros <-. congruence.
  Qed.

  Lemma oreset_deferred_mem df c k m :
    m ∈ default ∅ (oreset_deferred df c !! k) ↔
    k ≠ ∅ ∧ ∃ k0 ms, df !! k0 = Some ms ∧ m ∈ ms ∧ vreset k0 c = k.
  Proof.
    unfold oreset_deferred. revert k.
    apply (map_fold_ind (λ r (df : gmap (gmap N N) (gset N)), ∀ k,
      m ∈ default ∅ (r !! k) ↔
      k ≠ ∅ ∧ ∃ k0 ms, df !! k0 = Some ms ∧ m ∈ ms ∧ vreset k0 c = k)).
    { intros k. rewrite lookup_empty. simpl. split; [set_solver|].
      intros [_ (k0 & ms & H & _)]. by rewrite lookup_empty in H. }
    intros i ms df' r Hi IH k. simpl. unfold vis_empty. case_bool_decide as E.
    - rewrite IH. split; intros [Hk (k0 & ms0 & H0 & Hm & Hr)]; (split; [done|]); exists k0, ms0.
      + split_and!; [|done..]. rewrite lookup_insert_ne; [done|]. intros <-. congruence.
      + split_and!; [|done..]. rewrite lookup_insert_ne in H0; [done|]. intros <-. congruence.
    - destruct (decide (k = vreset i c)) as [->|Hne].
      + rewrite lookup_insert. simpl. rewrite elem_of_union, IH. split.
        * intros [[_ (k0 & ms0 & H0 & Hm & Hr)]|Hm]; (split; [done|]).
          -- exists k0, ms0. split_and!; [|done..]. rewrite lookup_insert_ne; [done|]. intros <-. congruence.
          -- exists i, ms. by rewrite lookup_insert.
        * intros [_ (k0 & ms0 & H0 & Hm & Hr)].
          destruct (decide (k0 = i)) as [->|Hne].
          -- rewrite lookup_insert in H0. injection H0 as <-. by right.
          -- rewrite lookup_insert_ne in H0 by done. left. split; [done|]. by exists k0, ms0.
      + rewrite lookup_insert_ne by done. rewrite IH.
        split; intros [Hk (k0 & ms0 & H0 & Hm & Hr)]; (split; [done|]); exists k0, ms0.
        * split_and!; [|done..]. rewrite lookup_insert_ne; [done|]. intros <-. congruence.
        * split_and!; [|done..]. rewrite lookup_insert_ne in H0; [done|]. intros <-. congruence.
  Qed.

  (** Well-formedness of a table: keys have no stored zero and are non-empty. *)
  Definition dwf df : Prop := ∀ k ms, df !! k = Some ms → vwf k ∧ k ≠ ∅.

  Lemma dreset_empty df :
    (∀ k ms, df !! k = Some ms → k ≠ ∅) → oreset_deferred df ∅ = df.
  Proof.
    intros Hne. apply dtbl_ext.
    - intros k. rewrite oreset_deferred_dom. split.
      + intros [_ (k0 & H & <-)]. by rewrite vreset_empty_r.
      + intros [ms H]. split; [by eapply Hne|]. exists k. by rewrite H, vreset_empty_r.
    - intros k m. rewrite oreset_deferred_mem. split.
      + intros [_ (k0 & ms & H & Hm & <-)]. by rewrite vreset_empty_r, H.
      + destruct (df !! k) as [ms|] eqn:H; simpl; [|set_solver]. intros Hm.
        split; [by eapply Hne|]. exists k, ms. by rewrite vreset_empty_r.
  Qed.

  Lemma dreset_dreset df c1 c2 :
    (∀ k ms, df !! k = Some ms → vwf k) →
    oreset_deferred (oreset_deferred df c1) c2 = oreset_deferred df (vmerge c1 c2).
  Proof.
    intros Hwf. apply dtbl_ext.
    - intros k. rewrite !oreset_deferred_dom. split.
      + intros [Hk (k1 & H1 & <-)]. apply oreset_deferred_dom in H1 as [_ (k0 & [ms H0] & <-)].
        split; [done|]. exists k0. split; [by eauto|]. symmetry. apply vreset_vreset. by eapply Hwf.
      + intros [Hk (k0 & [ms H0] & <-)]. split; [done|]. exists (vreset k0 c1).
        rewrite vreset_vreset by (by eapply Hwf). split; [|done].
        apply oreset_deferred_dom. split; [|by eauto].
        intros E. apply Hk. by rewrite <- vreset_vreset, E, vreset_empty_left by (by eapply Hwf).
    - intros k m. rewrite !oreset_deferred_mem. split.
      + intros [Hk (k1 & ms1 & H1 & Hm & <-)].
        assert (m ∈ default ∅ (oreset_deferred df c1 !! k1)) as Hm1 by (by rewrite H1).
        apply oreset_deferred_mem in Hm1 as [_ (k0 & ms & H0 & Hm0 & <-)].
        split; [done|]. exists k0, ms. split_and!; [done..|]. symmetry. apply vreset_vreset. by eapply Hwf.
      + intros [Hk (k0 & ms & H0 & Hm & <-)]. split; [done|].
        assert (m ∈ default ∅ (oreset_deferred df c1 !! vreset k0 c1)) as Hm1.
        { apply oreset_deferred_mem. split; [|by eauto 6].
          intros E. apply Hk. by rewrite <- vreset_vreset, E, vreset_empty_left by (by eapply Hwf). }
        destruct (oreset_deferred df c1 !! vreset k0 c1) as [ms1|] eqn:H1; simpl in Hm1; [|set_solver].
        exists (vreset k0 c1), ms1. split_and!; [done..|]. apply vreset_vreset. by eapply Hwf.
  Qed.

  Lemma dreset_idem df c :
    oreset_deferred (oreset_deferred df c) c = oreset_deferred df c.
  Proof.
    apply dtbl_ext.
    - intros k. rewrite oreset_deferred_dom. split.
      + intros [Hk (k1 & H1 & <-)]. pose proof H1 as H1'.
        apply oreset_deferred_dom in H1 as [_ (k0 & H0 & <-)]. by rewrite vreset_idem.
      + intros H. pose proof H as [Hk (k0 & H0 & <-)]%oreset_deferred_dom.
        split; [done|]. exists (vreset k0 c). by rewrite vreset_idem.
    - intros k m. rewrite oreset_deferred_mem. split.
      + intros [Hk (k1 & ms1 & H1 & Hm & <-)].
        assert (m ∈ default ∅ (oreset_deferred df c !! k1)) as Hm1 by (by rewrite H1).
        pose proof Hm1 as [_ (k0 & ms & H0 & Hm0 & <-)]%oreset_deferred_mem.
        by rewrite vreset_idem.
      + intros H. pose proof H as [Hk (k0 & ms0 & H0 & Hm0 & <-)]%oreset_deferred_mem.
        split; [done|].
        destruct (oreset_deferred df c !! vreset k0 c) as [ms1|] eqn:H1; simpl in H; [|set_solver].
        exists (vreset k0 c), ms1. by rewrite vreset_idem.
  Qed.

  Lemma dreset_wf df c :
    (∀ k ms, df !! k = Some ms → vwf k) → dwf (oreset_deferred df c).
  Proof.
    intros Hwf k ms H. assert (is_Some (oreset_deferred df c !! k)) as Hs by eauto.
    apply oreset_deferred_dom in Hs as [Hk (k0 & [ms0 H0] & <-)].
    split; [|done]. apply vreset_wf. by eapply Hwf.
  Qed.

  (** The table is emptied exactly when every pending clock is covered. *)
  Lemma dreset_covered df c :
    (∀ k ms, df !! k = Some ms → vwf k) →
    (oreset_deferred df c = ∅ ↔ ∀ k ms, df !! k = Some ms → vleq k c).
  Proof.
    intros Hwf. split.
    - intros E k ms H. apply vreset_covered_inv.
      destruct (decide (vreset k c = ∅)) as [|Hne]; [done|].
      assert (is_Some (oreset_deferred df c !! vreset k c)) as Hs.
      { apply oreset_deferred_dom. eauto. }
      rewrite E, lookup_empty in Hs. by destruct Hs.
    - intros H. apply map_eq. intros k. rewrite lookup_empty.
      apply eq_None_not_Some. intros [Hk (k0 & [ms H0] & <-)]%oreset_deferred_dom.
      apply Hk. apply vreset_covered; [by eapply Hwf|by eapply H].
  Qed.

  Lemma dreset_empty_tbl c : oreset_deferred ∅ c = ∅.
  Proof. done. Qed.
End deferred.

(** * MVReg *)
Definition mvwf (s : list (gmap N N * N)) : Prop :=
  Forall (λ p, vwf p.1 ∧ p.1 ≠ ∅) s.

Lemma mvreset_cons p s c :
  mvreset (p :: s) c =
    match wreset p.1 c with
    | Some k => (k, p.2) :: mvreset s c
    | None => mvreset s c
    end.
Proof. unfold mvreset, wreset. simpl. by destruct (vis_empty _). Qed.

Lemma mvreset_elem s c k v :
  Forall (λ p, vwf p.1) s →
  ((k, v) ∈ mvreset s c ↔ ∃ k0, (k0, v) ∈ s ∧ ¬ vleq k0 c ∧ k = vreset k0 c).
Proof.
  induction 1 as [|[k1 v1] s Hk1 Hs IH]; cbn [fst snd] in *.
  - split; [by intros ?%elem_of_nil|]. by intros (? & ?%elem_of_nil & _).
  - rewrite mvreset_cons. cbn [fst snd]. destruct (wreset k1 c) as [k'|] eqn:E.
    + apply wreset_Some_wf in E as [Hn ->]; [|done]. rewrite elem_of_cons, IH. split.
      * intros [[= -> ->]|(k0 & ? & ? & ?)]; [exists k1|exists k0]; rewrite elem_of_cons; eauto.
      * intros (k0 & [[= -> ->]|?]%elem_of_cons & ? & ->); eauto.
    + apply wreset_None_wf in E; [|done]. rewrite IH. split.
      * intros (k0 & ? & ? & ?). exists k0. rewrite elem_of_cons. eauto.
      * intros (k0 & [[= -> ->]|?]%elem_of_cons & ? & ->); [done|eauto].
Qed.

Lemma mvreset_empty s : Forall (λ p, p.1 ≠ ∅) s → mvreset s ∅ = s.
Proof.
  induction 1 as [|[k v] s Hk Hs IH]; [done|]. cbn [fst snd] in *.
  by rewrite mvreset_cons, wreset_empty, IH.
Qed.
Lemma mvreset_mvreset s c1 c2 :
  Forall (λ p, vwf p.1) s → mvreset (mvreset s c1) c2 = mvreset s (vmerge c1 c2).
Proof.
  induction 1 as [|[k v] s Hk Hs IH]; [done|]. cbn [fst snd] in *.
  rewrite !mvreset_cons. cbn [fst snd]. rewrite <- (wreset_wreset k c1 c2 Hk).
  destruct (wreset k c1) as [k1|]; cbn [mbind option_bind]; [|exact IH].
  rewrite mvreset_cons. cbn [fst snd]. by rewrite IH.
Qed.
Lemma mvreset_idem s c : mvreset (mvreset s c) c = mvreset s c.
Proof.
  induction s as [|[k v] s IH]; [done|].
  rewrite !mvreset_cons. cbn [fst snd]. pose proof (wreset_idem k c) as H.
  destruct (wreset k c) as [k1|]; cbn [mbind option_bind] in *; [|exact IH].
  rewrite mvreset_cons. cbn [fst snd]. by rewrite H, IH.
Qed.
Lemma mvreset_covered s c : Forall (λ p, vwf p.1 ∧ vleq p.1 c) s → mvreset s c = [].
Proof.
  induction 1 as [|[k v] s [Hk Hle] Hs IH]; [done|]. cbn [fst snd] in *.
  rewrite mvreset_cons. cbn [fst snd]. by rewrite (proj2 (wreset_None_wf k c Hk) Hle).
Qed.
Lemma mvreset_wf s c : Forall (λ p, vwf p.1) s → mvwf (mvreset s c).
Proof.
  induction 1 as [|[k v] s Hk Hs IH]; [constructor|]. cbn [fst snd] in *.
  rewrite mvreset_cons. cbn [fst snd]. destruct (wreset k c) as [k1|] eqn:E; [|done].
  constructor; [|done]. simpl. by eapply wreset_wf.
Qed.
Lemma mvwf_vwf s : mvwf s → Forall (λ p, vwf p.1) s.
Proof. intros H. eapply Forall_impl; [exact H|]. by intros ? [? _]. Qed.

Local Notation mvstep := (λ (acc : gmap N N) (p : gmap N N * N), vmerge acc p.1).
Lemma mvclock_fold_ub s acc :
  vleq acc (foldl mvstep acc s) ∧
  Forall (λ p, vleq p.1 (foldl mvstep acc s)) s.
Proof.
  revert acc. induction s as [|[k v] s IH]; intros acc; simpl.
  - split; [apply vleq_refl|constructor].
  - destruct (IH (vmerge acc k)) as [H1 H2]. split.
    + eapply vleq_trans; [apply vmerge_ub_l|done].
    + constructor; [|done]. simpl. eapply vleq_trans; [apply vmerge_ub_r|done].
Qed.
Lemma mvclock_ub_all s : Forall (λ p, vleq p.1 (mvclock s)) s.
Proof. apply mvclock_fold_ub. Qed.

(** The register's clock (the join of the value clocks) is reset too. *)
Lemma mvclock_fold_reset s c acc :
  vwf acc → Forall (λ p, vwf p.1) s →
  foldl mvstep (vreset acc c) (mvreset s c) =
  vreset (foldl mvstep acc s) c.
Proof.
  intros Hacc Hs. revert acc Hacc. induction Hs as [|[k v] s Hk Hs IH]; intros acc Hacc; [done|].
  cbn [fst snd] in *. rewrite mvreset_cons. cbn [fst snd].
  change (foldl mvstep acc ((k, v) :: s)) with (foldl mvstep (vmerge acc k) s).
  rewrite <- IH by (by apply vmerge_wf). rewrite vreset_vmerge by done.
  destruct (wreset k c) as [k1|] eqn:E.
  - apply wreset_Some in E as [-> _]. done.
  - apply wreset_None in E. by rewrite E, vmerge_empty_r.
Qed.
Lemma mvclock_mvreset s c :
  Forall (λ p, vwf p.1) s → mvclock (mvreset s c) = vreset (mvclock s) c.
Proof.
  intros Hs. unfold mvclock. rewrite <- (mvclock_fold_reset s c ∅ vwf_empty Hs).
  by rewrite vreset_empty_left.
Qed.

Theorem reset_mvreg_laws (s : list (gmap N N * N)) (c c1 c2 : gmap N N) :
  mvwf s →
  (* (a) *) (∀ k v, (k, v) ∈ mvreset s c ↔ ∃ k0, (k0, v) ∈ s ∧ ¬ vleq k0 c ∧ k = vreset k0 c) ∧
            mvclock (mvreset s c) = vreset (mvclock s) c ∧
  (* (b) *) mvreset s ∅ = s ∧
  (* (c) *) mvreset (mvreset s c1) c2 = mvreset s (vmerge c1 c2) ∧
  (* (d) *) mvreset (mvreset s c) c = mvreset s c ∧
  (* (e) *) mvreset s (mvclock s) = mvnew ∧
  (* (f) *) mvwf (mvreset s c).
Proof.
  intros Hs. pose proof (mvwf_vwf s Hs) as Hs'. split_and!.
  - intros k v. by apply mvreset_elem.
  - by apply mvclock_mvreset.
  - apply mvreset_empty. eapply Forall_impl; [exact Hs|]. by intros ? [_ ?].
  - by apply mvreset_mvreset.
  - apply mvreset_idem.
  - apply mvreset_covered. pose proof (mvclock_ub_all s) as Hub.
    apply Forall_and. done.
  - by apply mvreset_wf.
Qed.

(** Needed hypotheses: (b) needs non-empty value clocks, (c) and (e) need
    "no stored zero" in the value clocks. *)
Example mvreset_empty_needs_nonempty :
  let s : list (gmap N N * N) := [(∅, 5)] in mvreset s ∅ = [] ∧ s ≠ [].
Proof. cbv zeta. apply (bool_decide_unpack _). by vm_compute. Qed.
Example mvreset_mvreset_needs_wf :
  let s : list (gmap N N * N) := [({[ 1 := 0; 2 := 1 ]}, 5)] in
  let c2 : gmap N N := {[ 1 := 0 ]} in
  mvreset (mvreset s ∅) c2 = [({[ 2 := 1 ]}, 5)] ∧ mvreset s (vmerge ∅ c2) = s ∧
  s ≠ [({[ 2 := 1 ]}, 5)].
Proof. cbv zeta. apply (bool_decide_unpack _). by vm_compute. Qed.
Example mvreset_self_needs_wf :
  let s : list (gmap N N * N) := [({[ 1 := 0 ]}, 5)] in
  mvclock s = ∅ ∧ mvreset s (mvclock s) = s ∧ s ≠ [].
Proof. cbv zeta. apply (bool_decide_unpack _). by vm_compute. Qed.

(** * Entry tables of the Orswot: member ↦ witness clock *)
Section entries.
  Implicit Types (es : gmap N (gmap N N)) (c k : gmap N N).

  Definition ereset es c : gmap N (gmap N N) := map_imap (λ _ k, wreset k c) es.

  Lemma ereset_lookup es c m : ereset es c !! m = es !! m ≫= λ k, wreset k c.
  Proof. apply map_lookup_imap. Qed.
  Lemma ereset_lookup_Some es c m k :
    (∀ m k, es !! m = Some k → vwf k) →
    (ereset es c !! m = Some k ↔ ∃ k0, es !! m = Some k0 ∧ ¬ vleq k0 c ∧ k = vreset k0 c).
  Proof.
    intros Hwf. rewrite ereset_lookup. destruct (es !! m) as [k0|] eqn:E; simpl.
    - rewrite wreset_Some_wf by (by eapply Hwf). split; [by eauto|]. by intros (? & [= <-] & ?).
    - split; [done|]. by intros (? & ? & _).
  Qed.
  Lemma ereset_empty es : (∀ m k, es !! m = Some k → k ≠ ∅) → ereset es ∅ = es.
  Proof.
    intros Hne. apply map_eq. intros m. rewrite ereset_lookup.
    destruct (es !! m) as [k|] eqn:E; simpl; [|done]. apply wreset_empty. by eapply Hne.
  Qed.
  Lemma ereset_ereset es c1 c2 :
    (∀ m k, es !! m = Some k → vwf k) →
    ereset (ereset es c1) c2 = ereset es (vmerge c1 c2).
  Proof.
    intros Hwf. apply map_eq. intros m. rewrite !ereset_lookup.
    destruct (es !! m) as [k|] eqn:E; simpl; [|done]. apply wreset_wreset. by eapply Hwf.
  Qed.
  Lemma ereset_idem es c : ereset (ereset es c) c = ereset es c.
  Proof.
    apply map_eq. intros m. rewrite !ereset_lookup.
    destruct (es !! m) as [k|] eqn:E; simpl; [|done]. apply wreset_idem.
  Qed.
  Lemma ereset_covered es c :
    (∀ m k, es !! m = Some k → vwf k ∧ vleq k c) → ereset es c = ∅.
  Proof.
    intros H. apply map_eq. intros m. rewrite ereset_lookup, lookup_empty.
    destruct (es !! m) as [k|] eqn:E; simpl; [|done].
    destruct (H m k E). by apply wreset_None_wf.
  Qed.
End entries.

(** * Orswot *)
Definition orswot_wf (s : orswot) : Prop :=
  vwf (oclock s) ∧
  (∀ m k, oentries s !! m = Some k → vwf k ∧ k ≠ ∅ ∧ vleq k (oclock s)) ∧
  dwf (odeferred s).

Lemma oreset_unfold s c :
  oreset s c = Orswot (vreset (oclock s) c) (ereset (oentries s) c)
                      (oreset_deferred (odeferred s) c).
Proof. done. Qed.

(** Each law under the part of [orswot_wf] it really needs. *)
Lemma oreset_empty s :
  (∀ m k, oentries s !! m = Some k → k ≠ ∅) →
  (∀ k ms, odeferred s !! k = Some ms → k ≠ ∅) →
  oreset s ∅ = s.
Proof.
  intros He Hd. rewrite oreset_unfold, vreset_empty_r, ereset_empty, dreset_empty by done.
  by destruct s.
Qed.
Lemma oreset_oreset s c1 c2 :
  vwf (oclock s) →
  (∀ m k, oentries s !! m = Some k → vwf k) →
  (∀ k ms, odeferred s !! k = Some ms → vwf k) →
  oreset (oreset s c1) c2 = oreset s (vmerge c1 c2).
Proof.
  intros Hc He Hd. rewrite !oreset_unfold. simpl.
  by rewrite vreset_vreset, ereset_ereset, dreset_dreset.
Qed.
Lemma oreset_idem s c : oreset (oreset s c) c = oreset s c.
Proof. rewrite !oreset_unfold. simpl. by rewrite vreset_idem, ereset_idem, dreset_idem. Qed.
Lemma oreset_self s :
  (∀ m k, oentries s !! m = Some k → vwf k ∧ vleq k (oclock s)) →
  oreset s (oclock s) = Orswot ∅ ∅ (oreset_deferred (odeferred s) (oclock s)).
Proof. intros He. by rewrite oreset_unfold, vreset_self, ereset_covered. Qed.
Lemma oreset_wf s c : orswot_wf s → orswot_wf (oreset s c).
Proof.
  intros (Hc & He & Hd). rewrite oreset_unfold. split_and!; simpl.
  - by apply vreset_wf.
  - intros m k. rewrite ereset_lookup. destruct (oentries s !! m) as [k0|] eqn:E; simpl; [|done].
    destruct (He m k0 E) as (Hk0 & _ & Hle). intros Hk.
    destruct (wreset_wf _ _ _ Hk0 Hk). apply wreset_Some in Hk as [-> _].
    split_and!; [done..|]. by apply vreset_mono.
  - apply dreset_wf. intros k ms H. by destruct (Hd k ms H).
Qed.

Theorem reset_orswot_laws (s : orswot) (c c1 c2 : gmap N N) :
  orswot_wf s →
  (* (a) *) oclock (oreset s c) = vreset (oclock s) c ∧
            (∀ m k, oentries (oreset s c) !! m = Some k ↔
                    ∃ k0, oentries s !! m = Some k0 ∧ ¬ vleq k0 c ∧ k = vreset k0 c) ∧
            (∀ k, is_Some (odeferred (oreset s c) !! k) ↔
                  k ≠ ∅ ∧ ∃ k0, is_Some (odeferred s !! k0) ∧ vreset k0 c = k) ∧
            (∀ k m, m ∈ default ∅ (odeferred (oreset s c) !! k) ↔
                    k ≠ ∅ ∧ ∃ k0 ms, odeferred s !! k0 = Some ms ∧ m ∈ ms ∧ vreset k0 c = k) ∧
  (* (b) *) oreset s ∅ = s ∧
  (* (c) *) oreset (oreset s c1) c2 = oreset s (vmerge c1 c2) ∧
  (* (d) *) oreset (oreset s c) c = oreset s c ∧
  (* (e) *) oreset s (oclock s) = Orswot ∅ ∅ (oreset_deferred (odeferred s) (oclock s)) ∧
            (oreset s (oclock s) = onew ↔
             ∀ k ms, odeferred s !! k = Some ms → vleq k (oclock s)) ∧
            (odeferred s = ∅ → oreset s (oclock s) = onew) ∧
  (* (f) *) orswot_wf (oreset s c).
Proof.
  intros Hs. pose proof Hs as (Hc & He & Hd).
  assert (∀ m k, oentries s !! m = Some k → vwf k) as He1.
  { intros m k H. by destruct (He m k H). }
  assert (∀ k ms, odeferred s !! k = Some ms → vwf k) as Hd1.
  { intros k ms H. by destruct (Hd k ms H). }
  assert (oreset s (oclock s) = Orswot ∅ ∅ (oreset_deferred (odeferred s) (oclock s))) as Hself.
  { apply oreset_self. intros m k H. by destruct (He m k H) as (? & _ & ?). }
  split_and!.
  - done.
  - intros m k. by apply ereset_lookup_Some.
  - intros k. apply oreset_deferred_dom.
  - intros k m. apply oreset_deferred_mem.
  - apply oreset_empty.
    + intros m k H. by destruct (He m k H) as (_ & ? & _).
    + intros k ms H. by destruct (Hd k ms H).
  - by apply oreset_oreset.
  - apply oreset_idem.
  - done.
  - rewrite Hself, <- (dreset_covered _ _ Hd1). unfold onew. split; [by intros [= ->]|by intros ->].
  - intros E. by rewrite Hself, E.
  - by apply oreset_wf.
Qed.

(** Needed hypotheses, one counterexample each.
    (b) needs non-empty entry clocks and non-empty pending clocks;
    (c) needs "no stored zero" in the set clock, the entry clocks and the
        pending clocks;
    (e) needs entry clocks without stored zero and below the set clock. *)
Example oreset_empty_needs_entry_nonempty :
  let s := Orswot ∅ {[ 5 := ∅ ]} ∅ in oreset s ∅ = onew ∧ s ≠ onew.
Proof. cbv zeta. apply (bool_decide_unpack _). by vm_compute. Qed.
Example oreset_empty_needs_deferred_nonempty :
  let s := Orswot ∅ ∅ {[ ∅ := {[ 7 ]} ]} in oreset s ∅ = onew ∧ s ≠ onew.
Proof. cbv zeta. apply (bool_decide_unpack _). by vm_compute. Qed.
Example oreset_oreset_needs_clock_wf :
  let s := Orswot {[ 1 := 0 ]} ∅ ∅ in let c2 : gmap N N := {[ 1 := 0 ]} in
  oreset (oreset s ∅) c2 = onew ∧ oreset s (vmerge ∅ c2) = s ∧ s ≠ onew.
Proof. cbv zeta. apply (bool_decide_unpack _). by vm_compute. Qed.
Example oreset_oreset_needs_entry_wf :
  let s := Orswot ∅ {[ 5 := {[ 1 := 0; 2 := 1 ]} ]} ∅ in let c2 : gmap N N := {[ 1 := 0 ]} in
  oreset (oreset s ∅) c2 = Orswot ∅ {[ 5 := {[ 2 := 1 ]} ]} ∅ ∧
  oreset s (vmerge ∅ c2) = s ∧ s ≠ Orswot ∅ {[ 5 := {[ 2 := 1 ]} ]} ∅.
Proof. cbv zeta. apply (bool_decide_unpack _). by vm_compute. Qed.
Example oreset_oreset_needs_deferred_wf :
  let s := Orswot ∅ ∅ {[ {[ 1 := 0; 2 := 1 ]} := {[ 7 ]} ]} in let c2 : gmap N N := {[ 1 := 0 ]} in
  oreset (oreset s ∅) c2 = Orswot ∅ ∅ {[ {[ 2 := 1 ]} := {[ 7 ]} ]} ∧
  oreset s (vmerge ∅ c2) = s ∧ s ≠ Orswot ∅ ∅ {[ {[ 2 := 1 ]} := {[ 7 ]} ]}.
Proof. cbv zeta. apply (bool_decide_unpack _). by vm_compute. Qed.
Example oreset_self_needs_entry_below_clock :
  let s := Orswot {[ 1 := 1 ]} {[ 5 := {[ 1 := 2 ]} ]} ∅ in
  oreset s (oclock s) = Orswot ∅ {[ 5 := {[ 1 := 2 ]} ]} ∅.
Proof. cbv zeta. apply (bool_decide_unpack _). by vm_compute. Qed.
Example oreset_self_needs_entry_wf :
  let s := Orswot ∅ {[ 5 := {[ 1 := 0 ]} ]} ∅ in
  oreset s (oclock s) = s ∧ s ≠ onew.
Proof. cbv zeta. apply (bool_decide_unpack _). by vm_compute. Qed.

(** * Map, generic in the nested value type *)
Section map_reset.
  Context {V O E : Type} (vo : valops V O E) (P : V → Prop).

  (** What the laws of [mreset] need from the nested [reset_remove]
      ((d) follows from (c) because [vmerge c c = c]). *)
  Record reset_ok : Prop := ResetOk {
    rok_empty : ∀ v, P v → v_reset vo v ∅ = v;
    rok_comp : ∀ v c1 c2, P v →
      v_reset vo (v_reset vo v c1) c2 = v_reset vo v (vmerge c1 c2);
    rok_wf : ∀ v c, P v → P (v_reset vo v c) }.

  Definition mwf (s : cmap V) : Prop :=
    vwf (mclock s) ∧
    (∀ k e, mentries s !! k = Some e →
       vwf (eclock e) ∧ eclock e ≠ ∅ ∧ vleq (eclock e) (mclock s) ∧ P (eval e)) ∧
    dwf (mdeferred s).

  Definition mereset (e : mentry V) (c : gmap N N) : option (mentry V) :=
    (λ ec, MEntry ec (v_reset vo (eval e) c)) <$> wreset (eclock e) c.

  Lemma mreset_lookup s c k :
    mentries (mreset vo s c) !! k = mentries s !! k ≫= λ e, mereset e c.
  Proof.
    unfold mreset. cbn [mentries]. rewrite map_lookup_imap.
    destruct (mentries s !! k) as [e|]; simpl; [|done].
    unfold mereset, wreset. simpl. by destruct (vis_empty _).
  Qed.

  Lemma mreset_lookup_Some s c k e' :
    (∀ k e, mentries s !! k = Some e → vwf (eclock e)) →
    (mentries (mreset vo s c) !! k = Some e' ↔
     ∃ e, mentries s !! k = Some e ∧ ¬ vleq (eclock e) c ∧
          e' = MEntry (vreset (eclock e) c) (v_reset vo (eval e) c)).
  Proof.
    intros Hwf. rewrite mreset_lookup. destruct (mentries s !! k) as [e|] eqn:He; simpl.
    - unfold mereset. split.
      + destruct (wreset (eclock e) c) as [ec|] eqn:Ew; simpl; [|done]. intros [= <-].
        apply wreset_Some_wf in Ew as [? ->]; [|by eapply Hwf]. eauto.
      + intros (e0 & [= <-] & Hn & ->).
        assert (wreset (eclock e) c = Some (vreset (eclock e) c)) as ->; [|done].
        apply wreset_Some_wf; [by eapply Hwf|done].
    - split; [done|]. by intros (? & ? & _).
  Qed.

  Lemma mereset_empty e : eclock e ≠ ∅ → P (eval e) → reset_ok → mereset e ∅ = Some e.
  Proof.
    intros Hne Hp Hok. unfold mereset. rewrite wreset_empty by done. simpl.
    rewrite (rok_empty Hok) by done. by destruct e.
  Qed.
  Lemma mereset_mereset e c1 c2 :
    vwf (eclock e) → P (eval e) → reset_ok →
    mereset e c1 ≫= (λ e', mereset e' c2) = mereset e (vmerge c1 c2).
  Proof.
    intros Hwf Hp Hok. unfold mereset. rewrite <- (wreset_wreset _ c1 c2 Hwf).
    destruct (wreset (eclock e) c1) as [ec|]; simpl; [|done].
    by rewrite (rok_comp Hok).
  Qed.

  Lemma mreset_empty s : reset_ok → mwf s → mreset vo s ∅ = s.
  Proof.
    intros Hok (Hc & He & Hd).
    assert (mentries (mreset vo s ∅) = mentries s) as Hes.
    { apply map_eq. intros k. rewrite mreset_lookup.
      destruct (mentries s !! k) as [e|] eqn:Hlk; simpl; [|done].
      destruct (He k e Hlk) as (? & ? & ? & ?). by apply mereset_empty. }
    destruct s as [cl es df]. unfold mreset in *. simpl in *.
    rewrite Hes, vreset_empty_r, dreset_empty; [done|].
    intros k ms H. by destruct (Hd k ms H).
  Qed.
  Lemma mreset_mreset s c1 c2 :
    reset_ok → mwf s → mreset vo (mreset vo s c1) c2 = mreset vo s (vmerge c1 c2).
  Proof.
    intros Hok (Hc & He & Hd).
    assert (mentries (mreset vo (mreset vo s c1) c2) = mentries (mreset vo s (vmerge c1 c2))) as Hes.
    { apply map_eq. intros k. rewrite !mreset_lookup.
      destruct (mentries s !! k) as [e|] eqn:Hlk; simpl; [|done].
      destruct (He k e Hlk) as (? & ? & ? & ?). by apply mereset_mereset. }
    unfold mreset in *. simpl in *. rewrite Hes, vreset_vreset, dreset_dreset; [done| |done].
    intros k ms H. by destruct (Hd k ms H).
  Qed.
  Lemma mreset_wf s c : reset_ok → mwf s → mwf (mreset vo s c).
  Proof.
    intros Hok (Hc & He & Hd). split_and!.
    - by apply vreset_wf.
    - intros k e'. rewrite mreset_lookup.
      destruct (mentries s !! k) as [e|] eqn:Hlk; simpl; [|done].
      destruct (He k e Hlk) as (Hwf & _ & Hle & Hp). unfold mereset.
      destruct (wreset (eclock e) c) as [ec|] eqn:Ew; simpl; [|done]. intros [= <-]. simpl.
      destruct (wreset_wf _ _ _ Hwf Ew). apply wreset_Some in Ew as [-> _].
      split_and!; [done..| |by apply (rok_wf Hok)]. by apply vreset_mono.
    - apply dreset_wf. intros k ms H. by destruct (Hd k ms H).
  Qed.
  Lemma mreset_idem s c : reset_ok → mwf s → mreset vo (mreset vo s c) c = mreset vo s c.
  Proof. intros Hok Hs. by rewrite mreset_mreset, vmerge_idem. Qed.
  Lemma mreset_self s :
    mwf s → mreset vo s (mclock s) = CMap ∅ ∅ (oreset_deferred (mdeferred s) (mclock s)).
  Proof.
    intros (Hc & He & Hd).
    assert (mentries (mreset vo s (mclock s)) = ∅) as Hes.
    { apply map_eq. intros k. rewrite mreset_lookup, lookup_empty.
      destruct (mentries s !! k) as [e|] eqn:Hlk; simpl; [|done].
      destruct (He k e Hlk) as (Hwf & _ & Hle & _). unfold mereset.
      by rewrite (proj2 (wreset_None_wf _ _ Hwf) Hle). }
    unfold mreset in *. simpl in *. by rewrite Hes, vreset_self.
  Qed.

  Definition map_reset_laws (s : cmap V) (c c1 c2 : gmap N N) : Prop :=
    (* (a) *) mclock (mreset vo s c) = vreset (mclock s) c ∧
              (∀ k e', mentries (mreset vo s c) !! k = Some e' ↔
                 ∃ e, mentries s !! k = Some e ∧ ¬ vleq (eclock e) c ∧
                      e' = MEntry (vreset (eclock e) c) (v_reset vo (eval e) c)) ∧
              (∀ k, is_Some (mdeferred (mreset vo s c) !! k) ↔
                    k ≠ ∅ ∧ ∃ k0, is_Some (mdeferred s !! k0) ∧ vreset k0 c = k) ∧
              (∀ k m, m ∈ default ∅ (mdeferred (mreset vo s c) !! k) ↔
                      k ≠ ∅ ∧ ∃ k0 ms, mdeferred s !! k0 = Some ms ∧ m ∈ ms ∧ vreset k0 c = k) ∧
    (* (b) *) mreset vo s ∅ = s ∧
    (* (c) *) mreset vo (mreset vo s c1) c2 = mreset vo s (vmerge c1 c2) ∧
    (* (d) *) mreset vo (mreset vo s c) c = mreset vo s c ∧
    (* (e) *) mreset vo s (mclock s) = CMap ∅ ∅ (oreset_deferred (mdeferred s) (mclock s)) ∧
              (mreset vo s (mclock s) = mnew ↔
               ∀ k ms, mdeferred s !! k = Some ms → vleq k (mclock s)) ∧
              (mdeferred s = ∅ → mreset vo s (mclock s) = mnew) ∧
    (* (f) *) mwf (mreset vo s c).

  Theorem reset_map_laws s c c1 c2 : reset_ok → mwf s → map_reset_laws s c c1 c2.
  Proof.
    intros Hok Hs. pose proof Hs as (Hc & He & Hd).
    assert (∀ k ms, mdeferred s !! k = Some ms → vwf k) as Hd1.
    { intros k ms H. by destruct (Hd k ms H). }
    pose proof (mreset_self s Hs) as Hself.
    unfold map_reset_laws. split_and!.
    - done.
    - intros k e'. apply mreset_lookup_Some. intros k0 e H. by destruct (He k0 e H).
    - intros k. apply oreset_deferred_dom.
    - intros k m. apply oreset_deferred_mem.
    - by apply mreset_empty.
    - by apply mreset_mreset.
    - by apply mreset_idem.
    - done.
    - rewrite Hself, <- (dreset_covered _ _ Hd1). unfold mnew.
      split; [by intros [= ->]|by intros ->].
    - intros Hemp. by rewrite Hself, Hemp.
    - by apply mreset_wf.
  Qed.

  (** Nesting: the Map is again a value type whose [reset_remove]
      satisfies the assumptions, on well-formed maps. *)
  Theorem map_reset_ok : reset_ok → ∀ (vo' := map_valops vo),
    (∀ s, mwf s → v_reset vo' s ∅ = s) ∧
    (∀ s c1 c2, mwf s → v_reset vo' (v_reset vo' s c1) c2 = v_reset vo' s (vmerge c1 c2)) ∧
    (∀ s c, mwf s → mwf (v_reset vo' s c)).
  Proof.
    intros Hok vo'. split_and!; simpl.
    - intros. by apply mreset_empty.
    - intros. by apply mreset_mreset.
    - intros. by apply mreset_wf.
  Qed.

  (** A boolean form of [mwf] to evaluate on concrete states. *)
  Definition mwfb (Pb : V → bool) (s : cmap V) : bool :=
    vwfb (mclock s)
    && bool_decide (map_Forall (λ _ e,
         vwfb (eclock e) = true ∧ eclock e ≠ ∅ ∧ vdominates (mclock s) (eclock e) = true ∧
         Pb (eval e) = true) (mentries s))
    && bool_decide (map_Forall (λ (k : gmap N N) (_ : gset N), vwfb k = true ∧ k ≠ ∅) (mdeferred s)).
  Lemma mwfb_sound Pb s : (∀ v, Pb v = true → P v) → mwfb Pb s = true → mwf s.
  Proof.
    intros HP. unfold mwfb. rewrite !andb_true_iff, !bool_decide_eq_true, vwfb_spec.
    intros [[Hc He] Hd]. split_and!; [done|..].
    - intros k e H. destruct (He k e H) as (H1 & H2 & H3 & H4).
      split_and!; [by apply vwfb_spec|done|by apply vdom_true|by apply HP].
    - intros k ms H. destruct (Hd k ms H) as [H1 H2]. split; [by apply vwfb_spec|done].
  Qed.
End map_reset.

Lemma map_valops_reset_ok {V O E} (vo : valops V O E) (P : V → Prop) :
  reset_ok vo P → reset_ok (map_valops vo) (mwf P).
Proof.
  intros Hok. destruct (map_reset_ok vo P Hok) as (H1 & H2 & H3). by constructor.
Qed.

(** * Instances: leaves, Map of leaves, Map of Map *)
Lemma mvreg_reset_ok : reset_ok mvreg_valops mvwf.
Proof.
  constructor; simpl.
  - intros s Hs. apply mvreset_empty. eapply Forall_impl; [exact Hs|]. by intros ? [_ ?].
  - intros s c1 c2 Hs. by apply mvreset_mvreset, mvwf_vwf.
  - intros s c Hs. by apply mvreset_wf, mvwf_vwf.
Qed.
Lemma orswot_reset_ok : reset_ok orswot_valops orswot_wf.
Proof.
  constructor; simpl.
  - intros s Hs. by apply (reset_orswot_laws s ∅ ∅ ∅ Hs).
  - intros s c1 c2 Hs. by apply (reset_orswot_laws s ∅ c1 c2 Hs).
  - intros s c Hs. by apply oreset_wf.
Qed.

Theorem reset_mapmv_laws (s : cmap (list (gmap N N * N))) (c c1 c2 : gmap N N) :
  mwf mvwf s → map_reset_laws mvreg_valops mvwf s c c1 c2.
Proof. apply reset_map_laws, mvreg_reset_ok. Qed.
Theorem reset_mapor_laws (s : cmap orswot) (c c1 c2 : gmap N N) :
  mwf orswot_wf s → map_reset_laws orswot_valops orswot_wf s c c1 c2.
Proof. apply reset_map_laws, orswot_reset_ok. Qed.
Theorem reset_mapmm_laws (s : cmap (cmap (list (gmap N N * N)))) (c c1 c2 : gmap N N) :
  mwf (mwf mvwf) s → map_reset_laws (map_valops mvreg_valops) (mwf mvwf) s c c1 c2.
Proof. apply reset_map_laws, map_valops_reset_ok, mvreg_reset_ok. Qed.
Theorem reset_mapmo_laws (s : cmap (cmap orswot)) (c c1 c2 : gmap N N) :
  mwf (mwf orswot_wf) s → map_reset_laws (map_valops orswot_valops) (mwf orswot_wf) s c c1 c2.
Proof. apply reset_map_laws, map_valops_reset_ok, orswot_reset_ok. Qed.

(** * Non-vacuity: concrete well-formed states *)
Definition mvwfb (s : list (gmap N N * N)) : bool :=
  forallb (λ p, vwfb p.1 && negb (vis_empty p.1)) s.
Lemma mvwfb_sound s : mvwfb s = true → mvwf s.
Proof.
  unfold mvwfb, mvwf. rewrite forallb_forall, Forall_forall. intros H p Hp.
  apply elem_of_list_In, H, andb_true_iff in Hp as [H1 H2]. split; [by apply vwfb_spec|].
  intros E. apply negb_true_iff in H2. apply vis_empty_spec in E. congruence.
Qed.
Definition orswot_wfb (s : orswot) : bool :=
  vwfb (oclock s)
  && bool_decide (map_Forall (λ (_ : N) (k : gmap N N),
       vwfb k = true ∧ k ≠ ∅ ∧ vdominates (oclock s) k = true) (oentries s))
  && bool_decide (map_Forall (λ (k : gmap N N) (_ : gset N), vwfb k = true ∧ k ≠ ∅) (odeferred s)).
Lemma orswot_wfb_sound s : orswot_wfb s = true → orswot_wf s.
Proof.
  unfold orswot_wfb. rewrite !andb_true_iff, !bool_decide_eq_true, vwfb_spec.
  intros [[Hc He] Hd]. split_and!; [done|..].
  - intros m k H. destruct (He m k H) as (H1 & H2 & H3).
    split_and!; [by apply vwfb_spec|done|by apply vdom_true].
  - intros k ms H. destruct (Hd k ms H) as [H1 H2]. split; [by apply vwfb_spec|done].
Qed.

(** An Orswot with two members and two pending removes whose clocks
    collide once actor 1 is subtracted. *)
Definition ex_orswot : orswot :=
  Orswot {[ 1 := 1; 3 := 2 ]}
         {[ 7 := {[ 1 := 1 ]}; 9 := {[ 3 := 2 ]} ]}
         {[ ({[ 1 := 1; 2 := 2 ]} : gmap N N) := ({[ 7 ]} : gset N);
            ({[ 1 := 2; 2 := 2 ]} : gmap N N) := ({[ 9 ]} : gset N) ]}.
Example ex_orswot_wf : orswot_wf ex_orswot.
Proof. apply orswot_wfb_sound. by vm_compute. Qed.
Example ex_orswot_collide :
  (* concurrent clock: the two pending removes end up under the same clock *)
  oreset ex_orswot {[ 1 := 2 ]} =
    Orswot {[ 3 := 2 ]} {[ 9 := {[ 3 := 2 ]} ]}
           {[ ({[ 2 := 2 ]} : gmap N N) := ({[ 7; 9 ]} : gset N) ]} ∧
  (* clock below the state clock *)
  oreset ex_orswot {[ 3 := 1 ]} = ex_orswot ∧
  (* clock above everything *)
  oreset ex_orswot {[ 1 := 5; 2 := 5; 3 := 5 ]} = onew ∧
  (* the state's own clock: pending removes keep their uncovered part *)
  oreset ex_orswot (oclock ex_orswot) =
    Orswot ∅ ∅ {[ ({[ 2 := 2 ]} : gmap N N) := ({[ 7 ]} : gset N);
                  ({[ 1 := 2; 2 := 2 ]} : gmap N N) := ({[ 9 ]} : gset N) ]} ∧
  (* (c) on concrete clocks *)
  oreset (oreset ex_orswot {[ 1 := 1 ]}) {[ 2 := 2; 3 := 1 ]} =
    oreset ex_orswot {[ 1 := 1; 2 := 2; 3 := 1 ]}.
Proof. apply (bool_decide_unpack _). by vm_compute. Qed.

Definition ex_mv : list (gmap N N * N) := [({[ 1 := 1 ]}, 5); ({[ 2 := 1 ]}, 6)].
Example ex_mv_wf : mvwf ex_mv.
Proof. apply mvwfb_sound. by vm_compute. Qed.
Example ex_mv_reset :
  mvreset ex_mv {[ 1 := 1 ]} = [({[ 2 := 1 ]}, 6)] ∧ mvreset ex_mv (mvclock ex_mv) = [].
Proof. apply (bool_decide_unpack _). by vm_compute. Qed.

Definition ex_mapmv : cmap (list (gmap N N * N)) :=
  CMap {[ 1 := 2; 2 := 1 ]}
       {[ 10 := MEntry {[ 1 := 2 ]} [({[ 1 := 2 ]}, 100)];
          11 := MEntry {[ 1 := 1; 2 := 1 ]} ex_mv ]}
       {[ ({[ 1 := 3 ]} : gmap N N) := ({[ 10 ]} : gset N);
          ({[ 1 := 3; 2 := 1 ]} : gmap N N) := ({[ 11 ]} : gset N) ]}.
Example ex_mapmv_wf : mwf mvwf ex_mapmv.
Proof. apply (mwfb_sound mvwf mvwfb); [apply mvwfb_sound|by vm_compute]. Qed.
Example ex_mapmv_reset :
  mreset mvreg_valops ex_mapmv {[ 2 := 1 ]} =
    CMap {[ 1 := 2 ]}
         {[ 10 := MEntry {[ 1 := 2 ]} [({[ 1 := 2 ]}, 100)];
            11 := MEntry {[ 1 := 1 ]} [({[ 1 := 1 ]}, 5)] ]}
         {[ ({[ 1 := 3 ]} : gmap N N) := ({[ 10; 11 ]} : gset N) ]} ∧
  mreset mvreg_valops ex_mapmv (mclock ex_mapmv) =
    CMap ∅ ∅ {[ ({[ 1 := 3 ]} : gmap N N) := ({[ 10; 11 ]} : gset N) ]}.
Proof. apply (bool_decide_unpack _). by vm_compute. Qed.

Definition ex_mapor : cmap orswot :=
  CMap {[ 1 := 1; 3 := 2 ]} {[ 20 := MEntry {[ 1 := 1; 3 := 2 ]} ex_orswot ]} ∅.
Example ex_mapor_wf : mwf orswot_wf ex_mapor.
Proof. apply (mwfb_sound orswot_wf orswot_wfb); [apply orswot_wfb_sound|by vm_compute]. Qed.
Example ex_mapor_reset :
  mreset orswot_valops ex_mapor {[ 1 := 2 ]} =
    CMap {[ 3 := 2 ]}
         {[ 20 := MEntry {[ 3 := 2 ]}
                    (Orswot {[ 3 := 2 ]} {[ 9 := {[ 3 := 2 ]} ]}
                            {[ ({[ 2 := 2 ]} : gmap N N) := ({[ 7; 9 ]} : gset N) ]}) ]} ∅ ∧
  mreset orswot_valops ex_mapor (mclock ex_mapor) = mnew.
Proof. apply (bool_decide_unpack _). by vm_compute. Qed.

Definition ex_mapmm : cmap (cmap (list (gmap N N * N))) :=
  CMap {[ 1 := 2; 2 := 1 ]} {[ 30 := MEntry {[ 1 := 2; 2 := 1 ]} ex_mapmv ]}
       {[ ({[ 4 := 1 ]} : gmap N N) := ({[ 30 ]} : gset N) ]}.
Example ex_mapmm_wf : mwf (mwf mvwf) ex_mapmm.
Proof.
  apply (mwfb_sound (mwf mvwf) (mwfb mvwfb)); [|by vm_compute].
  intros v. apply mwfb_sound, mvwfb_sound.
Qed.
Example ex_mapmm_reset :
  mreset (map_valops mvreg_valops) ex_mapmm {[ 2 := 1 ]} =
    CMap {[ 1 := 2 ]}
         {[ 30 := MEntry {[ 1 := 2 ]} (mreset mvreg_valops ex_mapmv {[ 2 := 1 ]}) ]}
         {[ ({[ 4 := 1 ]} : gmap N N) := ({[ 30 ]} : gset N) ]}.
Proof. apply (bool_decide_unpack _). by vm_compute. Qed.

(** (e) on the Map needs the entry clocks below the map clock. *)
Example mreset_self_needs_entry_below_clock :
  let s : cmap (list (gmap N N * N)) :=
    CMap {[ 1 := 1 ]} {[ 10 := MEntry {[ 1 := 2 ]} [({[ 1 := 2 ]}, 5)] ]} ∅ in
  mreset mvreg_valops s (mclock s) =
    CMap ∅ {[ 10 := MEntry {[ 1 := 2 ]} [({[ 1 := 2 ]}, 5)] ]} ∅.
Proof. cbv zeta. apply (bool_decide_unpack _). by vm_compute. Qed.
