(** State-based CRDTs whose state is a join-semilattice and whose ops embed into
    states: apply s o = join s (embed o), merge = join.  One generic
    development gives L1/L2 (spec/System.v) for VClock, GCounter, PNCounter,
    GSet, MaxReg and MinReg, under ANY delivery order, duplicates and merges. *)
From stdpp Require Import gmap.
From Crdt Require Import spec.System spec.OrswotSpec proofs.OrswotLayer.

Section semilattice.
  Context {St Op : Type}.
  Context (wf : St → Prop) (join : St → St → St) (embed : Op → St) (init : St).
  Hypothesis wf_init : wf init.
  Hypothesis wf_embed : ∀ o, wf (embed o).
  Hypothesis wf_join : ∀ x y, wf x → wf y → wf (join x y).
  Hypothesis join_comm : ∀ x y, wf x → wf y → join x y = join y x.
  Hypothesis join_assoc : ∀ x y z, wf x → wf y → wf z → join (join x y) z = join x (join y z).
  Hypothesis join_idem : ∀ x, wf x → join x x = x.

  Definition le (x y : St) : Prop := join x y = y.

  Lemma le_refl x : wf x → le x x.
  Proof. apply join_idem. Qed.
  Lemma le_antisym x y : wf x → wf y → le x y → le y x → x = y.
  Proof. unfold le. intros Hx Hy H1 H2. rewrite <- H2 at 1. rewrite join_comm by done. done. Qed.
  Lemma le_trans x y z : wf x → wf y → wf z → le x y → le y z → le x z.
  Proof. unfold le. intros Hx Hy Hz H1 H2. rewrite <- H2, <- join_assoc, H1 by done. done. Qed.
  Lemma le_join_l x y : wf x → wf y → le x (join x y).
  Proof. unfold le. intros Hx Hy. rewrite <- join_assoc, join_idem by done. done. Qed.
  Lemma le_join_r x y : wf x → wf y → le y (join x y).
  Proof. intros Hx Hy. rewrite (join_comm x y) by done. by apply le_join_l. Qed.
  Lemma join_lub x y z : wf x → wf y → wf z → le x z → le y z → le (join x y) z.
  Proof. unfold le. intros Hx Hy Hz H1 H2. rewrite join_assoc, H2, H1 by done. done. Qed.

  (** the join of [init] and of the embeddings of a list of ops *)
  Definition joins (os : list Op) : St := foldr (λ o acc, join acc (embed o)) init os.

  Lemma joins_wf os : wf (joins os).
  Proof. induction os as [|o os IH]; simpl; [done|]. by apply wf_join. Qed.
  Lemma joins_ub os o : o ∈ os → le (embed o) (joins os).
  Proof.
    induction 1 as [o os|o o' os Hin IH]; simpl.
    - apply le_join_r; [apply joins_wf|done].
    - eapply le_trans; [..|exact IH|]; [done|apply joins_wf|apply wf_join; [apply joins_wf|done]|].
      apply le_join_l; [apply joins_wf|done].
  Qed.
  Lemma joins_init os : le init (joins os).
  Proof.
    induction os as [|o os IH]; simpl; [by apply le_refl|].
    eapply le_trans; [..|exact IH|]; [done|apply joins_wf|apply wf_join; [apply joins_wf|done]|].
    apply le_join_l; [apply joins_wf|done].
  Qed.
  Lemma joins_least os u : wf u → le init u → (∀ o, o ∈ os → le (embed o) u) → le (joins os) u.
  Proof.
    intros Hu Hi H. induction os as [|o os IH]; simpl; [done|].
    apply join_lub; [apply joins_wf|done..| |].
    - apply IH. intros o' Hin. apply H. by right.
    - apply H. by left.
  Qed.
  (** [joins] depends only on the set of ops *)
  Lemma joins_ext os os' : (∀ o, o ∈ os ↔ o ∈ os') → joins os = joins os'.
  Proof.
    intros H. apply le_antisym; [apply joins_wf..| |];
      (apply joins_least; [apply joins_wf|apply joins_init|]); intros o Hin; apply joins_ub; by apply H.
  Qed.
  Lemma joins_snoc os o : joins os = joins os → join (joins os) (embed o) = joins (o :: os).
  Proof. done. Qed.
  Lemma joins_app os1 os2 : join (joins os1) (joins os2) = joins (os1 ++ os2).
  Proof.
    apply le_antisym; [apply wf_join; apply joins_wf|apply joins_wf| |].
    - apply join_lub; [apply joins_wf..| |]; (apply joins_least; [apply joins_wf|apply joins_init|]);
        intros o Hin; apply joins_ub; set_solver.
    - apply joins_least; [apply wf_join; apply joins_wf| |].
      + eapply le_trans; [..|apply (joins_init os1)|apply le_join_l]; try apply joins_wf; try done.
        apply wf_join; apply joins_wf.
      + intros o [Hin|Hin]%elem_of_app.
        * eapply le_trans; [..|apply (joins_ub os1 o Hin)|apply le_join_l]; try apply joins_wf; try done.
          apply wf_join; apply joins_wf.
        * eapply le_trans; [..|apply (joins_ub os2 o Hin)|apply le_join_r]; try apply joins_wf; try done.
          apply wf_join; apply joins_wf.
  Qed.

  (** * the framework instance *)
  Context (apply : St → Op → St) (merge : St → St → St).
  Hypothesis apply_join : ∀ s o, wf s → apply s o = join s (embed o).
  Hypothesis merge_join : ∀ s t, wf s → wf t → merge s t = join s t.

  Definition sl_spec (H : list (oprec Op)) (K : gset nat) : St := joins (known_ops H K).
  Definition sl_valid (H : list (oprec Op)) (K : gset nat) : Prop := True.

  Lemma sl_spec_init H : init = sl_spec H ∅.
  Proof. unfold sl_spec. by rewrite known_ops_empty. Qed.
  Lemma sl_L1 H K i r : H !! i = Some r → apply (sl_spec H K) (op_val r) = sl_spec H (K ∪ {[i]}).
  Proof.
    intros Hl. unfold sl_spec. rewrite apply_join by apply joins_wf.
    change (join (joins (known_ops H K)) (embed (op_val r))) with (joins (op_val r :: known_ops H K)).
    apply joins_ext. intros o. rewrite (known_ops_add_elem H K i r) by done. rewrite elem_of_cons. tauto.
  Qed.
  Lemma sl_L2 H K1 K2 : merge (sl_spec H K1) (sl_spec H K2) = sl_spec H (K1 ∪ K2).
  Proof.
    unfold sl_spec. rewrite merge_join by apply joins_wf. rewrite joins_app.
    apply joins_ext. intros o. rewrite known_ops_union_elem, elem_of_app. done.
  Qed.

  (** every reachable state, under any delivery order, is the join of what
      it has learned; convergence, merge laws, idempotence follow *)
  Theorem sl_reach_spec H s K :
    reach init apply merge adm_any True H s K → s = sl_spec H K.
  Proof.
    intros Hr.
    refine (proj1 (reach_spec eq init apply merge adm_any True sl_spec (λ _, True) sl_valid
                   _ _ _ _ _ _ _ _ H s K I Hr)).
    - by intros ?? ? ->.
    - by intros ???? -> ->.
    - apply sl_spec_init.
    - done.
    - done.
    - done.
    - intros H' K' i' o' _ _ _ Hl. by apply sl_L1.
    - intros H' K1 K2 _ _ _ _. apply sl_L2.
  Qed.

  Notation slreach := (reach init apply merge adm_any True).

  (** C01 / C20: equal knowledge, equal state *)
  Corollary sl_converge H s1 s2 K : slreach H s1 K → slreach H s2 K → s1 = s2.
  Proof. intros H1 H2. by rewrite (sl_reach_spec H s1 K H1), (sl_reach_spec H s2 K H2). Qed.
  (** C03: merge = having learned the union *)
  Corollary sl_merge_is_union H s1 K1 s2 K2 :
    slreach H s1 K1 → slreach H s2 K2 → merge s1 s2 = sl_spec H (K1 ∪ K2).
  Proof. intros H1 H2. apply sl_reach_spec. by apply reach_merge. Qed.
  (** C02: merge is commutative, associative, idempotent on reachable states *)
  Corollary sl_merge_laws H s1 K1 s2 K2 s3 K3 :
    slreach H s1 K1 → slreach H s2 K2 → slreach H s3 K3 →
    merge s1 s2 = merge s2 s1 ∧ merge (merge s1 s2) s3 = merge s1 (merge s2 s3) ∧ merge s1 s1 = s1.
  Proof.
    intros H1 H2 H3. split_and!.
    - rewrite (sl_merge_is_union H s1 K1 s2 K2), (sl_merge_is_union H s2 K2 s1 K1) by done.
      by rewrite (comm_L (∪) K1 K2).
    - assert (slreach H (merge s1 s2) (K1 ∪ K2)) as H12 by (by apply reach_merge).
      assert (slreach H (merge s2 s3) (K2 ∪ K3)) as H23 by (by apply reach_merge).
      rewrite (sl_merge_is_union H _ _ _ _ H12 H3), (sl_merge_is_union H _ _ _ _ H1 H23).
      by rewrite (assoc_L (∪) K1 K2 K3).
    - rewrite (sl_merge_is_union H s1 K1 s1 K1), (idemp_L (∪) K1) by done. symmetry. by apply sl_reach_spec.
  Qed.
  (** C09: duplicates and stale states are absorbed *)
  Corollary sl_absorb H s K i r s' K' :
    slreach H s K → slreach H s' K' →
    (H !! i = Some r → i ∈ K → apply s (op_val r) = s) ∧ (K' ⊆ K → merge s s' = s).
  Proof.
    intros H1 H2. split.
    - intros Hi HiK. assert (slreach H (apply s (op_val r)) (K ∪ {[i]})) as Ha.
      { eapply reach_apply; [done..|]. by exists r. }
      rewrite (sl_reach_spec _ _ _ Ha), (sl_reach_spec _ _ _ H1). f_equal. set_solver.
    - intros Hsub. rewrite (sl_merge_is_union H s K s' K'), (sl_reach_spec _ _ _ H1) by done. f_equal. set_solver.
  Qed.
End semilattice.
