(** MerkleReg: the state is a function of the set of received nodes.
    Part 1: specification side ([visible], [vis_set], [spec_state]), the
    invariant, its preservation by [mk_apply] and its uniqueness. *)
From Crdt Require Import model.Merkle.
From stdpp Require Import gmap fin_maps fin_sets.

(** * Specification side *)

(** [visible R h]: [h] has been received and so have, recursively, all its
    ancestors.  Least fixed point, no acyclicity assumption. *)
Inductive visible (R : gmap N mnode) : N → Prop :=
  | visible_intro h n :
      R !! h = Some n → (∀ c, c ∈ nchildren n → visible R c) → visible R h.

Lemma visible_unfold R h :
  visible R h ↔ ∃ n, R !! h = Some n ∧ ∀ c, c ∈ nchildren n → visible R c.
Proof.
  split.
  - intros [h' n Hn Hc]. eauto.
  - intros (n & Hn & Hc). by eapply visible_intro.
Qed.

Lemma visible_is_Some R h : visible R h → is_Some (R !! h).
Proof. intros [h' n Hn _]. eauto. Qed.

Lemma visible_mono R R' h : R ⊆ R' → visible R h → visible R' h.
Proof.
  intros Hsub. induction 1 as [h n Hn _ IH].
  eapply visible_intro; [by eapply lookup_weaken|done].
Qed.

(** Executable version: Kleene iteration from the empty set, [size R] rounds. *)
Definition vis_step (R : gmap N mnode) (V : gset N) : gset N :=
  dom (filter (λ p : N * mnode, nchildren p.2 ⊆ V) R).

Fixpoint vis_iter (k : nat) (R : gmap N mnode) : gset N :=
  match k with O => ∅ | S k => vis_step R (vis_iter k R) end.

Definition vis_set (R : gmap N mnode) : gset N := vis_iter (size R) R.

Lemma elem_of_vis_step R V h :
  h ∈ vis_step R V ↔ ∃ n, R !! h = Some n ∧ ∀ c, c ∈ nchildren n → c ∈ V.
Proof.
  unfold vis_step. rewrite elem_of_dom. unfold is_Some.
  setoid_rewrite map_filter_lookup_Some. cbn. set_solver.
Qed.

Lemma vis_step_mono R V W : V ⊆ W → vis_step R V ⊆ vis_step R W.
Proof.
  intros HVW h. rewrite !elem_of_vis_step. intros (n & ? & Hc).
  exists n. split; [done|]. intros c Hcn. apply HVW. auto.
Qed.

Lemma vis_step_dom R V : vis_step R V ⊆ dom R.
Proof. intros h. rewrite elem_of_vis_step, elem_of_dom. intros (n & ? & _). eauto. Qed.

Lemma vis_iter_mono R k : vis_iter k R ⊆ vis_iter (S k) R.
Proof.
  induction k as [|k IH]; [set_solver|].
  cbn [vis_iter] in *. by apply vis_step_mono.
Qed.

Lemma vis_iter_sound R k h : h ∈ vis_iter k R → visible R h.
Proof.
  revert h. induction k as [|k IH]; intros h; cbn [vis_iter]; [set_solver|].
  rewrite elem_of_vis_step. intros (n & Hn & Hc).
  eapply visible_intro; eauto.
Qed.

Lemma vis_iter_progress R k :
  vis_iter (S k) R = vis_iter k R ∨ (S k ≤ size (vis_iter (S k) R))%nat.
Proof.
  induction k as [|k IH].
  - destruct (decide (vis_iter 1 R = ∅)) as [->|Hne]; [by left|right].
    assert (size (vis_iter 1 R) ≠ 0%nat); [|lia].
    intros Hz. apply Hne. apply leibniz_equiv. by apply size_empty_iff.
  - destruct IH as [Heq|Hsz].
    + left. cbn [vis_iter] in *. by rewrite Heq at 1.
    + destruct (decide (vis_iter (S (S k)) R = vis_iter (S k) R)) as [|Hne]; [by left|right].
      assert (vis_iter (S k) R ⊂ vis_iter (S (S k)) R) as Hlt.
      { split; [apply vis_iter_mono|]. intros Hsub. apply Hne.
        apply set_eq. intros x. split; [apply Hsub|apply vis_iter_mono]. }
      apply subset_size in Hlt. lia.
Qed.

Lemma vis_set_fixpoint R : vis_step R (vis_set R) = vis_set R.
Proof.
  unfold vis_set. destruct (vis_iter_progress R (size R)) as [Heq|Hsz]; [done|].
  exfalso. assert (size (vis_iter (S (size R)) R) ≤ size R)%nat; [|lia].
  rewrite <-(size_dom (D:=gset N)). apply subseteq_size. apply vis_step_dom.
Qed.

Lemma elem_of_vis_set R h : h ∈ vis_set R ↔ visible R h.
Proof.
  split; [apply vis_iter_sound|].
  induction 1 as [h n Hn _ IH].
  rewrite <-vis_set_fixpoint. apply elem_of_vis_step. eauto.
Qed.

(** The state determined by a received set [R]. *)
Definition spec_dag (R : gmap N mnode) : gmap N mnode :=
  filter (λ p : N * mnode, p.1 ∈ vis_set R) R.
Definition spec_orphans (R : gmap N mnode) : gmap N mnode :=
  filter (λ p : N * mnode, p.1 ∉ vis_set R) R.
(** hashes of [dag] that no node of [dag] lists as a child *)
Definition heads (dag : gmap N mnode) : gset N :=
  filter (λ h, map_Forall (λ _ n', h ∉ nchildren n') dag) (dom dag).
Definition spec_state (R : gmap N mnode) : merkle :=
  Merkle (heads (spec_dag R)) (spec_dag R) (spec_orphans R).

Lemma elem_of_heads dag h :
  h ∈ heads dag ↔
  is_Some (dag !! h) ∧ ∀ h' n', dag !! h' = Some n' → h ∉ nchildren n'.
Proof. unfold heads. rewrite elem_of_filter, elem_of_dom, map_Forall_lookup. tauto. Qed.

Lemma spec_dag_lookup R h n :
  spec_dag R !! h = Some n ↔ R !! h = Some n ∧ visible R h.
Proof. unfold spec_dag. rewrite map_filter_lookup_Some, elem_of_vis_set. done. Qed.

Lemma spec_orphans_lookup R h n :
  spec_orphans R !! h = Some n ↔ R !! h = Some n ∧ ¬ visible R h.
Proof. unfold spec_orphans. rewrite map_filter_lookup_Some. cbn. by rewrite elem_of_vis_set. Qed.

Lemma all_seen_true dag cs :
  all_seen dag cs = true ↔ ∀ c, c ∈ cs → is_Some (dag !! c).
Proof. unfold all_seen. by rewrite bool_decide_eq_true. Qed.

Lemma map_eq_Some {A} (m1 m2 : gmap N A) :
  (∀ k x, m1 !! k = Some x ↔ m2 !! k = Some x) → m1 = m2.
Proof. intros H. apply map_eq. intros k. apply option_eq. apply H. Qed.

Lemma map_filter_size_le {A} (Q : N * A → Prop) `{!∀ x, Decision (Q x)} (m : gmap N A) :
  (size (filter Q m) ≤ size m)%nat.
Proof.
  rewrite <-!(size_dom (D:=gset N)). apply subseteq_size, dom_filter_subseteq.
Qed.

Lemma map_filter_size_lt {A} (Q : N * A → Prop) `{!∀ x, Decision (Q x)} (m : gmap N A) k x :
  m !! k = Some x → ¬ Q (k, x) → (size (filter Q m) < size m)%nat.
Proof.
  intros Hk HQ. rewrite <-!(size_dom (D:=gset N)). apply subset_size.
  split; [apply dom_filter_subseteq|]. intros Hsub.
  assert (k ∈ dom (filter Q m)) as Hin by (apply Hsub, elem_of_dom; eauto).
  apply elem_of_dom in Hin as [y Hy]. apply map_filter_lookup_Some in Hy as [Hy HQ'].
  congruence.
Qed.

(** * The invariant *)
Section inv.
  Context (hash : mnode → N).
  Context (hash_inj : ∀ n1 n2, hash n1 = hash n2 → n1 = n2).

  (** keys are the content addresses of their nodes *)
  Definition keyed (R : gmap N mnode) : Prop := ∀ h n, R !! h = Some n → h = hash n.

  (** Generalised invariant: [P] is the list of nodes that were taken out of
      the orphans because they became ready, and not yet re-applied. *)
  Record GInv (s : merkle) (P : list mnode) (R : gmap N mnode) : Prop := {
    gi_R : ∀ h n, R !! h = Some n ↔
             mk_dag s !! h = Some n ∨ mk_orphans s !! h = Some n ∨ (n ∈ P ∧ h = hash n);
    gi_key : keyed R;
    gi_disj : ∀ h, is_Some (mk_dag s !! h) → mk_orphans s !! h = None;
    gi_fresh : ∀ n, n ∈ P → mk_dag s !! hash n = None ∧ mk_orphans s !! hash n = None;
    gi_nodup : NoDup P;
    gi_vis : ∀ h, is_Some (mk_dag s !! h) → visible (mk_dag s) h;
    gi_ready : ∀ n, n ∈ P → ∀ c, c ∈ nchildren n → is_Some (mk_dag s !! c);
    gi_orph : ∀ h n, mk_orphans s !! h = Some n →
                ¬ ∀ c, c ∈ nchildren n → is_Some (mk_dag s !! c);
    gi_roots : ∀ h, h ∈ mk_roots s ↔
                 is_Some (mk_dag s !! h) ∧ ∀ h' n', mk_dag s !! h' = Some n' → h ∉ nchildren n';
  }.

  Definition Inv (s : merkle) (R : gmap N mnode) : Prop := GInv s [] R.

  Lemma GInv_closed s P R h n c :
    GInv s P R → mk_dag s !! h = Some n → c ∈ nchildren n → is_Some (mk_dag s !! c).
  Proof.
    intros HI Hn Hc. assert (visible (mk_dag s) h) as Hv by (eapply gi_vis; eauto).
    apply visible_unfold in Hv as (n' & Hn' & Hch). simplify_eq.
    by apply visible_is_Some, Hch.
  Qed.

  Lemma NoDup_keyed_values (m : gmap N mnode) :
    keyed m → NoDup (snd <$> map_to_list m).
  Proof.
    intros Hk. apply NoDup_fmap_2_strong; [|apply NoDup_map_to_list].
    intros [k1 v1] [k2 v2] H1%elem_of_map_to_list H2%elem_of_map_to_list ?; simplify_eq/=.
    by rewrite (Hk _ _ H1), (Hk _ _ H2).
  Qed.

  Lemma elem_of_values_filter (Q : N * mnode → Prop) `{!∀ x, Decision (Q x)} (m : gmap N mnode) x :
    x ∈ snd <$> map_to_list (filter Q m) ↔ ∃ k, m !! k = Some x ∧ Q (k, x).
  Proof.
    rewrite elem_of_list_fmap. split.
    - intros ([k y] & -> & Hin%elem_of_map_to_list). exists k. cbn. by apply map_filter_lookup_Some in Hin.
    - intros (k & Hk & HQ). exists (k, x). split; [done|].
      apply elem_of_map_to_list. by apply map_filter_lookup_Some.
  Qed.

  Lemma elem_of_values (m : gmap N mnode) x :
    x ∈ snd <$> map_to_list m ↔ ∃ k, m !! k = Some x.
  Proof.
    rewrite elem_of_list_fmap. split.
    - intros ([k y] & -> & Hin%elem_of_map_to_list). by exists k.
    - intros (k & Hk). exists (k, x). split; [done|]. by apply elem_of_map_to_list.
  Qed.

  (** ** Inserting a ready node into the dag and moving the newly ready
      orphans to the pending list *)
  Lemma GInv_insert_ready s n P R :
    GInv s (n :: P) R →
    let dag' := <[hash n := n]> (mk_dag s) in
    GInv (Merkle ({[hash n]} ∪ (mk_roots s ∖ nchildren n)) dag'
            (filter (λ p : N * mnode, all_seen dag' (nchildren p.2) ≠ true) (mk_orphans s)))
         ((snd <$> map_to_list
             (filter (λ p : N * mnode, all_seen dag' (nchildren p.2) = true) (mk_orphans s))) ++ P)
         R.
  Proof.
    intros HI dag'. destruct s as [roots dag orphans]; cbn [mk_roots mk_dag mk_orphans] in *.
    set (h := hash n) in *.
    destruct (gi_fresh _ _ _ HI n) as [Hfd Hfo]; [left|]; cbn [mk_dag mk_orphans] in Hfd, Hfo.
    fold h in Hfd, Hfo.
    assert (∀ c, c ∈ nchildren n → is_Some (dag !! c)) as Hrn.
    { apply (gi_ready _ _ _ HI n). left. }
    assert (dag ⊆ dag') as Hsub by (by apply insert_subseteq).
    assert (∀ k m, orphans !! k = Some m → k = hash m) as Hok.
    { intros k m Hm. apply (gi_key _ _ _ HI). apply (gi_R _ _ _ HI). cbn. auto. }
    assert (∀ m, m ∈ snd <$> map_to_list
               (filter (λ p : N * mnode, all_seen dag' (nchildren p.2) = true) orphans) ↔
             orphans !! hash m = Some m ∧ all_seen dag' (nchildren m) = true) as HL.
    { intros m. rewrite elem_of_values_filter. cbn. split.
      - intros (k & Hk & Hs). by rewrite <-(Hok _ _ Hk).
      - intros [? ?]. eauto. }
    assert (∀ m, m ∈ P → hash m ≠ h) as HPh.
    { intros m Hm Heq. apply hash_inj in Heq as ->.
      pose proof (gi_nodup _ _ _ HI) as Hnd. by apply NoDup_cons_1_1 in Hnd. }
    split; cbn [mk_roots mk_dag mk_orphans].
    - (* gi_R *)
      intros k m. rewrite (gi_R _ _ _ HI). cbn [mk_dag mk_orphans].
      rewrite elem_of_app, HL, map_filter_lookup_Some, elem_of_cons. cbn [fst snd].
      unfold dag'. rewrite lookup_insert_Some. split.
      + intros [Hd|[Ho|[[->| HP] ->]]].
        * left. right. split; [congruence|done].
        * destruct (decide (all_seen dag' (nchildren m) = true)) as [Hs|Hs].
          -- right. right. pose proof (Hok _ _ Ho) as ->. split; [left; split; assumption|reflexivity].
          -- right. left. auto.
        * left. left. done.
        * right. right. auto.
      + intros [[[<- <-]|[? ?]]|[[? ?]|[[[Ho ?]|HP] ->]]]; auto.
    - apply (gi_key _ _ _ HI).
    - (* gi_disj *)
      intros k Hk. apply map_filter_lookup_None. left.
      unfold dag' in Hk. apply lookup_insert_is_Some in Hk as [<-|[_ Hk]]; [done|].
      by apply (gi_disj _ _ _ HI).
    - (* gi_fresh *)
      intros m [[Ho Hs]%HL|HP]%elem_of_app.
      + assert (hash m ≠ h) by congruence. split.
        * unfold dag'. rewrite lookup_insert_ne by done.
          destruct (dag !! hash m) eqn:E; [|done].
          pose proof (gi_disj _ _ _ HI (hash m)) as Hd. cbn in Hd. rewrite E in Hd.
          rewrite Hd in Ho by eauto. done.
        * apply map_filter_lookup_None. right. intros x Hx. cbn. simplify_eq. auto.
      + destruct (gi_fresh _ _ _ HI m) as [H1 H2]; [by right|]. cbn in H1, H2. split.
        * unfold dag'. rewrite lookup_insert_ne; [done|]. by apply not_eq_sym, HPh.
        * apply map_filter_lookup_None. by left.
    - (* gi_nodup *)
      apply NoDup_app. split; [|split].
      + apply NoDup_keyed_values. intros k m [Hm _]%map_filter_lookup_Some. eauto.
      + intros m [Ho _]%HL HP.
        destruct (gi_fresh _ _ _ HI m) as [_ H2]; [by right|]. cbn in H2. congruence.
      + pose proof (gi_nodup _ _ _ HI) as Hnd. by apply NoDup_cons_1_2 in Hnd.
    - (* gi_vis *)
      intros k Hk. unfold dag' in Hk. apply lookup_insert_is_Some in Hk as [<-|[_ Hk]].
      + eapply visible_intro; [apply lookup_insert|].
        intros c Hc. eapply visible_mono; [done|]. apply (gi_vis _ _ _ HI). by apply Hrn.
      + eapply visible_mono; [done|]. by apply (gi_vis _ _ _ HI).
    - (* gi_ready *)
      intros m [[Ho Hs]%HL|HP]%elem_of_app c Hc.
      + by eapply all_seen_true in Hs.
      + eapply lookup_weaken_is_Some; [|done]. eapply (gi_ready _ _ _ HI m); [by right|done].
    - (* gi_orph *)
      intros k m [Hm Hs]%map_filter_lookup_Some. cbn in Hs. by rewrite all_seen_true in Hs.
    - (* gi_roots *)
      intros k. rewrite elem_of_union, elem_of_singleton, elem_of_difference.
      rewrite (gi_roots _ _ _ HI). cbn [mk_dag]. split.
      + intros [->|[[Hk Hnp] Hkn]].
        * split; [unfold dag'; rewrite lookup_insert; eauto|].
          intros k' m'. unfold dag'. rewrite lookup_insert_Some.
          intros [[<- <-]|[_ Hm']] Hin.
          -- apply Hrn in Hin. rewrite Hfd in Hin. by destruct Hin.
          -- eapply (GInv_closed _ _ _ _ _ _ HI) in Hin; [|exact Hm'].
             cbn in Hin. rewrite Hfd in Hin. by destruct Hin.
        * split; [by eapply lookup_weaken_is_Some|].
          intros k' m'. unfold dag'. rewrite lookup_insert_Some.
          intros [[<- <-]|[_ Hm']]; [done|by eapply Hnp].
      + intros [Hk Hnp]. destruct (decide (k = h)) as [|Hne]; [by left|right].
        unfold dag' in Hk. rewrite lookup_insert_ne in Hk by done.
        split; [split; [done|]|].
        * intros k' m' Hm'. eapply Hnp. by eapply lookup_weaken.
        * eapply Hnp. apply lookup_insert.
  Qed.

  (** ** Re-applying a pending node: the recursion of [mk_apply_fuel].
      Fuel strictly above the number of orphans is enough. *)
  Lemma apply_fuel_pending f : ∀ s n P R,
    GInv s (n :: P) R → (size (mk_orphans s) < f)%nat →
    ∃ s', mk_apply_fuel hash f s n = Some s' ∧ GInv s' P R ∧
          (size (mk_orphans s') ≤ size (mk_orphans s))%nat.
  Proof.
    induction f as [|f IH]; intros s n P R HI Hf; [lia|].
    assert (∀ L s, GInv s (L ++ P) R → (L ≠ [] → (size (mk_orphans s) < f)%nat) →
      ∃ s', foldl (λ acc nd, acc ≫= λ s', mk_apply_fuel hash f s' nd) (Some s) L = Some s' ∧
            GInv s' P R ∧ (size (mk_orphans s') ≤ size (mk_orphans s))%nat) as Hfold.
    { induction L as [|a L IHL]; intros s0 HI0 Hf0.
      - exists s0. done.
      - cbn [foldl]. destruct (IH s0 a (L ++ P) R HI0) as (s1 & Hs1 & HI1 & Hsz1); [by apply Hf0|].
        cbn [mbind option_bind]. rewrite Hs1.
        destruct (IHL s1 HI1) as (s2 & Hs2 & HI2 & Hsz2).
        { intros _. assert (size (mk_orphans s0) < f)%nat by (by apply Hf0). lia. }
        exists s2. split; [done|split; [done|lia]]. }
    cbn [mk_apply_fuel].
    destruct (gi_fresh _ _ _ HI n) as [Hfd Hfo]; [left|].
    rewrite bool_decide_eq_false_2 by (intros [[? ?]|[? ?]]; congruence).
    rewrite (proj2 (all_seen_true _ _)) by (apply (gi_ready _ _ _ HI n); left).
    pose proof (GInv_insert_ready _ _ _ _ HI) as HI1. cbn zeta in HI1.
    edestruct Hfold as (s' & Hs' & HI' & Hsz'); [exact HI1| |].
    - cbn [mk_orphans]. intros HL.
      match type of HL with ?L ≠ [] => destruct L as [|m L'] eqn:E; [done|] end.
      assert (m ∈ m :: L') as Hm by left. rewrite <-E in Hm.
      apply elem_of_values_filter in Hm as (k & Hk & Hs). cbn in Hs.
      eapply Nat.lt_le_trans; [eapply map_filter_size_lt; [exact Hk|]|lia].
      cbn. intros HH. by apply HH.
    - exists s'. split; [exact Hs'|]. split; [done|].
      etrans; [exact Hsz'|]. cbn [mk_orphans]. apply map_filter_size_le.
  Qed.

  (** ** One [mk_apply] step *)
  Lemma Inv_fresh s R n :
    Inv s R → R !! hash n = None →
    mk_dag s !! hash n = None ∧ mk_orphans s !! hash n = None.
  Proof.
    intros HI HR. split; apply eq_None_not_Some; intros [m Hm];
      assert (R !! hash n = Some m) by (apply (gi_R _ _ _ HI); auto); congruence.
  Qed.

  Lemma insert_keyed R n : keyed R → keyed (<[hash n := n]> R).
  Proof. intros HR k m [[<- <-]|[_ ?]]%lookup_insert_Some; [done|by apply HR]. Qed.

  Lemma GInv_new_pending s R n :
    Inv s R → R !! hash n = None →
    (∀ c, c ∈ nchildren n → is_Some (mk_dag s !! c)) →
    GInv s [n] (<[hash n := n]> R).
  Proof.
    intros HI HR Hr. destruct (Inv_fresh _ _ _ HI HR) as [Hd Ho].
    split; try apply HI.
    - intros k m. rewrite lookup_insert_Some, (gi_R _ _ _ HI), elem_of_list_singleton.
      split.
      + intros [[<- <-]|[? [?|[?|[[]%elem_of_nil _]]]]]; auto.
      + intros [?|[?|[-> ->]]]; auto; right; (split; [congruence|auto]).
    - apply insert_keyed, HI.
    - intros m ->%elem_of_list_singleton. done.
    - apply NoDup_singleton.
    - intros m ->%elem_of_list_singleton. done.
  Qed.

  Lemma GInv_new_orphan s R n :
    Inv s R → R !! hash n = None →
    ¬ (∀ c, c ∈ nchildren n → is_Some (mk_dag s !! c)) →
    Inv (Merkle (mk_roots s) (mk_dag s) (<[hash n := n]> (mk_orphans s))) (<[hash n := n]> R).
  Proof.
    intros HI HR Hr. destruct (Inv_fresh _ _ _ HI HR) as [Hd Ho].
    split; cbn [mk_roots mk_dag mk_orphans]; try apply HI.
    - intros k m. rewrite !lookup_insert_Some, (gi_R _ _ _ HI).
      split.
      + intros [[<- <-]|[? [?|[?|[[]%elem_of_nil _]]]]]; auto.
      + intros [?|[[[<- <-]|[? ?]]|[[]%elem_of_nil _]]]; auto; right; (split; [congruence|auto]).
    - apply insert_keyed, HI.
    - intros k Hk. rewrite lookup_insert_ne; [by apply (gi_disj _ _ _ HI)|].
      intros <-. rewrite Hd in Hk. by destruct Hk.
    - intros m ?%elem_of_nil. done.
    - intros k m [[<- <-]|[_ ?]]%lookup_insert_Some; [done|by eapply (gi_orph _ _ _ HI)].
  Qed.

  Lemma Inv_apply s R n :
    Inv s R → ∃ s', mk_apply hash s n = Some s' ∧ Inv s' (<[hash n := n]> R).
  Proof.
    intros HI. unfold mk_apply.
    destruct (R !! hash n) as [m|] eqn:ER.
    - assert (m = n) as ->.
      { apply hash_inj. symmetry. by apply (gi_key _ _ _ HI). }
      exists s. rewrite insert_id by done. split; [|done].
      cbn [mk_apply_fuel]. rewrite bool_decide_eq_true_2; [done|].
      apply (gi_R _ _ _ HI) in ER as [?|[?|[[]%elem_of_nil _]]]; eauto.
    - destruct (Inv_fresh _ _ _ HI ER) as [Hd Ho].
      destruct (all_seen (mk_dag s) (nchildren n)) eqn:Hs.
      + edestruct apply_fuel_pending as (s' & Hs' & HI' & _);
          [apply GInv_new_pending; [exact HI|exact ER|by apply all_seen_true]| |eauto]. lia.
      + cbn [mk_apply_fuel].
        rewrite bool_decide_eq_false_2 by (intros [[? ?]|[? ?]]; congruence).
        rewrite Hs. eexists; split; [done|]. apply GInv_new_orphan; [done..|].
        intros H%all_seen_true. congruence.
  Qed.

  Lemma Inv_new : Inv mk_new ∅.
  Proof.
    clear hash_inj. split; cbn; try done.
    - intros h n. rewrite !lookup_empty. split; [done|]. intros [?|[?|[[]%elem_of_nil _]]]; done.
    - constructor.
    - intros h [? H]. by rewrite lookup_empty in H.
    - intros ? ?%elem_of_nil. done.
    - intros h. split; [set_solver|]. intros [[? H] _]. by rewrite lookup_empty in H.
  Qed.

  (** ** The invariant determines the state *)
  Lemma Inv_dag_subseteq s R : Inv s R → mk_dag s ⊆ R.
  Proof. intros HI. apply map_subseteq_spec. intros k m ?. apply (gi_R _ _ _ HI). auto. Qed.

  Lemma Inv_dag_visible s R h : Inv s R → is_Some (mk_dag s !! h) ↔ visible R h.
  Proof.
    intros HI. split.
    - intros Hh. eapply visible_mono; [by apply Inv_dag_subseteq|]. by apply (gi_vis _ _ _ HI).
    - induction 1 as [h n Hn _ IH].
      apply (gi_R _ _ _ HI) in Hn as [?|[Ho|[[]%elem_of_nil _]]]; [eauto|].
      by apply (gi_orph _ _ _ HI) in Ho.
  Qed.

  Lemma Inv_dag_lookup s R h n :
    Inv s R → mk_dag s !! h = Some n ↔ R !! h = Some n ∧ visible R h.
  Proof.
    intros HI. split.
    - intros Hn. split; [apply (gi_R _ _ _ HI); auto|]. apply (Inv_dag_visible _ _ _ HI). eauto.
    - intros [Hn [n' Hn']%(Inv_dag_visible _ _ _ HI)].
      assert (R !! h = Some n') by (apply (gi_R _ _ _ HI); auto). congruence.
  Qed.

  Lemma Inv_orphans_lookup s R h n :
    Inv s R → mk_orphans s !! h = Some n ↔ R !! h = Some n ∧ ¬ visible R h.
  Proof.
    intros HI. split.
    - intros Hn. split; [apply (gi_R _ _ _ HI); auto|].
      intros Hv%(Inv_dag_visible _ _ _ HI). apply (gi_disj _ _ _ HI) in Hv. congruence.
    - intros [Hn Hv]. apply (gi_R _ _ _ HI) in Hn as [Hd|[?|[[]%elem_of_nil _]]]; [|done].
      destruct Hv. apply (Inv_dag_visible _ _ _ HI). eauto.
  Qed.

  Theorem Inv_unique s R : Inv s R → s = spec_state R.
  Proof.
    intros HI. destruct s as [roots dag orphans]. unfold spec_state.
    assert (dag = spec_dag R) as Hdag.
    { apply map_eq_Some. intros k m. rewrite spec_dag_lookup. apply (Inv_dag_lookup _ _ _ _ HI). }
    assert (orphans = spec_orphans R) as Horph.
    { apply map_eq_Some. intros k m. rewrite spec_orphans_lookup. apply (Inv_orphans_lookup _ _ _ _ HI). }
    rewrite <-Hdag, <-Horph. f_equal.
    apply set_eq. intros h. rewrite elem_of_heads. apply (gi_roots _ _ _ HI).
  Qed.
End inv.
