(** The local refinement lemma L1 for the Orswot: applying an op to the
    specification state of a knowledge set gives the specification state of the
    enlarged knowledge set (clock, entries AND pending-remove table, Leibniz
    equality).  Also: validity lemmas for the framework instance, [seen], dot
    uniqueness, invariants of the specification and the C04 sentence. *)
From Crdt Require Import model.Orswot spec.System spec.OrswotSpec spec.OrswotSystem
  proofs.VClock proofs.OrswotLayer.
From Coq Require Import ZifyBool ZifyN.
Local Open Scope N_scope.

(** * Model-side lookup lemmas (no specification involved) *)

Lemma vreset_empty_l c : vreset ∅ c = ∅.
Proof. apply map_eq. intros x. by rewrite vreset_lookup, lookup_empty. Qed.

Lemma vapply_idem c d : vapply (vapply c d) d = vapply c d.
Proof.
  unfold vapply at 1. pose proof (vapply_get c d (dactor d)) as Hg.
  rewrite decide_True in Hg by done.
  destruct (vget (vapply c d) (dactor d) <? dcounter d) eqn:E; [lia|done].
Qed.

Lemma vne_get c a : vget c a ≠ 0 → c ≠ ∅.
Proof. intros Hg ->. by rewrite vget_empty in Hg. Qed.

Lemma vis_empty_false c : vis_empty c = false ↔ c ≠ ∅.
Proof. rewrite <- vis_empty_spec. by destruct (vis_empty c). Qed.

Lemma orm_entries_lookup es ms c m :
  orm_entries es ms c !! m =
    match es !! m with
    | Some mc => if bool_decide (m ∈ ms)
                 then (if vis_empty (vreset mc c) then None else Some (vreset mc c))
                 else Some mc
    | None => None
    end.
Proof. unfold orm_entries. rewrite map_lookup_imap. by destruct (es !! m). Qed.

Lemma oadd_entries_lookup es ms d m :
  oadd_entries es ms d !! m =
    if decide (m ∈ ms) then Some (vapply (default ∅ (es !! m)) d) else es !! m.
Proof.
  unfold oadd_entries. revert es. induction ms as [|m0 ms IH]; intros es.
  - cbn [foldl]. rewrite decide_False; [done|]. by intros ?%elem_of_nil.
  - cbn [foldl]. rewrite IH. destruct (decide (m = m0)) as [->|Hne].
    + rewrite lookup_insert. cbn [from_option id].
      rewrite (decide_True (P := m0 ∈ m0 :: ms)) by by left.
      destruct (decide (m0 ∈ ms)); [by rewrite vapply_idem|done].
    + rewrite lookup_insert_ne by done.
      destruct (decide (m ∈ ms)) as [Hin|Hin].
      * rewrite decide_True; [done|by right].
      * rewrite decide_False; [done|]. by intros [?|?]%elem_of_cons.
Qed.

Lemma odefer_lookup df c ms c' :
  odefer df c ms !! c' =
    if decide (c' = c)
    then Some (match df !! c with Some old => old ∪ ms | None => ms end)
    else df !! c'.
Proof.
  unfold odefer. destruct (decide (c' = c)) as [->|Hne].
  - destruct (df !! c); by rewrite lookup_insert.
  - destruct (df !! c); by rewrite lookup_insert_ne.
Qed.

Lemma oapply_rm_eq s ms c :
  oapply_rm s ms c =
    Orswot (oclock s) (orm_entries (oentries s) ms c)
           (if vle c (oclock s) then odeferred s else odefer (odeferred s) c ms).
Proof. unfold oapply_rm, vle. by destruct (vcmp c (oclock s)) as [[]|]. Qed.

(** the pending table filtered to the keys not below [k] *)
Lemma pending_filter_lookup (D : gmap (gmap N N) (gset N)) k c :
  filter (λ p : gmap N N * gset N, vle p.1 k = false) D !! c =
    match D !! c with
    | Some ms => if vle c k then None else Some ms
    | None => None
    end.
Proof.
  destruct (D !! c) as [ms|] eqn:E.
  - destruct (vle c k) eqn:Ev.
    + apply map_filter_lookup_None_2. right. intros ms' _. cbn. by rewrite Ev.
    + by apply map_filter_lookup_Some_2.
  - apply map_filter_lookup_None_2. by left.
Qed.

(** ** [oapply_deferred] *)

(** some pending remove of [m] has a context with at least [v] for actor [b] *)
Definition killed (P : gmap (gmap N N) (gset N)) (m : N) (v b : N) : Prop :=
  ∃ c ms, P !! c = Some ms ∧ m ∈ ms ∧ v <= vget c b.

(** the entry of [m] after replaying the pending table [P] on [e0] *)
Definition ent_rel (P : gmap (gmap N N) (gset N)) (m : N) (e0 e' : option (gmap N N)) : Prop :=
  match e0 with
  | None => e' = None
  | Some e =>
      ∃ x, vwf x ∧ e' = (if vis_empty x then None else Some x) ∧
           ∀ b, (vget x b = 0 ∨ vget x b = vget e b) ∧
                (killed P m (vget e b) b → vget x b = 0) ∧
                (¬ killed P m (vget e b) b → vget x b = vget e b)
  end.

Lemma oapply_deferred_char s :
  (∀ m e, oentries s !! m = Some e → vwf e ∧ e ≠ ∅) →
  oclock (oapply_deferred s) = oclock s ∧
  odeferred (oapply_deferred s) =
    filter (λ p : gmap N N * gset N, vle p.1 (oclock s) = false) (odeferred s) ∧
  ∀ m, ent_rel (odeferred s) m (oentries s !! m) (oentries (oapply_deferred s) !! m).
Proof.
  intros Hwf. unfold oapply_deferred.
  apply (map_fold_ind (λ acc P,
    oclock acc = oclock s ∧
    odeferred acc = filter (λ p : gmap N N * gset N, vle p.1 (oclock s) = false) P ∧
    ∀ m, ent_rel P m (oentries s !! m) (oentries acc !! m))).
  - cbn. split; [done|]. split; [by rewrite map_filter_empty|].
    intros m. unfold ent_rel. destruct (oentries s !! m) as [e|] eqn:E; [|done].
    destruct (Hwf _ _ E) as [He Hne]. exists e. split; [done|]. split.
    + apply vis_empty_false in Hne. by rewrite Hne.
    + intros b. split; [by right|]. split; [|done].
      intros (c & ms & Hl & _). by rewrite lookup_empty in Hl.
  - intros c ms P acc Hc (IHc & IHt & IHe). rewrite oapply_rm_eq. cbn.
    split; [done|]. split.
    + rewrite IHc, IHt. apply map_eq. intros c'.
      rewrite pending_filter_lookup.
      destruct (decide (c' = c)) as [->|Hne].
      * rewrite lookup_insert. destruct (vle c (oclock s)) eqn:Ev.
        -- by rewrite pending_filter_lookup, Hc.
        -- by rewrite odefer_lookup, decide_True, pending_filter_lookup, Hc.
      * rewrite lookup_insert_ne by done.
        destruct (vle c (oclock s)) eqn:Ev.
        -- by rewrite pending_filter_lookup.
        -- by rewrite odefer_lookup, decide_False, pending_filter_lookup.
    + intros m. specialize (IHe m). unfold ent_rel in *.
      rewrite orm_entries_lookup.
      destruct (oentries s !! m) as [e|] eqn:E; [|by rewrite IHe].
      destruct IHe as (x & Hx & Hl & Hp).
      exists (if bool_decide (m ∈ ms) then vreset x c else x). split; [|split].
      * case_bool_decide; [by apply vreset_wf|done].
      * rewrite Hl. destruct (vis_empty x) eqn:Ex.
        -- apply vis_empty_spec in Ex as ->. rewrite vreset_empty_l. by case_bool_decide.
        -- case_bool_decide; [done|by rewrite Ex].
      * intros b. destruct (Hp b) as (Hp1 & Hp2 & Hp3).
        assert (killed (<[c:=ms]> P) m (vget e b) b ↔
                killed P m (vget e b) b ∨ (m ∈ ms ∧ vget e b <= vget c b)) as Hk.
        { split.
          - intros (c' & ms' & Hl' & Hm & Hle). destruct (decide (c' = c)) as [->|Hne].
            + rewrite lookup_insert in Hl'. simplify_eq. by right.
            + rewrite lookup_insert_ne in Hl' by done. left. by exists c', ms'.
          - intros [(c' & ms' & Hl' & Hm & Hle)|[Hm Hle]].
            + exists c', ms'. split; [|done]. rewrite lookup_insert_ne; [done|]. congruence.
            + exists c, ms. by rewrite lookup_insert. }
        rewrite Hk. case_bool_decide as Hm.
        -- rewrite vreset_get. split; [|split].
           ++ destruct (vget x b <=? vget c b); [by left|done].
           ++ intros [Hkk|[_ Hle]].
              ** rewrite (Hp2 Hkk). by destruct (0 <=? vget c b).
              ** destruct Hp1 as [->| ->]; [by destruct (0 <=? vget c b)|].
                 destruct (vget e b <=? vget c b) eqn:El; [done|lia].
           ++ intros Hn. rewrite Hp3 by tauto.
              destruct (vget e b <=? vget c b) eqn:El; [|done].
              destruct Hn. right. split; [done|lia].
        -- split; [done|]. split; [|tauto]. intros [Hkk|[? _]]; [by apply Hp2|done].
Qed.

(** * Histories: dot uniqueness and [seen] *)

(** number of adds by [a] strictly before index [i] *)
Definition add_cnt (H : list (oprec oop)) (a : N) (i : nat) : nat :=
  length (List.filter (is_add_by a) (take i H)).

Lemma add_cnt_lt (H : list (oprec oop)) a i j r :
  (i < j)%nat → H !! i = Some r → is_add_by a r = true → (add_cnt H a i < add_cnt H a j)%nat.
Proof.
  intros Hij Hi Ha. unfold add_cnt.
  assert (take j H = take i H ++ r :: drop (S i) (take j H)) as ->.
  { rewrite <- (take_drop i (take j H)) at 1. rewrite take_take.
    replace (i `min` j)%nat with i by lia. f_equal.
    apply drop_S. by rewrite lookup_take. }
  rewrite List.filter_app, app_length. cbn [List.filter]. rewrite Ha. cbn [length]. lia.
Qed.

Lemma owfH_add H i r d ms :
  owfH H → H !! i = Some r → op_val r = OAdd d ms →
  dactor d = op_author r ∧ dcounter d = N.of_nat (add_cnt H (op_author r) i) + 1 ∧
  is_add_by (op_author r) r = true.
Proof.
  intros HH Hi Ho. specialize (HH i r Hi). rewrite Ho in HH. destruct HH as [? ?].
  split; [done|]. split; [done|]. unfold is_add_by. rewrite Ho. by apply bool_decide_eq_true.
Qed.

Lemma dot_unique H i j r r' d ms ms' :
  owfH H → H !! i = Some r → H !! j = Some r' →
  op_val r = OAdd d ms → op_val r' = OAdd d ms' → i = j.
Proof.
  intros HH Hi Hj Ho Ho'.
  destruct (owfH_add _ _ _ _ _ HH Hi Ho) as (Ha & Hc & Hb).
  destruct (owfH_add _ _ _ _ _ HH Hj Ho') as (Ha' & Hc' & Hb').
  assert (op_author r' = op_author r) as Hau by congruence. rewrite Hau in *.
  destruct (lt_eq_lt_dec i j) as [[Hlt| ->]|Hlt]; [|done|].
  - pose proof (add_cnt_lt _ _ _ _ _ Hlt Hi Hb). lia.
  - pose proof (add_cnt_lt _ _ _ _ _ Hlt Hj Hb'). lia.
Qed.

Lemma elem_of_add_dots os d : d ∈ (fst <$> adds_of os) ↔ ∃ ms, OAdd d ms ∈ os.
Proof.
  rewrite elem_of_list_fmap. split.
  - intros ([d' ms] & -> & Hin). exists ms. by apply elem_of_adds_of.
  - intros [ms Hin]. exists (d, ms). split; [done|]. by apply elem_of_adds_of.
Qed.

Lemma seen H K i r d ms :
  owfH H → ovalid H K → H !! i = Some r → op_val r = OAdd d ms →
  dcounter d <= vget (ospec_clock (known_ops H K)) (dactor d) → i ∈ K.
Proof.
  intros HH [HK1 HK2] Hi Ho Hle.
  destruct (owfH_add _ _ _ _ _ HH Hi Ho) as (Ha & Hc & Hb).
  rewrite ospec_clock_get in Hle.
  destruct (max_ctr_witness (fst <$> adds_of (known_ops H K)) (dactor d))
    as [Hz|(d' & Hin & Ha' & Hc')]; [lia|].
  apply elem_of_add_dots in Hin as [ms' Hin].
  apply elem_of_known_ops in Hin as (j & rj & Hj & HjK & Hoj).
  destruct (owfH_add _ _ _ _ _ HH Hj Hoj) as (Haj & Hcj & Hbj).
  assert (op_author rj = op_author r) as Hau by congruence. rewrite Hau in *.
  destruct (lt_eq_lt_dec i j) as [[Hlt| ->]|Hlt]; [|done|].
  - by apply (HK2 j i rj r).
  - pose proof (add_cnt_lt _ _ _ _ _ Hlt Hj Hbj). lia.
Qed.

(** * Validity of knowledge sets *)
Lemma ovalid_empty H : ovalid H ∅.
Proof. split; set_solver. Qed.

Lemma ovalid_step H K i : owfH H → ovalid H K → adm_per_actor H K i → ovalid H (K ∪ {[i]}).
Proof.
  intros _ [HK1 HK2] (o & Ho & Hadm). split.
  - intros i' [Hi'| ->%elem_of_singleton]%elem_of_union; [by apply HK1|by exists o].
  - intros i' j ri rj [Hi'| ->%elem_of_singleton]%elem_of_union Hlt Hi Hj Hau; apply elem_of_union_l.
    + by apply (HK2 i' j ri rj).
    + simplify_eq. by apply (Hadm j rj).
Qed.

Lemma ovalid_union H K1 K2 : ovalid H K1 → ovalid H K2 → ovalid H (K1 ∪ K2).
Proof.
  intros [HA1 HA2] [HB1 HB2]. split.
  - intros i [?|?]%elem_of_union; [by apply HA1|by apply HB1].
  - intros i j ri rj [Hi|Hi]%elem_of_union Hlt Hli Hlj Hau.
    + apply elem_of_union_l. by apply (HA2 i j ri rj).
    + apply elem_of_union_r. by apply (HB2 i j ri rj).
Qed.

Lemma ospec_init H : ospec H ∅ = onew.
Proof. unfold ospec. rewrite known_ops_empty. by vm_compute. Qed.

(** * Specification-side lemmas *)
Lemma covered_false os m d :
  covered (rms_of os) m d = false ↔
  ¬ ∃ c ms, ORm c ms ∈ os ∧ m ∈ ms ∧ dcounter d <= vget c (dactor d).
Proof. by rewrite <- covered_spec, not_true_iff_false. Qed.

Lemma covered_ext_rm os os' m d :
  (∀ c ms, ORm c ms ∈ os ↔ ORm c ms ∈ os') →
  covered (rms_of os) m d = covered (rms_of os') m d.
Proof. intros H. apply eq_true_iff_eq. rewrite !covered_spec. by setoid_rewrite H. Qed.

Lemma max_ctr_add ds ds' d b :
  (∀ x, x ∈ ds' ↔ x ∈ ds ∨ x = d) →
  max_ctr ds' b = if decide (dactor d = b) then N.max (max_ctr ds b) (dcounter d) else max_ctr ds b.
Proof.
  intros H. rewrite (max_ctr_ext ds' (ds ++ [d])).
  - rewrite max_ctr_app, max_ctr_cons, max_ctr_nil. destruct (decide _); lia.
  - intros x. rewrite H, elem_of_app, elem_of_list_singleton. done.
Qed.

Lemma live_le_clock os m b : max_ctr (live_dots os m) b <= vget (ospec_clock os) b.
Proof.
  apply max_ctr_le_iff. intros d Hin Ha. rewrite ospec_clock_get. apply max_ctr_ge; [|done].
  apply elem_of_live_dots in Hin as [(ms & Hin & _) _]. apply elem_of_add_dots. by exists ms.
Qed.

Lemma ospec_entries_default os m : default ∅ (ospec_entries os !! m) = ospec_entry os m.
Proof.
  rewrite ospec_entries_lookup. cbn zeta. destruct (vis_empty (ospec_entry os m)) eqn:E; [|done].
  apply vis_empty_spec in E. by rewrite E.
Qed.
Lemma ospec_entries_Some os m e :
  ospec_entries os !! m = Some e → e = ospec_entry os m ∧ e ≠ ∅.
Proof.
  rewrite ospec_entries_lookup. cbn zeta. destruct (vis_empty (ospec_entry os m)) eqn:E; [done|].
  intros [= <-]. split; [done|]. by apply vis_empty_false.
Qed.
Lemma ospec_entries_None os m : ospec_entries os !! m = None → ospec_entry os m = ∅.
Proof.
  rewrite ospec_entries_lookup. cbn zeta. destruct (vis_empty (ospec_entry os m)) eqn:E; [|done].
  intros _. by apply vis_empty_spec.
Qed.

(** a pending remove is a known remove whose context is not below the clock *)
Lemma ospec_deferred_Some os c ms :
  ospec_deferred os !! c = Some ms →
  ms = rm_members os c ∧ vle c (ospec_clock os) = false ∧ ∃ ms', ORm c ms' ∈ os.
Proof.
  rewrite ospec_deferred_lookup. destruct (decide _) as [Hin|]; [|done].
  destruct (vle c (ospec_clock os)) eqn:E; [done|]. intros [= <-].
  split; [done|]. split; [done|]. by apply elem_of_rm_clocks.
Qed.
Lemma ospec_deferred_intro os c ms :
  ORm c ms ∈ os → vle c (ospec_clock os) = false →
  ospec_deferred os !! c = Some (rm_members os c).
Proof.
  intros Hin Hv. rewrite ospec_deferred_lookup, Hv. rewrite decide_True; [done|].
  apply elem_of_rm_clocks. by exists ms.
Qed.

(** ** the remove case *)
Section rm.
  Context (os os' : list oop) (c : gmap N N) (ms : list N).
  Hypothesis Hos' : ∀ o, o ∈ os' ↔ o ∈ os ∨ o = ORm c ms.

  Lemma rm_adds d ms0 : OAdd d ms0 ∈ os' ↔ OAdd d ms0 ∈ os.
  Proof using Hos'. rewrite Hos'. split; [by intros [?|?]|by left]. Qed.
  Lemma rm_rms c' ms' : ORm c' ms' ∈ os' ↔ ORm c' ms' ∈ os ∨ (c' = c ∧ ms' = ms).
  Proof using Hos'. rewrite Hos'. split; (intros [?|?]; [by left|right]); [by simplify_eq|]. destruct H; by subst. Qed.

  Lemma rm_spec_clock : ospec_clock os' = ospec_clock os.
  Proof using Hos'.
    apply dots_clock_ext. intros d. rewrite !elem_of_add_dots. by setoid_rewrite rm_adds.
  Qed.

  Lemma rm_live m x :
    x ∈ live_dots os' m ↔ x ∈ live_dots os m ∧ ¬ (m ∈ ms ∧ dcounter x <= vget c (dactor x)).
  Proof using Hos'.
    rewrite !elem_of_live_dots, !covered_false. setoid_rewrite rm_adds. setoid_rewrite rm_rms.
    split.
    - intros [Ha Hc]. split; [split; [done|]|].
      + intros (c' & ms' & Hin & Hm & Hle). apply Hc. exists c', ms'. tauto.
      + intros [Hm Hle]. apply Hc. exists c, ms. tauto.
    - intros [[Ha Hc] Hn]. split; [done|].
      intros (c' & ms' & [Hin|[-> ->]] & Hm & Hle); [|tauto]. apply Hc. by exists c', ms'.
  Qed.

  Lemma rm_max m b :
    max_ctr (live_dots os' m) b =
      if decide (m ∈ ms)
      then (if max_ctr (live_dots os m) b <=? vget c b then 0 else max_ctr (live_dots os m) b)
      else max_ctr (live_dots os m) b.
  Proof using Hos'.
    destruct (decide (m ∈ ms)) as [Hm|Hm].
    - destruct (max_ctr (live_dots os m) b <=? vget c b) eqn:E.
      + apply N.le_0_r. apply max_ctr_le_iff. intros x Hx Ha. apply rm_live in Hx as [Hx Hn].
        pose proof (max_ctr_ge _ _ _ Hx Ha). subst b. destruct Hn. split; [done|lia].
      + apply N.le_antisymm.
        * apply max_ctr_le_iff. intros x Hx Ha. apply rm_live in Hx as [Hx _]. by apply max_ctr_ge.
        * destruct (max_ctr_witness (live_dots os m) b) as [Hz|(x & Hx & Ha & Hc)]; [lia|].
          rewrite <- Hc. apply max_ctr_ge; [|done]. apply rm_live. split; [done|].
          intros [_ Hle]. subst b. lia.
    - apply max_ctr_ext. intros x. rewrite rm_live. tauto.
  Qed.

  Lemma rm_entry m :
    ospec_entry os' m = if decide (m ∈ ms) then vreset (ospec_entry os m) c else ospec_entry os m.
  Proof using Hos'.
    apply vwf_ext.
    - apply ospec_entry_wf.
    - destruct (decide _); [apply vreset_wf|]; apply ospec_entry_wf.
    - intros b. rewrite ospec_entry_get, rm_max. destruct (decide _).
      + by rewrite vreset_get, ospec_entry_get.
      + by rewrite ospec_entry_get.
  Qed.

  Lemma rm_clocks c' : c' ∈ (fst <$> rms_of os') ↔ c' ∈ (fst <$> rms_of os) ∨ c' = c.
  Proof using Hos'.
    rewrite !elem_of_rm_clocks. setoid_rewrite rm_rms. split.
    - intros (ms' & [?|[-> _]]); [left; by exists ms'|by right].
    - intros [[ms' ?]| ->]; [exists ms'; by left|exists ms; by right].
  Qed.

  Lemma rm_members_rm c' :
    rm_members os' c' = rm_members os c' ∪ (if decide (c' = c) then list_to_set ms else ∅).
  Proof using Hos'.
    apply set_eq. intros m. rewrite elem_of_union, !elem_of_rm_members. setoid_rewrite rm_rms.
    destruct (decide (c' = c)) as [->|Hne].
    - rewrite elem_of_list_to_set. split.
      + intros (ms' & [?|[_ ->]] & Hm); [left; by exists ms'|by right].
      + intros [(ms' & ? & ?)|?]; [exists ms'; split; [by left|done]|exists ms; split; [by right|done]].
    - split.
      + intros (ms' & [?|[? _]] & Hm); [left; by exists ms'|done].
      + intros [(ms' & ? & ?)|?]; [exists ms'; split; [by left|done]|set_solver].
  Qed.

  Lemma oapply_spec_rm : oapply (ospec_of os) (ORm c ms) = ospec_of os'.
  Proof using Hos'.
    cbn [oapply]. rewrite oapply_rm_eq. unfold ospec_of. cbn [oclock oentries odeferred].
    f_equal.
    - by rewrite rm_spec_clock.
    - apply map_eq. intros m. rewrite orm_entries_lookup, !ospec_entries_lookup, rm_entry. cbn zeta.
      destruct (vis_empty (ospec_entry os m)) eqn:E.
      + apply vis_empty_spec in E. rewrite E, vreset_empty_l. by destruct (decide _).
      + destruct (decide (m ∈ ms)) as [Hm|Hm].
        * rewrite bool_decide_eq_true_2; [done|]. by apply elem_of_list_to_set.
        * rewrite bool_decide_eq_false_2; [by rewrite E|]. by rewrite elem_of_list_to_set.
    - apply map_eq. intros c'. rewrite (ospec_deferred_lookup os'), rm_spec_clock, rm_members_rm.
      destruct (decide (c' = c)) as [->|Hne].
      + rewrite decide_True by (apply rm_clocks; by right).
        destruct (vle c (ospec_clock os)) eqn:Ev.
        * rewrite ospec_deferred_lookup, Ev. by destruct (decide _).
        * rewrite odefer_lookup, decide_True by done. f_equal.
          rewrite ospec_deferred_lookup, Ev. destruct (decide (c ∈ (fst <$> rms_of os))) as [Hin|Hin]; [done|].
          apply set_eq. intros m. rewrite elem_of_union, elem_of_rm_members.
          split; [by right|]. intros [(ms' & Hx & _)|?]; [|done].
          destruct Hin. apply elem_of_rm_clocks. by exists ms'.
      + assert (odeferred_eq : (if vle c (ospec_clock os) then ospec_deferred os
                                else odefer (ospec_deferred os) c (list_to_set ms)) !! c' = ospec_deferred os !! c').
        { destruct (vle c (ospec_clock os)); [done|]. by rewrite odefer_lookup, decide_False. }
        rewrite odeferred_eq, ospec_deferred_lookup, (right_id_L ∅ (∪)).
        destruct (decide (c' ∈ (fst <$> rms_of os))) as [Hin|Hin].
        * rewrite decide_True; [done|]. apply rm_clocks. by left.
        * rewrite decide_False; [done|]. rewrite rm_clocks. by intros [?|?].
  Qed.
End rm.

(** ** the fresh-add case *)
Section add.
  Context (os os' : list oop) (d : dot) (ms : list N).
  Hypothesis Hos' : ∀ o, o ∈ os' ↔ o ∈ os ∨ o = OAdd d ms.
  Hypothesis Hfresh : vget (ospec_clock os) (dactor d) < dcounter d.
  Hypothesis Hrmwf : ∀ c ms', ORm c ms' ∈ os → vwf c.

  Lemma add_rms c ms' : ORm c ms' ∈ os ↔ ORm c ms' ∈ os'.
  Proof using Hos'. rewrite Hos'. split; [by left|by intros [?|?]]. Qed.
  Lemma add_adds d' ms' : OAdd d' ms' ∈ os' ↔ OAdd d' ms' ∈ os ∨ (d' = d ∧ ms' = ms).
  Proof using Hos'. rewrite Hos'. split; (intros [?|?]; [by left|right]); [by simplify_eq|]. destruct H; by subst. Qed.

  Lemma add_spec_clock : ospec_clock os' = vapply (ospec_clock os) d.
  Proof using Hos' Hfresh.
    apply vwf_ext; [apply ospec_clock_wf|apply vapply_wf, ospec_clock_wf|].
    intros b. rewrite vapply_get, !ospec_clock_get.
    rewrite (max_ctr_add (fst <$> adds_of os) (fst <$> adds_of os') d b).
    - destruct (decide (dactor d = b)), (decide (b = dactor d)); congruence.
    - intros x. rewrite !elem_of_add_dots. setoid_rewrite add_adds. split.
      + intros (ms' & [?|[-> _]]); [left; by exists ms'|by right].
      + intros [[ms' ?]| ->]; [exists ms'; by left|exists ms; by right].
  Qed.

  Lemma add_live m x :
    x ∈ live_dots os' m ↔
    x ∈ live_dots os m ∨ (x = d ∧ m ∈ ms ∧ covered (rms_of os) m d = false).
  Proof using Hos'.
    rewrite !elem_of_live_dots, <- (covered_ext_rm os os') by apply add_rms.
    setoid_rewrite add_adds. split.
    - intros [(ms' & [Hin|[-> ->]] & Hm) Hc]; [left; split; [by exists ms'|done]|by right].
    - intros [[(ms' & Hin & Hm) Hc]|(-> & Hm & Hc)]; (split; [|done]).
      + exists ms'. split; [by left|done].
      + exists ms. split; [by right|done].
  Qed.

  (** a remove covering the fresh dot is pending, and kills every live dot of the actor *)
  Lemma add_covering_pending c ms' :
    ORm c ms' ∈ os → dcounter d <= vget c (dactor d) →
    ospec_deferred os !! c = Some (rm_members os c).
  Proof using Hfresh Hrmwf.
    intros Hin Hle. apply (ospec_deferred_intro _ _ ms'); [done|].
    apply not_true_iff_false. rewrite vle_spec; [|by eapply Hrmwf|apply ospec_clock_wf].
    intros Hx. specialize (Hx (dactor d)). lia.
  Qed.

  Lemma add_max m b :
    max_ctr (live_dots os' m) b =
      if decide (m ∈ ms ∧ b = dactor d)
      then (if covered (rms_of os) m d then 0 else dcounter d)
      else max_ctr (live_dots os m) b.
  Proof using Hos' Hfresh.
    clear Hrmwf. pose proof (live_le_clock os m (dactor d)) as Hlc.
    destruct (decide (m ∈ ms ∧ b = dactor d)) as [[Hm ->]|Hn].
    - destruct (covered (rms_of os) m d) eqn:Ec.
      + rewrite (max_ctr_ext _ (live_dots os m)).
        * apply N.le_0_r. apply max_ctr_le_iff. intros x Hx Ha.
          pose proof (max_ctr_ge _ _ _ Hx Ha).
          apply elem_of_live_dots in Hx as [_ Hx]. apply covered_false in Hx. destruct Hx.
          apply covered_spec in Ec as (c & ms' & Hin & Hm' & Hle). exists c, ms'.
          split; [done|]. split; [done|]. rewrite Ha. lia.
        * intros x. rewrite add_live. split; [intros [?|(_ & _ & ?)]; [done|congruence]|by left].
      + rewrite (max_ctr_add (live_dots os m) _ d).
        * rewrite decide_True by done. lia.
        * intros x. rewrite add_live. split; [intros [?|(? & _)]; tauto|].
          intros [?| ->]; [by left|by right].
    - destruct (decide (m ∈ ms ∧ covered (rms_of os) m d = false)) as [[Hm Hc]|Hn'].
      + rewrite (max_ctr_add (live_dots os m) _ d).
        * rewrite decide_False; [done|]. intros <-. tauto.
        * intros x. rewrite add_live. split; [intros [?|(? & _)]; tauto|].
          intros [?| ->]; [by left|by right].
      + apply max_ctr_ext. intros x. rewrite add_live. split; [intros [?|(_ & ? & ?)]; tauto|by left].
  Qed.

  Lemma oapply_spec_add : oapply (ospec_of os) (OAdd d ms) = ospec_of os'.
  Proof using Hos' Hfresh Hrmwf.
    cbn [oapply ospec_of oclock oentries odeferred].
    destruct (dcounter d <=? vget (ospec_clock os) (dactor d)) eqn:Eg; [lia|].
    set (s0 := Orswot _ _ _).
    destruct (oapply_deferred_char s0) as (Hc & Ht & He).
    { subst s0. cbn [oentries]. intros m e. rewrite oadd_entries_lookup.
      destruct (decide (m ∈ ms)) as [Hm|Hm].
      - intros [= <-]. rewrite ospec_entries_default. split.
        + apply vapply_wf, ospec_entry_wf.
        + apply (vne_get _ (dactor d)). rewrite vapply_get, decide_True by done. lia.
      - intros [-> Hne]%ospec_entries_Some. split; [apply ospec_entry_wf|done]. }
    destruct (oapply_deferred s0) as [c1 e1 t1]. subst s0. cbn [oclock oentries odeferred] in *.
    unfold ospec_of. f_equal.
    - by rewrite add_spec_clock.
    - apply map_eq. intros m. specialize (He m). rewrite ospec_entries_lookup. cbn zeta.
      rewrite oadd_entries_lookup in He. unfold ent_rel in He.
      pose proof (live_le_clock os m (dactor d)) as Hlc.
      (* the entry the replay starts from *)
      assert ((∃ e, (if decide (m ∈ ms) then Some (vapply (default ∅ (ospec_entries os !! m)) d)
                    else ospec_entries os !! m) = Some e ∧
                   ∀ b, vget e b = if decide (m ∈ ms ∧ b = dactor d) then dcounter d
                                   else max_ctr (live_dots os m) b) ∨
             ((if decide (m ∈ ms) then Some (vapply (default ∅ (ospec_entries os !! m)) d)
               else ospec_entries os !! m) = None ∧ m ∉ ms ∧ ospec_entry os m = ∅)) as [(e & Ee & Hg)|(Ee & Hm & Hz)].
      { destruct (decide (m ∈ ms)) as [Hm|Hm].
        - left. eexists. split; [done|]. intros b.
          rewrite ospec_entries_default, vapply_get, ospec_entry_get.
          destruct (decide (b = dactor d)) as [->|Hb].
          + rewrite decide_True by done. lia.
          + rewrite decide_False by tauto. done.
        - destruct (ospec_entries os !! m) as [e|] eqn:Ee.
          + left. exists e. split; [done|]. intros b. rewrite decide_False by tauto.
            apply ospec_entries_Some in Ee as [-> _]. apply ospec_entry_get.
          + right. split; [done|]. split; [done|]. by apply ospec_entries_None. }
      + rewrite Ee in He. destruct He as (x & Hx & -> & Hp).
        assert (x = ospec_entry os' m) as <-; [|done].
        apply vwf_ext; [done|apply ospec_entry_wf|]. intros b.
        rewrite ospec_entry_get, add_max. destruct (Hp b) as (Hp1 & Hp2 & Hp3). rewrite Hg in *.
        destruct (decide (m ∈ ms ∧ b = dactor d)) as [[Hm ->]|Hn].
        * destruct (covered (rms_of os) m d) eqn:Ec.
          -- apply Hp2. apply covered_spec in Ec as (c & ms' & Hin & Hm' & Hle).
             exists c, (rm_members os c). split; [by eapply add_covering_pending|].
             split; [|done]. apply elem_of_rm_members. by exists ms'.
          -- apply Hp3. intros (c & ms0 & Hl & Hm0 & Hle).
             apply ospec_deferred_Some in Hl as (-> & _ & _).
             apply elem_of_rm_members in Hm0 as (ms' & Hin & Hm').
             apply covered_false in Ec. destruct Ec. by exists c, ms'.
        * destruct (max_ctr_witness (live_dots os m) b) as [Hz|(x0 & Hx0 & Ha & Hc0)].
          { rewrite Hz in *. by destruct Hp1. }
          apply Hp3. intros (c & ms0 & Hl & Hm0 & Hle).
          apply ospec_deferred_Some in Hl as (-> & _ & _).
          apply elem_of_rm_members in Hm0 as (ms' & Hin & Hm').
          apply elem_of_live_dots in Hx0 as [_ Hx0]. apply covered_false in Hx0. destruct Hx0.
          exists c, ms'. split; [done|]. split; [done|]. rewrite Ha. lia.
      + rewrite Ee in He. rewrite He.
        assert (ospec_entry os' m = ∅) as ->; [|done].
        rewrite <- Hz. apply dots_clock_ext. intros x. rewrite add_live. split; [intros [?|(_ & ? & _)]; tauto|by left].
    - rewrite Ht. apply map_eq. intros c. rewrite pending_filter_lookup, <- add_spec_clock.
      rewrite (ospec_deferred_lookup os'), (ospec_deferred_lookup os).
      assert (rm_members os' c = rm_members os c) as ->.
      { apply set_eq. intros m. rewrite !elem_of_rm_members. by setoid_rewrite add_rms. }
      destruct (decide (c ∈ (fst <$> rms_of os))) as [Hin|Hin].
      + rewrite decide_True.
        2:{ apply elem_of_rm_clocks in Hin as [ms' Hin]. apply elem_of_rm_clocks. exists ms'. by apply add_rms. }
        destruct (vle c (ospec_clock os)) eqn:Ev; [|done].
        apply elem_of_rm_clocks in Hin as [ms' Hin]. pose proof (Hrmwf _ _ Hin) as Hcw.
        apply vle_spec in Ev; [|done|apply ospec_clock_wf].
        assert (vle c (ospec_clock os') = true) as ->; [|done].
        apply vle_spec; [done|apply ospec_clock_wf|]. intros b. specialize (Ev b).
        rewrite add_spec_clock. pose proof (vapply_mono (ospec_clock os) d b). lia.
      + rewrite decide_False; [done|]. intros [ms' Hx]%elem_of_rm_clocks. destruct Hin.
        apply elem_of_rm_clocks. exists ms'. by apply add_rms.
  Qed.
End add.

(** * L1 *)
Lemma known_rm_wf H K c ms : owfH H → ORm c ms ∈ known_ops H K → vwf c.
Proof.
  intros HH (j & rj & Hj & _ & Ho)%elem_of_known_ops. specialize (HH j rj Hj). by rewrite Ho in HH.
Qed.

Theorem orswot_L1 H K i r :
  owfH H → ovalid H K → adm_per_actor H K i → H !! i = Some r →
  oapply (ospec H K) (op_val r) = ospec H (K ∪ {[i]}).
Proof.
  intros HH HK _ Hi. unfold ospec.
  pose proof (λ o, known_ops_add_elem H K i r o Hi) as Hos'.
  destruct (op_val r) as [d ms|c ms] eqn:Ho.
  - destruct (dcounter d <=? vget (ospec_clock (known_ops H K)) (dactor d)) eqn:Eg.
    + assert (i ∈ K) as HiK by (eapply seen; [done..|lia]).
      assert (K ∪ {[i]} = K) as -> by set_solver.
      cbn [oapply ospec_of oclock]. by rewrite Eg.
    + apply oapply_spec_add; [done|lia|]. intros c ms'. by apply known_rm_wf.
  - by apply oapply_spec_rm.
Qed.

(** * Invariants of the specification *)
Lemma ospec_clock_vwf H K : vwf (oclock (ospec H K)).
Proof. apply ospec_clock_wf. Qed.

Lemma ospec_entry_inv H K m e :
  oentries (ospec H K) !! m = Some e →
  vwf e ∧ e ≠ ∅ ∧ vleq e (oclock (ospec H K)).
Proof.
  cbn. intros [-> Hne]%ospec_entries_Some. split; [apply ospec_entry_wf|]. split; [done|].
  intros b. rewrite ospec_entry_get. apply live_le_clock.
Qed.

Lemma ospec_deferred_inv H K c ms :
  owfH H → odeferred (ospec H K) !! c = Some ms →
  vwf c ∧ c ≠ ∅ ∧ ¬ vleq c (oclock (ospec H K)) ∧ vle c (oclock (ospec H K)) = false ∧
  ms = rm_members (known_ops H K) c.
Proof.
  cbn. intros HH (-> & Hv & ms' & Hin)%ospec_deferred_Some.
  pose proof (known_rm_wf _ _ _ _ HH Hin) as Hc.
  assert (¬ vleq c (ospec_clock (known_ops H K))) as Hn.
  { rewrite <- vle_spec; [|done|apply ospec_clock_wf]. by rewrite Hv. }
  split; [done|]. split; [|done]. intros ->. apply Hn. intros b. rewrite vget_empty. lia.
Qed.

(** * The C04 sentence, on the model's reads *)
Lemma owfH_known_add H K d ms : owfH H → OAdd d ms ∈ known_ops H K → dcounter d ≠ 0.
Proof.
  intros HH (j & rj & Hj & _ & Ho)%elem_of_known_ops.
  destruct (owfH_add _ _ _ _ _ HH Hj Ho) as (_ & Hc & _). lia.
Qed.

Lemma ospec_contains_ctx H K m :
  rm_clock (ocontains (ospec H K) m) = ospec_entry (known_ops H K) m.
Proof. cbn. apply ospec_entries_default. Qed.

Lemma ospec_entry_empty_iff os m :
  (∀ d ms, OAdd d ms ∈ os → dcounter d ≠ 0) →
  ospec_entry os m = ∅ ↔ live_dots os m = [].
Proof.
  intros Hpos. unfold ospec_entry. split.
  - rewrite dots_clock_empty_iff. intros Hz. destruct (live_dots os m) as [|x l] eqn:E; [done|].
    assert (x ∈ x :: l) as Hx by (by left).
    pose proof (max_ctr_ge _ _ _ Hx eq_refl) as Hge. rewrite Hz in Hge. rewrite <- E in Hx.
    apply elem_of_live_dots in Hx as [(ms & Hin & _) _]. apply Hpos in Hin. lia.
  - intros ->. apply dots_clock_nil.
Qed.

Theorem ospec_read_c04 H K m :
  owfH H →
  m ∈ rval (oread (ospec H K)) ↔
  ∃ d ms, OAdd d ms ∈ known_ops H K ∧ m ∈ ms ∧
          ¬ ∃ c ms', ORm c ms' ∈ known_ops H K ∧ m ∈ ms' ∧ dcounter d <= vget c (dactor d).
Proof.
  intros HH. cbn. rewrite elem_of_dom, ospec_entries_lookup. cbn zeta.
  set (os := known_ops H K).
  assert (ospec_entry os m ≠ ∅ ↔ ∃ d, d ∈ live_dots os m) as Hlive.
  { rewrite ospec_entry_empty_iff by (intros ? ?; by apply owfH_known_add).
    destruct (live_dots os m) as [|x l]; split; try done.
    - by intros [? ?%elem_of_nil].
    - intros _. exists x. by left. }
  transitivity (∃ d, d ∈ live_dots os m).
  - rewrite <- Hlive, <- vis_empty_false. destruct (vis_empty (ospec_entry os m)); split; try done.
    + by intros [? ?].
  - setoid_rewrite elem_of_live_dots. setoid_rewrite covered_false. split.
    + intros (d & (ms & ? & ?) & ?). by exists d, ms.
    + intros (d & ms & ? & ? & ?). exists d. split; [by exists ms|done].
Qed.

(** the same sentence for the monitor's decidable form *)
Lemma c04_member_read H K m :
  owfH H → c04_member H K m = true ↔ m ∈ rval (oread (ospec H K)).
Proof.
  intros HH. cbn. rewrite elem_of_dom, ospec_entries_lookup. cbn zeta. unfold c04_member.
  pose proof (ospec_entry_empty_iff (known_ops H K) m (λ d ms, owfH_known_add H K d ms HH)) as He.
  destruct (vis_empty (ospec_entry (known_ops H K) m)) eqn:E.
  - apply vis_empty_spec, He in E. rewrite E. split; [done|by intros [? ?]].
  - apply vis_empty_false in E. destruct (live_dots (known_ops H K) m); [by destruct E; apply He|].
    split; [by eexists|done].
Qed.

(** Without [owfH] (an add dot with counter 0) the sentence fails: the dot
    leaves no trace in the witness clock. *)
Example c04_needs_owfH :
  let H := [OpRec 1 (OAdd (Dot 1 0) [7]) ∅] in
  let K : gset nat := {[ 0%nat ]} in
  known_ops H K = [OAdd (Dot 1 0) [7]] ∧ 7 ∉ rval (oread (ospec H K)).
Proof. split; [by vm_compute|]. by vm_compute. Qed.
