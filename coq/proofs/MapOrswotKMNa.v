(** [Map<K, Orswot<M>>] outside the classes of the findings T2 and T3 (spec/MapOrswotKMN.v), first
    part: lemmas that do not mention histories.

    - Part 1: what the replay of a pending key-remove table ([mfold]) and [mmerge] do to ONE key:
      a key no replayed remove names is not touched ([mfold_key_untouched], [mmerge_key_untouched]);
      for a key whose entry has nothing parked inside, the relation [vrel] of proofs/MapOrswotPA.v
      ([mfold_key_vrel], [mmerge_key_vrel]).  These are the per-key forms of [mfold_vrel_gen] and
      [mmerge_entries_vrel] of proofs/MapOrswotKMa.v, which ask the hypothesis of EVERY key.
    - Part 2: a key [k] that no key remove of the universe names ([ukey]): the arguments of
      proofs/MapOrswotNK.v for that key alone - the apply step on op lists ([uk_apply]) and the
      per-key step of [mmerge] on the specification entries ([uk_merge_entry]), through
      [sparse_L2] on the projected lists. *)
From stdpp Require Import gmap.
From Crdt Require Import model.Orswot model.Map spec.System spec.OrswotSpec spec.OrswotSystem
  spec.MapSpec spec.MapSystem spec.MapOrswotSpec spec.MapOrswotKM spec.MapOrswotKMN proofs.VClock proofs.Reset
  proofs.OrswotLayer proofs.OrswotL1 proofs.OrswotL2a proofs.OrswotL2 proofs.OrswotSystem proofs.MapFacts proofs.MapKeys
  proofs.MapOrswot proofs.MapOrswotPA proofs.MapOrswotEq proofs.OrswotSparseL2 proofs.MapOrswotNK proofs.MapOrswotKMa.
From Coq Require Import ZifyBool ZifyN ZifyNat.
Local Open Scope N_scope.

Local Notation vo := orswot_valops.

(** * Part 1: one key through [mfold] and [mmerge] *)
Lemma mfold_key_untouched (s0 : cmap orswot) D k :
  (∀ c ks, D !! c = Some ks → k ∉ ks) → mentries (mfold vo s0 D) !! k = mentries s0 !! k.
Proof.
  intros Hn. apply (mfold_entries_ind' vo (λ es, es !! k = mentries s0 !! k)); [|done].
  intros c ks es Hc <-. apply mrm_entries_lookup_notin. by eapply Hn.
Qed.

Lemma mfold_key_vrel (s0 : cmap orswot) D k e :
  (∀ e1, mentries s0 !! k = Some e1 → odeferred (eval e1) = ∅ ∧ eswf (oentries (eval e1))) →
  mentries (mfold vo s0 D) !! k = Some e →
  ∃ e1, mentries s0 !! k = Some e1 ∧ vrel D k (eval e1) (eval e) ∧
        (oclock (eval e1) = eclock e1 → oclock (eval e) = eclock e).
Proof.
  intros Hes. unfold mfold. revert e.
  apply (map_fold_ind (λ r D', ∀ e, mentries r !! k = Some e →
           ∃ e1, mentries s0 !! k = Some e1 ∧ vrel D' k (eval e1) (eval e) ∧
                 (oclock (eval e1) = eclock e1 → oclock (eval e) = eclock e))).
  - intros e He. exists e. split; [done|]. destruct (Hes e He). split; [by apply vrel_refl|done].
  - intros c ks D' r Hc IH e. rewrite mapply_rm_entries, mrm_entries_lookup.
    destruct (mentries r !! k) as [e0|] eqn:E0; [|done]. cbn [mbind option_bind].
    destruct (IH e0 eq_refl) as (e1 & He1 & Hrel & Hv4). case_bool_decide as Hk.
    + destruct (vis_empty _); [done|]. intros [= <-]. exists e1. split; [done|]. cbn [eval eclock v_reset orswot_valops].
      split; [by apply vrel_reset|]. intros Hv. cbn [oreset oclock]. by rewrite (Hv4 Hv).
    + intros [= <-]. exists e1. split; [done|]. split; [by apply vrel_keep|done].
Qed.

(** the pending table after the first replay of [mmerge] names a key only if one of the two
    pending tables does, and keeps what the first side had pending *)
Lemma mmerge_pending_mid (s1 s2 : cmap orswot) E0 k :
  let sa := mfold vo (CMap (mclock s1) E0 (mdeferred s1)) (mdeferred s2) in
  (∀ c ks, mdeferred sa !! c = Some ks → k ∈ ks →
     ∃ ks', (mdeferred s1 !! c = Some ks' ∨ mdeferred s2 !! c = Some ks') ∧ k ∈ ks') ∧
  (∀ c ks, mdeferred s1 !! c = Some ks → k ∈ ks → ∃ ks', mdeferred sa !! c = Some ks' ∧ k ∈ ks').
Proof.
  intros sa. split.
  - intros c ks. unfold sa. rewrite mfold_deferred. cbn [mclock mdeferred].
    destruct (mdeferred s2 !! c) as [ks2|] eqn:E2.
    + destruct (vge (mclock s1) c); [intros Hl Hk; exists ks; by split; [left|]|].
      intros [= <-] [Hk|Hk]%elem_of_union.
      * destruct (mdeferred s1 !! c) as [ks1|]; cbn in Hk; [|set_solver]. exists ks1. by split; [left|].
      * exists ks2. by split; [right|].
    + intros Hl Hk. exists ks. by split; [left|].
  - intros c ks Hl Hk. unfold sa. rewrite mfold_deferred. cbn [mclock mdeferred]. rewrite Hl.
    destruct (mdeferred s2 !! c) as [ks2|]; [|by exists ks].
    destruct (vge (mclock s1) c); [by exists ks|]. eexists. split; [done|]. cbn. set_solver.
Qed.

Lemma mmerge_key_untouched (s1 s2 : cmap orswot) k :
  (∀ c ks, (mdeferred s1 !! c = Some ks ∨ mdeferred s2 !! c = Some ks) → k ∉ ks) →
  mentries (mmerge vo s1 s2) !! k =
    mmerge_entry vo (mclock s1) (mclock s2) (mentries s1 !! k) (mentries s2 !! k).
Proof.
  intros Hn. rewrite mmerge_unfold. cbn zeta. rewrite mapply_deferred_mfold. cbn [mclock mentries mdeferred].
  set (E0 := merge (mmerge_entry vo (mclock s1) (mclock s2)) (mentries s1) (mentries s2)).
  destruct (mmerge_pending_mid s1 s2 E0 k) as [Hfin _]. cbn zeta in Hfin.
  rewrite mfold_key_untouched.
  - cbn [mentries]. rewrite mfold_key_untouched.
    + cbn [mentries]. unfold E0. apply mmerge_entries_lookup.
    + intros c ks Hl. apply (Hn c ks). by right.
  - intros c ks Hl Hk. destruct (Hfin c ks Hl Hk) as (ks' & Hl' & Hk'). by apply (Hn c ks').
Qed.

Lemma mmerge_key_vrel (s1 s2 : cmap orswot) k e :
  (∀ e0, mmerge_entry vo (mclock s1) (mclock s2) (mentries s1 !! k) (mentries s2 !! k) = Some e0 →
     odeferred (eval e0) = ∅ ∧ oclock (eval e0) = eclock e0 ∧ eswf (oentries (eval e0))) →
  mentries (mmerge vo s1 s2) !! k = Some e →
  ∃ e0, mmerge_entry vo (mclock s1) (mclock s2) (mentries s1 !! k) (mentries s2 !! k) = Some e0 ∧
    oclock (eval e) = eclock e ∧ odeferred (eval e) = ∅ ∧ eswf (oentries (eval e)) ∧
    ∀ m a, let x0 := gdef (oentries (eval e0)) m a in let x := gdef (oentries (eval e)) m a in
      (x = 0 ∨ x = x0) ∧
      (∀ c ks, (mdeferred s1 !! c = Some ks ∨ mdeferred s2 !! c = Some ks) → k ∈ ks → x0 <= vget c a → x = 0) ∧
      ((∀ c ks, (mdeferred s1 !! c = Some ks ∨ mdeferred s2 !! c = Some ks) → k ∈ ks → vget c a < x0) → x = x0).
Proof.
  intros Hm. rewrite mmerge_unfold. cbn zeta. rewrite mapply_deferred_mfold. cbn [mclock mentries mdeferred].
  set (E0 := merge (mmerge_entry vo (mclock s1) (mclock s2)) (mentries s1) (mentries s2)) in *.
  destruct (mmerge_pending_mid s1 s2 E0 k) as [Hfin Hsub]. cbn zeta in Hfin, Hsub.
  set (sa := mfold vo (CMap (mclock s1) E0 (mdeferred s1)) (mdeferred s2)) in *.
  assert (∀ e', mentries sa !! k = Some e' →
            ∃ e0, E0 !! k = Some e0 ∧ vrel (mdeferred s2) k (eval e0) (eval e') ∧ oclock (eval e') = eclock e') as Ha.
  { intros e' He'. apply mfold_key_vrel in He' as (e0 & He0 & Hrel & Hv).
    - cbn [mentries] in He0. exists e0. split; [done|]. split; [done|]. apply Hv.
      unfold E0 in He0. rewrite mmerge_entries_lookup in He0. by destruct (Hm e0 He0) as (_ & ? & _).
    - cbn [mentries]. intros e1. unfold E0. rewrite mmerge_entries_lookup. intros He1.
      by destruct (Hm e1 He1) as (? & _ & ?). }
  intros He. apply mfold_key_vrel in He as (e' & He' & (R1 & R2 & R3 & R4) & Hv4).
  2:{ cbn [mentries]. intros e1 He1. destruct (Ha e1 He1) as (e0 & _ & (Q1 & _ & Q3 & _) & _). done. }
  cbn [mentries] in He'. destruct (Ha e' He') as (e0 & He0 & (Q1 & Q2 & Q3 & Q4) & V4').
  exists e0. split; [by rewrite <- mmerge_entries_lookup|]. split; [by apply Hv4|]. split; [done|]. split; [done|].
  intros m a. cbn zeta. destruct (R4 m a) as (A1 & A2 & A3), (Q4 m a) as (B1 & B2 & B3).
  set (x0 := gdef (oentries (eval e0)) m a) in *. set (x' := gdef (oentries (eval e')) m a) in *.
  set (x := gdef (oentries (eval e)) m a) in *.
  split_and!.
  - lia.
  - intros c ks [Hl|Hl] Hk Hle.
    + destruct (Hsub c ks Hl Hk) as (ks' & Hl' & Hk'). destruct B1 as [B1|B1]; [lia|].
      apply (A2 c ks' Hl' Hk'). lia.
    + assert (x' = 0) by (by apply (B2 c ks Hl Hk)). lia.
  - intros Hall. assert (x' = x0) as Hx'.
    { apply B3. intros c ks Hl Hk. apply (Hall c ks); [by right|done]. }
    rewrite <- Hx'. apply A3. intros c ks Hl Hk. destruct (Hfin c ks Hl Hk) as (ks' & Hl' & Hk').
    rewrite Hx'. by apply (Hall c ks').
Qed.

(** * Part 2: a key no key remove names *)

(** key [k] in the universe [Ua] of all ops ever generated: no key remove names it; its nested
    adds carry the dot of their update; the contexts of its nested removes store no zero and
    consist of dots of updates of [k]; dots are positive *)
Definition ukey (Ua : list (mop oop)) (k : N) : Prop :=
  (∀ c ks, MRm c ks ∈ Ua → k ∉ ks) ∧
  (∀ d d' ms, MUp d k (OAdd d' ms) ∈ Ua → d' = d) ∧
  (∀ d c ms, MUp d k (ORm c ms) ∈ Ua → vwf c ∧ kclk Ua k c) ∧
  (∀ d o, MUp d k o ∈ Ua → 0 < dcounter d).

Definition uk_opt (os : list (mop oop)) (k : N) : option (mentry orswot) :=
  if decide (k ∈ mkeys_mentioned os) then Some (nk_ent os k) else None.

Lemma nk_ent_ext os os' k : (∀ o, o ∈ os ↔ o ∈ os') → nk_ent os k = nk_ent os' k.
Proof.
  intros H. unfold nk_ent. f_equal.
  - apply dots_clock_ext. intros d. rewrite !elem_of_mlive_dots. by setoid_rewrite H.
  - apply ospec_of_ext. intros o. rewrite !elem_of_mo_proj. by setoid_rewrite H.
Qed.
Lemma uk_opt_ext os os' k : (∀ o, o ∈ os ↔ o ∈ os') → uk_opt os k = uk_opt os' k.
Proof.
  intros H. unfold uk_opt. rewrite (nk_ent_ext os os' k H).
  destruct (decide (k ∈ mkeys_mentioned os)) as [Hin|Hin], (decide (k ∈ mkeys_mentioned os')) as [Hin'|Hin']; try done.
  - destruct Hin'. apply elem_of_mkeys_mentioned in Hin as (d & o & Ho). apply elem_of_mkeys_mentioned. exists d, o. by apply H.
  - destruct Hin. apply elem_of_mkeys_mentioned in Hin' as (d & o & Ho). apply elem_of_mkeys_mentioned. exists d, o. by apply H.
Qed.

(** the nested clock is below the map clock (the nested adds carry the dots of their updates) *)
Lemma proj_clock_le os k a : mo_shape os → vget (ospec_clock (mo_proj os k)) a <= vget (mspec_clock os) a.
Proof.
  intros Hs. rewrite ospec_clock_get. unfold mspec_clock. rewrite dots_clock_get.
  apply max_ctr_le_iff. intros d Hd Ha. apply max_ctr_ge; [|done].
  apply elem_of_add_dots in Hd as [ms Hd]. apply elem_of_mo_proj in Hd as [d0 Hd].
  pose proof (Hs _ _ _ _ Hd) as ->. apply elem_of_mall_dots. by eexists _, _.
Qed.

(** the apply step under a key: the nested value is the Orswot specification of the projected ops *)
Lemma uk_apply os os' d k o :
  (∀ x, x ∈ os' ↔ x ∈ os ∨ x = MUp d k o) → mo_shape os' →
  (∀ d1 c ms, MUp d1 k (ORm c ms) ∈ os' → vwf c) →
  vget (mspec_clock os) (dactor d) < dcounter d →
  oapply (ospec_of (mo_proj os k)) o = ospec_of (mo_proj os' k).
Proof.
  intros Hos' Hsh Hw Hfresh.
  assert (∀ x, x ∈ mo_proj os' k ↔ x ∈ mo_proj os k ∨ x = o) as Hp.
  { intros x. rewrite !elem_of_mo_proj. setoid_rewrite Hos'. split.
    - intros (d0 & [Hin|Heq]); [left; by exists d0|right; by injection Heq].
    - intros [(d0 & Hin)| ->]; [exists d0; by left|exists d; by right]. }
  assert (mo_shape os) as Hsh0.
  { intros d0 k0 d1 ms Hin. apply (Hsh d0 k0 d1 ms), Hos'. by left. }
  destruct o as [d' ms|c ms].
  - assert (d' = d) as -> by (apply (Hsh d k d' ms), Hos'; by right).
    apply (oapply_spec_add (mo_proj os k) (mo_proj os' k) d ms Hp).
    + pose proof (proj_clock_le os k (dactor d) Hsh0). lia.
    + intros c ms' [d0 Hin]%elem_of_mo_proj. apply (Hw d0 c ms'), Hos'. by left.
  - by apply (oapply_spec_rm (mo_proj os k) (mo_proj os' k) c ms Hp).
Qed.

Section ukey.
  Context (Ua : list (mop oop)) (k : N) (HU : ukey Ua k).

  Lemma uk_live os d : (∀ o, o ∈ os → o ∈ Ua) → d ∈ mlive_dots os k ↔ d ∈ kdots os k.
  Proof using HU.
    intros Hsub. rewrite elem_of_mlive_dots, elem_of_kdots. split; [by intros [? _]|].
    intros Hex. split; [done|]. intros (c & ks & Hin & Hk & _). destruct HU as (Hn & _). by apply (Hn c ks (Hsub _ Hin)).
  Qed.
  Lemma uk_entry_clock os : (∀ o, o ∈ os → o ∈ Ua) → mspec_entry_clock os k = dots_clock (kdots os k).
  Proof using HU. intros Hs. apply dots_clock_ext. intros d. by apply uk_live. Qed.

  Lemma uk_nested_clock_le os a : (∀ o, o ∈ os → o ∈ Ua) →
    vget (ospec_clock (mo_proj os k)) a <= vget (mspec_entry_clock os k) a.
  Proof using HU.
    intros Hs. rewrite ospec_clock_get, uk_entry_clock, dots_clock_get by done.
    apply max_ctr_le_iff. intros d Hd Ha. apply max_ctr_ge; [|done].
    apply elem_of_add_dots in Hd as [ms Hd]. apply elem_of_mo_proj in Hd as [d0 Hd].
    destruct HU as (_ & Hsh & _). pose proof (Hsh _ _ _ (Hs _ Hd)) as ->. apply elem_of_kdots. by eexists.
  Qed.

  Lemma uk_sp_side os : nk_side Ua os → sp_side (mo_proj Ua k) (mo_proj os k).
  Proof using HU.
    intros [Hsub Hseen]. split_and!.
    - intros o [d Ho]%elem_of_mo_proj. apply elem_of_mo_proj. exists d. by apply Hsub.
    - intros c ms [d Ho]%elem_of_mo_proj. destruct HU as (_ & _ & Hr & _). by destruct (Hr d c ms (Hsub _ Ho)).
    - intros d ms [d0 Ho]%elem_of_mo_proj Hle. destruct HU as (_ & Hsh & _). pose proof (Hsh _ _ _ Ho) as ->.
      apply elem_of_mo_proj. exists d0. apply Hseen; [done|].
      pose proof (uk_nested_clock_le os (dactor d0) Hsub). pose proof (nk_entry_clock_le os k (dactor d0)). lia.
  Qed.
  Lemma uk_sp_pos d ms : OAdd d ms ∈ mo_proj Ua k → 0 < dcounter d.
  Proof using HU.
    intros [d0 Ho]%elem_of_mo_proj. destruct HU as (_ & Hsh & _ & Hpos).
    pose proof (Hsh _ _ _ Ho) as ->. by eapply Hpos.
  Qed.

  (** the clocks of the specification under key [k] consist of update dots of [k] *)
  Lemma uk_kclk_entry_clock os : nk_side Ua os → kclk Ua k (mspec_entry_clock os k).
  Proof using HU.
    intros HS a. rewrite uk_entry_clock, dots_clock_get by apply HS. intros Hp.
    destruct (max_ctr_witness (kdots os k) a) as [?|([a' n] & Hin & Ha & Hc)]; [lia|]. cbn in Ha, Hc. subst a'.
    rewrite <- Hc. apply elem_of_kdots in Hin as [o Ho]. exists o. by apply HS.
  Qed.
  Lemma uk_kclk_nested_clock os : nk_side Ua os → kclk Ua k (ospec_clock (mo_proj os k)).
  Proof using HU.
    intros HS a. rewrite ospec_clock_get. intros Hp.
    destruct (max_ctr_witness (fst <$> adds_of (mo_proj os k)) a) as [?|([a' n] & Hin & Ha & Hc)]; [lia|].
    cbn in Ha, Hc. subst a'. rewrite <- Hc.
    apply elem_of_add_dots in Hin as [ms Hin]. apply elem_of_mo_proj in Hin as [d0 Ho].
    destruct HU as (_ & Hsh & _). pose proof (Hsh _ _ _ (proj1 HS _ Ho)) as <-. eexists. by apply HS.
  Qed.
  Lemma uk_kclk_nested_entry os m : nk_side Ua os → kclk Ua k (ospec_entry (mo_proj os k) m).
  Proof using HU.
    intros HS a. rewrite ospec_entry_get. intros Hp.
    destruct (max_ctr_witness (live_dots (mo_proj os k) m) a) as [?|([a' n] & Hin & Ha & Hc)]; [lia|].
    cbn in Ha, Hc. subst a'. rewrite <- Hc.
    apply elem_of_live_dots in Hin as [(ms & Hin & _) _]. apply elem_of_mo_proj in Hin as [d0 Ho].
    destruct HU as (_ & Hsh & _). pose proof (Hsh _ _ _ (proj1 HS _ Ho)) as <-. eexists. by apply HS.
  Qed.
  Lemma uk_kclk_nested_rm os c ms : nk_side Ua os → ORm c ms ∈ mo_proj os k → kclk Ua k c.
  Proof using HU.
    intros HS [d Ho]%elem_of_mo_proj. destruct HU as (_ & _ & Hr & _). by destruct (Hr d c ms (proj1 HS _ Ho)).
  Qed.

  (** a dot of [k] that one replica holds and the clock of the other covers is held by both *)
  Lemma uk_entry_seen os os' a : nk_side Ua os → nk_side Ua os' →
    vget (mspec_entry_clock os' k) a <= vget (mspec_clock os) a →
    vget (mspec_entry_clock os' k) a <= vget (mspec_entry_clock os k) a.
  Proof using HU.
    intros HS HS'. rewrite !uk_entry_clock, !dots_clock_get by (apply HS || apply HS'). intros Hle.
    destruct (max_ctr_witness (kdots os' k) a) as [->|([a' n] & Hin & Ha & Hc)]; [lia|]. cbn in Ha, Hc. subst a'.
    rewrite <- Hc in *. apply (max_ctr_ge _ _ (Dot a n)); [|done].
    apply elem_of_kdots in Hin as [o Ho]. apply elem_of_kdots. exists o. apply HS; [by apply HS'|done].
  Qed.

  Lemma uk_entry_clock_pos os : nk_side Ua os → k ∈ mkeys_mentioned os →
    ∃ a, 0 < vget (mspec_entry_clock os k) a.
  Proof using HU.
    intros HS (d & o & Ho)%elem_of_mkeys_mentioned.
    exists (dactor d). rewrite uk_entry_clock, dots_clock_get by apply HS.
    assert (0 < dcounter d) by (destruct HU as (_ & _ & _ & Hpos); eapply Hpos; by apply HS).
    assert (dcounter d <= max_ctr (kdots os k) (dactor d)); [|lia].
    apply max_ctr_ge; [|done]. apply elem_of_kdots. by exists o.
  Qed.

  (** one side holds the key, the other does not: nothing is deleted *)
  Lemma uk_one_side os os' : nk_side Ua os → nk_side Ua os' →
    k ∈ mkeys_mentioned os → k ∉ mkeys_mentioned os' →
    vge (mspec_clock os') (mspec_entry_clock os k) = false ∧
    vreset (mspec_entry_clock os k) (mspec_clock os') = mspec_entry_clock os k ∧
    oreset (ospec_of (mo_proj os k)) (vreset (mspec_clock os') (mspec_entry_clock os k)) = ospec_of (mo_proj os k).
  Proof using HU.
    intros HS HS' Hin Hnin.
    pose proof (kclk_inert Ua os' k _ HS' Hnin (uk_kclk_entry_clock os HS)) as Hi.
    assert (vwf (mspec_entry_clock os k)) as Hw by apply dots_clock_wf.
    assert (vwf (mspec_clock os')) as Hw' by apply dots_clock_wf.
    split_and!.
    - destruct (vge _ _) eqn:E; [|done]. apply vge_spec in E; [|done..].
      destruct (uk_entry_clock_pos os HS Hin) as [a Ha]. specialize (E a). destruct (Hi a); lia.
    - by apply inert_vreset_id.
    - assert (∀ x, kclk Ua k x → inert x (vreset (mspec_clock os') (mspec_entry_clock os k))) as Hx.
      { intros x Hx. eapply inert_le; [by eapply kclk_inert|]. apply vreset_leq. }
      apply ospec_oreset_inert.
      + intros c ms Hc. by destruct (uk_sp_side os HS) as (_ & Hw0 & _); eapply Hw0.
      + by apply Hx, uk_kclk_nested_clock.
      + intros m. by apply Hx, uk_kclk_nested_entry.
      + intros c ms Hc. apply Hx. by apply (uk_kclk_nested_rm os c ms).
  Qed.

  (** both sides hold the key: the common clock is the join *)
  Lemma uk_common os1 os2 : nk_side Ua os1 → nk_side Ua os2 →
    vmerge (vmerge (vintersection (mspec_entry_clock os2 k) (mspec_entry_clock os1 k))
                   (vclone_without (mspec_entry_clock os2 k) (mspec_clock os1)))
           (vclone_without (mspec_entry_clock os1 k) (mspec_clock os2)) =
    vmerge (mspec_entry_clock os1 k) (mspec_entry_clock os2 k).
  Proof using HU.
    intros HS1 HS2. unfold vclone_without.
    assert (vwf (mspec_entry_clock os1 k)) as Hw1 by apply dots_clock_wf.
    assert (vwf (mspec_entry_clock os2 k)) as Hw2 by apply dots_clock_wf.
    apply vwf_ext.
    - repeat apply vmerge_wf; try apply vreset_wf; try done. by apply vintersection_wf.
    - by apply vmerge_wf.
    - intros a. rewrite !vmerge_get, vintersection_get, !vreset_get.
      pose proof (uk_entry_seen os1 os2 a HS1 HS2). pose proof (uk_entry_seen os2 os1 a HS2 HS1).
      pose proof (nk_entry_clock_le os1 k a). pose proof (nk_entry_clock_le os2 k a).
      repeat case_match; lia.
  Qed.

  (** the per-key step of [mmerge] on the specification entries of key [k] *)
  Theorem uk_merge_entry os1 os2 : nk_side Ua os1 → nk_side Ua os2 →
    mmerge_entry vo (mspec_clock os1) (mspec_clock os2) (uk_opt os1 k) (uk_opt os2 k) = uk_opt (os1 ++ os2) k.
  Proof using HU.
    intros HS1 HS2. unfold uk_opt. rewrite mkeys_mentioned_app.
    assert (∀ o, o ∈ os1 ++ os2 → o ∈ Ua) as Hsub.
    { intros o [?|?]%elem_of_app; [by apply HS1|by apply HS2]. }
    assert (nk_ent (os1 ++ os2) k =
            MEntry (vmerge (mspec_entry_clock os1 k) (mspec_entry_clock os2 k))
                   (ospec_of (mo_proj os1 k ++ mo_proj os2 k))) as He.
    { unfold nk_ent. rewrite !uk_entry_clock by (done || apply HS1 || apply HS2).
      by rewrite kdots_app, dots_clock_app, mo_proj_app. }
    destruct (decide (k ∈ mkeys_mentioned os1)) as [H1|H1], (decide (k ∈ mkeys_mentioned os2)) as [H2|H2].
    - rewrite decide_True by (rewrite elem_of_app; by left).
      cbn [mmerge_entry nk_ent eclock eval]. rewrite (uk_common os1 os2 HS1 HS2).
      assert (vwf (mspec_entry_clock os1 k)) as Hw1 by apply dots_clock_wf.
      assert (vwf (mspec_entry_clock os2 k)) as Hw2 by apply dots_clock_wf.
      destruct (vis_empty _) eqn:Ee.
      { apply vis_empty_spec in Ee. destruct (uk_entry_clock_pos os1 HS1 H1) as [a Ha].
        assert (vget (vmerge (mspec_entry_clock os1 k) (mspec_entry_clock os2 k)) a = 0) as Hz by (by rewrite Ee, vget_empty).
        rewrite vmerge_get in Hz. lia. }
      rewrite He. f_equal. f_equal.
      rewrite (vmerge_comm (mspec_entry_clock os2 k)), vreset_self by done.
      cbn [v_reset v_merge orswot_valops].
      rewrite (sparse_L2 (mo_proj Ua k) (mo_proj os1 k) (mo_proj os2 k) uk_sp_pos
                 (uk_sp_side os1 HS1) (uk_sp_side os2 HS2)).
      apply ospec_oreset_inert; intros; try apply inert_empty_r.
      match goal with Hx : ORm _ _ ∈ _ |- _ => apply elem_of_app in Hx as [Hx|Hx] end.
      + by destruct (uk_sp_side os1 HS1) as (_ & Hw0 & _); eapply Hw0.
      + by destruct (uk_sp_side os2 HS2) as (_ & Hw0 & _); eapply Hw0.
    - rewrite decide_True by (rewrite elem_of_app; by left).
      cbn [mmerge_entry nk_ent eclock eval].
      destruct (uk_one_side os1 os2 HS1 HS2 H1 H2) as (-> & -> & Hr).
      cbn [v_reset orswot_valops]. rewrite Hr, He.
      destruct (nk_absent_nil os2 k H2) as [Hk Hp].
      rewrite (uk_entry_clock os2), Hk, Hp, dots_clock_nil, vmerge_empty_r, app_nil_r by apply HS2. done.
    - rewrite decide_True by (rewrite elem_of_app; by right).
      cbn [mmerge_entry nk_ent eclock eval].
      destruct (uk_one_side os2 os1 HS2 HS1 H2 H1) as (-> & -> & Hr).
      cbn [v_reset orswot_valops]. rewrite Hr, He.
      destruct (nk_absent_nil os1 k H1) as [Hk Hp].
      rewrite (uk_entry_clock os1), Hk, Hp, dots_clock_nil, vmerge_empty_l by (apply HS1 || apply dots_clock_wf). done.
    - rewrite decide_False by (rewrite elem_of_app; tauto). done.
  Qed.
End ukey.

Print Assumptions mfold_key_untouched.
Print Assumptions mfold_key_vrel.
Print Assumptions mmerge_key_untouched.
Print Assumptions mmerge_key_vrel.
Print Assumptions uk_apply.
Print Assumptions uk_merge_entry.
