(** Value-level refinement of [Map<K, Orswot<M>>] (the VALUE half of property C05 for an
    Orswot leaf) under op-based replication with causal delivery (duplicates allowed, no
    state merges): in every reachable state the member table of the Orswot stored under
    every key is exactly the specification [mo_entries] (spec/MapOrswotSpec.v) of the ops
    the replica has learned.

    Invariant carried through [reach] ([mo_inv]): the map has no pending key remove; for
    every present key the nested member table is the specification, the nested clock is
    below the map clock, and every pending nested remove is inert ([vinv], Part 3).
    The nested pending table itself is not a function of the
    knowledge; the theorem speaks about [oentries] only.

    Facts about the history ([hist_facts]): every remove context (of keys or of nested
    members) is below the map clock its author had, a nested add carries the dot of its
    update.  They are established together with the refinement theorem by induction on
    the history ([mohist_facts]).

    Organisation:
    - Part 0: causal delivery in the replicated-system framework (knowledge is closed
      under dependencies, every op was generated at a reachable state, causal
      admissibility implies per-actor admissibility);
    - Part 1: transport of [moreach]/[mohist_ok] to the key layer of proofs/MapKeys.v;
    - Part 2: membership characterisation of the value-level specification
      (spec/MapOrswotSpec.v) and how it changes when one op is learned;
    - Part 3: the nested Orswot under a key: what [oapply]/[oreset] do to a value whose
      pending removes are inert;
    - Part 4: the invariant, the step lemma, the refinement theorem
      [mapor_values_refine];
    - Part 5: corollaries and a non-vacuity example. *)
From stdpp Require Import gmap.
From Crdt Require Import model.Orswot model.Map spec.System spec.OrswotSpec spec.OrswotSystem
  spec.MapSpec spec.MapSystem spec.MapOrswotSpec proofs.VClock proofs.Reset proofs.OrswotLayer
  proofs.OrswotL1 proofs.OrswotL2 proofs.OrswotSystem proofs.MapFacts proofs.MapKeys.
From Coq Require Import ZifyBool ZifyN ZifyNat.
Local Open Scope N_scope.

(** * Part 0: causal delivery, no merges *)
Section causal_reach.
  Context {St Op : Type} (init : St) (apply : St → Op → St) (merge : St → St → St).
  Notation creach := (reach init apply merge adm_causal False).

  Lemma creach_dom H s K : creach H s K → ∀ i, i ∈ K → is_Some (H !! i).
  Proof.
    induction 1 as [|s K i o Hr IH Ho Ha|s1 K1 s2 K2 Hm Hr1 IH1 Hr2 IH2]; [set_solver| |done].
    intros j [Hj| ->%elem_of_singleton]%elem_of_union; [by apply IH|by exists o].
  Qed.

  (** the knowledge of a replica is closed under dependencies *)
  Lemma creach_closed H s K : creach H s K → ∀ i r, i ∈ K → H !! i = Some r → op_deps r ⊆ K.
  Proof.
    induction 1 as [|s K i o Hr IH Ho Ha|s1 K1 s2 K2 Hm Hr1 IH1 Hr2 IH2]; [set_solver| |done].
    intros j r [Hj| ->%elem_of_singleton]%elem_of_union Hl.
    - specialize (IH j r Hj Hl). set_solver.
    - destruct Ha as (o' & Ho' & Hd). simplify_eq. set_solver.
  Qed.

  Lemma creach_mono H H' s K : creach H s K → creach (H ++ H') s K.
  Proof. apply reach_mono. apply @adm_causal_mono. Qed.
End causal_reach.

Section causal.
  Context {St Op Cmd : Type} (init : St) (apply : St → Op → St) (merge : St → St → St).
  Context (gen : St → N → Cmd → option Op).
  Notation creach := (reach init apply merge adm_causal False).
  Notation chist_ok := (hist_ok init apply merge gen adm_causal False).

  (** every op of an API-generated history was generated at a reachable state whose
      knowledge is the op's dependency set *)
  Lemma chist_gen H : chist_ok H → ∀ i r, H !! i = Some r →
    ∃ s cmd, creach H s (op_deps r) ∧ gen s (op_author r) cmd = Some (op_val r).
  Proof.
    induction 1 as [|H s K a cmd o Hok IH Hr Hown Hgen]; [intros i r Hi; by rewrite lookup_nil in Hi|].
    intros i r Hi. destruct (decide (i < length H)%nat) as [Hl|Hge].
    - rewrite lookup_app_l in Hi by done. destruct (IH i r Hi) as (s' & cmd' & Hr' & Hg').
      exists s', cmd'. split; [by apply creach_mono|done].
    - assert (i = length H) as ->.
      { apply lookup_lt_Some in Hi. rewrite app_length in Hi. cbn in Hi. lia. }
      rewrite lookup_app_r, Nat.sub_diag in Hi by lia. cbn in Hi. injection Hi as <-. cbn [op_deps op_author op_val].
      exists s, cmd. split; [by apply creach_mono|done].
  Qed.

  Lemma chist_deps_own H : chist_ok H →
    ∀ i r j r', H !! i = Some r → (j < i)%nat → H !! j = Some r' → op_author r' = op_author r → j ∈ op_deps r.
  Proof.
    induction 1 as [|H s K a cmd o Hok IH Hr Hown Hgen]; [intros i r j r' Hi; by rewrite lookup_nil in Hi|].
    intros i r j r' Hi Hlt Hj Ha.
    destruct (decide (i < length H)%nat) as [Hl|Hge].
    - rewrite lookup_app_l in Hi by done. rewrite lookup_app_l in Hj by lia. by eapply IH.
    - assert (i = length H) as ->.
      { apply lookup_lt_Some in Hi. rewrite app_length in Hi. cbn in Hi. lia. }
      rewrite lookup_app_r, Nat.sub_diag in Hi by lia. cbn in Hi. injection Hi as <-. cbn in *.
      rewrite lookup_app_l in Hj by lia. by apply (Hown j r').
  Qed.

  Lemma chist_causal_per_actor H K i : chist_ok H → adm_causal H K i → adm_per_actor H K i.
  Proof.
    intros Hok (r & Hi & Hdeps). exists r. split; [done|]. intros j r' Hlt Hj Ha.
    apply Hdeps. by eapply chist_deps_own.
  Qed.

  (** a causal schedule without merges is a per-actor schedule *)
  Lemma creach_per_actor H s K : chist_ok H → creach H s K → reach init apply merge adm_per_actor True H s K.
  Proof.
    intros Hok. induction 1 as [|s K i o Hr IH Ho Ha|s1 K1 s2 K2 Hm Hr1 IH1 Hr2 IH2]; [constructor| |done].
    eapply reach_apply; [done..|]. by apply chist_causal_per_actor.
  Qed.
End causal.

(** * Part 1: transport to the key layer *)
Notation movo := orswot_valops (only parsing).

Lemma moreach_mapreach H s K : mohist_ok H → moreach H s K → mapreach movo H s K.
Proof. apply creach_per_actor. Qed.

Lemma mohist_maphist H : mohist_ok H → maphist_ok movo H.
Proof.
  induction 1 as [|H s K a cmd o Hok IH Hr Hown Hgen]; [constructor|].
  apply (hist_snoc _ _ _ _ _ _ H s K a (mo_cmd cmd) o); [done| |done|done].
  by apply moreach_mapreach.
Qed.

(** * Part 2: the value-level specification *)

Lemma list_no_elem_nil {A} (l : list A) : (∀ x, x ∉ l) → l = [].
Proof. destruct l as [|x l]; [done|]. intros Hx. destruct (Hx x). by left. Qed.

(** ** [dots_clock] of a list of dots filtered by a context / extended by a dot *)
Lemma dots_clock_filter ds ds' c :
  (∀ x, x ∈ ds' ↔ x ∈ ds ∧ ¬ dcounter x <= vget c (dactor x)) →
  dots_clock ds' = vreset (dots_clock ds) c.
Proof.
  intros Hf. apply vwf_ext; [apply dots_clock_wf|apply vreset_wf, dots_clock_wf|].
  intros b. rewrite vreset_get, !dots_clock_get.
  destruct (max_ctr ds b <=? vget c b) eqn:E.
  - apply N.le_0_r. apply max_ctr_le_iff. intros x Hx Ha. apply Hf in Hx as [Hx Hn].
    pose proof (max_ctr_ge _ _ _ Hx Ha). subst b. lia.
  - apply N.le_antisymm.
    + apply max_ctr_le_iff. intros x Hx Ha. apply Hf in Hx as [Hx _]. by apply max_ctr_ge.
    + destruct (max_ctr_witness ds b) as [Hz|(x & Hx & Ha & Hc)]; [lia|].
      rewrite <- Hc. apply max_ctr_ge; [|done]. apply Hf. split; [done|]. subst b. lia.
Qed.
Lemma dots_clock_same ds ds' : (∀ x, x ∈ ds' ↔ x ∈ ds) → dots_clock ds' = dots_clock ds.
Proof. apply dots_clock_ext. Qed.
Lemma dots_clock_add ds ds' d :
  (∀ x, x ∈ ds' ↔ x ∈ ds ∨ x = d) → dots_clock ds' = vapply (dots_clock ds) d.
Proof.
  intros Hf. apply vwf_ext; [apply dots_clock_wf|apply vapply_wf, dots_clock_wf|].
  intros b. rewrite vapply_get, !dots_clock_get, (max_ctr_add ds ds' d b Hf).
  destruct (decide (dactor d = b)), (decide (b = dactor d)); congruence.
Qed.

Section mospec.
  Implicit Types (os : list (mop oop)) (k m : N) (d : dot).

  Lemma mo_covered_spec os k m d :
    mo_covered os k m d = true ↔
      (∃ c ks, MRm c ks ∈ os ∧ k ∈ ks ∧ dcounter d <= vget c (dactor d)) ∨
      (∃ d1 c ms', MUp d1 k (ORm c ms') ∈ os ∧ m ∈ ms' ∧ dcounter d <= vget c (dactor d)).
  Proof.
    unfold mo_covered. rewrite existsb_exists. split.
    - intros (o & Hin%elem_of_list_In & Hb). destruct o as [c ks|d1 k' [d2 ms2|c ms']]; [| done |].
      + apply andb_prop in Hb as [Hk Hc]. apply bool_decide_eq_true in Hk.
        left. exists c, ks. split_and!; [done|done|lia].
      + apply andb_prop in Hb as [Hb Hc]. apply andb_prop in Hb as [Hk Hm].
        apply bool_decide_eq_true in Hk. apply bool_decide_eq_true in Hm. subst k'.
        right. exists d1, c, ms'. split_and!; [done|done|lia].
    - intros [(c & ks & Hin & Hk & Hle)|(d1 & c & ms' & Hin & Hm & Hle)].
      + exists (MRm c ks). split; [by apply elem_of_list_In|].
        rewrite (bool_decide_eq_true_2 _ Hk). cbn. lia.
      + exists (MUp d1 k (ORm c ms')). split; [by apply elem_of_list_In|].
        rewrite (bool_decide_eq_true_2 (k = k)) by done. rewrite (bool_decide_eq_true_2 _ Hm). cbn. lia.
  Qed.
  Lemma mo_covered_false os k m d :
    mo_covered os k m d = false ↔
      ¬ ((∃ c ks, MRm c ks ∈ os ∧ k ∈ ks ∧ dcounter d <= vget c (dactor d)) ∨
         (∃ d1 c ms', MUp d1 k (ORm c ms') ∈ os ∧ m ∈ ms' ∧ dcounter d <= vget c (dactor d))).
  Proof. by rewrite <- mo_covered_spec, not_true_iff_false. Qed.

  Lemma elem_of_mo_live_dots os k m d :
    d ∈ mo_live_dots os k m ↔
      (∃ d0 ms, MUp d0 k (OAdd d ms) ∈ os ∧ m ∈ ms) ∧ mo_covered os k m d = false.
  Proof.
    unfold mo_live_dots. rewrite elem_of_list_omap. split.
    - intros ([c ks|d0 k' [d' ms|c ms]] & Hin & Hb); [done| |done].
      case_bool_decide as Hk; [|done]. subst k'. case_bool_decide as Hm; [|done].
      destruct (mo_covered os k m d') eqn:Ec; [done|]. cbn in Hb. injection Hb as ->.
      split; [by exists d0, ms|done].
    - intros [(d0 & ms & Hin & Hm) Hc]. exists (MUp d0 k (OAdd d ms)). split; [done|].
      rewrite (bool_decide_eq_true_2 (k = k)) by done. rewrite (bool_decide_eq_true_2 _ Hm), Hc. done.
  Qed.

  Lemma elem_of_mo_members_mentioned os k m :
    m ∈ mo_members_mentioned os k ↔ ∃ d0 d ms, MUp d0 k (OAdd d ms) ∈ os ∧ m ∈ ms.
  Proof.
    unfold mo_members_mentioned. rewrite elem_of_list_In, in_concat. split.
    - intros (ms & Hin%elem_of_list_In & Hm%elem_of_list_In).
      apply elem_of_list_omap in Hin as ([c ks|d0 k' [d ms'|c ms']] & Hin & Hb); [done| |done].
      case_bool_decide as Hk; [|done]. subst k'. injection Hb as ->. by exists d0, d, ms.
    - intros (d0 & d & ms & Hin & Hm). exists ms. split; [|by apply elem_of_list_In].
      apply elem_of_list_In, elem_of_list_omap. exists (MUp d0 k (OAdd d ms)). split; [done|].
      by rewrite bool_decide_eq_true_2.
  Qed.

  Lemma mo_entry_get os k m a : vget (mo_entry os k m) a = max_ctr (mo_live_dots os k m) a.
  Proof. apply dots_clock_get. Qed.
  Lemma mo_entry_wf os k m : vwf (mo_entry os k m).
  Proof. apply dots_clock_wf. Qed.

  Lemma mo_entries_lookup os k m :
    mo_entries os k !! m = if vis_empty (mo_entry os k m) then None else Some (mo_entry os k m).
  Proof.
    unfold mo_entries. rewrite fn_map_lookup. destruct (decide _) as [Hin|Hin]; [done|].
    rewrite elem_of_list_to_set, elem_of_mo_members_mentioned in Hin.
    assert (mo_live_dots os k m = []) as Hnil.
    { apply list_no_elem_nil. intros x [(d0 & ms & Ho & Hm) _]%elem_of_mo_live_dots.
      apply Hin. by exists d0, x, ms. }
    unfold mo_entry. rewrite Hnil, dots_clock_nil. done.
  Qed.
  Lemma mo_entries_default os k m : default ∅ (mo_entries os k !! m) = mo_entry os k m.
  Proof.
    rewrite mo_entries_lookup. destruct (vis_empty (mo_entry os k m)) eqn:E; [|done].
    apply vis_empty_spec in E. by rewrite E.
  Qed.
  Lemma mo_entries_Some os k m mc :
    mo_entries os k !! m = Some mc → mc = mo_entry os k m ∧ vwf mc ∧ mc ≠ ∅.
  Proof.
    rewrite mo_entries_lookup. destruct (vis_empty (mo_entry os k m)) eqn:E; [done|].
    intros [= <-]. split; [done|]. split; [apply mo_entry_wf|by apply vis_empty_false].
  Qed.

  (** every surviving witness is an update dot when nested adds carry the dot of their update *)
  Definition mo_shape os : Prop := ∀ d0 k d ms, MUp d0 k (OAdd d ms) ∈ os → d = d0.

  Lemma mo_entry_le_clock os k m : mo_shape os → vleq (mo_entry os k m) (mspec_clock os).
  Proof.
    intros Hsh a. rewrite mo_entry_get. unfold mspec_clock. rewrite dots_clock_get.
    apply max_ctr_le_iff. intros d [(d0 & ms & Hin & _) _]%elem_of_mo_live_dots Ha.
    apply max_ctr_ge; [|done]. rewrite (Hsh _ _ _ _ Hin). unfold mall_dots.
    apply elem_of_list_omap. by exists (MUp d0 k (OAdd d ms)).
  Qed.

  (** a key all of whose update dots are covered by key removes has no member *)
  Lemma mo_entries_key_covered os k :
    mo_shape os →
    (∀ d o, MUp d k o ∈ os → mcovered os k d = true) →
    mo_entries os k = ∅.
  Proof.
    intros Hsh Hcov. apply map_eq. intros m. rewrite lookup_empty, mo_entries_lookup.
    assert (mo_live_dots os k m = []) as Hnil.
    { apply list_no_elem_nil. intros x [(d0 & ms & Ho & Hm) Hc]%elem_of_mo_live_dots.
      pose proof (Hsh _ _ _ _ Ho) as ->. apply Hcov in Ho. apply mcovered_spec in Ho.
      apply mo_covered_false in Hc. apply Hc. by left. }
    unfold mo_entry. rewrite Hnil, dots_clock_nil. done.
  Qed.

  (** ** learning one more op *)
  Section step.
    Context (os os' : list (mop oop)) (new : mop oop).
    Hypothesis Hos' : ∀ o, o ∈ os' ↔ o ∈ os ∨ o = new.

    (** a key remove *)
    Lemma step_krm_live c ks k m x : new = MRm c ks →
      x ∈ mo_live_dots os' k m ↔
        x ∈ mo_live_dots os k m ∧ ¬ (k ∈ ks ∧ dcounter x <= vget c (dactor x)).
    Proof using Hos'.
      intros ->. rewrite !elem_of_mo_live_dots, !mo_covered_false. setoid_rewrite Hos'. split.
      - intros [(d0 & ms & [Hin|?] & Hm) Hc]; [|done]. split; [split; [by exists d0, ms|]|].
        + intros [(c' & ks' & Hin' & ?)|(d1 & c' & ms' & Hin' & ?)]; apply Hc.
          * left. exists c', ks'. tauto.
          * right. exists d1, c', ms'. tauto.
        + intros [Hk Hle]. apply Hc. left. exists c, ks. tauto.
      - intros [[(d0 & ms & Hin & Hm) Hc] Hn]. split; [exists d0, ms; tauto|].
        intros [(c' & ks' & [Hin'|Heq] & Hk & Hle)|(d1 & c' & ms' & [Hin'|Heq] & Hm' & Hle)]; try done.
        + apply Hc. left. by exists c', ks'.
        + injection Heq as -> ->. tauto.
        + apply Hc. right. by exists d1, c', ms'.
    Qed.
    Lemma step_krm_entry c ks k m : new = MRm c ks →
      mo_entry os' k m = if decide (k ∈ ks) then vreset (mo_entry os k m) c else mo_entry os k m.
    Proof using Hos'.
      intros Hn. unfold mo_entry. destruct (decide (k ∈ ks)) as [Hk|Hk].
      - apply dots_clock_filter. intros x. rewrite (step_krm_live c ks k m x Hn). tauto.
      - apply dots_clock_same. intros x. rewrite (step_krm_live c ks k m x Hn). tauto.
    Qed.
    Lemma step_krm_entries c ks k : new = MRm c ks →
      mo_entries os' k =
        if decide (k ∈ ks)
        then map_imap (λ _ mc, let mc' := vreset mc c in if vis_empty mc' then None else Some mc')
                      (mo_entries os k)
        else mo_entries os k.
    Proof using Hos'.
      intros Hn. apply map_eq. intros m. rewrite mo_entries_lookup, (step_krm_entry c ks k m Hn).
      destruct (decide (k ∈ ks)) as [Hk|Hk]; [|by rewrite mo_entries_lookup].
      rewrite map_lookup_imap, mo_entries_lookup.
      destruct (vis_empty (mo_entry os k m)) eqn:E; [|done].
      apply vis_empty_spec in E. rewrite E, vreset_empty_l. done.
    Qed.

    (** an update carrying a nested remove *)
    Lemma step_orm_live d1 k1 c ms k m x : new = MUp d1 k1 (ORm c ms) →
      x ∈ mo_live_dots os' k m ↔
        x ∈ mo_live_dots os k m ∧ ¬ ((k = k1 ∧ m ∈ ms) ∧ dcounter x <= vget c (dactor x)).
    Proof using Hos'.
      intros ->. rewrite !elem_of_mo_live_dots, !mo_covered_false. setoid_rewrite Hos'. split.
      - intros [(d0 & ms0 & [Hin|?] & Hm) Hc]; [|done]. split; [split; [by exists d0, ms0|]|].
        + intros [(c' & ks' & Hin' & ?)|(d2 & c' & ms' & Hin' & ?)]; apply Hc.
          * left. exists c', ks'. tauto.
          * right. exists d2, c', ms'. tauto.
        + intros [[-> Hk] Hle]. apply Hc. right. exists d1, c, ms. tauto.
      - intros [[(d0 & ms0 & Hin & Hm) Hc] Hn]. split; [exists d0, ms0; tauto|].
        intros [(c' & ks' & [Hin'|Heq] & Hk & Hle)|(d2 & c' & ms' & [Hin'|Heq] & Hm' & Hle)]; try done.
        + apply Hc. left. by exists c', ks'.
        + apply Hc. right. by exists d2, c', ms'.
        + injection Heq as -> -> -> ->. tauto.
    Qed.
    Lemma step_orm_entry d1 k1 c ms k m : new = MUp d1 k1 (ORm c ms) →
      mo_entry os' k m =
        if decide (k = k1 ∧ m ∈ ms) then vreset (mo_entry os k m) c else mo_entry os k m.
    Proof using Hos'.
      intros Hn. unfold mo_entry. destruct (decide (k = k1 ∧ m ∈ ms)) as [Hk|Hk].
      - apply dots_clock_filter. intros x. rewrite (step_orm_live d1 k1 c ms k m x Hn). tauto.
      - apply dots_clock_same. intros x. rewrite (step_orm_live d1 k1 c ms k m x Hn). tauto.
    Qed.
    Lemma step_orm_entries d1 k1 c ms k : new = MUp d1 k1 (ORm c ms) →
      mo_entries os' k =
        if decide (k = k1) then orm_entries (mo_entries os k) (list_to_set ms) c else mo_entries os k.
    Proof using Hos'.
      intros Hn. apply map_eq. intros m. rewrite mo_entries_lookup, (step_orm_entry d1 k1 c ms k m Hn).
      destruct (decide (k = k1)) as [->|Hk].
      - rewrite orm_entries_lookup, mo_entries_lookup.
        destruct (decide (k1 = k1 ∧ m ∈ ms)) as [[_ Hm]|Hm].
        + destruct (vis_empty (mo_entry os k1 m)) eqn:E.
          * apply vis_empty_spec in E. rewrite E, vreset_empty_l. done.
          * rewrite bool_decide_eq_true_2; [done|]. by apply elem_of_list_to_set.
        + destruct (vis_empty (mo_entry os k1 m)) eqn:E; [done|].
          rewrite bool_decide_eq_false_2; [done|]. rewrite elem_of_list_to_set. tauto.
      - rewrite decide_False by tauto. by rewrite mo_entries_lookup.
    Qed.

    (** an update carrying a nested add whose dot nothing known covers *)
    Lemma step_add_covered d1 k1 d ms k m x : new = MUp d1 k1 (OAdd d ms) →
      mo_covered os' k m x = mo_covered os k m x.
    Proof using Hos'.
      intros ->. apply eq_true_iff_eq. rewrite !mo_covered_spec. setoid_rewrite Hos'. split.
      - intros [(c' & ks' & [Hin'|Heq] & ?)|(d2 & c' & ms' & [Hin'|Heq] & ?)]; try done.
        + left. by exists c', ks'.
        + right. by exists d2, c', ms'.
      - intros [(c' & ks' & Hin' & ?)|(d2 & c' & ms' & Hin' & ?)].
        + left. exists c', ks'. tauto.
        + right. exists d2, c', ms'. tauto.
    Qed.
    Lemma step_add_live d1 k1 d ms k m x : new = MUp d1 k1 (OAdd d ms) →
      x ∈ mo_live_dots os' k m ↔
        x ∈ mo_live_dots os k m ∨ (x = d ∧ (k = k1 ∧ m ∈ ms) ∧ mo_covered os k m d = false).
    Proof using Hos'.
      intros Hn. rewrite !elem_of_mo_live_dots, (step_add_covered d1 k1 d ms k m x Hn). subst new.
      setoid_rewrite Hos'. split.
      - intros [(d0 & ms0 & [Hin|Heq] & Hm) Hc].
        + left. split; [by exists d0, ms0|done].
        + injection Heq as -> -> -> ->. right. tauto.
      - intros [[(d0 & ms0 & Hin & Hm) Hc]|(-> & [-> Hm] & Hc)]; (split; [|done]).
        + exists d0, ms0. tauto.
        + exists d1, ms. tauto.
    Qed.
    Lemma step_add_entry d1 k1 d ms k m : new = MUp d1 k1 (OAdd d ms) →
      (∀ m, mo_covered os k1 m d = false) →
      mo_entry os' k m =
        if decide (k = k1 ∧ m ∈ ms) then vapply (mo_entry os k m) d else mo_entry os k m.
    Proof using Hos'.
      intros Hn Hnc. unfold mo_entry. destruct (decide (k = k1 ∧ m ∈ ms)) as [[-> Hm]|Hk].
      - apply dots_clock_add. intros x. rewrite (step_add_live d1 k1 d ms k1 m x Hn).
        specialize (Hnc m). tauto.
      - apply dots_clock_same. intros x. rewrite (step_add_live d1 k1 d ms k m x Hn). tauto.
    Qed.
    Lemma step_add_entries d1 k1 d ms k : new = MUp d1 k1 (OAdd d ms) →
      (∀ m, mo_covered os k1 m d = false) → dcounter d ≠ 0 →
      mo_entries os' k =
        if decide (k = k1) then oadd_entries (mo_entries os k) ms d else mo_entries os k.
    Proof using Hos'.
      intros Hn Hnc Hd. apply map_eq. intros m.
      rewrite mo_entries_lookup, (step_add_entry d1 k1 d ms k m Hn Hnc).
      destruct (decide (k = k1)) as [->|Hk].
      - rewrite oadd_entries_lookup, mo_entries_default.
        destruct (decide (m ∈ ms)) as [Hm|Hm].
        + rewrite decide_True by done.
          assert (vapply (mo_entry os k1 m) d ≠ ∅) as Hne.
          { apply (vne_get _ (dactor d)). rewrite vapply_get, decide_True by done. lia. }
          apply vis_empty_false in Hne. by rewrite Hne.
        + rewrite decide_False by tauto. by rewrite mo_entries_lookup.
      - rewrite decide_False by tauto. by rewrite mo_entries_lookup.
    Qed.
  End step.
End mospec.

(** * Part 3: the nested Orswot *)

(** context [c] covers nothing of the witness clock [mc] *)
Definition inert (mc c : gmap N N) : Prop := ∀ a, vget mc a = 0 ∨ vget c a < vget mc a.
(** member tables: witness clocks store no zero and are not empty *)
Definition eswf (es : gmap N (gmap N N)) : Prop := ∀ m mc, es !! m = Some mc → vwf mc ∧ mc ≠ ∅.
(** the nested value under a key of a map with clock [clk]: its clock is below the map
    clock, and every pending remove is below the map clock and has already been applied
    to the members it names *)
Definition vinv (clk : gmap N N) (v : orswot) : Prop :=
  vleq (oclock v) clk ∧
  ∀ c ms, odeferred v !! c = Some ms →
    vleq c clk ∧ ∀ m mc, m ∈ ms → oentries v !! m = Some mc → inert mc c.

Lemma inert_vreset_id mc c : vwf mc → inert mc c → vreset mc c = mc.
Proof.
  intros Hw Hi. apply vwf_ext; [by apply vreset_wf|done|]. intros a. rewrite vreset_get.
  destruct (Hi a); case_match; lia.
Qed.
Lemma inert_vreset mc c c' : inert mc c' → inert (vreset mc c) c'.
Proof. intros Hi a. rewrite vreset_get. destruct (Hi a); case_match; lia. Qed.
Lemma inert_vreset_self mc c : inert (vreset mc c) c.
Proof. intros a. rewrite vreset_get. case_match; lia. Qed.
Lemma inert_vreset_both mc c c' : inert mc c' → inert (vreset mc c) (vreset c' c).
Proof. intros Hi a. rewrite !vreset_get. destruct (Hi a); repeat case_match; lia. Qed.
Lemma inert_vapply mc c d : inert mc c → vget c (dactor d) < dcounter d → inert (vapply mc d) c.
Proof. intros Hi Hd a. rewrite vapply_get. destruct (Hi a), (decide (a = dactor d)) as [->|]; lia. Qed.
Lemma inert_empty c : inert ∅ c.
Proof. intros a. left. apply vget_empty. Qed.

Lemma eswf_empty : eswf ∅.
Proof. intros m mc. by rewrite lookup_empty. Qed.

Lemma vinv_mono clk clk' v : vleq clk clk' → vinv clk v → vinv clk' v.
Proof.
  intros Hle [Hc Hd]. split; [by eapply vleq_trans|]. intros c ms Hl.
  destruct (Hd c ms Hl) as [Hcc Hin]. split; [by eapply vleq_trans|done].
Qed.
Lemma vinv_new clk : vinv clk onew.
Proof. split; [apply vleq_empty_min|]. intros c ms. cbn. by rewrite lookup_empty. Qed.

Lemma orm_entries_inert es ms c : eswf es →
  (∀ m mc, m ∈ ms → es !! m = Some mc → inert mc c) → orm_entries es ms c = es.
Proof.
  intros Hw Hi. apply map_eq. intros m. rewrite orm_entries_lookup.
  destruct (es !! m) as [mc|] eqn:E; [|done]. case_bool_decide as Hm; [|done].
  destruct (Hw m mc E) as [Hwf Hne]. rewrite (inert_vreset_id mc c Hwf (Hi m mc Hm E)).
  apply vis_empty_false in Hne. by rewrite Hne.
Qed.

(** replaying inert pending removes changes no member; no pending remove appears *)
Lemma oapply_deferred_inert v : eswf (oentries v) →
  (∀ c ms m mc, odeferred v !! c = Some ms → m ∈ ms → oentries v !! m = Some mc → inert mc c) →
  oclock (oapply_deferred v) = oclock v ∧ oentries (oapply_deferred v) = oentries v ∧
  ∀ c ms, odeferred (oapply_deferred v) !! c = Some ms → odeferred v !! c = Some ms.
Proof.
  intros Hw. unfold oapply_deferred.
  apply (map_fold_ind (λ acc (D : gmap (gmap N N) (gset N)),
    (∀ c ms m mc, D !! c = Some ms → m ∈ ms → oentries v !! m = Some mc → inert mc c) →
    oclock acc = oclock v ∧ oentries acc = oentries v ∧
    ∀ c ms, odeferred acc !! c = Some ms → D !! c = Some ms)).
  - intros _. cbn. done.
  - intros c ms D acc Hc IH Hin.
    destruct IH as (IHc & IHe & IHd).
    { intros c' ms' m mc Hl. apply (Hin c' ms' m mc). rewrite lookup_insert_ne; [done|]. intros <-. congruence. }
    rewrite oapply_rm_eq. cbn [oclock oentries odeferred]. split_and!; [done| |].
    + rewrite IHe. apply orm_entries_inert; [done|]. intros m mc Hm He.
      apply (Hin c ms m mc); [by rewrite lookup_insert|done|done].
    + intros c' ms'. destruct (vle c (oclock acc)).
      * intros Hl. specialize (IHd _ _ Hl). rewrite lookup_insert_ne; [done|]. intros <-. congruence.
      * rewrite odefer_lookup. destruct (decide (c' = c)) as [->|Hne].
        -- assert (odeferred acc !! c = None) as ->.
           { destruct (odeferred acc !! c) eqn:E; [|done]. apply IHd in E. congruence. }
           intros [= <-]. by rewrite lookup_insert.
        -- intros Hl. rewrite lookup_insert_ne by done. by apply IHd.
Qed.

(** a nested add whose dot is fresh for the map clock *)
Lemma nested_add v clk d ms : eswf (oentries v) → vinv clk v → vget clk (dactor d) < dcounter d →
  oentries (oapply v (OAdd d ms)) = oadd_entries (oentries v) ms d ∧
  vinv (vapply clk d) (oapply v (OAdd d ms)).
Proof.
  intros Hw [Hc Hd] Hf. cbn [oapply].
  pose proof (Hc (dactor d)) as Hca.
  destruct (dcounter d <=? vget (oclock v) (dactor d)) eqn:Eg; [lia|].
  set (v1 := Orswot _ _ _).
  assert (eswf (oentries v1)) as Hw1.
  { subst v1. cbn [oentries]. intros m mc. rewrite oadd_entries_lookup. destruct (decide (m ∈ ms)).
    - intros [= <-]. split.
      + apply vapply_wf. destruct (oentries v !! m) eqn:E; cbn; [by apply (Hw m)|apply vwf_empty].
      + apply (vne_get _ (dactor d)). rewrite vapply_get, decide_True by done. lia.
    - apply Hw. }
  assert (∀ c ms' m mc, odeferred v1 !! c = Some ms' → m ∈ ms' → oentries v1 !! m = Some mc → inert mc c) as Hi1.
  { subst v1. cbn [oentries odeferred]. intros c ms' m mc Hl Hm. destruct (Hd c ms' Hl) as [Hcc Hin].
    rewrite oadd_entries_lookup. destruct (decide (m ∈ ms)).
    - intros [= <-]. apply inert_vapply; [|specialize (Hcc (dactor d)); lia].
      destruct (oentries v !! m) as [mc|] eqn:E; cbn; [by apply (Hin m)|apply inert_empty].
    - by apply Hin. }
  destruct (oapply_deferred_inert v1 Hw1 Hi1) as (E1 & E2 & E3).
  split; [by rewrite E2|]. split.
  - rewrite E1. subst v1. cbn [oclock]. intros a. rewrite !vapply_get. specialize (Hc a). destruct (decide _); lia.
  - intros c ms' Hl. apply E3 in Hl. split.
    + destruct (Hd c ms' Hl) as [Hcc _]. intros a. specialize (Hcc a). pose proof (vapply_mono clk d a). lia.
    + intros m mc Hm. rewrite E2. by apply (Hi1 c ms').
Qed.

(** a nested remove whose context is below the map clock *)
Lemma nested_rm v clk c ms : vinv clk v → vleq c clk →
  oentries (oapply v (ORm c ms)) = orm_entries (oentries v) (list_to_set ms) c ∧
  vinv clk (oapply v (ORm c ms)).
Proof.
  intros [Hc Hd] Hcc. cbn [oapply]. rewrite oapply_rm_eq. cbn [oclock oentries odeferred].
  split; [done|]. split; [done|].
  assert (∀ c' ms', odeferred v !! c' = Some ms' → ∀ m mc, m ∈ ms' →
            orm_entries (oentries v) (list_to_set ms) c !! m = Some mc → inert mc c') as Hold.
  { intros c1 ms1 Hl m mc Hm. rewrite orm_entries_lookup. destruct (oentries v !! m) as [mc0|] eqn:E; [|done].
    destruct (Hd c1 ms1 Hl) as [_ Hin]. specialize (Hin m mc0 Hm E).
    case_bool_decide.
    - destruct (vis_empty _); [done|]. intros [= <-]. by apply inert_vreset.
    - by intros [= <-]. }
  assert (∀ m mc, m ∈ (list_to_set ms : gset N) →
            orm_entries (oentries v) (list_to_set ms) c !! m = Some mc → inert mc c) as Hnew.
  { intros m mc Hm. rewrite orm_entries_lookup. destruct (oentries v !! m); [|done].
    rewrite bool_decide_eq_true_2 by done. destruct (vis_empty _); [done|]. intros [= <-]. apply inert_vreset_self. }
  intros c' ms'. cbn [oclock oentries odeferred]. destruct (vle c (oclock v)).
  - intros Hl. split; [by apply (Hd c' ms')|]. by apply Hold.
  - rewrite odefer_lookup. destruct (decide (c' = c)) as [->|Hne].
    + intros [= <-]. split; [done|]. intros m mc Hm.
      destruct (odeferred v !! c) as [old|] eqn:E.
      * apply elem_of_union in Hm as [Hm|Hm]; [by apply (Hold c old)|by apply Hnew].
      * by apply Hnew.
    + intros Hl. split; [by apply (Hd c' ms')|by apply Hold].
Qed.

(** the reset a key remove performs on the nested value *)
Lemma nested_reset v clk c : vinv clk v → vinv clk (oreset v c).
Proof.
  intros [Hc Hd]. split.
  - cbn [oreset oclock]. intros a. rewrite vreset_get. specialize (Hc a). case_match; lia.
  - cbn [oreset odeferred oentries]. intros c' ms' Hl.
    assert (is_Some (oreset_deferred (odeferred v) c !! c')) as Hs by eauto.
    apply oreset_deferred_dom in Hs as [Hne (k0 & [ms0 H0] & <-)].
    split.
    { destruct (Hd k0 ms0 H0) as [Hk _]. intros a. rewrite vreset_get. specialize (Hk a). case_match; lia. }
    intros m mc Hm.
    assert (m ∈ default ∅ (oreset_deferred (odeferred v) c !! vreset k0 c)) as Hm' by (by rewrite Hl).
    apply oreset_deferred_mem in Hm' as [_ (k1 & ms1 & H1 & Hm1 & Hr)].
    rewrite map_lookup_imap. destruct (oentries v !! m) as [mc0|] eqn:E; [|done]. cbn.
    destruct (vis_empty _); [done|]. intros [= <-]. rewrite <- Hr. apply inert_vreset_both.
    destruct (Hd k1 ms1 H1) as [_ Hin]. by apply (Hin m).
Qed.

Local Notation vo := orswot_valops.

(** * Part 4: the refinement theorem *)

(** ** knowledge and the key-level clock *)
Lemma known_ops_mono_K {Op} (H : list (oprec Op)) K K' o : K ⊆ K' → o ∈ known_ops H K → o ∈ known_ops H K'.
Proof. intros Hs (i & r & Hi & HiK & Hv)%elem_of_known_ops. apply elem_of_known_ops. exists i, r. set_solver. Qed.
Lemma known_ops_mono_H {Op} (H H' : list (oprec Op)) K o : o ∈ known_ops H K → o ∈ known_ops (H ++ H') K.
Proof.
  intros (i & r & Hi & HiK & Hv)%elem_of_known_ops. apply elem_of_known_ops. exists i, r.
  split; [by apply lookup_app_l_Some|done].
Qed.
Lemma elem_of_mall_dots {O} (os : list (mop O)) d : d ∈ mall_dots os ↔ ∃ k o, MUp d k o ∈ os.
Proof.
  unfold mall_dots. rewrite elem_of_list_omap. split.
  - intros ([c ks|d' k o] & Hin & Hb); [done|]. injection Hb as ->. by exists k, o.
  - intros (k & o & Hin). by exists (MUp d k o).
Qed.
Lemma mspec_clock_mono {O} (os os' : list (mop O)) :
  (∀ o, o ∈ os → o ∈ os') → vleq (mspec_clock os) (mspec_clock os').
Proof.
  intros Hs a. unfold mspec_clock. rewrite !dots_clock_get. apply max_ctr_le_iff. intros d Hd Ha.
  apply max_ctr_ge; [|done]. apply elem_of_mall_dots in Hd as (k & o & Hin).
  apply elem_of_mall_dots. exists k, o. by apply Hs.
Qed.
Lemma mspec_entry_le_clock {O} (os : list (mop O)) k : vleq (mspec_entry_clock os k) (mspec_clock os).
Proof.
  rewrite mspec_entry_clock_abs, mspec_clock_abs. intros b. rewrite ospec_entry_get. apply live_le_clock.
Qed.
Lemma vcmp_ge a b : vwf a → vwf b → vleq b a → vcmp a b = Some Eq ∨ vcmp a b = Some Gt.
Proof.
  intros Ha Hb Hle. destruct (decide (a = b)) as [->|Hne]; [left; by apply vcmp_Eq|right; by apply vcmp_Gt].
Qed.
Lemma mo_entries_eswf os k : eswf (mo_entries os k).
Proof. intros m mc Hm. by destruct (mo_entries_Some os k m mc Hm) as (_ & ? & ?). Qed.

(** ** what the refinement needs to know about the history *)
Definition op_wf (H : list (oprec (mop oop))) (D : gset nat) (o : mop oop) : Prop :=
  match o with
  | MRm c _ => vleq c (mspec_clock (known_ops H D))
  | MUp d _ (ORm c _) => vleq c (mspec_clock (known_ops H D))
  | MUp d _ (OAdd d' _) => d' = d
  end.
Definition hist_facts (H : list (oprec (mop oop))) : Prop :=
  ∀ j r, H !! j = Some r → op_wf H (op_deps r) (op_val r).

(** ** the invariant *)
Definition mo_inv (H : list (oprec (mop oop))) (s : cmap orswot) (K : gset nat) : Prop :=
  mdeferred s = ∅ ∧
  ∀ k e, mentries s !! k = Some e →
    oentries (eval e) = mo_entries (known_ops H K) k ∧ vinv (mclock s) (eval e).

Section main.
  Context (H : list (oprec (mop oop))) (Hmo : mohist_ok H) (Hf : hist_facts H).
  Let Hmap : maphist_ok vo H := mohist_maphist H Hmo.
  Let HH : owfH (habs H) := maphist_ok_wf vo H Hmap.
  Implicit Types (s : cmap orswot) (K : gset nat) (k m : N).

  Lemma mo_shape_known K : mo_shape (known_ops H K).
  Proof using Hf.
    intros d0 k d ms (i & r & Hi & _ & Hv)%elem_of_known_ops. specialize (Hf i r Hi).
    rewrite Hv in Hf. done.
  Qed.

  Lemma key_clock s K : moreach H s K → mclock s = mspec_clock (known_ops H K) ∧ ovalid (habs H) K.
  Proof using Hmo.
    intros Hr%(moreach_mapreach H s K Hmo). split.
    - by destruct (map_keys_reach_mspec vo H HH s K Hr).
    - by destruct (map_keys_reach_spec vo H HH s K Hr).
  Qed.

  (** contexts of the ops whose dependencies are known are below the map clock *)
  Lemma ctx_le s K j r : moreach H s K → H !! j = Some r → op_deps r ⊆ K →
    match op_val r with
    | MRm c _ | MUp _ _ (ORm c _) => vleq c (mclock s)
    | _ => True
    end.
  Proof using Hmo Hf.
    intros Hr Hj Hd. destruct (key_clock s K Hr) as [-> _]. specialize (Hf j r Hj).
    destruct (op_val r) as [c ks|d k [d' ms|c ms]]; cbn in *; try done;
      (eapply vleq_trans; [exact Hf|]; apply mspec_clock_mono; intros o; by apply known_ops_mono_K).
  Qed.
  Lemma ctx_known s K : moreach H s K →
    (∀ c ks, MRm c ks ∈ known_ops H K → vleq c (mclock s)) ∧
    (∀ d k c ms, MUp d k (ORm c ms) ∈ known_ops H K → vleq c (mclock s)).
  Proof using Hmo Hf.
    intros Hr. split.
    - intros c ks (i & r & Hi & HiK & Hv)%elem_of_known_ops.
      pose proof (ctx_le s K i r Hr Hi (creach_closed _ _ _ H s K Hr i r HiK Hi)) as Hc. by rewrite Hv in Hc.
    - intros d k c ms (i & r & Hi & HiK & Hv)%elem_of_known_ops.
      pose proof (ctx_le s K i r Hr Hi (creach_closed _ _ _ H s K Hr i r HiK Hi)) as Hc. by rewrite Hv in Hc.
  Qed.

  (** the dedup gate of the map recognises exactly the known updates *)
  Lemma up_gate s K i r d k o : moreach H s K → H !! i = Some r → op_val r = MUp d k o →
    (i ∈ K → dcounter d <= vget (mclock s) (dactor d)) ∧
    (i ∉ K → vget (mclock s) (dactor d) < dcounter d) ∧
    dcounter d ≠ 0.
  Proof using Hmo.
    intros Hr Hi Hv. destruct (key_clock s K Hr) as [Ec Hval].
    pose proof (hmap_lookup_Some oabs H i r Hi) as Hi'.
    assert (op_val (OpRec (op_author r) (oabs (op_val r)) (op_deps r)) = OAdd d [k]) as Hv'.
    { cbn. by rewrite Hv. }
    split_and!.
    - intros HiK. rewrite Ec. unfold mspec_clock. rewrite dots_clock_get. apply max_ctr_ge; [|done].
      apply elem_of_mall_dots. exists k, o. apply elem_of_known_ops. by exists i, r.
    - intros HiK. destruct (decide (dcounter d <= vget (mclock s) (dactor d))) as [Hle|]; [|lia].
      destruct HiK. apply (seen (habs H) K i _ d [k] HH Hval Hi' Hv').
      by rewrite known_ops_habs, <- mspec_clock_abs, <- Ec.
    - destruct (owfH_add _ _ _ _ _ HH Hi' Hv') as (_ & Hc & _). lia.
  Qed.

  Lemma fresh_not_covered s K d k m : moreach H s K → vget (mclock s) (dactor d) < dcounter d →
    mo_covered (known_ops H K) k m d = false.
  Proof using Hmo Hf.
    intros Hr Hd. destruct (ctx_known s K Hr) as [C1 C2]. apply mo_covered_false.
    intros [(c & ks & Hin & _ & Hle)|(d1 & c & ms & Hin & _ & Hle)].
    - specialize (C1 c ks Hin (dactor d)). lia.
    - specialize (C2 _ _ _ _ Hin (dactor d)). lia.
  Qed.

  (** an absent key has no member in the specification *)
  Lemma absent_spec s K k : moreach H s K → mentries s !! k = None → mo_entries (known_ops H K) k = ∅.
  Proof using Hmo Hf.
    intros Hr Hn. apply mo_entries_key_covered; [apply mo_shape_known|]. intros d o Hin.
    destruct (mcovered (known_ops H K) k d) eqn:Ec; [done|]. exfalso.
    apply (moreach_mapreach H s K Hmo) in Hr.
    destruct (map_key_present_iff vo H HH s K k Hr) as (_ & Hp & _).
    assert (k ∈ dom (mentries s)) as Hd.
    { apply Hp. exists d, o. split; [done|]. rewrite <- mcovered_spec. by rewrite Ec. }
    apply elem_of_dom in Hd as [? ?]. congruence.
  Qed.

  Lemma inv_default s K k : moreach H s K → mo_inv H s K →
    let e0 := default (MEntry ∅ onew) (mentries s !! k) in
    oentries (eval e0) = mo_entries (known_ops H K) k ∧ vinv (mclock s) (eval e0).
  Proof using Hmo Hf.
    intros Hr [_ Hi]. destruct (mentries s !! k) as [e|] eqn:E; cbn.
    - by apply Hi.
    - split; [symmetry; by eapply absent_spec|apply vinv_new].
  Qed.

  (** ** the step *)
  Lemma mo_step s K i r : moreach H s K → mo_inv H s K → H !! i = Some r → adm_causal H K i →
    mo_inv H (mapply vo s (op_val r)) (K ∪ {[i]}).
  Proof using Hmo Hf.
    intros Hr Hinv Hi (r' & Hi' & Hdeps). assert (r' = r) as -> by congruence. clear Hi'.
    pose proof (λ o, known_ops_add_elem H K i r o Hi) as Hos'.
    pose proof (ctx_le s K i r Hr Hi Hdeps) as Hctx.
    pose proof (Hf i r Hi) as Hshape.
    pose proof (owfH_habs_mopwf H i r HH Hi) as Hwf.
    destruct (key_clock s K Hr) as [Ec _].
    destruct (op_val r) as [c ks|d k op] eqn:Ho.
    - (* key remove *)
      cbn in Hwf. destruct Hinv as [Hdef Hent].
      assert (mapply vo s (MRm c ks) = CMap (mclock s) (mrm_entries vo (mentries s) ks c) (mdeferred s)) as ->.
      { cbn [mapply]. unfold mapply_rm.
        destruct (vcmp_ge (mclock s) c) as [-> | ->]; [rewrite Ec; apply dots_clock_wf|done|done|done|done]. }
      split; [done|]. cbn [mentries mclock]. intros k e'. rewrite mrm_entries_lookup.
      destruct (mentries s !! k) as [e|] eqn:E; [|done]. cbn [mbind option_bind].
      destruct (Hent k e E) as [E1 V1]. case_bool_decide as Hk.
      + destruct (vis_empty _); [done|]. intros [= <-]. cbn [eval]. split.
        * cbn [v_reset orswot_valops oreset oentries]. rewrite E1.
          rewrite (step_krm_entries _ _ _ Hos' c ks k eq_refl), decide_True by done. done.
        * by apply nested_reset.
      + intros [= <-]. split; [|done].
        rewrite (step_krm_entries _ _ _ Hos' c ks k eq_refl), decide_False by done. done.
    - destruct (up_gate s K i r d k op Hr Hi Ho) as (G1 & G2 & G3).
      destruct (decide (i ∈ K)) as [HiK|HiK].
      + rewrite mapply_dedup by auto. replace (K ∪ {[i]}) with K by set_solver. done.
      + specialize (G2 HiK). rewrite mapply_up_fresh by done.
        destruct (inv_default s K k Hr Hinv) as [E0 V0]. destruct Hinv as [Hdef Hent].
        rewrite mapply_deferred_empty by done.
        split; [done|]. cbn [mentries mclock]. intros k' e'.
        destruct (decide (k' = k)) as [->|Hne].
        * rewrite lookup_insert. intros [= <-]. cbn [eval v_apply v_default orswot_valops] in *.
          destruct op as [d' ms|c ms].
          -- cbn in Hshape. subst d'.
             destruct (nested_add _ (mclock s) d ms (eq_ind_r eswf (mo_entries_eswf _ _) E0) V0 G2) as [N1 N2].
             split; [|done]. rewrite N1, E0.
             rewrite (step_add_entries _ _ _ Hos' d k d ms k eq_refl), decide_True; [done|done| |done].
             intros m. by eapply fresh_not_covered.
          -- destruct (nested_rm _ (mclock s) c ms V0 Hctx) as [N1 N2]. split.
             ++ rewrite N1, E0. rewrite (step_orm_entries _ _ _ Hos' d k c ms k eq_refl), decide_True by done. done.
             ++ eapply vinv_mono; [|done]. intros a. apply vapply_mono.
        * rewrite lookup_insert_ne by done. intros He'. destruct (Hent k' e' He') as [E V]. split.
          -- rewrite E. destruct op as [d' ms|c ms].
             ++ cbn in Hshape. subst d'.
                rewrite (step_add_entries _ _ _ Hos' d k d ms k' eq_refl), decide_False; [done|done| |done].
                intros m. by eapply fresh_not_covered.
             ++ rewrite (step_orm_entries _ _ _ Hos' d k c ms k' eq_refl), decide_False by done. done.
          -- eapply vinv_mono; [|done]. intros a. apply vapply_mono.
  Qed.

  Theorem mo_inv_reach s K : moreach H s K → mo_inv H s K.
  Proof using Hmo Hf.
    induction 1 as [|s K i o Hr IH Ho Ha|s1 K1 s2 K2 Hm Hr1 IH1 Hr2 IH2]; [| |done].
    - split; [done|]. intros k e. cbn. by rewrite lookup_empty.
    - by apply mo_step.
  Qed.

  Theorem mo_refine s K k : moreach H s K → mo_state_entries s k = mo_entries (known_ops H K) k.
  Proof using Hmo Hf.
    intros Hr. destruct (mo_inv_reach s K Hr) as [_ Hent]. unfold mo_state_entries.
    destruct (mentries s !! k) as [e|] eqn:E.
    - by destruct (Hent k e E).
    - symmetry. by eapply absent_spec.
  Qed.
End main.

(** ** the facts hold of every API-generated history *)
Lemma op_wf_mono H H' D o : op_wf H D o → op_wf (H ++ H') D o.
Proof.
  assert (∀ c, vleq c (mspec_clock (known_ops H D)) → vleq c (mspec_clock (known_ops (H ++ H') D))) as Hmono.
  { intros c Hc. eapply vleq_trans; [exact Hc|]. apply mspec_clock_mono. intros o'. apply known_ops_mono_H. }
  unfold op_wf. destruct o as [c ks|d k [d' ms|c ms]]; auto.
Qed.

(** what the API generates at a reachable state satisfies them *)
Lemma mogen_op_wf H s K a cmd o :
  mohist_ok H → hist_facts H → moreach H s K → mogen s a cmd = Some o → op_wf H K o.
Proof.
  intros Hok Hf Hr Hgen.
  pose proof (maphist_ok_wf vo H (mohist_maphist H Hok)) as HH.
  destruct (mo_inv_reach H Hok Hf s K Hr) as [_ Hent].
  pose proof (moreach_mapreach H s K Hok Hr) as Hr'.
  destruct (map_keys_reach_mspec vo H HH s K Hr') as (Ec & _ & Ee & _).
  destruct cmd as [k ms|k ms [m'|]|ks [k'|]]; cbn in Hgen; injection Hgen as <-;
    unfold mupdate, oadd_all, orm_all; cbn [op_wf]; rewrite <- ?Ec.
  - done.
  - destruct (mentries s !! k) as [e|] eqn:E; cbn.
    + destruct (Hent k e E) as [E1 _]. rewrite E1.
      destruct (mo_entries (known_ops H K) k !! m') as [mc|] eqn:Em; cbn; [|apply vleq_empty_min].
      apply mo_entries_Some in Em as [-> _]. rewrite Ec. apply mo_entry_le_clock. by apply mo_shape_known.
    + rewrite lookup_empty. apply vleq_empty_min.
  - destruct (mentries s !! k) as [e|] eqn:E; cbn.
    + by destruct (Hent k e E) as [_ [V2 _]].
    + apply vleq_empty_min.
  - replace (default ∅ (eclock <$> mentries s !! k')) with (mentry_clock s k').
    + rewrite Ee, Ec. apply mspec_entry_le_clock.
    + unfold mentry_clock. by destruct (mentries s !! k').
  - apply vleq_refl.
Qed.

Lemma mohist_facts H : mohist_ok H → hist_facts H.
Proof.
  induction 1 as [|H s K a cmd o Hok IH Hr Hown Hgen]; [intros j r Hj; by rewrite lookup_nil in Hj|].
  intros j r Hj. apply op_wf_mono. destruct (decide (j < length H)%nat) as [Hl|Hge].
  - rewrite lookup_app_l in Hj by done. by apply (IH j r).
  - assert (j = length H) as ->.
    { apply lookup_lt_Some in Hj. rewrite app_length in Hj. cbn in Hj. lia. }
    rewrite lookup_app_r, Nat.sub_diag in Hj by lia. cbn in Hj. injection Hj as <-. cbn [op_deps op_val].
    by eapply mogen_op_wf.
Qed.

(** ** the refinement theorem *)
Theorem mapor_values_refine (H : list (oprec (mop oop))) : mohist_ok H →
  ∀ (s : cmap orswot) (K : gset nat), moreach H s K →
    ∀ k, mo_state_entries s k = mo_entries (known_ops H K) k.
Proof. intros Hok s K Hr k. apply mo_refine; [done|by apply mohist_facts|done]. Qed.

(** * Part 5: corollaries *)

(** 1. the monitor's executable check holds of every reachable state *)
Theorem mapor_valspec_ok H s K : mohist_ok H → moreach H s K → movalspec_ok H K s = true.
Proof.
  intros Hok Hr. unfold movalspec_ok. apply andb_true_intro. split.
  - apply forallb_forall. intros k _. apply bool_decide_eq_true. by apply mapor_values_refine.
  - apply bool_decide_eq_true.
    pose proof (maphist_ok_wf vo H (mohist_maphist H Hok)) as HH.
    destruct (map_keys_reach_mspec vo H HH s K (moreach_mapreach H s K Hok Hr)) as (_ & Ek & _).
    unfold mkeys in Ek. rewrite Ek. unfold mspec_keys. intros k.
    rewrite !elem_of_list_to_set, elem_of_list_In, filter_In, <- elem_of_list_In. tauto.
Qed.

(** 2. the sentence of C05 for the members of the set stored under a key: [m] is a member
    iff some applied add of [m] under [k] is covered neither by an applied key remove
    naming [k] nor by an applied nested remove under [k] naming [m] *)
Theorem mapor_member_iff H s K k m : mohist_ok H → moreach H s K →
  m ∈ dom (mo_state_entries s k) ↔
    ∃ d0 d ms, MUp d0 k (OAdd d ms) ∈ known_ops H K ∧ m ∈ ms ∧
      ¬ (∃ c ks, MRm c ks ∈ known_ops H K ∧ k ∈ ks ∧ dcounter d <= vget c (dactor d)) ∧
      ¬ (∃ d1 c ms', MUp d1 k (ORm c ms') ∈ known_ops H K ∧ m ∈ ms' ∧ dcounter d <= vget c (dactor d)).
Proof.
  intros Hok Hr. rewrite (mapor_values_refine H Hok s K Hr k), elem_of_dom, mo_entries_lookup.
  set (os := known_ops H K). split.
  - intros Hs. destruct (mo_live_dots os k m) as [|d l] eqn:El.
    { unfold mo_entry in Hs. rewrite El, dots_clock_nil in Hs. by destruct Hs. }
    assert (d ∈ mo_live_dots os k m) as Hd by (rewrite El; by left).
    apply elem_of_mo_live_dots in Hd as [(d0 & ms & Hin & Hm) Hc]. apply mo_covered_false in Hc.
    exists d0, d, ms. split_and!; [done|done|tauto|tauto].
  - intros (d0 & d & ms & Hin & Hm & Hn1 & Hn2).
    assert (d ∈ mo_live_dots os k m) as Hd.
    { apply elem_of_mo_live_dots. split; [by exists d0, ms|]. apply mo_covered_false. tauto. }
    assert (dcounter d ≠ 0) as Hpos.
    { pose proof Hin as (i & r & Hi & HiK & Hv)%elem_of_known_ops.
      pose proof (mohist_facts H Hok i r Hi) as Hsh. rewrite Hv in Hsh. cbn in Hsh. subst d0.
      by destruct (up_gate H Hok s K i r d k _ Hr Hi Hv) as (_ & _ & ?). }
    assert (mo_entry os k m ≠ ∅) as Hne.
    { apply (vne_get _ (dactor d)). rewrite mo_entry_get.
      pose proof (max_ctr_ge _ _ _ Hd eq_refl). lia. }
    apply vis_empty_false in Hne. rewrite Hne. by eexists.
Qed.

(** 3. the remove context a nested [contains] hands out is the join of the surviving
    witnesses *)
Theorem mapor_contains_ctx H s K k e m : mohist_ok H → moreach H s K → mentries s !! k = Some e →
  rm_clock (ocontains (eval e) m) = mo_entry (known_ops H K) k m ∧
  (rval (ocontains (eval e) m) = true ↔ m ∈ dom (mo_state_entries s k)).
Proof.
  intros Hok Hr He. pose proof (mapor_values_refine H Hok s K Hr k) as E.
  unfold mo_state_entries in *. rewrite He in *. cbn [ocontains rm_clock rval]. split.
  - by rewrite E, mo_entries_default.
  - by rewrite bool_decide_eq_true, elem_of_dom.
Qed.

(** 4. convergence (C01 for [Map<K, Orswot>]): equal knowledge gives the same keys, the same
    clocks and the same member tables, whatever the causal delivery order *)
Theorem mapor_converge H s1 s2 K : mohist_ok H → moreach H s1 K → moreach H s2 K →
  (∀ k, mo_state_entries s1 k = mo_state_entries s2 k) ∧
  dom (mentries s1) = dom (mentries s2) ∧
  mclock s1 = mclock s2 ∧
  (∀ k, mentry_clock s1 k = mentry_clock s2 k) ∧
  mdeferred s1 = mdeferred s2 ∧
  (∀ k e1 e2, mentries s1 !! k = Some e1 → mentries s2 !! k = Some e2 →
     eclock e1 = eclock e2 ∧ oentries (eval e1) = oentries (eval e2)).
Proof.
  intros Hok H1 H2.
  pose proof (maphist_ok_wf vo H (mohist_maphist H Hok)) as HH.
  pose proof (moreach_mapreach H s1 K Hok H1) as R1. pose proof (moreach_mapreach H s2 K Hok H2) as R2.
  destruct (map_keys_reach_mspec vo H HH s1 K R1) as (C1 & D1 & E1 & F1).
  destruct (map_keys_reach_mspec vo H HH s2 K R2) as (C2 & D2 & E2 & F2).
  assert (∀ k, mo_state_entries s1 k = mo_state_entries s2 k) as Hv.
  { intros k. by rewrite (mapor_values_refine H Hok s1 K H1 k), (mapor_values_refine H Hok s2 K H2 k). }
  assert (∀ k, mentry_clock s1 k = mentry_clock s2 k) as He by (intros k; by rewrite E1, E2).
  split_and!; [done|unfold mkeys in *; congruence|congruence|done|congruence|].
  intros k e1 e2 L1 L2. specialize (Hv k). specialize (He k).
  unfold mo_state_entries, mentry_clock in *. rewrite L1, L2 in *. done.
Qed.

(** 5. duplicates are absorbed (C09) *)
Theorem mapor_dup_absorb H s K i o : mohist_ok H → moreach H s K → H !! i = Some o → i ∈ K →
  adm_causal H K i →
  ∀ k, mo_state_entries (mapply vo s (op_val o)) k = mo_state_entries s k.
Proof.
  intros Hok Hr Hi HiK Ha k.
  assert (moreach H (mapply vo s (op_val o)) (K ∪ {[i]})) as Hr' by (by eapply reach_apply).
  replace (K ∪ {[i]}) with K in Hr' by set_solver.
  by rewrite (mapor_values_refine H Hok _ K Hr' k), (mapor_values_refine H Hok s K Hr k).
Qed.

(** ** non-vacuity: actors 1 and 2 concurrently add members under key 7 (1: {10, 11},
    2: {10, 12}); actor 1 then removes member 10 with the context its own [contains(10)]
    gave it, actor 2 concurrently removes key 7 with the context of its own [get(7)].
    The history is API-generated; the replica that has applied all four ops (in either of
    two causal orders) is reachable and holds exactly member 11 under key 7, witnessed by
    actor 1's add dot: member 10 lost actor 1's witness to the nested remove and actor 2's
    to the key remove, member 12 lost its only witness to the key remove. *)
Section example.
  Let o0 : mop oop := MUp (Dot 1 1) 7 (OAdd (Dot 1 1) [10; 11]).
  Let o1 : mop oop := MUp (Dot 2 1) 7 (OAdd (Dot 2 1) [10; 12]).
  Let o2 : mop oop := MUp (Dot 1 2) 7 (ORm {[1 := 1]} [10]).
  Let o3 : mop oop := MRm {[2 := 1]} {[7]}.
  Let H : list (oprec (mop oop)) :=
    [OpRec 1 o0 ∅; OpRec 2 o1 ∅; OpRec 1 o2 (∅ ∪ {[0%nat]}); OpRec 2 o3 (∅ ∪ {[1%nat]})].
  Let K : gset nat := ∅ ∪ {[0%nat]} ∪ {[1%nat]} ∪ {[2%nat]} ∪ {[3%nat]}.
  Let K' : gset nat := ∅ ∪ {[1%nat]} ∪ {[3%nat]} ∪ {[0%nat]} ∪ {[2%nat]}.
  Let s := mapply vo (mapply vo (mapply vo (mapply vo mnew o0) o1) o2) o3.
  Let s' := mapply vo (mapply vo (mapply vo (mapply vo mnew o1) o3) o0) o2.

  Example mapor_example :
    mohist_ok H ∧ moreach H s K ∧ moreach H s' K' ∧ K' = K ∧
    known_ops H K = [o0; o1; o2; o3] ∧
    mo_state_entries s 7 = {[11 := {[1 := 1]}]} ∧
    mo_state_entries s' 7 = {[11 := {[1 := 1]}]} ∧
    mo_entries (known_ops H K) 7 = {[11 := {[1 := 1]}]} ∧
    mo_live_dots (known_ops H K) 7 10 = [] ∧
    mo_live_dots (known_ops H K) 7 11 = [Dot 1 1] ∧
    mo_live_dots (known_ops H K) 7 12 = [] ∧
    movalspec_ok H K s = true.
  Proof.
    assert (∀ (H' : list (oprec (mop oop))) K0 i r, H' !! i = Some r → op_deps r ⊆ K0 → adm_causal H' K0 i) as Hadm.
    { intros H' K0 i r Hi Hd. by exists r. }
    assert (mohist_ok H) as Hok.
    { change H with (((([] ++ [OpRec 1 o0 ∅]) ++ [OpRec 2 o1 ∅]) ++ [OpRec 1 o2 (∅ ∪ {[0%nat]})])
                       ++ [OpRec 2 o3 (∅ ∪ {[1%nat]})]).
      apply (hist_snoc _ _ _ _ _ _ _ (mapply vo mnew o1) _ 2 (MOKeyRm {[7]} (Some 7))).
      - apply (hist_snoc _ _ _ _ _ _ _ (mapply vo mnew o0) _ 1 (MORm 7 [10] (Some 10))).
        + apply (hist_snoc _ _ _ _ _ _ _ mnew _ 2 (MOAdd 7 [10; 12])).
          * apply (hist_snoc _ _ _ _ _ _ _ mnew _ 1 (MOAdd 7 [10; 11])); [constructor|constructor| |by vm_compute].
            intros j r Hj. by rewrite lookup_nil in Hj.
          * constructor.
          * intros [|j] r Hj Ha; cbn in Hj; simplify_eq.
          * by vm_compute.
        + apply (reach_apply _ _ _ _ _ _ mnew ∅ 0%nat (OpRec 1 o0 ∅)); [constructor|done|].
          eapply Hadm; [done|]. apply (bool_decide_unpack _). by vm_compute.
        + intros [|[|j]] r Hj Ha; cbn in Hj; simplify_eq. set_solver.
        + by vm_compute.
      - apply (reach_apply _ _ _ _ _ _ mnew ∅ 1%nat (OpRec 2 o1 ∅)); [constructor|done|].
        eapply Hadm; [done|]. apply (bool_decide_unpack _). by vm_compute.
      - intros [|[|[|j]]] r Hj Ha; cbn in Hj; simplify_eq. set_solver.
      - by vm_compute. }
    split_and!.
    - done.
    - apply (reach_apply _ _ _ _ _ _ _ _ 3%nat (OpRec 2 o3 (∅ ∪ {[1%nat]}))); [|done|eapply Hadm; [done|apply (bool_decide_unpack _); by vm_compute]].
      apply (reach_apply _ _ _ _ _ _ _ _ 2%nat (OpRec 1 o2 (∅ ∪ {[0%nat]}))); [|done|eapply Hadm; [done|apply (bool_decide_unpack _); by vm_compute]].
      apply (reach_apply _ _ _ _ _ _ _ _ 1%nat (OpRec 2 o1 ∅)); [|done|eapply Hadm; [done|apply (bool_decide_unpack _); by vm_compute]].
      apply (reach_apply _ _ _ _ _ _ _ _ 0%nat (OpRec 1 o0 ∅)); [constructor|done|eapply Hadm; [done|apply (bool_decide_unpack _); by vm_compute]].
    - apply (reach_apply _ _ _ _ _ _ _ _ 2%nat (OpRec 1 o2 (∅ ∪ {[0%nat]}))); [|done|eapply Hadm; [done|apply (bool_decide_unpack _); by vm_compute]].
      apply (reach_apply _ _ _ _ _ _ _ _ 0%nat (OpRec 1 o0 ∅)); [|done|eapply Hadm; [done|apply (bool_decide_unpack _); by vm_compute]].
      apply (reach_apply _ _ _ _ _ _ _ _ 3%nat (OpRec 2 o3 (∅ ∪ {[1%nat]}))); [|done|eapply Hadm; [done|apply (bool_decide_unpack _); by vm_compute]].
      apply (reach_apply _ _ _ _ _ _ _ _ 1%nat (OpRec 2 o1 ∅)); [constructor|done|eapply Hadm; [done|apply (bool_decide_unpack _); by vm_compute]].
    - apply (bool_decide_unpack _). by vm_compute.
    - by vm_compute.
    - apply (bool_decide_unpack _). by vm_compute.
    - apply (bool_decide_unpack _). by vm_compute.
    - apply (bool_decide_unpack _). by vm_compute.
    - by vm_compute.
    - by vm_compute.
    - by vm_compute.
    - by vm_compute.
  Qed.
End example.

Print Assumptions mo_step.
Print Assumptions mo_inv_reach.
Print Assumptions mohist_facts.
Print Assumptions mapor_values_refine.
Print Assumptions mapor_valspec_ok.
Print Assumptions mapor_member_iff.
Print Assumptions mapor_contains_ctx.
Print Assumptions mapor_converge.
Print Assumptions mapor_dup_absorb.
Print Assumptions mapor_example.
